(** C19 — the chronological replay of a well-formed dag: for every order in which the pending events
    are processed, every leaf goes through ready, start, last_start, end exactly once, no other node is
    touched, and the replay ends with nothing running or ready.  A Kahn-style argument on the facts of
    [dag_wf] (single source, every other leaf with an incoming edge, acyclic, edge ranges exact). *)
From Coq Require Import ZArith List Bool Lia Arith Permutation Sorted.
From MT Require Import DagFile.FlattenModel DagFile.PruneModel DagFile.ChronoModel DagFile.DagSpec
  DagFile.TreeLemmas DagFile.SortProofs DagFile.EdgeProofs DagFile.FlattenProofs DagFile.PruneTree DagFile.PruneLoop.
From MT Require DagFile.OrderProofs.
Import ListNotations.
Local Open Scope Z_scope.

(** * lists *)
Lemma remove_nth_perm : forall (A : Type) k (l : list A) a r, remove_nth k l = Some (a, r) -> Permutation l (a :: r).
Proof.
  intros A k. induction k as [|k IH]; intros [|x l] a r H; try discriminate.
  - injection H as <- <-. apply Permutation_refl.
  - cbn [remove_nth] in H. destruct (remove_nth k l) as [[y r']|] eqn:E; [|discriminate].
    injection H as <- <-. eapply Permutation_trans; [apply perm_skip, (IH _ _ _ E) | apply perm_swap].
Qed.

Lemma remove_nth_some : forall (A : Type) k (l : list A), (k < length l)%nat -> exists a r, remove_nth k l = Some (a, r).
Proof.
  intros A k. induction k as [|k IH]; intros [|x l] H; cbn [length] in H; try lia.
  - now exists x, l.
  - destruct (IH l ltac:(lia)) as (a & r & E). cbn [remove_nth]. rewrite E. now exists a, (x :: r).
Qed.

Definition kinds_upto (k : nat) : list Z := map Z.of_nat (seq 0 k).

Lemma kinds_upto_S : forall k, kinds_upto (S k) = kinds_upto k ++ [Z.of_nat k].
Proof. intros k. unfold kinds_upto. now rewrite seq_S, map_app. Qed.

Lemma kinds_upto_length : forall k, length (kinds_upto k) = k.
Proof. intros k. unfold kinds_upto. now rewrite map_length, seq_length. Qed.

Lemma events_of_cons : forall e l u,
  events_of (e :: l) u = events_of l u ++ (if enode e =? u then [ekind e] else []).
Proof.
  intros e l u. unfold events_of. cbn [rev]. rewrite filter_app, map_app. cbn [filter].
  destruct (enode e =? u); reflexivity.
Qed.

(** * counting edges *)
Definition ecount (P : edge -> bool) (E : list edge) : Z := Z.of_nat (length (filter P E)).
Definition incount (E : list edge) (v : Z) : Z := ecount (fun e => ev e =? v) E.

Lemma ecount_cons : forall P e r, ecount P (e :: r) = (if P e then 1 else 0) + ecount P r.
Proof. intros P e r. unfold ecount. cbn [filter]. destruct (P e); cbn [length]; lia. Qed.

Lemma ecount_app : forall P a b, ecount P (a ++ b) = ecount P a + ecount P b.
Proof. intros P a b. unfold ecount. rewrite filter_app, app_length. lia. Qed.

Lemma ecount_nonneg : forall P E, 0 <= ecount P E.
Proof. intros. unfold ecount. lia. Qed.

Lemma ecount_pos_in : forall P E, 0 < ecount P E -> exists e, In e E /\ P e = true.
Proof.
  intros P E H. unfold ecount in H. destruct (filter P E) as [|e r] eqn:Ef; [cbn in H; lia|].
  exists e. apply filter_In. rewrite Ef. now left.
Qed.

Lemma ecount_zero : forall P E, (forall e, In e E -> P e = false) -> ecount P E = 0.
Proof.
  intros P E. induction E as [|e r IH]; intros H; [reflexivity|].
  rewrite ecount_cons, (H e) by now left. rewrite IH; [reflexivity|]. intros f Hf. apply H. now right.
Qed.

Lemma ecount_ext : forall P Q E, (forall e, In e E -> P e = Q e) -> ecount P E = ecount Q E.
Proof.
  intros P Q E. induction E as [|e r IH]; intros H; [reflexivity|].
  rewrite !ecount_cons, (H e) by now left. rewrite IH; [reflexivity|]. intros f Hf. apply H. now right.
Qed.

(** ready_count[] after the initial loop *)
Lemma getz_setz : forall c k v l, 0 <= c < Z.of_nat (length l) ->
  getz c (setz k v l) = if k =? c then v else getz c l.
Proof.
  intros c k v l Hc. unfold getz. destruct (c <? 0) eqn:E; [apply Z.ltb_lt in E; lia|].
  rewrite nth_setz by lia. now rewrite Z2Nat.id by lia.
Qed.

Lemma incr_length : forall k d l, length (incr k d l) = length l.
Proof. intros. unfold incr. apply setz_length. Qed.

Lemma getz_incr : forall c k d l, 0 <= c < Z.of_nat (length l) ->
  getz c (incr k d l) = if k =? c then getz c l + d else getz c l.
Proof.
  intros c k d l Hc. unfold incr. rewrite getz_setz by exact Hc.
  destruct (k =? c) eqn:E; [apply Z.eqb_eq in E; now subst|reflexivity].
Qed.

Lemma ready_counts_spec : forall n E, length (ready_counts n E) = n /\
  forall v, 0 <= v < Z.of_nat n -> getz v (ready_counts n E) = incount E v.
Proof.
  intros n E. unfold ready_counts.
  assert (G : forall E l, length (fold_left (fun rc e => incr (ev e) 1 rc) E l) = length l /\
              forall v, 0 <= v < Z.of_nat (length l) ->
                getz v (fold_left (fun rc e => incr (ev e) 1 rc) E l) = getz v l + incount E v).
  { clear. induction E as [|e r IH]; intros l.
    - split; [reflexivity|]. intros v Hv. unfold incount, ecount. cbn. lia.
    - cbn [fold_left]. destruct (IH (incr (ev e) 1 l)) as [A B]. rewrite incr_length in A, B.
      split; [exact A|]. intros v Hv. rewrite (B v Hv), getz_incr by exact Hv.
      unfold incount. rewrite ecount_cons. destruct (ev e =? v); lia. }
  destruct (G E (repeat 0 n)) as [A B]. rewrite repeat_length in A, B. split; [exact A|].
  intros v Hv. rewrite (B v Hv). unfold getz. destruct (v <? 0) eqn:E0; [apply Z.ltb_lt in E0; lia|].
  assert (Hr : forall k j, nth j (repeat 0 k) MAP_INIT = if (j <? k)%nat then 0 else MAP_INIT).
  { clear. induction k as [|k IH]; intros [|j]; cbn [repeat nth]; try reflexivity. rewrite IH. reflexivity. }
  rewrite Hr. destruct (Z.to_nat v <? n)%nat eqn:E1; [lia | apply Nat.ltb_ge in E1; lia].
Qed.

(** * the loop over the out-edges of a node that ends *)
Lemma firstn_skipn_S : forall (A : Type) (l : list A) j c a r,
  firstn (S c) (skipn j l) = a :: r -> nth_error l j = Some a /\ firstn c (skipn (S j) l) = r.
Proof.
  intros A l j. revert l. induction j as [|j IH]; intros l c a r H.
  - destruct l as [|x l]; [discriminate|]. cbn [skipn firstn] in H. injection H as <- <-. split; reflexivity.
  - destruct l as [|x l]; [cbn in H; discriminate|]. cbn [skipn] in H. apply IH in H. exact H.
Qed.

Definition ready_ev (tend u : Z) (e : edge) : event := mk_event tend EV_ready (ev e) u (ek e).

Lemma end_edges_spec : forall cnt E j u tend rc newev out,
  0 <= j -> firstn cnt (skipn (Z.to_nat j) E) = out -> length out = cnt ->
  (forall e, In e out -> eu e = u /\ 0 <= ev e < Z.of_nat (length rc)) ->
  (forall f, In f out -> 0 <= getz (ev f) rc - ecount (fun e => ev e =? ev f) out) ->
  exists rc' nw, end_edges E j cnt u tend rc newev = Some (rc', newev ++ nw) /\ length rc' = length rc /\
    (forall v, 0 <= v < Z.of_nat (length rc) -> getz v rc' = getz v rc - ecount (fun e => ev e =? v) out) /\
    NoDup (map enode nw) /\
    (forall x, In x nw -> ekind x = EV_ready /\ (exists e, In e out /\ enode x = ev e) /\
                          0 < getz (enode x) rc /\ getz (enode x) rc' = 0) /\
    (forall v, 0 <= v < Z.of_nat (length rc) -> 0 < getz v rc -> getz v rc' = 0 -> In v (map enode nw)).
Proof.
  induction cnt as [|c IH]; intros E j u tend rc newev out Hj Hout Hlen Hin Hnn.
  - destruct out; [|discriminate]. exists rc, []. cbn [end_edges]. rewrite app_nil_r.
    split; [reflexivity|]. split; [reflexivity|]. split.
    + intros v Hv. unfold ecount. cbn. lia.
    + split; [constructor|]. split; [intros x []|]. intros v Hv H1 H2. lia.
  - destruct out as [|e out']; [discriminate|]. cbn [length] in Hlen.
    destruct (firstn_skipn_S _ _ _ _ _ _ Hout) as [Hn Hout'].
    destruct (Hin e (or_introl eq_refl)) as [Heu Hev].
    set (rc1 := incr (ev e) (-1) rc).
    assert (Hl1 : length rc1 = length rc) by apply incr_length.
    assert (Hg1 : forall v, 0 <= v < Z.of_nat (length rc) -> getz v rc1 = getz v rc - (if ev e =? v then 1 else 0)).
    { intros v Hv. unfold rc1. rewrite getz_incr by exact Hv. destruct (ev e =? v); lia. }
    set (newev1 := if getz (ev e) rc1 =? 0 then newev ++ [mk_event tend EV_ready (ev e) u (ek e)] else newev).
    assert (Hstep : end_edges E j (S c) u tend rc newev = end_edges E (j + 1) c u tend rc1 newev1).
    { cbn [end_edges]. destruct (j <? 0) eqn:E0; [apply Z.ltb_lt in E0; lia|]. rewrite Hn, Heu, Z.eqb_refl. reflexivity. }
    rewrite Hstep.
    destruct (IH E (j + 1) u tend rc1 newev1 out') as (rc' & nw' & Hee & Hl' & Hg' & Hnd' & Hx' & Hall').
    + lia.
    + replace (Z.to_nat (j + 1)) with (S (Z.to_nat j)) by lia. exact Hout'.
    + lia.
    + intros f Hf. rewrite Hl1. apply Hin. now right.
    + intros f Hf. assert (Hfr : 0 <= ev f < Z.of_nat (length rc)) by (apply Hin; now right).
      rewrite (Hg1 _ Hfr). specialize (Hnn f (or_intror Hf)). rewrite ecount_cons in Hnn. lia.
    + rewrite Hl1 in *.
      assert (Hfin : forall v, 0 <= v < Z.of_nat (length rc) ->
                getz v rc' = getz v rc - ecount (fun e0 => ev e0 =? v) (e :: out')).
      { intros v Hv. rewrite (Hg' v Hv), (Hg1 v Hv), ecount_cons. lia. }
      assert (Hle : forall v, 0 <= v < Z.of_nat (length rc) -> getz v rc1 <= getz v rc).
      { intros v Hv. rewrite (Hg1 v Hv). destruct (ev e =? v); lia. }
      assert (Hxr : forall x, In x nw' -> 0 <= enode x < Z.of_nat (length rc)).
      { intros x Hx. destruct (Hx' x Hx) as (_ & (f & Hf & ->) & _). apply Hin. now right. }
      unfold newev1 in Hee |- *. clear Hstep newev1. destruct (getz (ev e) rc1 =? 0) eqn:Ez.
      * apply Z.eqb_eq in Ez.
        exists rc', (mk_event tend EV_ready (ev e) u (ek e) :: nw').
        split; [rewrite Hee, <- app_assoc; reflexivity|]. split; [exact Hl'|]. split; [exact Hfin|].
        assert (Hz : ecount (fun e0 => ev e0 =? ev e) out' = 0).
        { specialize (Hnn e (or_introl eq_refl)). rewrite ecount_cons, Z.eqb_refl in Hnn. rewrite (Hg1 _ Hev), Z.eqb_refl in Ez.
          pose proof (ecount_nonneg (fun e0 => ev e0 =? ev e) out'). lia. }
        split; [|split].
        -- cbn [map enode]. constructor; [|exact Hnd'].
           intros Hi. apply in_map_iff in Hi. destruct Hi as (x & Hxe & Hx). destruct (Hx' x Hx) as (_ & _ & Hp & _).
           rewrite Hxe in Hp. lia.
        -- intros x [<-|Hx].
           ++ cbn [ekind enode]. split; [reflexivity|]. split; [exists e; split; [now left | reflexivity]|].
              rewrite (Hg1 _ Hev), Z.eqb_refl in Ez. split; [lia|]. rewrite (Hg' _ Hev), Hz, (Hg1 _ Hev), Z.eqb_refl. lia.
           ++ destruct (Hx' x Hx) as (A & (f & Hf & B) & C & D). split; [exact A|]. split; [exists f; split; [now right | exact B]|].
              split; [|exact D]. specialize (Hle _ (Hxr x Hx)). lia.
        -- intros v Hv H1 H2. cbn [map enode]. destruct (Z.eq_dec (ev e) v) as [->|Hne]; [now left|].
           right. apply Hall'; [exact Hv | | exact H2]. rewrite (Hg1 v Hv). destruct (ev e =? v) eqn:E1; [apply Z.eqb_eq in E1; contradiction | lia].
      * apply Z.eqb_neq in Ez. exists rc', nw'.
        split; [exact Hee|]. split; [exact Hl'|]. split; [exact Hfin|]. split; [exact Hnd'|]. split.
        -- intros x Hx. destruct (Hx' x Hx) as (A & (f & Hf & B) & C & D). split; [exact A|]. split; [exists f; split; [now right | exact B]|].
           split; [|exact D]. specialize (Hle _ (Hxr x Hx)). lia.
        -- intros v Hv H1 H2. apply Hall'; [exact Hv | | exact H2].
           destruct (Z.eq_dec (ev e) v) as [<-|Hne].
           ++ specialize (Hnn e (or_introl eq_refl)). rewrite ecount_cons, Z.eqb_refl in Hnn.
              pose proof (ecount_nonneg (fun e0 => ev e0 =? ev e) out'). rewrite (Hg1 _ Hev), Z.eqb_refl in Ez |- *. lia.
           ++ rewrite (Hg1 v Hv). destruct (ev e =? v) eqn:E1; [apply Z.eqb_eq in E1; contradiction | lia].
Qed.

(** * the out-edges of a node are exactly the slice [edges_begin, edges_end) *)
Lemma in_firstn_nth : forall (A : Type) (l : list A) k a, In a (firstn k l) -> exists j, (j < k)%nat /\ nth_error l j = Some a.
Proof.
  intros A l k. revert l. induction k as [|k IH]; intros l a H; [contradiction|].
  destruct l as [|x l]; [contradiction|]. cbn [firstn] in H. destruct H as [<-|H].
  - exists O. split; [lia | reflexivity].
  - destruct (IH l a H) as (j & Hj & Hn). exists (S j). split; [lia | exact Hn].
Qed.

Lemma in_skipn_nth : forall (A : Type) (l : list A) k a, In a (skipn k l) -> exists j, (k <= j)%nat /\ nth_error l j = Some a.
Proof.
  intros A l k. revert l. induction k as [|k IH]; intros l a H.
  - apply In_nth_error in H. destruct H as (j & Hj). exists j. split; [lia | exact Hj].
  - destruct l as [|x l]; [contradiction|]. cbn [skipn] in H. destruct (IH l a H) as (j & Hj & Hn).
    exists (S j). split; [lia | exact Hn].
Qed.

Lemma slice_count : forall (E : list edge) (b c : nat) (u : Z) (P : edge -> bool),
  (b <= c)%nat -> (c <= length E)%nat ->
  (forall j e, nth_error E j = Some e -> ((b <= j < c)%nat <-> eu e = u)) ->
  let out := firstn (c - b) (skipn b E) in
  length out = (c - b)%nat /\ (forall e, In e out -> eu e = u) /\
  ecount (fun e => P e && (eu e =? u)) E = ecount P out.
Proof.
  intros E b c u P Hbc Hc Hr out.
  assert (HE : E = firstn b E ++ out ++ skipn (c - b) (skipn b E)).
  { unfold out. now rewrite firstn_skipn, firstn_skipn. }
  split; [|split].
  - unfold out. rewrite firstn_length, skipn_length. lia.
  - intros e He. unfold out in He. apply in_firstn_nth in He. destruct He as (j & Hj & Hn).
    assert (Hn' : nth_error E (b + j) = Some e).
    { rewrite <- Hn. clear. revert E. induction b as [|b IH]; intros E; [reflexivity|]. destruct E as [|x E]; [now destruct j|]. apply IH. }
    apply (Hr _ _ Hn'). lia.
  - rewrite HE at 1. rewrite !ecount_app.
    assert (H1 : ecount (fun e => P e && (eu e =? u)) (firstn b E) = 0).
    { apply ecount_zero. intros e He. apply in_firstn_nth in He. destruct He as (j & Hj & Hn).
      destruct (eu e =? u) eqn:Eq; [|apply andb_false_r]. apply Z.eqb_eq in Eq. apply (Hr _ _ Hn) in Eq. lia. }
    assert (H3 : ecount (fun e => P e && (eu e =? u)) (skipn (c - b) (skipn b E)) = 0).
    { apply ecount_zero. intros e He. rewrite skipn_add in He. apply in_skipn_nth in He. destruct He as (j & Hj & Hn).
      destruct (eu e =? u) eqn:Eq; [|apply andb_false_r]. apply Z.eqb_eq in Eq. apply (Hr _ _ Hn) in Eq. lia. }
    rewrite H1, H3. rewrite (ecount_ext (fun e => P e && (eu e =? u)) P out); [lia|].
    intros e He. unfold out in He. apply in_firstn_nth in He. destruct He as (j & Hj & Hn).
    assert (Hn' : nth_error E (b + j) = Some e).
    { rewrite <- Hn. clear. revert E. induction b as [|b IH]; intros E; [reflexivity|]. destruct E as [|x E]; [now destruct j|]. apply IH. }
    assert (Heu : eu e = u) by (apply (Hr _ _ Hn'); lia). rewrite Heu, Z.eqb_refl. apply andb_true_r.
Qed.


Lemma ecount_split : forall P Q R E, (forall f, In f E -> P f = Q f || R f) -> (forall f, In f E -> Q f && R f = false) ->
  ecount P E = ecount Q E + ecount R E.
Proof.
  intros P Q R E. induction E as [|e r IH]; intros H1 H2; [reflexivity|].
  rewrite !ecount_cons, (H1 e) by now left. pose proof (H2 e (or_introl eq_refl)) as H2e.
  rewrite IH; [|intros f Hf; apply H1; now right | intros f Hf; apply H2; now right].
  destruct (Q e); destruct (R e); cbn [orb andb] in *; try discriminate; lia.
Qed.

Lemma ecount_le : forall P Q E, (forall f, In f E -> P f = true -> Q f = true) -> ecount P E <= ecount Q E.
Proof.
  intros P Q E. induction E as [|e r IH]; intros H; [reflexivity|].
  rewrite !ecount_cons. specialize (IH (fun f Hf => H f (or_intror Hf))).
  pose proof (H e (or_introl eq_refl)) as He. destruct (P e); destruct (Q e); try lia.
  all: specialize (He eq_refl); discriminate.
Qed.

Lemma incl_firstn_skipn : forall (A : Type) (l : list A) b k a, In a (firstn k (skipn b l)) -> In a l.
Proof.
  intros A l b k a H. apply in_firstn_nth in H. destruct H as (j & _ & Hn). apply nth_error_In in Hn.
  apply in_skipn_nth in Hn. destruct Hn as (i & _ & Hi). eapply nth_error_In; exact Hi.
Qed.

(** * the invariant of the replay *)
Definition pcount (P : event -> bool) (l : list event) : Z := Z.of_nat (length (filter P l)).

Lemma pcount_perm : forall P l l', Permutation l l' -> pcount P l = pcount P l'.
Proof.
  intros P l l' H. unfold pcount. f_equal. induction H as [|x l l' _ IH|x y l|l l' l'' _ IH1 _ IH2]; cbn [filter].
  - reflexivity.
  - destruct (P x); cbn [length]; lia.
  - destruct (P x); destruct (P y); reflexivity.
  - lia.
Qed.

Lemma pcount_cons : forall P e r, pcount P (e :: r) = (if P e then 1 else 0) + pcount P r.
Proof. intros P e r. unfold pcount. cbn [filter]. destruct (P e); cbn [length]; lia. Qed.

Lemma pcount_app : forall P a b, pcount P (a ++ b) = pcount P a + pcount P b.
Proof. intros P a b. unfold pcount. rewrite filter_app, app_length. lia. Qed.

Lemma pcount_zero : forall P l, (forall e, In e l -> P e = false) -> pcount P l = 0.
Proof.
  intros P l. induction l as [|e r IH]; intros H; [reflexivity|].
  rewrite pcount_cons, (H e) by now left. rewrite IH; [reflexivity|]. intros f Hf. apply H. now right.
Qed.

Lemma count_kind_cons : forall kd e l, count_kind kd (e :: l) = (if ekind e =? kd then 1 else 0) + count_kind kd l.
Proof. intros kd e l. unfold count_kind. cbn [filter]. destruct (ekind e =? kd); cbn [length]; lia. Qed.

Definition in_run (e : event) : bool := (ekind e =? EV_last_start) || (ekind e =? EV_end).
Definition in_rdy (e : event) : bool := (ekind e =? EV_start) || (ekind e =? EV_last_start).

Definition keys (l : list event) : list (Z * Z) := map (fun e => (enode e, ekind e)) l.

Section Replay.
  Variable G : pidag.
  Hypothesis Hwf : dag_wf G.
  Local Notation T := (gT G).
  Local Notation E := (gE G).
  Local Notation n := (length (gT G)).
  Variable s : Z.
  Hypothesis Hs : first_leaf n T 0 = Some s.
  Hypothesis Hs_in : forall e, In e E -> ev e <> s.
  Hypothesis Hs_others : forall v, leaf_at T v -> v <> s -> exists e, In e E /\ ev e = v.
  Variable rank : Z -> nat.
  Hypothesis Hrank : forall e, In e E -> (rank (eu e) < rank (ev e))%nat.

  Definition evs (st : cstate) (u : Z) : list Z := events_of (elog st) u.
  Definition doneb (st : cstate) (u : Z) : bool := (length (evs st u) =? 4)%nat.
  Definition donein (st : cstate) (v : Z) : Z := ecount (fun e => (ev e =? v) && doneb st (eu e)) E.
  Definition active (st : cstate) (v : Z) : Prop := evs st v <> [] \/ In v (map enode (pend st)).

  Record inv (st : cstate) : Prop := mk_inv {
    iA : forall e, In e (pend st) -> leaf_at T (enode e) /\
           exists k, (k < 4)%nat /\ ekind e = Z.of_nat k /\ evs st (enode e) = kinds_upto k;
    iB : NoDup (map enode (pend st));
    iC : forall u, evs st u <> [] -> leaf_at T u /\
           exists k, (1 <= k <= 4)%nat /\ evs st u = kinds_upto k /\ ((k < 4)%nat -> In u (map enode (pend st)));
    iD : length (rcnt st) = n /\ forall v, leaf_at T v -> getz v (rcnt st) = incount E v - donein st v;
    iE : forall v, leaf_at T v -> v <> s -> (getz v (rcnt st) = 0 <-> active st v);
    iF : active st s;
    iG : NoDup (keys (elog st)) /\ forall u k, In (u, k) (keys (elog st)) -> 0 <= u < Z.of_nat n /\ 0 <= k < 4;
    iH : n_running (elog st) = pcount in_run (pend st) /\ n_ready (elog st) = pcount in_rdy (pend st) }.

  Lemma edge_leaves : forall e, In e E -> leaf_at T (eu e) /\ leaf_at T (ev e).
  Proof.
    intros e He. destruct (wf_endpoints G Hwf e He) as (xu & xv & H1 & H2 & H3 & H4).
    split; [exists xu | exists xv]; split; assumption.
  Qed.

  Lemma key_in_evs : forall l u k, In (u, k) (keys l) <-> In k (events_of l u).
  Proof.
    intros l u k. unfold keys, events_of. rewrite in_map_iff, in_map_iff. split.
    - intros (e & He & Hin). injection He as H1 H2. exists e. split; [exact H2|].
      apply filter_In. split; [now apply -> in_rev | now apply Z.eqb_eq].
    - intros (e & He & Hin). apply filter_In in Hin. destruct Hin as [Hin Hq]. apply Z.eqb_eq in Hq.
      exists e. split; [now rewrite Hq, He | now apply in_rev].
  Qed.

  Lemma in_kinds_upto : forall k j, In j (kinds_upto k) <-> 0 <= j < Z.of_nat k.
  Proof.
    intros k j. unfold kinds_upto. rewrite in_map_iff. split.
    - intros (i & <- & Hi). apply in_seq in Hi. lia.
    - intros H. exists (Z.to_nat j). split; [lia | apply in_seq; lia].
  Qed.

  (** the initial state *)
  Lemma inv_init : forall st0, chrono_init G = Some st0 -> inv st0.
  Proof.
    intros st0 H0. unfold chrono_init in H0. rewrite Hs in H0. injection H0 as <-.
    pose proof (first_leaf_leaf _ _ _ _ Hs) as Hsl.
    destruct (ready_counts_spec n E) as [Hrl Hrc].
    constructor; cbn [pend rcnt elog].
    - intros e [<-|[]]. cbn [enode ekind]. split; [exact Hsl|]. exists 0%nat. split; [lia|]. split; reflexivity.
    - constructor; [intros [] | constructor].
    - intros u Hu. exfalso. apply Hu. reflexivity.
    - split; [exact Hrl|]. intros v Hv. rewrite Hrc by (apply leaf_at_range; exact Hv).
      unfold donein. rewrite ecount_zero; [lia|]. intros e _. unfold doneb, evs. cbn. apply andb_false_r.
    - intros v Hv Hne. rewrite Hrc by (apply leaf_at_range; exact Hv). split.
      + intros Hz. destruct (Hs_others v Hv Hne) as (e & He & Hev). exfalso.
        unfold incount in Hz. apply in_split in He. destruct He as (l1 & l2 & HE). rewrite HE, ecount_app, ecount_cons in Hz.
        rewrite Hev, Z.eqb_refl in Hz. pose proof (ecount_nonneg (fun e0 => ev e0 =? v) l1). pose proof (ecount_nonneg (fun e0 => ev e0 =? v) l2). lia.
      + intros [Ha|Ha]; [exfalso; apply Ha; reflexivity|]. destruct Ha as [Ha|[]]. cbn in Ha. congruence.
    - right. now left.
    - split; [constructor | intros u k []].
    - split; reflexivity.
  Qed.

  (** ** processing an event *)
  Lemma evs_cons : forall p r e l w,
    evs (mk_cstate p r (e :: l)) w = events_of l w ++ (if enode e =? w then [ekind e] else []).
  Proof. intros. unfold evs. cbn [elog]. apply events_of_cons. Qed.

  Lemma perm_nodes : forall (p : list event) e rest, Permutation p (e :: rest) ->
    Permutation (map enode p) (enode e :: map enode rest).
  Proof. intros p e rest H. apply (Permutation_map enode) in H. exact H. Qed.

  Lemma n_running_cons : forall e l, n_running (e :: l) =
    n_running l + (if ekind e =? EV_start then 1 else 0) - (if ekind e =? EV_end then 1 else 0).
  Proof. intros e l. unfold n_running. rewrite !count_kind_cons. lia. Qed.

  Lemma n_ready_cons : forall e l, n_ready (e :: l) =
    n_ready l + (if ekind e =? EV_ready then 1 else 0) - (if ekind e =? EV_last_start then 1 else 0).
  Proof. intros e l. unfold n_ready. rewrite !count_kind_cons. lia. Qed.

  Lemma keys_step : forall st e k0, inv st -> In e (pend st) -> ekind e = Z.of_nat k0 -> (k0 < 4)%nat ->
    evs st (enode e) = kinds_upto k0 ->
    NoDup (keys (e :: elog st)) /\
    forall u k, In (u, k) (keys (e :: elog st)) -> 0 <= u < Z.of_nat n /\ 0 <= k < 4.
  Proof.
    intros st e k0 Hi He Hk Hk4 Hev. destruct (iG st Hi) as [Hnd Hr]. cbn [keys map]. fold (keys (elog st)). split.
    - constructor; [|exact Hnd]. intros Hin. apply key_in_evs in Hin. fold (evs st (enode e)) in Hin.
      rewrite Hev, Hk in Hin. apply in_kinds_upto in Hin. lia.
    - intros u k [Heq|Hin]; [|now apply Hr]. injection Heq as <- <-.
      destruct (iA st Hi e He) as [Hl _]. split; [now apply leaf_at_range | rewrite Hk; lia].
  Qed.

  Lemma inv_follow : forall st e rest e' k0, inv st -> Permutation (pend st) (e :: rest) ->
    ekind e = Z.of_nat k0 -> (k0 < 3)%nat -> enode e' = enode e -> ekind e' = Z.of_nat (S k0) ->
    inv (mk_cstate (rest ++ [e']) (rcnt st) (e :: elog st)).
  Proof.
    intros st e rest e' k0 Hi Hp Hk Hk3 Hn' Hk'.
    assert (Hein : In e (pend st)) by (eapply Permutation_in; [apply Permutation_sym; exact Hp | now left]).
    destruct (iA st Hi e Hein) as [Hleaf (k & Hk4 & Hke & Hev)].
    assert (k = k0) by lia. subst k. set (u := enode e) in *.
    pose proof (perm_nodes _ _ _ Hp) as Hpn. fold u in Hpn.
    assert (Hnd : NoDup (u :: map enode rest)) by (eapply Permutation_NoDup; [exact Hpn | exact (iB st Hi)]).
    assert (Hu : ~ In u (map enode rest)) by (inversion Hnd; assumption).
    set (st' := mk_cstate (rest ++ [e']) (rcnt st) (e :: elog st)).
    assert (Hevs : forall w, evs st' w = evs st w ++ (if u =? w then [Z.of_nat k0] else [])).
    { intros w. unfold st'. rewrite evs_cons. fold u. now rewrite Hk. }
    assert (Hevs_ne : forall w, w <> u -> evs st' w = evs st w).
    { intros w Hw. rewrite Hevs. destruct (u =? w) eqn:Eq; [apply Z.eqb_eq in Eq; congruence | apply app_nil_r]. }
    assert (Hevs_u : evs st' u = kinds_upto (S k0)).
    { rewrite Hevs, Z.eqb_refl, Hev. symmetry. apply kinds_upto_S. }
    assert (Hpend' : forall w, In w (map enode (rest ++ [e'])) <-> In w (map enode (pend st))).
    { intros w. rewrite map_app, in_app_iff. cbn [map In]. rewrite Hn'. fold u. split.
      - intros [H|[H|[]]]; eapply Permutation_in; try (apply Permutation_sym; exact Hpn); [now right | now left].
      - intros H. apply (Permutation_in _ Hpn) in H. destruct H as [H|H]; [right; now left | now left]. }
    assert (Hdone : forall w, doneb st' w = doneb st w).
    { intros w. unfold doneb. destruct (Z.eq_dec w u) as [->|Hw].
      - rewrite Hevs_u, Hev, !kinds_upto_length.
        destruct (S k0 =? 4)%nat eqn:E1; [apply Nat.eqb_eq in E1; lia|].
        destruct (k0 =? 4)%nat eqn:E2; [apply Nat.eqb_eq in E2; lia | reflexivity].
      - now rewrite (Hevs_ne w Hw). }
    assert (Hact : forall v, active st' v <-> active st v).
    { intros v. unfold active. replace (pend st') with (rest ++ [e']) by reflexivity. rewrite Hpend'. destruct (Z.eq_dec v u) as [->|Hv].
      - split; intros _; right; eapply Permutation_in; try (apply Permutation_sym; exact Hpn); now left.
      - now rewrite (Hevs_ne v Hv). }
    assert (Hpst : pend st' = rest ++ [e']) by reflexivity.
    assert (Hrst : rcnt st' = rcnt st) by reflexivity.
    assert (Hlst : elog st' = e :: elog st) by reflexivity.
    constructor; rewrite ?Hpst, ?Hrst, ?Hlst.
    - intros e2 He2. apply in_app_or in He2. destruct He2 as [He2|[<-|[]]].
      + assert (Hin2 : In e2 (pend st)) by (eapply Permutation_in; [apply Permutation_sym; exact Hp | now right]).
        destruct (iA st Hi e2 Hin2) as [Hl2 (k2 & A & B & C)]. split; [exact Hl2|]. exists k2. split; [exact A|]. split; [exact B|].
        rewrite Hevs_ne; [exact C|]. intros Heq. apply Hu. rewrite <- Heq. now apply in_map.
      + rewrite Hn'. split; [exact Hleaf|]. exists (S k0). split; [lia|]. split; [exact Hk' | exact Hevs_u].
    - rewrite map_app. cbn [map]. rewrite Hn'. fold u.
      eapply Permutation_NoDup; [|exact Hnd]. apply Permutation_cons_append.
    - intros w Hw. destruct (Z.eq_dec w u) as [->|Hne].
      + split; [exact Hleaf|]. exists (S k0). split; [lia|]. split; [exact Hevs_u|]. intros _. apply Hpend'.
        eapply Permutation_in; [apply Permutation_sym; exact Hpn | now left].
      + rewrite (Hevs_ne w Hne) in Hw. destruct (iC st Hi w Hw) as [Hl (k & A & B & C)]. split; [exact Hl|].
        exists k. split; [exact A|]. split; [now rewrite (Hevs_ne w Hne)|]. intros Hlt. apply Hpend'. now apply C.
    - destruct (iD st Hi) as [Hl Hd]. split; [exact Hl|]. intros v Hv. rewrite (Hd v Hv). f_equal.
      unfold donein. apply ecount_ext. intros f _. now rewrite Hdone.
    - intros v Hv Hne. rewrite Hact. now apply (iE st Hi).
    - apply Hact. exact (iF st Hi).
    - exact (keys_step st e k0 Hi Hein Hk ltac:(lia) Hev).
    - destruct (iH st Hi) as [Hr1 Hr2]. rewrite n_running_cons, n_ready_cons, Hr1, Hr2.
      rewrite (pcount_perm in_run _ _ Hp), (pcount_perm in_rdy _ _ Hp), !pcount_cons, !pcount_app, !pcount_cons.
      change (pcount in_run []) with 0. change (pcount in_rdy []) with 0.
      generalize (pcount in_run rest) (pcount in_rdy rest). intros a b.
      unfold in_run, in_rdy. rewrite Hk, Hk'.
      destruct k0 as [|[|[|?]]]; try lia;
        repeat match goal with
               | |- context [(Z.of_nat ?a =? ?b)] =>
                   let r := eval vm_compute in (Z.of_nat a =? b) in change (Z.of_nat a =? b) with r
               end; cbn [orb]; split; lia.
  Qed.

  Lemma rc_nonneg : forall st v, inv st -> leaf_at T v -> 0 <= getz v (rcnt st).
  Proof.
    intros st v Hi Hv. destruct (iD st Hi) as [_ Hd]. rewrite (Hd v Hv).
    assert (donein st v <= incount E v); [|lia]. unfold donein, incount. apply ecount_le.
    intros f _ Hf. apply andb_prop in Hf. exact (proj1 Hf).
  Qed.

  Lemma inv_end : forall st e rest x, inv st -> Permutation (pend st) (e :: rest) ->
    ekind e = EV_end -> nodeat T (enode e) = Some x ->
    exists rc' nw,
      end_edges E (getf F_eb x) (Z.to_nat (getf F_ee x - getf F_eb x)) (enode e) (getf F_end_t x) (rcnt st) []
        = Some (rc', nw) /\
      inv (mk_cstate (rest ++ nw) rc' (e :: elog st)).
  Proof.
    intros st e rest x Hi Hp Hk Hx.
    assert (Hein : In e (pend st)) by (eapply Permutation_in; [apply Permutation_sym; exact Hp | now left]).
    destruct (iA st Hi e Hein) as [Hleaf (k & Hk4 & Hke & Hev)].
    assert (k = 3%nat) by (rewrite Hk in Hke; unfold EV_end in Hke; lia). subst k. set (u := enode e) in *.
    pose proof (perm_nodes _ _ _ Hp) as Hpn. fold u in Hpn.
    assert (Hnd : NoDup (u :: map enode rest)) by (eapply Permutation_NoDup; [exact Hpn | exact (iB st Hi)]).
    assert (Hu : ~ In u (map enode rest)) by (inversion Hnd; assumption).
    pose proof (leaf_at_range _ _ Hleaf) as Hur.
    (* the slice of out-edges *)
    assert (Hxn : nth_error T (Z.to_nat u) = Some x).
    { unfold nodeat in Hx. destruct (u <? 0); [discriminate | exact Hx]. }
    destruct (wf_ranges G Hwf _ _ Hxn) as (Hb & He & Hr). rewrite (wf_m G Hwf) in He.
    set (b := Z.to_nat (getf F_eb x)). set (c := Z.to_nat (getf F_ee x)).
    assert (Hslice : forall j f, nth_error E j = Some f -> ((b <= j < c)%nat <-> eu f = u)).
    { intros j f Hj. pose proof (Hr j f Hj) as Hrj. rewrite Z2Nat.id in Hrj by lia. unfold b, c.
      split; intros H; [apply Hrj; lia | apply Hrj in H; lia]. }
    set (out := firstn (c - b) (skipn b E)).
    assert (Hout : forall P, length out = (c - b)%nat /\ (forall f, In f out -> eu f = u) /\
                             ecount (fun f => P f && (eu f =? u)) E = ecount P out).
    { intros P. apply slice_count; [unfold b, c; lia | unfold c; lia | exact Hslice]. }
    assert (HoutE : forall f, In f out -> In f E) by (intros f Hf; eapply incl_firstn_skipn; exact Hf).
    destruct (iD st Hi) as [Hrl Hrd].
    assert (Hdu : doneb st u = false).
    { unfold doneb. rewrite Hev, kinds_upto_length. reflexivity. }
    (* the effect of u becoming done *)
    set (st' := fun rc' nw => mk_cstate (rest ++ nw) rc' (e :: elog st)).
    assert (Hevs : forall rc' nw w, evs (st' rc' nw) w = evs st w ++ (if u =? w then [EV_end] else [])).
    { intros rc' nw w. unfold st'. rewrite evs_cons. fold u. now rewrite Hk. }
    assert (Hevs_ne : forall rc' nw w, w <> u -> evs (st' rc' nw) w = evs st w).
    { intros rc' nw w Hw. rewrite Hevs. destruct (u =? w) eqn:Eq; [apply Z.eqb_eq in Eq; congruence | apply app_nil_r]. }
    assert (Hevs_u : forall rc' nw, evs (st' rc' nw) u = kinds_upto 4).
    { intros rc' nw. rewrite Hevs, Z.eqb_refl, Hev. reflexivity. }
    assert (Hdone : forall rc' nw w, doneb (st' rc' nw) w = doneb st w || (w =? u)).
    { intros rc' nw w. unfold doneb. destruct (Z.eq_dec w u) as [->|Hw].
      - rewrite Hevs_u, Z.eqb_refl, orb_true_r. reflexivity.
      - rewrite (Hevs_ne _ _ w Hw). destruct (w =? u) eqn:Eq; [apply Z.eqb_eq in Eq; contradiction | now rewrite orb_false_r]. }
    assert (Hdin : forall rc' nw v, donein (st' rc' nw) v = donein st v + ecount (fun f => ev f =? v) out).
    { intros rc' nw v. unfold donein. rewrite <- (proj2 (proj2 (Hout (fun f => ev f =? v)))).
      apply ecount_split.
      - intros f _. rewrite Hdone. destruct (ev f =? v); destruct (doneb st (eu f)); destruct (eu f =? u); reflexivity.
      - intros f _. destruct (eu f =? u) eqn:Eq; [|now rewrite !andb_false_r].
        apply Z.eqb_eq in Eq. rewrite Eq, Hdu. now rewrite andb_false_r. }
    assert (Hnn : forall v, leaf_at T v -> 0 <= getz v (rcnt st) - ecount (fun f => ev f =? v) out).
    { intros v Hv. rewrite (Hrd v Hv).
      assert (donein st v + ecount (fun f => ev f =? v) out <= incount E v); [|lia].
      rewrite <- (Hdin (rcnt st) [] v). unfold donein, incount. apply ecount_le.
      intros f _ Hf. apply andb_prop in Hf. exact (proj1 Hf). }
    destruct (end_edges_spec (c - b) E (getf F_eb x) u (getf F_end_t x) (rcnt st) [] out)
      as (rc' & nw & Hee & Hl' & Hg' & Hndw & Hxw & Hallw).
    { lia. }
    { reflexivity. }
    { exact (proj1 (Hout (fun _ => true))). }
    { intros f Hf. split; [exact (proj1 (proj2 (Hout (fun _ => true))) f Hf)|].
      rewrite Hrl. apply leaf_at_range. exact (proj2 (edge_leaves f (HoutE f Hf))). }
    { intros f Hf. apply Hnn. exact (proj2 (edge_leaves f (HoutE f Hf))). }
    exists rc', nw. replace (Z.to_nat (getf F_ee x - getf F_eb x)) with (c - b)%nat by (unfold b, c; lia).
    split; [exact Hee|]. rewrite Hrl in *.
    (* facts about the new ready events *)
    assert (Hnw : forall y, In y nw -> ekind y = EV_ready /\ leaf_at T (enode y) /\ enode y <> s /\ enode y <> u /\
                                     ~ active st (enode y) /\ getz (enode y) rc' = 0).
    { intros y Hy. destruct (Hxw y Hy) as (A & (f & Hf & B) & C & D).
      assert (HfE : In f E) by (apply HoutE; exact Hf).
      assert (Hl : leaf_at T (enode y)) by (rewrite B; exact (proj2 (edge_leaves f HfE))).
      assert (Hns : enode y <> s) by (rewrite B; apply Hs_in; exact HfE).
      assert (Hna : ~ active st (enode y)) by (intros Ha; apply (iE st Hi _ Hl Hns) in Ha; lia).
      repeat split; try assumption.
      intros Heq. apply Hna. right. rewrite Heq. eapply Permutation_in; [apply Permutation_sym; exact Hpn | now left]. }
    assert (Hpend_rest : forall w, w <> u -> (In w (map enode rest) <-> In w (map enode (pend st)))).
    { intros w Hw. split; intros H.
      - eapply Permutation_in; [apply Permutation_sym; exact Hpn | now right].
      - apply (Permutation_in _ Hpn) in H. destruct H as [H|H]; [congruence | exact H]. }
    assert (Hself : ecount (fun f => ev f =? u) out = 0).
    { apply ecount_zero. intros f Hf. destruct (ev f =? u) eqn:Eq; [|reflexivity]. apply Z.eqb_eq in Eq.
      pose proof (Hrank f (HoutE f Hf)) as Hrk. rewrite (proj1 (proj2 (Hout (fun _ => true))) f Hf), Eq in Hrk. lia. }
    assert (Hg'' : forall v, leaf_at T v -> getz v rc' = getz v (rcnt st) - ecount (fun f => ev f =? v) out).
    { intros v Hv. apply Hg'. now apply leaf_at_range. }
    set (S' := st' rc' nw).
    assert (HpS : pend S' = rest ++ nw) by reflexivity.
    assert (HrS : rcnt S' = rc') by reflexivity.
    assert (HlS : elog S' = e :: elog st) by reflexivity.
    assert (Hact_old : forall v, active st v -> active S' v).
    { intros v [Ha|Ha].
      - left. unfold S'. rewrite Hevs. intros Hnil. apply app_eq_nil in Hnil. exact (Ha (proj1 Hnil)).
      - destruct (Z.eq_dec v u) as [->|Hv].
        + left. unfold S'. rewrite Hevs_u. discriminate.
        + right. rewrite HpS, map_app. apply in_or_app. left. now apply Hpend_rest. }
    change (inv S').
    constructor; rewrite ?HpS, ?HrS, ?HlS.
    - intros e2 He2. apply in_app_or in He2. destruct He2 as [He2|He2].
      + assert (Hin2 : In e2 (pend st)) by (eapply Permutation_in; [apply Permutation_sym; exact Hp | now right]).
        destruct (iA st Hi e2 Hin2) as [Hl2 (k2 & A & B & C)]. split; [exact Hl2|]. exists k2. split; [exact A|]. split; [exact B|].
        unfold S'. rewrite Hevs_ne; [exact C|]. intros Heq. apply Hu. rewrite <- Heq. now apply in_map.
      + destruct (Hnw e2 He2) as (A & B & _ & D & F & _). split; [exact B|]. exists 0%nat. split; [lia|]. split; [exact A|].
        unfold S'. rewrite (Hevs_ne _ _ _ D). destruct (evs st (enode e2)) eqn:Ee; [reflexivity|].
        exfalso. apply F. left. rewrite Ee. discriminate.
    - rewrite map_app. apply OrderProofs.NoDup_app_intro.
      + inversion Hnd; assumption.
      + exact Hndw.
      + intros w Hw Hw2. apply in_map_iff in Hw2. destruct Hw2 as (y & <- & Hy).
        destruct (Hnw y Hy) as (_ & _ & _ & D & F & _). apply F. right. now apply Hpend_rest.
    - intros w Hw. destruct (Z.eq_dec w u) as [->|Hne].
      + split; [exact Hleaf|]. exists 4%nat. split; [lia|]. split; [apply Hevs_u | lia].
      + unfold S' in Hw. rewrite (Hevs_ne _ _ w Hne) in Hw. destruct (iC st Hi w Hw) as [Hl (k & A & B & C)]. split; [exact Hl|].
        exists k. split; [exact A|]. split; [unfold S'; now rewrite (Hevs_ne _ _ w Hne)|]. intros Hlt.
        rewrite map_app. apply in_or_app. left. apply Hpend_rest; [exact Hne | now apply C].
    - split; [exact Hl'|]. intros v Hv. rewrite (Hg'' v Hv), (Hrd v Hv). unfold S'. rewrite Hdin. lia.
    - intros v Hv Hne. split.
      + intros Hz. destruct (Z.eq_dec (getz v (rcnt st)) 0) as [Hz0|Hz0].
        * apply Hact_old. now apply (iE st Hi v Hv Hne).
        * right. rewrite HpS, map_app. apply in_or_app. right. apply Hallw; [now apply leaf_at_range | | exact Hz].
          pose proof (rc_nonneg st v Hi Hv). lia.
      + intros Ha.
        assert (Hcase : active st v \/ In v (map enode nw)).
        { destruct Ha as [Ha|Ha].
          - destruct (Z.eq_dec v u) as [->|Hvu].
            + left. right. eapply Permutation_in; [apply Permutation_sym; exact Hpn | now left].
            + unfold S' in Ha. rewrite (Hevs_ne _ _ v Hvu) in Ha. left. now left.
          - rewrite HpS, map_app in Ha. apply in_app_or in Ha. destruct Ha as [Ha|Ha]; [|now right].
            left. right. eapply Permutation_in; [apply Permutation_sym; exact Hpn | now right]. }
        destruct Hcase as [Hold|Hnew].
        * apply (iE st Hi v Hv Hne) in Hold. pose proof (Hnn v Hv). pose proof (ecount_nonneg (fun f => ev f =? v) out).
          rewrite (Hg'' v Hv). lia.
        * apply in_map_iff in Hnew. destruct Hnew as (y & <- & Hy). exact (proj2 (proj2 (proj2 (proj2 (proj2 (Hnw y Hy)))))).
    - apply Hact_old. exact (iF st Hi).
    - exact (keys_step st e 3 Hi Hein Hke ltac:(lia) Hev).
    - destruct (iH st Hi) as [Hr1 Hr2]. rewrite n_running_cons, n_ready_cons, Hr1, Hr2.
      rewrite (pcount_perm in_run _ _ Hp), (pcount_perm in_rdy _ _ Hp), !pcount_cons, !pcount_app.
      rewrite (pcount_zero in_run nw), (pcount_zero in_rdy nw).
      + generalize (pcount in_run rest) (pcount in_rdy rest). intros a b0.
        unfold in_run, in_rdy. rewrite Hk.
        change (EV_end =? EV_start) with false. change (EV_end =? EV_end) with true.
        change (EV_end =? EV_ready) with false. change (EV_end =? EV_last_start) with false. cbn [orb]. split; lia.
      + intros y Hy. unfold in_rdy. rewrite (proj1 (Hnw y Hy)). reflexivity.
      + intros y Hy. unfold in_run. rewrite (proj1 (Hnw y Hy)). reflexivity.
  Qed.

  Lemma step_ok : forall st k, inv st -> (k < length (pend st))%nat ->
    exists st', chrono_step G st k = Some st' /\ inv st' /\ length (elog st') = S (length (elog st)).
  Proof.
    intros st k Hi Hk. destruct (remove_nth_some _ k (pend st) Hk) as (e & rest & Hrm).
    pose proof (remove_nth_perm _ _ _ _ _ Hrm) as Hp.
    assert (Hein : In e (pend st)) by (eapply Permutation_in; [apply Permutation_sym; exact Hp | now left]).
    destruct (iA st Hi e Hein) as [(x & Hx & _) (k0 & Hk4 & Hke & Hev)].
    unfold chrono_step. rewrite Hrm, Hx.
    destruct k0 as [|[|[|[|?]]]]; try lia; rewrite Hke.
    - change (Z.of_nat 0 =? EV_ready) with true. cbv iota. eexists. split; [reflexivity|]. split; [|reflexivity].
      apply (inv_follow st e rest _ 0%nat Hi Hp Hke); [lia | reflexivity | reflexivity].
    - change (Z.of_nat 1 =? EV_ready) with false. change (Z.of_nat 1 =? EV_start) with true. cbv iota.
      eexists. split; [reflexivity|]. split; [|reflexivity].
      apply (inv_follow st e rest _ 1%nat Hi Hp Hke); [lia | reflexivity | reflexivity].
    - change (Z.of_nat 2 =? EV_ready) with false. change (Z.of_nat 2 =? EV_start) with false.
      change (Z.of_nat 2 =? EV_last_start) with true. cbv iota.
      eexists. split; [reflexivity|]. split; [|reflexivity].
      apply (inv_follow st e rest _ 2%nat Hi Hp Hke); [lia | reflexivity | reflexivity].
    - change (Z.of_nat 3 =? EV_ready) with false. change (Z.of_nat 3 =? EV_start) with false.
      change (Z.of_nat 3 =? EV_last_start) with false. change (Z.of_nat 3 =? EV_end) with true. cbv iota.
      destruct (inv_end st e rest x Hi Hp Hke Hx) as (rc' & nw & Hee & Hi').
      rewrite Hee. eexists. split; [reflexivity|]. split; [exact Hi' | reflexivity].
  Qed.

  Lemma log_bound : forall st, inv st -> (length (elog st) <= 4 * n)%nat.
  Proof.
    intros st Hi. destruct (iG st Hi) as [Hnd Hr].
    assert (Hl : length (elog st) = length (keys (elog st))) by (unfold keys; now rewrite map_length).
    rewrite Hl.
    assert (Hincl : incl (keys (elog st)) (list_prod (zrange 0 n) (zrange 0 4))).
    { intros [u k] Hin. destruct (Hr u k Hin) as [A B]. apply in_prod; apply in_zrange; lia. }
    pose proof (NoDup_incl_length Hnd Hincl) as Hle. rewrite prod_length, !zrange_length in Hle. lia.
  Qed.

  Lemma run_ok : forall choose, (forall st, pend st <> [] -> (choose st < length (pend st))%nat) ->
    forall fuel st, inv st -> (4 * n + 1 <= length (elog st) + fuel)%nat ->
    exists st', chrono_run fuel choose G st = Finished st' /\ inv st' /\ pend st' = [].
  Proof.
    intros choose Hch. induction fuel as [|f IH]; intros st Hi Hf.
    - pose proof (log_bound st Hi). lia.
    - cbn [chrono_run]. destruct (pend st) as [|p0 pr] eqn:Ep.
      + exists st. split; [reflexivity|]. split; [exact Hi | exact Ep].
      + destruct (step_ok st (choose st) Hi) as (st' & Hst & Hi' & Hl').
        { apply Hch. rewrite Ep. discriminate. }
        rewrite Hst. apply IH; [exact Hi' | lia].
  Qed.

  (** ** the final state *)
  Lemma final_done : forall st, inv st -> pend st = [] -> forall v, leaf_at T v -> evs st v = kinds_upto 4.
  Proof.
    intros st Hi Hp.
    assert (Hact : forall v, active st v -> evs st v = kinds_upto 4).
    { intros v [Ha|Ha]; [|rewrite Hp in Ha; contradiction].
      destruct (iC st Hi v Ha) as [_ (k & Hk & Hev & Hpend)].
      destruct (Nat.eq_dec k 4) as [->|Hne]; [exact Hev|]. exfalso. rewrite Hp in Hpend. apply Hpend. lia. }
    assert (G0 : forall r v, (rank v < r)%nat -> leaf_at T v -> evs st v = kinds_upto 4).
    { induction r as [|r IH]; intros v Hr Hv; [lia|].
      destruct (Z.eq_dec v s) as [->|Hne]; [apply Hact; exact (iF st Hi)|].
      apply Hact. apply (iE st Hi v Hv Hne). destruct (iD st Hi) as [_ Hd]. rewrite (Hd v Hv).
      assert (donein st v = incount E v); [|lia]. unfold donein, incount. apply ecount_ext.
      intros f Hf. destruct (ev f =? v) eqn:Eq; [|reflexivity]. apply Z.eqb_eq in Eq. cbn [andb].
      unfold doneb. rewrite (IH (eu f)); [reflexivity | | exact (proj1 (edge_leaves f Hf))].
      pose proof (Hrank f Hf). rewrite Eq in H. lia. }
    intros v Hv. apply (G0 (S (rank v))); [lia | exact Hv].
  Qed.
End Replay.


(** * the theorem *)
Theorem replay_ok : forall G, dag_wf G ->
  forall choose, (forall st, pend st <> [] -> (choose st < length (pend st))%nat) ->
  exists st0 st, chrono_init G = Some st0 /\
    chrono_run (4 * length (gT G) + 1) choose G st0 = Finished st /\
    (forall i x, nth_error (gT G) i = Some x ->
       events_of (elog st) (Z.of_nat i) = if leaf_node x then [EV_ready; EV_start; EV_last_start; EV_end] else []) /\
    (forall u, events_of (elog st) u <> [] -> 0 <= u < Z.of_nat (length (gT G))) /\
    n_running (elog st) = 0 /\ n_ready (elog st) = 0.
Proof.
  intros G Hwf choose Hch.
  destruct (wf_first G Hwf) as (s & Hs & Hs_in & Hs_o).
  destruct (wf_acyclic G Hwf) as (rank & Hrank).
  assert (Hs_others : forall v, leaf_at (gT G) v -> v <> s -> exists e, In e (gE G) /\ ev e = v).
  { intros v (x & Hx & Hl) Hne. pose proof (leaf_at_range (gT G) v (ex_intro _ x (conj Hx Hl))) as Hr.
    unfold nodeat in Hx. destruct (v <? 0) eqn:E0; [discriminate|].
    destruct (Hs_o (Z.to_nat v) x Hx Hl) as (e & He & Hev); [rewrite Z2Nat.id by lia; exact Hne|].
    exists e. split; [exact He|]. rewrite Hev. lia. }
  unfold chrono_init. rewrite Hs.
  set (st0 := mk_cstate [mk_event 0 EV_ready s (-1) EK_create] (ready_counts (length (gT G)) (gE G)) []).
  assert (Hi0 : inv G s st0).
  { apply (inv_init G s Hs Hs_others). unfold chrono_init. now rewrite Hs. }
  destruct (run_ok G Hwf s Hs_in rank Hrank choose Hch (4 * length (gT G) + 1) st0 Hi0) as (st & Hrun & Hi & Hp).
  { cbn [elog st0 length]. lia. }
  exists st0, st. split; [reflexivity|]. split; [exact Hrun|].
  split; [|split; [|split]].
  - intros i x Hx. destruct (leaf_node x) eqn:El.
    + apply (final_done G Hwf s rank Hrank st Hi Hp). exists x. split; [now rewrite nodeat_nat | exact El].
    + destruct (events_of (elog st) (Z.of_nat i)) as [|a l] eqn:Ee; [reflexivity|]. exfalso.
      assert (Hne : evs st (Z.of_nat i) <> []) by (unfold evs; rewrite Ee; discriminate).
      destruct (iC G s st Hi _ Hne) as [(x' & Hx' & Hl') _]. rewrite nodeat_nat, Hx in Hx'. injection Hx' as <-. congruence.
  - intros u Hu. destruct (iC G s st Hi u Hu) as [Hl _]. now apply leaf_at_range.
  - destruct (iH G s st Hi) as [H1 _]. rewrite H1, Hp. reflexivity.
  - destruct (iH G s st Hi) as [_ H2]. rewrite H2, Hp. reflexivity.
Qed.
