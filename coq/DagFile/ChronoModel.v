(** C19 — model of dr_pi_dag_chronological_traverse (src/profiler/chronological.c): the event-driven
    replay with ready counts, and of the n_running / n_ready bookkeeping of gen_stat.c.

    The priority queue is abstracted to a bag of pending events from which a chooser picks the next
    event (the real heap picks one of minimal time stamp; the theorems hold for every chooser, the
    correspondence run feeds the order observed in the real traverse).  *)
From Coq Require Import ZArith List Bool.
From MT Require Import DagFile.FlattenModel DagFile.PruneModel.
Import ListNotations.
Local Open Scope Z_scope.

Definition EV_ready : Z := 0.
Definition EV_start : Z := 1.
Definition EV_last_start : Z := 2.
Definition EV_end : Z := 3.

Record event := mk_event { et : Z; ekind : Z; enode : Z; epred : Z; eek : Z }.

Record cstate := mk_cstate {
  pend : list event;          (* the event queue F *)
  rcnt : list Z;              (* ready_count[] *)
  elog : list event }.        (* events handed to process_event, most recent first *)

Definition incr (k : Z) (d : Z) (l : list Z) : list Z := setz k (getz k l + d) l.

(** ready_count[v]++ for every edge *)
Definition ready_counts (n : nat) (E : list edge) : list Z :=
  fold_left (fun rc e => incr (ev e) 1 rc) E (repeat 0 n).

(** dr_pi_dag_first_leaf + the initial ready event *)
Definition chrono_init (G : pidag) : option cstate :=
  match first_leaf (length (gT G)) (gT G) 0 with
  | None => None
  | Some s => Some (mk_cstate [mk_event 0 EV_ready s (-1) EK_create]
                              (ready_counts (length (gT G)) (gE G)) [])
  end.

Fixpoint remove_nth {A : Type} (k : nat) (l : list A) : option (A * list A) :=
  match l with
  | [] => None
  | a :: r => match k with
              | O => Some (a, r)
              | S k' => match remove_nth k' r with
                        | Some (x, r') => Some (x, a :: r')
                        | None => None
                        end
              end
  end.

(** the loop over the out-edges E[edges_begin .. edges_end) of a node that ends; [None] = the
    assert(G->T + e->u == u) fails or the range leaves E *)
Fixpoint end_edges (E : list edge) (j : Z) (cnt : nat) (u : Z) (tend : Z)
         (rc : list Z) (newev : list event) : option (list Z * list event) :=
  match cnt with
  | O => Some (rc, newev)
  | S c =>
      if j <? 0 then None else
      match nth_error E (Z.to_nat j) with
      | None => None
      | Some e =>
          if eu e =? u then
            let rc' := incr (ev e) (-1) rc in
            let newev' := if getz (ev e) rc' =? 0
                          then newev ++ [mk_event tend EV_ready (ev e) u (ek e)] else newev in
            end_edges E (j + 1) c u tend rc' newev'
          else None
      end
  end.

(** process the k-th pending event *)
Definition chrono_step (G : pidag) (st : cstate) (k : nat) : option cstate :=
  match remove_nth k (pend st) with
  | None => None
  | Some (e, rest) =>
      match nodeat (gT G) (enode e) with
      | None => None
      | Some u =>
          let follow t kd := Some (mk_cstate (rest ++ [mk_event t kd (enode e) (epred e) (eek e)])
                                             (rcnt st) (e :: elog st)) in
          if ekind e =? EV_ready then follow (getf F_start_t u) EV_start
          else if ekind e =? EV_start then follow (getf F_last_start u) EV_last_start
          else if ekind e =? EV_last_start then follow (getf F_end_t u) EV_end
          else if ekind e =? EV_end then
            match end_edges (gE G) (getf F_eb u) (Z.to_nat (getf F_ee u - getf F_eb u))
                            (enode e) (getf F_end_t u) (rcnt st) [] with
            | None => None
            | Some (rc', nw) => Some (mk_cstate (rest ++ nw) rc' (e :: elog st))
            end
          else Some (mk_cstate rest (rcnt st) (e :: elog st))
      end
  end.

Inductive outcome :=
| Finished (st : cstate)      (* the queue is empty *)
| Failed (st : cstate)        (* an assertion of the traverse fails / the chooser points outside the queue *)
| OutOfFuel (st : cstate).

Fixpoint chrono_run (fuel : nat) (choose : cstate -> nat) (G : pidag) (st : cstate) : outcome :=
  match pend st with
  | [] => Finished st
  | _ :: _ =>
      match fuel with
      | O => OutOfFuel st
      | S f => match chrono_step G st (choose st) with
               | None => Failed st
               | Some st' => chrono_run f choose G st'
               end
      end
  end.

(** gen_stat.c: n_ready++ on ready, n_running++ on start, n_ready-- on last_start, n_running-- on end *)
Definition count_kind (kd : Z) (l : list event) : Z :=
  Z.of_nat (length (filter (fun e => ekind e =? kd) l)).
Definition n_running (l : list event) : Z := count_kind EV_start l - count_kind EV_end l.
Definition n_ready (l : list event) : Z := count_kind EV_ready l - count_kind EV_last_start l.

(** a self-contained chooser: the first pending event of minimal time stamp *)
Fixpoint argmin (l : list event) (k best : nat) (bt : Z) : nat :=
  match l with
  | [] => best
  | e :: r => if et e <? bt then argmin r (S k) k (et e) else argmin r (S k) best bt
  end.
Definition choose_min (st : cstate) : nat :=
  match pend st with
  | [] => O
  | e :: r => argmin r 1 O (et e)
  end.
