(** C19 — string interning as read off the CURRENT source text (tools/props/c19.py translates
    dr_string_table_find / dr_string_table_append / dr_string_table_flatten of src/profiler/dr_dump.c into
    the data below on every run; build/C19/gen/DrIntern.v holds the instance and evaluates the checkers).

    A [find_ir] describes the lookup loop: whether it walks all cells from the head and returns the running
    index, and for every [return] inside the loop (a "found" exit) the conjunction of conditions that
    guards it, each classified as
      [AStrcmp]    a comparison of the cell's whole string with the key including the terminator
                   (strcmp(..) == 0, strncmp / memcmp over length + 1),
      [ALenEq]     equality of the two lengths,
      [AMemcmpLen] a comparison of the first strlen(cell) bytes (memcmp / strncmp without the terminator),
      [APre k]     anything else (hash, length or first-character pre-filters ...).
    Definitions only; proofs in InternProofs.v. *)
From Coq Require Import ZArith List Bool.
From MT Require Import DagFile.FlattenModel.
Import ListNotations.
Local Open Scope Z_scope.

Inductive atom := AStrcmp | ALenEq | AMemcmpLen | APre (k : nat).

Record find_ir := mk_find_ir {
  f_loop_all : bool;        (* for (c = t->head; c; c = c->next), no break / goto *)
  f_index_ok : bool;        (* the index starts at 0, is incremented once per cell, and is what is returned *)
  f_notfound_ok : bool;     (* after the loop the index (= number of cells) is returned *)
  f_exits : list (list atom) }.

Inductive copy_kind := KeepPointer | CopyWithTerminator | CopyOther.
Record store_ir := mk_store_ir {
  s_append : copy_kind;     (* what dr_string_table_append keeps of the key *)
  s_flatten : copy_kind;    (* how dr_string_table_flatten copies a cell into the char array *)
  s_advance_full : bool;    (* the write pointer and the offsets advance by strlen + 1 *)
  s_bytes_full : bool }.    (* the size computed beforehand counts strlen + 1 per string *)

Definition is_strcmp (a : atom) : bool := match a with AStrcmp => true | _ => false end.
Definition is_leneq (a : atom) : bool := match a with ALenEq => true | _ => false end.
Definition is_memcmp (a : atom) : bool := match a with AMemcmpLen => true | _ => false end.

(** a found exit is guarded by a full content comparison *)
Definition exit_full (e : list atom) : bool :=
  existsb is_strcmp e || (existsb is_leneq e && existsb is_memcmp e).

Definition find_ok (ir : find_ir) : bool :=
  f_loop_all ir && f_index_ok ir && f_notfound_ok ir &&
  match f_exits ir with [] => false | _ => true end && forallb exit_full (f_exits ir).

Definition copy_full (k : copy_kind) : bool := match k with CopyOther => false | _ => true end.
Definition store_ok (ir : store_ir) : bool :=
  copy_full (s_append ir) && match s_flatten ir with CopyWithTerminator => true | _ => false end &&
  s_advance_full ir && s_bytes_full ir.

(** ** what the described code computes; [o k c s] is the outcome of the k-th unclassified condition on
    cell string c and key s *)
Definition atom_sem (o : nat -> name -> name -> bool) (c s : name) (a : atom) : bool :=
  match a with
  | AStrcmp => name_eqb c s
  | ALenEq => (length c =? length s)%nat
  | AMemcmpLen => name_eqb c (firstn (length c) s)
  | APre k => o k c s
  end.

Definition accept (ir : find_ir) (o : nat -> name -> name -> bool) (c s : name) : bool :=
  existsb (fun e => forallb (atom_sem o c s) e) (f_exits ir).

Fixpoint find_sem (ir : find_ir) (o : nat -> name -> name -> bool) (tbl : list name) (s : name) (i : Z) : Z :=
  match tbl with
  | [] => i
  | c :: r => if accept ir o c s then i else find_sem ir o r s (i + 1)
  end.

Definition intern_sem (ir : find_ir) (o : nat -> name -> name -> bool) (tbl : list name) (s : name) : list name * Z :=
  let idx := find_sem ir o tbl s 0 in
  (if idx =? Z.of_nat (length tbl) then tbl ++ [s] else tbl, idx).

(** what ends up in the char array for one interned name *)
Definition stored_sem (ir : store_ir) (s : name) : list Z :=
  if store_ok ir then s ++ [0] else [].

(** dr_string_table_intern, the function the dump calls for every file name, as a statement list.  The model
    [intern_sem] is the body [WFind; WAppendIfNew; WReturnIdx]:
      idx = dr_string_table_find(t, s);  if (idx == t->n) dr_string_table_append(t, s);  return idx;
    Every other statement (an early return, a memo of the last answer, ...) is [WOther] and has no meaning here.
    [w_static_locals]: `static` locals in find / append / intern / flatten; [w_data_symbols]: writable data symbols
    defined by dr_dump.o.  Both must be 0: the string table of a dump is a function of the names of THAT dump,
    nothing survives from one dump of the process to the next. *)
Inductive wstmt := WFind | WAppendIfNew | WReturnIdx | WOther.
Record wrap_ir := mk_wrap_ir { w_body : list wstmt; w_static_locals : nat; w_data_symbols : nat }.

Definition wrap_ok (w : wrap_ir) : bool :=
  match w_body w with
  | [WFind; WAppendIfNew; WReturnIdx] => true
  | _ => false
  end && Nat.eqb (w_static_locals w) 0 && Nat.eqb (w_data_symbols w) 0.

Definition wstep (ir : find_ir) (o : nat -> name -> name -> bool) (s : name) (st : list name * Z) (c : wstmt)
  : option (list name * Z) :=
  match c with
  | WFind => Some (fst st, find_sem ir o (fst st) s 0)
  | WAppendIfNew => Some (if snd st =? Z.of_nat (length (fst st)) then fst st ++ [s] else fst st, snd st)
  | WReturnIdx => Some st
  | WOther => None
  end.

Fixpoint wrun (ir : find_ir) (o : nat -> name -> name -> bool) (s : name) (b : list wstmt) (st : list name * Z)
  : option (list name * Z) :=
  match b with
  | [] => Some st
  | c :: r => match wstep ir o s st c with Some st' => wrun ir o s r st' | None => None end
  end.
