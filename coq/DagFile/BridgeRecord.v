(** C19 — bridge to the C18 development (coq/Dag): the in-memory dag that the C18 recorder model
    [record oc summ [] t] builds for a well-nested execution tree [t] under ANY contracting summariser,
    translated into the input tree of the flattening ([br]), satisfies the two hypotheses of the C19
    theorems: the grammar [wf_root] and the work-total consistency [t1_ok].

    The C18 [info] does not model in_edge_kind, file names and the remaining info words.  The
    translation supplies in_edge_kind by the recorder's own rule (dag_recorder_inl.h: a task starts with
    [create]; after dr_return_from_create_task [create_cont]; after dr_return_from_other [other_cont];
    after dr_return_from_wait_tasks [wait_cont] or [end] - the choice, which depends on clock readings, is
    an arbitrary parameter [aw]; a section/task carries the in_edge_kind of its first subgraph:
    dr_accumulate_stats).  All other info words ([aux]) and the file names ([nm]) are arbitrary. *)
From Coq Require Import ZArith List Bool Lia Arith.
From MT Require Import DagFile.FlattenModel DagFile.DagSpec DagFile.TreeLemmas DagFile.LayProofs DagFile.PruneProofs.
From MT Require Dag.DagTreeModel Dag.DagRecordModel Dag.DagProofs DagFile.OrderProofs DagFile.TotalsProofs.
Import ListNotations.
Local Open Scope Z_scope.

Module TM := MT.Dag.DagTreeModel.
Module RM := MT.Dag.DagRecordModel.
Module RP := MT.Dag.DagProofs.

Definition kcode (k : TM.nkind) : Z :=
  match k with
  | TM.KCreate => 0 | TM.KWait => 1 | TM.KOther => 2 | TM.KEnd => 3 | TM.KSection => 4 | TM.KTask => 5
  end.

Section Bridge.
  Variable aux : RM.node -> list Z.             (* the info words C18 does not model *)
  Variable nm : RM.node -> name * name.         (* start / end file names *)
  Variable aw : RM.node -> bool.                (* after this section: true = end edge, false = wait_cont *)

  Definition mk_d (k : Z) (n : RM.node) : tnode :=
    let i := RM.ninfo n in
    mk_tnode (setf F_kind (kcode (RM.i_kind i)) (setf F_in_edge k (setf F_t1 (RM.i_t1 i)
               (setf F_start_t (RM.i_start i) (setf F_end_t (RM.i_end i) (setf F_worker (RM.i_worker i)
               (pad_info (aux n))))))))
             (fst (nm n)) (snd (nm n)).

  (** in_edge_kind of what follows x *)
  Definition after (x : RM.node) : Z :=
    match x with
    | RM.NCreate _ _ => EK_create_cont
    | RM.NLeaf i => match RM.i_kind i with TM.KOther => EK_other_cont | _ => EK_wait_cont end
    | RM.NSub _ _ => if aw x then EK_end else EK_wait_cont
    end.

  Section BL.
    Variable f : Z -> RM.node -> tree.
    Fixpoint br_list (k : Z) (l : list RM.node) : list tree :=
      match l with [] => [] | x :: r => f k x :: br_list (after x) r end.
  End BL.

  Fixpoint br (k : Z) (n : RM.node) : tree :=
    match n with
    | RM.NLeaf _ => Leaf (mk_d k n)
    | RM.NCreate _ c => Create (mk_d k n) (br EK_create c)
    | RM.NSub _ ch => Sub (mk_d k n) (br_list (fun k' x => br k' x) k ch)
    end.
  Notation brs := (br_list (fun k' x => br k' x)).

  (** the recorded dag as flattening input: the root task is entered through a create edge *)
  Definition bridge (n : RM.node) : tree := br EK_create n.

  (** ** the words the C19 predicates look at *)
  Lemma pad_info_id : forall a, length a = N_info -> pad_info a = a.
  Proof.
    intros a H. unfold pad_info. rewrite firstn_app, H, Nat.sub_diag. cbn [firstn]. rewrite app_nil_r.
    rewrite <- H. apply firstn_all.
  Qed.

  Lemma mk_d_words : forall k n, length (ti (mk_d k n)) = N_info.
  Proof. intros. unfold mk_d. cbn [ti]. rewrite !setf_length. apply pad_info_length. Qed.

  Lemma mk_d_kind : forall k n, t_kind (mk_d k n) = kcode (RM.i_kind (RM.ninfo n)).
  Proof.
    intros k n. unfold t_kind. rewrite pad_info_id by apply mk_d_words. unfold mk_d. cbn [ti].
    apply getf_setf_eq. rewrite !setf_length, pad_info_length. unfold F_kind, N_info. lia.
  Qed.

  Lemma mk_d_in_edge : forall k n, t_in_edge (mk_d k n) = k.
  Proof.
    intros k n. unfold t_in_edge. rewrite pad_info_id by apply mk_d_words. unfold mk_d. cbn [ti].
    rewrite getf_setf_neq by (unfold F_in_edge, F_kind; lia).
    apply getf_setf_eq. rewrite !setf_length, pad_info_length. unfold F_in_edge, N_info. lia.
  Qed.

  Lemma mk_d_t1 : forall k n, t_t1 (mk_d k n) = RM.i_t1 (RM.ninfo n).
  Proof.
    intros k n. unfold t_t1. rewrite pad_info_id by apply mk_d_words. unfold mk_d. cbn [ti].
    rewrite !getf_setf_neq by (unfold F_in_edge, F_kind, F_t1; lia).
    apply getf_setf_eq. rewrite !setf_length, pad_info_length. unfold F_t1, N_info. lia.
  Qed.

  Lemma tdata_br : forall k n, tdata (br k n) = mk_d k n.
  Proof. intros k n. destruct n; reflexivity. Qed.

  (** ** what a recorded dag looks like *)
  Definition is_leafN (n : RM.node) : bool := match n with RM.NLeaf _ => true | _ => false end.
  Fixpoint last_leafN (l : list RM.node) : bool :=
    match l with [] => true | [x] => is_leafN x | _ :: r => last_leafN r end.

  Definition leaf_kind (i : RM.info) : Prop :=
    RM.i_kind i = TM.KWait \/ RM.i_kind i = TM.KOther \/ RM.i_kind i = TM.KEnd.

  Fixpoint good (n : RM.node) : Prop :=
    match n with
    | RM.NLeaf i => leaf_kind i
    | RM.NCreate i c =>
        RM.i_kind i = TM.KCreate /\
        (exists ic chs, c = RM.NSub ic chs /\ RM.i_kind ic = TM.KTask) /\ good c
    | RM.NSub i chs =>
        (RM.i_kind i = TM.KSection \/ RM.i_kind i = TM.KTask) /\
        last_leafN chs = true /\
        (RM.i_kind i = TM.KTask -> existsb RM.is_create chs = false) /\
        (chs <> [] -> RM.i_t1 i = TM.zsum (map RP.full_t1 chs)) /\
        (fix gl (l : list RM.node) : Prop := match l with [] => True | x :: r => good x /\ gl r end) chs
    end.
  Definition goods (l : list RM.node) : Prop := Forall good l.

  Lemma good_NSub : forall i chs, good (RM.NSub i chs) <->
    (RM.i_kind i = TM.KSection \/ RM.i_kind i = TM.KTask) /\ last_leafN chs = true /\
    (RM.i_kind i = TM.KTask -> existsb RM.is_create chs = false) /\
    (chs <> [] -> RM.i_t1 i = TM.zsum (map RP.full_t1 chs)) /\ goods chs.
  Proof.
    intros i chs. cbn [good].
    assert (E : (fix gl (l : list RM.node) : Prop := match l with [] => True | x :: r => good x /\ gl r end) chs <-> goods chs).
    { unfold goods. induction chs as [|x r IH]; [split; [constructor | exact (fun _ => I)]|].
      split.
      - intros [A B]. constructor; [exact A | now apply IH].
      - intros H. inversion H; subst. split; [assumption | now apply IH]. }
    rewrite E. tauto.
  Qed.

  (** ** contraction keeps it *)
  Lemma contracts_kinds : forall n n', RP.contracts n n' ->
    is_leafN n' = is_leafN n /\ RM.is_create n' = RM.is_create n /\ RP.full_t1 n' = RP.full_t1 n.
  Proof.
    intros n n' H. pose proof (RP.contracts_node_eqc _ _ H) as He.
    inversion H; subst; cbn [is_leafN RM.is_create]; (split; [reflexivity|]; split; [reflexivity|]).
    - reflexivity.
    - unfold RP.full_t1, RP.child_part. cbn [RM.ninfo]. f_equal.
      destruct He as [_ He]. now destruct (RP.info_eqc_fields _ _ He) as (_ & _ & _ & _ & <- & _).
    - unfold RP.full_t1, RP.child_part. cbn [RM.ninfo]. destruct i; reflexivity.
    - unfold RP.full_t1, RP.child_part. cbn [RM.ninfo]. destruct i; reflexivity.
  Qed.

  Lemma contracts_list : forall ch ch', Forall2 RP.contracts ch ch' ->
    last_leafN ch' = last_leafN ch /\ existsb RM.is_create ch' = existsb RM.is_create ch /\
    TM.zsum (map RP.full_t1 ch') = TM.zsum (map RP.full_t1 ch) /\ (ch' = [] <-> ch = []).
  Proof.
    intros ch ch' H. induction H as [|x x' r r' Hx Hr IH]; [repeat split; tauto|].
    destruct IH as (A & B & C & D). destruct (contracts_kinds _ _ Hx) as (K1 & K2 & K3).
    split; [|split; [|split]].
    - destruct r' as [|y' r2']; destruct r as [|y r2]; try (inversion Hr; fail).
      + exact K1.
      + exact A.
    - cbn [existsb]. now rewrite K2, B.
    - cbn [map]. rewrite !RP.zsum_cons, K3, C. reflexivity.
    - split; discriminate.
  Qed.

  Lemma set_cur_kind : forall i c, RM.i_kind (RM.set_cur i c) = RM.i_kind i /\ RM.i_t1 (RM.set_cur i c) = RM.i_t1 i.
  Proof. intros [] c. split; reflexivity. Qed.

  Lemma good_contracts : forall n, good n -> forall n', RP.contracts n n' -> good n'.
  Proof.
    induction n as [i | i c IH | i ch IH] using RP.node_ind'; intros Hg n' Hc.
    - inversion Hc; subst. exact Hg.
    - inversion Hc as [| i0 c0 c' Hcc | |]; subst. destruct Hg as (Hk & (ic & chs & -> & Hkt) & Hgc).
      cbn [good]. split; [exact Hk|]. split; [|now apply IH].
      inversion Hcc; subst; eexists; eexists; (split; [reflexivity|]); now rewrite (proj1 (set_cur_kind ic _)).
    - apply good_NSub in Hg. destruct Hg as (Hk & Hl & Hnc & Ht & Hgs).
      inversion Hc as [| | i0 ch0 cur' | i0 ch0 ch' cur' HF]; subst; apply good_NSub;
        rewrite (proj1 (set_cur_kind i _)), (proj2 (set_cur_kind i _)).
      + split; [exact Hk|]. split; [reflexivity|]. split; [reflexivity|]. split; [intros H; contradiction | constructor].
      + destruct (contracts_list _ _ HF) as (A & B & C & D).
        split; [exact Hk|]. split; [now rewrite A|]. split; [intros H; rewrite B; now apply Hnc|].
        split; [intros H; rewrite C; apply Ht; intros E; apply H; now apply D|].
        unfold goods in *. clear -IH Hgs HF. induction HF as [|x x' r r' Hx _ IHr]; [constructor|].
        inversion IH; subst. inversion Hgs; subst. constructor; [eapply H1; eassumption | now apply IHr].
  Qed.

  (** ** the recorder builds it *)
  Section Rec.
    Variable oc : bool.
    Variable summ : list nat -> RM.node -> RM.node.
    Hypothesis Hs : RP.contracting summ.

    Lemma summ_sub : forall p i ch, exists i' ch', summ p (RM.NSub i ch) = RM.NSub i' ch' /\ RM.i_kind i' = RM.i_kind i.
    Proof.
      intros p i ch. pose proof (Hs p (RM.NSub i ch)) as H. inversion H; subst;
        eexists; eexists; (split; [reflexivity|]); apply set_cur_kind.
    Qed.

    Lemma record_is_create : forall t p, RM.is_create (RM.record oc summ p t) = RP.is_create_t t.
    Proof.
      intros t p. destruct t as [l | l c | items w | items e]; cbn [RM.record RP.is_create_t]; try reflexivity.
      - destruct (summ_sub p (RM.accumulate oc TM.KSection
            (RM.record_items (RM.record oc summ) p 0 items ++ [RM.NLeaf (RM.leaf_info TM.KWait w)]))
            (RM.record_items (RM.record oc summ) p 0 items ++ [RM.NLeaf (RM.leaf_info TM.KWait w)])) as (i' & ch' & -> & _). reflexivity.
      - destruct (summ_sub p (RM.accumulate oc TM.KTask
            (RM.record_items (RM.record oc summ) p 0 items ++ [RM.NLeaf (RM.leaf_info TM.KEnd e)]))
            (RM.record_items (RM.record oc summ) p 0 items ++ [RM.NLeaf (RM.leaf_info TM.KEnd e)])) as (i' & ch' & -> & _). reflexivity.
    Qed.

    Lemma last_leafN_app : forall l i, last_leafN (l ++ [RM.NLeaf i]) = true.
    Proof.
      induction l as [|x r IH]; intros i; [reflexivity|]. cbn [app].
      destruct (r ++ [RM.NLeaf i]) as [|y r2] eqn:E; [destruct r; discriminate|]. rewrite <- E. cbn [last_leafN].
      rewrite E. rewrite <- E. apply IH.
    Qed.

    Lemma items_no_create : forall p items k, Forall (fun x => TM.wf TM.CTask x = true) items ->
      existsb RM.is_create (RM.record_items (RM.record oc summ) p k items) = false.
    Proof.
      intros p items. induction items as [|x r IH]; intros k H; [reflexivity|].
      inversion H as [|x' r' Hx Hr]; subst. cbn [RM.record_items existsb]. rewrite record_is_create, (IH _ Hr).
      destruct (RP.wf_task_item _ Hx) as [(l & ->)|(it & w & -> & _)]; reflexivity.
    Qed.

    Definition claim_rec (t : TM.tree) : Prop := forall c p, TM.wf c t = true ->
      good (RM.record oc summ p t) /\
      (c = TM.CChild -> exists i chs, RM.record oc summ p t = RM.NSub i chs /\ RM.i_kind i = TM.KTask).

    Lemma items_good : forall c items, Forall claim_rec items -> Forall (fun x => TM.wf c x = true) items ->
      forall p k, goods (RM.record_items (RM.record oc summ) p k items).
    Proof.
      intros c items H. induction H as [|x r Hx _ IHr]; intros Hw p k; [constructor|].
      inversion Hw; subst. cbn [RM.record_items]. constructor; [exact (proj1 (Hx c _ H1)) | now apply IHr].
    Qed.

    Lemma sub_good : forall k kw l items p (w : TM.leaf),
      (kw = TM.KWait \/ kw = TM.KEnd) -> (k = TM.KSection \/ k = TM.KTask) ->
      goods l -> (k = TM.KTask -> existsb RM.is_create l = false) ->
      l = RM.record_items (RM.record oc summ) p 0 items ->
      good (summ p (RM.NSub (RM.accumulate oc k (l ++ [RM.NLeaf (RM.leaf_info kw w)])) (l ++ [RM.NLeaf (RM.leaf_info kw w)]))).
    Proof.
      intros k kw l items p w Hkw Hk Hg Hnc _.
      eapply good_contracts; [|apply Hs]. apply good_NSub.
      rewrite RP.accumulate_kind. split; [exact Hk|]. split; [apply last_leafN_app|]. split.
      - intros E. rewrite existsb_app, (Hnc E). reflexivity.
      - split; [intros _; apply RP.accumulate_t1|].
        unfold goods. apply Forall_app. split; [exact Hg|]. constructor; [|constructor].
        cbn [good]. unfold leaf_kind. cbn. destruct Hkw as [-> | ->]; tauto.
    Qed.

    Theorem record_good : forall t, claim_rec t.
    Proof.
      induction t as [l | l ch IH | items w IH | items e IH] using RP.tree_ind'; intros c p Hw.
      - split; [cbn; unfold leaf_kind; cbn; tauto|]. intros ->. discriminate Hw.
      - destruct c; cbn in Hw; try discriminate. split; [|discriminate].
        destruct (IH TM.CChild (p ++ [0%nat]) Hw) as [Hg Hsh]. destruct (Hsh eq_refl) as (i & chs & Heq & Hk).
        cbn [RM.record good]. split; [reflexivity|]. split; [exists i, chs; split; assumption | exact Hg].
      - assert (Hit : Forall (fun x => TM.wf TM.CSect x = true) items)
          by (destruct c; cbn in Hw; try discriminate; apply RP.wf_forall; exact Hw).
        split; [|intros ->; discriminate Hw]. cbn [RM.record].
        eapply sub_good; [now left | now left | eapply items_good; eassumption | discriminate | reflexivity].
      - assert (Hit : Forall (fun x => TM.wf TM.CTask x = true) items)
          by (destruct c; cbn in Hw; try discriminate; apply RP.wf_forall; exact Hw).
        split.
        + cbn [RM.record]. eapply sub_good; [now right | now right | eapply items_good; eassumption | | reflexivity].
          intros _. now apply items_no_create.
        + intros _. cbn [RM.record]. destruct (summ_sub p
            (RM.accumulate oc TM.KTask (RM.record_items (RM.record oc summ) p 0 items ++ [RM.NLeaf (RM.leaf_info TM.KEnd e)]))
            (RM.record_items (RM.record oc summ) p 0 items ++ [RM.NLeaf (RM.leaf_info TM.KEnd e)])) as (i' & ch' & Heq & Hk).
          exists i', ch'. split; [exact Heq|]. rewrite Hk. apply RP.accumulate_kind.
    Qed.
  End Rec.

  (** ** the translated tree satisfies the hypotheses of the C19 theorems *)
  Lemma after_cont : forall x, exists k, cont_kind (after x) = Some k.
  Proof.
    intros x. destruct x as [i | i c | i ch]; cbn [after].
    - destruct (RM.i_kind i); eexists; reflexivity.
    - eexists; reflexivity.
    - destruct (aw (RM.NSub i ch)); eexists; reflexivity.
  Qed.

  Lemma first_in_br : forall n k, t_in_edge (first_data (br k n)) = k.
  Proof.
    induction n as [i | i c IH | i ch IH] using RP.node_ind'; intros k; try (cbn [br first_data tdata]; apply mk_d_in_edge).
    cbn [br]. destruct ch as [|x r]; [cbn [br_list first_data tdata]; apply mk_d_in_edge|].
    cbn [br_list first_data]. inversion IH; subst. apply H1.
  Qed.

  Lemma brs_kinds : forall l k, last_is_leaf (brs k l) = last_leafN l /\
    existsb is_CreateT (brs k l) = existsb RM.is_create l.
  Proof.
    induction l as [|x r IH]; intros k; [split; reflexivity|]. cbn [br_list].
    destruct (IH (after x)) as [A B]. split.
    - destruct r as [|y r2]; [cbn [br_list last_is_leaf last_leafN]; now destruct x|].
      cbn [br_list] in *. rewrite OrderProofs.last_is_leaf_tail. cbn [last_leafN]. exact A.
    - cbn [existsb]. rewrite B. now destruct x.
  Qed.

  Lemma brs_cont : forall l k, (exists k', cont_kind k = Some k') -> forallb cont_ok (brs k l) = true.
  Proof.
    induction l as [|x r IH]; intros k Hk; [reflexivity|]. cbn [br_list forallb].
    rewrite (IH _ (after_cont x)). unfold cont_ok. rewrite first_in_br. destruct Hk as (k' & ->). reflexivity.
  Qed.

  Lemma t1_w_br : forall n k, t1_w (br k n) = RP.full_t1 n.
  Proof.
    intros n k. destruct n as [i | i c | i ch]; cbn [br t1_w tdata]; unfold RP.full_t1, RP.child_part;
      rewrite ?tdata_br, ?mk_d_t1; cbn [RM.ninfo]; lia.
  Qed.

  Lemma brs_t1 : forall l k, fold_right (fun c a => t1_w c + a) 0 (brs k l) = TM.zsum (map RP.full_t1 l).
  Proof.
    induction l as [|x r IH]; intros k; [reflexivity|]. cbn [br_list fold_right map]. rewrite RP.zsum_cons, t1_w_br, IH. reflexivity.
  Qed.

  Theorem br_ok : forall n, good n -> forall k, wf_tree (br k n) = true /\ t1_ok (br k n) = true.
  Proof.
    induction n as [i | i c IH | i ch IH] using RP.node_ind'; intros Hg k.
    - split; [|reflexivity]. cbn [br wf_tree]. rewrite mk_d_kind. cbn [RM.ninfo].
      destruct Hg as [-> | [-> | ->]]; reflexivity.
    - destruct Hg as (Hk & (ic & chs & -> & Hkt) & Hgc). destruct (IH Hgc EK_create) as [A B].
      split; [|exact B]. cbn [wf_tree]. change (br k (RM.NCreate i (RM.NSub ic chs))) with
        (Create (mk_d k (RM.NCreate i (RM.NSub ic chs))) (br EK_create (RM.NSub ic chs))).
      cbn [wf_tree]. rewrite A, mk_d_kind, tdata_br, mk_d_kind. cbn [RM.ninfo]. rewrite Hk, Hkt. reflexivity.
    - apply good_NSub in Hg. destruct Hg as (Hk & Hl & Hnc & Ht & Hgs).
      assert (Hall : all_wf (brs k ch) = true /\ forallb t1_ok (brs k ch) = true).
      { clear -IH Hgs. revert k. unfold goods in Hgs. induction IH as [|x r Hx _ IHr]; intros k; [split; reflexivity|].
        inversion Hgs; subst. destruct (Hx H1 k) as [A B]. destruct (IHr H2 (after x)) as [C D].
        unfold all_wf in *. cbn [br_list forallb]. now rewrite A, B, C, D. }
      destruct Hall as [Hw Ho]. destruct (brs_kinds ch k) as [Bl Bc].
      cbn [br]. split.
      + apply wf_tree_Sub_intro.
        * rewrite mk_d_kind. cbn [RM.ninfo]. destruct Hk as [-> | ->]; unfold K_section; cbn; lia.
        * now rewrite Bl.
        * destruct ch as [|x r]; [exact I|]. cbn [br_list]. now rewrite mk_d_in_edge, tdata_br, mk_d_in_edge.
        * rewrite mk_d_kind. cbn [RM.ninfo]. destruct Hk as [-> | Hkt]; [now left|]. right. rewrite Bc. now apply Hnc.
        * destruct ch as [|x r]; [reflexivity|]. cbn [br_list tl]. apply brs_cont. apply after_cont.
        * exact Hw.
      + apply TotalsProofs.t1_ok_Sub_intro; [|exact Ho].
        destruct ch as [|x r]; [exact I|]. rewrite mk_d_t1. cbn [RM.ninfo].
        rewrite (Ht ltac:(discriminate)).
        assert (E : forall l, TotalsProofs.sum_list t1_w l = fold_right (fun c a => t1_w c + a) 0 l)
          by (induction l as [|a l IHl]; [reflexivity | cbn; now rewrite IHl]).
        rewrite E. symmetry. apply brs_t1.
  Qed.

  Theorem bridge_ok : forall oc summ, RP.contracting summ -> forall t, TM.well_nested t ->
    wf_root (bridge (RM.record oc summ [] t)) = true /\ t1_ok (bridge (RM.record oc summ [] t)) = true /\
    t_t1 (tdata (bridge (RM.record oc summ [] t))) = TM.work t.
  Proof.
    intros oc summ Hs t Hw. destruct (record_good oc summ Hs t TM.CChild [] Hw) as [Hg Hsh].
    destruct (Hsh eq_refl) as (i & chs & Heq & Hk). destruct (br_ok _ Hg EK_create) as [A B].
    unfold bridge. split; [|split; [exact B|]].
    - unfold wf_root. rewrite A, Heq. cbn [br is_SubT tdata andb]. rewrite mk_d_kind. cbn [RM.ninfo]. now rewrite Hk.
    - rewrite tdata_br, mk_d_t1. exact (RP.root_work oc summ Hs t Hw).
  Qed.
End Bridge.

(** * the C19 theorems for every recorded execution of the C18 model, without hypotheses *)
From MT Require Import DagFile.PruneModel DagFile.FlattenProofs DagFile.TotalsProofs.

Theorem wf_recorded : forall aux nm aw oc summ, RP.contracting summ -> forall t, TM.well_nested t ->
  forall hdr ptr sc nw,
  exists G, make_pi_dag hdr ptr sc nw (bridge aux nm aw (RM.record oc summ [] t)) = Ok G /\
            dag_wf G /\ gsc G = sc /\ gnw G = nw.
Proof.
  intros aux nm aw oc summ Hs t Hw hdr ptr sc nw.
  destruct (bridge_ok aux nm aw oc summ Hs t Hw) as (Hroot & _ & _).
  exact (flatten_dag_wf hdr ptr sc nw _ Hroot).
Qed.

Theorem shrink_totals_recorded : forall aux nm aw oc summ, RP.contracting summ -> forall t, TM.well_nested t ->
  forall cc hdr ptr sc nw,
  exists G G' x0 y0,
    make_pi_dag hdr ptr sc nw (bridge aux nm aw (RM.record oc summ [] t)) = Ok G /\
    copy_pi_dag cc hdr ptr G = Ok G' /\ dag_wf G /\ dag_wf G' /\ gsc G' = sc /\ gnw G' = nw /\
    nth_error (gT G) 0 = Some x0 /\ nth_error (gT G') 0 = Some y0 /\ info_eq y0 x0 /\
    getf F_t1 x0 = TM.work t /\ getf F_t1 y0 = TM.work t /\
    leaf_t1_sum (gT G) = TM.work t /\ leaf_t1_sum (gT G') = TM.work t.
Proof.
  intros aux nm aw oc summ Hs t Hw cc hdr ptr sc nw.
  destruct (bridge_ok aux nm aw oc summ Hs t Hw) as (Hroot & Ht1 & Hwork).
  set (tr := bridge aux nm aw (RM.record oc summ [] t)) in *.
  destruct (flatten_wf hdr ptr sc nw tr Hroot) as (G & HG & Hwf & Hflat & Hsc & Hnw).
  destruct (shrink_totals cc hdr ptr sc nw tr G Hroot HG) as (G' & x0 & y0 & HG' & Hwf' & Hsc' & Hnw' & Hx0 & Hy0 & Hie & Hsum).
  destruct (Hsum Ht1) as [S1 S2].
  destruct Hflat as (HL & _).
  destruct (lay_node _ _ _ _ HL) as (x & Hx & (_ & (_ & _ & Hxt) & _)).
  rewrite Hx0 in Hx. injection Hx as <-.
  assert (Hy1 : getf F_t1 y0 = getf F_t1 x0) by (apply Hie; unfold F_t1, N_info, F_start_fidx, F_end_fidx; lia).
  exists G, G', x0, y0.
  split; [exact HG|]. split; [exact HG'|]. split; [exact Hwf|]. split; [exact Hwf'|].
  split; [now rewrite Hsc'|]. split; [now rewrite Hnw'|]. split; [exact Hx0|]. split; [exact Hy0|]. split; [exact Hie|].
  rewrite Hxt, Hwork in *. split; [reflexivity|]. split; [now rewrite Hy1|]. split; [exact S1|]. now rewrite S2, Hy1.
Qed.
