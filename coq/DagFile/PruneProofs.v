(** C19 — the shrinking copy (dr_copy_pi_dag): the copied node array represents the pruned tree, hence
    the shrunk dag is well formed; the root keeps its info and the leaves still add up to t_1 of the root. *)
From Coq Require Import ZArith List Bool Lia Arith Permutation.
From MT Require Import DagFile.FlattenModel DagFile.PruneModel DagFile.DagSpec DagFile.TreeLemmas
  DagFile.LayProofs DagFile.SortProofs DagFile.EdgeProofs DagFile.OrderProofs DagFile.CountProofs
  DagFile.FlattenProofs DagFile.PruneTree DagFile.PruneLoop.
Import ListNotations.
Local Open Scope Z_scope.

Local Opaque setf.

Section Copy.
  Variable cc : node -> bool.
  Variable T : list node.
  Variable t : tree.
  Hypothesis HL : lay T t 0 1.
  Hypothesis Hlen : length T = size t.
  Hypothesis HN : Forall (fun y => length y = N_node) T.
  Variable KL : list bool.
  Hypothesis HK : klay cc T KL t 0 1 true.
  Hypothesis HKlen : length KL = length T.
  Variable S : strtab.
  Local Notation n := (length T).
  Local Notation mp := (fst (prune_map cc T)).

  Lemma mp_spec : forall c, (c < n)%nat -> getz (Z.of_nat c) mp = final KL c.
  Proof.
    intros c Hc. destruct (prune_map_spec cc T t HL Hlen KL HK) as (_ & _ & H).
    unfold getz. destruct (Z.of_nat c <? 0) eqn:E; [apply Z.ltb_lt in E; lia|]. rewrite Nat2Z.id. now apply H.
  Qed.

  Lemma final_kept : forall c, (0 <=? final KL c) = kf KL c.
  Proof. intros c. unfold final. destruct (kf KL c); [apply Z.leb_le; lia | reflexivity]. Qed.

  Definition newnode (j : nat) (x : node) : node :=
    let '(a, b) := new_offsets mp (Z.of_nat j) x in setf F_oa a (setf F_ob b x).

  (** * the second loop emits the survivors in order *)
  Lemma copy_nodes_nth : forall l a j x, (a + length l <= n)%nat -> (a <= j)%nat ->
    nth_error l (j - a) = Some x -> kf KL j = true ->
    exists fs fe, nth_error (copy_nodes S mp l (Z.of_nat a)) (cnt_in KL a (j - a)) = Some (newnode j x, fs, fe).
  Proof.
    induction l as [|y r IH]; intros a j x Hn Haj Hx Hk; [destruct (j - a)%nat; discriminate|].
    cbn [length] in Hn. cbn [copy_nodes]. rewrite mp_spec by lia. rewrite final_kept.
    destruct (Nat.eq_dec j a) as [->|Hne].
    - rewrite Nat.sub_diag in *. injection Hx as <-. rewrite Hk. rewrite cnt_in_0.
      unfold newnode. destruct (new_offsets mp (Z.of_nat a) y) as [a0 b0]. eexists. eexists. reflexivity.
    - replace (j - a)%nat with (Datatypes.S (j - Datatypes.S a)) in * by lia. cbn [nth_error] in Hx.
      replace (Datatypes.S (j - Datatypes.S a)) with (1 + (j - Datatypes.S a))%nat by lia.
      rewrite cnt_in_add, cnt_in_1. replace (a + 1)%nat with (Datatypes.S a) by lia.
      replace (Z.of_nat a + 1) with (Z.of_nat (Datatypes.S a)) by lia.
      destruct (IH (Datatypes.S a) j x ltac:(lia) ltac:(lia) Hx Hk) as (fs & fe & H).
      destruct (kf KL a).
      + destruct (new_offsets mp (Z.of_nat a) y) as [a0 b0]. exists fs, fe. exact H.
      + exists fs, fe. exact H.
  Qed.

  Lemma copy_nodes_length : forall l a, (a + length l <= n)%nat ->
    length (copy_nodes S mp l (Z.of_nat a)) = cnt_in KL a (length l).
  Proof.
    induction l as [|y r IH]; intros a Hn; [reflexivity|].
    cbn [length] in *. cbn [copy_nodes]. rewrite mp_spec by lia. rewrite final_kept.
    replace (Datatypes.S (length r)) with (1 + length r)%nat by lia. rewrite cnt_in_add, cnt_in_1.
    replace (a + 1)%nat with (Datatypes.S a) by lia. replace (Z.of_nat a + 1) with (Z.of_nat (Datatypes.S a)) by lia.
    specialize (IH (Datatypes.S a) ltac:(lia)).
    destruct (kf KL a); [destruct (new_offsets mp (Z.of_nat a) y) as [a0 b0]; cbn [length]; lia | lia].
  Qed.

  Definition T0' : list node := fst (prune_nodes cc (mk_pidag 0 0 0 0 T [] S)).

  Lemma T0'_eq : T0' = fst (intern_all (copy_nodes S mp T 0) []).
  Proof.
    unfold T0', prune_nodes. cbn [gT gS]. destruct (prune_map cc T) as [m0 n0]. reflexivity.
  Qed.

  Lemma nub_total : nub KL n = cnt_in KL 0 n.
  Proof. reflexivity. Qed.

  Lemma T0'_length : length T0' = nub KL n.
  Proof.
    rewrite T0'_eq. pose proof (intern_all_shape (copy_nodes S mp T 0) []) as H.
    apply Forall2_length_eq in H. rewrite H. change 0 with (Z.of_nat 0). rewrite copy_nodes_length by lia. reflexivity.
  Qed.

  Lemma T0'_nth : forall j x, nth_error T j = Some x -> kf KL j = true ->
    exists y, nth_error T0' (nub KL j) = Some y /\ shape y = shape (newnode j x).
  Proof.
    intros j x Hx Hk. rewrite T0'_eq.
    assert (Hj : (j < n)%nat) by (apply nth_error_Some; congruence).
    destruct (copy_nodes_nth T 0%nat j x ltac:(lia) ltac:(lia)) as (fs & fe & H); [now rewrite Nat.sub_0_r | exact Hk|].
    rewrite Nat.sub_0_r in H. change (Z.of_nat 0) with 0 in H.
    pose proof (intern_all_shape (copy_nodes S mp T 0) []) as HF.
    destruct (Forall2_nth_r _ _ _ _ _ _ _ HF H) as (y & Hy & Hs). exists y. split; [exact Hy | exact Hs].
  Qed.

  (** * the rewritten offsets are those of the pruned tree at the new positions *)
  Lemma newnode_shape : forall j x, length x = N_node ->
    shape (newnode j x) = (getf F_kind x, getf F_in_edge x, getf F_t1 x,
                           fst (new_offsets mp (Z.of_nat j) x), snd (new_offsets mp (Z.of_nat j) x)).
  Proof.
    intros j x Hx. unfold newnode. destruct (new_offsets mp (Z.of_nat j) x) as [a b]. cbn [fst snd]. unfold shape.
    rewrite !getf_setf_neq by (unfold F_kind, F_in_edge, F_t1, F_oa, F_ob; lia).
    rewrite (getf_setf_eq F_oa) by (rewrite setf_length, Hx; unfold F_oa, N_node; lia).
    rewrite (getf_setf_neq F_ob F_oa) by (unfold F_oa, F_ob; lia).
    rewrite (getf_setf_eq F_ob) by (rewrite Hx; unfold F_ob, N_node; lia).
    reflexivity.
  Qed.

  Lemma nub_mono : forall a b, (a <= b)%nat -> (nub KL a <= nub KL b)%nat.
  Proof. intros a b H. replace b with (a + (b - a))%nat by lia. rewrite nub_add. lia. Qed.

  Lemma nub_lt : forall j q, (j < q)%nat -> kf KL j = true -> (nub KL j < nub KL q)%nat.
  Proof.
    intros j q H Hk. pose proof (nub_mono (Datatypes.S j) q ltac:(lia)). rewrite nub_S, Hk in H0. lia.
  Qed.

  Lemma nub_block : forall q m l b, (forall i, (i < m)%nat -> kf KL (q + i) = b) -> (l <= m)%nat ->
    nub KL (q + l) = (nub KL q + (if b then l else 0))%nat.
  Proof.
    intros q m l b H Hl. rewrite nub_add. f_equal. apply cnt_in_block. intros i Hi. apply H. lia.
  Qed.

  Lemma new_node_ok : forall s j q x, nth_error T j = Some x -> node_ok x s j q -> lay T s j q ->
    klay cc T KL s j q true -> node_ok (newnode j x) (ptree cc T s j q) (nub KL j) (nub KL q).
  Proof.
    intros s j q x Hx Hok HLs HKs.
    assert (Hlx : length x = N_node) by (rewrite Forall_forall in HN; apply HN; eapply nth_error_In; exact Hx).
    assert (Hj : (j < n)%nat) by (apply nth_error_Some; congruence).
    pose proof (klay_flag _ _ _ _ _ _ _ HKs) as Hkj.
    pose proof (newnode_shape j x Hlx) as Hsh.
    destruct Hok as (Hjq & (Dk & Di & Dt) & Hshape).
    assert (Hlt : (nub KL j < nub KL q)%nat) by (apply nub_lt; assumption).
    assert (Hmi : getz (Z.of_nat j) mp = Z.of_nat (nub KL j)).
    { rewrite mp_spec by exact Hj. unfold final. now rewrite Hkj. }
    assert (Hdata : forall y, shape y = shape (newnode j x) -> data_ok y (tdata (ptree cc T s j q))).
    { intros y Hy. rewrite Hsh in Hy. unfold shape in Hy. injection Hy as H1 H2 H3 _ _.
      rewrite tdata_ptree. unfold data_ok. now rewrite H1, H2, H3, Dk, Di, Dt. }
    set (y := newnode j x) in *.
    unfold shape in Hsh. injection Hsh as Sk _ _ Sa Sb.
    split; [exact Hlt|]. split; [now apply Hdata|].
    unfold new_offsets in Sa, Sb. rewrite Hmi in Sa, Sb.
    destruct s as [d | d c | d cs].
    - destruct Hshape as [Hs Hc]. cbn [ptree]. unfold is_sub, is_create in *. rewrite Sk. now split.
    - destruct Hshape as (Hc & Hs & Ho). cbn [ptree]. rewrite Hc in Sa, Sb. cbn [fst snd] in Sa, Sb.
      unfold is_sub, is_create in *. rewrite Sk. split; [exact Hc|]. split; [exact Hs|].
      destruct HKs as [_ HKc]. pose proof (klay_flag _ _ _ _ _ _ _ HKc) as Hkq.
      pose proof (lay_index_lt _ _ _ _ (lay_Create_child _ _ _ _ _ HLs)) as Hq.
      rewrite Sa. replace (Z.of_nat j + getf F_oa x) with (Z.of_nat q) by lia.
      rewrite mp_spec by exact Hq. unfold final. rewrite Hkq. lia.
    - destruct Hshape as (Hs & Hc & Ho). rewrite Hc, Hs in Sa, Sb.
      assert (Hsy : is_sub y = true /\ is_create y = false) by (unfold is_sub, is_create in *; now rewrite Sk).
      destruct cs as [|c1 r].
      + (* an already collapsed node keeps its (empty) range *)
        replace (Z.of_nat j + getf F_oa x <? Z.of_nat j + getf F_ob x) with false in Sa, Sb
          by (symmetry; apply Z.ltb_ge; lia).
        cbn [fst snd] in Sa, Sb. cbn [ptree ptree_list length].
        destruct (ccT cc T j); (split; [exact (proj1 Hsy)|]; split; [exact (proj2 Hsy)|]; lia).
      + destruct Ho as [Ha Hb]. set (m := length (c1 :: r)) in *.
        replace (Z.of_nat j + getf F_oa x <? Z.of_nat j + getf F_ob x) with true in Sa, Sb
          by (symmetry; apply Z.ltb_lt; unfold m in *; cbn [length] in *; lia).
        destruct HKs as [_ HKl]. cbn [andb] in HKl.
        apply lay_Sub_inv in HLs. destruct HLs as [_ HLL].
        assert (Hflag : forall i, (i < m)%nat -> kf KL (q + i) = ccT cc T j)
          by (intros i Hi; eapply klays_heads_flag; eassumption).
        assert (Hin : forall i, (i < m)%nat -> (q + i < n)%nat).
        { intros i Hi. destruct (nth_error (c1 :: r) i) as [ci|] eqn:Eci; [|apply nth_error_None in Eci; unfold m in Hi; lia].
          exact (lay_index_lt _ _ _ _ (lay_list_nth _ _ _ _ _ _ HLL Eci)). }
        replace (Z.of_nat j + getf F_oa x) with (Z.of_nat q) in Sa, Sb by lia.
        replace (Z.of_nat j + getf F_ob x - 1) with (Z.of_nat (q + (m - 1))) in Sa, Sb
          by (unfold m in *; cbn [length] in *; lia).
        assert (Hq0 : (q < n)%nat) by (specialize (Hin 0%nat ltac:(unfold m; cbn [length]; lia)); lia).
        assert (Hqm : (q + (m - 1) < n)%nat) by (apply Hin; unfold m; cbn [length]; lia).
        rewrite (mp_spec q Hq0) in Sa, Sb. rewrite (mp_spec _ Hqm) in Sb.
        rewrite final_kept in Sa, Sb.
        pose proof (Hflag 0%nat ltac:(unfold m; cbn [length]; lia)) as Hf0. rewrite Nat.add_0_r in Hf0.
        rewrite Hf0 in Sa, Sb. cbn [ptree].
        destruct (ccT cc T j) eqn:Ecc.
        * cbn [fst snd] in Sa, Sb. unfold final in Sa, Sb.
          rewrite Hf0 in Sa. rewrite (Hflag (m - 1)%nat ltac:(unfold m; cbn [length]; lia)) in Sb.
          rewrite (nub_block q m (m - 1) true Hflag ltac:(lia)) in Sb.
          split; [exact (proj1 Hsy)|]. split; [exact (proj2 Hsy)|].
          destruct (ptree_list (fun c i' q' => ptree cc T c i' q') (c1 :: r) q (q + length (c1 :: r))) as [|c1' r'] eqn:Ep.
          { apply (f_equal (@length tree)) in Ep. rewrite ptrees_length in Ep. discriminate. }
          assert (Hpl : length (c1' :: r') = m) by (rewrite <- Ep, ptrees_length; reflexivity).
          assert (Hm1 : (1 <= m)%nat) by (unfold m; cbn [length]; lia).
          rewrite Hpl. split; lia.
        * cbn [fst snd] in Sa, Sb. split; [exact (proj1 Hsy)|]. split; [exact (proj2 Hsy)|]. lia.
  Qed.

  (** * the copied array represents the pruned tree *)
  Definition claim_lay (s : tree) : Prop :=
    forall j q, lay T s j q -> klay cc T KL s j q true ->
      lay T0' (ptree cc T s j q) (nub KL j) (nub KL q).

  Lemma node_of_lay : forall s j q, lay T s j q -> klay cc T KL s j q true ->
    exists y, nth_error T0' (nub KL j) = Some y /\ node_ok y (ptree cc T s j q) (nub KL j) (nub KL q).
  Proof.
    intros s j q HLs HKs. destruct (lay_node _ _ _ _ HLs) as (x & Hx & Hok).
    destruct (T0'_nth j x Hx (klay_flag _ _ _ _ _ _ _ HKs)) as (y & Hy & Hs).
    exists y. split; [exact Hy|]. eapply node_ok_shape; [symmetry; exact Hs|].
    now apply new_node_ok.
  Qed.

  Lemma lay_pruned_list : forall l, Forall claim_lay l -> forall i q,
    lay_list (lay T) l i q -> klay_list (fun c i' q' k' => klay cc T KL c i' q' k') l i q true ->
    lay_list (lay T0') (ptree_list (fun c i' q' => ptree cc T c i' q') l i q) (nub KL i) (nub KL q).
  Proof.
    intros l H. induction H as [|c r Hc _ IHr]; intros i q HLL HKL; [exact I|].
    destruct HLL as [HLc HLr]. destruct HKL as [HKc HKr]. cbn [ptree_list lay_list]. split.
    - now apply Hc.
    - specialize (IHr _ _ HLr HKr).
      rewrite nub_S, (klay_flag _ _ _ _ _ _ _ HKc) in IHr.
      rewrite nub_add, (lemma_B cc T KL c _ _ _ HKc) in IHr.
      replace (nub KL i + 1)%nat with (Datatypes.S (nub KL i)) in IHr by lia. exact IHr.
  Qed.

  Lemma lay_pruned : forall s, claim_lay s.
  Proof.
    induction s as [d | d c IH | d cs IH] using tree_ind2; intros j q HLs HKs.
    - split; [exact (node_of_lay _ _ _ HLs HKs) | exact I].
    - split; [exact (node_of_lay _ _ _ HLs HKs)|]. cbn [ptree].
      pose proof (lay_Create_child _ _ _ _ _ HLs) as HLc. destruct HKs as [_ HKc].
      specialize (IH _ _ HLc HKc). rewrite nub_S, (klay_flag _ _ _ _ _ _ _ HKc) in IH.
      replace (nub KL q + 1)%nat with (Datatypes.S (nub KL q)) in IH by lia. exact IH.
    - pose proof (node_of_lay _ _ _ HLs HKs) as Hnode. cbn [ptree] in *.
      apply lay_Sub_inv in HLs. destruct HLs as [_ HLL]. destruct HKs as [_ HKl]. cbn [andb] in HKl.
      destruct (ccT cc T j) eqn:Ecc.
      + split; [exact Hnode|].
        pose proof (lay_pruned_list cs IH _ _ HLL HKl) as H.
        rewrite (nub_block q (length cs) (length cs) true) in H
          by (try lia; intros i Hi; eapply klays_heads_flag; eassumption).
        rewrite ptrees_length. exact H.
      + split; [exact Hnode | exact I].
  Qed.

  Theorem pruned_lay : lay T0' (ptree cc T t 0 1) 0 1 /\ length T0' = size (ptree cc T t 0 1).
  Proof.
    pose proof (lay_pruned t 0%nat 1%nat HL HK) as H.
    assert (H0 : nub KL 0 = 0%nat) by reflexivity.
    assert (H1 : nub KL 1 = 1%nat) by (rewrite nub_S, (klay_flag _ _ _ _ _ _ _ HK); reflexivity).
    rewrite H0, H1 in H. split; [exact H|].
    rewrite T0'_length. replace n with (1 + desc t)%nat by (rewrite Hlen, (size_desc t); lia).
    rewrite nub_add, H1. rewrite (lemma_B cc T KL t _ _ _ HK), (size_desc (ptree cc T t 0 1)). lia.
  Qed.
End Copy.

(** * the pruned tree obeys the grammar *)
Lemma wf_tree_Sub_intro : forall d cs,
  K_section <= t_kind d -> last_is_leaf cs = true ->
  match cs with [] => True | c :: _ => t_in_edge d = t_in_edge (tdata c) end ->
  (t_kind d = K_section \/ existsb is_CreateT cs = false) ->
  forallb cont_ok (tl cs) = true -> all_wf cs = true -> wf_tree (Sub d cs) = true.
Proof.
  intros d cs H1 H2 H3 H4 H5 H6. cbn [wf_tree].
  apply Z.leb_le in H1. rewrite H1, H2, H5. cbn [andb].
  assert (E3 : match cs with [] => true | c :: _ => t_in_edge d =? t_in_edge (tdata c) end = true)
    by (destruct cs; [reflexivity | now apply Z.eqb_eq]).
  rewrite E3. cbn [andb].
  assert (E4 : (t_kind d =? K_section) || negb (existsb is_CreateT cs) = true)
    by (destruct H4 as [E|E]; [apply Z.eqb_eq in E; now rewrite E | rewrite E; apply orb_true_r]).
  rewrite E4. cbn [andb]. exact H6.
Qed.

Lemma first_in_edge : forall t, wf_tree t = true -> t_in_edge (first_data t) = t_in_edge (tdata t).
Proof.
  induction t as [d | d c IH | d cs IH] using tree_ind2; intros Hw; try reflexivity.
  destruct cs as [|c r]; [reflexivity|]. cbn [first_data tdata].
  pose proof (wf_tree_Sub_in_edge _ _ _ Hw) as He. apply wf_tree_Sub in Hw. destruct Hw as (_ & _ & _ & _ & Hall).
  unfold all_wf in Hall. cbn [forallb] in Hall. apply andb_prop in Hall. destruct Hall as [Hc _].
  inversion IH as [|c' r' IHc _]; subst. now rewrite (IHc Hc).
Qed.

Section WfPrune.
  Variable cc : node -> bool.
  Variable T : list node.
  Notation pt := (ptree cc T).
  Notation pts := (ptree_list (fun c i' q' => ptree cc T c i' q')).

  Lemma ptree_kinds : forall t i p,
    is_LeafT (pt t i p) = is_LeafT t /\ is_CreateT (pt t i p) = is_CreateT t /\ is_SubT (pt t i p) = is_SubT t.
  Proof. intros t i p. destruct t as [d | d c | d cs]; cbn [ptree]; try (repeat split; reflexivity). destruct (ccT cc T i); repeat split; reflexivity. Qed.

  Lemma pts_last_leaf : forall l i q, last_is_leaf (pts l i q) = last_is_leaf l.
  Proof.
    induction l as [|c r IH]; intros i q; [reflexivity|]. cbn [ptree_list].
    destruct r as [|c2 r2].
    - cbn [ptree_list last_is_leaf]. apply (proj1 (ptree_kinds c i q)).
    - cbn [ptree_list] in *. rewrite !last_is_leaf_tail. apply (IH (Datatypes.S i) (q + desc c)%nat).
  Qed.

  Lemma pts_creates : forall l i q, existsb is_CreateT (pts l i q) = existsb is_CreateT l.
  Proof.
    induction l as [|c r IH]; intros i q; [reflexivity|]. cbn [ptree_list existsb].
    rewrite IH. now rewrite (proj1 (proj2 (ptree_kinds c i q))).
  Qed.

  Definition claim_wf (t : tree) : Prop := forall i p, wf_tree t = true -> wf_tree (pt t i p) = true.

  Lemma cont_ok_ptree : forall c i p, wf_tree c = true -> wf_tree (pt c i p) = true -> cont_ok (pt c i p) = cont_ok c.
  Proof.
    intros c i p H1 H2. unfold cont_ok. now rewrite (first_in_edge _ H2), tdata_ptree, <- (first_in_edge _ H1).
  Qed.

  Lemma pts_wf : forall l, Forall claim_wf l -> all_wf l = true -> forall i q,
    all_wf (pts l i q) = true /\ forallb cont_ok (pts l i q) = forallb cont_ok l.
  Proof.
    intros l H. induction H as [|c r Hc _ IHr]; intros Hw i q; [split; reflexivity|].
    unfold all_wf in *. cbn [forallb] in Hw. apply andb_prop in Hw. destruct Hw as [Hwc Hwr].
    destruct (IHr Hwr (Datatypes.S i) (q + desc c)%nat) as [A B]. cbn [ptree_list forallb].
    rewrite (Hc i q Hwc), A, B, (cont_ok_ptree c i q Hwc (Hc i q Hwc)). split; reflexivity.
  Qed.

  Lemma wf_ptree : forall t, claim_wf t.
  Proof.
    induction t as [d | d c IH | d cs IH] using tree_ind2; intros i p Hw.
    - exact Hw.
    - pose proof (wf_tree_Create_sub _ _ Hw) as Hsub. pose proof (wf_tree_Create _ _ Hw) as (Hk & Hkc & Hwc).
      cbn [ptree wf_tree]. rewrite (IH p (Datatypes.S p) Hwc), tdata_ptree, (proj2 (proj2 (ptree_kinds c p (Datatypes.S p)))), Hsub.
      apply Z.eqb_eq in Hk. rewrite Hk. apply Z.eqb_neq in Hkc. rewrite Hkc. reflexivity.
    - pose proof Hw as Hw0. apply wf_tree_Sub in Hw. destruct Hw as (H1 & H2 & H3 & H4 & H5). cbn [ptree].
      destruct (ccT cc T i).
      + destruct (pts_wf cs IH H5 p (p + length cs)%nat) as [A B].
        apply wf_tree_Sub_intro; try assumption.
        * now rewrite pts_last_leaf.
        * destruct cs as [|c r]; [exact I|]. cbn [ptree_list]. rewrite tdata_ptree. exact (wf_tree_Sub_in_edge _ _ _ Hw0).
        * destruct H3 as [E|E]; [now left | right; now rewrite pts_creates].
        * destruct cs as [|c r]; [reflexivity|]. cbn [ptree_list tl length] in *.
          unfold all_wf in H5. cbn [forallb] in H5. apply andb_prop in H5. destruct H5 as [_ H5r].
          inversion IH as [|c' r' _ IHr]; subst.
          destruct (pts_wf r IHr H5r (Datatypes.S p) (p + Datatypes.S (length r) + desc c)%nat) as [_ B']. now rewrite B'.
      + apply wf_tree_Sub_intro; try assumption; try reflexivity; try exact I. now right.
  Qed.

  Lemma wf_root_ptree : forall t, wf_root t = true -> wf_root (pt t 0 1) = true.
  Proof.
    intros t H. destruct (wf_root_inv t H) as (Hw & d & cs & -> & Hk). unfold wf_root.
    rewrite (wf_ptree _ 0%nat 1%nat Hw), tdata_ptree, (proj2 (proj2 (ptree_kinds (Sub d cs) 0 1))). cbn [is_SubT tdata andb].
    apply Z.eqb_neq in Hk. now rewrite Hk.
  Qed.
End WfPrune.

(** * nodes keep their 58 words *)
Lemma copy_nodes_lengths : forall S mp l a, Forall (fun y => length y = N_node) l ->
  Forall (fun x => length (fst (fst x)) = N_node) (copy_nodes S mp l a).
Proof.
  intros S mp l. induction l as [|y r IH]; intros a H; [constructor|].
  inversion H as [|y' r' Hy Hr]; subst. cbn [copy_nodes].
  destruct (0 <=? getz a mp); [|now apply IH].
  destruct (new_offsets mp a y) as [a0 b0]. constructor; [|now apply IH].
  cbn [fst]. now rewrite !setf_length.
Qed.

(** * the theorem about dr_copy_pi_dag *)
Theorem shrink_ok : forall cc hdr ptr t G,
  wf_root t = true -> flat_ok t G ->
  exists G', copy_pi_dag cc hdr ptr G = Ok G' /\ dag_wf G' /\
             flat_ok (ptree cc (gT G) t 0 1) G' /\ gsc G' = gsc G /\ gnw G' = gnw G /\
             exists ps, gT G' = set_ptrs (T0' cc (gT G) (gS G)) ps /\ length ps = length (T0' cc (gT G) (gS G)).
Proof.
  intros cc hdr ptr t G Hroot (HL & Hlen & HN & _).
  set (T := gT G) in *. set (KL := kflags_all cc T t).
  pose proof (klay_all cc T t) as HK. fold KL in HK.
  assert (HKlen : length KL = length T) by (unfold KL; now rewrite kflags_all_length, Hlen).
  destruct (pruned_lay cc T t HL Hlen HN KL HK HKlen (gS G)) as [HL' Hlen'].
  assert (HN' : Forall (fun y => length y = N_node) (T0' cc T (gS G))).
  { rewrite T0'_eq. apply intern_all_lengths. apply copy_nodes_lengths. exact HN. }
  unfold copy_pi_dag.
  assert (Hpn : prune_nodes cc G = prune_nodes cc (mk_pidag 0 0 0 0 T [] (gS G))) by reflexivity.
  destruct (prune_nodes cc G) as [T0 tbl] eqn:Ep.
  assert (HT0 : T0 = T0' cc T (gS G)) by (unfold T0'; now rewrite <- Hpn).
  subst T0.
  destruct (finish_ok hdr ptr (gsc G) (gnw G) _ tbl _ (wf_root_ptree cc T t Hroot) HL' Hlen' HN')
    as (G' & HG' & Hwf & Hflat & Hsc & Hnw & _ & _ & Hps).
  exists G'. split; [exact HG'|]. split; [exact Hwf|]. split; [exact Hflat|]. split; [exact Hsc|]. split; [exact Hnw | exact Hps].
Qed.
