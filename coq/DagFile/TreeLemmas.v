(** C19 — basic facts about fields, trees and the enumeration order of dr_pi_dag_enum_nodes. *)
From Coq Require Import ZArith List Bool Lia Arith.
From MT Require Import DagFile.FlattenModel.
Import ListNotations.
Local Open Scope Z_scope.

(** * fields *)
Lemma setf_length : forall k v x, length (setf k v x) = length x.
Proof.
  induction k as [|k IH]; intros v [|a x]; cbn [setf length]; try reflexivity. now rewrite IH.
Qed.

Lemma getf_setf_eq : forall k v x, (k < length x)%nat -> getf k (setf k v x) = v.
Proof.
  unfold getf. induction k as [|k IH]; intros v [|a x] H; cbn [length] in H; try lia; cbn [setf nth].
  - reflexivity.
  - apply IH. lia.
Qed.

Lemma getf_setf_neq : forall k j v x, k <> j -> getf k (setf j v x) = getf k x.
Proof.
  unfold getf. induction k as [|k IH]; intros [|j] v [|a x] H; cbn [setf nth]; try reflexivity; try lia.
  apply IH. lia.
Qed.

Lemma getf_app1 : forall k a b, (k < length a)%nat -> getf k (a ++ b) = getf k a.
Proof. intros k a b H. unfold getf. now apply app_nth1. Qed.

Lemma getf_app2 : forall k a b, (length a <= k)%nat -> getf k (a ++ b) = getf (k - length a) b.
Proof. intros k a b H. unfold getf. now apply app_nth2. Qed.

Lemma pad_info_length : forall a, length (pad_info a) = N_info.
Proof.
  intros a. unfold pad_info. rewrite firstn_length, app_length, repeat_length. lia.
Qed.

(** * induction on trees *)
Section TreeInd.
  Variable P : tree -> Prop.
  Hypothesis HL : forall d, P (Leaf d).
  Hypothesis HC : forall d c, P c -> P (Create d c).
  Hypothesis HS : forall d cs, Forall P cs -> P (Sub d cs).
  Fixpoint tree_ind2 (t : tree) : P t :=
    match t with
    | Leaf d => HL d
    | Create d c => HC d c (tree_ind2 c)
    | Sub d cs => HS d cs ((fix go (l : list tree) : Forall P l :=
                              match l with
                              | [] => Forall_nil P
                              | c :: r => Forall_cons c (tree_ind2 c) (go r)
                              end) cs)
    end.
End TreeInd.

(** * sizes *)
Definition sizes (l : list tree) : nat := fold_right (fun c a => (size c + a)%nat) O l.
Definition sum_desc (l : list tree) : nat := fold_right (fun c a => (desc c + a)%nat) O l.

Lemma size_Sub : forall d cs, size (Sub d cs) = S (sizes cs).
Proof.
  intros d cs. reflexivity.
Qed.

Lemma size_pos : forall t, (1 <= size t)%nat.
Proof. destruct t; cbn [size]; lia. Qed.

Lemma size_desc : forall t, size t = S (desc t).
Proof. intros t. unfold desc. pose proof (size_pos t). lia. Qed.

Lemma sizes_sum_desc : forall l, sizes l = (length l + sum_desc l)%nat.
Proof.
  induction l as [|c r IH]; [reflexivity|].
  cbn [sizes sum_desc fold_right length]. fold (sizes r). fold (sum_desc r).
  rewrite IH, (size_desc c). lia.
Qed.

Lemma desc_Leaf : forall d, desc (Leaf d) = O.
Proof. reflexivity. Qed.
Lemma desc_Create : forall d c, desc (Create d c) = size c.
Proof. reflexivity. Qed.
Lemma desc_Sub : forall d cs, desc (Sub d cs) = (length cs + sum_desc cs)%nat.
Proof. intros d cs. unfold desc. rewrite size_Sub, sizes_sum_desc. reflexivity. Qed.

Lemma sum_desc_app : forall a b, sum_desc (a ++ b) = (sum_desc a + sum_desc b)%nat.
Proof.
  induction a as [|c r IH]; intros b; [reflexivity|].
  cbn [app sum_desc fold_right]. fold (sum_desc (r ++ b)). fold (sum_desc r). rewrite IH. lia.
Qed.

(** * the enumeration: [descs] *)
Fixpoint tails (l : list tree) (q : nat) : list entry :=
  match l with [] => [] | c :: r => descs c q ++ tails r (q + desc c)%nat end.

Lemma descs_Sub : forall d cs p,
  descs (Sub d cs) p = heads cs p (p + length cs)%nat ++ tails cs (p + length cs)%nat.
Proof.
  intros d cs p. reflexivity.
Qed.

Definition eidx (e : entry) : nat := fst (fst e).

Lemma heads_length : forall l i q, length (heads l i q) = length l.
Proof. induction l as [|c r IH]; intros i q; cbn [heads length]; [reflexivity | now rewrite IH]. Qed.

Lemma heads_idx : forall l i q, map eidx (heads l i q) = seq i (length l).
Proof.
  induction l as [|c r IH]; intros i q; cbn [heads map length seq]; [reflexivity|]. now rewrite IH.
Qed.

Lemma descs_idx : forall t p, map eidx (descs t p) = seq p (desc t).
Proof.
  induction t as [d | d c IH | d cs IH] using tree_ind2; intros p.
  - reflexivity.
  - cbn [descs map]. rewrite IH. rewrite desc_Create, (size_desc c). reflexivity.
  - rewrite descs_Sub, map_app, heads_idx, desc_Sub, seq_app. f_equal.
    generalize (p + length cs)%nat. induction IH as [|c r Hc _ IHr]; intros q; [reflexivity|].
    cbn [tails map sum_desc fold_right]. fold (sum_desc r).
    rewrite map_app, Hc, IHr, seq_app. reflexivity.
Qed.

Lemma descs_length : forall t p, length (descs t p) = desc t.
Proof. intros t p. rewrite <- (map_length eidx), descs_idx, seq_length. reflexivity. Qed.

Lemma tails_length : forall l q, length (tails l q) = sum_desc l.
Proof.
  induction l as [|c r IH]; intros q; [reflexivity|].
  cbn [tails sum_desc fold_right]. fold (sum_desc r). now rewrite app_length, descs_length, IH.
Qed.

Lemma entries_idx : forall t, map eidx (entries t) = seq 0 (size t).
Proof. intros t. unfold entries. cbn [map]. rewrite descs_idx, (size_desc t). reflexivity. Qed.

Lemma entries_length : forall t, length (entries t) = size t.
Proof. intros t. rewrite <- (map_length eidx), entries_idx, seq_length. reflexivity. Qed.

(** * zrange, opt_concat_map *)
Lemma zrange_S : forall a n, zrange a (S n) = a :: zrange (a + 1) n.
Proof.
  intros a n. unfold zrange. cbn [seq map]. f_equal; [lia|].
  rewrite <- seq_shift, map_map. apply map_ext. intros k. lia.
Qed.

Lemma zrange_0 : forall a, zrange a O = [].
Proof. reflexivity. Qed.

Lemma zrange_length : forall a n, length (zrange a n) = n.
Proof. intros. unfold zrange. now rewrite map_length, seq_length. Qed.

Lemma zrange_nat : forall n, zrange 0 n = map Z.of_nat (seq 0 n).
Proof. intros n. unfold zrange. apply map_ext. intros; lia. Qed.

Lemma opt_concat_map_ext : forall (A B : Type) (f g : A -> option (list B)) l,
  (forall a, In a l -> f a = g a) -> opt_concat_map f l = opt_concat_map g l.
Proof.
  intros A B f g l. induction l as [|a r IH]; intros H; [reflexivity|].
  cbn [opt_concat_map]. rewrite (H a) by now left. rewrite IH; [reflexivity|].
  intros b Hb. apply H. now right.
Qed.

(** success of [opt_concat_map] element-wise *)
Lemma opt_concat_map_some : forall (A B : Type) (f : A -> option (list B)) (g : A -> list B) l,
  (forall a, In a l -> f a = Some (g a)) -> opt_concat_map f l = Some (concat (map g l)).
Proof.
  intros A B f g l. induction l as [|a r IH]; intros H; [reflexivity|].
  cbn [opt_concat_map map concat]. rewrite (H a) by now left. rewrite IH; [reflexivity|].
  intros b Hb. apply H. now right.
Qed.
