(** C19 — the tree view of the shrinking copy: which nodes survive ([kflags], laid out positionally
    by [klay]), the pruned tree ([ptree]) and the new index of every survivor ([nub] = number of
    survivors below). *)
From Coq Require Import ZArith List Bool Lia Arith.
From MT Require Import DagFile.FlattenModel DagFile.PruneModel DagFile.DagSpec DagFile.TreeLemmas
  DagFile.LayProofs DagFile.EdgeProofs.
Import ListNotations.

Section Prune.
  Variable cc : node -> bool.
  Variable T : list node.

  Definition nodeT (i : nat) : node := nth i T [].
  Definition ccT (i : nat) : bool := cc (nodeT i).

  Section PL.
    Variable f : tree -> nat -> nat -> tree.
    Fixpoint ptree_list (l : list tree) (i q : nat) : list tree :=
      match l with [] => [] | c :: r => f c i q :: ptree_list r (S i) (q + desc c) end.
  End PL.

  (** the pruned tree: a section/task keeps its subgraphs iff the decision [cc] on its node says so *)
  Fixpoint ptree (t : tree) (i p : nat) : tree :=
    match t with
    | Leaf d => Leaf d
    | Create d c => Create d (ptree c p (S p))
    | Sub d cs => if ccT i then Sub d (ptree_list (fun c i' q' => ptree c i' q') cs p (p + length cs))
                  else Sub d []
    end.
  Notation ptrees := (ptree_list (fun c i' q' => ptree c i' q')).

  Lemma ptrees_length : forall l i q, length (ptrees l i q) = length l.
  Proof. induction l as [|c r IH]; intros i q; cbn [ptree_list length]; [reflexivity | now rewrite IH]. Qed.

  Lemma tdata_ptree : forall t i p, tdata (ptree t i p) = tdata t.
  Proof. intros t i p. destruct t as [d | d c | d cs]; cbn [ptree tdata]; try reflexivity. now destruct (ccT i). Qed.

  (** * survivor flags in array order (the flags of [descs t p], given the flag k of t itself) *)
  Section KT.
    Variable f : tree -> nat -> nat -> bool -> list bool.
    Fixpoint ktails (l : list tree) (i q : nat) (k : bool) : list bool :=
      match l with [] => [] | c :: r => f c i q k ++ ktails r (S i) (q + desc c) k end.
  End KT.
  Fixpoint kflags (t : tree) (i p : nat) (k : bool) : list bool :=
    match t with
    | Leaf _ => []
    | Create _ c => k :: kflags c p (S p) k
    | Sub _ cs => repeat (k && ccT i) (length cs)
                  ++ ktails (fun c i' q' k' => kflags c i' q' k') cs p (p + length cs) (k && ccT i)
    end.
  Notation kflagss := (ktails (fun c i' q' k' => kflags c i' q' k')).

  Lemma kflags_length : forall t i p k, length (kflags t i p k) = desc t.
  Proof.
    induction t as [d | d c IH | d cs IH] using tree_ind2; intros i p k.
    - reflexivity.
    - cbn [kflags length]. rewrite IH, desc_Create, (size_desc c). reflexivity.
    - cbn [kflags]. rewrite app_length, repeat_length, desc_Sub. f_equal.
      generalize p at 1. generalize (p + length cs). generalize (k && ccT i).
      induction IH as [|c r Hc _ IHr]; intros k0 q i0; [reflexivity|].
      cbn [ktails sum_desc fold_right]. fold (sum_desc r). now rewrite app_length, Hc, IHr.
  Qed.

  (** * survivor flags, positionally: [klay KL t i p k] - the subtree at (i, p) has survival flag k *)
  Section KL.
    Variable R : tree -> nat -> nat -> bool -> Prop.
    Fixpoint klay_list (l : list tree) (i q : nat) (k : bool) : Prop :=
      match l with [] => True | c :: r => R c i q k /\ klay_list r (S i) (q + desc c) k end.
  End KL.

  Variable KL : list bool.
  Definition kf (i : nat) : bool := nth i KL false.

  Fixpoint klay (t : tree) (i p : nat) (k : bool) {struct t} : Prop :=
    kf i = k /\
    match t with
    | Leaf _ => True
    | Create _ c => klay c p (S p) k
    | Sub _ cs => klay_list (fun c i' q' k' => klay c i' q' k') cs p (p + length cs) (k && ccT i)
    end.
  Notation klays := (klay_list (fun c i' q' k' => klay c i' q' k')).

  Lemma klay_flag : forall t i p k, klay t i p k -> kf i = k.
  Proof. intros t i p k H. destruct t; exact (proj1 H). Qed.

  Lemma klays_nth : forall l i q k j c, klays l i q k -> nth_error l j = Some c ->
    klay c (i + j) (q + sum_desc (firstn j l)) k.
  Proof.
    induction l as [|a r IH]; intros i q k j c H Hj; [destruct j; discriminate|].
    destruct H as [Ha Hr]. destruct j as [|j].
    - injection Hj as <-. cbn [firstn sum_desc fold_right]. now rewrite !Nat.add_0_r.
    - cbn [nth_error] in Hj. specialize (IH _ _ _ _ _ Hr Hj).
      cbn [firstn sum_desc fold_right]. fold (sum_desc (firstn j r)).
      replace (i + S j) with (S i + j) by lia.
      replace (q + (desc a + sum_desc (firstn j r))) with (q + desc a + sum_desc (firstn j r)) by lia.
      exact IH.
  Qed.

  (** * counting survivors *)
  Fixpoint cnt_true (l : list bool) : nat :=
    match l with [] => 0 | b :: r => (if b then 1 else 0) + cnt_true r end.
  Definition nub (q : nat) : nat := cnt_true (firstn q KL).
  (** survivors with index in [a, a + m) *)
  Definition cnt_in (a m : nat) : nat := cnt_true (firstn m (skipn a KL)).

  Lemma cnt_true_app : forall a b, cnt_true (a ++ b) = cnt_true a + cnt_true b.
  Proof. induction a as [|x a IH]; intros b; [reflexivity|]. cbn [app cnt_true]. rewrite IH. lia. Qed.

  Lemma firstn_add : forall (A : Type) (l : list A) a m, firstn (a + m) l = firstn a l ++ firstn m (skipn a l).
  Proof.
    intros A l a. revert l. induction a as [|a IH]; intros l m; [reflexivity|].
    destruct l as [|x l]; [cbn; now rewrite firstn_nil|]. cbn [Nat.add firstn skipn app]. now rewrite IH.
  Qed.

  Lemma skipn_add : forall (A : Type) (l : list A) a m, skipn m (skipn a l) = skipn (a + m) l.
  Proof.
    intros A l a. revert l. induction a as [|a IH]; intros l m; [reflexivity|].
    destruct l as [|x l]; [now rewrite !skipn_nil|]. cbn [Nat.add skipn]. apply IH.
  Qed.

  Lemma nub_add : forall a m, nub (a + m) = nub a + cnt_in a m.
  Proof. intros a m. unfold nub, cnt_in. now rewrite firstn_add, cnt_true_app. Qed.

  Lemma cnt_in_add : forall a m1 m2, cnt_in a (m1 + m2) = cnt_in a m1 + cnt_in (a + m1) m2.
  Proof.
    intros a m1 m2. unfold cnt_in. rewrite firstn_add, cnt_true_app. f_equal. now rewrite skipn_add.
  Qed.

  Lemma cnt_in_0 : forall a, cnt_in a 0 = 0.
  Proof. reflexivity. Qed.

  Lemma skipn_nth_cons : forall a, a < length KL -> skipn a KL = kf a :: skipn (S a) KL.
  Proof.
    intros a. unfold kf. generalize KL. induction a as [|a IH]; intros l H; destruct l as [|x l]; cbn [length] in H; try lia.
    - reflexivity.
    - cbn [skipn nth]. apply IH. lia.
  Qed.

  Lemma cnt_in_1 : forall a, cnt_in a 1 = if kf a then 1 else 0.
  Proof.
    intros a. unfold cnt_in. destruct (Nat.lt_ge_cases a (length KL)) as [H|H].
    - rewrite (skipn_nth_cons a H). cbn [firstn cnt_true]. lia.
    - rewrite skipn_all2 by exact H. unfold kf. rewrite nth_overflow by exact H. reflexivity.
  Qed.

  Lemma nub_S : forall a, nub (S a) = nub a + (if kf a then 1 else 0).
  Proof. intros a. replace (S a) with (a + 1) by lia. now rewrite nub_add, cnt_in_1. Qed.

  (** a block of m consecutive indices all with flag b *)
  Lemma cnt_in_block : forall m a b, (forall j, j < m -> kf (a + j) = b) -> cnt_in a m = if b then m else 0.
  Proof.
    induction m as [|m IH]; intros a b H; [now destruct b|].
    replace (S m) with (1 + m) by lia. rewrite cnt_in_add, cnt_in_1.
    rewrite (IH (a + 1) b) by (intros j Hj; replace (a + 1 + j) with (a + S j) by lia; apply H; lia).
    specialize (H 0 ltac:(lia)). rewrite Nat.add_0_r in H. rewrite H. destruct b; lia.
  Qed.

  Lemma klays_heads_flag : forall l i q k, klays l i q k -> forall j, j < length l -> kf (i + j) = k.
  Proof.
    intros l i q k H j Hj. destruct (nth_error l j) as [c|] eqn:E; [|apply nth_error_None in E; lia].
    exact (klay_flag _ _ _ _ (klays_nth _ _ _ _ _ _ H E)).
  Qed.

  (** * the number of surviving proper descendants (Lemma B) *)
  Definition claim_B (t : tree) : Prop :=
    forall i p k, klay t i p k -> cnt_in p (desc t) = if k then desc (ptree t i p) else 0.

  Lemma sum_desc_ptrees_B : forall l, Forall claim_B l -> forall i q k, klays l i q k ->
    cnt_in q (sum_desc l) = if k then sum_desc (ptrees l i q) else 0.
  Proof.
    intros l H. induction H as [|c r Hc _ IHr]; intros i q k HK; [now destruct k|].
    destruct HK as [Hkc Hkr]. cbn [sum_desc fold_right ptree_list]. fold (sum_desc r).
    rewrite cnt_in_add, (Hc _ _ _ Hkc), (IHr _ _ _ Hkr). destruct k; [|reflexivity].
    fold (sum_desc (ptrees r (S i) (q + desc c))). reflexivity.
  Qed.

  Lemma lemma_B : forall t, claim_B t.
  Proof.
    induction t as [d | d c IH | d cs IH] using tree_ind2; intros i p k HK.
    - now destruct k.
    - destruct HK as [_ HKc]. rewrite desc_Create, (size_desc c).
      replace (S (desc c)) with (1 + desc c) by lia. rewrite cnt_in_add, cnt_in_1.
      rewrite (klay_flag _ _ _ _ HKc). replace (p + 1) with (S p) by lia. rewrite (IH _ _ _ HKc).
      destruct k; [|reflexivity]. cbn [ptree]. rewrite desc_Create, (size_desc (ptree c p (S p))). lia.
    - destruct HK as [_ HKl]. rewrite desc_Sub, cnt_in_add.
      rewrite (cnt_in_block (length cs) p (k && ccT i)) by (intros j Hj; eapply klays_heads_flag; eassumption).
      rewrite (sum_desc_ptrees_B cs IH _ _ _ HKl). cbn [ptree].
      destruct k; cbn [andb]; [|reflexivity]. destruct (ccT i); [|reflexivity].
      now rewrite desc_Sub, ptrees_length.
  Qed.

  (** * every entry of the enumeration carries its flag *)
  Lemma klays_heads : forall l i q k, klays l i q k ->
    forall e, In e (heads l i q) -> klay (snd e) (eidx e) (eblk e) k.
  Proof.
    induction l as [|c r IH]; intros i q k H e He; [contradiction|].
    destruct H as [Hc Hr]. cbn [heads] in He. destruct He as [<-|He]; [exact Hc | eapply IH; eassumption].
  Qed.

  Lemma klay_descs : forall t i p k, klay t i p k ->
    forall e, In e (descs t p) -> klay (snd e) (eidx e) (eblk e) (kf (eidx e)).
  Proof.
    induction t as [d | d c IH | d cs IH] using tree_ind2; intros i p k HK e He.
    - contradiction.
    - destruct HK as [_ HKc]. cbn [descs] in He. destruct He as [<-|He].
      + cbn [snd eidx eblk fst]. now rewrite (klay_flag _ _ _ _ HKc).
      + eapply IH; eassumption.
    - destruct HK as [_ HKl]. rewrite descs_Sub in He. apply in_app_or in He. destruct He as [He|He].
      + pose proof (klays_heads _ _ _ _ HKl e He) as H. now rewrite (klay_flag _ _ _ _ H).
      + assert (G : forall i0 q k0, klays cs i0 q k0 -> In e (tails cs q) -> klay (snd e) (eidx e) (eblk e) (kf (eidx e))).
        { clear He HKl. induction IH as [|c r Hc _ IHr]; intros i0 q k0 HKl He; [contradiction|].
          destruct HKl as [HKc HKr]. cbn [tails] in He. apply in_app_or in He. destruct He as [He|He].
          - eapply Hc; eassumption.
          - eapply IHr; eassumption. }
        eapply G; eassumption.
  Qed.

  Lemma nth_mid_bool : forall (pre : list bool) b suf, nth (length pre) (pre ++ b :: suf) false = b.
  Proof. intros pre b suf. rewrite app_nth2, Nat.sub_diag by lia. reflexivity. Qed.

  Lemma klay_of_kflags : forall t i p k pre suf,
    KL = pre ++ kflags t i p k ++ suf -> length pre = p -> kf i = k -> klay t i p k.
  Proof.
    induction t as [d | d c IH | d cs IH] using tree_ind2; intros i p k pre suf He Hp Hk.
    - split; [exact Hk | exact I].
    - split; [exact Hk|]. cbn [kflags] in He.
      apply (IH p (S p) k (pre ++ [k]) suf).
      + rewrite He, <- app_assoc. reflexivity.
      + rewrite app_length. cbn [length]. lia.
      + unfold kf. rewrite He, <- Hp. cbn [app]. apply nth_mid_bool.
    - split; [exact Hk|]. cbn [kflags] in He. set (kc := k && ccT i) in *.
      assert (G : forall l, Forall (fun t => forall i p k pre suf, KL = pre ++ kflags t i p k ++ suf ->
                                     length pre = p -> kf i = k -> klay t i p k) l ->
                  forall pre_h mid suf' i0 q,
                    KL = pre_h ++ repeat kc (length l) ++ mid ++ kflagss l i0 q kc ++ suf' ->
                    length pre_h = i0 -> length (pre_h ++ repeat kc (length l) ++ mid) = q ->
                    klays l i0 q kc).
      { clear He Hp Hk IH pre suf. intros l Hl. induction Hl as [|c r Hc _ IHr]; intros pre_h mid suf' i0 q He Hi Hq; [exact I|].
        cbn [length repeat ktails] in He. cbn [klay_list]. split.
        - apply (Hc i0 q kc (pre_h ++ (kc :: repeat kc (length r)) ++ mid) (kflagss r (S i0) (q + desc c) kc ++ suf')).
          + rewrite He. rewrite <- ?app_assoc. reflexivity.
          + cbn [length repeat] in Hq. exact Hq.
          + unfold kf. rewrite He, <- Hi. cbn [app]. apply nth_mid_bool.
        - apply (IHr (pre_h ++ [kc]) (mid ++ kflags c i0 q kc) suf').
          + rewrite He. rewrite <- ?app_assoc. cbn [app]. rewrite <- ?app_assoc. reflexivity.
          + rewrite app_length. cbn [length]. lia.
          + cbn [length repeat] in Hq. rewrite !app_length in Hq. cbn [length] in Hq.
            rewrite !app_length. cbn [length]. rewrite ?app_length, kflags_length. lia. }
      apply (G cs IH pre [] suf).
      + rewrite He. rewrite <- ?app_assoc. reflexivity.
      + exact Hp.
      + rewrite app_nil_r, app_length, repeat_length. lia.
  Qed.
End Prune.

(** the flags of the whole array and their layout *)
Definition kflags_all (cc : node -> bool) (T : list node) (t : tree) : list bool :=
  true :: kflags cc T t 0 1 true.

Lemma klay_all : forall cc T t, klay cc T (kflags_all cc T t) t 0 1 true.
Proof.
  intros cc T t. apply (klay_of_kflags cc T (kflags_all cc T t) t 0 1 true [true] []).
  - unfold kflags_all. now rewrite app_nil_r.
  - reflexivity.
  - reflexivity.
Qed.

Lemma kflags_all_length : forall cc T t, length (kflags_all cc T t) = size t.
Proof. intros. unfold kflags_all. cbn [length]. now rewrite kflags_length, (size_desc t). Qed.
