(** C19 — the literal explicit-stack loop of dr_pi_dag_enum_nodes ([enum_stack]) enumerates exactly
    the entries of the recursive description [entries] used in the proofs. *)
From Coq Require Import ZArith List Bool Lia Arith Sorted Permutation.
From MT Require Import DagFile.FlattenModel DagFile.TreeLemmas DagFile.OrderProofs.
Import ListNotations.

Section NP.
  Variable f : tree -> nat -> nat -> list entry.
  Fixpoint npl (l : list tree) (i q : nat) : list entry :=
    match l with [] => [] | c :: r => f c i q ++ npl r (S i) (q + desc c) end.
End NP.

(** the nodes in the order in which they are popped (tree preorder) *)
Fixpoint nodes_pre (t : tree) (i p : nat) : list entry :=
  (i, p, t) :: match t with
               | Leaf _ => []
               | Create _ c => nodes_pre c p (S p)
               | Sub _ cs => npl (fun c i' q' => nodes_pre c i' q') cs p (p + length cs)
               end.
Notation npls := (npl (fun c i' q' => nodes_pre c i' q')).

Definition claim_stack (x : tree) : Prop :=
  forall fuel i rest p out, size x <= fuel ->
    enum_stack fuel ((i, x) :: rest) p out =
    enum_stack (fuel - size x) rest (p + desc x) (rev (nodes_pre x i p) ++ out).

Lemma combine_seq_cons : forall i (c : tree) r, combine (seq i (length (c :: r))) (c :: r) = (i, c) :: combine (seq (S i) (length r)) r.
Proof. reflexivity. Qed.

Lemma stack_list : forall l, Forall claim_stack l ->
  forall fuel i rest q out, sizes l <= fuel ->
    enum_stack fuel (combine (seq i (length l)) l ++ rest) q out =
    enum_stack (fuel - sizes l) rest (q + sum_desc l) (rev (npls l i q) ++ out).
Proof.
  intros l H. induction H as [|c r Hc _ IHr]; intros fuel i rest q out Hf.
  - cbn [length seq combine app sizes fold_right sum_desc npl rev]. now rewrite Nat.sub_0_r, Nat.add_0_r.
  - rewrite combine_seq_cons. cbn [app sizes fold_right] in *. fold (sizes r) in *.
    rewrite Hc by lia. rewrite IHr by lia.
    cbn [sum_desc fold_right npl]. fold (sum_desc r). rewrite rev_app_distr, <- app_assoc.
    f_equal; lia.
Qed.

Lemma stack_tree : forall x, claim_stack x.
Proof.
  induction x as [d | d c IH | d cs IH] using tree_ind2; intros fuel i rest p out Hf.
  - destruct fuel as [|f]; [cbn [size] in Hf; lia|]. cbn [enum_stack children length combine seq app size desc pred nodes_pre rev].
    replace (S f - 1) with f by lia. reflexivity.
  - destruct fuel as [|f]; [cbn [size] in Hf; lia|]. cbn [size] in Hf.
    cbn [enum_stack children length combine seq app].
    rewrite IH by lia. cbn [size nodes_pre rev]. rewrite desc_Create, (size_desc c), <- app_assoc. cbn [app].
    replace (p + 1) with (S p) by lia. f_equal; lia.
  - destruct fuel as [|f]; [pose proof (size_pos (Sub d cs)); lia|]. rewrite size_Sub in Hf.
    cbn [enum_stack children].
    rewrite (stack_list cs IH) by lia. rewrite size_Sub, desc_Sub. cbn [nodes_pre rev]. rewrite <- app_assoc. cbn [app].
    f_equal; lia.
Qed.

Lemma enum_stack_entries : forall t, enum_stack (size t) [(0, t)] 1 [] = Some (rev (nodes_pre t 0 1)).
Proof.
  intros t. rewrite (stack_tree t (size t) 0 [] 1 []) by lia. rewrite Nat.sub_diag, app_nil_r. reflexivity.
Qed.

(** preorder and array order list the same entries *)
Lemma npls_perm : forall l, Forall (fun t => forall i p, Permutation (nodes_pre t i p) (all_entries t i p)) l ->
  forall i q, Permutation (npls l i q) (sub_entries l i q).
Proof.
  intros l H. induction H as [|c r Hc _ IHr]; intros i q; [apply Permutation_refl|].
  cbn [npl]. unfold sub_entries. cbn [heads tails].
  eapply Permutation_trans; [apply Permutation_app; [apply Hc | apply IHr]|].
  unfold all_entries, sub_entries. cbn [app]. apply perm_skip.
  rewrite !app_assoc. apply Permutation_app_tail. apply Permutation_app_comm.
Qed.

Lemma nodes_pre_perm : forall t i p, Permutation (nodes_pre t i p) (all_entries t i p).
Proof.
  induction t as [d | d c IH | d cs IH] using tree_ind2; intros i p.
  - apply Permutation_refl.
  - cbn [nodes_pre]. rewrite all_entries_Create. apply perm_skip. apply IH.
  - cbn [nodes_pre]. rewrite all_entries_Sub. apply perm_skip. apply npls_perm. exact IH.
Qed.

(** insertion by index puts them back into array order *)
Definition le_idx (a b : entry) : Prop := eidx a <= eidx b.
Definition lt_idx (a b : entry) : Prop := eidx a < eidx b.

Lemma ins_entry_perm : forall e l, Permutation (ins_entry e l) (e :: l).
Proof.
  intros e l. induction l as [|f r IH]; cbn [ins_entry]; [apply Permutation_refl|].
  destruct (fst (fst e) <=? fst (fst f)); [apply Permutation_refl|].
  eapply Permutation_trans; [apply perm_skip; exact IH | apply perm_swap].
Qed.

Lemma ins_entry_sorted : forall e l, StronglySorted le_idx l -> StronglySorted le_idx (ins_entry e l).
Proof.
  intros e l H. induction H as [|f r Hr IH Hf]; cbn [ins_entry].
  - constructor; constructor.
  - destruct (fst (fst e) <=? fst (fst f)) eqn:E.
    + apply Nat.leb_le in E. constructor; [constructor; assumption|].
      constructor; [exact E|]. eapply Forall_impl; [|exact Hf]. intros a Ha. unfold le_idx, eidx in *. lia.
    + apply Nat.leb_gt in E. constructor; [exact IH|].
      eapply Permutation_Forall; [apply Permutation_sym, ins_entry_perm|]. constructor; [unfold le_idx, eidx; lia | assumption].
Qed.

Lemma sort_entries_spec : forall l, Permutation (fold_right ins_entry [] l) l /\ StronglySorted le_idx (fold_right ins_entry [] l).
Proof.
  induction l as [|e r [IH1 IH2]]; [split; constructor|]. cbn [fold_right]. split.
  - eapply Permutation_trans; [apply ins_entry_perm | now apply perm_skip].
  - now apply ins_entry_sorted.
Qed.

Lemma sorted_unique : forall l l', StronglySorted lt_idx l -> StronglySorted le_idx l' -> Permutation l l' -> l = l'.
Proof.
  induction l as [|a r IH]; intros l' H1 H2 Hp.
  - apply Permutation_nil in Hp. now subst.
  - destruct l' as [|b r']; [apply Permutation_sym, Permutation_nil in Hp; discriminate|].
    inversion H1 as [|a' r0 Hr Ha]; subst. inversion H2 as [|b' r0' Hr' Hb]; subst.
    assert (Hab : a = b).
    { assert (Hina : In a (b :: r')) by (eapply Permutation_in; [exact Hp | now left]).
      assert (Hinb : In b (a :: r)) by (eapply Permutation_in; [apply Permutation_sym; exact Hp | now left]).
      destruct Hinb as [E|Hinb]; [exact E|]. destruct Hina as [E|Hina]; [now symmetry|].
      rewrite Forall_forall in Ha, Hb. specialize (Ha b Hinb). specialize (Hb a Hina). unfold lt_idx, le_idx in *. lia. }
    subst b. f_equal. apply IH; [exact Hr | exact Hr'|]. eapply Permutation_cons_inv; exact Hp.
Qed.

Lemma entries_sorted : forall t, StronglySorted lt_idx (entries t).
Proof.
  intros t. pose proof (entries_idx t) as H. revert H. generalize 0. generalize (size t). generalize (entries t).
  induction l as [|e r IH]; intros n i H; [constructor|].
  destruct n as [|n]; [discriminate|]. cbn [map seq] in H. injection H as He Hr.
  constructor; [eapply IH; exact Hr|].
  apply Forall_forall. intros f Hf. unfold lt_idx. rewrite He.
  assert (Hin : In (eidx f) (map eidx r)) by now apply in_map. rewrite Hr in Hin. apply in_seq in Hin. lia.
Qed.

(** the explicit-stack enumeration and the recursive one coincide *)
Theorem entries_stack_ok : forall t, entries_stack t = Some (entries t).
Proof.
  intros t. unfold entries_stack. rewrite enum_stack_entries. f_equal.
  destruct (sort_entries_spec (rev (nodes_pre t 0 1))) as [Hp Hs].
  symmetry. apply sorted_unique; [apply entries_sorted | exact Hs|].
  apply Permutation_sym. eapply Permutation_trans; [exact Hp|].
  eapply Permutation_trans; [apply Permutation_sym, Permutation_rev|]. apply nodes_pre_perm.
Qed.
