(** C19 — if the checker accepts the interning code read off the source, it is the model's interning:
    the lookup is [st_find], hence two names receive the same index iff they are equal strings. *)
From Coq Require Import ZArith List Bool Lia Arith.
From MT Require Import DagFile.FlattenModel DagFile.InternModel.
Import ListNotations.
Local Open Scope Z_scope.

Lemma name_eqb_eq : forall a b, name_eqb a b = true <-> a = b.
Proof.
  induction a as [|x a IH]; intros [|y b]; cbn [name_eqb]; split; intros H; try discriminate; try reflexivity.
  - apply andb_prop in H. destruct H as [H1 H2]. apply Z.eqb_eq in H1. apply IH in H2. now subst.
  - injection H as -> ->. rewrite Z.eqb_refl. cbn [andb]. now apply IH.
Qed.

Lemma name_eqb_refl : forall a, name_eqb a a = true.
Proof. intros a. now apply name_eqb_eq. Qed.

Lemma exit_full_sound : forall o c s e, exit_full e = true -> forallb (atom_sem o c s) e = true -> c = s.
Proof.
  intros o c s e Hf Ha. rewrite forallb_forall in Ha. unfold exit_full in Hf. apply orb_prop in Hf. destruct Hf as [Hf|Hf].
  - apply existsb_exists in Hf. destruct Hf as (a & Hin & Hs). destruct a; try discriminate.
    specialize (Ha _ Hin). now apply name_eqb_eq.
  - apply andb_prop in Hf. destruct Hf as [H1 H2].
    apply existsb_exists in H1. destruct H1 as (a1 & Hin1 & Hs1). destruct a1; try discriminate.
    apply existsb_exists in H2. destruct H2 as (a2 & Hin2 & Hs2). destruct a2; try discriminate.
    pose proof (Ha _ Hin1) as L. pose proof (Ha _ Hin2) as M. cbn [atom_sem] in L, M.
    apply Nat.eqb_eq in L. apply name_eqb_eq in M. rewrite L, firstn_all in M. exact M.
Qed.

Lemma atoms_refl : forall o c e, (forall k x, o k x x = true) -> forallb (atom_sem o c c) e = true.
Proof.
  intros o c e Ho. apply forallb_forall. intros a _. destruct a; cbn [atom_sem].
  - apply name_eqb_refl.
  - apply Nat.eqb_refl.
  - rewrite firstn_all. apply name_eqb_refl.
  - apply Ho.
Qed.

(** merged implies equal: needs nothing about the unclassified conditions *)
Theorem accept_sound : forall ir o c s, find_ok ir = true -> accept ir o c s = true -> c = s.
Proof.
  intros ir o c s Hok Ha. unfold find_ok in Hok. apply andb_prop in Hok. destruct Hok as [_ Hall].
  unfold accept in Ha. apply existsb_exists in Ha. destruct Ha as (e & Hin & He).
  rewrite forallb_forall in Hall. exact (exit_full_sound o c s e (Hall e Hin) He).
Qed.

(** equal implies found: the unclassified conditions are pre-filters that accept identical strings *)
Theorem accept_complete : forall ir o c, find_ok ir = true -> (forall k x, o k x x = true) -> accept ir o c c = true.
Proof.
  intros ir o c Hok Ho. unfold find_ok in Hok. apply andb_prop in Hok. destruct Hok as [Hok _].
  apply andb_prop in Hok. destruct Hok as [_ Hne]. unfold accept.
  destruct (f_exits ir) as [|e r]; [discriminate|]. cbn [existsb]. now rewrite (atoms_refl o c e Ho).
Qed.

Theorem find_sem_correct : forall ir o, find_ok ir = true -> (forall k x, o k x x = true) ->
  forall tbl s i, find_sem ir o tbl s i = st_find tbl s i.
Proof.
  intros ir o Hok Ho tbl s. induction tbl as [|c r IH]; intros i; [reflexivity|].
  cbn [find_sem st_find]. rewrite IH.
  destruct (name_eqb c s) eqn:E.
  - apply name_eqb_eq in E. subst c. now rewrite (accept_complete ir o s Hok Ho).
  - destruct (accept ir o c s) eqn:Ea; [|reflexivity].
    apply (accept_sound ir o c s Hok) in Ea. subst c. now rewrite name_eqb_refl in E.
Qed.

Corollary intern_sem_correct : forall ir o, find_ok ir = true -> (forall k x, o k x x = true) ->
  forall tbl s, intern_sem ir o tbl s = st_intern tbl s.
Proof. intros ir o Hok Ho tbl s. unfold intern_sem, st_intern. now rewrite (find_sem_correct ir o Hok Ho). Qed.

(** * the model's interning is injective on contents *)
Lemma st_find_range : forall tbl s i, i <= st_find tbl s i <= i + Z.of_nat (length tbl).
Proof.
  induction tbl as [|c r IH]; intros s i; cbn [st_find length]; [lia|].
  destruct (name_eqb c s); [lia|]. specialize (IH s (i + 1)). lia.
Qed.

Lemma st_find_found : forall tbl s i, st_find tbl s i < i + Z.of_nat (length tbl) ->
  nth_error tbl (Z.to_nat (st_find tbl s i - i)) = Some s.
Proof.
  induction tbl as [|c r IH]; intros s i H; cbn [st_find length] in *; [lia|].
  destruct (name_eqb c s) eqn:E.
  - rewrite Z.sub_diag. apply name_eqb_eq in E. now subst.
  - pose proof (st_find_range r s (i + 1)). specialize (IH s (i + 1) ltac:(lia)).
    replace (Z.to_nat (st_find r s (i + 1) - i)) with (S (Z.to_nat (st_find r s (i + 1) - (i + 1)))) by lia. exact IH.
Qed.

Lemma st_find_first : forall tbl s i k, nth_error tbl k = Some s -> st_find tbl s i <= i + Z.of_nat k.
Proof.
  induction tbl as [|c r IH]; intros s i k H; [destruct k; discriminate|].
  cbn [st_find]. destruct (name_eqb c s) eqn:E; [lia|]. destruct k as [|k].
  - injection H as ->. now rewrite name_eqb_refl in E.
  - specialize (IH s (i + 1) k H). lia.
Qed.

Lemma st_find_absent : forall tbl s i, st_find tbl s i = i + Z.of_nat (length tbl) -> ~ In s tbl.
Proof.
  intros tbl s i H Hin. apply In_nth_error in Hin. destruct Hin as (k & Hk).
  pose proof (st_find_first tbl s i k Hk). assert (k < length tbl)%nat by (apply nth_error_Some; congruence). lia.
Qed.

(** after interning, the index points at the name; a duplicate-free table stays duplicate-free and only grows *)
Lemma st_intern_spec : forall tbl s, NoDup tbl ->
  let '(tbl', i) := st_intern tbl s in
  NoDup tbl' /\ 0 <= i /\ nth_error tbl' (Z.to_nat i) = Some s /\ exists ext, tbl' = tbl ++ ext.
Proof.
  intros tbl s Hnd. unfold st_intern. pose proof (st_find_range tbl s 0) as Hr.
  destruct (st_find tbl s 0 =? Z.of_nat (length tbl)) eqn:E.
  - apply Z.eqb_eq in E. split; [|split; [lia|split]].
    + apply NoDup_remove_1 with (a := s) in Hnd || idtac.
      assert (Hni : ~ In s tbl) by (apply (st_find_absent tbl s 0); lia).
      clear -Hnd Hni. induction Hnd as [|x l Hx Hl IH]; cbn [app]; [constructor; [intros []|constructor]|].
      constructor; [|apply IH; intros H; apply Hni; now right].
      intros Hin. apply in_app_or in Hin. destruct Hin as [Hin|[->|[]]]; [contradiction|]. apply Hni. now left.
    + rewrite E, Nat2Z.id, nth_error_app2, Nat.sub_diag by lia. reflexivity.
    + now exists [s].
  - apply Z.eqb_neq in E. split; [exact Hnd|]. split; [lia|]. split.
    + pose proof (st_find_found tbl s 0 ltac:(lia)) as H. now rewrite Z.sub_0_r in H.
    + exists []. now rewrite app_nil_r.
Qed.

Theorem st_intern_injective : forall tbl s s', NoDup tbl ->
  let '(t1, i) := st_intern tbl s in
  let '(t2, j) := st_intern t1 s' in
  (i = j <-> s = s') /\ NoDup t2.
Proof.
  intros tbl s s' Hnd. pose proof (st_intern_spec tbl s Hnd) as H1.
  destruct (st_intern tbl s) as [t1 i] eqn:E1. destruct H1 as (Hnd1 & Hi & Hn1 & (e1 & He1)).
  pose proof (st_intern_spec t1 s' Hnd1) as H2.
  destruct (st_intern t1 s') as [t2 j] eqn:E2. destruct H2 as (Hnd2 & Hj & Hn2 & (e2 & He2)).
  split; [|exact Hnd2]. split.
  - intros <-. assert (Hlt : (Z.to_nat i < length t1)%nat) by (apply nth_error_Some; congruence).
    rewrite He2, nth_error_app1 in Hn2 by exact Hlt. congruence.
  - intros <-. unfold st_intern in E2.
    assert (Hlt : (Z.to_nat i < length t1)%nat) by (apply nth_error_Some; congruence).
    pose proof (st_find_first t1 s 0 _ Hn1) as Hle. pose proof (st_find_range t1 s 0) as Hr.
    destruct (st_find t1 s 0 =? Z.of_nat (length t1)) eqn:E; [apply Z.eqb_eq in E; lia|].
    injection E2 as <- <-. apply Z.eqb_neq in E.
    pose proof (st_find_found t1 s 0 ltac:(lia)) as Hf. rewrite Z.sub_0_r in Hf.
    (* both positions hold s in a duplicate-free list *)
    assert (Heq : Z.to_nat i = Z.to_nat (st_find t1 s 0)).
    { apply (proj1 (NoDup_nth_error t1) Hnd1); [exact Hlt | congruence]. }
    lia.
Qed.

(** the same for the code as read off the source, whenever the checker accepts it *)
Theorem intern_injective : forall ir o, find_ok ir = true -> (forall k x, o k x x = true) ->
  forall tbl s s', NoDup tbl ->
  let '(t1, i) := intern_sem ir o tbl s in
  let '(t2, j) := intern_sem ir o t1 s' in
  (i = j <-> s = s') /\ NoDup t2.
Proof.
  intros ir o Hok Ho tbl s s' Hnd. rewrite (intern_sem_correct ir o Hok Ho).
  destruct (st_intern tbl s) as [t1 i] eqn:E1. rewrite (intern_sem_correct ir o Hok Ho).
  pose proof (st_intern_injective tbl s s' Hnd) as H. rewrite E1 in H. exact H.
Qed.

Lemma stored_full : forall ir s, store_ok ir = true -> stored_sem ir s = s ++ [0].
Proof. intros ir s H. unfold stored_sem. now rewrite H. Qed.

(** an accepted wrapper runs exactly as [intern_sem] *)
Lemma wrap_ok_sem : forall w ir o tbl s, wrap_ok w = true ->
  wrun ir o s (w_body w) (tbl, 0) = Some (intern_sem ir o tbl s)
  /\ w_static_locals w = 0%nat /\ w_data_symbols w = 0%nat.
Proof.
  intros w ir o tbl s H. unfold wrap_ok in H.
  apply andb_true_iff in H. destruct H as [H H3].
  apply andb_true_iff in H. destruct H as [H1 H2].
  apply Nat.eqb_eq in H2. apply Nat.eqb_eq in H3.
  split; [| split; assumption].
  destruct (w_body w) as [| [] [| [] [| [] [| ? ?]]]]; try discriminate H1.
  reflexivity.
Qed.
