(** C19 — the edge array: sort by (u, v) and dr_pi_dag_set_edge_ptrs. *)
From Coq Require Import ZArith List Bool Lia Arith Sorted Permutation.
From MT Require Import DagFile.FlattenModel DagFile.DagSpec DagFile.TreeLemmas.
Import ListNotations.
Local Open Scope Z_scope.

(** * insertion sort by (u, v) *)
Lemma edge_leb_true : forall e f, edge_leb e f = true -> edge_le e f.
Proof.
  intros e f H. unfold edge_leb in H. unfold edge_le. apply orb_prop in H. destruct H as [H|H].
  - left. now apply Z.ltb_lt.
  - apply andb_prop in H. destruct H as [H1 H2]. right. split; [now apply Z.eqb_eq | now apply Z.leb_le].
Qed.

Lemma edge_leb_false : forall e f, edge_leb e f = false -> edge_le f e.
Proof.
  intros e f H. unfold edge_leb in H. unfold edge_le. apply orb_false_elim in H. destruct H as [H1 H2].
  apply Z.ltb_ge in H1. destruct (Z.eq_dec (eu e) (eu f)) as [E|E].
  - right. split; [now symmetry|]. rewrite E, Z.eqb_refl in H2. cbn [andb] in H2. apply Z.leb_gt in H2. lia.
  - left. lia.
Qed.

Lemma edge_le_trans : forall a b c, edge_le a b -> edge_le b c -> edge_le a c.
Proof. unfold edge_le. intros a b c H1 H2. lia. Qed.

Lemma ins_edge_perm : forall e l, Permutation (ins_edge e l) (e :: l).
Proof.
  intros e l. induction l as [|f r IH]; cbn [ins_edge]; [apply Permutation_refl|].
  destruct (edge_leb e f); [apply Permutation_refl|].
  eapply Permutation_trans; [apply perm_skip; exact IH | apply perm_swap].
Qed.

Lemma ins_edge_sorted : forall e l, StronglySorted edge_le l -> StronglySorted edge_le (ins_edge e l).
Proof.
  intros e l H. induction H as [|f r Hr IH Hf]; cbn [ins_edge].
  - constructor; constructor.
  - destruct (edge_leb e f) eqn:E.
    + apply edge_leb_true in E. constructor; [constructor; assumption|].
      constructor; [exact E|]. eapply Forall_impl; [|exact Hf]. intros a Ha. eapply edge_le_trans; eassumption.
    + apply edge_leb_false in E. constructor; [exact IH|].
      eapply Permutation_Forall; [apply Permutation_sym, ins_edge_perm|]. constructor; assumption.
Qed.

Lemma sort_edges_perm : forall l, Permutation (sort_edges l) l.
Proof.
  induction l as [|e r IH]; cbn [sort_edges fold_right]; [constructor|]. fold (sort_edges r).
  eapply Permutation_trans; [apply ins_edge_perm | now apply perm_skip].
Qed.

Lemma sort_edges_sorted : forall l, StronglySorted edge_le (sort_edges l).
Proof.
  induction l as [|e r IH]; cbn [sort_edges fold_right]; [constructor|]. fold (sort_edges r).
  now apply ins_edge_sorted.
Qed.

(** * counting sources *)
Definition cnt (P : Z -> bool) (es : list edge) : Z := Z.of_nat (length (filter (fun e => P (eu e)) es)).
Definition cnt_lt (es : list edge) (k : Z) : Z := cnt (fun u => u <? k) es.
Definition cnt_le (es : list edge) (k : Z) : Z := cnt (fun u => u <=? k) es.

Lemma cnt_cons : forall P e r, cnt P (e :: r) = (if P (eu e) then 1 else 0) + cnt P r.
Proof. intros P e r. unfold cnt. cbn [filter]. destruct (P (eu e)); cbn [length]; lia. Qed.

Lemma cnt_nil : forall P, cnt P [] = 0.
Proof. reflexivity. Qed.

Lemma cnt_none : forall P es, (forall e, In e es -> P (eu e) = false) -> cnt P es = 0.
Proof.
  intros P es. induction es as [|e r IH]; intros H; [reflexivity|].
  rewrite cnt_cons, (H e) by now left. rewrite IH; [reflexivity|]. intros f Hf. apply H. now right.
Qed.

Lemma cnt_all : forall P es, (forall e, In e es -> P (eu e) = true) -> cnt P es = Z.of_nat (length es).
Proof.
  intros P es. induction es as [|e r IH]; intros H; [reflexivity|].
  rewrite cnt_cons, (H e) by now left. rewrite IH; [cbn [length]; lia|]. intros f Hf. apply H. now right.
Qed.

Lemma cnt_range : forall P es, 0 <= cnt P es <= Z.of_nat (length es).
Proof.
  intros P es. induction es as [|e r IH]; [cbn; lia|].
  rewrite cnt_cons. cbn [length]. destruct (P (eu e)); lia.
Qed.

(** sortedness by source *)
Definition sorted_u (es : list edge) : Prop := StronglySorted (fun e f => eu e <= eu f) es.

Lemma sorted_u_of : forall es, StronglySorted edge_le es -> sorted_u es.
Proof.
  intros es H. induction H as [|e r Hr IH He]; constructor; [exact IH|].
  eapply Forall_impl; [|exact He]. intros f Hf. unfold edge_le in Hf. lia.
Qed.

(** in a list sorted by source, the edges with source < k are exactly the first cnt_lt k ones *)
Lemma sorted_prefix : forall (P : Z -> bool) es,
  sorted_u es -> (forall u v, u <= v -> P v = true -> P u = true) ->
  forall j e, nth_error es j = Some e -> (Z.of_nat j < cnt P es <-> P (eu e) = true).
Proof.
  intros P es Hs Hmono. induction Hs as [|a r Hr IH Ha]; intros j e Hj; [destruct j; discriminate|].
  rewrite cnt_cons. pose proof (cnt_range P r) as Hrange. destruct (P (eu a)) eqn:Ea.
  - destruct j as [|j].
    + injection Hj as <-. rewrite Ea. split; intros; [reflexivity | lia].
    + cbn [nth_error] in Hj. rewrite <- (IH _ _ Hj). lia.
  - assert (Hz : cnt P r = 0).
    { apply cnt_none. intros f Hf. rewrite Forall_forall in Ha. specialize (Ha f Hf).
      destruct (P (eu f)) eqn:Ef; [|reflexivity]. rewrite (Hmono _ _ Ha Ef) in Ea. discriminate. }
    rewrite Hz. destruct j as [|j].
    + injection Hj as <-. rewrite Ea. split; intros H; [lia | discriminate].
    + cbn [nth_error] in Hj. specialize (IH _ _ Hj). rewrite Hz in IH.
      split; intros H; [lia|]. apply IH in H. lia.
Qed.

(** * dr_pi_dag_set_edge_ptrs *)
Lemma adv_spec : forall k b j i,
  adv k b j = map (fun t => ((if t =? i then b else j), j)) (zrange i k).
Proof.
  induction k as [|k IH]; intros b j i; [reflexivity|].
  rewrite zrange_S. cbn [adv map]. rewrite Z.eqb_refl. f_equal.
  rewrite (IH j j (i + 1)). apply map_ext_in. intros t Ht.
  unfold zrange in Ht. apply in_map_iff in Ht. destruct Ht as (s & <- & _).
  destruct (i + 1 + Z.of_nat s =? i + 1); destruct (i + 1 + Z.of_nat s =? i) eqn:E; try reflexivity;
    apply Z.eqb_eq in E; lia.
Qed.

Lemma zrange_app : forall a n m, zrange a (n + m) = zrange a n ++ zrange (a + Z.of_nat n) m.
Proof.
  intros a n. revert a. induction n as [|n IH]; intros a m.
  - rewrite zrange_0. cbn [Nat.add app]. replace (a + Z.of_nat 0) with a by (cbn; lia). reflexivity.
  - cbn [Nat.add]. rewrite !zrange_S, IH. cbn [app].
    replace (a + Z.of_nat (S n)) with (a + 1 + Z.of_nat n) by lia. reflexivity.
Qed.

Lemma in_zrange : forall a n t, In t (zrange a n) <-> a <= t < a + Z.of_nat n.
Proof.
  intros a n t. unfold zrange. rewrite in_map_iff. split.
  - intros (k & <- & Hk). apply in_seq in Hk. lia.
  - intros H. exists (Z.to_nat (t - a)). split; [lia|]. apply in_seq. lia.
Qed.

Definition ptr_of (es : list edge) (j i b k : Z) : Z * Z :=
  ((if k =? i then b else j + cnt_lt es k), j + cnt_le es k).

Lemma ptr_loop_spec : forall es, sorted_u es -> forall j i b, (forall e, In e es -> i <= eu e) ->
  exists i' b', ptr_loop es j i b = (map (ptr_of es j i b) (zrange i (Z.to_nat (i' - i))), i', b') /\
    i <= i' /\ (i' = i -> b' = b) /\ (i < i' -> b' = j + cnt_lt es i') /\
    (forall e, In e es -> eu e <= i') /\ (i' = i \/ exists e, In e es /\ eu e = i').
Proof.
  intros es Hs. induction Hs as [|e r Hr IH He]; intros j i b Hlo.
  - exists i, b. cbn [ptr_loop]. rewrite Z.sub_diag. cbn [Z.to_nat]. rewrite zrange_0. cbn [map].
    repeat split; try lia; try (intros; contradiction).
  - assert (Hu : i <= eu e) by (apply Hlo; now left).
    rewrite Forall_forall in He.
    cbn [ptr_loop]. destruct (Z.to_nat (eu e - i)) as [|k0] eqn:Ek.
    + (* the edge belongs to the current node *)
      assert (Heq : eu e = i) by lia.
      destruct (IH (j + 1) i b) as (i' & b' & Hl & H1 & H2 & H3 & H4 & H5).
      { intros f Hf. specialize (He f Hf). lia. }
      exists i', b'. rewrite Hl. cbn [adv app]. split; [|repeat split].
      * f_equal. f_equal. apply map_ext_in. intros t Ht. apply in_zrange in Ht.
        unfold ptr_of, cnt_lt, cnt_le. rewrite !cnt_cons, Heq.
        destruct (t =? i) eqn:Et.
        -- f_equal. destruct (i <=? t) eqn:E1; [lia | apply Z.leb_gt in E1; lia].
        -- apply Z.eqb_neq in Et. destruct (i <? t) eqn:E0; [|apply Z.ltb_ge in E0; lia].
           destruct (i <=? t) eqn:E1; [|apply Z.leb_gt in E1; lia]. f_equal; lia.
      * exact H1.
      * exact H2.
      * intros Hlt. rewrite (H3 Hlt). unfold cnt_lt. rewrite cnt_cons, Heq.
        destruct (i <? i') eqn:E0; [lia | apply Z.ltb_ge in E0; lia].
      * intros f [<-|Hf]; [lia | now apply H4].
      * destruct H5 as [H5|(f & Hf & Hfu)]; [now left | right; exists f; split; [now right | exact Hfu]].
    + (* the loop advances to the source of the edge *)
      assert (Hgt : i < eu e) by lia.
      destruct (IH (j + 1) (eu e) j) as (i' & b' & Hl & H1 & H2 & H3 & H4 & H5).
      { intros f Hf. now apply He. }
      exists i', b'. rewrite Hl. split; [|repeat split].
      * f_equal. f_equal.
        replace (Z.to_nat (i' - i)) with (S k0 + Z.to_nat (i' - eu e))%nat by lia.
        rewrite zrange_app, map_app. f_equal.
        -- rewrite (adv_spec (S k0) b j i). apply map_ext_in. intros t Ht. apply in_zrange in Ht.
           unfold ptr_of, cnt_lt, cnt_le.
           assert (Hz1 : cnt (fun u => u <? t) (e :: r) = 0).
           { apply cnt_none. intros f [<-|Hf]; [|specialize (He f Hf)]; apply Z.ltb_ge; lia. }
           assert (Hz2 : cnt (fun u => u <=? t) (e :: r) = 0).
           { apply cnt_none. intros f [<-|Hf]; [|specialize (He f Hf)]; apply Z.leb_gt; lia. }
           rewrite Hz1, Hz2, !Z.add_0_r. reflexivity.
        -- replace (i + Z.of_nat (S k0)) with (eu e) by lia.
           apply map_ext_in. intros t Ht. apply in_zrange in Ht.
           unfold ptr_of, cnt_lt, cnt_le. rewrite !cnt_cons.
           destruct (t =? i) eqn:Et0; [apply Z.eqb_eq in Et0; lia|].
           destruct (eu e <=? t) eqn:E1; [|apply Z.leb_gt in E1; lia].
           destruct (t =? eu e) eqn:Et.
           ++ apply Z.eqb_eq in Et. subst t. rewrite Z.ltb_irrefl.
              assert (Hz : cnt (fun u => u <? eu e) r = 0).
              { apply cnt_none. intros f Hf. specialize (He f Hf). apply Z.ltb_ge. lia. }
              rewrite Hz. f_equal; lia.
           ++ apply Z.eqb_neq in Et. destruct (eu e <? t) eqn:E0; [|apply Z.ltb_ge in E0; lia]. f_equal; lia.
      * lia.
      * intros Heq. lia.
      * intros _. destruct (Z.eq_dec i' (eu e)) as [E|E].
        -- rewrite (H2 E), E. unfold cnt_lt.
           assert (Hz : cnt (fun u => u <? eu e) (e :: r) = 0).
           { apply cnt_none. intros f [<-|Hf]; [|specialize (He f Hf)]; apply Z.ltb_ge; lia. }
           rewrite Hz. lia.
        -- rewrite H3 by lia. unfold cnt_lt. rewrite cnt_cons.
           destruct (eu e <? i') eqn:E0; [lia | apply Z.ltb_ge in E0; lia].
      * intros f [<-|Hf]; [lia | now apply H4].
      * right. destruct H5 as [H5|(f & Hf & Hfu)]; [exists e; split; [now left | now symmetry] |
                                                     exists f; split; [now right | exact Hfu]].
Qed.

Theorem edge_ptrs_spec : forall es n, sorted_u es -> 1 <= n -> (forall e, In e es -> 0 <= eu e < n) ->
  edge_ptrs n (Z.of_nat (length es)) es = map (fun k => (cnt_lt es k, cnt_le es k)) (zrange 0 (Z.to_nat n)).
Proof.
  intros es n Hs Hn Hr. unfold edge_ptrs.
  destruct (ptr_loop_spec es Hs 0 0 0) as (i' & b' & Hl & H1 & H2 & H3 & H4 & H5).
  { intros e He. specialize (Hr e He). lia. }
  rewrite Hl.
  assert (Hi' : i' <= n - 1).
  { destruct H5 as [->|(e & He & <-)]; [lia | specialize (Hr e He); lia]. }
  set (m := Z.of_nat (length es)).
  assert (Hcl0 : cnt_lt es 0 = 0).
  { apply cnt_none. intros e He. specialize (Hr e He). apply Z.ltb_ge. lia. }
  assert (Hb' : b' = cnt_lt es i').
  { destruct (Z.eq_dec i' 0) as [E|E]; [rewrite (H2 E), E, Hcl0; reflexivity | rewrite H3 by lia; lia]. }
  assert (Hle_all : forall k, i' <= k -> cnt_le es k = m).
  { intros k Hk. apply cnt_all. intros e He. specialize (H4 e He). apply Z.leb_le. lia. }
  assert (Hlt_all : forall k, i' < k -> cnt_lt es k = m).
  { intros k Hk. apply cnt_all. intros e He. specialize (H4 e He). apply Z.ltb_lt. lia. }
  replace (Z.to_nat n) with (Z.to_nat (i' - 0) + (Z.to_nat (n - 1 - i') + 1))%nat by lia.
  rewrite !zrange_app, !map_app. f_equal; [|f_equal].
  - apply map_ext_in. intros t Ht. apply in_zrange in Ht. unfold ptr_of.
    destruct (t =? 0) eqn:E; [apply Z.eqb_eq in E; subst t; now rewrite Hcl0 | f_equal; lia].
  - rewrite (adv_spec _ b' m (0 + Z.of_nat (Z.to_nat (i' - 0)))).
    apply map_ext_in. intros t Ht. apply in_zrange in Ht.
    destruct (t =? 0 + Z.of_nat (Z.to_nat (i' - 0))) eqn:E.
    + apply Z.eqb_eq in E. replace t with i' by lia. rewrite Hb', Hle_all by lia. reflexivity.
    + apply Z.eqb_neq in E. rewrite Hlt_all, Hle_all by lia. reflexivity.
  - cbn [zrange seq map]. f_equal.
    destruct (Z.to_nat (n - 1 - i')) as [|k] eqn:Ek.
    + replace (0 + Z.of_nat (Z.to_nat (i' - 0)) + Z.of_nat 0 + Z.of_nat 0) with i' by lia.
      rewrite Hb', Hle_all by lia. reflexivity.
    + rewrite Hlt_all, Hle_all by lia. reflexivity.
Qed.

Lemma edge_ptrs_length : forall es n, sorted_u es -> 1 <= n -> (forall e, In e es -> 0 <= eu e < n) ->
  length (edge_ptrs n (Z.of_nat (length es)) es) = Z.to_nat n.
Proof. intros. rewrite edge_ptrs_spec by assumption. now rewrite map_length, zrange_length. Qed.

(** the ranges are exactly the out-edges *)
Lemma ranges_exact : forall es, sorted_u es -> forall k j e, nth_error es j = Some e ->
  (cnt_lt es k <= Z.of_nat j < cnt_le es k <-> eu e = k).
Proof.
  intros es Hs k j e Hj.
  pose proof (sorted_prefix (fun u => u <? k) es Hs) as A.
  pose proof (sorted_prefix (fun u => u <=? k) es Hs) as B.
  assert (HA : Z.of_nat j < cnt_lt es k <-> eu e <? k = true).
  { apply A; [|exact Hj]. intros u v Huv Hv. apply Z.ltb_lt in Hv. apply Z.ltb_lt. lia. }
  assert (HB : Z.of_nat j < cnt_le es k <-> eu e <=? k = true).
  { apply B; [|exact Hj]. intros u v Huv Hv. apply Z.leb_le in Hv. apply Z.leb_le. lia. }
  rewrite Z.ltb_lt in HA. rewrite Z.leb_le in HB. lia.
Qed.

Lemma cnt_lt_le : forall es k, cnt_lt es k <= cnt_le es k.
Proof.
  intros es k. unfold cnt_lt, cnt_le. induction es as [|e r IH]; [reflexivity|].
  rewrite !cnt_cons. destruct (eu e <? k) eqn:E1; destruct (eu e <=? k) eqn:E2; try lia.
  all: apply Z.ltb_lt in E1; apply Z.leb_gt in E2; lia.
Qed.
