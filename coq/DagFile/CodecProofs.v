(** C19 — the dag file codec round-trips: read_dag (write_dag G) = Some G for every layout satisfying
    layout_wf and every dag whose values fit their C types. *)
From Coq Require Import ZArith List Bool Lia.
From MT Require Import DagFile.FlattenModel DagFile.CodecModel.
Import ListNotations.
Local Open Scope Z_scope.

(** * scalars *)
Lemma enc_le_length : forall n v, length (enc_le n v) = n.
Proof. induction n as [|n IH]; intros v; cbn [enc_le length]; [reflexivity | now rewrite IH]. Qed.

Lemma dec_enc_le : forall n v, dec_le (enc_le n v) = v mod 256 ^ Z.of_nat n.
Proof.
  induction n as [|n IH]; intros v.
  - cbn [enc_le dec_le]. change (256 ^ Z.of_nat 0) with 1. now rewrite Z.mod_1_r.
  - cbn [enc_le dec_le]. rewrite IH.
    rewrite Nat2Z.inj_succ, Z.pow_succ_r by lia.
    rewrite Z.rem_mul_r by (try lia; apply Z.pow_pos_nonneg; lia). reflexivity.
Qed.

Definition val_fits (f : fdesc) (v : Z) : Prop :=
  if f_signed f then - 2 ^ (8 * f_size f - 1) <= v < 2 ^ (8 * f_size f - 1)
  else 0 <= v < 2 ^ (8 * f_size f).

Definition norm (f : fdesc) (v : Z) : Z := dec_field (f_signed f) (enc_le (Z.to_nat (f_size f)) v).

Lemma pow256 : forall s, 0 <= s -> 256 ^ s = 2 ^ (8 * s).
Proof. intros s Hs. change 256 with (2 ^ 8). now rewrite <- Z.pow_mul_r by lia. Qed.

Lemma norm_fits : forall f v, 1 <= f_size f -> val_fits f v -> norm f v = v.
Proof.
  intros f v Hs Hv. unfold norm, dec_field. rewrite enc_le_length, dec_enc_le.
  rewrite Z2Nat.id by lia. rewrite pow256 by lia.
  set (s := f_size f) in *.
  assert (Hp : 2 ^ (8 * s) = 2 * 2 ^ (8 * s - 1)).
  { rewrite <- Z.pow_succ_r by lia. f_equal. lia. }
  assert (Hpos : 0 < 2 ^ (8 * s - 1)) by (apply Z.pow_pos_nonneg; lia).
  unfold val_fits in Hv. fold s in Hv. destruct (f_signed f); cbn [andb].
  - destruct (Z_lt_le_dec v 0) as [Hneg | Hnn].
    + assert (Hm : v mod 2 ^ (8 * s) = v + 2 ^ (8 * s)).
      { symmetry. apply Z.mod_unique with (q := -1); lia. }
      rewrite Hm. destruct (2 ^ (8 * s) <=? 2 * (v + 2 ^ (8 * s))) eqn:E; [lia|].
      apply Z.leb_gt in E. lia.
    + rewrite Z.mod_small by lia.
      destruct (2 ^ (8 * s) <=? 2 * v) eqn:E; [|reflexivity].
      apply Z.leb_le in E. lia.
  - rewrite Z.mod_small by lia. reflexivity.
Qed.

(** * take *)
Lemma take_app : forall a b, take (Z.of_nat (length a)) (a ++ b) = Some (a, b).
Proof.
  intros a b. unfold take.
  destruct (Z.of_nat (length a) <? 0) eqn:E1; [apply Z.ltb_lt in E1; lia|].
  rewrite app_length, Nat2Z.inj_add.
  destruct (Z.of_nat (length a) + Z.of_nat (length b) <? Z.of_nat (length a)) eqn:E2;
    [apply Z.ltb_lt in E2; lia|].
  cbn [orb]. rewrite Nat2Z.id.
  rewrite firstn_app, Nat.sub_diag, firstn_all. cbn [firstn]. rewrite app_nil_r.
  rewrite skipn_app, Nat.sub_diag, skipn_all. reflexivity.
Qed.

Lemma take_repeat : forall k b, 0 <= k -> take k (repeat 0 (Z.to_nat k) ++ b) = Some (repeat 0 (Z.to_nat k), b).
Proof.
  intros k b Hk. rewrite <- (take_app (repeat 0 (Z.to_nat k)) b) at 1.
  now rewrite repeat_length, Z2Nat.id by lia.
Qed.

Lemma take_enc : forall s v b, 0 <= s -> take s (enc_le (Z.to_nat s) v ++ b) = Some (enc_le (Z.to_nat s) v, b).
Proof.
  intros s v b Hs. rewrite <- (take_app (enc_le (Z.to_nat s) v) b) at 1.
  now rewrite enc_le_length, Z2Nat.id by lia.
Qed.

(** * structs *)
Fixpoint norms (fs : list fdesc) (vals : list Z) : list Z :=
  match fs, vals with
  | f :: r, v :: vs => norm f v :: norms r vs
  | _, _ => []
  end.

Lemma fields_ok_cons : forall f r pos, fields_ok (f :: r) pos = true ->
  pos <= f_off f /\ 1 <= f_size f <= 8 /\ fields_ok r (f_off f + f_size f) = true.
Proof.
  intros f r pos Hok. cbn [fields_ok] in Hok. apply andb_prop in Hok. destruct Hok as [Hok Hr].
  apply andb_prop in Hok. destruct Hok as [Hok H8].
  apply andb_prop in Hok. destruct Hok as [Hpos H1].
  apply Z.leb_le in Hpos. apply Z.leb_le in H1. apply Z.leb_le in H8. repeat split; assumption.
Qed.

Lemma rd_wr_fields : forall fs pos vals tail,
  fields_ok fs pos = true -> length vals = length fs ->
  rd_fields fs pos (fst (wr_fields fs pos vals) ++ tail) =
  Some (norms fs vals, snd (wr_fields fs pos vals), tail).
Proof.
  induction fs as [|f r IH]; intros pos vals tail Hok Hlen.
  - destruct vals; [|discriminate]. reflexivity.
  - destruct vals as [|v vs]; [discriminate|].
    cbn [fields_ok] in Hok. apply andb_prop in Hok. destruct Hok as [Hok Hr].
    apply andb_prop in Hok. destruct Hok as [Hok H8].
    apply andb_prop in Hok. destruct Hok as [Hpos H1].
    apply Z.leb_le in Hpos. apply Z.leb_le in H1. apply Z.leb_le in H8.
    cbn [wr_fields rd_fields tl norms].
    destruct (wr_fields r (f_off f + f_size f) vs) as [rest pos'] eqn:Ew.
    cbn [fst snd]. rewrite <- !app_assoc.
    rewrite take_repeat by lia. rewrite take_enc by lia.
    specialize (IH (f_off f + f_size f) vs tail Hr).
    rewrite Ew in IH. cbn [fst snd] in IH. rewrite IH by (cbn in Hlen; lia).
    reflexivity.
Qed.

Lemma wr_fields_end : forall fs pos vals, snd (wr_fields fs pos vals) = fields_end fs pos.
Proof.
  induction fs as [|f r IH]; intros pos vals; [reflexivity|].
  cbn [wr_fields fields_end]. specialize (IH (f_off f + f_size f) (tl vals)).
  destruct (wr_fields r (f_off f + f_size f) (tl vals)) as [rest pos']. cbn [snd] in *. exact IH.
Qed.

Lemma read_write_struct : forall d nf vals tail,
  sdesc_ok d nf = true -> length vals = length (s_fields d) ->
  read_struct d (write_struct d vals ++ tail) = Some (norms (s_fields d) vals, tail).
Proof.
  intros d nf vals tail Hok Hlen. unfold sdesc_ok in Hok.
  apply andb_prop in Hok. destruct Hok as [Hok _].
  apply andb_prop in Hok. destruct Hok as [Hf He]. apply Z.leb_le in He.
  unfold read_struct, write_struct.
  pose proof (rd_wr_fields (s_fields d) 0 vals) as H.
  pose proof (wr_fields_end (s_fields d) 0 vals) as Hend.
  destruct (wr_fields (s_fields d) 0 vals) as [bs pos] eqn:Ew. cbn [fst snd] in *.
  rewrite <- app_assoc. rewrite H by assumption.
  subst pos. rewrite take_repeat by lia. reflexivity.
Qed.

Definition vals_fit (fs : list fdesc) (vals : list Z) : Prop := Forall2 val_fits fs vals.

Lemma norms_fit : forall fs pos vals, fields_ok fs pos = true -> vals_fit fs vals -> norms fs vals = vals.
Proof.
  induction fs as [|f r IH]; intros pos vals Hok Hv; inversion Hv as [|f' v r' vs Hfv Hrest]; subst; [reflexivity|].
  cbn [fields_ok] in Hok. apply andb_prop in Hok. destruct Hok as [Hok Hr].
  apply andb_prop in Hok. destruct Hok as [Hok H8].
  apply andb_prop in Hok. destruct Hok as [_ H1]. apply Z.leb_le in H1.
  cbn [norms]. rewrite norm_fits by assumption. f_equal. eapply IH; eassumption.
Qed.

Lemma vals_fit_length : forall fs vals, vals_fit fs vals -> length vals = length fs.
Proof. intros fs vals H. induction H as [|f v fs vs _ _ IH]; [reflexivity|]. cbn. now rewrite IH. Qed.

Lemma read_write_struct_fit : forall d nf vals tail,
  sdesc_ok d nf = true -> vals_fit (s_fields d) vals ->
  read_struct d (write_struct d vals ++ tail) = Some (vals, tail).
Proof.
  intros d nf vals tail Hok Hv.
  rewrite (read_write_struct d nf) by (try assumption; now apply vals_fit_length).
  unfold sdesc_ok in Hok. apply andb_prop in Hok. destruct Hok as [Hok _].
  apply andb_prop in Hok. destruct Hok as [Hf _].
  now rewrite (norms_fit _ 0) by assumption.
Qed.

Lemma read_write_structs : forall d nf xs tail,
  sdesc_ok d nf = true -> Forall (vals_fit (s_fields d)) xs ->
  read_structs d (length xs) (concat (map (write_struct d) xs) ++ tail) = Some (xs, tail).
Proof.
  intros d nf xs tail Hok. induction xs as [|x r IH]; intros Hf; [reflexivity|].
  inversion Hf as [|x' r' Hx Hr]; subst.
  cbn [length read_structs map concat]. rewrite <- app_assoc.
  rewrite (read_write_struct_fit d nf) by assumption. now rewrite IH.
Qed.

(** * consecutive scalars *)
Definition scalar_fields := fix go (l : list Z) (off : Z) : list fdesc :=
  match l with [] => [] | s :: r => mk_fdesc off s true :: go r (off + s) end.

Lemma scalars_fields : forall sizes, s_fields (scalars sizes) = scalar_fields sizes 0.
Proof. reflexivity. Qed.

Lemma scalar_fields_ok : forall sizes off,
  forallb (fun s => (1 <=? s) && (s <=? 8)) sizes = true ->
  fields_ok (scalar_fields sizes off) off = true /\
  fields_end (scalar_fields sizes off) off = off + fold_right Z.add 0 sizes /\
  length (scalar_fields sizes off) = length sizes.
Proof.
  induction sizes as [|s r IH]; intros off H.
  - cbn. repeat split; lia.
  - cbn [forallb] in H. apply andb_prop in H. destruct H as [Hs Hr].
    apply andb_prop in Hs. destruct Hs as [H1 H8].
    destruct (IH (off + s) Hr) as (A & B & C).
    cbn [scalar_fields fields_ok fields_end f_off f_size fold_right length].
    rewrite A, B, C, H1, H8, Z.leb_refl. cbn [andb]. repeat split; lia.
Qed.

Lemma scalars_ok : forall sizes,
  forallb (fun s => (1 <=? s) && (s <=? 8)) sizes = true ->
  sdesc_ok (scalars sizes) (length sizes) = true.
Proof.
  intros sizes H. destruct (scalar_fields_ok sizes 0 H) as (A & B & C).
  unfold sdesc_ok. rewrite scalars_fields, A, B, C.
  cbn [andb s_size scalars]. rewrite Z.leb_refl, Nat.eqb_refl. reflexivity.
Qed.

Lemma forallb_repeat : forall (P : Z -> bool) x n, P x = true -> forallb P (repeat x n) = true.
Proof. intros P x n H. induction n as [|n IH]; [reflexivity|]. cbn. now rewrite H, IH. Qed.

(** a value list fits [n] consecutive signed scalars of size [s] *)
Definition long_fits (s v : Z) : Prop := - 2 ^ (8 * s - 1) <= v < 2 ^ (8 * s - 1).

Lemma scalar_vals_fit : forall sizes vals off,
  Forall2 long_fits sizes vals -> vals_fit (scalar_fields sizes off) vals.
Proof.
  induction sizes as [|s r IH]; intros vals off H; inversion H as [|s' v r' vs Hv Hr]; subst.
  - constructor.
  - cbn [scalar_fields]. constructor; [exact Hv | apply IH; exact Hr].
Qed.

(** * the file *)
Lemma bytes_eqb_refl : forall a, bytes_eqb a a = true.
Proof. induction a as [|x a IH]; [reflexivity|]. cbn. now rewrite Z.eqb_refl, IH. Qed.

Definition dag_fits (L : layout) (G : pidag) : Prop :=
  gn G = Z.of_nat (length (gT G)) /\
  gm G = Z.of_nat (length (gE G)) /\
  Forall2 long_fits (l_top L) [gn G; gm G; gsc G; gnw G] /\
  Forall (vals_fit (s_fields (l_node L))) (gT G) /\
  Forall (fun e => vals_fit (s_fields (l_edge L)) (edge_vals e)) (gE G) /\
  (exists f0 f1 f2 f3, s_fields (l_strtab L) = [f0; f1; f2; f3] /\
                       val_fits f0 (sn (gS G)) /\ val_fits f1 (ssz (gS G))) /\
  sn (gS G) = Z.of_nat (length (sI (gS G))) /\
  Forall (long_fits (l_long L)) (sI (gS G)).

Lemma map_edge_of_vals : forall E, map edge_of (map edge_vals E) = E.
Proof.
  induction E as [|e E IH]; [reflexivity|]. cbn [map]. rewrite IH. now destruct e.
Qed.

Lemma concat_map_map : forall (A B : Type) (f : A -> B) (g : B -> list Z) (l : list A),
  concat (map (fun e => g (f e)) l) = concat (map g (map f l)).
Proof. intros A B f g l. now rewrite map_map. Qed.

Theorem codec_roundtrip : forall L, layout_wf L = true ->
  forall G jI jC, dag_fits L G -> read_dag L (write_dag L jI jC G) = Some G.
Proof.
  intros L Hwf G jI jC (Hn & Hm & Htop & HT & HE & (f0 & f1 & f2 & f3 & Hsf & Hf0 & Hf1) & Hsn & HI).
  unfold layout_wf in Hwf.
  repeat (apply andb_prop in Hwf; let H := fresh "W" in destruct Hwf as [Hwf H]).
  rename W into Wst, W0 into Wed, W1 into Wnd, W2 into Wtops, W3 into Wtopn, W4 into Wp8, W5 into Wp1,
         W6 into Wl8, W7 into Wl1.
  apply Nat.eqb_eq in Wtopn.
  unfold read_dag, write_dag.
  rewrite take_app, bytes_eqb_refl. cbn [negb].
  (* header words *)
  pose proof (scalars_ok (l_top L) Wtops) as Htopok.
  rewrite (read_write_struct_fit (scalars (l_top L)) (length (l_top L)))
    by (try assumption; rewrite scalars_fields; apply scalar_vals_fit; assumption).
  (* nodes *)
  rewrite Hn, Nat2Z.id.
  rewrite (read_write_structs (l_node L) 58) by assumption.
  (* edges *)
  rewrite Hm, Nat2Z.id.
  rewrite (concat_map_map edge (list Z) edge_vals (write_struct (l_edge L))).
  replace (length (gE G)) with (length (map edge_vals (gE G))) by apply map_length.
  rewrite (read_write_structs (l_edge L) 3)
    by (try assumption; apply Forall_forall; intros x Hx; apply in_map_iff in Hx;
        destruct Hx as (e & <- & He); rewrite Forall_forall in HE; now apply HE).
  (* string table header: the two pointer words are whatever the writer had *)
  rewrite (read_write_struct (l_strtab L) 4) by (try assumption; rewrite Hsf; reflexivity).
  rewrite Hsf. cbn [norms].
  assert (Hs1 : 1 <= f_size f0 /\ 1 <= f_size f1).
  { unfold sdesc_ok in Wst. apply andb_prop in Wst. destruct Wst as [Wst _].
    apply andb_prop in Wst. destruct Wst as [Wst _]. rewrite Hsf in Wst.
    apply fields_ok_cons in Wst. destruct Wst as (_ & Ha & Wst).
    apply fields_ok_cons in Wst. destruct Wst as (_ & Hb & _). lia. }
  rewrite (norm_fits f0) by (try assumption; lia).
  rewrite (norm_fits f1) by (try assumption; lia).
  (* index array *)
  rewrite Hsn, Nat2Z.id.
  assert (Hlongs : forallb (fun s => (1 <=? s) && (s <=? 8)) (repeat (l_long L) (length (sI (gS G)))) = true).
  { apply forallb_repeat. now rewrite Wl1, Wl8. }
  pose proof (scalars_ok _ Hlongs) as Hlok.
  rewrite (read_write_struct_fit _ _ (sI (gS G)) (sC (gS G)) Hlok).
  - rewrite map_edge_of_vals, map_length. rewrite <- Hn, <- Hm, <- Hsn.
    destruct G as [n m sc nw T E S]. destruct S as [a b c d]. reflexivity.
  - rewrite scalars_fields. apply scalar_vals_fit.
    clear -HI. induction HI as [|v vs Hv Hvs IH]; cbn [length repeat]; constructor; assumption.
Qed.
