(** C19 — the first loop of dr_pi_dag_copy_and_prune_nodes: the [map] array it computes marks exactly
    the survivors of the tree view and gives each its new index. *)
From Coq Require Import ZArith List Bool Lia Arith.
From MT Require Import DagFile.FlattenModel DagFile.PruneModel DagFile.DagSpec DagFile.TreeLemmas
  DagFile.LayProofs DagFile.SortProofs DagFile.EdgeProofs DagFile.OrderProofs DagFile.FlattenProofs DagFile.PruneTree.
Import ListNotations.
Local Open Scope Z_scope.

(** * lists with a default *)
Lemma nth_setf_eq : forall k v (x : list Z) d, (k < length x)%nat -> nth k (setf k v x) d = v.
Proof.
  induction k as [|k IH]; intros v [|a x] d H; cbn [length] in H; try lia; cbn [setf nth]; [reflexivity|].
  apply IH. lia.
Qed.

Lemma nth_setf_neq : forall c k v (x : list Z) d, c <> k -> nth c (setf k v x) d = nth c x d.
Proof.
  induction c as [|c IH]; intros [|k] v [|a x] d H; cbn [setf nth]; try reflexivity; try lia.
  apply IH. lia.
Qed.

Lemma setz_length : forall k v l, length (setz k v l) = length l.
Proof. intros k v l. unfold setz. destruct (k <? 0); [reflexivity | apply setf_length]. Qed.

Lemma nth_setz : forall c k v l d, (c < length l)%nat ->
  nth c (setz k v l) d = if k =? Z.of_nat c then v else nth c l d.
Proof.
  intros c k v l d H. unfold setz. destruct (k <? 0) eqn:E.
  - apply Z.ltb_lt in E. destruct (k =? Z.of_nat c) eqn:E2; [apply Z.eqb_eq in E2; lia | reflexivity].
  - apply Z.ltb_ge in E. destruct (k =? Z.of_nat c) eqn:E2.
    + apply Z.eqb_eq in E2. replace (Z.to_nat k) with c by lia. now apply nth_setf_eq.
    + apply Z.eqb_neq in E2. apply nth_setf_neq. lia.
Qed.

Lemma setz_range_length : forall cnt a v l,
  length (fold_left (fun m k => setz k v m) (zrange a cnt) l) = length l.
Proof.
  induction cnt as [|cnt IH]; intros a v l; [reflexivity|].
  rewrite zrange_S. cbn [fold_left]. now rewrite IH, setz_length.
Qed.

Lemma nth_setz_range : forall cnt a v l c d, (c < length l)%nat ->
  nth c (fold_left (fun m k => setz k v m) (zrange a cnt) l) d =
  if (a <=? Z.of_nat c) && (Z.of_nat c <? a + Z.of_nat cnt) then v else nth c l d.
Proof.
  induction cnt as [|cnt IH]; intros a v l c d H.
  - rewrite zrange_0. cbn [fold_left].
    destruct (a <=? Z.of_nat c) eqn:E1; destruct (Z.of_nat c <? a + Z.of_nat 0) eqn:E2; try reflexivity.
    apply Z.leb_le in E1. apply Z.ltb_lt in E2. lia.
  - rewrite zrange_S. cbn [fold_left]. rewrite IH by (now rewrite setz_length). rewrite nth_setz by exact H.
    destruct (a + 1 <=? Z.of_nat c) eqn:E1; destruct (Z.of_nat c <? a + 1 + Z.of_nat cnt) eqn:E2;
      destruct (a <=? Z.of_nat c) eqn:E3; destruct (Z.of_nat c <? a + Z.of_nat (S cnt)) eqn:E4;
      destruct (a =? Z.of_nat c) eqn:E5; cbn [andb]; try reflexivity;
      repeat match goal with
             | H : (_ <=? _) = true |- _ => apply Z.leb_le in H
             | H : (_ <=? _) = false |- _ => apply Z.leb_gt in H
             | H : (_ <? _) = true |- _ => apply Z.ltb_lt in H
             | H : (_ <? _) = false |- _ => apply Z.ltb_ge in H
             | H : (_ =? _) = true |- _ => apply Z.eqb_eq in H
             | H : (_ =? _) = false |- _ => apply Z.eqb_neq in H
             end; lia.
Qed.

(** * children of a node, read off the array (exactly the positions the loop marks) *)
Definition child_of (T : list node) (j c : nat) : Prop :=
  match nth_error T j with
  | Some x => if is_create x then Z.of_nat c = Z.of_nat j + getf F_oa x
              else if is_sub x then Z.of_nat j + getf F_oa x <= Z.of_nat c < Z.of_nat j + getf F_ob x
              else False
  | None => False
  end.

Definition kids (e : entry) : list entry :=
  match e with
  | (_, q, Leaf _) => []
  | (_, q, Create _ c) => [(q, S q, c)]
  | (_, q, Sub _ cs) => heads cs q (q + length cs)
  end.

Lemma descs_parent : forall t i p e', In e' (descs t p) -> exists e, In e (all_entries t i p) /\ In e' (kids e).
Proof.
  induction t as [d | d c IH | d cs IH] using tree_ind2; intros i p e' He'.
  - contradiction.
  - cbn [descs] in He'. destruct He' as [<-|He'].
    + exists (i, p, Create d c). split; [now left | now left].
    + destruct (IH p (S p) e' He') as (e & He & Hk). exists e. split; [|exact Hk].
      rewrite all_entries_Create. now right.
  - rewrite descs_Sub in He'. apply in_app_or in He'. destruct He' as [He'|He'].
    + exists (i, p, Sub d cs). split; [now left | exact He'].
    + assert (G : forall i0 q, In e' (tails cs q) -> exists e, In e (sub_entries cs i0 q) /\ In e' (kids e)).
      { clear He'. induction IH as [|c r Hc _ IHr]; intros i0 q He'; [contradiction|].
        cbn [tails] in He'. apply in_app_or in He'. destruct He' as [He'|He'].
        - destruct (Hc i0 q e' He') as (e & He & Hk). exists e. split; [|exact Hk]. apply sub_entries_cons. now left.
        - destruct (IHr (S i0) (q + desc c)%nat He') as (e & He & Hk). exists e. split; [|exact Hk]. apply sub_entries_cons. now right. }
      destruct (G p (p + length cs)%nat He') as (e & He & Hk). exists e. split; [|exact Hk].
      rewrite all_entries_Sub. now right.
Qed.

Lemma heads_idx_range : forall l i q e, In e (heads l i q) -> (i <= eidx e < i + length l)%nat.
Proof.
  induction l as [|c r IH]; intros i q e He; [contradiction|].
  cbn [heads] in He. cbn [length]. destruct He as [<-|He]; [cbn; lia | specialize (IH _ _ _ He); lia].
Qed.

Section Loop.
  Variable cc : node -> bool.
  Variable T : list node.
  Variable t : tree.
  Hypothesis HL : lay T t 0 1.
  Hypothesis Hlen : length T = size t.

  Variable KL : list bool.
  Hypothesis HK : klay cc T KL t 0 1 true.
  Local Notation n := (length T).

  Lemma klay_entries : forall e, In e (entries t) -> klay cc T KL (snd e) (eidx e) (eblk e) (kf KL (eidx e)).
  Proof.
    intros e He. unfold entries in He. destruct He as [<-|He].
    - cbn [snd eidx eblk fst]. now rewrite (klay_flag _ _ _ _ _ _ _ HK).
    - eapply klay_descs; [exact HK | exact He].
  Qed.

  (** the entry of an index, with everything known about it *)
  Lemma index_entry : forall j x, nth_error T j = Some x ->
    exists q s, In (j, q, s) (entries t) /\ lay T s j q /\ node_ok x s j q /\ klay cc T KL s j q (kf KL j).
  Proof.
    intros j x Hx. destruct (node_entry T t j x HL Hlen Hx) as (e & He & Hidx & Hle & Hok).
    pose proof (klay_entries e He) as Hk. destruct e as [[j' q] s]. cbn [eidx eblk fst snd] in *. subst j'.
    exists q, s. split; [exact He|]. split; [exact Hle|]. split; [exact Hok | exact Hk].
  Qed.

  Lemma child_gt : forall j c, child_of T j c -> (j < c < n)%nat.
  Proof.
    intros j c H. unfold child_of in H. destruct (nth_error T j) as [x|] eqn:Ex; [|contradiction].
    destruct (offsets_ok T t j x HL Hlen Ex) as [Hc Hs].
    destruct (is_create x) eqn:E1.
    - specialize (Hc eq_refl). lia.
    - destruct (is_sub x) eqn:E2; [|contradiction]. specialize (Hs eq_refl ltac:(lia)). lia.
  Qed.

  Lemma child_flag : forall j c x, nth_error T j = Some x -> child_of T j c ->
    kf KL c = kf KL j && copy_children cc x.
  Proof.
    intros j c x Hx H. unfold child_of in H. rewrite Hx in H.
    destruct (index_entry j x Hx) as (q & s & _ & Hle & Hok & Hk).
    destruct Hok as (Hjq & _ & Hsh). unfold copy_children.
    destruct s as [d | d c0 | d cs].
    - destruct Hsh as [Hs Hc]. rewrite Hc, Hs in H. contradiction.
    - destruct Hsh as (Hc & Hs & Ho). rewrite Hc in H. rewrite Hc. cbn [orb].
      destruct Hk as [_ Hkc]. replace c with q by lia. rewrite (klay_flag _ _ _ _ _ _ _ Hkc). now rewrite andb_true_r.
    - destruct Hsh as (Hs & Hc & Ho). rewrite Hc, Hs in H. rewrite Hc, Hs. cbn [orb andb].
      destruct cs as [|c1 r]; [lia|]. destruct Ho as [Ha Hb]. destruct Hk as [_ Hkl].
      replace c with (q + (c - q))%nat by lia.
      rewrite (klays_heads_flag cc T KL _ _ _ _ Hkl (c - q)%nat) by lia.
      f_equal. unfold ccT, nodeT. now rewrite (nth_error_nth _ _ _ Hx).
  Qed.

  Lemma has_parent : forall c, (1 <= c < n)%nat -> exists j, (j < c)%nat /\ child_of T j c.
  Proof.
    intros c Hc. rewrite Hlen in Hc.
    destruct (entry_at t c ltac:(lia)) as (e' & He' & Hidx). apply nth_error_In in He'.
    unfold entries in He'. destruct He' as [<-|He']; [cbn in Hidx; lia|].
    destruct (descs_parent t 0%nat 1%nat e' He') as (e & He & Hk).
    pose proof (lay_entries T t HL e He) as Hle. destruct e as [[j q] s]. cbn [snd eidx eblk fst] in Hle.
    destruct (lay_node _ _ _ _ Hle) as (x & Hx & Hok).
    exists j. unfold child_of. rewrite Hx. destruct Hok as (Hjq & _ & Hsh).
    destruct s as [d | d c0 | d cs]; cbn [kids] in Hk.
    - contradiction.
    - destruct Hk as [<-|[]]. cbn [eidx fst] in Hidx. subst c. destruct Hsh as (Hcr & _ & Ho). rewrite Hcr. split; lia.
    - pose proof (heads_idx_range _ _ _ _ Hk) as Hr. rewrite Hidx in Hr.
      destruct Hsh as (Hs & Hcr & Ho). rewrite Hcr, Hs.
      destruct cs as [|c1 r]; [contradiction|]. destruct Ho as [Ha Hb]. split; lia.
  Qed.

  (** * the loop invariant *)
  Definition mark (b : bool) : Z := if b then MAP_COPY else MAP_NO.
  Definition final (c : nat) : Z := if kf KL c then Z.of_nat (nub KL c) else MAP_NO.

  Definition inv (i : nat) (st : list Z * Z) : Prop :=
    length (fst st) = n /\ snd st = Z.of_nat (nub KL i) /\
    forall c, (c < n)%nat -> (c = O \/ exists j, (j < i)%nat /\ child_of T j c) ->
      nth c (fst st) MAP_INIT = if (c <? i)%nat then final c else mark (kf KL c).

  Lemma n_pos : (1 <= n)%nat.
  Proof. rewrite Hlen. apply size_pos. Qed.

  Lemma kf_0 : kf KL 0 = true.
  Proof. exact (klay_flag _ _ _ _ _ _ _ HK). Qed.

  Lemma inv_init : inv 0 (setf 0 MAP_COPY (repeat MAP_INIT n), 0).
  Proof.
    unfold inv. cbn [fst snd]. split; [now rewrite setf_length, repeat_length|]. split; [reflexivity|].
    intros c Hc [->|(j & Hj & _)]; [|lia].
    rewrite nth_setf_eq by (rewrite repeat_length; exact Hc). now rewrite kf_0.
  Qed.

  Lemma inv_step : forall i st, (i < n)%nat -> inv i st -> inv (S i) (step1 cc T st i).
  Proof.
    intros i [mp n_] Hi (Hl & Hn & Hm). cbn [fst snd] in *.
    unfold step1. destruct (nth_error T i) as [x|] eqn:Ex; [|apply nth_error_None in Ex; lia].
    (* the mark read at i *)
    assert (Hread : nth i mp MAP_INIT = mark (kf KL i)).
    { rewrite (Hm i Hi).
      - now rewrite Nat.ltb_irrefl.
      - destruct i as [|i']; [now left|]. right. destruct (has_parent (S i') ltac:(lia)) as (j & Hj & Hc). now exists j. }
    assert (Hkept : (nth i mp MAP_INIT =? MAP_COPY) = kf KL i).
    { rewrite Hread. unfold mark. now destruct (kf KL i). }
    rewrite Hkept.
    set (mp1 := if kf KL i then setf i n_ mp else mp).
    set (mk := if kf KL i && copy_children cc x then MAP_COPY else MAP_NO).
    assert (Hl1 : length mp1 = n) by (unfold mp1; destruct (kf KL i); [now rewrite setf_length | exact Hl]).
    assert (H1i : nth i mp1 MAP_INIT = final i).
    { unfold mp1, final. destruct (kf KL i) eqn:Ek.
      - rewrite nth_setf_eq by lia. exact Hn.
      - exact Hread. }
    assert (H1o : forall c, c <> i -> nth c mp1 MAP_INIT = nth c mp MAP_INIT).
    { intros c Hc. unfold mp1. destruct (kf KL i); [now apply nth_setf_neq | reflexivity]. }
    (* the array after the children have been marked *)
    set (mp2 := if is_create x then setz (Z.of_nat i + getf F_oa x) mk mp1
                else if is_sub x then
                       fold_left (fun m k => setz k mk m)
                                 (zrange (Z.of_nat i + getf F_oa x) (Z.to_nat (getf F_ob x - getf F_oa x))) mp1
                     else mp1).
    assert (Hl2 : length mp2 = n).
    { unfold mp2. destruct (is_create x); [now rewrite setz_length|].
      destruct (is_sub x); [now rewrite setz_range_length | exact Hl1]. }
    assert (H2 : forall c, (c < n)%nat ->
                   (~ child_of T i c /\ nth c mp2 MAP_INIT = nth c mp1 MAP_INIT) \/
                   (child_of T i c /\ nth c mp2 MAP_INIT = mk)).
    { intros c Hc. unfold mp2, child_of. rewrite Ex. destruct (is_create x) eqn:E1.
      - rewrite nth_setz by lia. destruct (Z.of_nat i + getf F_oa x =? Z.of_nat c) eqn:E.
        + right. apply Z.eqb_eq in E. split; [lia | reflexivity].
        + left. apply Z.eqb_neq in E. split; [lia | reflexivity].
      - destruct (is_sub x) eqn:E2; [|left; split; [tauto | reflexivity]].
        rewrite nth_setz_range by lia.
        destruct ((Z.of_nat i + getf F_oa x <=? Z.of_nat c) &&
                  (Z.of_nat c <? Z.of_nat i + getf F_oa x + Z.of_nat (Z.to_nat (getf F_ob x - getf F_oa x)))) eqn:E.
        + right. apply andb_prop in E. destruct E as [Ea Eb]. apply Z.leb_le in Ea. apply Z.ltb_lt in Eb. split; [lia | reflexivity].
        + left. split; [|reflexivity]. intros [Ha Hb]. apply andb_false_iff in E.
          destruct E as [E|E]; [apply Z.leb_gt in E | apply Z.ltb_ge in E]; lia. }
    unfold inv. cbn [fst snd]. fold mp1. fold mk. fold mp2.
    split; [exact Hl2|]. split.
    - rewrite nub_S, Hn. destruct (kf KL i); lia.
    - intros c Hc Hpar.
      destruct (H2 c Hc) as [[Hnch Hsame]|[Hch Hval]].
      + rewrite Hsame. destruct (Nat.eq_dec c i) as [->|Hne].
        * rewrite H1i. replace (i <? S i)%nat with true by (symmetry; apply Nat.ltb_lt; lia). reflexivity.
        * rewrite (H1o c Hne).
          assert (Hpar' : c = O \/ exists j, (j < i)%nat /\ child_of T j c).
          { destruct Hpar as [->|(j & Hj & Hcj)]; [now left|].
            destruct (Nat.eq_dec j i) as [->|Hji]; [contradiction|].
            right. exists j. split; [lia | exact Hcj]. }
          rewrite (Hm c Hc Hpar').
          destruct (c <? i)%nat eqn:E1; destruct (c <? S i)%nat eqn:E2; try reflexivity;
            apply Nat.ltb_lt in E1 || apply Nat.ltb_ge in E1; apply Nat.ltb_lt in E2 || apply Nat.ltb_ge in E2; lia.
      + rewrite Hval. pose proof (child_gt i c Hch) as Hgt.
        replace (c <? S i)%nat with false by (symmetry; apply Nat.ltb_ge; lia).
        rewrite (child_flag i c x Ex Hch). unfold mk, mark. reflexivity.
  Qed.

  Lemma fold_inv : forall i, (i <= n)%nat ->
    inv i (fold_left (step1 cc T) (seq 0 i) (setf 0 MAP_COPY (repeat MAP_INIT n), 0)).
  Proof.
    induction i as [|i IH]; intros Hi; [exact inv_init|].
    rewrite seq_S, fold_left_app. cbn [fold_left Nat.add]. apply inv_step; [lia|]. apply IH. lia.
  Qed.

  Theorem prune_map_spec :
    length (fst (prune_map cc T)) = n /\ snd (prune_map cc T) = Z.of_nat (nub KL n) /\
    forall c, (c < n)%nat -> nth c (fst (prune_map cc T)) MAP_INIT = final c.
  Proof.
    unfold prune_map. destruct (fold_inv n (Nat.le_refl _)) as (H1 & H2 & H3).
    split; [exact H1|]. split; [exact H2|]. intros c Hc.
    rewrite (H3 c Hc).
    - replace (c <? n)%nat with true by (symmetry; apply Nat.ltb_lt; exact Hc). reflexivity.
    - destruct c as [|c']; [now left|]. right. destruct (has_parent (S c') ltac:(lia)) as (j & Hj & Hch).
      exists j. split; [lia | exact Hch].
  Qed.
End Loop.
