(** C19 — vocabulary of the statements: the grammar of recorded trees ([wf_tree], a decidable
    predicate that the correspondence run evaluates on every recorded tree) and well-formedness of a
    position-independent dag ([dag_wf]).  Definitions only. *)
From Coq Require Import ZArith List Bool Sorted.
From MT Require Import DagFile.FlattenModel DagFile.PruneModel DagFile.ChronoModel.
Import ListNotations.
Local Open Scope Z_scope.

(** fields of the in-memory node that the flattening copies unchanged *)
Definition t_kind (d : tnode) : Z := getf F_kind (pad_info (ti d)).
Definition t_in_edge (d : tnode) : Z := getf F_in_edge (pad_info (ti d)).
Definition t_t1 (d : tnode) : Z := getf F_t1 (pad_info (ti d)).

(** the first primitive (or collapsed) node of a subgraph *)
Fixpoint first_data (t : tree) : tnode :=
  match t with
  | Sub _ (c :: _) => first_data c
  | _ => tdata t
  end.

Definition is_LeafT (t : tree) : bool := match t with Leaf _ => true | _ => false end.
Definition is_CreateT (t : tree) : bool := match t with Create _ _ => true | _ => false end.
Definition is_SubT (t : tree) : bool := match t with Sub _ _ => true | _ => false end.

Fixpoint last_is_leaf (l : list tree) : bool :=
  match l with
  | [] => true
  | [c] => is_LeafT c
  | _ :: r => last_is_leaf r
  end.

Definition cont_ok (c : tree) : bool :=
  match cont_kind (t_in_edge (first_data c)) with Some _ => true | None => false end.

(** the grammar of a recorded tree (dag_recorder_inl.h:  task ::= (section|other)* end,
    section ::= (section|create|other)* wait):
    - the kind tag agrees with the shape of the node;
    - what a create_task node created is a task (a section/task node that is not a section);
    - the last subgraph of an expanded section/task is a primitive interval (wait_tasks / end_task);
    - in_edge_kind of an expanded section/task is that of its first subgraph (dr_accumulate_stats);
    - create_task nodes occur only directly inside sections;
    - a subgraph that follows another one is entered through a continuation edge
      (in_edge_kind of its first interval is create_cont, wait_cont, other_cont or end). *)
Fixpoint wf_tree (t : tree) : bool :=
  match t with
  | Leaf d => (t_kind d <? K_section) && negb (t_kind d =? K_create)
  | Create d c => (t_kind d =? K_create) && is_SubT c && negb (t_kind (tdata c) =? K_section) && wf_tree c
  | Sub d cs =>
      (K_section <=? t_kind d) && last_is_leaf cs
      && (match cs with [] => true | c :: _ => t_in_edge d =? t_in_edge (tdata c) end)
      && ((t_kind d =? K_section) || negb (existsb is_CreateT cs))
      && forallb cont_ok (tl cs)
      && (fix all (l : list tree) : bool := match l with [] => true | c :: r => wf_tree c && all r end) cs
  end.

(** the root of a recording is a task *)
Definition wf_root (t : tree) : bool := wf_tree t && is_SubT t && negb (t_kind (tdata t) =? K_section).

(** a node of the array that has no expanded subgraphs: a primitive interval or a collapsed
    section/task (gen_stat.c, chronological.c use the same test) *)
Definition leaf_node (x : node) : bool := negb (is_sub x && (getf F_oa x <? getf F_ob x)).

Definition edge_le (e f : edge) : Prop := eu e < eu f \/ (eu e = eu f /\ ev e <= ev f).

Record dag_wf (G : pidag) : Prop := mk_dag_wf {
  wf_n : gn G = Z.of_nat (length (gT G)) /\ 1 <= gn G;
  wf_m : gm G = Z.of_nat (length (gE G));
  (** every child / subgraph offset refers to nodes inside the dag, after the node itself *)
  wf_offsets : forall i x, nth_error (gT G) i = Some x ->
    (is_create x = true -> Z.of_nat i < Z.of_nat i + getf F_oa x < gn G) /\
    (is_sub x = true -> getf F_oa x < getf F_ob x ->
       Z.of_nat i < Z.of_nat i + getf F_oa x /\ Z.of_nat i + getf F_ob x <= gn G);
  (** every edge connects two leaves of the dag *)
  wf_endpoints : forall e, In e (gE G) ->
    exists xu xv, nodeat (gT G) (eu e) = Some xu /\ nodeat (gT G) (ev e) = Some xv /\
                  leaf_node xu = true /\ leaf_node xv = true;
  (** E is sorted by (source, destination) *)
  wf_sorted : StronglySorted edge_le (gE G);
  (** [edges_begin, edges_end) of node i is exactly the set of positions of its out-edges *)
  wf_ranges : forall i x, nth_error (gT G) i = Some x ->
    0 <= getf F_eb x <= getf F_ee x /\ getf F_ee x <= gm G /\
    forall j e, nth_error (gE G) j = Some e ->
      (getf F_eb x <= Z.of_nat j < getf F_ee x <-> eu e = Z.of_nat i);
  (** the number of edges is the number counted beforehand (assert(e == E_lim)) *)
  wf_count : gm G = count_edges (gT G);
  (** every leaf but the first has an incoming edge; the first has none *)
  wf_first : exists s, first_leaf (length (gT G)) (gT G) 0 = Some s /\
    (forall e, In e (gE G) -> ev e <> s) /\
    (forall i x, nth_error (gT G) i = Some x -> leaf_node x = true -> Z.of_nat i <> s ->
       exists e, In e (gE G) /\ ev e = Z.of_nat i);
  (** the edges follow a strict order of the leaves: the graph is acyclic *)
  wf_acyclic : exists rank : Z -> nat, forall e, In e (gE G) -> (rank (eu e) < rank (ev e))%nat }.

(** the work totals of a recorded tree are consistent (C18: dr_accumulate_stats): t_1 of an expanded
    section/task is the sum over its subgraphs, a create_task subgraph counting together with the task
    it created *)
Definition t1_w (t : tree) : Z :=
  match t with Create d c => t_t1 d + t_t1 (tdata c) | _ => t_t1 (tdata t) end.
Fixpoint t1_ok (t : tree) : bool :=
  match t with
  | Leaf _ => true
  | Create _ c => t1_ok c
  | Sub d cs =>
      (match cs with [] => true | _ :: _ => t_t1 d =? fold_right (fun c a => t1_w c + a) 0 cs end)
      && (fix all (l : list tree) : bool := match l with [] => true | c :: r => t1_ok c && all r end) cs
  end.

(** all info words except the two string-table indices *)
Definition info_eq (y x : node) : Prop :=
  forall k, (k < N_info)%nat -> k <> F_start_fidx -> k <> F_end_fidx -> getf k y = getf k x.

(** what the replay did to the nodes, read off the log of processed events *)
Definition events_of (l : list event) (u : Z) : list Z :=
  map ekind (filter (fun e => enode e =? u) (rev l)).

(** sum of t_1 over the leaves (gen_stat.c dr_calc_inner_delay: total_t_1) *)
Definition leaf_t1_sum (T : list node) : Z :=
  fold_right (fun x acc => if leaf_node x then getf F_t1 x + acc else acc) 0 T.
