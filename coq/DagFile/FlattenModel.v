(** C19 — model of dr_make_pi_dag (src/profiler/dr_dump.c): the flattening of the recorded,
    pointer-based DAG node tree into the position-independent arrays T (nodes), E (edges) and the
    string table S.

    Source: dr_dump.c  dr_string_table_find/append/intern/flatten, dr_copy_dag_node_1,
    dr_copy_children_nodes, dr_dag_count_nodes, dr_pi_dag_enum_nodes, dr_pi_dag_count_edges_uncollapsed,
    dr_pi_dag_node_first/last, dr_pi_dag_enum_edges, edge_cmp + qsort, dr_pi_dag_set_edge_ptrs,
    dr_make_pi_dag;  dag_recorder_impl.h  dr_dag_node_stack_push_children (explicit stack).

    A position-independent node ([dr_pi_dag_node]) is the list of its 58 scalar fields in the fixed
    canonical order below (the order of declaration in dag_recorder_inl.h / dag_recorder_impl.h; the byte
    layout is a separate, regenerated datum, see CodecModel.v).  The union
    {child_offset | subgraphs_begin_offset, subgraphs_end_offset} is the pair of words (F_oa, F_ob).

    The in-memory tree: a node is a primitive interval ([Leaf]: wait_tasks / other / end_task), a
    create_task interval with the task it created ([Create]), or a section / task with the list of its
    subgraphs ([Sub]; the empty list = collapsed).  The [info] words of a node are an opaque payload of 54
    values except for kind, in_edge_kind, the four clock fields made relative to the start clock, and the
    two file-name pointers which are interned.  *)
From Coq Require Import ZArith List Bool.
Import ListNotations.
Local Open Scope Z_scope.

Definition name := list Z.          (* a C string: its bytes, without the terminating 0 *)
Definition node := list Z.          (* the 58 canonical fields of a dr_pi_dag_node *)

Definition getf (k : nat) (x : node) : Z := nth k x 0.
Fixpoint setf (k : nat) (v : Z) (x : node) : node :=
  match x with
  | [] => []
  | a :: r => match k with O => v :: r | S k' => a :: setf k' v r end
  end.

(** canonical field positions (0-based) *)
Definition F_start_t := 0%nat.
Definition F_start_file := 7%nat.
Definition F_start_fidx := 8%nat.
Definition F_end_t := 10%nat.
Definition F_end_file := 17%nat.
Definition F_end_fidx := 18%nat.
Definition F_t1 := 21%nat.
Definition F_first_ready := 23%nat.
Definition F_last_start := 24%nat.
Definition F_lnc0 := 30%nat.        (* logical_node_counts[0..3] = 30..33 *)
Definition F_worker := 42%nat.
Definition F_kind := 44%nat.
Definition F_in_edge := 45%nat.
Definition F_eb := 54%nat.          (* edges_begin *)
Definition F_ee := 55%nat.          (* edges_end *)
Definition F_oa := 56%nat.          (* child_offset / subgraphs_begin_offset *)
Definition F_ob := 57%nat.          (* subgraphs_end_offset *)
Definition N_info := 54%nat.

(** enum values (checked against the current headers by the regenerated layout file) *)
Definition K_create : Z := 0.
Definition K_section : Z := 4.
Definition EK_end : Z := 0.
Definition EK_create : Z := 1.
Definition EK_create_cont : Z := 2.
Definition EK_wait_cont : Z := 3.
Definition EK_other_cont : Z := 4.

Definition is_sub (x : node) : bool := K_section <=? getf F_kind x.
Definition is_create (x : node) : bool := getf F_kind x =? K_create.

Record edge := mk_edge { ek : Z; eu : Z; ev : Z }.

(** * the in-memory tree *)
Record tnode := mk_tnode { ti : list Z; tfs : name; tfe : name }.
Inductive tree :=
| Leaf (d : tnode)
| Create (d : tnode) (c : tree)
| Sub (d : tnode) (cs : list tree).

Definition tdata (t : tree) : tnode :=
  match t with Leaf d => d | Create d _ => d | Sub d _ => d end.
Definition children (t : tree) : list tree :=
  match t with Leaf _ => [] | Create _ c => [c] | Sub _ cs => cs end.

(** dr_dag_count_nodes *)
Fixpoint size (t : tree) : nat :=
  match t with
  | Leaf _ => 1
  | Create _ c => S (size c)
  | Sub _ cs => S ((fix sizes (l : list tree) : nat :=
                      match l with [] => O | c :: r => (size c + sizes r)%nat end) cs)
  end.
Definition desc (t : tree) : nat := pred (size t).

(** * dr_pi_dag_enum_nodes: order and offsets

    An entry (i, p, t): node t is copied to T[i] and, when it is popped from the stack, its children
    are copied to T[p], T[p+1], ...  ([p] is the allocation pointer at that moment). *)
Definition entry := (nat * nat * tree)%type.

Fixpoint heads (l : list tree) (i q : nat) : list entry :=
  match l with
  | [] => []
  | c :: r => (i, q, c) :: heads r (S i) (q + desc c)%nat
  end.

(** entries of the proper descendants of [t], whose children block starts at [p], in array order:
    first the block of children, then the descendants of the first child, of the second, ... *)
Fixpoint descs (t : tree) (p : nat) {struct t} : list entry :=
  match t with
  | Leaf _ => []
  | Create _ c => (p, S p, c) :: descs c (S p)
  | Sub _ cs =>
      heads cs p (p + length cs)%nat ++
      (fix tails (l : list tree) (q : nat) : list entry :=
         match l with [] => [] | c :: r => descs c q ++ tails r (q + desc c)%nat end) cs (p + length cs)%nat
  end.

Definition entries (t : tree) : list entry := (O, 1%nat, t) :: descs t 1.

(** the same enumeration as the literal explicit-stack loop: the stack holds (index, node); a pop
    fixes the node's offsets at the current allocation pointer [p], copies its children to p.. and
    pushes them so that the first child is popped next.  [out] collects (i, p, t) in pop order. *)
Fixpoint enum_stack (fuel : nat) (stk : list (nat * tree)) (p : nat) (out : list entry) : option (list entry) :=
  match stk with
  | [] => Some out
  | (i, x) :: rest =>
      match fuel with
      | O => None
      | S f => let cs := children x in
               enum_stack f (combine (seq p (length cs)) cs ++ rest) (p + length cs)%nat ((i, p, x) :: out)
      end
  end.

(** put the popped entries back into array order (insertion by index) *)
Fixpoint ins_entry (e : entry) (l : list entry) : list entry :=
  match l with
  | [] => [e]
  | f :: r => if (fst (fst e) <=? fst (fst f))%nat then e :: l else f :: ins_entry e r
  end.
Definition entries_stack (t : tree) : option (list entry) :=
  match enum_stack (size t) [(O, t)] 1 [] with
  | None => None
  | Some out => Some (fold_right ins_entry [] out)
  end.

(** * dr_copy_dag_node_1 + dr_copy_children_nodes: the words of T[i] *)
Definition w64 : Z := 18446744073709551616.
Definition rel (sc x : Z) : Z := (x - sc) mod w64.       (* dr_clock_t is unsigned 64-bit *)

Definition pad_info (a : list Z) : list Z := firstn N_info (a ++ repeat 0 N_info).

Definition copy_info (sc : Z) (d : tnode) : list Z :=
  let a := pad_info (ti d) in
  let a := setf F_start_file 0 (setf F_end_file 0 a) in
  let a := setf F_start_t (rel sc (getf F_start_t a)) a in
  let a := setf F_end_t (rel sc (getf F_end_t a)) a in
  let a := setf F_first_ready (rel sc (getf F_first_ready a)) a in
  setf F_last_start (rel sc (getf F_last_start a)) a.

(** offsets written when the node is popped; a primitive interval keeps the zeros of the memset *)
Definition offsets (e : entry) : Z * Z :=
  let '(i, p, t) := e in
  let o := Z.of_nat p - Z.of_nat i in
  match t with
  | Leaf _ => (0, 0)
  | Create _ _ => (o, 0)
  | Sub _ cs => (o, o + Z.of_nat (length cs))
  end.

Definition mk_node (sc : Z) (e : entry) : node * name * name :=
  let d := tdata (snd e) in
  let '(a, b) := offsets e in
  (copy_info sc d ++ [0; 0; a; b], tfs d, tfe d).

(** * string interning (dr_string_table_find / append / intern) *)
Fixpoint name_eqb (a b : name) : bool :=
  match a, b with
  | [], [] => true
  | x :: a', y :: b' => (x =? y) && name_eqb a' b'
  | _, _ => false
  end.
Fixpoint st_find (tbl : list name) (s : name) (i : Z) : Z :=
  match tbl with
  | [] => i
  | c :: r => if name_eqb c s then i else st_find r s (i + 1)
  end.
Definition st_intern (tbl : list name) (s : name) : list name * Z :=
  let idx := st_find tbl s 0 in
  (if idx =? Z.of_nat (length tbl) then tbl ++ [s] else tbl, idx).

(** nodes are copied (hence interned) in array order: start file, then end file *)
Fixpoint intern_all (l : list (node * name * name)) (tbl : list name) : list node * list name :=
  match l with
  | [] => ([], tbl)
  | (x, fs, fe) :: r =>
      let '(tbl1, i_s) := st_intern tbl fs in
      let '(tbl2, i_e) := st_intern tbl1 fe in
      let '(xs, tbl3) := intern_all r tbl2 in
      (setf F_start_fidx i_s (setf F_end_fidx i_e x) :: xs, tbl3)
  end.

(** dr_string_table_flatten: n, sz, the offsets I and the char array C (each string 0-terminated);
    [hdr] = sizeof(dr_pi_string_table), [ptr] = sizeof(const char * ) of the current headers *)
Record strtab := mk_strtab { sn : Z; ssz : Z; sI : list Z; sC : list Z }.
Fixpoint st_offsets (tbl : list name) (off : Z) : list Z :=
  match tbl with [] => [] | s :: r => off :: st_offsets r (off + Z.of_nat (length s) + 1) end.
Fixpoint st_chars (tbl : list name) : list Z :=
  match tbl with [] => [] | s :: r => s ++ 0 :: st_chars r end.
Definition st_flatten (hdr ptr : Z) (tbl : list name) : strtab :=
  let n := Z.of_nat (length tbl) in
  let C := st_chars tbl in
  mk_strtab n (hdr + n * ptr + Z.of_nat (length C)) (st_offsets tbl 0) C.

(** * edges, on the array (as the C code does, through the offsets) *)
Definition nodeat (T : list node) (i : Z) : option node :=
  if i <? 0 then None else nth_error T (Z.to_nat i).

(** dr_pi_dag_node_first / _last: descend while the node is a section/task with a non-empty range.
    [None] = the loop left the array (assert(g < lim)) or ran out of fuel. *)
Fixpoint first_leaf (fuel : nat) (T : list node) (i : Z) : option Z :=
  match fuel with
  | O => None
  | S f => match nodeat T i with
           | None => None
           | Some x => if is_sub x && (getf F_oa x <? getf F_ob x)
                       then first_leaf f T (i + getf F_oa x) else Some i
           end
  end.
Fixpoint last_leaf (fuel : nat) (T : list node) (i : Z) : option Z :=
  match fuel with
  | O => None
  | S f => match nodeat T i with
           | None => None
           | Some x => if is_sub x && (getf F_oa x <? getf F_ob x)
                       then last_leaf f T (i + getf F_ob x - 1) else Some i
           end
  end.

Definition zrange (a : Z) (n : nat) : list Z := map (fun k => a + Z.of_nat k) (seq 0 n).

Fixpoint opt_concat_map {A B : Type} (f : A -> option (list B)) (l : list A) : option (list B) :=
  match l with
  | [] => Some []
  | a :: r => match f a, opt_concat_map f r with
              | Some x, Some y => Some (x ++ y)
              | _, _ => None
              end
  end.

(** the switch on t->info.in_edge_kind; [None] = the default branch (dr_check(0); the edge slot is
    left uninitialised) *)
Definition cont_kind (k : Z) : option Z :=
  if (k =? EK_create_cont) || (k =? EK_wait_cont) || (k =? EK_other_cont) then Some k
  else if k =? EK_end then Some EK_wait_cont
  else None.

(** inner loop over y in [xa, xb): a create_task y gives  y -> first(child), last(child) -> t *)
Definition create_edges (fuel : nat) (T : list node) (t y : Z) : option (list edge) :=
  match nodeat T y with
  | None => None
  | Some ny =>
      if is_create ny then
        let c := y + getf F_oa ny in
        match first_leaf fuel T c, last_leaf fuel T c with
        | Some z, Some w => Some [mk_edge EK_create y z; mk_edge EK_end w t]
        | _, _ => None
        end
      else Some []
  end.

(** body of the loop over x in [ua, ub-1): last(x) -> first(x+1), then the create edges of a section x *)
Definition pair_edges (fuel : nat) (T : list node) (x : Z) : option (list edge) :=
  match last_leaf fuel T x, first_leaf fuel T (x + 1) with
  | Some s, Some t =>
      match nodeat T t, nodeat T x with
      | Some nt, Some nx =>
          match cont_kind (getf F_in_edge nt) with
          | None => None
          | Some k =>
              if getf F_kind nx =? K_section then
                match opt_concat_map (create_edges fuel T t)
                        (zrange (x + getf F_oa nx) (Z.to_nat (getf F_ob nx - getf F_oa nx))) with
                | Some l => Some (mk_edge k s t :: l)
                | None => None
                end
              else Some [mk_edge k s t]
          end
      | _, _ => None
      end
  | _, _ => None
  end.

Definition node_edges (fuel : nat) (T : list node) (i : Z) : option (list edge) :=
  match nodeat T i with
  | None => None
  | Some u =>
      if is_sub u then
        opt_concat_map (pair_edges fuel T)
          (zrange (i + getf F_oa u) (Z.to_nat (getf F_ob u - getf F_oa u - 1)))
      else Some []
  end.

(** dr_pi_dag_enum_edges, before the final assert *)
Definition enum_edges (T : list node) : option (list edge) :=
  opt_concat_map (node_edges (length T) T) (zrange 0 (length T)).

(** dr_pi_dag_count_edges_uncollapsed *)
Definition count_creates (T : list node) (a : Z) (n : nat) : Z :=
  fold_right (fun y acc => match nodeat T y with
                           | Some ny => if is_create ny then acc + 2 else acc
                           | None => acc end) 0 (zrange a n).
Definition count_node (T : list node) (i : Z) : Z :=
  match nodeat T i with
  | None => 0
  | Some u =>
      if is_sub u && (getf F_oa u <? getf F_ob u) then
        (getf F_ob u - getf F_oa u - 1) +
        (if getf F_kind u =? K_section
         then count_creates T (i + getf F_oa u) (Z.to_nat (getf F_ob u - getf F_oa u)) else 0)
      else 0
  end.
Definition count_edges (T : list node) : Z :=
  fold_right (fun i acc => count_node T i + acc) 0 (zrange 0 (length T)).

(** edge_cmp + qsort: order by (u, v).  (qsort is not stable; the keys of a well-formed dag are
    pairwise distinct, so the result does not depend on that.) *)
Definition edge_leb (e f : edge) : bool :=
  (eu e <? eu f) || ((eu e =? eu f) && (ev e <=? ev f)).
Fixpoint ins_edge (e : edge) (l : list edge) : list edge :=
  match l with
  | [] => [e]
  | f :: r => if edge_leb e f then e :: l else f :: ins_edge e r
  end.
Definition sort_edges (l : list edge) : list edge := fold_right ins_edge [] l.

(** dr_pi_dag_set_edge_ptrs, literally: [i] is the node being filled, [b] its edges_begin.
    [adv k b j]: k iterations of  { T[i].edges_end = j; T[i+1].edges_begin = j; i++ }. *)
Fixpoint adv (k : nat) (b j : Z) : list (Z * Z) :=
  match k with O => [] | S k' => (b, j) :: adv k' j j end.
Fixpoint ptr_loop (es : list edge) (j i b : Z) : list (Z * Z) * Z * Z :=
  match es with
  | [] => ([], i, b)
  | e :: r =>
      let k := Z.to_nat (eu e - i) in
      let i' := match k with O => i | S _ => eu e end in
      let b' := match k with O => b | S _ => j end in
      let '(rest, i2, b2) := ptr_loop r (j + 1) i' b' in
      (adv k b j ++ rest, i2, b2)
  end.
Definition edge_ptrs (n m : Z) (es : list edge) : list (Z * Z) :=
  let '(l, i, b) := ptr_loop es 0 0 0 in
  let k := Z.to_nat (n - 1 - i) in
  l ++ adv k b m ++ [(match k with O => b | S _ => m end, m)].

Definition set_ptrs (T : list node) (ps : list (Z * Z)) : list node :=
  map (fun xp => setf F_eb (fst (snd xp)) (setf F_ee (snd (snd xp)) (fst xp))) (combine T ps).

(** * the position-independent dag and dr_make_pi_dag *)
Record pidag := mk_pidag {
  gn : Z; gm : Z; gsc : Z; gnw : Z;
  gT : list node; gE : list edge; gS : strtab }.

Inductive result (A : Type) :=
| Ok (a : A)
| EdgeFailure          (* enum_edges left the array, met a bad in_edge_kind, or ran out of fuel *)
| CountMismatch.       (* assert(e == E_lim) / assert(e < E_lim) *)
Arguments Ok {A} a.
Arguments EdgeFailure {A}.
Arguments CountMismatch {A}.

(** the common tail of dr_make_pi_dag and dr_copy_pi_dag: edges, sort, edge ranges, string table *)
Definition finish_pi_dag (hdr ptr : Z) (sc nw : Z) (T0 : list node) (tbl : list name) : result pidag :=
  match enum_edges T0 with
  | None => EdgeFailure
  | Some E =>
      if Z.of_nat (length E) =? count_edges T0 then
        let Es := sort_edges E in
        let n := Z.of_nat (length T0) in
        let m := Z.of_nat (length Es) in
        Ok (mk_pidag n m sc nw (set_ptrs T0 (edge_ptrs n m Es)) Es (st_flatten hdr ptr tbl))
      else CountMismatch
  end.

Definition enum_nodes (sc : Z) (t : tree) : list node * list name :=
  intern_all (map (mk_node sc) (entries t)) [].

Definition make_pi_dag (hdr ptr : Z) (sc nw : Z) (t : tree) : result pidag :=
  let '(T0, tbl) := enum_nodes sc t in
  finish_pi_dag hdr ptr sc nw T0 tbl.
