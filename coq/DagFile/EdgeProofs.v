(** C19 — the edge enumeration on the array agrees with a specification on the tree. *)
From Coq Require Import ZArith List Bool Lia Arith.
From MT Require Import DagFile.FlattenModel DagFile.DagSpec DagFile.TreeLemmas DagFile.LayProofs.
Import ListNotations.
Local Open Scope Z_scope.

(** * positions of the first and last leaf of a subtree laid out at (i, p) *)
Fixpoint first_idx (t : tree) (i p : nat) : nat :=
  match t with
  | Sub _ ((c :: _) as cs) => first_idx c p (p + length cs)%nat
  | _ => i
  end.

Section LastGo.
  Variable f : tree -> nat -> nat -> nat.
  Fixpoint last_go (l : list tree) (i q acc : nat) : nat :=
    match l with
    | [] => acc
    | c :: r => last_go r (S i) (q + desc c)%nat (f c i q)
    end.
End LastGo.

Fixpoint last_idx (t : tree) (i p : nat) : nat :=
  match t with
  | Sub _ cs => last_go (fun c i' q' => last_idx c i' q') cs p (p + length cs)%nat i
  | _ => i
  end.

Lemma nodeat_nat : forall T i, nodeat T (Z.of_nat i) = nth_error T i.
Proof.
  intros T i. unfold nodeat. destruct (Z.of_nat i <? 0) eqn:E; [apply Z.ltb_lt in E; lia|].
  now rewrite Nat2Z.id.
Qed.

Lemma size_child_le : forall d cs c, In c cs -> (size c < size (Sub d cs))%nat.
Proof.
  intros d cs c H. rewrite size_Sub. induction cs as [|a r IH]; [contradiction|].
  cbn [sizes fold_right]. fold (sizes r). destruct H as [<-|H]; [lia|]. specialize (IH H). lia.
Qed.

Lemma lay_Sub_inv : forall T d cs i p, lay T (Sub d cs) i p ->
  (exists x, nth_error T i = Some x /\ node_ok x (Sub d cs) i p) /\ lay_list (lay T) cs p (p + length cs)%nat.
Proof. intros T d cs i p H. exact H. Qed.

Lemma lay_Create_inv : forall T d c i p, lay T (Create d c) i p ->
  (exists x, nth_error T i = Some x /\ node_ok x (Create d c) i p) /\ lay T c p (S p).
Proof. intros T d c i p H. exact H. Qed.

Lemma first_leaf_lay : forall T t i p fuel, lay T t i p -> (size t <= fuel)%nat ->
  first_leaf fuel T (Z.of_nat i) = Some (Z.of_nat (first_idx t i p)).
Proof.
  intros T t. induction t as [d | d c IH | d cs IH] using tree_ind2; intros i p fuel HL Hf.
  - destruct HL as [(x & Hx & Hok) _]. destruct fuel as [|f]; [cbn [size] in Hf; lia|].
    cbn [first_leaf]. rewrite nodeat_nat, Hx. destruct Hok as (_ & _ & Hs & _). rewrite Hs. reflexivity.
  - apply lay_Create_inv in HL. destruct HL as [(x & Hx & Hok) _].
    destruct fuel as [|f]; [cbn [size] in Hf; lia|].
    cbn [first_leaf]. rewrite nodeat_nat, Hx. destruct Hok as (_ & _ & _ & Hs & _). rewrite Hs. reflexivity.
  - apply lay_Sub_inv in HL. destruct HL as [(x & Hx & Hok) HLL].
    destruct fuel as [|f]; [pose proof (size_pos (Sub d cs)); lia|].
    cbn [first_leaf]. rewrite nodeat_nat, Hx. destruct Hok as (Hip & _ & Hs & _ & Ho). rewrite Hs. cbn [andb].
    destruct cs as [|c r].
    + destruct (getf F_oa x <? getf F_ob x) eqn:E; [apply Z.ltb_lt in E; lia | reflexivity].
    + destruct Ho as [Ha Hb]. cbn [length] in Hb.
      destruct (getf F_oa x <? getf F_ob x) eqn:E; [|apply Z.ltb_ge in E; lia].
      cbn [first_idx]. destruct HLL as [Hc _].
      inversion IH as [|c' r' IHc _]; subst.
      replace (Z.of_nat i + getf F_oa x) with (Z.of_nat p) by lia.
      apply IHc; [exact Hc|].
      pose proof (size_child_le d (c :: r) c (or_introl eq_refl)). lia.
Qed.

(** the last leaf below a non-empty run of children *)
Lemma last_leaf_run : forall T fuel l i q acc,
  Forall (fun t => forall i p fuel, lay T t i p -> (size t <= fuel)%nat ->
                   last_leaf fuel T (Z.of_nat i) = Some (Z.of_nat (last_idx t i p))) l ->
  lay_list (lay T) l i q -> l <> [] -> (forall c, In c l -> (size c <= fuel)%nat) ->
  last_leaf fuel T (Z.of_nat (i + length l - 1)) =
  Some (Z.of_nat (last_go (fun c i' q' => last_idx c i' q') l i q acc)).
Proof.
  intros T fuel l. induction l as [|c r IHr]; intros i q acc HF HL Hne Hsz; [contradiction|].
  inversion HF as [|c' r' Hc Hr]; subst. destruct HL as [HLc HLr]. cbn [last_go].
  destruct r as [|c2 r2].
  - cbn [last_go length]. replace (i + 1 - 1)%nat with i by lia. apply Hc; [exact HLc | apply Hsz; now left].
  - replace (i + length (c :: c2 :: r2) - 1)%nat with (S i + length (c2 :: r2) - 1)%nat by (cbn [length]; lia).
    apply IHr; [exact Hr | exact HLr | discriminate | intros c0 H0; apply Hsz; now right].
Qed.

Lemma last_leaf_lay : forall T t i p fuel, lay T t i p -> (size t <= fuel)%nat ->
  last_leaf fuel T (Z.of_nat i) = Some (Z.of_nat (last_idx t i p)).
Proof.
  intros T t. induction t as [d | d c IH | d cs IH] using tree_ind2; intros i p fuel HL Hf.
  - destruct HL as [(x & Hx & Hok) _]. destruct fuel as [|f]; [cbn [size] in Hf; lia|].
    cbn [last_leaf]. rewrite nodeat_nat, Hx. destruct Hok as (_ & _ & Hs & _). rewrite Hs. reflexivity.
  - apply lay_Create_inv in HL. destruct HL as [(x & Hx & Hok) _].
    destruct fuel as [|f]; [cbn [size] in Hf; lia|].
    cbn [last_leaf]. rewrite nodeat_nat, Hx. destruct Hok as (_ & _ & _ & Hs & _). rewrite Hs. reflexivity.
  - apply lay_Sub_inv in HL. destruct HL as [(x & Hx & Hok) HLL].
    destruct fuel as [|f]; [pose proof (size_pos (Sub d cs)); lia|].
    cbn [last_leaf]. rewrite nodeat_nat, Hx. destruct Hok as (Hip & _ & Hs & _ & Ho). rewrite Hs. cbn [andb].
    destruct cs as [|c r].
    + destruct (getf F_oa x <? getf F_ob x) eqn:E; [apply Z.ltb_lt in E; lia | reflexivity].
    + destruct Ho as [Ha Hb].
      destruct (getf F_oa x <? getf F_ob x) eqn:E; [|apply Z.ltb_ge in E; cbn [length] in Hb; lia].
      cbn [last_idx].
      replace (Z.of_nat i + getf F_ob x - 1) with (Z.of_nat (p + length (c :: r) - 1)) by (cbn [length] in *; lia).
      apply last_leaf_run; [exact IH | exact HLL | discriminate|].
      intros c0 H0. pose proof (size_child_le d (c :: r) c0 H0). lia.
Qed.

(** generic: what first_leaf / last_leaf return is a leaf of the array *)
Lemma first_leaf_leaf : forall fuel T i k, first_leaf fuel T i = Some k ->
  exists x, nodeat T k = Some x /\ leaf_node x = true.
Proof.
  induction fuel as [|f IH]; intros T i k H; [discriminate|].
  cbn [first_leaf] in H. destruct (nodeat T i) as [x|] eqn:Ex; [|discriminate].
  destruct (is_sub x && (getf F_oa x <? getf F_ob x)) eqn:E.
  - eapply IH; exact H.
  - injection H as <-. exists x. split; [exact Ex|]. unfold leaf_node. now rewrite E.
Qed.

Lemma last_leaf_leaf : forall fuel T i k, last_leaf fuel T i = Some k ->
  exists x, nodeat T k = Some x /\ leaf_node x = true.
Proof.
  induction fuel as [|f IH]; intros T i k H; [discriminate|].
  cbn [last_leaf] in H. destruct (nodeat T i) as [x|] eqn:Ex; [|discriminate].
  destruct (is_sub x && (getf F_oa x <? getf F_ob x)) eqn:E.
  - eapply IH; exact H.
  - injection H as <-. exists x. split; [exact Ex|]. unfold leaf_node. now rewrite E.
Qed.

(** the in_edge_kind word of the first leaf *)
Lemma first_node_lay : forall T t i p, lay T t i p ->
  exists x, nth_error T (first_idx t i p) = Some x /\ getf F_in_edge x = t_in_edge (first_data t).
Proof.
  intros T t. induction t as [d | d c IH | d cs IH] using tree_ind2; intros i p HL.
  - destruct HL as [(x & Hx & Hok) _]. exists x. split; [exact Hx|]. destruct Hok as (_ & (_ & Hi & _) & _). exact Hi.
  - apply lay_Create_inv in HL. destruct HL as [(x & Hx & Hok) _]. exists x. split; [exact Hx|].
    destruct Hok as (_ & (_ & Hi & _) & _). exact Hi.
  - apply lay_Sub_inv in HL. destruct HL as [(x & Hx & Hok) HLL]. destruct cs as [|c r].
    + exists x. split; [exact Hx|]. destruct Hok as (_ & (_ & Hi & _) & _). exact Hi.
    + cbn [first_idx first_data]. inversion IH as [|c' r' IHc _]; subst. apply IHc. exact (proj1 HLL).
Qed.

(** * specification of the edges, as (source, destination) index pairs *)
Definition uv := (nat * nat)%type.

Fixpoint create_spec (l : list tree) (i q tgt : nat) : list uv :=
  match l with
  | [] => []
  | y :: r =>
      (match y with
       | Create _ c => [(i, first_idx c q (S q)); (last_idx c q (S q), tgt)]
       | _ => []
       end) ++ create_spec r (S i) (q + desc y)%nat tgt
  end.

(** the create edges of a section x whose children block is at q *)
Definition sec_creates (x : tree) (q tgt : nat) : list uv :=
  match x with
  | Sub d cs => if t_kind d =? K_section then create_spec cs q (q + length cs)%nat tgt else []
  | _ => []
  end.

Fixpoint pairs_spec (l : list tree) (i q : nat) : list uv :=
  match l with
  | x :: ((x' :: _) as r) =>
      let tgt := first_idx x' (S i) (q + desc x)%nat in
      (last_idx x i q, tgt) :: sec_creates x q tgt ++ pairs_spec r (S i) (q + desc x)%nat
  | _ => []
  end.

Definition node_spec (t : tree) (p : nat) : list uv :=
  match t with Sub _ cs => pairs_spec cs p (p + length cs)%nat | _ => [] end.

Definition euv (e : edge) : Z * Z := (eu e, ev e).
Definition zuv (a : uv) : Z * Z := (Z.of_nat (fst a), Z.of_nat (snd a)).

Lemma lay_Create_child : forall T d c i q, lay T (Create d c) i q -> lay T c q (S q).
Proof. intros T d c i q H. exact (proj2 H). Qed.

Lemma create_edges_lay : forall T fuel tgt l i q,
  lay_list (lay T) l i q -> (forall c, In c l -> (size c <= fuel)%nat) ->
  exists E, opt_concat_map (create_edges fuel T (Z.of_nat tgt)) (zrange (Z.of_nat i) (length l)) = Some E /\
            map euv E = map zuv (create_spec l i q tgt).
Proof.
  intros T fuel tgt l. induction l as [|y r IH]; intros i q HL Hsz.
  - exists []. cbn. split; reflexivity.
  - destruct HL as [Hy Hr]. cbn [length]. rewrite zrange_S. cbn [opt_concat_map].
    destruct (IH (S i) (q + desc y)%nat Hr) as (E & HE & HM).
    { intros c Hc. apply Hsz. now right. }
    replace (Z.of_nat i + 1) with (Z.of_nat (S i)) by lia. rewrite HE.
    pose proof (lay_node _ _ _ _ Hy) as (ny & Hny & Hok).
    unfold create_edges at 1. rewrite nodeat_nat, Hny.
    destruct y as [d | d c | d cs].
    + destruct Hok as (_ & _ & _ & Hc). rewrite Hc. exists E. cbn [app create_spec]. split; [reflexivity | exact HM].
    + destruct Hok as (Hiq & _ & Hc & _ & Ho). rewrite Hc.
      replace (Z.of_nat i + getf F_oa ny) with (Z.of_nat q) by lia.
      assert (Hsc : (size c <= fuel)%nat).
      { specialize (Hsz (Create d c) (or_introl eq_refl)). cbn [size] in Hsz. lia. }
      rewrite (first_leaf_lay T c q (S q) fuel (lay_Create_child _ _ _ _ _ Hy) Hsc).
      rewrite (last_leaf_lay T c q (S q) fuel (lay_Create_child _ _ _ _ _ Hy) Hsc).
      eexists. split; [reflexivity|].
      cbn [app create_spec map euv zuv eu ev fst snd]. rewrite HM. reflexivity.
    + destruct Hok as (_ & _ & _ & Hc & _). rewrite Hc. exists E. cbn [app create_spec]. split; [reflexivity | exact HM].
Qed.

Lemma cont_ok_some : forall c, cont_ok c = true -> exists k, cont_kind (t_in_edge (first_data c)) = Some k.
Proof. intros c H. unfold cont_ok in H. destruct (cont_kind (t_in_edge (first_data c))) as [k|]; [now exists k | discriminate]. Qed.

Lemma pair_edges_lay : forall T fuel x x' i q,
  lay T x i q -> lay T x' (S i) (q + desc x)%nat -> cont_ok x' = true ->
  (size x <= fuel)%nat -> (size x' <= fuel)%nat ->
  exists E, pair_edges fuel T (Z.of_nat i) = Some E /\
            map euv E = map zuv ((last_idx x i q, first_idx x' (S i) (q + desc x)%nat)
                                 :: sec_creates x q (first_idx x' (S i) (q + desc x)%nat)).
Proof.
  intros T fuel x x' i q Hx Hx' Hc Hsx Hsx'.
  unfold pair_edges.
  rewrite (last_leaf_lay T x i q fuel Hx Hsx).
  replace (Z.of_nat i + 1) with (Z.of_nat (S i)) by lia.
  rewrite (first_leaf_lay T x' (S i) (q + desc x)%nat fuel Hx' Hsx').
  set (tgt := first_idx x' (S i) (q + desc x)%nat).
  destruct (first_node_lay T x' _ _ Hx') as (nt & Hnt & Hin). fold tgt in Hnt.
  rewrite !nodeat_nat, Hnt.
  pose proof (lay_node _ _ _ _ Hx) as (nx & Hnx & Hok). rewrite Hnx.
  destruct (cont_ok_some x' Hc) as (k & Hk). rewrite Hin, Hk.
  destruct Hok as (Hiq & (Hkind & _) & Hshape). rewrite Hkind.
  destruct x as [d | d c | d cs]; cbn [tdata] in *.
  - destruct Hshape as [Hs _]. unfold is_sub in Hs. rewrite Hkind in Hs. apply Z.leb_gt in Hs.
    destruct (t_kind d =? K_section) eqn:E; [apply Z.eqb_eq in E; lia|].
    eexists. split; [reflexivity|]. reflexivity.
  - destruct Hshape as (_ & Hs & _). unfold is_sub in Hs. rewrite Hkind in Hs. apply Z.leb_gt in Hs.
    destruct (t_kind d =? K_section) eqn:E; [apply Z.eqb_eq in E; lia|].
    eexists. split; [reflexivity|]. reflexivity.
  - cbn [sec_creates]. destruct (t_kind d =? K_section) eqn:E.
    + destruct Hshape as (_ & _ & Ho). apply lay_Sub_inv in Hx. destruct Hx as [_ HLL].
      destruct cs as [|c r].
      * replace (Z.to_nat (getf F_ob nx - getf F_oa nx)) with O by lia. rewrite zrange_0. cbn [opt_concat_map].
        eexists. split; [reflexivity|]. reflexivity.
      * destruct Ho as [Ha Hb].
        replace (Z.of_nat i + getf F_oa nx) with (Z.of_nat q) by lia.
        replace (Z.to_nat (getf F_ob nx - getf F_oa nx)) with (length (c :: r)) by lia.
        destruct (create_edges_lay T fuel tgt (c :: r) q (q + length (c :: r))%nat HLL) as (E' & HE' & HM').
        { intros c0 H0. pose proof (size_child_le d (c :: r) c0 H0). lia. }
        rewrite HE'. eexists. split; [reflexivity|].
        cbn [map]. rewrite HM'. reflexivity.
    + eexists. split; [reflexivity|]. reflexivity.
Qed.

Lemma pairs_spec_cons2 : forall x x' r i q,
  pairs_spec (x :: x' :: r) i q =
  (last_idx x i q, first_idx x' (S i) (q + desc x)%nat)
  :: sec_creates x q (first_idx x' (S i) (q + desc x)%nat) ++ pairs_spec (x' :: r) (S i) (q + desc x)%nat.
Proof. reflexivity. Qed.

Lemma pairs_lay : forall T fuel l i q,
  lay_list (lay T) l i q -> forallb cont_ok (tl l) = true -> (forall c, In c l -> (size c <= fuel)%nat) ->
  exists E, opt_concat_map (pair_edges fuel T) (zrange (Z.of_nat i) (length l - 1)) = Some E /\
            map euv E = map zuv (pairs_spec l i q).
Proof.
  intros T fuel l. induction l as [|x r IH]; intros i q HL Hc Hsz.
  - exists []. split; reflexivity.
  - destruct r as [|x' r'].
    + exists []. split; reflexivity.
    + destruct HL as [Hx Hr]. cbn [tl forallb] in Hc. apply andb_prop in Hc. destruct Hc as [Hcx' Hcr].
      replace (length (x :: x' :: r') - 1)%nat with (S (length (x' :: r') - 1)) by (cbn [length]; lia).
      rewrite zrange_S. cbn [opt_concat_map].
      destruct (pair_edges_lay T fuel x x' i q Hx (proj1 Hr) Hcx') as (E1 & HE1 & HM1);
        [apply Hsz; now left | apply Hsz; right; now left |].
      destruct (IH (S i) (q + desc x)%nat Hr Hcr) as (E2 & HE2 & HM2); [intros c H0; apply Hsz; now right|].
      replace (Z.of_nat i + 1) with (Z.of_nat (S i)) by lia.
      rewrite HE1, HE2. eexists. split; [reflexivity|].
      rewrite map_app, HM1, HM2, pairs_spec_cons2, map_cons, map_cons, map_app. reflexivity.
Qed.

Theorem node_edges_lay : forall T fuel t i p, lay T t i p -> wf_tree t = true -> (size t <= fuel)%nat ->
  exists E, node_edges fuel T (Z.of_nat i) = Some E /\ map euv E = map zuv (node_spec t p).
Proof.
  intros T fuel t i p HL Hw Hsz. unfold node_edges. rewrite nodeat_nat.
  pose proof (lay_node _ _ _ _ HL) as (x & Hx & Hok). rewrite Hx.
  destruct t as [d | d c | d cs].
  - destruct Hok as (_ & _ & Hs & _). rewrite Hs. exists []. split; reflexivity.
  - destruct Hok as (_ & _ & _ & Hs & _). rewrite Hs. exists []. split; reflexivity.
  - destruct Hok as (Hip & _ & Hs & _ & Ho). rewrite Hs.
    apply wf_tree_Sub in Hw. destruct Hw as (_ & _ & _ & Hc & _).
    apply lay_Sub_inv in HL. destruct HL as [_ HLL].
    destruct cs as [|c r].
    + replace (Z.to_nat (getf F_ob x - getf F_oa x - 1)) with O by lia. exists []. split; reflexivity.
    + destruct Ho as [Ha Hb].
      replace (Z.of_nat i + getf F_oa x) with (Z.of_nat p) by lia.
      replace (Z.to_nat (getf F_ob x - getf F_oa x - 1)) with (length (c :: r) - 1)%nat by lia.
      apply pairs_lay; [exact HLL | exact Hc|].
      intros c0 H0. pose proof (size_child_le d (c :: r) c0 H0). lia.
Qed.

(** * every entry of the enumeration is laid out *)
Lemma lay_list_heads : forall R l i q, lay_list R l i q ->
  forall e, In e (heads l i q) -> R (snd e) (eidx e) (eblk e).
Proof.
  intros R. induction l as [|c r IH]; intros i q H e He; [contradiction|].
  destruct H as [Hc Hr]. cbn [heads] in He. destruct He as [<-|He]; [exact Hc | eapply IH; eassumption].
Qed.

Lemma lay_descs : forall T t i p, lay T t i p -> forall e, In e (descs t p) -> lay T (snd e) (eidx e) (eblk e).
Proof.
  intros T t. induction t as [d | d c IH | d cs IH] using tree_ind2; intros i p HL e He.
  - contradiction.
  - cbn [descs] in He. destruct He as [<-|He]; [exact (proj2 HL)|]. eapply IH; [exact (proj2 HL) | exact He].
  - apply lay_Sub_inv in HL. destruct HL as [_ HLL]. rewrite descs_Sub in He. apply in_app_or in He.
    destruct He as [He|He]; [eapply lay_list_heads in He; [exact He | exact HLL]|].
    assert (G : forall i0 q, lay_list (lay T) cs i0 q -> In e (tails cs q) -> lay T (snd e) (eidx e) (eblk e)).
    { clear He HLL. induction IH as [|c r Hc _ IHr]; intros i0 q HLL He; [contradiction|].
      destruct HLL as [HLc HLr]. cbn [tails] in He. apply in_app_or in He. destruct He as [He|He].
      - eapply Hc; eassumption.
      - eapply IHr; eassumption. }
    eapply G; eassumption.
Qed.

Lemma wf_descs : forall t p, wf_tree t = true -> forall e, In e (descs t p) -> wf_tree (snd e) = true.
Proof.
  intros t p H e He. pose proof (descs_ok t p H) as HF. rewrite Forall_forall in HF. exact (proj2 (HF e He)).
Qed.

Lemma size_descs : forall t p e, In e (descs t p) -> (size (snd e) < size t)%nat.
Proof.
  induction t as [d | d c IH | d cs IH] using tree_ind2; intros p e He.
  - contradiction.
  - cbn [descs] in He. cbn [size]. destruct He as [<-|He]; [cbn; lia | specialize (IH _ _ He); lia].
  - rewrite descs_Sub in He. apply in_app_or in He. destruct He as [He|He].
    + assert (Hin : In (snd e) cs).
      { revert He. generalize p at 1. generalize (p + length cs)%nat. clear. induction cs as [|c r IHr]; intros q i He; [contradiction|].
        cbn [heads] in He. destruct He as [<-|He]; [now left | right; eapply IHr; exact He]. }
      now apply size_child_le.
    + assert (Hex : exists c, In c cs /\ (size (snd e) < size c)%nat).
      { revert He. generalize (p + length cs)%nat. clear -IH. induction IH as [|c r Hc _ IHr]; intros q He; [contradiction|].
        cbn [tails] in He. apply in_app_or in He. destruct He as [He|He].
        - exists c. split; [now left | eapply Hc; exact He].
        - destruct (IHr _ He) as (c0 & H0 & H1). exists c0. split; [now right | exact H1]. }
      destruct Hex as (c & Hc & Hlt). pose proof (size_child_le d cs c Hc). lia.
Qed.

Definition spec_of_entries (ents : list entry) : list uv :=
  concat (map (fun e => node_spec (snd e) (eblk e)) ents).

Lemma opt_concat_map_map : forall (A B C : Type) (h : A -> B) (f : B -> option (list C)) l,
  opt_concat_map f (map h l) = opt_concat_map (fun a => f (h a)) l.
Proof. intros A B C h f l. induction l as [|a r IH]; [reflexivity|]. cbn [map opt_concat_map]. now rewrite IH. Qed.

Lemma opt_concat_map_spec : forall (A : Type) (f : A -> option (list edge)) (g : A -> list uv) l,
  (forall a, In a l -> exists E, f a = Some E /\ map euv E = map zuv (g a)) ->
  exists E, opt_concat_map f l = Some E /\ map euv E = map zuv (concat (map g l)).
Proof.
  intros A f g l. induction l as [|a r IH]; intros H.
  - exists []. split; reflexivity.
  - destruct (H a (or_introl eq_refl)) as (E1 & H1 & M1).
    destruct IH as (E2 & H2 & M2); [intros b Hb; apply H; now right|].
    cbn [opt_concat_map]. rewrite H1, H2. eexists. split; [reflexivity|].
    cbn [map concat]. rewrite !map_app, M1, M2. reflexivity.
Qed.

Theorem enum_edges_spec : forall T t, lay T t 0 1 -> wf_tree t = true -> length T = size t ->
  exists E, enum_edges T = Some E /\ map euv E = map zuv (spec_of_entries (entries t)).
Proof.
  intros T t HL Hw Hlen. unfold enum_edges. rewrite zrange_nat, Hlen, <- entries_idx, map_map.
  rewrite opt_concat_map_map. apply opt_concat_map_spec.
  intros e He. unfold entries in He. destruct He as [<-|He].
  - cbn [eidx fst snd eblk]. apply node_edges_lay; [exact HL | exact Hw | lia].
  - apply node_edges_lay.
    + eapply lay_descs; eassumption.
    + eapply wf_descs; eassumption.
    + pose proof (size_descs t 1 e He). lia.
Qed.
