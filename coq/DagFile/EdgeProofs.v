(** C19 — the edge enumeration on the array agrees with a specification on the tree. *)
From Coq Require Import ZArith List Bool Lia Arith.
From MT Require Import DagFile.FlattenModel DagFile.DagSpec DagFile.TreeLemmas DagFile.LayProofs.
Import ListNotations.
Local Open Scope Z_scope.

(** * positions of the first and last leaf of a subtree laid out at (i, p) *)
Fixpoint first_idx (t : tree) (i p : nat) : nat :=
  match t with
  | Sub _ ((c :: _) as cs) => first_idx c p (p + length cs)%nat
  | _ => i
  end.

Section LastGo.
  Variable f : tree -> nat -> nat -> nat.
  Fixpoint last_go (l : list tree) (i q acc : nat) : nat :=
    match l with
    | [] => acc
    | c :: r => last_go r (S i) (q + desc c)%nat (f c i q)
    end.
End LastGo.

Fixpoint last_idx (t : tree) (i p : nat) : nat :=
  match t with
  | Sub _ cs => last_go (fun c i' q' => last_idx c i' q') cs p (p + length cs)%nat i
  | _ => i
  end.

Lemma nodeat_nat : forall T i, nodeat T (Z.of_nat i) = nth_error T i.
Proof.
  intros T i. unfold nodeat. destruct (Z.of_nat i <? 0) eqn:E; [apply Z.ltb_lt in E; lia|].
  now rewrite Nat2Z.id.
Qed.

Lemma size_child_le : forall d cs c, In c cs -> (size c < size (Sub d cs))%nat.
Proof.
  intros d cs c H. rewrite size_Sub. induction cs as [|a r IH]; [contradiction|].
  cbn [sizes fold_right]. fold (sizes r). destruct H as [<-|H]; [lia|]. specialize (IH H). lia.
Qed.

Lemma lay_Sub_inv : forall T d cs i p, lay T (Sub d cs) i p ->
  (exists x, nth_error T i = Some x /\ node_ok x (Sub d cs) i p) /\ lay_list (lay T) cs p (p + length cs)%nat.
Proof. intros T d cs i p H. exact H. Qed.

Lemma lay_Create_inv : forall T d c i p, lay T (Create d c) i p ->
  (exists x, nth_error T i = Some x /\ node_ok x (Create d c) i p) /\ lay T c p (S p).
Proof. intros T d c i p H. exact H. Qed.

Lemma first_leaf_lay : forall T t i p fuel, lay T t i p -> (size t <= fuel)%nat ->
  first_leaf fuel T (Z.of_nat i) = Some (Z.of_nat (first_idx t i p)).
Proof.
  intros T t. induction t as [d | d c IH | d cs IH] using tree_ind2; intros i p fuel HL Hf.
  - destruct HL as [(x & Hx & Hok) _]. destruct fuel as [|f]; [cbn [size] in Hf; lia|].
    cbn [first_leaf]. rewrite nodeat_nat, Hx. destruct Hok as (_ & _ & Hs & _). rewrite Hs. reflexivity.
  - apply lay_Create_inv in HL. destruct HL as [(x & Hx & Hok) _].
    destruct fuel as [|f]; [cbn [size] in Hf; lia|].
    cbn [first_leaf]. rewrite nodeat_nat, Hx. destruct Hok as (_ & _ & _ & Hs & _). rewrite Hs. reflexivity.
  - apply lay_Sub_inv in HL. destruct HL as [(x & Hx & Hok) HLL].
    destruct fuel as [|f]; [pose proof (size_pos (Sub d cs)); lia|].
    cbn [first_leaf]. rewrite nodeat_nat, Hx. destruct Hok as (Hip & _ & Hs & _ & Ho). rewrite Hs. cbn [andb].
    destruct cs as [|c r].
    + destruct (getf F_oa x <? getf F_ob x) eqn:E; [apply Z.ltb_lt in E; lia | reflexivity].
    + destruct Ho as [Ha Hb]. cbn [length] in Hb.
      destruct (getf F_oa x <? getf F_ob x) eqn:E; [|apply Z.ltb_ge in E; lia].
      cbn [first_idx]. destruct HLL as [Hc _].
      inversion IH as [|c' r' IHc _]; subst.
      replace (Z.of_nat i + getf F_oa x) with (Z.of_nat p) by lia.
      apply IHc; [exact Hc|].
      pose proof (size_child_le d (c :: r) c (or_introl eq_refl)). lia.
Qed.

(** the last leaf below a non-empty run of children *)
Lemma last_leaf_run : forall T fuel l i q acc,
  Forall (fun t => forall i p fuel, lay T t i p -> (size t <= fuel)%nat ->
                   last_leaf fuel T (Z.of_nat i) = Some (Z.of_nat (last_idx t i p))) l ->
  lay_list (lay T) l i q -> l <> [] -> (forall c, In c l -> (size c <= fuel)%nat) ->
  last_leaf fuel T (Z.of_nat (i + length l - 1)) =
  Some (Z.of_nat (last_go (fun c i' q' => last_idx c i' q') l i q acc)).
Proof.
  intros T fuel l. induction l as [|c r IHr]; intros i q acc HF HL Hne Hsz; [contradiction|].
  inversion HF as [|c' r' Hc Hr]; subst. destruct HL as [HLc HLr]. cbn [last_go].
  destruct r as [|c2 r2].
  - cbn [last_go length]. replace (i + 1 - 1)%nat with i by lia. apply Hc; [exact HLc | apply Hsz; now left].
  - replace (i + length (c :: c2 :: r2) - 1)%nat with (S i + length (c2 :: r2) - 1)%nat by (cbn [length]; lia).
    apply IHr; [exact Hr | exact HLr | discriminate | intros c0 H0; apply Hsz; now right].
Qed.

Lemma last_leaf_lay : forall T t i p fuel, lay T t i p -> (size t <= fuel)%nat ->
  last_leaf fuel T (Z.of_nat i) = Some (Z.of_nat (last_idx t i p)).
Proof.
  intros T t. induction t as [d | d c IH | d cs IH] using tree_ind2; intros i p fuel HL Hf.
  - destruct HL as [(x & Hx & Hok) _]. destruct fuel as [|f]; [cbn [size] in Hf; lia|].
    cbn [last_leaf]. rewrite nodeat_nat, Hx. destruct Hok as (_ & _ & Hs & _). rewrite Hs. reflexivity.
  - apply lay_Create_inv in HL. destruct HL as [(x & Hx & Hok) _].
    destruct fuel as [|f]; [cbn [size] in Hf; lia|].
    cbn [last_leaf]. rewrite nodeat_nat, Hx. destruct Hok as (_ & _ & _ & Hs & _). rewrite Hs. reflexivity.
  - apply lay_Sub_inv in HL. destruct HL as [(x & Hx & Hok) HLL].
    destruct fuel as [|f]; [pose proof (size_pos (Sub d cs)); lia|].
    cbn [last_leaf]. rewrite nodeat_nat, Hx. destruct Hok as (Hip & _ & Hs & _ & Ho). rewrite Hs. cbn [andb].
    destruct cs as [|c r].
    + destruct (getf F_oa x <? getf F_ob x) eqn:E; [apply Z.ltb_lt in E; lia | reflexivity].
    + destruct Ho as [Ha Hb].
      destruct (getf F_oa x <? getf F_ob x) eqn:E; [|apply Z.ltb_ge in E; cbn [length] in Hb; lia].
      cbn [last_idx].
      replace (Z.of_nat i + getf F_ob x - 1) with (Z.of_nat (p + length (c :: r) - 1)) by (cbn [length] in *; lia).
      apply last_leaf_run; [exact IH | exact HLL | discriminate|].
      intros c0 H0. pose proof (size_child_le d (c :: r) c0 H0). lia.
Qed.

(** generic: what first_leaf / last_leaf return is a leaf of the array *)
Lemma first_leaf_leaf : forall fuel T i k, first_leaf fuel T i = Some k ->
  exists x, nodeat T k = Some x /\ leaf_node x = true.
Proof.
  induction fuel as [|f IH]; intros T i k H; [discriminate|].
  cbn [first_leaf] in H. destruct (nodeat T i) as [x|] eqn:Ex; [|discriminate].
  destruct (is_sub x && (getf F_oa x <? getf F_ob x)) eqn:E.
  - eapply IH; exact H.
  - injection H as <-. exists x. split; [exact Ex|]. unfold leaf_node. now rewrite E.
Qed.

Lemma last_leaf_leaf : forall fuel T i k, last_leaf fuel T i = Some k ->
  exists x, nodeat T k = Some x /\ leaf_node x = true.
Proof.
  induction fuel as [|f IH]; intros T i k H; [discriminate|].
  cbn [last_leaf] in H. destruct (nodeat T i) as [x|] eqn:Ex; [|discriminate].
  destruct (is_sub x && (getf F_oa x <? getf F_ob x)) eqn:E.
  - eapply IH; exact H.
  - injection H as <-. exists x. split; [exact Ex|]. unfold leaf_node. now rewrite E.
Qed.

(** the in_edge_kind word of the first leaf *)
Lemma first_node_lay : forall T t i p, lay T t i p ->
  exists x, nth_error T (first_idx t i p) = Some x /\ getf F_in_edge x = t_in_edge (first_data t).
Proof.
  intros T t. induction t as [d | d c IH | d cs IH] using tree_ind2; intros i p HL.
  - destruct HL as [(x & Hx & Hok) _]. exists x. split; [exact Hx|]. destruct Hok as (_ & (_ & Hi & _) & _). exact Hi.
  - apply lay_Create_inv in HL. destruct HL as [(x & Hx & Hok) _]. exists x. split; [exact Hx|].
    destruct Hok as (_ & (_ & Hi & _) & _). exact Hi.
  - apply lay_Sub_inv in HL. destruct HL as [(x & Hx & Hok) HLL]. destruct cs as [|c r].
    + exists x. split; [exact Hx|]. destruct Hok as (_ & (_ & Hi & _) & _). exact Hi.
    + cbn [first_idx first_data]. inversion IH as [|c' r' IHc _]; subst. apply IHc. exact (proj1 HLL).
Qed.

(** * specification of the edges, as (source, destination) index pairs *)
Definition uv := (nat * nat)%type.

Fixpoint create_spec (l : list tree) (i q tgt : nat) : list uv :=
  match l with
  | [] => []
  | y :: r =>
      (match y with
       | Create _ c => [(i, first_idx c q (S q)); (last_idx c q (S q), tgt)]
       | _ => []
       end) ++ create_spec r (S i) (q + desc y)%nat tgt
  end.

(** the create edges of a section x whose children block is at q *)
Definition sec_creates (x : tree) (q tgt : nat) : list uv :=
  match x with
  | Sub d cs => if t_kind d =? K_section then create_spec cs q (q + length cs)%nat tgt else []
  | _ => []
  end.

Fixpoint pairs_spec (l : list tree) (i q : nat) : list uv :=
  match l with
  | x :: ((x' :: _) as r) =>
      let tgt := first_idx x' (S i) (q + desc x)%nat in
      (last_idx x i q, tgt) :: sec_creates x q tgt ++ pairs_spec r (S i) (q + desc x)%nat
  | _ => []
  end.

Definition node_spec (t : tree) (p : nat) : list uv :=
  match t with Sub _ cs => pairs_spec cs p (p + length cs)%nat | _ => [] end.

Definition euv (e : edge) : Z * Z := (eu e, ev e).
Definition zuv (a : uv) : Z * Z := (Z.of_nat (fst a), Z.of_nat (snd a)).

Lemma lay_Create_child : forall T d c i q, lay T (Create d c) i q -> lay T c q (S q).
Proof. intros T d c i q H. exact (proj2 H). Qed.

Lemma create_edges_lay : forall T fuel tgt l i q,
  lay_list (lay T) l i q -> (forall c, In c l -> (size c <= fuel)%nat) ->
  exists E, opt_concat_map (create_edges fuel T (Z.of_nat tgt)) (zrange (Z.of_nat i) (length l)) = Some E /\
            map euv E = map zuv (create_spec l i q tgt).
Proof.
  intros T fuel tgt l. induction l as [|y r IH]; intros i q HL Hsz.
  - exists []. cbn. split; reflexivity.
  - destruct HL as [Hy Hr]. cbn [length]. rewrite zrange_S. cbn [opt_concat_map].
    destruct (IH (S i) (q + desc y)%nat Hr) as (E & HE & HM).
    { intros c Hc. apply Hsz. now right. }
    replace (Z.of_nat i + 1) with (Z.of_nat (S i)) by lia. rewrite HE.
    pose proof (lay_node _ _ _ _ Hy) as (ny & Hny & Hok).
    unfold create_edges at 1. rewrite nodeat_nat, Hny.
    destruct y as [d | d c | d cs].
    + destruct Hok as (_ & _ & _ & Hc). rewrite Hc. exists E. cbn [app create_spec]. split; [reflexivity | exact HM].
    + destruct Hok as (Hiq & _ & Hc & _ & Ho). rewrite Hc.
      replace (Z.of_nat i + getf F_oa ny) with (Z.of_nat q) by lia.
      assert (Hsc : (size c <= fuel)%nat).
      { specialize (Hsz (Create d c) (or_introl eq_refl)). cbn [size] in Hsz. lia. }
      rewrite (first_leaf_lay T c q (S q) fuel (lay_Create_child _ _ _ _ _ Hy) Hsc).
      rewrite (last_leaf_lay T c q (S q) fuel (lay_Create_child _ _ _ _ _ Hy) Hsc).
      eexists. split; [reflexivity|].
      cbn [app create_spec map euv zuv eu ev fst snd]. rewrite HM. reflexivity.
    + destruct Hok as (_ & _ & _ & Hc & _). rewrite Hc. exists E. cbn [app create_spec]. split; [reflexivity | exact HM].
Qed.
