(** C19 — well-formedness of the flattened dag (dr_make_pi_dag) for every recorded tree. *)
From Coq Require Import ZArith List Bool Lia Arith Sorted Permutation.
From MT Require Import DagFile.FlattenModel DagFile.PruneModel DagFile.ChronoModel DagFile.DagSpec
  DagFile.TreeLemmas DagFile.LayProofs DagFile.SortProofs DagFile.EdgeProofs DagFile.OrderProofs DagFile.CountProofs.
Import ListNotations.
Local Open Scope Z_scope.

(** * array level: the endpoints of enumerated edges are leaves of the array *)
Lemma opt_concat_map_in : forall (A B : Type) (f : A -> option (list B)) l E e,
  opt_concat_map f l = Some E -> In e E -> exists a E', In a l /\ f a = Some E' /\ In e E'.
Proof.
  intros A B f l. induction l as [|a r IH]; intros E e H He.
  - injection H as <-. contradiction.
  - cbn [opt_concat_map] in H. destruct (f a) as [x|] eqn:Ea; [|discriminate].
    destruct (opt_concat_map f r) as [y|] eqn:Er; [|discriminate]. injection H as <-.
    apply in_app_or in He. destruct He as [He|He].
    + exists a, x. repeat split; [now left | exact Ea | exact He].
    + destruct (IH y e eq_refl He) as (a' & E' & H1 & H2 & H3). exists a', E'. repeat split; [now right | exact H2 | exact H3].
Qed.

Definition leaf_at (T : list node) (k : Z) : Prop := exists x, nodeat T k = Some x /\ leaf_node x = true.

Lemma create_leaf : forall x, is_create x = true -> leaf_node x = true.
Proof.
  intros x H. unfold leaf_node, is_sub. unfold is_create in H. apply Z.eqb_eq in H. rewrite H. reflexivity.
Qed.

Lemma enum_edges_endpoints : forall T E, enum_edges T = Some E ->
  forall e, In e E -> leaf_at T (eu e) /\ leaf_at T (ev e).
Proof.
  intros T E H e He. unfold enum_edges in H.
  destruct (opt_concat_map_in _ _ _ _ _ _ H He) as (i & Ei & _ & Hi & Hei). clear H He.
  unfold node_edges in Hi. destruct (nodeat T i) as [u|]; [|discriminate].
  destruct (is_sub u); [|injection Hi as <-; contradiction].
  destruct (opt_concat_map_in _ _ _ _ _ _ Hi Hei) as (x & Ex & _ & Hx & Hex). clear Hi Hei.
  unfold pair_edges in Hx.
  destruct (last_leaf (length T) T x) as [s|] eqn:Es; [|discriminate].
  destruct (first_leaf (length T) T (x + 1)) as [t|] eqn:Et; [|discriminate].
  destruct (nodeat T t) as [nt|]; [|discriminate]. destruct (nodeat T x) as [nx|]; [|discriminate].
  destruct (cont_kind (getf F_in_edge nt)) as [k|]; [|discriminate].
  pose proof (last_leaf_leaf _ _ _ _ Es) as Ls. pose proof (first_leaf_leaf _ _ _ _ Et) as Lt.
  assert (Hmain : e = mk_edge k s t -> leaf_at T (eu e) /\ leaf_at T (ev e)).
  { intros ->. cbn [eu ev]. split; assumption. }
  destruct (getf F_kind nx =? K_section).
  - destruct (opt_concat_map (create_edges (length T) T t) _) as [l|] eqn:El; [|discriminate].
    injection Hx as <-. destruct Hex as [<-|Hex]; [now apply Hmain|].
    destruct (opt_concat_map_in _ _ _ _ _ _ El Hex) as (y & Ey & _ & Hy & Hey).
    unfold create_edges in Hy. destruct (nodeat T y) as [ny|] eqn:Eny; [|discriminate].
    destruct (is_create ny) eqn:Ec; [|injection Hy as <-; contradiction].
    destruct (first_leaf (length T) T (y + getf F_oa ny)) as [z|] eqn:Ez; [|discriminate].
    destruct (last_leaf (length T) T (y + getf F_oa ny)) as [w|] eqn:Ew; [|discriminate].
    injection Hy as <-. destruct Hey as [<-|[<-|[]]]; cbn [eu ev]; split.
    + exists ny. split; [exact Eny | now apply create_leaf].
    + eapply first_leaf_leaf; exact Ez.
    + eapply last_leaf_leaf; exact Ew.
    + exact Lt.
  - injection Hx as <-. destruct Hex as [<-|[]]. now apply Hmain.
Qed.

Lemma leaf_at_range : forall T k, leaf_at T k -> 0 <= k < Z.of_nat (length T).
Proof.
  intros T k (x & Hx & _). unfold nodeat in Hx. destruct (k <? 0) eqn:E; [discriminate|].
  apply Z.ltb_ge in E. assert (Hlt : (Z.to_nat k < length T)%nat) by (apply nth_error_Some; congruence). lia.
Qed.

(** * the nodes have 58 words *)
Definition N_node : nat := 58%nat.

Lemma mk_node_length : forall sc e, length (fst (fst (mk_node sc e))) = N_node.
Proof.
  intros sc e. unfold mk_node. destruct (offsets e) as [a b]. cbn [fst].
  rewrite app_length, copy_info_length. reflexivity.
Qed.

Lemma intern_all_lengths : forall l tbl,
  Forall (fun x => length (fst (fst x)) = N_node) l -> Forall (fun y => length y = N_node) (fst (intern_all l tbl)).
Proof.
  induction l as [|[[x fs] fe] r IH]; intros tbl H; [constructor|].
  inversion H as [|x' r' Hx Hr]; subst. cbn [intern_all].
  destruct (st_intern tbl fs) as [tbl1 i_s]. destruct (st_intern tbl1 fe) as [tbl2 i_e].
  specialize (IH tbl2 Hr). destruct (intern_all r tbl2) as [xs tbl3]. cbn [fst] in *.
  constructor; [|exact IH]. now rewrite !setf_length.
Qed.

Lemma enum_nodes_lengths : forall sc t, Forall (fun y => length y = N_node) (fst (enum_nodes sc t)).
Proof.
  intros sc t. unfold enum_nodes. apply intern_all_lengths. apply Forall_forall. intros x Hx.
  apply in_map_iff in Hx. destruct Hx as (e & <- & _). apply mk_node_length.
Qed.

Lemma enum_nodes_length : forall sc t, length (fst (enum_nodes sc t)) = size t.
Proof.
  intros sc t. unfold enum_nodes.
  pose proof (intern_all_shape (map (mk_node sc) (entries t)) []) as H.
  apply Forall2_length_eq in H. now rewrite H, map_length, entries_length.
Qed.

(** * the edge ranges written into the nodes *)
Local Opaque setf.

Lemma set_ptrs_nth : forall T ps i x, length ps = length T -> Forall (fun y => length y = N_node) T ->
  nth_error (set_ptrs T ps) i = Some x ->
  exists x0 b e, nth_error T i = Some x0 /\ nth_error ps i = Some (b, e) /\
                 getf F_eb x = b /\ getf F_ee x = e /\ shape x = shape x0.
Proof.
  unfold set_ptrs. induction T as [|y T IH]; intros [|[b e] ps] i x Hl HF Hx; try discriminate.
  - destruct i; discriminate.
  - inversion HF as [|y' T' Hy HT]; subst. cbn [combine map fst snd] in Hx. destruct i as [|i].
    + injection Hx as <-. exists y, b, e. split; [reflexivity|]. split; [reflexivity|]. split; [|split].
      * rewrite getf_setf_eq; [reflexivity|]. rewrite setf_length, Hy. unfold F_eb, N_node. lia.
      * rewrite getf_setf_neq by (unfold F_ee, F_eb; lia). rewrite getf_setf_eq; [reflexivity|].
        rewrite Hy. unfold F_ee, N_node. lia.
      * rewrite !shape_setf by (unfold F_eb, F_ee, F_kind, F_in_edge, F_t1, F_oa, F_ob; lia). reflexivity.
    + cbn [nth_error] in *. apply IH; [cbn in Hl; lia | exact HT | exact Hx].
Qed.

Lemma set_ptrs_length : forall T ps, length ps = length T -> length (set_ptrs T ps) = length T.
Proof. intros T ps H. unfold set_ptrs. rewrite map_length, combine_length. lia. Qed.

Lemma leaf_node_shape : forall x y, shape x = shape y -> leaf_node x = leaf_node y.
Proof.
  intros x y H. unfold shape in H. injection H as Hk _ _ Ha Hb. unfold leaf_node, is_sub. now rewrite Hk, Ha, Hb.
Qed.

Lemma nth_error_map_zrange : forall (A : Type) (f : Z -> A) n i, (i < n)%nat ->
  nth_error (map f (zrange 0 n)) i = Some (f (Z.of_nat i)).
Proof.
  intros A f n i H. rewrite zrange_nat, map_map. rewrite nth_error_map.
  rewrite (nth_error_nth' _ O) by (rewrite seq_length; exact H). rewrite seq_nth by exact H. reflexivity.
Qed.

(** * entries by index *)
Lemma entry_at : forall t i, (i < size t)%nat -> exists e, nth_error (entries t) i = Some e /\ eidx e = i.
Proof.
  intros t i H. destruct (nth_error (entries t) i) as [e|] eqn:E.
  - exists e. split; [reflexivity|].
    pose proof (entries_idx t) as Hidx.
    assert (Hn : nth_error (map eidx (entries t)) i = Some (eidx e)) by (rewrite nth_error_map, E; reflexivity).
    rewrite Hidx in Hn. rewrite (nth_error_nth' _ O) in Hn by (rewrite seq_length; exact H).
    rewrite seq_nth in Hn by exact H. injection Hn as Hn. lia.
  - apply nth_error_None in E. rewrite entries_length in E. lia.
Qed.

Lemma lay_entries : forall T t, lay T t 0 1 -> forall e, In e (entries t) -> lay T (snd e) (eidx e) (eblk e).
Proof.
  intros T t HL e He. unfold entries in He. destruct He as [<-|He]; [exact HL | eapply lay_descs; eassumption].
Qed.

(** a node of the array and the subtree it stands for *)
Lemma node_entry : forall T t i x, lay T t 0 1 -> length T = size t -> nth_error T i = Some x ->
  exists e, In e (entries t) /\ eidx e = i /\ lay T (snd e) i (eblk e) /\ node_ok x (snd e) i (eblk e).
Proof.
  intros T t i x HL Hlen Hx.
  assert (Hi : (i < size t)%nat) by (rewrite <- Hlen; apply nth_error_Some; congruence).
  destruct (entry_at t i Hi) as (e & He & Hidx). apply nth_error_In in He.
  pose proof (lay_entries T t HL e He) as Hle. rewrite Hidx in Hle.
  destruct (lay_node _ _ _ _ Hle) as (x' & Hx' & Hok). rewrite Hx in Hx'. injection Hx' as <-.
  exists e. split; [exact He|]. split; [exact Hidx|]. split; [exact Hle | exact Hok].
Qed.

Lemma lay_index_lt : forall T t i p, lay T t i p -> (i < length T)%nat.
Proof. intros T t i p H. destruct (lay_node _ _ _ _ H) as (x & Hx & _). apply nth_error_Some. congruence. Qed.

Lemma offsets_ok : forall T t i x, lay T t 0 1 -> length T = size t -> nth_error T i = Some x ->
  (is_create x = true -> Z.of_nat i < Z.of_nat i + getf F_oa x < Z.of_nat (length T)) /\
  (is_sub x = true -> getf F_oa x < getf F_ob x ->
     Z.of_nat i < Z.of_nat i + getf F_oa x /\ Z.of_nat i + getf F_ob x <= Z.of_nat (length T)).
Proof.
  intros T t i x HL Hlen Hx. destruct (node_entry T t i x HL Hlen Hx) as (e & _ & _ & Hle & Hok).
  destruct e as [[i' p] s]. cbn [snd eblk fst] in *. destruct Hok as (Hip & _ & Hsh).
  destruct s as [d | d c | d cs].
  - destruct Hsh as [Hs Hc]. rewrite Hs, Hc. split; discriminate.
  - destruct Hsh as (Hc & Hs & Ho). rewrite Hs. split; [|discriminate]. intros _.
    pose proof (lay_index_lt _ _ _ _ (lay_Create_child _ _ _ _ _ Hle)). lia.
  - destruct Hsh as (Hs & Hc & Ho). rewrite Hc. split; [discriminate|]. intros _ Hlt.
    destruct cs as [|c r]; [lia|]. destruct Ho as [Ha Hb].
    apply lay_Sub_inv in Hle. destruct Hle as [_ HLL].
    destruct (nth_error (c :: r) (length r)) as [cl|] eqn:Hn;
      [|apply nth_error_None in Hn; cbn [length] in Hn; lia].
    pose proof (lay_list_nth _ _ _ _ _ _ HLL Hn) as Hlast. apply lay_index_lt in Hlast.
    cbn [length] in Hb. split; lia.
Qed.

(** * the main theorem about the flattening *)
Definition flat_ok (t : tree) (G : pidag) : Prop :=
  lay (gT G) t 0 1 /\ length (gT G) = size t /\ Forall (fun y => length y = N_node) (gT G) /\
  exists E, Permutation (gE G) E /\ map euv E = map zuv (spec_of_entries (entries t)).

Lemma in_map_euv : forall E (spec : list uv) a, map euv E = map zuv spec -> In a spec ->
  exists e, In e E /\ eu e = Z.of_nat (fst a) /\ ev e = Z.of_nat (snd a).
Proof.
  intros E spec a H Ha. assert (Hin : In (zuv a) (map euv E)) by (rewrite H; now apply in_map).
  apply in_map_iff in Hin. destruct Hin as (e & He & Hine). exists e. split; [exact Hine|].
  unfold euv, zuv in He. injection He as H1 H2. now split.
Qed.

Lemma in_map_zuv : forall E (spec : list uv) e, map euv E = map zuv spec -> In e E ->
  exists a, In a spec /\ eu e = Z.of_nat (fst a) /\ ev e = Z.of_nat (snd a).
Proof.
  intros E spec e H He. assert (Hin : In (euv e) (map zuv spec)) by (rewrite <- H; now apply in_map).
  apply in_map_iff in Hin. destruct Hin as (a & Ha & Hina). exists a. split; [exact Hina|].
  unfold euv, zuv in Ha. injection Ha as H1 H2. now split.
Qed.

Lemma leafish_of_node : forall x s i p, node_ok x s i p -> leaf_node x = true -> leafish s = true.
Proof.
  intros x s i p (Hip & _ & Hsh) Hl. destruct s as [d | d c | d cs]; try reflexivity.
  destruct cs as [|c r]; [reflexivity|]. destruct Hsh as (Hs & _ & Ha & Hb).
  unfold leaf_node in Hl. rewrite Hs in Hl. cbn [andb] in Hl. apply negb_true_iff in Hl.
  apply Z.ltb_ge in Hl. cbn [length] in Hb. lia.
Qed.

(** the facts about a dag (T, Es) with sorted edges and filled ranges that make it [dag_wf] *)
Theorem dag_wf_of_lay : forall t G E,
  wf_root t = true ->
  lay (gT G) t 0 1 -> length (gT G) = size t ->
  gn G = Z.of_nat (length (gT G)) -> gm G = Z.of_nat (length (gE G)) ->
  Permutation (gE G) E -> StronglySorted edge_le (gE G) ->
  map euv E = map zuv (spec_of_entries (entries t)) ->
  (forall e, In e E -> leaf_at (gT G) (eu e) /\ leaf_at (gT G) (ev e)) ->
  (forall i x, nth_error (gT G) i = Some x ->
     getf F_eb x = cnt_lt (gE G) (Z.of_nat i) /\ getf F_ee x = cnt_le (gE G) (Z.of_nat i)) ->
  dag_wf G.
Proof.
  intros t G E Hroot HL Hlen Hn Hm Hperm Hsorted Hspec Hends Hptrs.
  destruct (wf_root_inv t Hroot) as (Hw & d0 & cs0 & Ht & Hk0).
  assert (Hnd : NoDup (serial t 0 1)) by (apply serial_nodup; lia).
  constructor.
  - split; [exact Hn|]. rewrite Hn, Hlen. pose proof (size_pos t). lia.
  - exact Hm.
  - intros i x Hx. rewrite Hn. eapply offsets_ok; eassumption.
  - intros e He. apply (Permutation_in _ Hperm) in He. destruct (Hends e He) as [(xu & Hu1 & Hu2) (xv & Hv1 & Hv2)].
    exists xu, xv. repeat split; assumption.
  - exact Hsorted.
  - intros i x Hx. destruct (Hptrs i x Hx) as [Hb He]. rewrite Hb, He, Hm.
    pose proof (cnt_range (fun u => u <? Z.of_nat i) (gE G)) as R1.
    pose proof (cnt_range (fun u => u <=? Z.of_nat i) (gE G)) as R2.
    pose proof (cnt_lt_le (gE G) (Z.of_nat i)) as R3. unfold cnt_lt, cnt_le in *.
    split; [lia|]. split; [lia|].
    intros j e Hj. apply ranges_exact; [apply sorted_u_of; exact Hsorted | exact Hj].
  - rewrite Hm. rewrite (Permutation_length Hperm). eapply edge_count_ok; eassumption.
  - exists (Z.of_nat (first_idx t 0 1)). split; [|split].
    + change 0 with (Z.of_nat 0). apply first_leaf_lay; [exact HL | lia].
    + intros e He Hev. apply (Permutation_in _ Hperm) in He.
      destruct (in_map_zuv _ _ _ Hspec He) as (a & Ha & Hu & Hv).
      pose proof (edges_before t 0 1 ltac:(lia) a Ha) as Hb.
      apply (before_pos _ _ _ Hnd) in Hb.
      assert (Hsv : snd a = first_idx t 0 1) by lia.
      destruct (serial_first t 0 1) as (rest & Hser). rewrite Hser, Hsv, pos_head in Hb. lia.
    + intros i x Hx Hleaf Hne.
      destruct (node_entry _ _ _ _ HL Hlen Hx) as (e & Hin & Hidx & _ & Hok).
      pose proof (leafish_of_node _ _ _ _ Hok Hleaf) as Hlf.
      pose proof (serial_leaf t 0 1 e Hin Hlf) as Hser. rewrite Hidx in Hser.
      destruct (indeg_claim t 0%nat 1%nat Hw ltac:(lia) i Hser) as [H1|[(u & H2)|H3]].
      * exfalso. apply Hne. now rewrite H1.
      * destruct (in_map_euv _ _ _ Hspec H2) as (e' & He' & _ & Hv'). exists e'. split; [|exact Hv'].
        apply (Permutation_in _ (Permutation_sym Hperm)). exact He'.
      * exfalso. rewrite Ht in H3. cbn [pend] in H3.
        destruct (t_kind d0 =? K_section) eqn:E0; [apply Z.eqb_eq in E0; contradiction | contradiction].
  - exists (fun z => pos (Z.to_nat z) (serial t 0 1)). intros e He. apply (Permutation_in _ Hperm) in He.
    destruct (in_map_zuv _ _ _ Hspec He) as (a & Ha & Hu & Hv).
    rewrite Hu, Hv, !Nat2Z.id. apply before_pos; [exact Hnd|]. apply edges_before; [lia | exact Ha].
Qed.

Lemma Permutation_Forall_in : forall (A : Type) (P : A -> Prop) l l', Permutation l l' -> (forall x, In x l -> P x) -> forall x, In x l' -> P x.
Proof. intros A P l l' Hp H x Hx. apply H. eapply Permutation_in; [apply Permutation_sym; exact Hp | exact Hx]. Qed.

(** finish_pi_dag on a node array that represents a tree *)
Theorem finish_ok : forall hdr ptr sc nw T0 tbl t,
  wf_root t = true -> lay T0 t 0 1 -> length T0 = size t -> Forall (fun y => length y = N_node) T0 ->
  exists G, finish_pi_dag hdr ptr sc nw T0 tbl = Ok G /\ dag_wf G /\ flat_ok t G /\
            gsc G = sc /\ gnw G = nw /\ gS G = st_flatten hdr ptr tbl /\
            Forall2 (fun y x => shape y = shape x) (gT G) T0 /\
            exists ps, gT G = set_ptrs T0 ps /\ length ps = length T0.
Proof.
  intros hdr ptr sc nw T0 tbl t Hroot HL0 Hlen0 HN0.
  destruct (wf_root_inv t Hroot) as (Hw & _).
  destruct (enum_edges_spec T0 t HL0 Hw Hlen0) as (E & HE & Hspec).
  pose proof (edge_count_ok T0 t E HL0 Hlen0 Hroot Hspec) as Hcount.
  unfold finish_pi_dag. rewrite HE, Hcount, Z.eqb_refl.
  set (Es := sort_edges E). set (n := Z.of_nat (length T0)). set (m := Z.of_nat (length Es)).
  pose proof (sort_edges_perm E) as Hperm. fold Es in Hperm.
  pose proof (sort_edges_sorted E) as Hsorted. fold Es in Hsorted.
  pose proof (enum_edges_endpoints T0 E HE) as Hends.
  assert (Hrange : forall e, In e Es -> 0 <= eu e < n).
  { intros e He. apply (Permutation_in _ Hperm) in He. destruct (Hends e He) as [Hu _].
    apply leaf_at_range in Hu. exact Hu. }
  assert (Hn1 : 1 <= n) by (unfold n; rewrite Hlen0; pose proof (size_pos t); lia).
  pose proof (edge_ptrs_spec Es n (sorted_u_of _ Hsorted) Hn1 Hrange) as Hps. fold m in Hps.
  assert (Hpl : length (edge_ptrs n m Es) = length T0).
  { rewrite Hps, map_length, zrange_length. unfold n. lia. }
  set (T1 := set_ptrs T0 (edge_ptrs n m Es)).
  pose proof (set_ptrs_shape T0 _ Hpl) as Hsh1. fold T1 in Hsh1.
  pose proof (lay_shape T1 T0 Hsh1 t 0%nat 1%nat HL0) as HL1.
  assert (Hlen1 : length T1 = size t) by (unfold T1; rewrite set_ptrs_length by exact Hpl; exact Hlen0).
  eexists. split; [reflexivity|].
  assert (HN1 : Forall (fun y => length y = N_node) T1).
  { apply Forall_forall. intros y Hy. apply In_nth_error in Hy. destruct Hy as (i & Hi).
    destruct (set_ptrs_nth _ _ _ _ Hpl HN0 Hi) as (x0 & b & e & Hx0 & _ & _ & _ & _).
    unfold T1, set_ptrs in Hi. rewrite nth_error_map in Hi.
    destruct (nth_error (combine T0 (edge_ptrs n m Es)) i) as [[y0 pp]|] eqn:Ec; [|discriminate].
    injection Hi as <-. rewrite !setf_length. apply nth_error_In in Ec. apply in_combine_l in Ec.
    rewrite Forall_forall in HN0. now apply HN0. }
  assert (Hleaf1 : forall k, leaf_at T0 k -> leaf_at T1 k).
  { intros k (x & Hx & Hl). pose proof Hx as Hx'. unfold nodeat in Hx. destruct (k <? 0) eqn:Ek; [discriminate|].
    assert (Hlt : (Z.to_nat k < length T1)%nat).
    { rewrite Hlen1, <- Hlen0. apply nth_error_Some. congruence. }
    destruct (nth_error T1 (Z.to_nat k)) as [x1|] eqn:E1; [|apply nth_error_None in E1; lia].
    destruct (set_ptrs_nth _ _ _ _ Hpl HN0 E1) as (x0 & b & e & Hx0 & _ & _ & _ & Hs).
    assert (Heq : Some x0 = Some x) by (rewrite <- Hx0; exact Hx). injection Heq as ->.
    exists x1. split; [unfold nodeat; now rewrite Ek|]. now rewrite (leaf_node_shape _ _ Hs). }
  split; [|split].
  - apply (dag_wf_of_lay t _ E Hroot); cbn [gT gE gn gm].
    + exact HL1.
    + exact Hlen1.
    + fold T1. unfold n. now rewrite Hlen1, Hlen0.
    + reflexivity.
    + exact Hperm.
    + exact Hsorted.
    + exact Hspec.
    + intros e He. destruct (Hends e He) as [Hu Hv]. split; now apply Hleaf1.
    + intros i x Hx. destruct (set_ptrs_nth _ _ _ _ Hpl HN0 Hx) as (x0 & b & e & Hx0 & Hp & Hb & He & _).
      assert (Hi : (i < Z.to_nat n)%nat).
      { unfold n. rewrite Nat2Z.id. apply nth_error_Some. intros Hnone.
        pose proof (eq_trans (eq_sym Hnone) Hx0) as Hbad. discriminate Hbad. }
      rewrite Hps in Hp. rewrite nth_error_map_zrange in Hp by exact Hi. injection Hp as <- <-. now split.
  - unfold flat_ok. cbn [gT gE]. split; [exact HL1|]. split; [exact Hlen1|]. split; [exact HN1|].
    exists E. split; [exact Hperm | exact Hspec].
  - cbn [gsc gnw gS gT]. split; [reflexivity|]. split; [reflexivity|]. split; [reflexivity|]. split; [exact Hsh1|].
    exists (edge_ptrs n m Es). split; [reflexivity | exact Hpl].
Qed.

Theorem flatten_wf : forall hdr ptr sc nw t, wf_root t = true ->
  exists G, make_pi_dag hdr ptr sc nw t = Ok G /\ dag_wf G /\ flat_ok t G /\ gsc G = sc /\ gnw G = nw.
Proof.
  intros hdr ptr sc nw t Hroot. destruct (wf_root_inv t Hroot) as (Hw & _).
  unfold make_pi_dag. destruct (enum_nodes sc t) as [T0 tbl] eqn:En.
  pose proof (lay_enum_nodes sc t Hw) as HF0. pose proof (enum_nodes_lengths sc t) as HN0.
  rewrite En in HF0, HN0. cbn [fst] in HF0, HN0.
  assert (Hlen0 : length T0 = size t) by (rewrite (Forall2_length_eq _ _ _ _ _ HF0); apply entries_length).
  destruct (finish_ok hdr ptr sc nw T0 tbl t Hroot (lay_of_entries T0 t HF0) Hlen0 HN0)
    as (G & HG & Hwf & Hflat & Hsc & Hnw & _).
  exists G. split; [exact HG|]. split; [exact Hwf|]. split; [exact Hflat|]. split; [exact Hsc | exact Hnw].
Qed.

Corollary flatten_dag_wf : forall hdr ptr sc nw t, wf_root t = true ->
  exists G, make_pi_dag hdr ptr sc nw t = Ok G /\ dag_wf G /\ gsc G = sc /\ gnw G = nw.
Proof.
  intros hdr ptr sc nw t H. destruct (flatten_wf hdr ptr sc nw t H) as (G & H1 & H2 & _ & H3 & H4).
  exists G. auto.
Qed.
