(** C19 — the serial (depth-first) order of the leaves: every edge goes forward in it (acyclicity),
    and every leaf but the first has an incoming edge. *)
From Coq Require Import ZArith List Bool Lia Arith.
From MT Require Import DagFile.FlattenModel DagFile.DagSpec DagFile.TreeLemmas DagFile.LayProofs DagFile.EdgeProofs.
Import ListNotations.

Section SerialList.
  Variable f : tree -> nat -> nat -> list nat.
  Fixpoint serial_list (l : list tree) (i q : nat) : list nat :=
    match l with
    | [] => []
    | c :: r => f c i q ++ serial_list r (S i) (q + desc c)
    end.
End SerialList.

(** the leaves of the subtree in the order of a serial execution: a create_task interval, then the
    created task, then the continuation *)
Fixpoint serial (t : tree) (i p : nat) : list nat :=
  match t with
  | Leaf _ => [i]
  | Create _ c => i :: serial c p (S p)
  | Sub _ [] => [i]
  | Sub _ cs => serial_list (fun c i' q' => serial c i' q') cs p (p + length cs)
  end.

Notation serials := (serial_list (fun c i' q' => serial c i' q')).

Lemma serial_Sub_cons : forall d c r i p,
  serial (Sub d (c :: r)) i p = serials (c :: r) p (p + length (c :: r)).
Proof. reflexivity. Qed.

(** * index ranges *)
Definition in_range (i p n v : nat) : Prop := v = i \/ (p <= v < p + n).

Lemma serials_range : forall l,
  Forall (fun t => forall i p, i < p -> forall v, In v (serial t i p) -> in_range i p (desc t) v) l ->
  forall i q, i + length l <= q -> forall v, In v (serials l i q) ->
  (i <= v < i + length l) \/ (q <= v < q + sum_desc l).
Proof.
  intros l H. induction H as [|c r Hc _ IHr]; intros i q Hq v Hv; [contradiction|].
  cbn [serial_list] in Hv. cbn [length sum_desc fold_right] in *. fold (sum_desc r).
  apply in_app_or in Hv. destruct Hv as [Hv|Hv].
  - destruct (Hc i q ltac:(lia) v Hv) as [->|Hr]; [left; lia | right; lia].
  - destruct (IHr (S i) (q + desc c) ltac:(lia) v Hv) as [Hr|Hr]; [left; lia | right; lia].
Qed.

Lemma serial_range : forall t i p, i < p -> forall v, In v (serial t i p) -> in_range i p (desc t) v.
Proof.
  induction t as [d | d c IH | d cs IH] using tree_ind2; intros i p Hip v Hv.
  - destruct Hv as [<-|[]]. now left.
  - cbn [serial] in Hv. destruct Hv as [<-|Hv]; [now left|].
    destruct (IH p (S p) ltac:(lia) v Hv) as [->|Hr]; right; rewrite desc_Create, (size_desc c); lia.
  - destruct cs as [|c r]; [destruct Hv as [<-|[]]; now left|].
    rewrite serial_Sub_cons in Hv. rewrite desc_Sub.
    destruct (serials_range (c :: r) IH p (p + length (c :: r)) ltac:(lia) v Hv) as [Hr|Hr]; right; lia.
Qed.

(** * no duplicates *)
Lemma NoDup_app_intro : forall (A : Type) (a b : list A),
  NoDup a -> NoDup b -> (forall x, In x a -> ~ In x b) -> NoDup (a ++ b).
Proof.
  intros A a b Ha Hb Hd. induction Ha as [|x a Hx Ha IH]; [exact Hb|].
  cbn [app]. constructor.
  - intros Hin. apply in_app_or in Hin. destruct Hin as [Hin|Hin]; [contradiction|].
    apply (Hd x); [now left | exact Hin].
  - apply IH. intros y Hy. apply Hd. now right.
Qed.

Lemma serials_nodup : forall l,
  Forall (fun t => forall i p, i < p -> NoDup (serial t i p)) l ->
  forall i q, i + length l <= q -> NoDup (serials l i q).
Proof.
  intros l H. induction H as [|c r Hc Hr IHr]; intros i q Hq; [constructor|].
  cbn [serial_list]. cbn [length] in Hq. apply NoDup_app_intro.
  - apply Hc. lia.
  - apply IHr. lia.
  - intros x Hx Hx'.
    assert (HF : Forall (fun t => forall i p, i < p -> forall v, In v (serial t i p) -> in_range i p (desc t) v) r)
      by (apply Forall_forall; intros t _; apply serial_range).
    destruct (serial_range c i q ltac:(lia) x Hx) as [Hr1|Hr1];
      destruct (serials_range r HF (S i) (q + desc c) ltac:(lia) x Hx') as [Hr2|Hr2]; lia.
Qed.

Lemma serial_nodup : forall t i p, i < p -> NoDup (serial t i p).
Proof.
  induction t as [d | d c IH | d cs IH] using tree_ind2; intros i p Hip.
  - constructor; [intros [] | constructor].
  - cbn [serial]. constructor; [|apply IH; lia].
    intros Hin. destruct (serial_range c p (S p) ltac:(lia) i Hin); lia.
  - destruct cs as [|c r]; [constructor; [intros [] | constructor]|].
    rewrite serial_Sub_cons. apply serials_nodup; [exact IH | lia].
Qed.

(** * first and last leaf in the serial order *)
Lemma serial_first : forall t i p, exists rest, serial t i p = first_idx t i p :: rest.
Proof.
  induction t as [d | d c IH | d cs IH] using tree_ind2; intros i p.
  - now exists [].
  - cbn [serial first_idx]. eexists. reflexivity.
  - destruct cs as [|c r]; [now exists []|].
    rewrite serial_Sub_cons. cbn [serial_list first_idx].
    inversion IH as [|c' r' Hc _]; subst. destruct (Hc p (p + length (c :: r))) as (rest & ->).
    eexists. cbn [app]. reflexivity.
Qed.

Lemma serial_first_in : forall t i p, In (first_idx t i p) (serial t i p).
Proof. intros t i p. destruct (serial_first t i p) as (rest & ->). now left. Qed.

Lemma serials_last : forall l,
  Forall (fun t => forall i p, In (last_idx t i p) (serial t i p)) l -> l <> [] ->
  forall i q acc, In (last_go (fun c i' q' => last_idx c i' q') l i q acc) (serials l i q).
Proof.
  intros l H. induction H as [|c r Hc Hr IHr]; intros Hne i q acc; [contradiction|].
  cbn [last_go serial_list]. destruct r as [|c2 r2].
  - cbn [last_go]. apply in_or_app. left. apply Hc.
  - apply in_or_app. right. apply IHr. discriminate.
Qed.

Lemma serial_last_in : forall t i p, In (last_idx t i p) (serial t i p).
Proof.
  induction t as [d | d c IH | d cs IH] using tree_ind2; intros i p.
  - now left.
  - now left.
  - destruct cs as [|c r]; [now left|].
    rewrite serial_Sub_cons. cbn [last_idx]. apply serials_last; [exact IH | discriminate].
Qed.

(** * "u occurs before v" *)
Definition before (l : list nat) (u v : nat) : Prop :=
  exists l1 l2 l3, l = l1 ++ u :: l2 ++ v :: l3.

Lemma before_ctx : forall a m b u v, before m u v -> before (a ++ m ++ b) u v.
Proof.
  intros a m b u v (l1 & l2 & l3 & ->). exists (a ++ l1), l2, (l3 ++ b).
  rewrite <- ?app_assoc. cbn [app]. rewrite <- ?app_assoc. cbn [app]. rewrite <- ?app_assoc. reflexivity.
Qed.

Lemma before_app : forall a b u v, In u a -> In v b -> before (a ++ b) u v.
Proof.
  intros a b u v Hu Hv. apply in_split in Hu. destruct Hu as (a1 & a2 & ->).
  apply in_split in Hv. destruct Hv as (b1 & b2 & ->).
  exists a1, (a2 ++ b1), b2. rewrite <- ?app_assoc. cbn [app]. rewrite <- ?app_assoc. reflexivity.
Qed.

Lemma before_cons : forall x m u v, before m u v -> before (x :: m) u v.
Proof. intros x m u v H. apply (before_ctx [x] m [] u v) in H. now rewrite app_nil_r in H. Qed.

Lemma before_head : forall u m v, In v m -> before (u :: m) u v.
Proof. intros u m v H. apply (before_app [u] m u v); [now left | exact H]. Qed.

Lemma before_app_l : forall m b u v, before m u v -> before (m ++ b) u v.
Proof. intros m b u v H. exact (before_ctx [] m b u v H). Qed.

Lemma before_app_r : forall a m u v, before m u v -> before (a ++ m) u v.
Proof. intros a m u v H. apply (before_ctx a m [] u v) in H. now rewrite app_nil_r in H. Qed.

(** position in a list *)
Fixpoint pos (v : nat) (l : list nat) : nat :=
  match l with
  | [] => O
  | x :: r => if x =? v then O else S (pos v r)
  end.

Lemma pos_app_notin : forall v a b, ~ In v a -> pos v (a ++ b) = length a + pos v b.
Proof.
  intros v a b. induction a as [|x a IH]; intros H; [reflexivity|].
  cbn [app pos length]. destruct (x =? v) eqn:E.
  - apply Nat.eqb_eq in E. exfalso. apply H. now left.
  - rewrite IH; [lia|]. intros Hin. apply H. now right.
Qed.

Lemma pos_head : forall v r, pos v (v :: r) = O.
Proof. intros v r. cbn [pos]. now rewrite Nat.eqb_refl. Qed.

Lemma before_pos : forall l u v, NoDup l -> before l u v -> pos u l < pos v l.
Proof.
  intros l u v Hnd (l1 & l2 & l3 & ->).
  assert (Hu : ~ In u l1).
  { apply NoDup_remove_2 in Hnd. intros H. apply Hnd. apply in_or_app. now left. }
  assert (Hv1 : ~ In v l1 /\ v <> u /\ ~ In v l2).
  { replace (l1 ++ u :: l2 ++ v :: l3) with ((l1 ++ u :: l2) ++ v :: l3) in Hnd
      by (rewrite <- app_assoc; reflexivity).
    apply NoDup_remove_2 in Hnd. repeat split.
    - intros H. apply Hnd. apply in_or_app. left. apply in_or_app. now left.
    - intros ->. apply Hnd. apply in_or_app. left. apply in_or_app. right. now left.
    - intros H. apply Hnd. apply in_or_app. left. apply in_or_app. right. now right. }
  destruct Hv1 as (Hv1 & Hvu & Hv2).
  rewrite (pos_app_notin u l1) by exact Hu. rewrite pos_head.
  rewrite (pos_app_notin v l1) by exact Hv1. cbn [pos].
  destruct (u =? v) eqn:E; [apply Nat.eqb_eq in E; congruence|].
  rewrite (pos_app_notin v l2) by exact Hv2. lia.
Qed.

(** * entries of a subtree, of a run of children *)
Definition all_entries (t : tree) (i p : nat) : list entry := (i, p, t) :: descs t p.
Definition sub_entries (l : list tree) (i q : nat) : list entry := heads l i q ++ tails l q.

Lemma all_entries_Sub : forall d cs i p,
  all_entries (Sub d cs) i p = (i, p, Sub d cs) :: sub_entries cs p (p + length cs).
Proof. intros. unfold all_entries, sub_entries. now rewrite descs_Sub. Qed.

Lemma all_entries_Create : forall d c i p,
  all_entries (Create d c) i p = (i, p, Create d c) :: all_entries c p (S p).
Proof. reflexivity. Qed.

Lemma sub_entries_cons : forall x r i q e,
  In e (sub_entries (x :: r) i q) <-> In e (all_entries x i q) \/ In e (sub_entries r (S i) (q + desc x)).
Proof.
  intros x r i q e. unfold sub_entries, all_entries. cbn [heads tails].
  rewrite ?in_app_iff. cbn [In]. rewrite ?in_app_iff. tauto.
Qed.

Lemma in_spec_of_entries : forall a ents,
  In a (spec_of_entries ents) <-> exists e, In e ents /\ In a (node_spec (snd e) (eblk e)).
Proof.
  intros a ents. unfold spec_of_entries. rewrite in_concat. split.
  - intros (l & Hl & Ha). apply in_map_iff in Hl. destruct Hl as (e & <- & He). now exists e.
  - intros (e & He & Ha). exists (node_spec (snd e) (eblk e)). split; [|exact Ha].
    apply in_map_iff. now exists e.
Qed.

(** * every edge goes forward in the serial order *)
Lemma create_spec_before : forall tgt l i q a, i + length l <= q -> In a (create_spec l i q tgt) ->
  before (serials l i q) (fst a) (snd a) \/ (In (fst a) (serials l i q) /\ snd a = tgt).
Proof.
  intros tgt l. induction l as [|y r IH]; intros i q a Hq Ha; [contradiction|].
  cbn [create_spec] in Ha. cbn [serial_list]. cbn [length] in Hq. apply in_app_or in Ha. destruct Ha as [Ha|Ha].
  - destruct y as [d | d c | d cs]; try contradiction.
    cbn [serial]. destruct Ha as [<-|[<-|[]]]; cbn [fst snd].
    + left. apply before_app_l. apply before_head. apply serial_first_in.
    + right. split; [|reflexivity]. apply in_or_app. left. right. apply serial_last_in.
  - destruct (IH (S i) (q + desc y) a ltac:(lia) Ha) as [H|[H1 H2]].
    + left. now apply before_app_r.
    + right. split; [apply in_or_app; now right | exact H2].
Qed.

Lemma serials_first_in : forall x r i q, In (first_idx x i q) (serials (x :: r) i q).
Proof. intros. cbn [serial_list]. apply in_or_app. left. apply serial_first_in. Qed.

Lemma edges_before_list : forall l,
  Forall (fun t => forall i p, i < p -> forall a, In a (spec_of_entries (all_entries t i p)) ->
                   before (serial t i p) (fst a) (snd a)) l ->
  forall i q, i + length l <= q -> forall a,
    In a (pairs_spec l i q) \/ In a (spec_of_entries (sub_entries l i q)) ->
    before (serials l i q) (fst a) (snd a).
Proof.
  intros l H. induction H as [|x r Hx Hr IHr]; intros i q Hq a Ha.
  - destruct Ha as [[]|Ha]. apply in_spec_of_entries in Ha. destruct Ha as (e & [] & _).
  - cbn [serial_list]. cbn [length] in Hq. destruct Ha as [Ha|Ha].
    + destruct r as [|x' r']; [contradiction|]. rewrite pairs_spec_cons2 in Ha.
      destruct Ha as [<-|Ha].
      * cbn [fst snd]. apply before_app; [apply serial_last_in | apply serials_first_in].
      * apply in_app_or in Ha. destruct Ha as [Ha|Ha].
        -- destruct x as [d | d c | d cs]; try contradiction. cbn [sec_creates] in Ha.
           destruct (t_kind d =? K_section)%Z; [|contradiction].
           destruct cs as [|c0 r0]; [contradiction|].
           destruct (create_spec_before _ (c0 :: r0) q (q + length (c0 :: r0)) a (Nat.le_refl _) Ha) as [Hb|[Hb1 Hb2]].
           ++ apply before_app_l. rewrite serial_Sub_cons. exact Hb.
           ++ rewrite Hb2. apply before_app; [rewrite serial_Sub_cons; exact Hb1 | apply serials_first_in].
        -- apply before_app_r. apply IHr; [lia | now left].
    + apply in_spec_of_entries in Ha. destruct Ha as (e & He & Ha). apply sub_entries_cons in He.
      destruct He as [He|He].
      * apply before_app_l. apply Hx; [lia|]. apply in_spec_of_entries. now exists e.
      * apply before_app_r. apply IHr; [lia|]. right. apply in_spec_of_entries. now exists e.
Qed.

Theorem edges_before : forall t i p, i < p -> forall a, In a (spec_of_entries (all_entries t i p)) ->
  before (serial t i p) (fst a) (snd a).
Proof.
  induction t as [d | d c IH | d cs IH] using tree_ind2; intros i p Hip a Ha.
  - apply in_spec_of_entries in Ha. destruct Ha as (e & [<-|[]] & Ha). contradiction.
  - rewrite all_entries_Create in Ha. apply in_spec_of_entries in Ha. destruct Ha as (e & [<-|He] & Ha); [contradiction|].
    cbn [serial]. apply before_cons. apply IH; [lia|]. apply in_spec_of_entries. now exists e.
  - rewrite all_entries_Sub in Ha. apply in_spec_of_entries in Ha. destruct Ha as (e & He & Ha).
    destruct cs as [|c r].
    + destruct He as [<-|[]]. contradiction.
    + rewrite serial_Sub_cons. apply (edges_before_list (c :: r) IH); [lia|].
      destruct He as [<-|He]; [left; exact Ha | right; apply in_spec_of_entries; now exists e].
Qed.

(** * every leaf but the first has an incoming edge *)
Fixpoint pend_list (l : list tree) (i q : nat) : list nat :=
  match l with
  | [] => []
  | y :: r => (match y with Create _ c => [first_idx c q (S q)] | _ => [] end)
              ++ pend_list r (S i) (q + desc y)
  end.

(** first leaves of created tasks whose create edge is enumerated by the parent of [t] *)
Definition pend (t : tree) (p : nat) : list nat :=
  match t with
  | Leaf _ => []
  | Create _ c => [first_idx c p (S p)]
  | Sub d cs => if (t_kind d =? K_section)%Z then pend_list cs p (p + length cs) else []
  end.

Definition has_in (ents : list entry) (v : nat) : Prop := exists u, In (u, v) (spec_of_entries ents).

Lemma has_in_incl : forall e1 e2 v, incl e1 e2 -> has_in e1 v -> has_in e2 v.
Proof.
  intros e1 e2 v Hi (u & Hu). exists u. apply in_spec_of_entries in Hu. destruct Hu as (e & He & Ha).
  apply in_spec_of_entries. exists e. split; [now apply Hi | exact Ha].
Qed.

Lemma pend_list_create : forall tgt l i q v, In v (pend_list l i q) -> exists u, In (u, v) (create_spec l i q tgt).
Proof.
  intros tgt l. induction l as [|y r IH]; intros i q v Hv; [contradiction|].
  cbn [pend_list] in Hv. cbn [create_spec]. apply in_app_or in Hv. destruct Hv as [Hv|Hv].
  - destruct y as [d | d c | d cs]; try contradiction. destruct Hv as [<-|[]].
    exists i. apply in_or_app. left. now left.
  - destruct (IH _ _ _ Hv) as (u & Hu). exists u. apply in_or_app. now right.
Qed.

Lemma pend_list_nocreate : forall l i q, existsb is_CreateT l = false -> pend_list l i q = [].
Proof.
  induction l as [|y r IH]; intros i q H; [reflexivity|].
  cbn [existsb] in H. apply orb_false_elim in H. destruct H as [Hy Hr].
  cbn [pend_list]. rewrite IH by exact Hr. destruct y; try reflexivity. discriminate.
Qed.

Definition claim_in (t : tree) : Prop :=
  forall i p, wf_tree t = true -> i < p -> forall v, In v (serial t i p) ->
    v = first_idx t i p \/ has_in (all_entries t i p) v \/ In v (pend t p).

Lemma last_is_leaf_tail : forall x x' r, last_is_leaf (x :: x' :: r) = last_is_leaf (x' :: r).
Proof. reflexivity. Qed.

Lemma indeg_list : forall l, Forall claim_in l ->
  forall i q, all_wf l = true -> last_is_leaf l = true -> i + length l <= q ->
  forall v, In v (serials l i q) ->
    (exists x r, l = x :: r /\ v = first_idx x i q) \/
    (exists u, In (u, v) (pairs_spec l i q)) \/
    has_in (sub_entries l i q) v \/
    In v (pend_list l i q).
Proof.
  intros l H. induction H as [|x r Hx Hr IHr]; intros i q Hw Hll Hq v Hv; [contradiction|].
  cbn [serial_list] in Hv. cbn [length] in Hq.
  unfold all_wf in Hw. cbn [forallb] in Hw. apply andb_prop in Hw. destruct Hw as [Hwx Hwr].
  apply in_app_or in Hv. destruct Hv as [Hv|Hv].
  - destruct (Hx i q Hwx ltac:(lia) v Hv) as [H1|[H2|H3]].
    + left. now exists x, r.
    + right. right. left. eapply has_in_incl; [|exact H2]. intros e He. apply sub_entries_cons. now left.
    + destruct x as [d | d c | d cs].
      * contradiction.
      * right. right. right. cbn [pend] in H3. cbn [pend_list]. apply in_or_app. now left.
      * cbn [pend] in H3. destruct (t_kind d =? K_section)%Z eqn:E; [|contradiction].
        destruct r as [|x' r']; [discriminate Hll|].
        right. left. destruct (pend_list_create (first_idx x' (S i) (q + desc (Sub d cs))) _ _ _ _ H3) as (u & Hu).
        exists u. rewrite pairs_spec_cons2. right. apply in_or_app. left. cbn [sec_creates]. now rewrite E.
  - destruct r as [|x' r']; [contradiction|].
    rewrite last_is_leaf_tail in Hll.
    destruct (IHr (S i) (q + desc x) Hwr Hll ltac:(lia) v Hv) as [(x0 & r0 & Heq & H1)|[(u & H2)|[H3|H4]]].
    + injection Heq as <- <-. right. left. exists (last_idx x i q). rewrite pairs_spec_cons2. left. now rewrite H1.
    + right. left. exists u. rewrite pairs_spec_cons2. right. apply in_or_app. now right.
    + right. right. left. eapply has_in_incl; [|exact H3]. intros e He. apply sub_entries_cons. now right.
    + right. right. right. cbn [pend_list]. apply in_or_app. now right.
Qed.

Theorem indeg_claim : forall t, claim_in t.
Proof.
  induction t as [d | d c IH | d cs IH] using tree_ind2; intros i p Hw Hip v Hv.
  - destruct Hv as [<-|[]]. now left.
  - cbn [serial] in Hv. destruct Hv as [<-|Hv]; [now left|].
    pose proof (wf_tree_Create_sub _ _ Hw) as Hsub. apply wf_tree_Create in Hw. destruct Hw as (_ & Hk & Hwc).
    destruct (IH p (S p) Hwc ltac:(lia) v Hv) as [H1|[H2|H3]].
    + right. right. cbn [pend]. now left.
    + right. left. rewrite all_entries_Create. eapply has_in_incl; [|exact H2]. intros e He. now right.
    + destruct c as [dc | dc cc | dc ccs]; try discriminate Hsub. cbn [pend tdata] in H3, Hk.
      destruct (t_kind dc =? K_section)%Z eqn:E; [apply Z.eqb_eq in E; contradiction | contradiction].
  - destruct cs as [|c r]; [destruct Hv as [<-|[]]; now left|].
    rewrite serial_Sub_cons in Hv.
    apply wf_tree_Sub in Hw. destruct Hw as (_ & Hll & Hcr & _ & Hall).
    rewrite all_entries_Sub.
    destruct (indeg_list (c :: r) IH p (p + length (c :: r)) Hall Hll ltac:(lia) v Hv)
      as [(x0 & r0 & Heq & H1)|[(u & H2)|[H3|H4]]].
    + injection Heq as <- <-. left. exact H1.
    + right. left. exists u. apply in_spec_of_entries. exists (i, p, Sub d (c :: r)). split; [now left | exact H2].
    + right. left. eapply has_in_incl; [|exact H3]. intros e He. now right.
    + cbn [pend]. destruct Hcr as [E|E].
      * right. right. apply Z.eqb_eq in E. now rewrite E.
      * rewrite pend_list_nocreate in H4 by exact E. contradiction.
Qed.

(** the leaves of the array are in the serial list *)
Definition leafish (t : tree) : bool := match t with Sub _ (_ :: _) => false | _ => true end.

Lemma serial_leaf_list : forall l,
  Forall (fun t => forall i p e, In e (all_entries t i p) -> leafish (snd e) = true -> In (eidx e) (serial t i p)) l ->
  forall i q e, In e (sub_entries l i q) -> leafish (snd e) = true -> In (eidx e) (serials l i q).
Proof.
  intros l H. induction H as [|x r Hx Hr IHr]; intros i q e He Hl.
  - unfold sub_entries in He. cbn in He. contradiction.
  - apply sub_entries_cons in He. cbn [serial_list]. apply in_or_app. destruct He as [He|He].
    + left. eapply Hx; eassumption.
    + right. eapply IHr; eassumption.
Qed.

Lemma serial_leaf : forall t i p e, In e (all_entries t i p) -> leafish (snd e) = true -> In (eidx e) (serial t i p).
Proof.
  induction t as [d | d c IH | d cs IH] using tree_ind2; intros i p e He Hl.
  - destruct He as [<-|[]]. now left.
  - rewrite all_entries_Create in He. cbn [serial]. destruct He as [<-|He]; [now left|]. right. eapply IH; eassumption.
  - rewrite all_entries_Sub in He. destruct cs as [|c r].
    + destruct He as [<-|He]; [now left|]. unfold sub_entries in He. cbn in He. contradiction.
    + rewrite serial_Sub_cons. destruct He as [<-|He]; [discriminate Hl|].
      eapply serial_leaf_list; eassumption.
Qed.
