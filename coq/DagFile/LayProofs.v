(** C19 — the relation [lay T t i p]: the array T holds the tree t at index i with its children block
    at p, laid out as dr_pi_dag_enum_nodes does; and the proof that the flattening produces it. *)
From Coq Require Import ZArith List Bool Lia Arith.
From MT Require Import DagFile.FlattenModel DagFile.DagSpec DagFile.TreeLemmas.
Import ListNotations.
Local Open Scope Z_scope.

Definition data_ok (x : node) (d : tnode) : Prop :=
  getf F_kind x = t_kind d /\ getf F_in_edge x = t_in_edge d /\ getf F_t1 x = t_t1 d.

Definition node_ok (x : node) (t : tree) (i p : nat) : Prop :=
  (i < p)%nat /\ data_ok x (tdata t) /\
  match t with
  | Leaf _ => is_sub x = false /\ is_create x = false
  | Create _ _ => is_create x = true /\ is_sub x = false /\ getf F_oa x = Z.of_nat p - Z.of_nat i
  | Sub _ cs => is_sub x = true /\ is_create x = false /\
                match cs with
                | [] => getf F_ob x <= getf F_oa x
                | _ :: _ => getf F_oa x = Z.of_nat p - Z.of_nat i /\
                            getf F_ob x = Z.of_nat p - Z.of_nat i + Z.of_nat (length cs)
                end
  end.

Section LayList.
  Variable R : tree -> nat -> nat -> Prop.
  Fixpoint lay_list (l : list tree) (i q : nat) : Prop :=
    match l with
    | [] => True
    | c :: r => R c i q /\ lay_list r (S i) (q + desc c)%nat
    end.
End LayList.

Section Lay.
  Variable T : list node.
  Fixpoint lay (t : tree) (i p : nat) {struct t} : Prop :=
    (exists x, nth_error T i = Some x /\ node_ok x t i p) /\
    match t with
    | Leaf _ => True
    | Create _ c => lay c p (S p)
    | Sub _ cs => lay_list (fun c i' q' => lay c i' q') cs p (p + length cs)%nat
    end.
End Lay.

Lemma lay_node : forall T t i p, lay T t i p -> exists x, nth_error T i = Some x /\ node_ok x t i p.
Proof. intros T t i p H. destruct t; exact (proj1 H). Qed.

(** position of the j-th child *)
Lemma lay_list_nth : forall R l i q j c, lay_list R l i q -> nth_error l j = Some c ->
  R c (i + j)%nat (q + sum_desc (firstn j l))%nat.
Proof.
  intros R. induction l as [|a r IH]; intros i q j c H Hj; [destruct j; discriminate|].
  destruct H as [Ha Hr]. destruct j as [|j].
  - injection Hj as <-. cbn [firstn sum_desc fold_right]. now rewrite !Nat.add_0_r.
  - cbn [nth_error] in Hj. specialize (IH _ _ _ _ Hr Hj).
    cbn [firstn sum_desc fold_right]. fold (sum_desc (firstn j r)).
    replace (i + S j)%nat with (S i + j)%nat by lia.
    replace (q + (desc a + sum_desc (firstn j r)))%nat with (q + desc a + sum_desc (firstn j r))%nat by lia.
    exact IH.
Qed.

(** * shapes: the fields on which [node_ok] depends *)
Definition shape (x : node) : Z * Z * Z * Z * Z :=
  (getf F_kind x, getf F_in_edge x, getf F_t1 x, getf F_oa x, getf F_ob x).

Lemma node_ok_shape : forall x y t i p, shape x = shape y -> node_ok x t i p -> node_ok y t i p.
Proof.
  intros x y t i p Hs. unfold shape in Hs. injection Hs as Hk Hi Ht Ha Hb.
  unfold node_ok, data_ok, is_sub, is_create. rewrite Hk, Hi, Ht, Ha, Hb. tauto.
Qed.

Lemma shape_setf : forall k v x,
  k <> F_kind -> k <> F_in_edge -> k <> F_t1 -> k <> F_oa -> k <> F_ob -> shape (setf k v x) = shape x.
Proof.
  intros k v x H1 H2 H3 H4 H5. unfold shape.
  rewrite !getf_setf_neq by (intro E; symmetry in E; contradiction). reflexivity.
Qed.

Lemma intern_all_shape : forall l tbl,
  Forall2 (fun y x => shape y = shape (fst (fst x))) (fst (intern_all l tbl)) l.
Proof.
  induction l as [|[[x fs] fe] r IH]; intros tbl; [constructor|].
  cbn [intern_all]. destruct (st_intern tbl fs) as [tbl1 i_s]. destruct (st_intern tbl1 fe) as [tbl2 i_e].
  specialize (IH tbl2). destruct (intern_all r tbl2) as [xs tbl3]. cbn [fst] in *.
  constructor; [|exact IH].
  rewrite !shape_setf by (unfold F_start_fidx, F_end_fidx, F_kind, F_in_edge, F_t1, F_oa, F_ob; lia).
  reflexivity.
Qed.

Lemma set_ptrs_shape : forall T ps, length ps = length T ->
  Forall2 (fun y x => shape y = shape x) (set_ptrs T ps) T.
Proof.
  unfold set_ptrs. induction T as [|x T IH]; intros [|pp ps] H; try discriminate; [constructor|].
  cbn [combine map fst snd]. constructor.
  - rewrite !shape_setf by (unfold F_eb, F_ee, F_kind, F_in_edge, F_t1, F_oa, F_ob; lia). reflexivity.
  - apply IH. cbn in H. lia.
Qed.

(** * the words written by dr_copy_dag_node_1 / dr_copy_children_nodes *)
Lemma copy_info_length : forall sc d, length (copy_info sc d) = N_info.
Proof. intros. unfold copy_info. rewrite !setf_length. apply pad_info_length. Qed.

Lemma copy_info_other : forall sc d k,
  k <> F_start_file -> k <> F_end_file -> k <> F_start_t -> k <> F_end_t ->
  k <> F_first_ready -> k <> F_last_start ->
  getf k (copy_info sc d) = getf k (pad_info (ti d)).
Proof.
  intros sc d k H1 H2 H3 H4 H5 H6. unfold copy_info. cbv zeta.
  rewrite !getf_setf_neq by assumption. reflexivity.
Qed.

Lemma mk_node_shape : forall sc e,
  shape (fst (fst (mk_node sc e))) =
  (t_kind (tdata (snd e)), t_in_edge (tdata (snd e)), t_t1 (tdata (snd e)), fst (offsets e), snd (offsets e)).
Proof.
  intros sc e. unfold mk_node. destruct (offsets e) as [a b]. cbn [fst snd]. unfold shape.
  pose proof (copy_info_length sc (tdata (snd e))) as HL.
  rewrite !getf_app1 by (rewrite HL; unfold F_kind, F_in_edge, F_t1, N_info; lia).
  rewrite !getf_app2 by (rewrite HL; unfold F_oa, F_ob, N_info; lia). rewrite HL.
  rewrite !copy_info_other by (unfold F_kind, F_in_edge, F_t1, F_start_file, F_end_file, F_start_t, F_end_t,
                                F_first_ready, F_last_start; lia).
  reflexivity.
Qed.

(** tags of a well-formed tree *)
Lemma wf_tree_Leaf : forall d, wf_tree (Leaf d) = true -> t_kind d < K_section /\ t_kind d <> K_create.
Proof.
  intros d H. cbn [wf_tree] in H. apply andb_prop in H. destruct H as [H1 H2].
  apply Z.ltb_lt in H1. apply negb_true_iff in H2. apply Z.eqb_neq in H2. now split.
Qed.

Lemma wf_tree_Create : forall d c, wf_tree (Create d c) = true ->
  t_kind d = K_create /\ t_kind (tdata c) <> K_section /\ wf_tree c = true.
Proof.
  intros d c H. cbn [wf_tree] in H. apply andb_prop in H. destruct H as [H H3].
  apply andb_prop in H. destruct H as [H H2].
  apply andb_prop in H. destruct H as [H1 _].
  apply Z.eqb_eq in H1. apply negb_true_iff in H2. apply Z.eqb_neq in H2. auto.
Qed.

Lemma wf_tree_Create_sub : forall d c, wf_tree (Create d c) = true -> is_SubT c = true.
Proof.
  intros d c H. cbn [wf_tree] in H. apply andb_prop in H. destruct H as [H _].
  apply andb_prop in H. destruct H as [H _]. apply andb_prop in H. destruct H as [_ H]. exact H.
Qed.

Definition all_wf (l : list tree) : bool := forallb wf_tree l.

Lemma wf_tree_Sub : forall d cs, wf_tree (Sub d cs) = true ->
  K_section <= t_kind d /\ last_is_leaf cs = true /\
  (t_kind d = K_section \/ existsb is_CreateT cs = false) /\
  forallb cont_ok (tl cs) = true /\ all_wf cs = true.
Proof.
  intros d cs H. cbn [wf_tree] in H.
  apply andb_prop in H. destruct H as [H H5].
  apply andb_prop in H. destruct H as [H H4].
  apply andb_prop in H. destruct H as [H H3].
  apply andb_prop in H. destruct H as [H _].
  apply andb_prop in H. destruct H as [H1 H2].
  apply Z.leb_le in H1. repeat split; try assumption.
  - apply orb_prop in H3. destruct H3 as [E|E]; [left; now apply Z.eqb_eq | right; now apply negb_true_iff].
Qed.

Lemma wf_tree_Sub_in_edge : forall d c r, wf_tree (Sub d (c :: r)) = true -> t_in_edge d = t_in_edge (tdata c).
Proof.
  intros d c r H. cbn [wf_tree] in H.
  apply andb_prop in H. destruct H as [H _]. apply andb_prop in H. destruct H as [H _].
  apply andb_prop in H. destruct H as [H _]. apply andb_prop in H. destruct H as [_ H]. now apply Z.eqb_eq.
Qed.

Lemma shape_flat : forall sc i p s, wf_tree s = true -> (i < p)%nat ->
  node_ok (fst (fst (mk_node sc (i, p, s)))) s i p.
Proof.
  intros sc i p s Hwf Hip.
  pose proof (mk_node_shape sc (i, p, s)) as Hs. cbn [snd] in Hs.
  set (x := fst (fst (mk_node sc (i, p, s)))) in *.
  unfold shape in Hs. injection Hs as Hk Hi Ht Ha Hb.
  unfold node_ok, data_ok. split; [exact Hip|]. split; [now rewrite Hk, Hi, Ht|].
  unfold is_sub, is_create. rewrite Hk. unfold offsets in Ha, Hb.
  destruct s as [d | d c | d cs]; cbn [tdata fst snd] in *.
  - apply wf_tree_Leaf in Hwf. destruct Hwf as [H1 H2]. split.
    + apply Z.leb_gt. exact H1.
    + apply Z.eqb_neq. exact H2.
  - apply wf_tree_Create in Hwf. destruct Hwf as (H1 & _ & _). rewrite H1.
    repeat split. exact Ha.
  - apply wf_tree_Sub in Hwf. destruct Hwf as (H1 & _).
    split; [now apply Z.leb_le|]. split; [apply Z.eqb_neq; unfold K_section, K_create in *; lia|].
    destruct cs as [|c r]; [cbn [length] in Hb; lia | now split].
Qed.

(** * the flattening satisfies [lay] *)
Definition shape_ok (x : node) (e : entry) : Prop := node_ok x (snd e) (fst (fst e)) (snd (fst e)).

Lemma Forall2_nth_r : forall (A B : Type) (R : A -> B -> Prop) l l' k b,
  Forall2 R l l' -> nth_error l' k = Some b -> exists a, nth_error l k = Some a /\ R a b.
Proof.
  intros A B R l l' k b H. revert k. induction H as [|a b' l l' Hab _ IH]; intros k Hk; [destruct k; discriminate|].
  destruct k as [|k]; [injection Hk as <-; exists a; now split | now apply IH].
Qed.

Lemma nth_error_mid : forall (A : Type) (pre : list A) e suf, nth_error (pre ++ e :: suf) (length pre) = Some e.
Proof. intros A pre e suf. rewrite nth_error_app2, Nat.sub_diag by lia. reflexivity. Qed.

Lemma lay_of_descs : forall T ents t, Forall2 shape_ok T ents ->
  forall pre suf i p, ents = pre ++ descs t p ++ suf -> length pre = p ->
  (exists x, nth_error T i = Some x /\ node_ok x t i p) -> lay T t i p.
Proof.
  intros T ents t HF. induction t as [d | d c IH | d cs IH] using tree_ind2; intros pre suf i p He Hp Hx.
  - split; [exact Hx | exact I].
  - split; [exact Hx|].
    cbn [descs] in He.
    apply (IH (pre ++ [(p, S p, c)]) suf p (S p)).
    + rewrite He, <- app_assoc. reflexivity.
    + rewrite app_length. cbn [length]. lia.
    + assert (Hn : nth_error ents p = Some (p, S p, c)).
      { rewrite He, <- Hp. cbn [app]. apply nth_error_mid. }
      destruct (Forall2_nth_r _ _ _ _ _ _ _ HF Hn) as (x & Hx1 & Hx2). exists x. split; [exact Hx1 | exact Hx2].
  - split; [exact Hx|].
    rewrite descs_Sub in He.
    assert (G : forall l, Forall (fun t => forall pre suf i p, ents = pre ++ descs t p ++ suf -> length pre = p ->
                                   (exists x, nth_error T i = Some x /\ node_ok x t i p) -> lay T t i p) l ->
                forall pre_h mid suf' i q,
                  ents = pre_h ++ heads l i q ++ mid ++ tails l q ++ suf' ->
                  length pre_h = i -> length (pre_h ++ heads l i q ++ mid) = q ->
                  lay_list (lay T) l i q).
    { clear He Hp Hx IH pre suf i p. intros l Hl. induction Hl as [|c r Hc _ IHr]; intros pre_h mid suf' i q He Hi Hq; [exact I|].
      cbn [heads tails] in He. cbn [lay_list]. split.
      - apply (Hc (pre_h ++ ((i, q, c) :: heads r (S i) (q + desc c)) ++ mid) (tails r (q + desc c) ++ suf') i q).
        + rewrite He. rewrite <- !app_assoc. reflexivity.
        + cbn [heads] in Hq. exact Hq.
        + assert (Hn : nth_error ents i = Some (i, q, c)).
          { rewrite He, <- Hi. cbn [app]. apply nth_error_mid. }
          destruct (Forall2_nth_r _ _ _ _ _ _ _ HF Hn) as (x & Hx1 & Hx2). exists x. split; [exact Hx1 | exact Hx2].
      - apply (IHr (pre_h ++ [(i, q, c)]) (mid ++ descs c q) suf').
        + rewrite He. rewrite <- !app_assoc. cbn [app]. reflexivity.
        + rewrite app_length. cbn [length]. lia.
        + cbn [heads] in Hq. rewrite !app_length in Hq. cbn [length] in Hq.
          rewrite !app_length. cbn [length]. rewrite ?app_length, descs_length. lia. }
    apply (G cs IH pre [] suf).
    + rewrite He. rewrite <- !app_assoc. reflexivity.
    + exact Hp.
    + rewrite app_nil_r, app_length, heads_length. lia.
Qed.

(** every entry has its children block after itself, and carries a well-formed subtree *)
Definition eblk (e : entry) : nat := snd (fst e).

Lemma heads_ok : forall l i q, (i + length l <= q)%nat -> Forall (fun c => wf_tree c = true) l ->
  Forall (fun e => (eidx e < eblk e)%nat /\ wf_tree (snd e) = true) (heads l i q).
Proof.
  induction l as [|c r IH]; intros i q H Hw; [constructor|].
  inversion Hw as [|c' r' Hc Hr]; subst. cbn [heads]. constructor.
  - cbn. cbn [length] in H. split; [lia | exact Hc].
  - apply IH; [cbn [length] in H; lia | exact Hr].
Qed.

Lemma all_wf_Forall : forall l, all_wf l = true -> Forall (fun c => wf_tree c = true) l.
Proof. intros l H. apply Forall_forall. intros c Hc. unfold all_wf in H. rewrite forallb_forall in H. now apply H. Qed.

Lemma descs_ok : forall t p, wf_tree t = true ->
  Forall (fun e => (eidx e < eblk e)%nat /\ wf_tree (snd e) = true) (descs t p).
Proof.
  induction t as [d | d c IH | d cs IH] using tree_ind2; intros p Hw.
  - constructor.
  - apply wf_tree_Create in Hw. destruct Hw as (_ & _ & Hc). cbn [descs]. constructor.
    + cbn. split; [lia | exact Hc].
    + apply IH. exact Hc.
  - apply wf_tree_Sub in Hw. destruct Hw as (_ & _ & _ & _ & Hall). apply all_wf_Forall in Hall.
    rewrite descs_Sub. apply Forall_app. split.
    + apply heads_ok; [lia | exact Hall].
    + generalize (p + length cs)%nat. clear -IH Hall.
      induction IH as [|c r Hc _ IHr]; intros q; [constructor|].
      inversion Hall as [|c' r' Hwc Hwr]; subst. cbn [tails]. apply Forall_app. split; [now apply Hc | now apply IHr].
Qed.

Lemma Forall2_map_l : forall (A B : Type) (f : B -> A) (R : A -> B -> Prop) l,
  Forall (fun b => R (f b) b) l -> Forall2 R (map f l) l.
Proof. intros A B f R l H. induction H; cbn [map]; constructor; assumption. Qed.

Lemma Forall2_trans_shape : forall (T1 T2 : list node) ents,
  Forall2 (fun y x => shape y = shape x) T1 T2 -> Forall2 shape_ok T2 ents -> Forall2 shape_ok T1 ents.
Proof.
  intros T1 T2 ents H. revert ents. induction H as [|y x T1 T2 Hyx _ IH]; intros ents H2; inversion H2; subst; constructor.
  - unfold shape_ok in *. eapply node_ok_shape; [symmetry; exact Hyx | assumption].
  - now apply IH.
Qed.

Lemma Forall2_map_shape : forall (l : list (node * name * name)) T,
  Forall2 (fun y x => shape y = shape (fst (fst x))) T l -> Forall2 (fun y x => shape y = shape x) T (map (fun x => fst (fst x)) l).
Proof. intros l T H. induction H; cbn [map]; constructor; assumption. Qed.

(** the node array before the edge ranges are filled in *)
Theorem lay_enum_nodes : forall sc t, wf_tree t = true ->
  Forall2 shape_ok (fst (enum_nodes sc t)) (entries t).
Proof.
  intros sc t Hw. unfold enum_nodes.
  eapply Forall2_trans_shape.
  - apply Forall2_map_shape. apply intern_all_shape.
  - rewrite map_map. apply Forall2_map_l. unfold entries. constructor.
    + unfold shape_ok. cbn [fst snd]. apply shape_flat; [exact Hw | lia].
    + pose proof (descs_ok t 1 Hw) as H. eapply Forall_impl; [|exact H].
      intros [[i p] s] [H1 H2]. unfold shape_ok. cbn [fst snd eidx eblk] in *. now apply shape_flat.
Qed.

Theorem lay_of_entries : forall T t, Forall2 shape_ok T (entries t) -> lay T t 0 1.
Proof.
  intros T t HF. apply (lay_of_descs T (entries t) t HF [(O, 1%nat, t)] [] O 1%nat).
  - unfold entries. now rewrite app_nil_r.
  - reflexivity.
  - assert (Hn : nth_error (entries t) O = Some (O, 1%nat, t)) by reflexivity.
    destruct (Forall2_nth_r _ _ _ _ _ _ _ HF Hn) as (x & Hx1 & Hx2). exists x. split; [exact Hx1 | exact Hx2].
Qed.

Lemma Forall2_length_eq : forall (A B : Type) (R : A -> B -> Prop) l l', Forall2 R l l' -> length l = length l'.
Proof. intros A B R l l' H. induction H; cbn [length]; [reflexivity | now rewrite IHForall2]. Qed.

(** [lay] only looks at the shapes of the nodes *)
Lemma lay_list_impl : forall (R R' : tree -> nat -> nat -> Prop) l,
  Forall (fun c => forall i q, R c i q -> R' c i q) l -> forall i q, lay_list R l i q -> lay_list R' l i q.
Proof.
  intros R R' l H. induction H as [|c r Hc _ IHr]; intros i q HL; [exact I|].
  destruct HL as [H1 H2]. split; [now apply Hc | now apply IHr].
Qed.

Lemma lay_shape : forall T1 T0, Forall2 (fun y x => shape y = shape x) T1 T0 ->
  forall t i p, lay T0 t i p -> lay T1 t i p.
Proof.
  intros T1 T0 HF. induction t as [d | d c IH | d cs IH] using tree_ind2; intros i p HL.
  - destruct HL as [(x & Hx & Hok) _]. split; [|exact I].
    destruct (Forall2_nth_r _ _ _ _ _ _ _ HF Hx) as (y & Hy & Hs). exists y. split; [exact Hy|].
    eapply node_ok_shape; [symmetry; exact Hs | exact Hok].
  - destruct HL as [(x & Hx & Hok) HLc]. split; [|now apply IH].
    destruct (Forall2_nth_r _ _ _ _ _ _ _ HF Hx) as (y & Hy & Hs). exists y. split; [exact Hy|].
    eapply node_ok_shape; [symmetry; exact Hs | exact Hok].
  - destruct HL as [(x & Hx & Hok) HLL]. split.
    + destruct (Forall2_nth_r _ _ _ _ _ _ _ HF Hx) as (y & Hy & Hs). exists y. split; [exact Hy|].
      eapply node_ok_shape; [symmetry; exact Hs | exact Hok].
    + eapply lay_list_impl; [|exact HLL]. exact IH.
Qed.
