(** C19 — model of the dag file: dr_pi_dag_dump (src/profiler/dr_dump.c) and dr_read_dag
    (src/profiler/read_dag.c).

    The file is a list of bytes.  The byte layout of the three structs (dr_pi_dag_node,
    dr_pi_dag_edge, dr_pi_string_table) is a [layout] value that the check REGENERATES from the
    current headers on every run (sizeof / offsetof / signedness of every scalar field, in the
    canonical field order of FlattenModel.v); [layout_wf] is the decidable condition under which the
    codec is proved to round-trip (fields in increasing, non-overlapping byte ranges inside the
    struct, little endian, sizes 1..8).  Bytes between fields (padding) are written as 0 and ignored
    by the reader.  The two pointer words of the string table header (I, C) are written as given
    ([jI], [jC]: whatever addresses the writer's heap had) and ignored by the reader, which re-derives
    them from the position of the header (S->I = &S[1], S->C = &S->I[S->n]). *)
From Coq Require Import ZArith List Bool.
From MT Require Import DagFile.FlattenModel.
Import ListNotations.
Local Open Scope Z_scope.

Record fdesc := mk_fdesc { f_off : Z; f_size : Z; f_signed : bool }.
Record sdesc := mk_sdesc { s_size : Z; s_fields : list fdesc }.
Record layout := mk_layout {
  l_le : bool;                 (* little endian *)
  l_long : Z;                  (* sizeof(long) *)
  l_ptr : Z;                   (* sizeof(void * ) *)
  l_top : list Z;              (* sizeof of G->n, G->m, G->start_clock, G->num_workers *)
  l_node : sdesc;
  l_edge : sdesc;
  l_strtab : sdesc;
  l_hdr : list Z }.            (* DAG_RECORDER_HEADER, DAG_RECORDER_HEADER_LEN bytes *)

(** * scalars *)
Fixpoint enc_le (n : nat) (v : Z) : list Z :=
  match n with O => [] | S k => v mod 256 :: enc_le k (v / 256) end.
Fixpoint dec_le (l : list Z) : Z :=
  match l with [] => 0 | b :: r => b + 256 * dec_le r end.
Definition dec_field (sg : bool) (l : list Z) : Z :=
  let u := dec_le l in
  let w := 256 ^ Z.of_nat (length l) in
  if sg && (w <=? 2 * u) then u - w else u.

(** * structs: fields are written in increasing offset order *)
Fixpoint wr_fields (fs : list fdesc) (pos : Z) (vals : list Z) : list Z * Z :=
  match fs with
  | [] => ([], pos)
  | f :: r =>
      let v := match vals with [] => 0 | v :: _ => v end in
      let '(rest, pos') := wr_fields r (f_off f + f_size f) (tl vals) in
      (repeat 0 (Z.to_nat (f_off f - pos)) ++ enc_le (Z.to_nat (f_size f)) v ++ rest, pos')
  end.
Definition write_struct (d : sdesc) (vals : list Z) : list Z :=
  let '(bs, pos) := wr_fields (s_fields d) 0 vals in
  bs ++ repeat 0 (Z.to_nat (s_size d - pos)).

Definition take (n : Z) (l : list Z) : option (list Z * list Z) :=
  if (n <? 0) || (Z.of_nat (length l) <? n) then None
  else Some (firstn (Z.to_nat n) l, skipn (Z.to_nat n) l).

Fixpoint rd_fields (fs : list fdesc) (pos : Z) (bs : list Z) : option (list Z * Z * list Z) :=
  match fs with
  | [] => Some ([], pos, bs)
  | f :: r =>
      match take (f_off f - pos) bs with
      | None => None
      | Some (_, bs1) =>
          match take (f_size f) bs1 with
          | None => None
          | Some (fb, bs2) =>
              match rd_fields r (f_off f + f_size f) bs2 with
              | None => None
              | Some (vs, pos', bs3) => Some (dec_field (f_signed f) fb :: vs, pos', bs3)
              end
          end
      end
  end.
Definition read_struct (d : sdesc) (bs : list Z) : option (list Z * list Z) :=
  match rd_fields (s_fields d) 0 bs with
  | None => None
  | Some (vs, pos, bs1) =>
      match take (s_size d - pos) bs1 with
      | None => None
      | Some (_, bs2) => Some (vs, bs2)
      end
  end.

Fixpoint read_structs (d : sdesc) (n : nat) (bs : list Z) : option (list (list Z) * list Z) :=
  match n with
  | O => Some ([], bs)
  | S k => match read_struct d bs with
           | None => None
           | Some (v, bs1) => match read_structs d k bs1 with
                              | None => None
                              | Some (vs, bs2) => Some (v :: vs, bs2)
                              end
           end
  end.

(** consecutive scalars of the given sizes (the four header words; the index array I) *)
Definition scalars (sizes : list Z) : sdesc :=
  mk_sdesc (fold_right Z.add 0 sizes)
           ((fix go (l : list Z) (off : Z) : list fdesc :=
               match l with [] => [] | s :: r => mk_fdesc off s true :: go r (off + s) end) sizes 0).

Definition edge_vals (e : edge) : list Z := [ek e; eu e; ev e].
Definition edge_of (l : list Z) : edge := mk_edge (nth 0 l 0) (nth 1 l 0) (nth 2 l 0).

(** * dr_pi_dag_dump *)
Definition write_dag (L : layout) (jI jC : Z) (G : pidag) : list Z :=
  l_hdr L
  ++ write_struct (scalars (l_top L)) [gn G; gm G; gsc G; gnw G]
  ++ concat (map (write_struct (l_node L)) (gT G))
  ++ concat (map (fun e => write_struct (l_edge L) (edge_vals e)) (gE G))
  ++ write_struct (l_strtab L) [sn (gS G); ssz (gS G); jI; jC]
  ++ write_struct (scalars (repeat (l_long L) (length (sI (gS G))))) (sI (gS G))
  ++ sC (gS G).

(** * dr_read_dag.  [None]: short file or wrong header (the C reader does not check the file size
    against the counts; reading past the mapping is undefined there) *)
Fixpoint bytes_eqb (a b : list Z) : bool :=
  match a, b with
  | [], [] => true
  | x :: a', y :: b' => (x =? y) && bytes_eqb a' b'
  | _, _ => false
  end.

Definition read_dag (L : layout) (bs : list Z) : option pidag :=
  match take (Z.of_nat (length (l_hdr L))) bs with
  | None => None
  | Some (h, bs0) =>
      if negb (bytes_eqb h (l_hdr L)) then None else
      match read_struct (scalars (l_top L)) bs0 with
      | Some ([n; m; sc; nw], bs1) =>
          match read_structs (l_node L) (Z.to_nat n) bs1 with
          | None => None
          | Some (T, bs2) =>
              match read_structs (l_edge L) (Z.to_nat m) bs2 with
              | None => None
              | Some (E, bs3) =>
                  match read_struct (l_strtab L) bs3 with
                  | Some ([s_n; s_sz; _; _], bs4) =>
                      match read_struct (scalars (repeat (l_long L) (Z.to_nat s_n))) bs4 with
                      | None => None
                      | Some (Ix, bs5) =>
                          Some (mk_pidag n m sc nw T (map edge_of E) (mk_strtab s_n s_sz Ix bs5))
                      end
                  | _ => None
                  end
              end
          end
      | _ => None
      end
  end.

(** * decidable well-formedness of a regenerated layout *)
Fixpoint fields_ok (fs : list fdesc) (pos : Z) : bool :=
  match fs with
  | [] => true
  | f :: r => (pos <=? f_off f) && (1 <=? f_size f) && (f_size f <=? 8) && fields_ok r (f_off f + f_size f)
  end.
Fixpoint fields_end (fs : list fdesc) (pos : Z) : Z :=
  match fs with [] => pos | f :: r => fields_end r (f_off f + f_size f) end.
Definition sdesc_ok (d : sdesc) (nf : nat) : bool :=
  fields_ok (s_fields d) 0 && (fields_end (s_fields d) 0 <=? s_size d) && (length (s_fields d) =? nf)%nat.
Definition layout_wf (L : layout) : bool :=
  l_le L && (1 <=? l_long L) && (l_long L <=? 8) && (1 <=? l_ptr L) && (l_ptr L <=? 8)
  && (length (l_top L) =? 4)%nat && forallb (fun s => (1 <=? s) && (s <=? 8)) (l_top L)
  && sdesc_ok (l_node L) 58 && sdesc_ok (l_edge L) 3 && sdesc_ok (l_strtab L) 4.
