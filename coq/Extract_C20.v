From Coq Require Import ExtrOcamlBasic.
From MT Require Import Time.TimeModel.
Extraction Language OCaml.
Separate Extraction ts_add ts_gt nanosleep usleep sleep timedlock timedjoin clk_of att_of
  timed nanosleep_ev timed_ev ETIMEDOUT EBUSY nanosleep_mem.
