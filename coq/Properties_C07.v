(** C07 — join counter: waiters released exactly when the N-th decrement happens.
    Statements only; every proof is [exact] of a lemma of JoinCounter/Jc{Proofs,Inv,Theorems}.v.
    Model: JoinCounter/JcModel.v (calc_bits and the init fields in explicit 64-bit arithmetic;
    Abs(join counter) with one step per MYTH_VERIF_POINT).

    Reading guide.  [jc_reachable s]: s is reachable from [init_state N nthreads] for some
    [representable N nthreads] by ANY sequence of enabled steps of ANY threads (every N in the
    range of calc_bits, every number of threads whose count fits above the low field, every
    schedule, every program).  [low s] / [high s] = the two fields of the packed word.  Ghost
    counters: [gD] successful dec CASes, [gU] wakemany.push steps, [gC] Dec calls, [gF] the
    thread whose dec CAS was the N-th; [nreg] threads whose registration CAS succeeded,
    [npend] registered threads whose enqueue callback is still pending, [fheld] the private
    list of the final decrementer. *)
From Coq Require Import ZArith List Bool.
From MT Require Import Lib.Interleave JoinCounter.JcModel JoinCounter.JcProofs JoinCounter.JcInv
  JoinCounter.JcTheorems.
Import ListNotations.
Local Open Scope Z_scope.

(* ------------------------------------------------------------------------------------ *)
(** * calc_bits and the init fields *)

(** inside the representable range the loop terminates with the width of x *)
Theorem C07_calc_bits_spec : forall x, 0 <= x < 2 ^ 62 ->
  exists b, calc_bits x = Some b /\ 0 <= b <= 62 /\ x < 2 ^ b /\ (x > 0 -> 2 ^ (b - 1) <= x).
Proof. exact calc_bits_spec. Qed.
Print Assumptions C07_calc_bits_spec.

(** outside it (x >= 2^62) [1L << b] overflows before the loop condition fails: the real
    loop does not terminate, the model says [None] *)
Theorem C07_calc_bits_out_of_range : forall x, 2 ^ 62 <= x -> calc_bits x = None.
Proof. exact calc_bits_out_of_range. Qed.
Print Assumptions C07_calc_bits_out_of_range.

Theorem C07_init_fields : forall n, 0 <= n < 2 ^ 62 ->
  exists b, calc_bits n = Some b /\ 0 <= b <= 62 /\ n < 2 ^ b /\ (n > 0 -> 2 ^ (b - 1) <= n) /\
            jc_init n = Some {| f_n := n; f_bits := b; f_mask := 2 ^ b - 1; f_state := 0 |}.
Proof. exact jc_init_spec. Qed.
Print Assumptions C07_init_fields.

Example C07_calc_bits_values :
  map calc_bits [0; 1; 2; 3; 4; 7; 8; 2 ^ 40; 2 ^ 62 - 1; 2 ^ 62; -3] =
  [Some 0; Some 1; Some 2; Some 2; Some 3; Some 3; Some 4; Some 41; Some 62; None; Some 0].
Proof. vm_compute. reflexivity. Qed.

(* ------------------------------------------------------------------------------------ *)
(** * field independence of the packed word *)

(** registration leaves the decrement field alone (any word) *)
Theorem C07_reg_keeps_low : forall s b, 0 <= b ->
  Z.land (s + 2 ^ b) (2 ^ b - 1) = Z.land s (2 ^ b - 1).
Proof. exact reg_keeps_low. Qed.
Print Assumptions C07_reg_keeps_low.

Theorem C07_reg_adds_one_waiter : forall s b, 0 <= b -> Z.shiftr (s + 2 ^ b) b = Z.shiftr s b + 1.
Proof. exact reg_high. Qed.
Print Assumptions C07_reg_adds_one_waiter.

(** a decrement adds one to the low field while it is below N <= mask (the assertion in
    myth_join_counter_dec_body) and leaves the waiter field alone *)
Theorem C07_dec_low : forall s b n, 0 <= b -> n < 2 ^ b -> Z.land s (2 ^ b - 1) < n ->
  Z.land (s + 1) (2 ^ b - 1) = Z.land s (2 ^ b - 1) + 1.
Proof. exact dec_low. Qed.
Print Assumptions C07_dec_low.

Theorem C07_dec_keeps_high : forall s b n, 0 <= b -> n < 2 ^ b -> Z.land s (2 ^ b - 1) < n ->
  Z.shiftr (s + 1) b = Z.shiftr s b.
Proof. exact dec_keeps_high. Qed.
Print Assumptions C07_dec_keeps_high.

(** no carry into the sign bit: the 64-bit addition of the registration is the mathematical
    one as long as the new waiter count is representable in the 63 - b bits above the low field *)
Theorem C07_reg_no_carry : forall W d b, 0 <= b <= 62 -> 0 <= W -> W + 1 < 2 ^ (63 - b) -> 0 <= d < 2 ^ b ->
  add64 (W * 2 ^ b + d) (shl1 b) = (W + 1) * 2 ^ b + d.
Proof. exact reg_no_carry. Qed.
Print Assumptions C07_reg_no_carry.

(** the guard as written in DESIGN.md (waiters < 2^(62-b)) is a special case *)
Theorem C07_reg_no_carry_62 : forall W d b, 0 <= b <= 62 -> 0 <= W < 2 ^ (62 - b) -> 0 <= d < 2 ^ b ->
  add64 (W * 2 ^ b + d) (shl1 b) = (W + 1) * 2 ^ b + d.
Proof. exact reg_no_carry_62. Qed.
Print Assumptions C07_reg_no_carry_62.

Theorem C07_dec_no_carry : forall W d b n, 0 <= b <= 62 -> 0 <= W < 2 ^ (63 - b) -> n < 2 ^ b -> 0 <= d < n ->
  add64 (W * 2 ^ b + d) 1 = W * 2 ^ b + (d + 1).
Proof. exact dec_no_carry. Qed.
Print Assumptions C07_dec_no_carry.

(* ------------------------------------------------------------------------------------ *)
(** * the invariant (DESIGN.md B.5) holds in every reachable state *)

(** low field = number of successful dec CASes <= N; waiter field = number of registered
    threads = enqueue-pending + in the queue + collected by the final decrementer + already
    pushed; once low = N no registration CAS can succeed (it compares the whole word) *)
Theorem C07_inv_reachable : forall s, jc_reachable s ->
  low s = gD s /\ 0 <= gD s <= jn s /\
  high s = nreg s /\
  nreg s = npend s + lenz (sq s) + lenz (fheld s) + gU s /\
  0 <= npend s /\ 0 <= gU s /\
  (forall t th s0, get_thread s t = Some th -> main th = WCas s0 -> low s = jn s -> word s <> s0).
Proof. exact inv_summary. Qed.
Print Assumptions C07_inv_reachable.

(** the full inductive invariant, for reference *)
Theorem C07_inv_full : forall s, jc_reachable s -> Inv s.
Proof. exact inv_reachable. Qed.
Print Assumptions C07_inv_full.

(* ------------------------------------------------------------------------------------ *)
(** * no waiter is released early *)

(** a Wait that has returned (is about to return) returns 0 and N decrements have happened *)
Theorem C07_no_early_release : forall s t th r, jc_reachable s ->
  get_thread s t = Some th -> main th = Done Wait r ->
  r = 0 /\ low s = jn s /\ gD s = jn s.
Proof. exact wait_done_after_n. Qed.
Print Assumptions C07_no_early_release.

(** a suspended thread becomes runnable again only by a wakemany.push step, and only when
    the low field already equals N (i.e. after the N-th decrement's CAS) *)
Theorem C07_no_early_wake : forall s a s' x th th', jc_reachable s -> step s a = Some s' ->
  get_thread s x = Some th -> main th = Susp ->
  get_thread s' x = Some th' -> main th' <> Susp ->
  low s = jn s /\ gD s = jn s /\ main th' = WRead /\
  exists t tht n i r, a = (t, ETick) /\ get_thread s t = Some tht /\ main tht = KPush n i (x :: r).
Proof. exact wake_only_by_final. Qed.
Print Assumptions C07_no_early_wake.

(** whoever executes wakemany.deq / wakemany.push is the N-th decrementer after its CAS *)
Theorem C07_waker_is_final : forall s t th, jc_reachable s ->
  get_thread s t = Some th -> waker (main th) = true ->
  low s = jn s /\ gD s = jn s /\ gF s = Some t.
Proof. exact waker_after_n. Qed.
Print Assumptions C07_waker_is_final.

(** the assertion after myth_block_on_queue in the wait loop *)
Theorem C07_woken_sees_n : forall s t th, jc_reachable s ->
  get_thread s t = Some th -> reg th = true -> main th <> Susp -> low s = jn s.
Proof. exact woken_sees_n. Qed.
Print Assumptions C07_woken_sees_n.

(* ------------------------------------------------------------------------------------ *)
(** * every waiter is released *)

(** after the N-th decrementer has left the wake-up loops every registered thread has been
    pushed: empty queue, no pending enqueue, nobody suspended *)
Theorem C07_all_released : forall s, jc_reachable s -> low s = jn s ->
  (forall t th, get_thread s t = Some th -> waker (main th) = false) ->
  sq s = [] /\ gU s = nreg s /\
  forall t th, get_thread s t = Some th -> suspended th = false /\ cb th = CbNone.
Proof. exact all_released. Qed.
Print Assumptions C07_all_released.

(** the wake-up loop cannot get stuck at a push *)
Theorem C07_push_enabled : forall s t th n i rest, jc_reachable s ->
  get_thread s t = Some th -> main th = KPush n i rest ->
  exists s', tick s t = Some s' /\ gU s' = gU s + 1.
Proof. exact push_enabled. Qed.
Print Assumptions C07_push_enabled.

(** a state in which nothing can move (no callback step enabled, every enabled main step is
    the spin on the empty queue) and low = N has no sleeper *)
Theorem C07_quiescent_no_sleeper : forall s, jc_reachable s -> low s = jn s -> quiescent s ->
  sq s = [] /\ forall t th, get_thread s t = Some th -> suspended th = false /\ cb th = CbNone.
Proof. exact quiescent_no_sleeper. Qed.
Print Assumptions C07_quiescent_no_sleeper.

(* ------------------------------------------------------------------------------------ *)
(** * a wait issued after the N-th decrement returns immediately *)

Theorem C07_low_n_stable : forall s a s', jc_reachable s -> low s = jn s -> step s a = Some s' ->
  low s' = jn s'.
Proof. exact low_n_stable. Qed.
Print Assumptions C07_low_n_stable.

(** whatever the other threads do between the call and the caller's first step, that step
    returns 0 without registering and without touching the word or the queue *)
Theorem C07_late_wait_immediate : forall s t s1 sched, jc_reachable s -> low s = jn s ->
  call s t Wait = Some s1 -> (forall a, In a sched -> fst a <> t) ->
  let s2 := run step sched s1 in
  exists th s3, get_thread s2 t = Some th /\ main th = WRead /\
    tick s2 t = Some s3 /\ get_thread s3 t = Some (set_main th (Done Wait 0)) /\
    word s3 = word s2 /\ sq s3 = sq s2 /\ cb th = CbNone.
Proof. exact late_wait_immediate. Qed.
Print Assumptions C07_late_wait_immediate.

(* ------------------------------------------------------------------------------------ *)
(** * programs with at most N decrements never reach the exit(1) branch *)

Theorem C07_excess_unreachable : forall s, jc_reachable s -> gC s <= jn s ->
  forall t, in_excess s t = false.
Proof. exact excess_unreachable. Qed.
Print Assumptions C07_excess_unreachable.

(* ------------------------------------------------------------------------------------ *)
(** * non-vacuity: concrete schedules (N = 2, four threads), checked by vm_compute *)

Example C07_ex_representable : representable 2 4 = true /\ representable (2 ^ 62 - 1) 1 = true /\
  representable (2 ^ 62 - 1) 2 = false /\ representable (2 ^ 62) 0 = false /\ representable (-1) 1 = false.
Proof. vm_compute. repeat split; reflexivity. Qed.

(** every step of the race schedule is enabled; at the end everybody has returned, the queue
    is empty, word = (1 << 2) | 2: exactly one of the two waiters ever registered *)
Example C07_ex_race_final :
  view (go 2 4 sched_race) = Some (6, [], [Idle; Idle; Idle; Idle]).
Proof. vm_compute. reflexivity. Qed.

(** the race itself: after 13 steps t3 has performed the final decrement (word = 6) while t1
    still holds the stale word 5 for its registration CAS; the CAS fails (step 14), t1 reads
    again and returns without sleeping *)
Example C07_ex_race_middle :
  view (go 2 4 (firstn 13 sched_race)) = Some (6, [0%nat], [Susp; WCas 5; Idle; KDeq 1 0 []]) /\
  view (go 2 4 (firstn 14 sched_race)) = Some (6, [0%nat], [Susp; WRead; Idle; KDeq 1 0 []]) /\
  view (go 2 4 (firstn 15 sched_race)) = Some (6, [0%nat], [Susp; Done Wait 0; Idle; KDeq 1 0 []]).
Proof. vm_compute. repeat split; reflexivity. Qed.

(** the spin: the final decrementer finds the queue empty while t0's enqueue is pending *)
Example C07_ex_spin :
  view (go 2 4 (firstn 11 sched_spin)) = Some (6, [], [Susp; Idle; Idle; KDeq 1 0 []]) /\
  view (go 2 4 (firstn 12 sched_spin)) = Some (6, [], [Susp; Idle; Idle; KDeq 1 0 []]) /\
  view (go 2 4 (firstn 13 sched_spin)) = Some (6, [0%nat], [Susp; Idle; Idle; KDeq 1 0 []]) /\
  view (go 2 4 sched_spin) = Some (6, [], [Idle; Idle; Idle; Idle]).
Proof. vm_compute. repeat split; reflexivity. Qed.

(** the hypotheses of C07_all_released / C07_quiescent_no_sleeper / C07_excess_unreachable hold in
    the final state of the race schedule, those of C07_no_early_release after step 15 *)
Example C07_ex_hypotheses : exists s s15,
  go 2 4 sched_race = Some s /\ jc_reachable s /\ low s = jn s /\
  (forall t th, get_thread s t = Some th -> waker (main th) = false) /\
  quiescent s /\ gC s <= jn s /\
  go 2 4 (firstn 15 sched_race) = Some s15 /\ jc_reachable s15 /\
  (exists th, get_thread s15 1%nat = Some th /\ main th = Done Wait 0) /\
  (exists th, get_thread s15 3%nat = Some th /\ waker (main th) = true).
Proof.
  destruct (go 2 4 sched_race) as [s|] eqn:E; [|vm_compute in E; discriminate].
  destruct (go 2 4 (firstn 15 sched_race)) as [s15|] eqn:E15; [|vm_compute in E15; discriminate].
  exists s, s15.
  pose proof (go_reachable 2 4 sched_race s eq_refl E) as Hr.
  pose proof (go_reachable 2 4 (firstn 15 sched_race) s15 eq_refl E15) as Hr15.
  vm_compute in E. injection E as E. subst s.
  vm_compute in E15. injection E15 as E15. subst s15.
  split; [reflexivity|]. split; [exact Hr|]. split; [reflexivity|].
  split.
  { intros t th Hg. destruct t as [|[|[|[|t]]]]; try (inversion Hg; subst th; reflexivity).
    destruct t; discriminate Hg. }
  split.
  { intros t. destruct t as [|[|[|[|t]]]]; try (split; [reflexivity | left; reflexivity]).
    split; [destruct t; reflexivity | left; destruct t; reflexivity]. }
  split; [vm_compute; discriminate|].
  split; [reflexivity|]. split; [exact Hr15|].
  split; eexists; split; reflexivity.
Qed.

(** a late wait: after the race schedule t1 calls Wait again and returns at its first read *)
Example C07_ex_late_wait :
  view (go 2 4 (sched_race ++ [xW 1; xT 1]%nat)) = Some (6, [], [Idle; Done Wait 0; Idle; Idle]).
Proof. vm_compute. reflexivity. Qed.

(** the budget hypothesis of C07_excess_unreachable is needed: a third Dec call takes the
    exit(1) branch *)
Example C07_ex_excess_needs_budget : exists s,
  go 2 4 (sched_race ++ [xD 2; xT 2]%nat) = Some s /\ in_excess s 2%nat = true /\ gC s = 3.
Proof. eexists. split; [vm_compute; reflexivity|]. split; reflexivity. Qed.

(** N = 0: a wait returns at once, a decrement is excess at once *)
Example C07_ex_n0 :
  view (go 0 2 [xW 0; xT 0; xD 1; xT 1]%nat) = Some (0, [], [Done Wait 0; Excess]).
Proof. vm_compute. reflexivity. Qed.
