From Coq Require Import ExtrOcamlBasic.
From Coq Require Import ZArith.
From MT Require Import Tls.TlsTreeModel Tls.TlsKeysModel Tls.TlsKeysLockModel Tls.TlsSysModel.
Extraction Language OCaml.
Separate Extraction Z.div_eucl Z.add Z.mul Z.opp consts cfg_plain cfg_tagged empty set get nodes kinit seq_op cycle_n step init label_val chain_list lstep linit llabel_val sys_step sys_init.
