(** C17 - bulk fork-join helpers equal the sequential loop.
    Statements only; every proof is [exact] of a lemma of Bulk/*Proofs.v. *)
From Coq Require Import ZArith List Bool Permutation.
From MT Require Import Bulk.RangeLib Bulk.VariousModel Bulk.VariousProofs
  Bulk.TaskGroupModel Bulk.TaskGroupProofs Bulk.ParForModel Bulk.ParForProofs.
Import ListNotations.
Local Open Scope Z_scope.

(** * myth_create_join_various_ex

    For every configuration [g] (any base addresses, 0 = NULL for ids / attrs /
    results; any strides, 0 and strides larger than the element included) and
    every n >= 0, with fuel at least 1 + log2 n the recursion terminates with
    an action list [l] such that ([various_ok]):
    - the leaf applications, in program order, are exactly the sequential loop
      [seq_loop g n] = for i in [0,n): (i, funcs + i*fs, args + i*as, result
      slot or none, id slot or none) - hence a permutation of it in any
      interleaving, each index exactly once;
    - the slots written are exactly those of the sequential loop (none when
      results and ids are NULL);
    - creations and joins are well bracketed and balanced, each join by the
      creator ([fj [] l = Some []]): nothing is outstanding at return;
    - there are n - 1 creations, the one for [a,c) uses the attribute slot of item a;
    - every leaf is run by the caller or by a created thread whose range
      contains it, and only the last item is run by the caller. *)
Theorem C17_various : forall g n fuel, 0 <= n -> n <= 2 ^ (Z.of_nat fuel - 1) ->
  exists l, various fuel g n = Done l /\
    leaves l = seq_loop g n /\
    writes l = seq_writes g n /\
    fj [] l = Some [] /\
    length (creates l) = Z.to_nat (n - 1) /\
    Forall (create_ok g 0 n) (creates l) /\
    Forall (leaf_thread_ok None 0 n (creates l)) (leaf_threads l) /\
    Forall (last_in_caller None n) (leaf_threads l).
Proof. exact various_spec. Qed.
Print Assumptions C17_various.

(** fuel 64 is enough for every non-negative [long] *)
Theorem C17_various_terminates : forall g n, 0 <= n < 2 ^ 63 ->
  exists l, various 64 g n = Done l /\ various_ok g n l.
Proof. exact various_fuel_64. Qed.
Print Assumptions C17_various_terminates.

Theorem C17_various_zero : forall fuel g, various fuel g 0 = Done [].
Proof. exact various_zero. Qed.
Print Assumptions C17_various_zero.

Theorem C17_various_each_once : forall g n l, leaves l = seq_loop g n ->
  forall i, count_occ Z.eq_dec (map l_i (leaves l)) i = if (0 <=? i) && (i <? n) then 1%nat else 0%nat.
Proof. exact various_each_once. Qed.
Print Assumptions C17_various_each_once.

Theorem C17_various_any_schedule : forall g n l, leaves l = seq_loop g n ->
  forall sched, Permutation sched (leaves l) -> Permutation sched (seq_loop g n).
Proof. exact various_permutation. Qed.
Print Assumptions C17_various_any_schedule.

Theorem C17_various_null_no_writes : forall g n, results g = 0 -> ids g = 0 -> seq_writes g n = [].
Proof. exact various_null_no_writes. Qed.
Print Assumptions C17_various_null_no_writes.

(** outside the contract: a negative count never reaches the base case [b - a == 1] *)
Theorem C17_various_negative_diverges : forall fuel g n, n < 0 -> various fuel g n = OutOfFuel.
Proof. exact various_negative_diverges. Qed.
Print Assumptions C17_various_negative_diverges.

(** * myth_create_join_many_ex = various with function stride 0 *)
Theorem C17_many : forall ids_ attrs_ fslot args_ results_ ids_s attrs_s args_s results_s n fuel,
  0 <= n -> n <= 2 ^ (Z.of_nat fuel - 1) ->
  let g := mkcfg ids_ attrs_ fslot args_ results_ ids_s attrs_s 0 args_s results_s in
  exists l, many fuel ids_ attrs_ fslot args_ results_ ids_s attrs_s args_s results_s n = Done l /\
            various_ok g n l /\ Forall (fun x => l_func x = fslot) (leaves l).
Proof. exact many_spec. Qed.
Print Assumptions C17_many.

(** * mtbb::task_group

    One cycle from a fresh or reset group: any number of [run]s (sizes of the
    task objects arbitrary, also larger than a chunk; more tasks than the inline
    capacity [cap] of a list node), then [wait]: the tasks are numbered
    n0 .. n0+k-1, [wait] joins exactly these, once each, in order, and leaves
    the initial lists; the task list never stores past a node's array; the
    regions the allocator handed out lie inside their chunks and are pairwise disjoint. *)
Theorem C17_task_group : forall cap csz sizes n0,
  1 <= cap -> 0 <= csz -> Forall (fun s => 0 <= s) sizes ->
  let st := mktg tl_init (mem_init csz) n0 in
  let ids := seq n0 (length sizes) in
  exists st1 evs1,
    exec cap csz (map Run sizes) st = Some (st1, evs1) /\
    map abs evs1 = map AC ids /\
    tl_order (tasks st1) = ids /\
    tl_wf cap (tasks st1) /\
    mem_inv (tmem st1) (rev (regions evs1)) /\
    wait csz st1 = (mktg tl_init (mem_init csz) (n0 + length sizes), map EJoin ids ++ [EWaited]).
Proof. exact tg_cycle. Qed.
Print Assumptions C17_task_group.

(** any program of [run]s and [wait]s: the asserts of the allocator never fire
    and in the event trace every created task is joined exactly once, by the
    next [wait], and nothing else is joined *)
Theorem C17_task_group_trace : forall cap csz ops,
  1 <= cap -> exists st evs, exec cap csz ops (tg_init csz) = Some (st, evs) /\
    joined_ok (map abs evs) [] /\ tl_wf cap (tasks st).
Proof. exact tg_trace_ok. Qed.
Print Assumptions C17_task_group_trace.

Theorem C17_task_group_alloc : forall csz s m rs m' ch off, 0 <= s -> mem_inv m rs ->
  alloc csz s m = Some (m', (ch, off)) -> mem_inv m' ((ch, off, s) :: rs).
Proof. exact alloc_inv. Qed.
Print Assumptions C17_task_group_alloc.

(** * mtbb::parallel_for

    [Index] = signed [bits]-bit integer; [pf3_guard] = first, last, step and the
    intermediate values of [(last - first + step - 1) / step] are representable
    and step >= 1.  Then with fuel >= bits the recursion terminates and the
    body is called exactly with first + i*step for i in [0,n) in order, where
    i < n <-> first + i*step < last: once for every index of the range, never
    for an empty or reversed range; all values passed lie in [first, last). *)
Theorem C17_parallel_for : forall bits f first last step, 1 <= bits -> bits - 1 <= Z.of_nat f ->
  pf3_guard bits first last step = true ->
  exists calls, pf3 (S f) first last step = PDone calls /\
    let n := count3 first last step in
    calls = map (at_index first step) (zrange 0 n) /\
    (forall i, 0 <= i -> (i < n <-> first + i * step < last)) /\
    (last <= first -> calls = []) /\
    Forall (fun v => first <= v < last) calls /\
    NoDup calls.
Proof. exact pf3_guarded. Qed.
Print Assumptions C17_parallel_for.

(** the two-argument form: exactly the integers of [first, last) *)
Theorem C17_parallel_for_unit_step : forall bits f first last, 1 <= bits -> bits - 1 <= Z.of_nat f ->
  pf2_guard bits first last = true -> pf2 (S f) first last = PDone (zrange first last).
Proof. exact pf2_guarded. Qed.
Print Assumptions C17_parallel_for_unit_step.

(** the code before commit 9a6e214: an empty range exhausts every amount of fuel *)
Theorem C17_parfor_empty_prefix_refuted : forall fuel first a step,
  pf_aux_prefix fuel first a a step = POutOfFuel.
Proof. exact pf_aux_prefix_empty. Qed.
Print Assumptions C17_parfor_empty_prefix_refuted.

Theorem C17_parfor_reversed_prefix_refuted : forall fuel first a b step, b <= a ->
  pf_aux_prefix fuel first a b step = POutOfFuel.
Proof. exact pf_aux_prefix_nonpos_diverges. Qed.
Print Assumptions C17_parfor_reversed_prefix_refuted.

Theorem C17_parfor_prefix_agrees_nonempty : forall fuel first a b step, a < b ->
  pf_aux_prefix fuel first a b step = pf_aux fuel first a b step.
Proof. exact pf_aux_prefix_agrees. Qed.
Print Assumptions C17_parfor_prefix_agrees_nonempty.

(** grain-size variant after commit fa6ed3f, ALL grain sizes (zero and negative
    included; only representability is assumed): every leaf has at most
    max(grain, 1) indices and is passed as (first + a*step, first + b*step);
    for a non-empty range the leaves form a chain 0 = a_0 < b_0 = a_1 < ... = n,
    i.e. they partition [0, n); an empty or reversed range is passed on to the
    body as one range *)
Theorem C17_parallel_for_grain : forall bits f first last step grain, 1 <= bits -> bits - 1 <= Z.of_nat f ->
  pg_guard bits first last step grain = true ->
  exists l, pf_grain (S f) first last step grain = GDone l /\
    let n := count3 first last step in
    Forall (fun x => let '((a, b), (lo, hi)) := x in
                     b - a <= Z.max grain 1 /\ lo = first + a * step /\ hi = first + b * step) l /\
    (0 < n -> chain 0 n (map fst l) /\
              flat_map (fun p => zrange (fst p) (snd p)) (map fst l) = zrange 0 n) /\
    (n <= 0 -> map fst l = [(0, n)]).
Proof. exact pf_grain_guarded. Qed.
Print Assumptions C17_parallel_for_grain.

(** the code before commit fa6ed3f: a grain size below 1 makes a one-element
    range split forever, for every amount of fuel *)
Theorem C17_parfor_grain0_prefix_refuted : forall fuel first a step grain, grain <= 0 ->
  pg_aux_prefix fuel first a (a + 1) step grain = GOutOfFuel.
Proof. exact pg_aux_prefix_grain0_diverges. Qed.
Print Assumptions C17_parfor_grain0_prefix_refuted.

Theorem C17_parfor_grain_prefix_agrees : forall fuel first a b step grain, 1 <= grain ->
  pg_aux_prefix fuel first a b step grain = pg_aux fuel first a b step grain.
Proof. exact pg_aux_prefix_agrees. Qed.
Print Assumptions C17_parfor_grain_prefix_agrees.

(** range-based form over a blocked_range-like range *)
Theorem C17_parallel_for_range : forall bits f a b grain, 1 <= bits -> bits - 1 <= Z.of_nat f ->
  pr_guard bits a b grain = true ->
  exists l, pr_aux (S f) a b grain = RDone l /\
    Forall (fun p => snd p - fst p <= grain) l /\
    (a < b -> chain a b l /\ flat_map (fun p => zrange (fst p) (snd p)) l = zrange a b) /\
    (b <= a -> l = []).
Proof. exact pr_guarded. Qed.
Print Assumptions C17_parallel_for_range.

(** * non-vacuity *)
Example C17_various_example :
  let g := mkcfg 1000 0 2000 3000 4000 8 0 0 24 16 in
  exists l, various 4 g 5 = Done l /\
    map l_i (leaves l) = [0; 1; 2; 3; 4] /\
    writes l = [4000; 1000; 4016; 1008; 4032; 1016; 4048; 1024; 4064; 1032] /\
    creates l = [(0, 2, None); (0, 1, None); (2, 3, None); (3, 4, None)].
Proof. vm_compute. eexists. repeat split. Qed.

Example C17_various_fuel_example : 5 <= 2 ^ (Z.of_nat 4 - 1).
Proof. vm_compute. discriminate. Qed.

Example C17_task_group_example :
  exists st evs, exec 8 256 (map Run [40; 40; 300; 100; 100; 40; 40; 40; 40; 40]) (tg_init 256) = Some (st, evs) /\
    regions evs = [(0%nat, 0, 40); (0%nat, 40, 40); (1%nat, 0, 300); (2%nat, 0, 100); (2%nat, 100, 100);
                   (2%nat, 200, 40); (3%nat, 0, 40); (3%nat, 40, 40); (3%nat, 80, 40); (3%nat, 120, 40)] /\
    tl_shape (tasks st) = [8; 2] /\
    snd (wait 256 st) = map EJoin (seq 0 10) ++ [EWaited].
Proof. vm_compute. do 2 eexists. repeat split. Qed.

Example C17_parallel_for_example :
  pf3_guard 32 (-3) 10 4 = true /\ pf3 33 (-3) 10 4 = PDone [-3; 1; 5; 9] /\
  pf3_guard 32 5 5 1 = true /\ pf3 33 5 5 1 = PDone [] /\
  pf3 33 7 2 3 = PDone [] /\
  pf3_guard 32 (-2) 2147483647 1 = false /\
  pf3_guard 32 2147483640 2147483645 3 = true.
Proof. vm_compute. repeat split. Qed.

Example C17_parallel_for_grain_example :
  pg_guard 32 0 10 1 3 = true /\
  pf_grain 33 0 10 1 3 = GDone [((0, 2), (0, 2)); ((2, 5), (2, 5)); ((5, 7), (5, 7)); ((7, 10), (7, 10))] /\
  pg_guard 32 0 3 1 0 = true /\ pg_guard 32 0 3 1 (-3) = true /\
  pf_grain 33 0 3 1 0 = GDone [((0, 1), (0, 1)); ((1, 2), (1, 2)); ((2, 3), (2, 3))] /\
  pf_grain 33 0 3 1 (-3) = GDone [((0, 1), (0, 1)); ((1, 2), (1, 2)); ((2, 3), (2, 3))] /\
  pr_aux 33 0 10 3 = RDone [(0, 2); (2, 5); (5, 7); (7, 10)].
Proof. vm_compute. repeat split. Qed.
