(** C20 — model of the deadline arithmetic and polling loops.

    Source: src/myth_sched_func.h  myth_timespec_add / myth_timespec_gt /
    myth_timedjoin_body / myth_nanosleep_body / myth_usleep_body /
    myth_sleep_body; src/myth_sync_func.h myth_mutex_timedlock_body.

    [struct timespec] is a pair (tv_sec, tv_nsec) of C [long]s.  C's [/] and
    [%] on longs truncate toward zero: [Z.quot] / [Z.rem].  Signed overflow is
    undefined behaviour in C, so no wrap is modelled; the theorems carry the
    guard under which no overflow occurs and the correspondence inputs stay
    inside it.  The clock is an oracle [clk : nat -> ts] (k-th reading made by
    the call); the outcome of the k-th trylock / tryjoin attempt is an oracle
    [att : nat -> bool].  Loops run on explicit fuel; [OutOfFuel] is a
    distinguished outcome that the theorems exclude explicitly. *)
From Coq Require Import ZArith List Bool.
Import ListNotations.
Local Open Scope Z_scope.

Definition ts := (Z * Z)%type.
Definition NS : Z := 1000000000.
Definition EINVAL : Z := 22.
Definition EBUSY : Z := 16.
Definition ETIMEDOUT : Z := 110.

Definition ts_add (a b : ts) : ts :=
  let ns := snd a + snd b in
  (fst a + fst b + Z.quot ns NS, Z.rem ns NS).

Definition ts_gt (a b : ts) : bool :=
  if fst a >? fst b then true
  else if fst a =? fst b then snd a >? snd b
  else false.

(** outcome of a polling call: return code, number of clock readings made,
    number of yields performed *)
Inductive outcome := Ret (code : Z) (reads yields : nat) | OutOfFuel.

Section Loops.
  Variable clk : nat -> ts.

  (** the [while (1) { hr_gettime(cur); if (gt(cur, unt)) break; yield(); }] loop;
      [k] = index of the next clock reading, [y] = yields so far *)
  Fixpoint sleep_loop (fuel k : nat) (unt : ts) (y : nat) : outcome :=
    match fuel with
    | O => OutOfFuel
    | S f => if ts_gt (clk k) unt then Ret 0 (S k) y
             else sleep_loop f (S k) unt (S y)
    end.

  Definition nanosleep (fuel : nat) (req : ts) : outcome :=
    if fst req <? 0 then Ret EINVAL 0 0
    else if snd req <? 0 then Ret EINVAL 0 0
    else if snd req >? 999999999 then Ret EINVAL 0 0
    else sleep_loop fuel 1 (ts_add (clk 0) req) 0.

  (** [useconds_t] and [unsigned int] are 32-bit unsigned: the caller passes
      [0 <= usec < 2^32]; the assignments go into [long] fields. *)
  Definition usleep_req (usec : Z) : ts := (usec / 1000000, (usec mod 1000000) * 1000).
  Definition sleep_req (s : Z) : ts := (s, 0).
  Definition usleep fuel usec := nanosleep fuel (usleep_req usec).
  Definition sleep fuel s := nanosleep fuel (sleep_req s).

  Variable att : nat -> bool.

  (** [if (try() == 0) return 0; while (1) { gettime; if (gt(now, abs)) return TO;
       if (try() == 0) return 0; yield; }]
      [k] = index of next clock reading, [i] = index of next attempt *)
  Fixpoint timed_loop (tocode : Z) (fuel k i : nat) (abst : ts) (y : nat) : outcome :=
    match fuel with
    | O => OutOfFuel
    | S f => if ts_gt (clk k) abst then Ret tocode (S k) y
             else if att i then Ret 0 (S k) y
             else timed_loop tocode f (S k) (S i) abst (S y)
    end.

  Definition timed (tocode : Z) (fuel : nat) (abst : ts) : outcome :=
    if att 0 then Ret 0 0 0 else timed_loop tocode fuel 0 1 abst 0.

  Definition timedlock := timed ETIMEDOUT.
  Definition timedjoin := timed EBUSY.
End Loops.

(** [myth_nanosleep_body(req, rem)] with its two pointer arguments.  The current code reads [*req] (tv_sec, tv_nsec for
    the three EINVAL tests, then the whole object in [myth_timespec_add]) and never stores through [rem]
    ([(void)rem;]: a user-level thread is not interrupted in its sleep, no remaining time is ever reported).  Memory is
    a map from object identities to timespecs; [preq] is the request object, [prem] is NULL ([None]), another object,
    or [preq] itself (the idiom [nanosleep(&ts, &ts)]).  Result: the outcome and the memory after the call. *)
Definition nanosleep_mem (clk : nat -> ts) (fuel : nat) (m : nat -> ts) (preq : nat) (prem : option nat)
  : outcome * (nat -> ts) :=
  (nanosleep clk fuel (m preq), m).

(** list-driven front ends used by the correspondence driver: the clock and
    the attempt oracle are finite scripts; past their end the last clock value
    repeats and attempts fail. *)
Definition clk_of (l : list ts) (k : nat) : ts := nth k l (last l (0, 0)).
Definition att_of (l : list bool) (i : nat) : bool := nth i l false.

(** ** the same loops, returning the sequence of externally visible actions

    Library tier (controlled runs of the real library, tools/props/c20.py [lib_tier]): every clock
    reading, every lock / join attempt and every yield of a call is an event of the trace.  The
    functions below are the transliteration of the three loops once more, returning next to the
    outcome the list of these actions in program order; [TimeLib.v] proves that the outcome is the
    one of [nanosleep] / [timed] and that the list has the shape the code dictates. *)
Inductive pev := PRead (k : nat) | PAttempt (i : nat) | PYield.

Section LoopsEv.
  Variable clk : nat -> ts.

  (** [hr_gettime(cur); add; while (1) { hr_gettime(cur); if (gt) break; myth_yield_body(); } return 0;] *)
  Fixpoint sleep_loop_ev (fuel k : nat) (unt : ts) (y : nat) : outcome * list pev :=
    match fuel with
    | O => (OutOfFuel, [])
    | S f => if ts_gt (clk k) unt then (Ret 0 (S k) y, [PRead k])
             else let (o, l) := sleep_loop_ev f (S k) unt (S y) in (o, PRead k :: PYield :: l)
    end.

  Definition nanosleep_ev (fuel : nat) (req : ts) : outcome * list pev :=
    if fst req <? 0 then (Ret EINVAL 0 0, [])
    else if snd req <? 0 then (Ret EINVAL 0 0, [])
    else if snd req >? 999999999 then (Ret EINVAL 0 0, [])
    else let (o, l) := sleep_loop_ev fuel 1 (ts_add (clk 0) req) 0 in (o, PRead 0 :: l).

  Variable att : nat -> bool.

  (** [if (try() == 0) return 0; while (1) { gettime; if (gt) return TO; if (try() == 0) return 0; yield; }] *)
  Fixpoint timed_loop_ev (tocode : Z) (fuel k i : nat) (abst : ts) (y : nat) : outcome * list pev :=
    match fuel with
    | O => (OutOfFuel, [])
    | S f => if ts_gt (clk k) abst then (Ret tocode (S k) y, [PRead k])
             else if att i then (Ret 0 (S k) y, [PRead k; PAttempt i])
             else let (o, l) := timed_loop_ev tocode f (S k) (S i) abst (S y) in
                  (o, PRead k :: PAttempt i :: PYield :: l)
    end.

  Definition timed_ev (tocode : Z) (fuel : nat) (abst : ts) : outcome * list pev :=
    if att 0 then (Ret 0 0 0, [PAttempt 0])
    else let (o, l) := timed_loop_ev tocode fuel 0 1 abst 0 in (o, PAttempt 0 :: l).
End LoopsEv.
