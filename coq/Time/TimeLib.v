(** C20, library tier: the polling loops as sequences of visible actions, their composition with an
    arbitrary environment, and what one polling iteration does to the scheduler-level machine.

    [TimeModel.nanosleep_ev] / [timed_ev] return, next to the outcome, the clock readings, attempts
    and yields of the call in program order (what a controlled run of the real library logs as
    [clock.read], [mutex.try.*] / [tryjoin.check] and [yield.enter] lines).  Here:
    - the outcome component is the one of [nanosleep] / [timed]   ([nanosleep_ev_outcome], [timed_ev_outcome]);
    - the action list has the shape the code dictates               ([nanosleep_ev_shape], [timed_ev_shape]);
    - every yield of a sleep lies between two consecutive readings  ([nanosleep_yield_between]);
    - the result depends only on the readings / attempt outcomes that were observed
      ([nanosleep_observed_only], [timed_observed_only]);
    - composition with ANY environment that acts between a clock reading and the following attempt
      ([env_timed_is_timed], [every_script_is_an_environment]);
    - one polling iteration on the machine of coq/Machine: the yield hands the worker to the newest entry of the
      run queue and puts the poller at the base ([poll_iteration_gives_way], [poll_iteration_gives_way_steal]). *)
From Coq Require Import ZArith List Bool Lia Arith.
From MT Require Import Time.TimeModel Time.TimeProofs.
From MT Require Import Machine.MachineModel Machine.MachineProofs Machine.MachineMore.
Import ListNotations.
Local Open Scope Z_scope.

(* ------------------------------------------------------------------ outcome component *)
Lemma sleep_loop_ev_outcome clk fuel : forall k unt y,
  fst (sleep_loop_ev clk fuel k unt y) = sleep_loop clk fuel k unt y.
Proof.
  induction fuel as [|f IH]; intros k unt y; cbn [sleep_loop_ev sleep_loop]; [reflexivity|].
  destruct (ts_gt (clk k) unt); [reflexivity|].
  specialize (IH (S k) unt (S y)).
  destruct (sleep_loop_ev clk f (S k) unt (S y)) as [o l]. exact IH.
Qed.

Lemma nanosleep_ev_outcome clk fuel req : fst (nanosleep_ev clk fuel req) = nanosleep clk fuel req.
Proof.
  unfold nanosleep_ev, nanosleep.
  destruct (fst req <? 0); [reflexivity|].
  destruct (snd req <? 0); [reflexivity|].
  destruct (snd req >? 999999999); [reflexivity|].
  pose proof (sleep_loop_ev_outcome clk fuel 1 (ts_add (clk 0%nat) req) 0) as H.
  destruct (sleep_loop_ev clk fuel 1 (ts_add (clk 0%nat) req) 0) as [o l]. exact H.
Qed.

Lemma timed_loop_ev_outcome clk att tocode fuel : forall k i abst y,
  fst (timed_loop_ev clk att tocode fuel k i abst y) = timed_loop clk att tocode fuel k i abst y.
Proof.
  induction fuel as [|f IH]; intros k i abst y; cbn [timed_loop_ev timed_loop]; [reflexivity|].
  destruct (ts_gt (clk k) abst); [reflexivity|].
  destruct (att i); [reflexivity|].
  specialize (IH (S k) (S i) abst (S y)).
  destruct (timed_loop_ev clk att tocode f (S k) (S i) abst (S y)) as [o l]. exact IH.
Qed.

Lemma timed_ev_outcome clk att tocode fuel abst :
  fst (timed_ev clk att tocode fuel abst) = timed clk att tocode fuel abst.
Proof.
  unfold timed_ev, timed. destruct (att 0%nat); [reflexivity|].
  pose proof (timed_loop_ev_outcome clk att tocode fuel 0 1 abst 0) as H.
  destruct (timed_loop_ev clk att tocode fuel 0 1 abst 0) as [o l]. exact H.
Qed.

(* ------------------------------------------------------------------ the rem argument *)
(** The request is taken by value and nothing is stored through [rem]: whichever of the three choices the caller makes
    for [rem] - NULL, a separate object, the request object itself - the outcome (return value, readings, yields) is
    [nanosleep] of the request as it was at the call, and every object, [*rem] and [*req] included, holds afterwards
    what it held before. *)
Lemma nanosleep_rem_irrelevant clk fuel m preq prem :
  fst (nanosleep_mem clk fuel m preq prem) = nanosleep clk fuel (m preq) /\
  (forall prem', fst (nanosleep_mem clk fuel m preq prem') = fst (nanosleep_mem clk fuel m preq prem)) /\
  (forall l, snd (nanosleep_mem clk fuel m preq prem) l = m l).
Proof. repeat split; reflexivity. Qed.

(* ------------------------------------------------------------------ shape of the action list *)
Definition is_yield (e : pev) : bool := match e with PYield => true | _ => false end.
Definition n_yields (l : list pev) : nat := length (filter is_yield l).

(** [n] polling iterations of a sleep starting with reading [a]:  read a; yield; read a+1; yield; ... *)
Definition sleep_polls (a n : nat) : list pev := flat_map (fun k => [PRead k; PYield]) (seq a n).
(** a completed sleep that made [r] readings:  read 0; (read k; yield) for k = 1 .. r-2; read r-1 *)
Definition sleep_shape (r : nat) : list pev := PRead 0 :: sleep_polls 1 (r - 2) ++ [PRead (r - 1)].

(** [n] failed polling iterations of a timed lock / join starting with reading [a]:
    read a; attempt a+1; yield; ... *)
Definition timed_polls (a n : nat) : list pev := flat_map (fun k => [PRead k; PAttempt (S k); PYield]) (seq a n).
(** a completed timed call that made [r] readings and returned [c] *)
Definition timed_shape (c : Z) (r : nat) : list pev :=
  match r with
  | O => [PAttempt 0]
  | S r' => PAttempt 0 :: timed_polls 0 r' ++ PRead r' :: (if c =? 0 then [PAttempt r] else [])
  end.

Lemma sleep_polls_S a n : sleep_polls a (S n) = PRead a :: PYield :: sleep_polls (S a) n.
Proof. reflexivity. Qed.

Lemma timed_polls_S a n : timed_polls a (S n) = PRead a :: PAttempt (S a) :: PYield :: timed_polls (S a) n.
Proof. reflexivity. Qed.

Lemma n_yields_sleep_polls n : forall a tl, n_yields (sleep_polls a n ++ tl) = (n + n_yields tl)%nat.
Proof.
  induction n as [|n IH]; intros a tl; [reflexivity|].
  rewrite sleep_polls_S. cbn [app]. unfold n_yields in *. cbn [filter is_yield length]. rewrite IH. reflexivity.
Qed.

Lemma n_yields_timed_polls n : forall a tl, n_yields (timed_polls a n ++ tl) = (n + n_yields tl)%nat.
Proof.
  induction n as [|n IH]; intros a tl; [reflexivity|].
  rewrite timed_polls_S. cbn [app]. unfold n_yields in *. cbn [filter is_yield length]. rewrite IH. reflexivity.
Qed.

Lemma sleep_loop_ev_shape clk fuel : forall k unt y r yy,
  sleep_loop clk fuel k unt y = Ret 0 r yy ->
  snd (sleep_loop_ev clk fuel k unt y) = sleep_polls k (r - 1 - k) ++ [PRead (r - 1)].
Proof.
  induction fuel as [|f IH]; intros k unt y r yy; cbn [sleep_loop sleep_loop_ev]; [discriminate|].
  destruct (ts_gt (clk k) unt) eqn:E.
  - intros H; inversion H; subst. replace (S k - 1 - k)%nat with 0%nat by lia.
    replace (S k - 1)%nat with k by lia. reflexivity.
  - intros H. pose proof (sleep_loop_spec clk f (S k) unt (S y) r yy H) as (Hk & _).
    specialize (IH (S k) unt (S y) r yy H).
    destruct (sleep_loop_ev clk f (S k) unt (S y)) as [o l]. cbn [snd] in *. rewrite IH.
    replace (r - 1 - k)%nat with (S (r - 1 - S k)) by lia. rewrite sleep_polls_S. reflexivity.
Qed.

(** a completed sleep: the actions are  read 0; (read k; yield)*; read r-1  and the number of yields is
    the [y] component of the outcome, namely readings - 2 *)
Lemma nanosleep_ev_shape clk fuel req r y :
  nanosleep clk fuel req = Ret 0 r y ->
  snd (nanosleep_ev clk fuel req) = sleep_shape r /\
  n_yields (snd (nanosleep_ev clk fuel req)) = y /\ y = (r - 2)%nat /\ (2 <= r)%nat.
Proof.
  unfold nanosleep, nanosleep_ev.
  destruct (fst req <? 0); [discriminate|].
  destruct (snd req <? 0); [discriminate|].
  destruct (snd req >? 999999999); [discriminate|].
  intros H. pose proof (sleep_loop_spec clk fuel 1 _ 0 r y H) as (Hk & _ & _ & Hy).
  pose proof (sleep_loop_ev_shape clk fuel 1 _ 0 r y H) as Hs.
  destruct (sleep_loop_ev clk fuel 1 (ts_add (clk 0%nat) req) 0) as [o l]. cbn [snd] in *. subst l.
  replace (r - 1 - 1)%nat with (r - 2)%nat by lia.
  split; [reflexivity|]. split; [|split; lia].
  unfold n_yields at 1. cbn [filter is_yield]. fold (n_yields (sleep_polls 1 (r - 2) ++ [PRead (r - 1)])).
  rewrite n_yields_sleep_polls. cbn. lia.
Qed.

(** a malformed request performs no action at all *)
Lemma nanosleep_ev_einval clk fuel req r y :
  nanosleep clk fuel req = Ret EINVAL r y -> snd (nanosleep_ev clk fuel req) = [].
Proof.
  unfold nanosleep, nanosleep_ev.
  destruct (fst req <? 0); [reflexivity|].
  destruct (snd req <? 0); [reflexivity|].
  destruct (snd req >? 999999999); [reflexivity|].
  intros H. apply sleep_loop_code in H. discriminate.
Qed.

Lemma sleep_polls_head n : forall a, exists tl, sleep_polls a n ++ [PRead (a + n)] = PRead a :: tl.
Proof.
  destruct n as [|n]; intros a.
  - rewrite Nat.add_0_r. exists []. reflexivity.
  - rewrite sleep_polls_S. eexists. reflexivity.
Qed.

(** every yield sits between reading k and reading k+1 *)
Definition yields_between_reads (l : list pev) : Prop :=
  forall l1 l2, l = l1 ++ PYield :: l2 ->
  exists k l1' l2', l1 = l1' ++ [PRead k] /\ l2 = PRead (S k) :: l2'.

Lemma sleep_polls_between n : forall a, yields_between_reads (sleep_polls a n ++ [PRead (a + n)]).
Proof.
  induction n as [|n IH]; intros a l1 l2 H.
  - cbn in H. destruct l1 as [|e l1]; [discriminate|]. destruct l1; discriminate.
  - rewrite sleep_polls_S in H. replace (a + S n)%nat with (S a + n)%nat in H by lia. cbn [app] in H.
    destruct l1 as [|e1 l1]; [discriminate|]. cbn [app] in H. injection H as <- H.
    destruct l1 as [|e2 l1].
    + cbn [app] in H. injection H as <-.
      destruct (sleep_polls_head n (S a)) as [tl Htl]. exists a, [], tl. split; [reflexivity|exact Htl].
    + cbn [app] in H. injection H as <- H.
      destruct (IH (S a) l1 l2 H) as (k & l1' & l2' & -> & ->).
      exists k, (PRead a :: PYield :: l1'), l2'. split; reflexivity.
Qed.

Lemma nanosleep_yield_between clk fuel req r y :
  nanosleep clk fuel req = Ret 0 r y -> yields_between_reads (snd (nanosleep_ev clk fuel req)).
Proof.
  intros H. destruct (nanosleep_ev_shape clk fuel req r y H) as (Hs & _ & _ & Hr). rewrite Hs.
  unfold sleep_shape. intros l1 l2 E.
  destruct l1 as [|e l1]; [discriminate|]. cbn [app] in E. injection E as <- E.
  replace (r - 1)%nat with (1 + (r - 2))%nat in E by lia.
  destruct (sleep_polls_between (r - 2) 1 l1 l2 E) as (k & l1' & l2' & -> & ->).
  exists k, (PRead 0 :: l1'), l2'. split; reflexivity.
Qed.

(** the j-th polling iteration (1 <= j <= r-2) occurs in the list *)
Lemma sleep_polls_occurs n : forall a j, (a <= j < a + n)%nat ->
  exists l1 l2, sleep_polls a n = l1 ++ PRead j :: PYield :: l2.
Proof.
  induction n as [|n IH]; intros a j Hj; [lia|]. rewrite sleep_polls_S.
  destruct (Nat.eq_dec j a) as [->|Hne].
  - exists [], (sleep_polls (S a) n). reflexivity.
  - destruct (IH (S a) j ltac:(lia)) as (l1 & l2 & ->).
    exists (PRead a :: PYield :: l1), l2. reflexivity.
Qed.

Lemma nanosleep_iteration_occurs clk fuel req r y j :
  nanosleep clk fuel req = Ret 0 r y -> (1 <= j < r - 1)%nat ->
  exists l1 l2, snd (nanosleep_ev clk fuel req) = l1 ++ PRead j :: PYield :: l2.
Proof.
  intros H Hj. destruct (nanosleep_ev_shape clk fuel req r y H) as (Hs & _). rewrite Hs. unfold sleep_shape.
  destruct (sleep_polls_occurs (r - 2) 1 j ltac:(lia)) as (l1 & l2 & ->).
  exists (PRead 0 :: l1), (l2 ++ [PRead (r - 1)]). cbn [app]. rewrite <- app_assoc. reflexivity.
Qed.

Lemma timed_loop_ev_shape clk att tocode fuel : tocode <> 0 -> forall k abst y c r yy,
  timed_loop clk att tocode fuel k (S k) abst y = Ret c r yy ->
  snd (timed_loop_ev clk att tocode fuel k (S k) abst y) =
  timed_polls k (r - 1 - k) ++ PRead (r - 1)%nat :: (if c =? 0 then [PAttempt r] else []).
Proof.
  intros Hnz. induction fuel as [|f IH]; intros k abst y c r yy; cbn [timed_loop timed_loop_ev]; [discriminate|].
  destruct (ts_gt (clk k) abst) eqn:E.
  - intros H; inversion H; subst. replace (S k - 1 - k)%nat with 0%nat by lia.
    replace (S k - 1)%nat with k by lia. destruct (Z.eqb_spec c 0) as [->|_]; [contradiction|reflexivity].
  - destruct (att (S k)) eqn:A.
    + intros H; inversion H; subst. replace (S k - 1 - k)%nat with 0%nat by lia.
      replace (S k - 1)%nat with k by lia. reflexivity.
    + intros H. pose proof (timed_loop_spec clk att tocode Hnz f (S k) (S y) abst c r yy H) as (Hk & _).
      specialize (IH (S k) abst (S y) c r yy H).
      destruct (timed_loop_ev clk att tocode f (S k) (S (S k)) abst (S y)) as [o l]. cbn [snd] in *. rewrite IH.
      replace (r - 1 - k)%nat with (S (r - 1 - S k)) by lia. rewrite timed_polls_S. reflexivity.
Qed.

(** a completed timed lock / join: attempt 0; (read k; attempt k+1; yield)*; read r-1 [; attempt r]  -
    the first attempt precedes every reading, every reading that is not past the deadline is followed by an
    attempt, every failed attempt after a reading by a yield *)
Lemma timed_ev_shape clk att tocode fuel abst c r y : tocode <> 0 ->
  timed clk att tocode fuel abst = Ret c r y ->
  snd (timed_ev clk att tocode fuel abst) = timed_shape c r /\
  n_yields (snd (timed_ev clk att tocode fuel abst)) = y /\ y = (r - 1)%nat.
Proof.
  intros Hnz. unfold timed, timed_ev. destruct (att 0%nat) eqn:A0.
  - intros H; inversion H; subst. repeat split; reflexivity.
  - intros H. pose proof (timed_loop_spec clk att tocode Hnz fuel 0 0 abst c r y H) as (Hk & Hy & _).
    pose proof (timed_loop_ev_shape clk att tocode fuel Hnz 0 abst 0 c r y H) as Hs.
    destruct (timed_loop_ev clk att tocode fuel 0 1 abst 0) as [o l]. cbn [snd] in *. subst l.
    destruct r as [|r']; [lia|]. unfold timed_shape.
    replace (S r' - 1 - 0)%nat with r' by lia. replace (S r' - 1)%nat with r' by lia.
    split; [reflexivity|]. split; [|lia].
    unfold n_yields at 1. cbn [filter is_yield].
    fold (n_yields (timed_polls 0 r' ++ PRead r' :: (if c =? 0 then [PAttempt (S r')] else []))).
    rewrite n_yields_timed_polls. destruct (c =? 0); cbn; lia.
Qed.

(* ------------------------------------------------------------------ only what was observed matters *)
Lemma sleep_loop_observed_only clk clk' fuel : forall k unt y c r yy,
  sleep_loop clk fuel k unt y = Ret c r yy -> (forall j, (j < r)%nat -> clk' j = clk j) ->
  sleep_loop clk' fuel k unt y = Ret c r yy.
Proof.
  induction fuel as [|f IH]; intros k unt y c r yy H Hc; cbn [sleep_loop] in *; [discriminate|].
  assert (Hk : (k < r)%nat).
  { destruct (ts_gt (clk k) unt); [inversion H; lia|].
    pose proof (sleep_loop_code clk f _ _ _ _ _ _ H) as ->.
    apply (sleep_loop_spec clk f) in H. lia. }
  rewrite (Hc k Hk). destruct (ts_gt (clk k) unt); [exact H|]. apply IH; assumption.
Qed.

(** the result of a sleep is determined by the readings it made (two clocks that agree on them give the
    same result): whatever happens to the clock, or to anything else, outside these readings is irrelevant *)
Lemma nanosleep_observed_only clk clk' fuel req c r y :
  nanosleep clk fuel req = Ret c r y -> (forall j, (j < r)%nat -> clk' j = clk j) ->
  nanosleep clk' fuel req = Ret c r y.
Proof.
  unfold nanosleep.
  destruct (fst req <? 0); [auto|].
  destruct (snd req <? 0); [auto|].
  destruct (snd req >? 999999999); [auto|].
  intros H Hc.
  assert (Hr : (1 < r)%nat).
  { pose proof (sleep_loop_code clk fuel _ _ _ _ _ _ H) as ->. apply (sleep_loop_spec clk fuel) in H. lia. }
  rewrite (Hc 0%nat ltac:(lia)). apply (sleep_loop_observed_only clk clk'); assumption.
Qed.

Lemma timed_loop_observed_only clk att clk' att' tocode fuel : tocode <> 0 -> forall k abst y c r yy,
  timed_loop clk att tocode fuel k (S k) abst y = Ret c r yy ->
  (forall j, (j < r)%nat -> clk' j = clk j) ->
  (forall i, (i < r)%nat \/ (c = 0 /\ i = r) -> att' i = att i) ->
  timed_loop clk' att' tocode fuel k (S k) abst y = Ret c r yy.
Proof.
  intros Hnz. induction fuel as [|f IH]; intros k abst y c r yy H Hc Ha; cbn [timed_loop] in *; [discriminate|].
  pose proof (timed_loop_spec clk att tocode Hnz (S f) k y abst c r yy) as Hs. cbn [timed_loop] in Hs.
  specialize (Hs H). destruct Hs as (Hk & _).
  rewrite (Hc k Hk). destruct (ts_gt (clk k) abst); [exact H|].
  destruct (att (S k)) eqn:A.
  - inversion H; subst. rewrite (Ha (S k)), A by (right; split; reflexivity). reflexivity.
  - pose proof (timed_loop_spec clk att tocode Hnz f (S k) (S y) abst c r yy H) as (Hk' & _).
    rewrite (Ha (S k)), A by (left; lia). apply IH; assumption.
Qed.

(** the result of a timed lock / join is determined by the readings it made and by the outcomes of the
    attempts it made (attempts 0 .. r-1, and attempt r when it succeeded) *)
Lemma timed_observed_only clk att clk' att' tocode fuel abst c r y : tocode <> 0 ->
  timed clk att tocode fuel abst = Ret c r y ->
  (forall j, (j < r)%nat -> clk' j = clk j) ->
  (forall i, (i < r)%nat \/ (c = 0 /\ i = r) -> att' i = att i) ->
  timed clk' att' tocode fuel abst = Ret c r y.
Proof.
  intros Hnz. unfold timed. destruct (att 0%nat) eqn:A0.
  - intros H Hc Ha. inversion H; subst. rewrite (Ha 0%nat), A0 by (right; split; reflexivity). reflexivity.
  - intros H Hc Ha.
    pose proof (timed_loop_spec clk att tocode Hnz fuel 0 0 abst c r y H) as (Hk & _).
    rewrite (Ha 0%nat), A0 by (left; lia).
    apply (timed_loop_observed_only clk att clk' att'); assumption.
Qed.

(* ------------------------------------------------------------------ composition with an environment *)
(** The world around a timed lock / join.  [E] is the state of everything the caller does not own: the
    mutex word or the target's descriptor, the other threads, the clock.  Between two consecutive shared
    accesses of the caller the other threads - on the same or on other workers - do whatever they like:
    [interf n] is their combined effect before the caller's n-th access, where the accesses are numbered in
    program order
        0 = attempt 0,   2k+1 = clock reading k,   2k+2 = attempt k+1,
    so [interf (2k+2)] is precisely what happens BETWEEN clock reading k AND THE FOLLOWING ATTEMPT.
    [clock e] is what a clock reading returns in state [e], [free e] whether an attempt succeeds in [e]
    (a failed attempt changes nothing; the code never looks at anything else). *)
Section Environment.
  Variable E : Type.
  Variable free : E -> bool.
  Variable clock : E -> ts.
  Variable interf : nat -> E -> E.
  Variable tocode : Z.

  Fixpoint env_loop (fuel k : nat) (e : E) (abst : ts) (y : nat) : outcome :=
    match fuel with
    | O => OutOfFuel
    | S f => let e1 := interf (2 * k + 1) e in
             if ts_gt (clock e1) abst then Ret tocode (S k) y
             else let e2 := interf (2 * k + 2) e1 in
                  if free e2 then Ret 0 (S k) y else env_loop f (S k) e2 abst (S y)
    end.

  (** the call, executed step by step inside the environment *)
  Definition env_timed (fuel : nat) (e0 : E) (abst : ts) : outcome :=
    let e := interf 0 e0 in if free e then Ret 0 0 0 else env_loop fuel 0 e abst 0.

  (** the state in which attempt [i] is made, as long as every earlier attempt failed *)
  Fixpoint seen (e0 : E) (i : nat) : E :=
    match i with
    | O => interf 0 e0
    | S j => interf (2 * j + 2) (interf (2 * j + 1) (seen e0 j))
    end.
  Definition att_env (e0 : E) (i : nat) : bool := free (seen e0 i).
  Definition clk_env (e0 : E) (k : nat) : ts := clock (interf (2 * k + 1) (seen e0 k)).

  Lemma env_loop_is_timed_loop e0 fuel : forall k abst y,
    env_loop fuel k (seen e0 k) abst y = timed_loop (clk_env e0) (att_env e0) tocode fuel k (S k) abst y.
  Proof.
    induction fuel as [|f IH]; intros k abst y; cbn [env_loop timed_loop]; [reflexivity|].
    unfold clk_env at 1. destruct (ts_gt (clock (interf (2 * k + 1) (seen e0 k))) abst); [reflexivity|].
    unfold att_env at 1. cbn [seen].
    destruct (free (interf (2 * k + 2) (interf (2 * k + 1) (seen e0 k)))); [reflexivity|].
    apply (IH (S k)).
  Qed.

  (** in every environment the call behaves as [timed] on the readings and attempt outcomes it observes there *)
  Lemma env_timed_is_timed fuel e0 abst :
    env_timed fuel e0 abst = timed (clk_env e0) (att_env e0) tocode fuel abst.
  Proof.
    unfold env_timed, timed. unfold att_env at 1. cbn [seen].
    destruct (free (interf 0 e0)); [reflexivity|]. apply (env_loop_is_timed_loop e0 fuel 0).
  Qed.
End Environment.

(** conversely every pair of scripts (clk, att) is what some environment shows: the theorems about [timed],
    which quantify over all [clk] and [att], therefore speak about exactly the behaviours in all environments *)
Lemma every_script_is_an_environment (clk : nat -> ts) (att : nat -> bool) :
  exists (E : Type) (free : E -> bool) (clock : E -> ts) (interf : nat -> E -> E) (e0 : E),
    (forall k, clk_env E clock interf e0 k = clk k) /\ (forall i, att_env E free interf e0 i = att i).
Proof.
  exists nat, (fun n => att (Nat.div2 n)), (fun n => clk (Nat.div2 n)), (fun n _ => n), 0%nat.
  assert (Hs : forall i, seen nat (fun n _ => n) 0%nat i = (2 * i)%nat).
  { intros [|j]; cbn [seen]; lia. }
  split.
  - intros k. unfold clk_env. replace (2 * k + 1)%nat with (S (2 * k)) by lia.
    rewrite Nat.div2_succ_double. reflexivity.
  - intros i. unfold att_env. rewrite Hs, Nat.div2_double. reflexivity.
Qed.

(** the two deadline statements, transported to an arbitrary environment *)
Lemma env_timed_timeout E free clock interf tocode fuel e0 abst r y :
  (forall e, valid (clock e)) -> tocode <> 0 -> valid abst ->
  env_timed E free clock interf tocode fuel e0 abst = Ret tocode r y ->
  (1 <= r)%nat /\ to_ns (clk_env E clock interf e0 (r - 1)) > to_ns abst /\
  (forall i, (i < r)%nat -> free (seen E interf e0 i) = false).
Proof.
  intros Hv Hnz Ha H. rewrite env_timed_is_timed in H.
  apply timed_timeout in H; [|intros k; apply Hv|exact Hnz|exact Ha].
  destruct H as (H1 & H2 & H3 & _). auto.
Qed.

Lemma env_timed_success E free clock interf tocode fuel e0 abst r y : tocode <> 0 ->
  env_timed E free clock interf tocode fuel e0 abst = Ret 0 r y ->
  free (seen E interf e0 r) = true /\ (forall i, (i < r)%nat -> free (seen E interf e0 i) = false).
Proof.
  intros Hnz H. rewrite env_timed_is_timed in H.
  apply timed_success in H; [|exact Hnz]. destruct H as (H1 & H2 & _). auto.
Qed.

(* ------------------------------------------------------------------ one polling iteration on the machine *)
(** projection of the actions of a polling call onto the scheduler-level machine (coq/Machine): clock
    readings and attempts move no thread; a yield whose own run queue is not empty is the four-move sequence
    pop / save / put-at-base / end-of-callback (this is how tools/machine_common.py replays the
    [yield.enter .. cb.leave] lines of a controlled run) *)
Local Close Scope Z_scope.
Definition pev_moves (w : nat) (e : pev) : list (nat * move) :=
  match e with PYield => yield_moves w | _ => [] end.
Definition poll_moves (w : nat) (l : list pev) : list (nat * move) := flat_map (pev_moves w) l.

Lemma poll_iteration_gives_way s w t q x k i : Inv s ->
  nth_error (cur s) w = Some (Run t) -> nth_error (hand s) w = Some None -> nth_error (dq s) w = Some (q ++ [x]) ->
  let s' := {| cur := upd (cur s) w (Run x); hand := hand s; dq := upd (dq s) w (t :: q); stat := stat s |} in
  runo s (poll_moves w [PRead k; PYield]) = Some s' /\
  runo s (poll_moves w [PRead k; PAttempt i; PYield]) = Some s'.
Proof.
  intros HI Ec Eh Eq s'. unfold poll_moves. cbn [flat_map pev_moves app]. rewrite app_nil_r.
  split; apply yield_gives_way; assumption.
Qed.

(** the yield of [myth_nanosleep] uses option half_half: it may first try to steal.  When it steals [x] from the
    base of worker [v]'s queue, [x] runs on [w] and the poller goes to the base of its own queue [q]. *)
Definition yield_steal_moves (w v : nat) : list (nat * move) := [(w, Steal v); (w, SaveCtx); (w, PutBase); (w, EndCb)].

Lemma occ_cur_ge1 s w t : nth_error (cur s) w = Some (Run t) -> occ_cur s t >= 1.
Proof.
  unfold occ_cur. generalize (cur s). intros l. revert w. induction l as [|m l IH]; intros w Ec.
  - destruct w; discriminate.
  - destruct w as [|w]; cbn in Ec.
    + injection Ec as ->. cbn [sumf w_cur]. rewrite Nat.eqb_refl. cbn. lia.
    + specialize (IH w Ec). cbn [sumf]. lia.
Qed.

Lemma poll_iteration_gives_way_steal s w v t q x r : Inv s -> v <> w ->
  nth_error (cur s) w = Some (Run t) -> nth_error (hand s) w = Some None ->
  nth_error (dq s) w = Some q -> nth_error (dq s) v = Some (x :: r) ->
  runo s (yield_steal_moves w v) =
    Some {| cur := upd (cur s) w (Run x); hand := hand s; dq := upd (upd (dq s) v r) w (t :: q); stat := stat s |}.
Proof.
  intros HI Hvw Ec Eh Eq Ev.
  destruct (HI t) as [H1 H0].
  pose proof (occ_cur_ge1 s w t Ec) as Hoc.
  assert (Hlive : is_live s t = true).
  { destruct (is_live s t) eqn:El; [reflexivity|]. specialize (H0 eq_refl). unfold places in H0. lia. }
  cbn [runo yield_steal_moves].
  (* Steal *)
  set (s1 := set_hand (set_dq s v r) w (Some x)).
  assert (M1 : mstep s (w, Steal v) = Some s1).
  { unfold mstep; cbn [fst snd]. unfold mmove. rewrite Ec, Eh, Eq, Ev.
    destruct (Nat.eqb_spec v w) as [->|_]; [contradiction|reflexivity]. }
  rewrite M1.
  assert (Ec1 : nth_error (cur s1) w = Some (Run t)) by exact Ec.
  assert (Eh1 : nth_error (hand s1) w = Some (Some x)).
  { unfold s1; cbn [set_hand hand]. eapply nth_error_upd_same; exact Eh. }
  assert (Eq1 : nth_error (dq s1) w = Some q).
  { unfold s1; cbn [set_hand set_dq dq]. rewrite nth_error_upd_other by (intros Hx; apply Hvw; exact Hx). exact Eq. }
  assert (HI1 : Inv s1) by (eapply (mmove_inv s w (Steal v)); [exact HI | exact M1]).
  (* SaveCtx *)
  set (s2 := set_cur s1 w (Cb t)).
  assert (M2 : mstep s1 (w, SaveCtx) = Some s2).
  { unfold mstep; cbn [fst snd]. unfold mmove. rewrite Ec1, Eh1, Eq1. reflexivity. }
  rewrite M2.
  assert (Ec2 : nth_error (cur s2) w = Some (Cb t)).
  { unfold s2; cbn [set_cur cur]. eapply nth_error_upd_same; exact Ec1. }
  assert (Eh2 : nth_error (hand s2) w = Some (Some x)) by exact Eh1.
  assert (Eq2 : nth_error (dq s2) w = Some q) by exact Eq1.
  assert (Hp2 : parked s2 t = true).
  { unfold parked. apply andb_true_iff. split; [exact Hlive|]. apply Nat.eqb_eq.
    destruct (HI1 t) as [H11 _].
    assert (Hoc1 : occ_cur s1 t >= 1) by exact Hoc.
    assert (Hp1 : places s1 t = 1) by (unfold places in *; lia).
    pose proof (sumf_upd (w_cur t) (cur s1) w (Cb t) (Run t) Ec1) as Hc. cbn [w_cur] in Hc.
    rewrite b2n_eqb_refl in Hc.
    assert (places s2 t + 1 = places s1 t) by (unfold s2; occs; lia). lia. }
  (* PutBase *)
  set (s3 := set_dq s2 w (t :: q)).
  assert (M3 : mstep s2 (w, PutBase) = Some s3).
  { unfold mstep; cbn [fst snd]. unfold mmove. rewrite Ec2, Eh2, Eq2, Hp2. reflexivity. }
  rewrite M3.
  assert (Ec3 : nth_error (cur s3) w = Some (Cb t)) by exact Ec2.
  assert (Eh3 : nth_error (hand s3) w = Some (Some x)) by exact Eh2.
  assert (Eq3 : nth_error (dq s3) w = Some (t :: q)).
  { unfold s3; cbn [set_dq dq]. eapply nth_error_upd_same; exact Eq2. }
  (* EndCb *)
  unfold mstep; cbn [fst snd]. unfold mmove. rewrite Ec3, Eh3, Eq3.
  unfold s3, s2, s1, set_hand, set_cur, set_dq; cbn [cur hand dq stat].
  rewrite !upd_upd. rewrite (upd_id (hand s) w None Eh). reflexivity.
Qed.

(** a completed sleep that made r readings went through r-2 polling iterations  read j; yield  (1 <= j <= r-2);
    in each of them, if the sleeper [t] runs on worker [w] whose run queue is [q ++ [x]], the yield leaves [x]
    running on [w] and [t] at the base of the queue, behind everything that was queued *)
Lemma sleeper_gives_way clk fuel req r y j :
  nanosleep clk fuel req = Ret 0%Z r y -> (1 <= j < r - 1)%nat ->
  (exists l1 l2, snd (nanosleep_ev clk fuel req) = l1 ++ PRead j :: PYield :: l2) /\
  forall s w t q x, Inv s ->
    nth_error (cur s) w = Some (Run t) -> nth_error (hand s) w = Some None -> nth_error (dq s) w = Some (q ++ [x]) ->
    runo s (poll_moves w [PRead j; PYield]) =
      Some {| cur := upd (cur s) w (Run x); hand := hand s; dq := upd (dq s) w (t :: q); stat := stat s |}.
Proof.
  intros H Hj. split; [eapply nanosleep_iteration_occurs; eassumption|].
  intros s w t q x HI Ec Eh Eq. apply (poll_iteration_gives_way s w t q x j 0 HI Ec Eh Eq).
Qed.
