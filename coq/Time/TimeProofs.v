From Coq Require Import ZArith List Bool Lia.
From MT Require Import Time.TimeModel.
Import ListNotations.
Local Open Scope Z_scope.

Definition valid (a : ts) : Prop := 0 <= snd a < NS.
Definition to_ns (a : ts) : Z := fst a * NS + snd a.

Lemma ts_add_spec a b :
  valid a -> valid b ->
  valid (ts_add a b) /\ to_ns (ts_add a b) = to_ns a + to_ns b.
Proof.
  unfold valid, to_ns, ts_add, NS. destruct a as [sa na], b as [sb nb]; cbn [fst snd].
  intros Ha Hb.
  assert (Hq : 0 <= na + nb) by lia.
  rewrite Z.quot_div_nonneg, Z.rem_mod_nonneg by lia.
  pose proof (Z.div_mod (na + nb) 1000000000 ltac:(lia)) as Hdm.
  pose proof (Z.mod_pos_bound (na + nb) 1000000000 ltac:(lia)) as Hm.
  split; lia.
Qed.

Lemma ts_gt_spec a b :
  valid a -> valid b -> (ts_gt a b = true <-> to_ns a > to_ns b).
Proof.
  unfold valid, to_ns, ts_gt, NS. destruct a as [sa na], b as [sb nb]; cbn [fst snd].
  intros Ha Hb.
  destruct (sa >? sb) eqn:E1; [split; [intros _|reflexivity]; lia|].
  destruct (sa =? sb) eqn:E2.
  - apply Z.eqb_eq in E2. subst. rewrite Z.gtb_lt. lia.
  - split; [discriminate|]. intros H. apply Z.eqb_neq in E2.
    assert (~ sa > sb) by (rewrite Z.gtb_ltb in E1; apply Z.ltb_ge in E1; lia). lia.
Qed.

(** ** the sleep loop *)
Section Sleep.
  Variable clk : nat -> ts.
  Hypothesis clk_valid : forall k, valid (clk k).

  Lemma sleep_loop_spec fuel : forall k unt y r yy,
    sleep_loop clk fuel k unt y = Ret 0 r yy ->
    (k < r)%nat /\ ts_gt (clk (r - 1)) unt = true /\
    (forall j, (k <= j < r - 1)%nat -> ts_gt (clk j) unt = false) /\
    (yy = y + (r - 1 - k))%nat.
  Proof.
    induction fuel as [|f IH]; intros k unt y r yy; cbn [sleep_loop]; [discriminate|].
    destruct (ts_gt (clk k) unt) eqn:E.
    - intros H; inversion H; subst. replace (S k - 1)%nat with k by lia.
      repeat split; [lia|exact E| |lia]. intros j Hj; lia.
    - intros H. apply IH in H. destruct H as (H1 & H2 & H3 & H4).
      repeat split; [lia|exact H2| |lia].
      intros j Hj. destruct (Nat.eq_dec j k) as [->|Hne]; [exact E|]. apply H3; lia.
  Qed.

  Lemma sleep_loop_code fuel : forall k unt y c r yy,
    sleep_loop clk fuel k unt y = Ret c r yy -> c = 0.
  Proof.
    induction fuel as [|f IH]; intros k unt y c r yy; cbn [sleep_loop]; [discriminate|].
    destruct (ts_gt (clk k) unt); [intros H; inversion H; reflexivity | apply IH].
  Qed.

  Lemma sleep_loop_terminates fuel : forall k unt y j,
    (k <= j)%nat -> ts_gt (clk j) unt = true -> (j - k < fuel)%nat ->
    exists r yy, sleep_loop clk fuel k unt y = Ret 0 r yy.
  Proof.
    induction fuel as [|f IH]; intros k unt y j Hkj Hj Hf; [lia|]. cbn [sleep_loop].
    destruct (ts_gt (clk k) unt) eqn:E; [eauto|].
    assert (j <> k) by (intros ->; congruence).
    apply (IH (S k) unt (S y) j); [lia|exact Hj|lia].
  Qed.

  Definition bad_req (req : ts) : Prop := fst req < 0 \/ snd req < 0 \/ snd req > 999999999.

  Lemma nanosleep_einval fuel req :
    (exists r y, nanosleep clk fuel req = Ret EINVAL r y) <-> bad_req req.
  Proof.
    unfold nanosleep, bad_req.
    destruct (fst req <? 0) eqn:E1; [split; [intros _; apply Z.ltb_lt in E1; lia | eauto]|].
    destruct (snd req <? 0) eqn:E2; [split; [intros _; apply Z.ltb_lt in E2; lia | eauto]|].
    destruct (snd req >? 999999999) eqn:E3;
      [split; [intros _; rewrite Z.gtb_lt in E3; lia | eauto]|].
    apply Z.ltb_ge in E1, E2. rewrite Z.gtb_ltb in E3. apply Z.ltb_ge in E3.
    split; [|lia]. intros (r & y & H). apply sleep_loop_code in H. discriminate.
  Qed.

  Lemma nanosleep_einval_no_clock fuel req r y :
    nanosleep clk fuel req = Ret EINVAL r y -> r = 0%nat /\ y = 0%nat.
  Proof.
    unfold nanosleep.
    destruct (fst req <? 0); [intros H; inversion H; auto|].
    destruct (snd req <? 0); [intros H; inversion H; auto|].
    destruct (snd req >? 999999999); [intros H; inversion H; auto|].
    intros H. apply sleep_loop_code in H. discriminate.
  Qed.

  (** never early, returns at the first poll that is past the deadline, and
      yields exactly once between consecutive polls *)
  Lemma nanosleep_not_early fuel req r y :
    nanosleep clk fuel req = Ret 0 r y ->
    ~ bad_req req /\ (2 <= r)%nat /\
    to_ns (clk (r - 1)) > to_ns (clk 0) + to_ns req /\
    (forall j, (1 <= j < r - 1)%nat -> to_ns (clk j) <= to_ns (clk 0) + to_ns req) /\
    y = (r - 2)%nat.
  Proof.
    unfold nanosleep, bad_req.
    destruct (fst req <? 0) eqn:E1; [discriminate|].
    destruct (snd req <? 0) eqn:E2; [discriminate|].
    destruct (snd req >? 999999999) eqn:E3; [discriminate|].
    apply Z.ltb_ge in E1, E2. rewrite Z.gtb_ltb in E3. apply Z.ltb_ge in E3.
    intros H. apply sleep_loop_spec in H. destruct H as (H1 & H2 & H3 & H4).
    assert (Hv : valid req) by (unfold valid, NS; lia).
    destruct (ts_add_spec (clk 0) req (clk_valid 0) Hv) as [Hva Hns].
    split; [lia|]. split; [lia|]. split.
    - apply ts_gt_spec in H2; [|apply clk_valid|exact Hva]. lia.
    - split; [|lia]. intros j Hj. specialize (H3 j Hj).
      destruct (Z_gt_dec (to_ns (clk j)) (to_ns (ts_add (clk 0) req))) as [Hg|Hg]; [|lia].
      apply ts_gt_spec in Hg; [congruence|apply clk_valid|exact Hva].
  Qed.

  Lemma nanosleep_terminates fuel req j :
    ~ bad_req req -> (1 <= j)%nat ->
    to_ns (clk j) > to_ns (clk 0) + to_ns req -> (j <= fuel)%nat ->
    exists r y, nanosleep clk fuel req = Ret 0 r y.
  Proof.
    unfold nanosleep, bad_req. intros Hb Hj Hgt Hf.
    destruct (fst req <? 0) eqn:E1; [apply Z.ltb_lt in E1; lia|].
    destruct (snd req <? 0) eqn:E2; [apply Z.ltb_lt in E2; lia|].
    destruct (snd req >? 999999999) eqn:E3; [rewrite Z.gtb_lt in E3; lia|].
    apply Z.ltb_ge in E1, E2. rewrite Z.gtb_ltb in E3. apply Z.ltb_ge in E3.
    assert (Hv : valid req) by (unfold valid, NS; lia).
    destruct (ts_add_spec (clk 0) req (clk_valid 0) Hv) as [Hva Hns].
    apply (sleep_loop_terminates fuel 1 _ 0 j); [lia| |lia].
    apply ts_gt_spec; [apply clk_valid|exact Hva|lia].
  Qed.
End Sleep.

Lemma usleep_req_spec usec :
  0 <= usec < 2 ^ 32 ->
  valid (usleep_req usec) /\ 0 <= fst (usleep_req usec) /\ to_ns (usleep_req usec) = usec * 1000.
Proof.
  intros H. unfold valid, usleep_req, to_ns, NS; cbn [fst snd].
  pose proof (Z.div_mod usec 1000000 ltac:(lia)).
  pose proof (Z.mod_pos_bound usec 1000000 ltac:(lia)).
  assert (0 <= usec / 1000000) by (apply Z.div_pos; lia).
  repeat split; lia.
Qed.

Lemma sleep_req_spec s :
  0 <= s < 2 ^ 32 ->
  valid (sleep_req s) /\ 0 <= fst (sleep_req s) /\ to_ns (sleep_req s) = s * NS.
Proof. intros H. unfold valid, sleep_req, to_ns, NS; cbn [fst snd]. lia. Qed.

(** ** timed lock / timed join *)
Section Timed.
  Variable clk : nat -> ts.
  Variable att : nat -> bool.
  Hypothesis clk_valid : forall k, valid (clk k).
  Variable tocode : Z.
  Hypothesis tocode_nz : tocode <> 0.

  (** invariant of the loop: attempt index = clock index + 1 *)
  Lemma timed_loop_spec fuel : forall k y abst c r yy,
    timed_loop clk att tocode fuel k (S k) abst y = Ret c r yy ->
    (k < r)%nat /\ (yy = y + (r - 1 - k))%nat /\
    (forall j, (k <= j < r - 1)%nat -> ts_gt (clk j) abst = false /\ att (S j) = false) /\
    ((c = tocode /\ ts_gt (clk (r - 1)) abst = true) \/
     (c = 0 /\ ts_gt (clk (r - 1)) abst = false /\ att r = true)).
  Proof.
    induction fuel as [|f IH]; intros k y abst c r yy; cbn [timed_loop]; [discriminate|].
    destruct (ts_gt (clk k) abst) eqn:E.
    - intros H; inversion H; subst. replace (S k - 1)%nat with k by lia.
      split; [lia|]. split; [lia|]. split; [intros j Hj; lia|]. left; auto.
    - destruct (att (S k)) eqn:A.
      + intros H; inversion H; subst. replace (S k - 1)%nat with k by lia.
        split; [lia|]. split; [lia|]. split; [intros j Hj; lia|]. right; auto.
      + intros H. apply IH in H. destruct H as (H1 & H2 & H3 & H4).
        split; [lia|]. split; [lia|]. split; [|exact H4].
        intros j Hj. destruct (Nat.eq_dec j k) as [->|Hne]; [auto|]. apply H3; lia.
  Qed.

  (** a timeout is reported only at a clock reading strictly past the deadline,
      and only after every attempt so far (the first one before any clock
      reading) found the resource unavailable *)
  Lemma timed_timeout fuel abst r y :
    valid abst ->
    timed clk att tocode fuel abst = Ret tocode r y ->
    (1 <= r)%nat /\ to_ns (clk (r - 1)) > to_ns abst /\
    (forall i, (i < r)%nat -> att i = false) /\
    (forall j, (j < r - 1)%nat -> to_ns (clk j) <= to_ns abst).
  Proof.
    intros Hv. unfold timed. destruct (att 0%nat) eqn:A0.
    - intros H; inversion H; congruence.
    - intros H. apply timed_loop_spec in H. destruct H as (H1 & H2 & H3 & H4).
      destruct H4 as [[_ H4]|[H4 _]]; [|congruence].
      split; [lia|]. split.
      + apply ts_gt_spec in H4; [lia|apply clk_valid|exact Hv].
      + split.
        * intros i Hi. destruct i as [|i]; [exact A0|]. apply H3; lia.
        * intros j Hj. destruct (H3 j ltac:(lia)) as [Hg _].
          destruct (Z_gt_dec (to_ns (clk j)) (to_ns abst)) as [G|G]; [|lia].
          apply ts_gt_spec in G; [congruence|apply clk_valid|exact Hv].
  Qed.

  (** success means an attempt succeeded, and it is the first successful one *)
  Lemma timed_success fuel abst r y :
    timed clk att tocode fuel abst = Ret 0 r y ->
    att r = true /\ (forall i, (i < r)%nat -> att i = false) /\ y = (r - 1)%nat.
  Proof.
    unfold timed. destruct (att 0%nat) eqn:A0.
    - intros H; inversion H; subst. split; [exact A0|]. split; [intros i Hi; lia|reflexivity].
    - intros H. apply timed_loop_spec in H. destruct H as (H1 & H2 & H3 & H4).
      destruct H4 as [[H4 _]|[_ [_ H4]]]; [congruence|].
      split; [exact H4|]. split; [|lia].
      intros i Hi. destruct i as [|i]; [exact A0|]. apply H3; lia.
  Qed.

  (** the first attempt precedes any clock test: a free resource is obtained
      even when the deadline is already past *)
  Lemma timed_first_attempt fuel abst :
    att 0%nat = true -> timed clk att tocode fuel abst = Ret 0 0 0.
  Proof. unfold timed. intros ->. reflexivity. Qed.

  Lemma timed_loop_success_complete fuel : forall k y abst i,
    (k < i)%nat -> att i = true ->
    (forall j, (k <= j < i)%nat -> ts_gt (clk j) abst = false) ->
    (i - k <= fuel)%nat ->
    exists r yy, timed_loop clk att tocode fuel k (S k) abst y = Ret 0 r yy.
  Proof.
    induction fuel as [|f IH]; intros k y abst i Hki Hi Hno Hf; [lia|]. cbn [timed_loop].
    rewrite (Hno k) by lia.
    destruct (att (S k)) eqn:A; [eauto|].
    assert (i <> S k) by (intros ->; congruence).
    apply (IH (S k) (S y) abst i); [lia|exact Hi| |lia]. intros j Hj; apply Hno; lia.
  Qed.

  (** success whenever the resource is available at an attempt made before
      the deadline has been observed as passed *)
  Lemma timed_success_complete fuel abst i :
    valid abst -> att i = true ->
    (forall j, (j < i)%nat -> to_ns (clk j) <= to_ns abst) ->
    (i <= fuel)%nat ->
    exists r y, timed clk att tocode fuel abst = Ret 0 r y.
  Proof.
    intros Hv Hi Hno Hf. unfold timed. destruct (att 0%nat) eqn:A0; [eauto|].
    assert (i <> 0%nat) by (intros ->; congruence).
    apply (timed_loop_success_complete fuel 0 0 abst i); [lia|exact Hi| |lia].
    intros j Hj. specialize (Hno j ltac:(lia)).
    destruct (ts_gt (clk j) abst) eqn:G; [|reflexivity].
    apply ts_gt_spec in G; [lia|apply clk_valid|exact Hv].
  Qed.

  Lemma timed_codes fuel abst c r y :
    timed clk att tocode fuel abst = Ret c r y -> c = 0 \/ c = tocode.
  Proof.
    unfold timed. destruct (att 0%nat); [intros H; inversion H; auto|].
    intros H. apply timed_loop_spec in H. destruct H as (_ & _ & _ & [[-> _]|[-> _]]); auto.
  Qed.
End Timed.
