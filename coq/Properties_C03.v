(** C03 - a thread's registers and stack survive every context switch and migration.
    Statements only; every proof is [exact] of a lemma of Ctx/CtxProofs.v.

    The instruction lists, operand lists and make_context constants the theorems are applied to
    are REGENERATED from `gcc -S` / `gcc -E` of the current tree on every run of the check
    (tools/translate_ctx.py -> build/C03/gen/CtxAsmGen.v), where
      C03_all_sites     : forallb ctx_check sites = true
      C03_make_context  : mk_check_empty mk_empty_ops && mk_check_voidcall mk_voidcall_ops = true
      C03_custom_data   : cd_check cd_layout = true
      C03_publish_after_save : forallb pub_check bodies = true
      C03_current_tree  : the conclusion of C03_ctx_check_sound for every pair of extracted sites
    are closed by vm_compute on the regenerated data.  Ctx/CtxAsmPinned.v is a committed snapshot
    used only for the Examples below. *)
From Coq Require Import ZArith List Bool Lia.
From MT Require Import Ctx.X86Model Ctx.CtxCheckModel Ctx.CtxProofs Ctx.CtxAsmPinned.
Import ListNotations.
Local Open Scope Z_scope.

(** the parts the theorems speak about are a decomposition of the site's own instruction list:
    [save ; mov %rsp,(ctx)] ; [mov (ctx'),%rsp ; call* ; pop r ; jmp *r] ; [label ; restore] *)
Theorem C03_site_structure : forall c p,
  site_parts c = Some p ->
  exists tl, c = save_code p ++ tail_code p ++ tl /\
             match p_cont p with
             | Some (l, rs) => tl = ILabel l :: rs /\ p_save p <> None
             | None => all_ud2 tl = true /\ p_save p = None
             end.
Proof. exact site_parts_code. Qed.
Print Assumptions C03_site_structure.

(** Soundness of the checker.  A, B: any two accepted sites, A one that suspends (swap kinds).
    For EVERY register file and memory [s0] at A's asm statement, every stack top [hi] above it,
    every callback behaviour [cb] obeying the ABI, every assignment [lblf] of code addresses:
    run A up to the store of rsp (state s1); let anything happen that leaves the words
    [saved rsp, hi) as they are (state sB: other threads on other stacks, A's own tail on the target
    stack, any register contents); let B switch to the context A saved, calling its callbacks on A's
    stack; B's tail then jumps to A's resume label, and when A's code after the label has run:
    rsp, rbp, rbx, r12-r15 and every register A does not declare dead are as in s0, and so is every
    stack word from rsp-128 (the red zone) up to hi.
    (Integer registers and stack only; for the floating-point control state see
    C03_fp_control_refuted / C03_fp_control_partial below.)
    Side condition: A's context record is not inside A's own live stack [rsp0-depth, hi). *)
Theorem C03_ctx_check_sound :
  forall (lblf : Z -> Z -> Z) (cb : Z -> state -> state) (hi : Z),
    abi_callee hi cb ->
    forall A B pa pb depth r0,
      ctx_check A = true -> ctx_check B = true ->
      site_parts (code A) = Some pa -> site_parts (code B) = Some pb ->
      site_summary A = Some (depth, r0) ->
      forall s0,
        rg s0 RSP <= hi ->
        ~ (rg s0 RSP - depth <= rg s0 r0 < hi) ->
        exists s1,
          run (lblf (sid A)) cb (save_code pa) s0 = Next s1 /\
          rg s1 RSP = rg s0 RSP - depth /\ mem s1 (rg s0 r0) = rg s1 RSP /\
          forall sB,
            (forall a, rg s1 RSP <= a < hi -> mem sB a = mem s1 a) ->
            mem sB (rg sB (p_load pb)) = rg s1 RSP ->
            exists s2 l rs,
              p_cont pa = Some (l, rs) /\
              run (lblf (sid B)) cb (tail_code pb) sB = Jump (lblf (sid A) l) s2 /\
              exists s3,
                run (lblf (sid A)) cb rs s2 = Next s3 /\
                rg s3 RSP = rg s0 RSP /\
                (forall r, In r callee_saved -> rg s3 r = rg s0 r) /\
                (forall r, r <> RSP -> declared_dead A r = false -> rg s3 r = rg s0 r) /\
                (forall a, rg s0 RSP - 128 <= a < hi -> mem s3 a = mem s0 a).
Proof. exact ctx_check_sound. Qed.
Print Assumptions C03_ctx_check_sound.

(** every register that is not restored is declared dead to the compiler (dummy output or
    clobber), i.e. a register the asm statement does not declare dead IS restored; and the
    statement carries the "memory" clobber *)
Theorem C03_dead_regs_declared : forall lblf cb hi, abi_callee hi cb ->
  forall A B pa pb depth r0,
    ctx_check A = true -> ctx_check B = true ->
    site_parts (code A) = Some pa -> site_parts (code B) = Some pb ->
    site_summary A = Some (depth, r0) ->
    clob_mem A = true /\
    forall s0 s1 sB s2 l rs s3,
      rg s0 RSP <= hi -> ~ (rg s0 RSP - depth <= rg s0 r0 < hi) ->
      run (lblf (sid A)) cb (save_code pa) s0 = Next s1 ->
      (forall a, rg s1 RSP <= a < hi -> mem sB a = mem s1 a) ->
      mem sB (rg sB (p_load pb)) = rg s1 RSP ->
      p_cont pa = Some (l, rs) ->
      run (lblf (sid B)) cb (tail_code pb) sB = Jump (lblf (sid A) l) s2 ->
      run (lblf (sid A)) cb rs s2 = Next s3 ->
      forall r, r <> RSP -> ~ In r (outs A ++ clobs A) -> rg s3 r = rg s0 r.
Proof. exact dead_regs_declared. Qed.
Print Assumptions C03_dead_regs_declared.

(** alignment, suspended contexts: the saved rsp lies a multiple of 16 (and more than the red
    zone) below the rsp of the asm statement ... *)
Theorem C03_alignment_saved_rsp : forall A pa depth r0,
  ctx_check A = true -> site_parts (code A) = Some pa -> site_summary A = Some (depth, r0) ->
  depth mod 16 = 0 /\ 128 < depth.
Proof. exact save_keeps_alignment. Qed.
Print Assumptions C03_alignment_saved_rsp.

(** ... every callback of an accepted tail is called with exactly the rsp stored in the context,
    and the continuation is entered with that rsp + 8 ... *)
Theorem C03_alignment_tail : forall lblf cb hi, abi_callee hi cb ->
  forall B pb sB,
    ctx_check B = true -> site_parts (code B) = Some pb ->
    let sp := mem sB (rg sB (p_load pb)) in
    Forall (fun x => x = sp) (call_rsps (lblf (sid B)) cb (tail_code pb) sB) /\
    exists s2 v, run (lblf (sid B)) cb (tail_code pb) sB = Jump v s2 /\ rg s2 RSP = sp + 8 /\
                 (sp < hi -> v = mem sB sp).
Proof. exact tail_calls_at_saved_rsp. Qed.
Print Assumptions C03_alignment_tail.

(** ... hence: rsp = 0 mod 16 at the asm statement => rsp = 0 mod 16 at every callback call made
    while that context is resumed, by whichever accepted site *)
Theorem C03_alignment : forall lblf cb hi, abi_callee hi cb ->
  forall A B pa pb depth r0,
    ctx_check A = true -> ctx_check B = true ->
    site_parts (code A) = Some pa -> site_parts (code B) = Some pb ->
    site_summary A = Some (depth, r0) ->
    forall s0 sB,
      rg s0 RSP mod 16 = 0 ->
      mem sB (rg sB (p_load pb)) = rg s0 RSP - depth ->
      Forall (fun x => x mod 16 = 0) (call_rsps (lblf (sid B)) cb (tail_code pb) sB).
Proof. exact alignment_resume. Qed.
Print Assumptions C03_alignment.

(** alignment, fresh contexts (child-first entry): myth_make_context_empty, any stack top *)
Theorem C03_alignment_fresh_empty : forall lblf cb hi, abi_callee hi cb ->
  forall ops stack B pb sB sp,
    mk_check_empty ops = true -> 64 <= stack < W64 ->
    m_rsp (mk_run ops stack) = Some sp ->
    ctx_check B = true -> site_parts (code B) = Some pb ->
    mem sB (rg sB (p_load pb)) = sp ->
    sp mod 16 = 0 /\ stack - 48 < sp <= stack /\
    Forall (fun x => x mod 16 = 0) (call_rsps (lblf (sid B)) cb (tail_code pb) sB).
Proof. exact alignment_fresh_empty. Qed.
Print Assumptions C03_alignment_fresh_empty.

(** alignment, fresh contexts (parent-first entry, scheduler loop): myth_make_context_voidcall *)
Theorem C03_alignment_fresh_voidcall : forall lblf cb hi, abi_callee hi cb ->
  forall ops stack B pb sB sp func,
    mk_check_voidcall ops = true -> 64 <= stack < W64 -> stack <= hi ->
    m_rsp (mk_run ops stack) = Some sp ->
    ctx_check B = true -> site_parts (code B) = Some pb ->
    mem sB (rg sB (p_load pb)) = sp ->
    (forall fa, m_func (mk_run ops stack) = Some fa -> mem sB fa = func) ->
    Forall (fun x => x mod 16 = 0) (call_rsps (lblf (sid B)) cb (tail_code pb) sB) /\
    exists s2, run (lblf (sid B)) cb (tail_code pb) sB = Jump func s2 /\
               rg s2 RSP mod 16 = 8 /\ rg s2 RSP <= stack.
Proof. exact alignment_fresh_voidcall. Qed.
Print Assumptions C03_alignment_fresh_voidcall.

Theorem C03_make_context_empty : forall ops stack,
  mk_check_empty ops = true -> 64 <= stack < W64 ->
  exists sp, m_rsp (mk_run ops stack) = Some sp /\ m_func (mk_run ops stack) = None /\
             m_ok (mk_run ops stack) = true /\ sp mod 16 = 0 /\ stack - 48 < sp <= stack.
Proof. exact mk_empty_aligned. Qed.
Print Assumptions C03_make_context_empty.

Theorem C03_make_context_voidcall : forall ops stack,
  mk_check_voidcall ops = true -> 64 <= stack < W64 ->
  exists sp, m_rsp (mk_run ops stack) = Some sp /\ m_func (mk_run ops stack) = Some sp /\
             m_ok (mk_run ops stack) = true /\
             sp mod 16 = 0 /\ (sp + 8) mod 16 = 8 /\ stack - 48 < sp /\ sp + 8 <= stack.
Proof. exact mk_voidcall_aligned. Qed.
Print Assumptions C03_make_context_voidcall.

(** the custom-data (work-stealing hint) region carved off the top of a new thread's stack by
    myth_create_ex_body: for EVERY hint size > 0 and every stack top [stk] of the allocator the
    region [ptr, ptr+size) receives the creation-time copy, ends at or below the block's size
    word (stk+8), keeps 16-alignment, and starts at or above the stack top on which the context is
    made; the initial rsp of either entry style (and for voidcall the word holding the function
    address) is at or below that stack top and 16-aligned - frames grow down from the initial
    rsp, so no frame of the thread can overlap its hint, and a hint update through
    myth_wsapi_get_hint_ptr cannot touch the suspended thread's frames.
    (64 <= top: the hint fits into the stack block - a usage precondition.) *)
Theorem C03_custom_data_disjoint : forall c te tv p eops vops,
  cd_check c = true ->
  cd_empty_top c = Some te -> cd_voidcall_top c = Some tv -> cd_ptr c = Some p ->
  mk_check_empty eops = true -> mk_check_voidcall vops = true ->
  forall stk size, 0 < size -> stk < W64 ->
    64 <= lin_eval stk size te -> 64 <= lin_eval stk size tv ->
    let ptr := lin_eval stk size p in
    ptr mod 16 = stk mod 16 /\ ptr + size <= stk + 8 /\
    (exists d n, cd_copy_dst c = Some d /\ cd_copy_len c = Some n /\
                 lin_eval stk size d = ptr /\ lin_eval stk size n = size) /\
    (exists sp, m_rsp (mk_run eops (lin_eval stk size te)) = Some sp /\
                sp mod 16 = 0 /\ sp <= lin_eval stk size te <= ptr /\
                lin_eval stk size te mod 16 = stk mod 16) /\
    (exists sp, m_rsp (mk_run vops (lin_eval stk size tv)) = Some sp /\
                m_func (mk_run vops (lin_eval stk size tv)) = Some sp /\
                sp mod 16 = 0 /\ sp + 8 <= lin_eval stk size tv <= ptr /\
                lin_eval stk size tv mod 16 = stk mod 16).
Proof. exact custom_data_disjoint. Qed.
Print Assumptions C03_custom_data_disjoint.

(** callbacks that make the suspended thread visible run only after its context has been saved:
    [evs] is the source-ordered list of {publish-self, publish-other, switch-with-callback,
    plain switch, ...} events the translator extracts from one non-callback function body of the
    current tree.  If the checker accepts the body then along ANY sequence of its events (any
    path, any number of loop iterations) the running thread is never visible to other workers
    while its context is unsaved, it never publishes itself outside a callback, and it is never
    suspended by a switch without callback; its only publications are those between the save and
    the resume of a switch-with-callback, i.e. inside the callback. *)
Theorem C03_callbacks_after_save : forall evs, pub_check evs = true ->
  forall trace, Forall (fun e => In e evs) trace ->
    safe_run (flat_map expand trace) (mkPst false false) = true /\
    Forall (fun e => e <> PPubSelf /\ e <> PSwitchPlainThread) trace.
Proof. exact pub_check_sound. Qed.
Print Assumptions C03_callbacks_after_save.

(* ------------------------------------------------------------------ *)
(** * floating-point control state (MXCSR control bits, x87 control word)

    Scope of the theorems above: rsp, the INTEGER callee-saved registers rbp rbx r12-r15, the
    undeclared registers and the stack.  The ABI also makes the control bits of MXCSR and the x87
    control word callee-saved.  The switch sequences of the current tree do not save them
    (MYTH_SAVE_FPCSR is 0), so the FULL statement of the property for them,

      forall A B (accepted) s0 fp0 sB fpB (hypotheses of C03_ctx_check_sound),
        the control state after suspend-at-A / resume-through-B equals fp0,

    is false of the faithful model: the thread finds whatever the resuming worker was left with. *)

(** in the setting of C03_ctx_check_sound on extended states, the control state after the
    resumption is the one of the resuming worker *)
Theorem C03_fp_control_follows_worker : forall lblf cb hi, abi_callee hi cb ->
  forall A B pa pb depth r0,
    ctx_check A = true -> ctx_check B = true ->
    site_parts (code A) = Some pa -> site_parts (code B) = Some pb ->
    site_summary A = Some (depth, r0) ->
    forall s0 fp0,
      rg s0 RSP <= hi -> ~ (rg s0 RSP - depth <= rg s0 r0 < hi) ->
      exists x1,
        xrun (lblf (sid A)) cb (save_code pa) (mkX s0 fp0) = XNext x1 /\
        rg (xcore x1) RSP = rg s0 RSP - depth /\ mem (xcore x1) (rg s0 r0) = rg (xcore x1) RSP /\
        xfp x1 = fp0 /\
        forall sB fpB,
          (forall a, rg (xcore x1) RSP <= a < hi -> mem sB a = mem (xcore x1) a) ->
          mem sB (rg sB (p_load pb)) = rg (xcore x1) RSP ->
          exists x2 l rs x3,
            p_cont pa = Some (l, rs) /\
            xrun (lblf (sid B)) cb (tail_code pb) (mkX sB fpB) = XJump (lblf (sid A) l) x2 /\
            xrun (lblf (sid A)) cb rs x2 = XNext x3 /\
            rg (xcore x3) RSP = rg s0 RSP /\
            (forall r, In r callee_saved -> rg (xcore x3) r = rg s0 r) /\
            (forall a, rg s0 RSP - 128 <= a < hi -> mem (xcore x3) a = mem s0 a) /\
            xfp x3 = fpB.
Proof. exact fp_control_follows_worker. Qed.
Print Assumptions C03_fp_control_follows_worker.

(** REFUTED: concrete witness (myth_swap_context as compiled; A runs round-upward, the thread
    in between leaves the worker round-downward): all hypotheses of the soundness theorem hold,
    rsp and the integer callee-saved registers are restored, the control state is not.
    Known finding C03-fp-control-not-preserved; reproduced on the real library by the fp mode of
    harness/c03_probe.c. *)
Theorem C03_fp_control_refuted :
  exists (A : site) (pa : parts) (hi : Z) (x0 x1 xB x2 x3 : xstate) (l : Z) (rs : list instr),
    ctx_check A = true /\ site_parts (code A) = Some pa /\ p_cont pa = Some (l, rs) /\
    abi_callee hi d_cb /\
    xrun (d_lbl (sid A)) d_cb (save_code pa) x0 = XNext x1 /\
    (forall a, rg (xcore x1) RSP <= a < hi -> mem (xcore xB) a = mem (xcore x1) a) /\
    mem (xcore xB) (rg (xcore xB) (p_load pa)) = rg (xcore x1) RSP /\
    xrun (d_lbl (sid A)) d_cb (tail_code pa) xB = XJump (d_lbl (sid A) l) x2 /\
    xrun (d_lbl (sid A)) d_cb rs x2 = XNext x3 /\
    rg (xcore x3) RSP = rg (xcore x0) RSP /\
    (forall r, In r callee_saved -> rg (xcore x3) r = rg (xcore x0) r) /\
    xfp x0 = FP_UPWARD /\ xfp x3 = FP_DOWNWARD /\ fp_eqb (xfp x3) (xfp x0) = false.
Proof. exact fp_control_refuted. Qed.
Print Assumptions C03_fp_control_refuted.

(** PARTIAL: under the guard that the resuming worker still has the control state the thread
    was suspended with (no thread changes it, or every thread that does restores it before it
    switches) the thread finds it unchanged.  Missing for the full statement: a save / restore of
    MXCSR and the x87 control word in the switch sequences. *)
Theorem C03_fp_control_partial : forall lblf cb hi, abi_callee hi cb ->
  forall A B pa pb depth r0,
    ctx_check A = true -> ctx_check B = true ->
    site_parts (code A) = Some pa -> site_parts (code B) = Some pb ->
    site_summary A = Some (depth, r0) ->
    forall s0 fp0 x1 sB x2 l rs x3,
      rg s0 RSP <= hi -> ~ (rg s0 RSP - depth <= rg s0 r0 < hi) ->
      xrun (lblf (sid A)) cb (save_code pa) (mkX s0 fp0) = XNext x1 ->
      (forall a, rg (xcore x1) RSP <= a < hi -> mem sB a = mem (xcore x1) a) ->
      mem sB (rg sB (p_load pb)) = rg (xcore x1) RSP ->
      xrun (lblf (sid B)) cb (tail_code pb) (mkX sB fp0) = XJump (lblf (sid A) l) x2 ->
      xrun (lblf (sid A)) cb rs x2 = XNext x3 ->
      xfp x3 = fp0.
Proof. exact fp_control_partial. Qed.
Print Assumptions C03_fp_control_partial.

(* ------------------------------------------------------------------ *)
(** * non-vacuity: the hypotheses are met by the sites of the pinned tree and by concrete states *)

Example pinned_sites_accepted : forallb ctx_check sites = true.
Proof. vm_compute; reflexivity. Qed.

Example pinned_make_context_accepted :
  mk_check_empty mk_empty_ops && mk_check_voidcall mk_voidcall_ops = true.
Proof. vm_compute; reflexivity. Qed.

(** site_2 = myth_swap_context at myth_worker_func.h:605: saved rsp 192 bytes down, context in rax *)
Example pinned_swap_summary : site_summary site_2 = Some (192, RAX).
Proof. vm_compute; reflexivity. Qed.

Example pinned_kinds :
  map (fun s => match site_parts (code s) with
                | Some p => (match p_save p with Some _ => 1 | None => 0 end, Z.of_nat (length (p_calls p)))
                | None => (-1, -1) end) [site_0; site_2; site_3]
  = [(0, 1); (1, 0); (1, 1)].
Proof. vm_compute; reflexivity. Qed.

(** an adversarial callback (all caller-saved registers clobbered, everything below rsp scribbled)
    satisfies the ABI hypothesis, for every stack top *)
Example abi_callee_inhabited : forall hi, abi_callee hi d_cb.
Proof. exact d_cb_abi. Qed.

(** the side conditions of C03_ctx_check_sound hold in a concrete state *)
Example sound_side_conditions :
  rg d_state0 RSP <= d_rsp0 + 4096 /\
  ~ (rg d_state0 RSP - 192 <= rg d_state0 RAX < d_rsp0 + 4096) /\ rg d_state0 RSP mod 16 = 0.
Proof. vm_compute. split; [discriminate|]. split; [intros [H1 H2]; apply H1; reflexivity|reflexivity]. Qed.

(** ... and the concrete run agrees with the theorem: no difference reported *)
Example pinned_concrete_runs_clean : flat_map diagnose sites = [].
Proof. vm_compute; reflexivity. Qed.

(** the checker is not trivially true: the realistic breakages are rejected, a consistent
    reordering of pushes and pops is accepted *)
Definition swap_with (c : list instr) : site :=
  mkSite 0 c [RAX; RCX; RDX; RSI; RDI] [RAX; RDX] [R8; R9; R10; R11] true true.

Example rejects_dropped_push : ctx_check (swap_with
  [ISubRsp 128; IPush RBP; IPush RBX; IPush R12; IPush R14; IPush R15; ISubRsp 8; ILea 1 RBP; IPush RBP;
   IStoreRsp RAX; ILoadRsp RDX; IPop RAX; IJmp RAX; ILabel 1; IAddRsp 8;
   IPop R15; IPop R14; IPop R13; IPop R12; IPop RBX; IPop RBP; IAddRsp 128]) = false.
Proof. vm_compute; reflexivity. Qed.

Example rejects_swapped_pops : ctx_check (swap_with
  [ISubRsp 128; IPush RBP; IPush RBX; IPush R12; IPush R13; IPush R14; IPush R15; ISubRsp 8; ILea 1 RBP; IPush RBP;
   IStoreRsp RAX; ILoadRsp RDX; IPop RAX; IJmp RAX; ILabel 1; IAddRsp 8;
   IPop R15; IPop R13; IPop R14; IPop R12; IPop RBX; IPop RBP; IAddRsp 128]) = false.
Proof. vm_compute; reflexivity. Qed.

Example rejects_short_red_zone : ctx_check (swap_with
  [ISubRsp 120; IPush RBP; IPush RBX; IPush R12; IPush R13; IPush R14; IPush R15; ISubRsp 8; ILea 1 RBP; IPush RBP;
   IStoreRsp RAX; ILoadRsp RDX; IPop RAX; IJmp RAX; ILabel 1; IAddRsp 8;
   IPop R15; IPop R14; IPop R13; IPop R12; IPop RBX; IPop RBP; IAddRsp 120]) = false.
Proof. vm_compute; reflexivity. Qed.

Example rejects_missing_pad : ctx_check (swap_with
  [ISubRsp 128; IPush RBP; IPush RBX; IPush R12; IPush R13; IPush R14; IPush R15; ILea 1 RBP; IPush RBP;
   IStoreRsp RAX; ILoadRsp RDX; IPop RAX; IJmp RAX; ILabel 1;
   IPop R15; IPop R14; IPop R13; IPop R12; IPop RBX; IPop RBP; IAddRsp 128]) = false.
Proof. vm_compute; reflexivity. Qed.

Example rejects_missing_clobber : ctx_check
  (mkSite 0 (code site_2) [RAX; RCX; RDX; RSI; RDI] [RAX; RDX] [R8; R9; R10] true true) = false.
Proof. vm_compute; reflexivity. Qed.

Example accepts_consistent_reordering : ctx_check (swap_with
  [ISubRsp 136; IPush RBX; IPush RBP; IPush R12; IPush R13; IPush R14; IPush R15; ILea 1 RBP; IPush RBP;
   IStoreRsp RAX; ILoadRsp RDX; IPop RAX; IJmp RAX; ILabel 1;
   IPop R15; IPop R14; IPop R13; IPop R12; IPop RBP; IPop RBX; IAddRsp 136]) = true.
Proof. vm_compute; reflexivity. Qed.

Example rejects_misaligned_empty_context :
  mk_check_empty [MkAnd (W64 - 16); MkSetRsp (-8)] = false.
Proof. vm_compute; reflexivity. Qed.

(** the carve-out of the pinned tree is accepted; the by-value refactoring that loses the lowered
    stack top is rejected, with concrete overlapping bytes *)
Example pinned_custom_data_accepted : cd_check cd_layout = true.
Proof. vm_compute; reflexivity. Qed.

Example pinned_custom_data_hypotheses :
  cd_empty_top cd_layout = Some (mkLin 1 (-16) (-1) 0) /\ cd_ptr cd_layout = Some (mkLin 1 0 (-1) 0) /\
  64 <= lin_eval d_rsp0 100 (mkLin 1 (-16) (-1) 0) /\ d_rsp0 < W64 /\ diag_cd cd_layout = [].
Proof. vm_compute. repeat split; discriminate. Qed.

Example rejects_lost_carve :
  let c := mkCarve (Some (mkLin 1 0 0 0)) (Some (mkLin 1 0 0 0)) (Some (mkLin 1 0 (-1) 0))
                   (Some (mkLin 1 0 (-1) 0)) (Some (mkLin 0 0 0 1)) true in
  cd_check c = false /\ In (10, 1, d_rsp0 - 16, d_rsp0 - 15) (diag_cd c).
Proof. vm_compute. split; [reflexivity|left; reflexivity]. Qed.

(** publication order: every switching body of the pinned tree is accepted; a body that puts the
    running thread into the run queue and then switches without callback (the "local rotation
    fast path") is rejected, and is unsafe in the model *)
Example pinned_publish_accepted : forallb pub_check bodies = true /\ (3 <= length bodies)%nat.
Proof. vm_compute. split; [reflexivity|repeat constructor]. Qed.

Example rejects_publish_before_save :
  pub_check [PPubSelf; PSwitchPlainThread; PSwitchCall 10] = false /\
  safe_run (flat_map expand [PPubSelf; PSwitchPlainThread]) (mkPst false false) = false.
Proof. vm_compute; split; reflexivity. Qed.

(** the witness site of C03_fp_control_refuted is the swap site of the pinned tree *)
Example fp_witness_is_pinned_site : code fp_witness_site = code site_2 /\ outs fp_witness_site = outs site_2 /\
  ins fp_witness_site = ins site_2 /\ clobs fp_witness_site = clobs site_2.
Proof. repeat split; reflexivity. Qed.
