(** Protocol-independent facts about the scheduler-level machine used by the composition:
    which move can give a place to which thread, parked threads stay parked under all other
    moves, saving the context of the current thread parks it. *)
From Coq Require Import List Bool Arith Lia.
From MT Require Import Lib.Interleave Machine.MachineModel Compose.GenericModel.
From MT Require Machine.MachineProofs.
Import ListNotations.
Module MP := MachineProofs.

(* ---------------------------------------------------------------------------------------- *)
(** * Machine: which move can give a place to which thread *)

Definition gains (s : mstate) (w : nat) (m : move) : option nat :=
  match m with
  | CreateCF c | CreatePF c => Some c
  | TakeJoiner j => Some j
  | PushTop x => Some x
  | PutBase => match nth_error (cur s) w with Some (Cb t) => Some t | _ => None end
  | _ => None
  end.

Ltac occs := unfold places, occ_cur, occ_hand, occ_dq, set_cur, set_hand, set_dq, set_stat in *;
  cbn [cur hand dq stat b2n] in *.

Lemma b2n_neq a b : a <> b -> b2n (Nat.eqb a b) = 0.
Proof. intros H. destruct (Nat.eqb_spec a b); [congruence|reflexivity]. Qed.

Lemma parked_spec s x : parked s x = true <-> is_live s x = true /\ places s x = 0.
Proof.
  unfold parked. rewrite andb_true_iff, Nat.eqb_eq. tauto.
Qed.

Lemma is_live_set_cur s w m x : is_live (set_cur s w m) x = is_live s x. Proof. reflexivity. Qed.
Lemma is_live_set_hand s w m x : is_live (set_hand s w m) x = is_live s x. Proof. reflexivity. Qed.
Lemma is_live_set_dq s w m x : is_live (set_dq s w m) x = is_live s x. Proof. reflexivity. Qed.

(** a parked thread stays parked under every move that does not give it a place *)
Lemma mmove_parked s w m s' x :
  mmove s w m = Some s' -> parked s x = true -> gains s w m <> Some x -> parked s' x = true.
Proof.
  intros Hm Hp Hg. apply parked_spec in Hp as [Hl H0]. apply parked_spec.
  unfold mmove in Hm. unfold gains in Hg.
  destruct (nth_error (cur s) w) as [cw|] eqn:Ec; [|discriminate].
  destruct (nth_error (hand s) w) as [hw|] eqn:Eh; [|discriminate].
  destruct (nth_error (dq s) w) as [qw|] eqn:Eq; [|discriminate].
  destruct m as [c|c| |v|j| | | |y| | |v].
  - destruct cw as [|p|p]; try discriminate.
    destruct (is_fresh s c) eqn:Ef; [|discriminate]. injection Hm as <-.
    assert (Hcx : c <> x) by congruence.
    pose proof (MP.sumf_upd (w_cur x) (cur s) w (Run c) (Run p) Ec) as Hc.
    pose proof (MP.sumf_upd (w_q x) (dq s) w (qw ++ [p]) qw Eq) as Hq.
    rewrite MP.w_q_app, MP.w_q_single in Hq. cbn [w_cur] in Hc. rewrite (b2n_neq c x Hcx) in Hc.
    split.
    + rewrite MP.is_live_set_stat. cbn [set_dq set_cur stat]. rewrite (proj2 (Nat.eqb_neq c x) Hcx). exact Hl.
    + occs. lia.
  - destruct cw as [|p|p]; try discriminate.
    destruct (is_fresh s c) eqn:Ef; [|discriminate]. injection Hm as <-.
    assert (Hcx : c <> x) by congruence.
    pose proof (MP.sumf_upd (w_q x) (dq s) w (qw ++ [c]) qw Eq) as Hq.
    rewrite MP.w_q_app, MP.w_q_single in Hq. rewrite (b2n_neq c x Hcx) in Hq.
    split.
    + rewrite MP.is_live_set_stat. cbn [set_dq set_cur stat]. rewrite (proj2 (Nat.eqb_neq c x) Hcx). exact Hl.
    + occs. lia.
  - assert (exists r y, hw = None /\ split_last qw = Some (r, y) /\ s' = set_hand (set_dq s w r) w (Some y)) as (r & y & -> & Hsp & ->).
    { destruct cw; try discriminate; destruct hw; try discriminate;
      destruct (split_last qw) as [[r y]|] eqn:Hsp; try discriminate; injection Hm as <-; eauto. }
    apply MP.split_last_spec in Hsp. subst qw.
    pose proof (MP.sumf_upd (w_q x) (dq s) w r (r ++ [y]) Eq) as Hq.
    pose proof (MP.sumf_upd (w_hand x) (hand s) w (Some y) None Eh) as Hh.
    rewrite MP.w_q_app, MP.w_q_single in Hq. cbn [w_hand] in Hh.
    split; [exact Hl|]. occs. lia.
  - assert (exists r y, hw = None /\ nth_error (dq s) v = Some (y :: r) /\ s' = set_hand (set_dq s v r) w (Some y)) as (r & y & -> & Ev & ->).
    { destruct cw; try discriminate; destruct hw; try discriminate;
      destruct (nth_error (dq s) v) as [[|y r]|] eqn:Ev; try discriminate;
      destruct (Nat.eqb v w); try discriminate; injection Hm as <-; eauto. }
    pose proof (MP.sumf_upd (w_q x) (dq s) v r (y :: r) Ev) as Hq.
    pose proof (MP.sumf_upd (w_hand x) (hand s) w (Some y) None Eh) as Hh.
    rewrite MP.w_q_cons in Hq. cbn [w_hand] in Hh.
    split; [exact Hl|]. occs. lia.
  - destruct cw as [|p|p]; try discriminate. destruct hw; try discriminate.
    destruct (parked s j) eqn:Ep; [|discriminate]. injection Hm as <-.
    assert (Hjx : j <> x) by congruence.
    pose proof (MP.sumf_upd (w_hand x) (hand s) w (Some j) None Eh) as Hh. cbn [w_hand] in Hh.
    rewrite (b2n_neq j x Hjx) in Hh. split; [exact Hl|]. occs. lia.
  - destruct cw as [|p|p]; try discriminate. injection Hm as <-.
    pose proof (MP.sumf_upd (w_cur x) (cur s) w (Cb p) (Run p) Ec) as Hc. cbn [w_cur] in Hc.
    split; [exact Hl|]. occs. lia.
  - destruct cw as [|p|p]; try discriminate. injection Hm as <-.
    pose proof (MP.sumf_upd (w_cur x) (cur s) w (Cb p) (Run p) Ec) as Hc. cbn [w_cur] in Hc.
    assert (Hpx : p <> x).
    { intros ->. rewrite Nat.eqb_refl in Hc. cbn [b2n] in Hc. occs. lia. }
    split.
    + rewrite MP.is_live_set_stat. cbn [set_cur stat]. rewrite (proj2 (Nat.eqb_neq p x) Hpx). exact Hl.
    + occs. lia.
  - destruct cw as [|p|p]; try discriminate.
    destruct (parked s p) eqn:Ep; [|discriminate]. injection Hm as <-.
    assert (Hpx : p <> x) by congruence.
    pose proof (MP.sumf_upd (w_q x) (dq s) w (p :: qw) qw Eq) as Hq. rewrite MP.w_q_cons in Hq.
    rewrite (b2n_neq p x Hpx) in Hq. split; [exact Hl|]. occs. lia.
  - destruct (parked s y) eqn:Ep; [|discriminate]. injection Hm as <-.
    assert (Hyx : y <> x) by congruence.
    pose proof (MP.sumf_upd (w_q x) (dq s) w (qw ++ [y]) qw Eq) as Hq.
    rewrite MP.w_q_app, MP.w_q_single in Hq. rewrite (b2n_neq y x Hyx) in Hq.
    split; [exact Hl|]. occs. lia.
  - destruct cw as [|p|p]; try discriminate.
    destruct hw as [n|]; injection Hm as <-.
    + pose proof (MP.sumf_upd (w_cur x) (cur s) w (Run n) (Cb p) Ec) as Hc. cbn [w_cur] in Hc.
      pose proof (MP.sumf_upd (w_hand x) (hand s) w None (Some n) Eh) as Hh. cbn [w_hand] in Hh.
      split; [exact Hl|]. occs. lia.
    + pose proof (MP.sumf_upd (w_cur x) (cur s) w Sched (Cb p) Ec) as Hc. cbn [w_cur] in Hc.
      split; [exact Hl|]. occs. lia.
  - destruct cw as [|p|p]; try discriminate. destruct hw as [n|]; try discriminate. injection Hm as <-.
    pose proof (MP.sumf_upd (w_cur x) (cur s) w (Run n) Sched Ec) as Hc. cbn [w_cur] in Hc.
    pose proof (MP.sumf_upd (w_hand x) (hand s) w None (Some n) Eh) as Hh. cbn [w_hand] in Hh.
    split; [exact Hl|]. occs. lia.
  - destruct cw as [|p|p]; try discriminate. destruct hw as [y|]; try discriminate.
    destruct (nth_error (dq s) v) as [qv|] eqn:Ev; [|discriminate]. injection Hm as <-.
    pose proof (MP.sumf_upd (w_hand x) (hand s) w None (Some y) Eh) as Hh. cbn [w_hand] in Hh.
    pose proof (MP.sumf_upd (w_q x) (dq s) v (y :: qv) qv Ev) as Hq. rewrite MP.w_q_cons in Hq.
    split; [exact Hl|]. occs. lia.
Qed.

Lemma sumf_ge_nth {A} (f : A -> nat) l i a : nth_error l i = Some a -> f a <= MachineModel.sumf f l.
Proof.
  revert i; induction l as [|z l IH]; intros [|i] H; cbn in H; try discriminate; cbn [MachineModel.sumf].
  - injection H as ->. lia.
  - specialize (IH i H). lia.
Qed.

Lemma sumf_ge2_nth {A} (f : A -> nat) l i j a b :
  i <> j -> nth_error l i = Some a -> nth_error l j = Some b -> f a + f b <= MachineModel.sumf f l.
Proof.
  revert i j; induction l as [|z l IH]; intros [|i] [|j] Hij Hi Hj; cbn in Hi, Hj; try discriminate;
    try congruence; cbn [MachineModel.sumf].
  - injection Hi as ->. pose proof (sumf_ge_nth f l j b Hj). lia.
  - injection Hj as ->. pose proof (sumf_ge_nth f l i a Hi). lia.
  - assert (i <> j) by congruence. specialize (IH i j H Hi Hj). lia.
Qed.

Lemma w_q_in t q : In t q -> 1 <= w_q t q.
Proof.
  unfold w_q. induction q as [|y q IH]; cbn [In MachineModel.sumf]; [contradiction|].
  intros [->|H]; [rewrite Nat.eqb_refl; cbn; lia | specialize (IH H); lia].
Qed.

(** a thread with no place is current nowhere, in no hand, in no run queue *)
Lemma no_place_nowhere s x : places s x = 0 ->
  forall w, nth_error (cur s) w <> Some (Run x) /\ nth_error (hand s) w <> Some (Some x) /\
            (forall q, nth_error (dq s) w = Some q -> ~ In x q).
Proof.
  intros H w. unfold places, occ_cur, occ_hand, occ_dq in H. repeat split.
  - intros E. pose proof (sumf_ge_nth (w_cur x) _ _ _ E) as G. cbn in G. rewrite Nat.eqb_refl in G. cbn in G. lia.
  - intros E. pose proof (sumf_ge_nth (w_hand x) _ _ _ E) as G. cbn in G. rewrite Nat.eqb_refl in G. cbn in G. lia.
  - intros q E Hin. pose proof (sumf_ge_nth (w_q x) _ _ _ E) as G. pose proof (w_q_in x q Hin). lia.
Qed.

(** a thread that is current on a worker occupies that place only *)
Lemma current_unique s w t : MP.Inv s -> nth_error (cur s) w = Some (Run t) ->
  is_live s t = true /\ places s t = 1 /\
  (forall w', nth_error (cur s) w' = Some (Run t) -> w' = w) /\
  (forall w', nth_error (hand s) w' <> Some (Some t)) /\
  (forall w' q, nth_error (dq s) w' = Some q -> ~ In t q).
Proof.
  intros I Ec. destruct (I t) as [H1 H0].
  pose proof (sumf_ge_nth (w_cur t) _ _ _ Ec) as G. cbn in G. rewrite Nat.eqb_refl in G. cbn in G.
  assert (Hp : places s t = 1) by (unfold places, occ_cur in *; lia).
  repeat split.
  - destruct (is_live s t) eqn:E; [reflexivity|]. specialize (H0 eq_refl). lia.
  - exact Hp.
  - intros w' Ec'. destruct (Nat.eq_dec w' w) as [E|Hne]; [exact E|exfalso].
    pose proof (sumf_ge2_nth (w_cur t) _ _ _ _ _ Hne Ec' Ec) as G2. cbn in G2. rewrite Nat.eqb_refl in G2. cbn in G2.
    unfold places, occ_cur in *. lia.
  - intros w' E. pose proof (sumf_ge_nth (w_hand t) _ _ _ E) as G2. cbn in G2. rewrite Nat.eqb_refl in G2. cbn in G2.
    unfold places, occ_cur, occ_hand in *. lia.
  - intros w' q E Hin. pose proof (sumf_ge_nth (w_q t) _ _ _ E) as G2. pose proof (w_q_in t q Hin).
    unfold places, occ_cur, occ_dq in *. lia.
Qed.

(** the three per-worker lists have the same length *)
Definition Shape (s : mstate) : Prop := length (hand s) = length (cur s) /\ length (dq s) = length (cur s).

Lemma mmove_shape s w m s' : mmove s w m = Some s' -> Shape s -> Shape s'.
Proof.
  intros Hm [H1 H2]. unfold mmove in Hm.
  destruct (nth_error (cur s) w) as [cw|]; [|discriminate].
  destruct (nth_error (hand s) w) as [hw|]; [|discriminate].
  destruct (nth_error (dq s) w) as [qw|]; [|discriminate].
  destruct m; repeat match type of Hm with
    | context [match ?x with _ => _ end] => destruct x eqn:?
    end; try discriminate; injection Hm as <-;
    unfold Shape, set_cur, set_hand, set_dq, set_stat; cbn [cur hand dq stat]; rewrite ?MP.upd_length; split; assumption.
Qed.

Lemma shape_lookup s w cw : Shape s -> nth_error (cur s) w = Some cw ->
  exists hw qw, nth_error (hand s) w = Some hw /\ nth_error (dq s) w = Some qw.
Proof.
  intros [H1 H2] Ec. assert (Hw : w < length (cur s)) by (apply nth_error_Some; congruence).
  destruct (nth_error (hand s) w) as [hw|] eqn:Eh; [|apply nth_error_None in Eh; lia].
  destruct (nth_error (dq s) w) as [qw|] eqn:Eq; [|apply nth_error_None in Eq; lia].
  eauto.
Qed.

(** saving the context of the current thread parks it *)
Lemma save_parks s w t : MP.Inv s -> Shape s -> nth_error (cur s) w = Some (Run t) ->
  exists s', mmove s w SaveCtx = Some s' /\ parked s' t = true /\ nth_error (cur s') w = Some (Cb t).
Proof.
  intros I Sh Ec. destruct (current_unique s w t I Ec) as (Hl & Hp & _).
  destruct (shape_lookup s w _ Sh Ec) as (hw & qw & Eh & Eq).
  exists (set_cur s w (Cb t)). split; [unfold mmove; rewrite Ec, Eh, Eq; reflexivity|]. split.
  - apply parked_spec. split; [exact Hl|].
    pose proof (MP.sumf_upd (w_cur t) (cur s) w (Cb t) (Run t) Ec) as Hc. cbn [w_cur] in Hc.
    rewrite Nat.eqb_refl in Hc. cbn [b2n] in Hc. occs. lia.
  - cbn [set_cur cur]. eapply MP.nth_error_upd_same; eauto.
Qed.

(** moves that leave [cur] of the worker alone *)
Lemma mmove_cur_same s w m s' : mmove s w m = Some s' ->
  match m with PopOwn | Steal _ | TakeJoiner _ | PutBase | PushTop _ | CreatePF _ => True | _ => False end ->
  cur s' = cur s.
Proof.
  intros Hm Hk. unfold mmove in Hm.
  destruct (nth_error (cur s) w) as [cw|]; [|discriminate].
  destruct (nth_error (hand s) w) as [hw|]; [|discriminate].
  destruct (nth_error (dq s) w) as [qw|]; [|discriminate].
  destruct m; try contradiction; repeat match type of Hm with
    | context [match ?x with _ => _ end] => destruct x eqn:?
    end; try discriminate; injection Hm as <-; reflexivity.
Qed.

Lemma autopop_spec m w m' : autopop m w = Some m' -> m' = m \/ mmove m w PopOwn = Some m'.
Proof.
  unfold autopop. destruct (nth_error (hand m) w) as [[x|]|]; try (intros E; injection E as <-; left; reflexivity).
  destruct (nth_error (dq m) w) as [[|y q]|]; try (intros E; injection E as <-; left; reflexivity).
  intros E. right. exact E.
Qed.

Lemma autopop_enabled m w t : nth_error (cur m) w = Some (Run t) -> exists m', autopop m w = Some m'.
Proof.
  intros Ec. unfold autopop.
  destruct (nth_error (hand m) w) as [[x|]|] eqn:Eh; eauto.
  destruct (nth_error (dq m) w) as [[|y q]|] eqn:Eq; eauto.
  unfold mmove. rewrite Ec, Eh, Eq. unfold split_last.
  destruct (rev (y :: q)) as [|z r] eqn:Er.
  - exfalso. apply (f_equal (@length nat)) in Er. rewrite rev_length in Er. cbn in Er. lia.
  - eauto.
Qed.

(** strict execution of a list of (worker, move) pairs *)
Fixpoint mmoves (m : mstate) (l : list (nat * move)) : option mstate :=
  match l with
  | [] => Some m
  | a :: r => match mstep m a with Some m' => mmoves m' r | None => None end
  end.

Lemma mmoves_app m l1 l2 m1 : mmoves m l1 = Some m1 -> mmoves m (l1 ++ l2) = mmoves m1 l2.
Proof.
  revert m; induction l1 as [|a r IH]; intros m H; cbn [mmoves app] in *.
  - injection H as ->. reflexivity.
  - destruct (mstep m a) as [m'|]; [apply IH; exact H|discriminate].
Qed.

Lemma mmoves_reachable nw nt m l m' :
  reachable (MP.minit_pred nw nt) mstep m -> mmoves m l = Some m' -> reachable (MP.minit_pred nw nt) mstep m'.
Proof.
  revert m; induction l as [|a r IH]; intros m R H; cbn [mmoves] in H.
  - injection H as <-. exact R.
  - destruct (mstep m a) as [m1|] eqn:E; [|discriminate]. apply (IH m1); [|exact H]. eapply reach_step; eauto.
Qed.
