(** Instances of the generic product theorems (Compose/GenericProofs.v) for the barrier (C06), the
    join counter (C07) and the uncondition variable (C08): for each model the four frame facts of
    the interface are derived from ONE lemma about the shape of a step (it rewrites the actor's
    record; a push step also resumes its target, which must have been suspended), then the
    product theorems are instantiated and combined with the invariants proved by the owners of
    the models (members of the sleep stack / sleep queue / the published slot are suspended). *)
From Coq Require Import ZArith List Bool Arith Lia.
From MT Require Import Lib.Interleave Machine.MachineModel Compose.GenericModel Compose.Instances
  Compose.MachineFrame Compose.GenericProofs.
From MT Require Machine.MachineProofs.
From MT Require Barrier.BarrierModel Barrier.BarrierLib Barrier.BarrierGhost Barrier.BarrierProofs.
From MT Require JoinCounter.JcModel JoinCounter.JcProofs JoinCounter.JcInv.
From MT Require Uncond.UncondModel Uncond.UncondProofs.
Import ListNotations.

Ltac brk_any x :=
  match x with
  | context [match ?y with _ => _ end] => brk_any y
  | _ => destruct x eqn:?
  end.
Ltac brk H := repeat (match type of H with
    | context [match ?x with _ => _ end] => brk_any x
    end); try discriminate.

Module BarrierP.
  Import BarrierModel BarrierI.

  Lemma nth_upd_eq {A} (l : list A) i x y : nth_error l i = Some y -> nth_error (upd l i x) i = Some x.
  Proof. revert i; induction l as [|z r IH]; intros [|i] H; cbn in *; try discriminate; auto. Qed.
  Lemma nth_upd_neq {A} (l : list A) i j x : i <> j -> nth_error (upd l i x) j = nth_error l j.
  Proof. revert i j; induction l as [|z r IH]; intros [|i] [|j] H; cbn; auto; try congruence. Qed.
  Lemma upd_same {A} (l : list A) i x : nth_error l i = Some x -> upd l i x = l.
  Proof. revert i; induction l as [|z r IH]; intros [|i] H; cbn in *; try discriminate; [congruence|f_equal; auto]. Qed.

  Definition is_susp (p : pc) : bool := match p with Susp => true | _ => false end.
  Lemma susp_eq s x : susp s x = match nth_error (thr s) x with Some th => is_susp (main th) | None => false end.
  Proof. unfold susp, get_thread, is_susp. destruct (nth_error (thr s) x) as [th|]; [destruct (main th)|]; reflexivity. Qed.

  (** shape of a step: it rewrites the actor's record; a push step also resumes its target, which
      was suspended *)
  Lemma step_shape s t e s1 : step s (t, e) = Some s1 ->
    exists th, nth_error (thr s) t = Some th /\
    ((exists th', thr s1 = upd (thr s) t th' /\ push s t e = None /\
                  (is_cb e = true -> main th' = main th)) \/
     (exists x thx thx' th', push s t e = Some x /\ nth_error (thr s) x = Some thx /\ main thx = Susp /\
                  thr s1 = upd (upd (thr s) x thx') t th' /\ is_susp (main thx') = false /\
                  is_susp (main th') = false /\ is_cb e = false)).
  Proof.
    intros H. cbn [step] in H. unfold push, is_cb, get_thread.
    destruct e as [o| | |v]; unfold call, tick, cbtick, ret, ret_ok, put, wake, get_thread in H;
      destruct (nth_error (thr s) t) as [th|] eqn:Hth; try discriminate; exists th; (split; [reflexivity|]).
    all: cbn [thr set_bstate set_top set_next set_thread] in H.
    all: brk H.
    all: injection H as <-; cbn [thr set_bstate set_top set_next set_thread main cb set_main set_cb].
    all: try (left; eexists; split; [first [reflexivity | symmetry; apply upd_same; eassumption]|]; split; [reflexivity|];
              intros E; first [discriminate E | reflexivity]).
    all: try (right; eexists _, _, _, _; split; [reflexivity|]; split; [eassumption|]; split; [assumption|];
              split; [reflexivity|]; split; [reflexivity|]; split; [cbn [main set_main is_susp]; first [reflexivity | destruct (_ <? _)%Z; reflexivity]|reflexivity]).
  Qed.

  Lemma f_frame s t e s1 x : step s (t, e) = Some s1 -> x <> t -> susp s1 x = true -> susp s x = true.
  Proof.
    intros H Hx. rewrite !susp_eq.
    destruct (step_shape _ _ _ _ H) as (th & Hth & [(th' & E & _)|(y & thy & thy' & th' & _ & Ey & _ & E & Hy' & _)]); rewrite E.
    - rewrite nth_upd_neq by congruence. auto.
    - rewrite nth_upd_neq by congruence. destruct (Nat.eq_dec y x) as [->|Hne].
      + rewrite (nth_upd_eq _ _ _ _ Ey). rewrite Hy'. discriminate.
      + rewrite nth_upd_neq by exact Hne. auto.
  Qed.

  Lemma f_cb s t e s1 : step s (t, e) = Some s1 -> is_cb e = true -> susp s1 t = true -> susp s t = true.
  Proof.
    intros H Hc. rewrite !susp_eq.
    destruct (step_shape _ _ _ _ H) as (th & Hth & [(th' & E & _ & Hm)|(y & thy & thy' & th' & _ & _ & _ & _ & _ & _ & Hn)]).
    - rewrite E, (nth_upd_eq _ _ _ _ Hth), Hth, (Hm Hc). auto.
    - rewrite Hc in Hn. discriminate.
  Qed.

  Lemma f_push_wakes s t e s1 x : step s (t, e) = Some s1 -> push s t e = Some x -> susp s1 x = false.
  Proof.
    intros H Hp. rewrite susp_eq.
    destruct (step_shape _ _ _ _ H) as (th & Hth & [(th' & _ & Hn & _)|(y & thy & thy' & th' & Hy & Ey & _ & E & Hy' & Ht' & _)]).
    - rewrite Hn in Hp. discriminate.
    - rewrite Hp in Hy. injection Hy as <-. rewrite E. destruct (Nat.eq_dec t x) as [->|Hne].
      + assert (Hx : nth_error (upd (thr s) x thy') x = Some thy') by (eapply nth_upd_eq; eauto).
        rewrite (nth_upd_eq _ _ _ _ Hx). exact Ht'.
      + rewrite nth_upd_neq by exact Hne. rewrite (nth_upd_eq _ _ _ _ Ey). exact Hy'.
  Qed.

  Lemma f_push_susp s t e s1 x : step s (t, e) = Some s1 -> push s t e = Some x -> susp s x = true.
  Proof.
    intros H Hp. rewrite susp_eq.
    destruct (step_shape _ _ _ _ H) as (th & Hth & [(th' & _ & Hn & _)|(y & thy & thy' & th' & Hy & Ey & Em & _)]).
    - rewrite Hn in Hp. discriminate.
    - rewrite Hp in Hy. injection Hy as <-. rewrite Ey, Em. reflexivity.
  Qed.

  (** product theorems for this instance, from any protocol state [p0] in which nobody is suspended *)
  Section Product.
    Variable p0 : state.
    Hypothesis H0 : forall x, susp p0 x = false.
    Definition preach (nw nt : nat) : pstate -> Prop := greach state ev step is_cb susp push ncb p0 nw nt.

    Lemma preach_proj nw nt c : preach nw nt c ->
      reachable (fun s => s = p0) step (gp c) /\ reachable (MachineProofs.minit_pred nw nt) mstep (gm c).
    Proof. apply greach_proj. Qed.

    Lemma p_inv nw nt c : 1 <= nt -> preach nw nt c -> GInv state susp c.
    Proof. intros Hnt R. eapply (ginv_reach state ev step is_cb susp push ncb f_frame f_cb f_push_wakes p0 H0); eauto. Qed.

    Theorem p_blocked nw nt c x : 1 <= nt -> preach nw nt c -> susp (gp c) x = true ->
      is_live (gm c) x = true /\ places (gm c) x = 0 /\
      forall w, nth_error (cur (gm c)) w <> Some (Run x) /\ nth_error (hand (gm c)) w <> Some (Some x) /\
                (forall q, nth_error (dq (gm c)) w = Some q -> ~ In x q).
    Proof. intros Hnt R. eapply (blocked_frees_worker state ev step is_cb susp push ncb f_frame f_cb f_push_wakes p0 H0); eauto. Qed.

    Theorem p_unique nw nt c w t e c' : 1 <= nt -> preach nw nt c ->
      pstep c (GSync w t e) = Some c' -> is_cb e = false ->
      nth_error (cur (gm c)) w = Some (Run t) /\ places (gm c) t = 1 /\
      (forall w', nth_error (cur (gm c)) w' = Some (Run t) -> w' = w) /\
      (forall w', nth_error (hand (gm c)) w' <> Some (Some t)) /\
      (forall w' q, nth_error (dq (gm c)) w' = Some q -> ~ In t q) /\
      susp (gp c) t = false.
    Proof. intros Hnt R. eapply (own_step_on_unique_worker state ev step is_cb susp push ncb f_frame f_cb f_push_wakes p0 H0); eauto. Qed.

    Theorem p_wake_once nw nt c w t e s1 x : 1 <= nt -> preach nw nt c ->
      guard_ok ev is_cb (gm c) w t e = true -> step (gp c) (t, e) = Some s1 -> push (gp c) t e = Some x ->
      exists m1, mmove (gm c) w (PushTop x) = Some m1 /\ places (gm c) x = 0 /\ places m1 x = 1 /\
                 is_live (gm c) x = true.
    Proof. intros Hnt R. eapply (wake_inserts_once state ev step is_cb susp push ncb f_frame f_cb f_push_wakes f_push_susp p0 H0); eauto. Qed.

    Theorem p_never_stuck nw nt c w t e s1 : 1 <= nt -> preach nw nt c ->
      guard_ok ev is_cb (gm c) w t e = true -> step (gp c) (t, e) = Some s1 ->
      exists c', pstep c (GSync w t e) = Some c' /\ gp c' = s1.
    Proof. intros Hnt R. eapply (gsync_never_stuck state ev step is_cb susp push ncb f_frame f_cb f_push_wakes f_push_susp p0 H0); eauto. Qed.
  End Product.

  Lemma susp_init nt n x : susp (init_state nt n) x = false.
  Proof.
    rewrite susp_eq. unfold init_state; cbn [thr]. destruct (nth_error (repeat thread0 nt) x) as [th|] eqn:E; [|reflexivity].
    apply nth_error_In, repeat_spec in E. subst th. reflexivity.
  Qed.

  (** members of the sleep stack are suspended (owner's theorem C06_stack_repr, N threads on a barrier for N) *)
  Lemma stack_members_susp nw N c x : 1 <= N -> preach (init_state N (Z.of_nat N)) nw N c ->
    In x (fst (stack_list (gp c))) -> susp (gp c) x = true.
  Proof.
    intros HN R Hin. destruct (preach_proj _ _ _ _ R) as [Rs _].
    assert (Rm : BarrierProofs.mreach N (gp c)).
    { clear R Hin. induction Rs as [s E|s a s' Rs IH Hst]; [apply reach_init; split; [exact HN|exact E] | eapply reach_step; eauto]. }
    destruct (BarrierProofs.stack_repr N _ Rm) as (l & _ & _ & Hl & E). rewrite E in Hin. cbn [fst] in Hin.
    destruct (Hl x Hin) as (_ & Hm & _). rewrite susp_eq. unfold BarrierGhost.mn, BarrierGhost.thr_at in Hm.
    destruct (nth_error (thr (gp c)) x) as [th|] eqn:Ex.
    - erewrite nth_error_nth in Hm by exact Ex. rewrite Hm. reflexivity.
    - exfalso. apply nth_error_None in Ex. rewrite nth_overflow in Hm by exact Ex. discriminate Hm.
  Qed.
End BarrierP.

Module JcP.
  Import JcModel JcI.

  Lemma nth_upd_eq {A} (l : list A) i x y : nth_error l i = Some y -> nth_error (upd l i x) i = Some x.
  Proof. revert i; induction l as [|z r IH]; intros [|i] H; cbn in *; try discriminate; auto. Qed.
  Lemma nth_upd_neq {A} (l : list A) i j x : i <> j -> nth_error (upd l i x) j = nth_error l j.
  Proof. revert i j; induction l as [|z r IH]; intros [|i] [|j] H; cbn; auto; try congruence. Qed.
  Lemma upd_same {A} (l : list A) i x : nth_error l i = Some x -> upd l i x = l.
  Proof. revert i; induction l as [|z r IH]; intros [|i] H; cbn in *; try discriminate; [congruence|f_equal; auto]. Qed.

  Definition is_susp (p : pc) : bool := match p with Susp => true | _ => false end.
  Lemma susp_eq s x : susp s x = match nth_error (thr s) x with Some th => is_susp (main th) | None => false end.
  Proof. unfold susp, get_thread, is_susp. destruct (nth_error (thr s) x) as [th|]; [destruct (main th)|]; reflexivity. Qed.

  (** shape of a step: it rewrites the actor's record; a push step also resumes its target, which
      was suspended *)
  Lemma step_shape s t e s1 : step s (t, e) = Some s1 ->
    exists th, nth_error (thr s) t = Some th /\
    ((exists th', thr s1 = upd (thr s) t th' /\ push s t e = None /\
                  (is_cb e = true -> main th' = main th)) \/
     (exists x thx thx' th', push s t e = Some x /\ nth_error (thr s) x = Some thx /\ main thx = Susp /\
                  thr s1 = upd (upd (thr s) x thx') t th' /\ is_susp (main thx') = false /\
                  is_susp (main th') = false /\ is_cb e = false)).
  Proof.
    intros H. cbn [step] in H. unfold push, is_cb, get_thread.
    destruct e as [o| | |v]; unfold call, tick, cbtick, ret, ret_ok, put, wake, g_call, g_dec, g_push, g_final, get_thread in H;
      destruct (nth_error (thr s) t) as [th|] eqn:Hth; try discriminate; exists th; (split; [reflexivity|]).
    all: cbn [thr set_word set_sq set_thr set_gh set_thread] in H.
    all: brk H.
    all: injection H as <-; cbn [thr set_word set_sq set_thr set_gh set_thread main cb set_main set_cb].
    all: try (left; eexists; split; [first [reflexivity | symmetry; apply upd_same; eassumption]|]; split; [reflexivity|];
              intros E; first [discriminate E | reflexivity]).
    all: try (right; eexists _, _, _, _; split; [reflexivity|]; split; [eassumption|]; split; [assumption|];
              split; [reflexivity|]; split; [reflexivity|]; split; [cbn [main set_main is_susp]; first [reflexivity | destruct (_ <? _)%Z; reflexivity]|reflexivity]).
  Qed.

  Lemma f_frame s t e s1 x : step s (t, e) = Some s1 -> x <> t -> susp s1 x = true -> susp s x = true.
  Proof.
    intros H Hx. rewrite !susp_eq.
    destruct (step_shape _ _ _ _ H) as (th & Hth & [(th' & E & _)|(y & thy & thy' & th' & _ & Ey & _ & E & Hy' & _)]); rewrite E.
    - rewrite nth_upd_neq by congruence. auto.
    - rewrite nth_upd_neq by congruence. destruct (Nat.eq_dec y x) as [->|Hne].
      + rewrite (nth_upd_eq _ _ _ _ Ey). rewrite Hy'. discriminate.
      + rewrite nth_upd_neq by exact Hne. auto.
  Qed.

  Lemma f_cb s t e s1 : step s (t, e) = Some s1 -> is_cb e = true -> susp s1 t = true -> susp s t = true.
  Proof.
    intros H Hc. rewrite !susp_eq.
    destruct (step_shape _ _ _ _ H) as (th & Hth & [(th' & E & _ & Hm)|(y & thy & thy' & th' & _ & _ & _ & _ & _ & _ & Hn)]).
    - rewrite E, (nth_upd_eq _ _ _ _ Hth), Hth, (Hm Hc). auto.
    - rewrite Hc in Hn. discriminate.
  Qed.

  Lemma f_push_wakes s t e s1 x : step s (t, e) = Some s1 -> push s t e = Some x -> susp s1 x = false.
  Proof.
    intros H Hp. rewrite susp_eq.
    destruct (step_shape _ _ _ _ H) as (th & Hth & [(th' & _ & Hn & _)|(y & thy & thy' & th' & Hy & Ey & _ & E & Hy' & Ht' & _)]).
    - rewrite Hn in Hp. discriminate.
    - rewrite Hp in Hy. injection Hy as <-. rewrite E. destruct (Nat.eq_dec t x) as [->|Hne].
      + assert (Hx : nth_error (upd (thr s) x thy') x = Some thy') by (eapply nth_upd_eq; eauto).
        rewrite (nth_upd_eq _ _ _ _ Hx). exact Ht'.
      + rewrite nth_upd_neq by exact Hne. rewrite (nth_upd_eq _ _ _ _ Ey). exact Hy'.
  Qed.

  Lemma f_push_susp s t e s1 x : step s (t, e) = Some s1 -> push s t e = Some x -> susp s x = true.
  Proof.
    intros H Hp. rewrite susp_eq.
    destruct (step_shape _ _ _ _ H) as (th & Hth & [(th' & _ & Hn & _)|(y & thy & thy' & th' & Hy & Ey & Em & _)]).
    - rewrite Hn in Hp. discriminate.
    - rewrite Hp in Hy. injection Hy as <-. rewrite Ey, Em. reflexivity.
  Qed.

  (** product theorems for this instance, from any protocol state [p0] in which nobody is suspended *)
  Section Product.
    Variable p0 : state.
    Hypothesis H0 : forall x, susp p0 x = false.
    Definition preach (nw nt : nat) : pstate -> Prop := greach state ev step is_cb susp push ncb p0 nw nt.

    Lemma preach_proj nw nt c : preach nw nt c ->
      reachable (fun s => s = p0) step (gp c) /\ reachable (MachineProofs.minit_pred nw nt) mstep (gm c).
    Proof. apply greach_proj. Qed.

    Lemma p_inv nw nt c : 1 <= nt -> preach nw nt c -> GInv state susp c.
    Proof. intros Hnt R. eapply (ginv_reach state ev step is_cb susp push ncb f_frame f_cb f_push_wakes p0 H0); eauto. Qed.

    Theorem p_blocked nw nt c x : 1 <= nt -> preach nw nt c -> susp (gp c) x = true ->
      is_live (gm c) x = true /\ places (gm c) x = 0 /\
      forall w, nth_error (cur (gm c)) w <> Some (Run x) /\ nth_error (hand (gm c)) w <> Some (Some x) /\
                (forall q, nth_error (dq (gm c)) w = Some q -> ~ In x q).
    Proof. intros Hnt R. eapply (blocked_frees_worker state ev step is_cb susp push ncb f_frame f_cb f_push_wakes p0 H0); eauto. Qed.

    Theorem p_unique nw nt c w t e c' : 1 <= nt -> preach nw nt c ->
      pstep c (GSync w t e) = Some c' -> is_cb e = false ->
      nth_error (cur (gm c)) w = Some (Run t) /\ places (gm c) t = 1 /\
      (forall w', nth_error (cur (gm c)) w' = Some (Run t) -> w' = w) /\
      (forall w', nth_error (hand (gm c)) w' <> Some (Some t)) /\
      (forall w' q, nth_error (dq (gm c)) w' = Some q -> ~ In t q) /\
      susp (gp c) t = false.
    Proof. intros Hnt R. eapply (own_step_on_unique_worker state ev step is_cb susp push ncb f_frame f_cb f_push_wakes p0 H0); eauto. Qed.

    Theorem p_wake_once nw nt c w t e s1 x : 1 <= nt -> preach nw nt c ->
      guard_ok ev is_cb (gm c) w t e = true -> step (gp c) (t, e) = Some s1 -> push (gp c) t e = Some x ->
      exists m1, mmove (gm c) w (PushTop x) = Some m1 /\ places (gm c) x = 0 /\ places m1 x = 1 /\
                 is_live (gm c) x = true.
    Proof. intros Hnt R. eapply (wake_inserts_once state ev step is_cb susp push ncb f_frame f_cb f_push_wakes f_push_susp p0 H0); eauto. Qed.

    Theorem p_never_stuck nw nt c w t e s1 : 1 <= nt -> preach nw nt c ->
      guard_ok ev is_cb (gm c) w t e = true -> step (gp c) (t, e) = Some s1 ->
      exists c', pstep c (GSync w t e) = Some c' /\ gp c' = s1.
    Proof. intros Hnt R. eapply (gsync_never_stuck state ev step is_cb susp push ncb f_frame f_cb f_push_wakes f_push_susp p0 H0); eauto. Qed.
  End Product.

  Lemma susp_init n nt s0 x : init_state n nt = Some s0 -> susp s0 x = false.
  Proof.
    unfold init_state. destruct (jc_init n) as [f|]; [|discriminate]. intros E. injection E as <-.
    rewrite susp_eq. cbn [thr]. destruct (nth_error (repeat thread0 nt) x) as [th|] eqn:E; [|reflexivity].
    apply nth_error_In, repeat_spec in E. subst th. reflexivity.
  Qed.

  (** members of the sleep queue and of the final decrementer's private list are suspended (owner's invariant) *)
  Lemma queue_members_susp n nt s0 nw c x : representable n nt = true -> init_state n nt = Some s0 ->
    preach s0 nw nt c -> In x (sq (gp c)) -> susp (gp c) x = true.
  Proof.
    intros Hr Hi R Hin. destruct (preach_proj _ _ _ _ R) as [Rs _].
    assert (Rm : JcInv.jc_reachable (gp c)).
    { clear R Hin. induction Rs as [s E|s a s' Rs IH Hst]; [apply reach_init; exists n, nt; subst s; auto | eapply reach_step; eauto]. }
    destruct (JcInv.inv_reachable _ Rm) as [G _].
    destruct (JcInv.iv_members _ G x) as (th & Hth & Hm & _); [apply in_or_app; left; exact Hin|].
    rewrite susp_eq. unfold get_thread in Hth. rewrite Hth, Hm. reflexivity.
  Qed.
End JcP.

Module UncondP.
  Import UncondModel UncondI.

  Lemma nth_upd_eq {A} (l : list A) i x y : nth_error l i = Some y -> nth_error (upd l i x) i = Some x.
  Proof. revert i; induction l as [|z r IH]; intros [|i] H; cbn in *; try discriminate; auto. Qed.
  Lemma nth_upd_neq {A} (l : list A) i j x : i <> j -> nth_error (upd l i x) j = nth_error l j.
  Proof. revert i j; induction l as [|z r IH]; intros [|i] [|j] H; cbn; auto; try congruence. Qed.
  Lemma upd_same {A} (l : list A) i x : nth_error l i = Some x -> upd l i x = l.
  Proof. revert i; induction l as [|z r IH]; intros [|i] H; cbn in *; try discriminate; [congruence|f_equal; auto]. Qed.

  Definition is_susp (p : pc) : bool := match p with Susp => true | _ => false end.
  Lemma susp_eq s x : susp s x = match nth_error (thr s) x with Some th => is_susp (main th) | None => false end.
  Proof. unfold susp, get_thread, is_susp. destruct (nth_error (thr s) x) as [th|]; [destruct (main th)|]; reflexivity. Qed.

  (** shape of a step: it rewrites the actor's record; a push step also resumes its target, which
      was suspended *)
  Lemma step_shape s t e s1 : step s (t, e) = Some s1 ->
    exists th, nth_error (thr s) t = Some th /\
    ((exists th', thr s1 = upd (thr s) t th' /\ push s t e = None /\
                  (is_cb e = true -> main th' = main th)) \/
     (exists x thx thx' th', push s t e = Some x /\ nth_error (thr s) x = Some thx /\ main thx = Susp /\
                  thr s1 = upd (upd (thr s) x thx') t th' /\ is_susp (main thx') = false /\
                  is_susp (main th') = false /\ is_cb e = false)).
  Proof.
    intros H. cbn [step] in H. unfold push, is_cb, get_thread.
    destruct e as [|o| | |v]; unfold announce, call, tick, cbtick, ret, ret_ok, wake, get_thread in H;
      destruct (nth_error (thr s) t) as [th|] eqn:Hth; try discriminate; exists th; (split; [reflexivity|]).
    all: cbn [thr set_th set_thread] in H.
    all: brk H.
    all: injection H as <-; cbn [thr set_th set_thread main cb set_main set_cb].
    all: try (left; eexists; split; [first [reflexivity | symmetry; apply upd_same; eassumption]|]; split; [reflexivity|];
              intros E; first [discriminate E | reflexivity]).
    all: try (right; eexists _, _, _, _; split; [reflexivity|]; split; [eassumption|]; split; [assumption|];
              split; [reflexivity|]; split; [reflexivity|]; split; [cbn [main set_main is_susp]; first [reflexivity | destruct (_ <? _)%Z; reflexivity]|reflexivity]).
  Qed.

  Lemma f_frame s t e s1 x : step s (t, e) = Some s1 -> x <> t -> susp s1 x = true -> susp s x = true.
  Proof.
    intros H Hx. rewrite !susp_eq.
    destruct (step_shape _ _ _ _ H) as (th & Hth & [(th' & E & _)|(y & thy & thy' & th' & _ & Ey & _ & E & Hy' & _)]); rewrite E.
    - rewrite nth_upd_neq by congruence. auto.
    - rewrite nth_upd_neq by congruence. destruct (Nat.eq_dec y x) as [->|Hne].
      + rewrite (nth_upd_eq _ _ _ _ Ey). rewrite Hy'. discriminate.
      + rewrite nth_upd_neq by exact Hne. auto.
  Qed.

  Lemma f_cb s t e s1 : step s (t, e) = Some s1 -> is_cb e = true -> susp s1 t = true -> susp s t = true.
  Proof.
    intros H Hc. rewrite !susp_eq.
    destruct (step_shape _ _ _ _ H) as (th & Hth & [(th' & E & _ & Hm)|(y & thy & thy' & th' & _ & _ & _ & _ & _ & _ & Hn)]).
    - rewrite E, (nth_upd_eq _ _ _ _ Hth), Hth, (Hm Hc). auto.
    - rewrite Hc in Hn. discriminate.
  Qed.

  Lemma f_push_wakes s t e s1 x : step s (t, e) = Some s1 -> push s t e = Some x -> susp s1 x = false.
  Proof.
    intros H Hp. rewrite susp_eq.
    destruct (step_shape _ _ _ _ H) as (th & Hth & [(th' & _ & Hn & _)|(y & thy & thy' & th' & Hy & Ey & _ & E & Hy' & Ht' & _)]).
    - rewrite Hn in Hp. discriminate.
    - rewrite Hp in Hy. injection Hy as <-. rewrite E. destruct (Nat.eq_dec t x) as [->|Hne].
      + assert (Hx : nth_error (upd (thr s) x thy') x = Some thy') by (eapply nth_upd_eq; eauto).
        rewrite (nth_upd_eq _ _ _ _ Hx). exact Ht'.
      + rewrite nth_upd_neq by exact Hne. rewrite (nth_upd_eq _ _ _ _ Ey). exact Hy'.
  Qed.

  Lemma f_push_susp s t e s1 x : step s (t, e) = Some s1 -> push s t e = Some x -> susp s x = true.
  Proof.
    intros H Hp. rewrite susp_eq.
    destruct (step_shape _ _ _ _ H) as (th & Hth & [(th' & _ & Hn & _)|(y & thy & thy' & th' & Hy & Ey & Em & _)]).
    - rewrite Hn in Hp. discriminate.
    - rewrite Hp in Hy. injection Hy as <-. rewrite Ey, Em. reflexivity.
  Qed.

  (** product theorems for this instance, from any protocol state [p0] in which nobody is suspended *)
  Section Product.
    Variable p0 : state.
    Hypothesis H0 : forall x, susp p0 x = false.
    Definition preach (nw nt : nat) : pstate -> Prop := greach state ev step is_cb susp push ncb p0 nw nt.

    Lemma preach_proj nw nt c : preach nw nt c ->
      reachable (fun s => s = p0) step (gp c) /\ reachable (MachineProofs.minit_pred nw nt) mstep (gm c).
    Proof. apply greach_proj. Qed.

    Lemma p_inv nw nt c : 1 <= nt -> preach nw nt c -> GInv state susp c.
    Proof. intros Hnt R. eapply (ginv_reach state ev step is_cb susp push ncb f_frame f_cb f_push_wakes p0 H0); eauto. Qed.

    Theorem p_blocked nw nt c x : 1 <= nt -> preach nw nt c -> susp (gp c) x = true ->
      is_live (gm c) x = true /\ places (gm c) x = 0 /\
      forall w, nth_error (cur (gm c)) w <> Some (Run x) /\ nth_error (hand (gm c)) w <> Some (Some x) /\
                (forall q, nth_error (dq (gm c)) w = Some q -> ~ In x q).
    Proof. intros Hnt R. eapply (blocked_frees_worker state ev step is_cb susp push ncb f_frame f_cb f_push_wakes p0 H0); eauto. Qed.

    Theorem p_unique nw nt c w t e c' : 1 <= nt -> preach nw nt c ->
      pstep c (GSync w t e) = Some c' -> is_cb e = false ->
      nth_error (cur (gm c)) w = Some (Run t) /\ places (gm c) t = 1 /\
      (forall w', nth_error (cur (gm c)) w' = Some (Run t) -> w' = w) /\
      (forall w', nth_error (hand (gm c)) w' <> Some (Some t)) /\
      (forall w' q, nth_error (dq (gm c)) w' = Some q -> ~ In t q) /\
      susp (gp c) t = false.
    Proof. intros Hnt R. eapply (own_step_on_unique_worker state ev step is_cb susp push ncb f_frame f_cb f_push_wakes p0 H0); eauto. Qed.

    Theorem p_wake_once nw nt c w t e s1 x : 1 <= nt -> preach nw nt c ->
      guard_ok ev is_cb (gm c) w t e = true -> step (gp c) (t, e) = Some s1 -> push (gp c) t e = Some x ->
      exists m1, mmove (gm c) w (PushTop x) = Some m1 /\ places (gm c) x = 0 /\ places m1 x = 1 /\
                 is_live (gm c) x = true.
    Proof. intros Hnt R. eapply (wake_inserts_once state ev step is_cb susp push ncb f_frame f_cb f_push_wakes f_push_susp p0 H0); eauto. Qed.

    Theorem p_never_stuck nw nt c w t e s1 : 1 <= nt -> preach nw nt c ->
      guard_ok ev is_cb (gm c) w t e = true -> step (gp c) (t, e) = Some s1 ->
      exists c', pstep c (GSync w t e) = Some c' /\ gp c' = s1.
    Proof. intros Hnt R. eapply (gsync_never_stuck state ev step is_cb susp push ncb f_frame f_cb f_push_wakes f_push_susp p0 H0); eauto. Qed.
  End Product.

  Lemma susp_init nt x : susp (init_state nt) x = false.
  Proof.
    rewrite susp_eq. unfold init_state; cbn [thr]. destruct (nth_error (repeat thread0 nt) x) as [th|] eqn:E; [|reflexivity].
    apply nth_error_In, repeat_spec in E. subst th. reflexivity.
  Qed.

  (** the published waiter is suspended (owner's theorem published_saved) *)
  Lemma published_susp nw nt c x : preach (init_state nt) nw nt c -> th (gp c) = Some x -> susp (gp c) x = true.
  Proof.
    intros R Hp. destruct (preach_proj _ _ _ _ R) as [Rs _].
    assert (Rm : UncondProofs.reach (gp c)).
    { clear R Hp. induction Rs as [s E|s a s' Rs IH Hst]; [apply reach_init; exists nt; exact E | eapply reach_step; eauto]. }
    destruct (UncondProofs.published_saved _ Rm x Hp) as (tx & Hx & Hm & _).
    rewrite susp_eq. unfold UncondProofs.thr_at in Hx. rewrite Hx, Hm. reflexivity.
  Qed.
End UncondP.
