(** The product theorems, proved ONCE against the interface of blocking protocols
    (Compose/GenericModel.v).  Protocol-side facts needed (hypotheses of the section; all four are
    "frame" facts about one step, none needs an invariant of the protocol):
    - [H_frame]  a step of [t] does not suspend another thread;
    - [H_cb]     a callback step of [t] does not suspend [t] (it can only resume it);
    - [H_push_wakes] after a push step naming [x], [x] is not suspended;
    - [H_push_susp]  a push step naming [x] is enabled only if [x] is suspended
                     (pushes are only of suspended threads).
    That a thread makes own-context steps only when not suspended, and that a suspended thread
    is woken by exactly one insertion, are then THEOREMS of the product
    ([own_step_on_unique_worker], [wake_inserts_once]). *)
From Coq Require Import List Bool Arith Lia.
From MT Require Import Lib.Interleave Machine.MachineModel Compose.GenericModel Compose.MachineFrame.
From MT Require Machine.MachineProofs.
Import ListNotations.

Section GenericProofs.
  Variables pstate pev : Type.
  Variable pstep : pstate -> nat * pev -> option pstate.
  Variable is_cb : pev -> bool.
  Variable susp : pstate -> nat -> bool.
  Variable push : pstate -> nat -> pev -> option nat.
  Variable ncb : pstate -> nat -> nat.

  Hypothesis H_frame : forall s t e s1 x, pstep s (t, e) = Some s1 -> x <> t -> susp s1 x = true -> susp s x = true.
  Hypothesis H_cb : forall s t e s1, pstep s (t, e) = Some s1 -> is_cb e = true -> susp s1 t = true -> susp s t = true.
  Hypothesis H_push_wakes : forall s t e s1 x, pstep s (t, e) = Some s1 -> push s t e = Some x -> susp s1 x = false.
  Hypothesis H_push_susp : forall s t e s1 x, pstep s (t, e) = Some s1 -> push s t e = Some x -> susp s x = true.

  Notation GS := (gstate pstate).
  Notation GE := (gev pev).
  Let gok := guard_ok pev is_cb.
  Let gsy := gsync pstate pev pstep is_cb susp push ncb.
  Let gma := gmach pstate susp.
  Let gst := gstep pstate pev pstep is_cb susp push ncb.

  (** LINK: a thread suspended inside the protocol object (context saved by a blocking step, not
      yet handed to a run queue by a push step) is live and occupies no place of the machine *)
  Definition Link (c : GS) : Prop := forall x, susp (gp c) x = true -> parked (gm c) x = true.

  Record GInv (c : GS) : Prop := {
    gi_mach : MP.Inv (gm c);
    gi_shape : Shape (gm c);
    gi_link : Link c
  }.

  Lemma guard_cur m w t e : gok m w t e = true ->
    nth_error (cur m) w = Some (if is_cb e then Cb t else Run t).
  Proof.
    unfold gok, guard_ok. destruct (nth_error (cur m) w) as [[|u|u]|]; try discriminate;
      intros H; apply andb_true_iff in H as [H1 H2]; apply Nat.eqb_eq in H1; subst u;
      destruct (is_cb e); try discriminate; reflexivity.
  Qed.

  Lemma parked_live_fresh s x c : parked s x = true -> is_fresh s c = true -> c <> x.
  Proof.
    intros Hp Hf ->. apply parked_spec in Hp as [Hl _]. rewrite (MP.is_fresh_not_live _ _ Hf) in Hl. discriminate.
  Qed.

  Lemma gmach_inv c w m c' : GInv c -> gma c w m = Some c' -> GInv c'.
  Proof.
    intros [Im Sh Lk] H. unfold gma, gmach in H. destruct (free_ok pstate susp c w m) eqn:Hf; [|discriminate].
    destruct (mmove (gm c) w m) as [m1|] eqn:Hm; [|discriminate]. cbn [obind] in H. injection H as <-.
    constructor; cbn [gp gm].
    - eapply MP.mmove_inv; eauto.
    - eapply mmove_shape; eauto.
    - intros x Hx. cbn [gp gm] in *. specialize (Lk x Hx). eapply mmove_parked; [exact Hm | exact Lk |].
      unfold gains. unfold free_ok in Hf.
      destruct m as [c0|c0| |v|j| | | |y| | |v]; try discriminate.
      + intros E. injection E as ->. unfold mmove in Hm.
        destruct (nth_error (cur (gm c)) w) as [[|p|p]|]; try discriminate;
        destruct (nth_error (hand (gm c)) w); try discriminate; destruct (nth_error (dq (gm c)) w); try discriminate.
        destruct (is_fresh (gm c) x) eqn:Ef; [|discriminate]. exact (parked_live_fresh _ _ _ Lk Ef eq_refl).
      + intros E. injection E as ->. unfold mmove in Hm.
        destruct (nth_error (cur (gm c)) w) as [[|p|p]|]; try discriminate;
        destruct (nth_error (hand (gm c)) w); try discriminate; destruct (nth_error (dq (gm c)) w); try discriminate.
        destruct (is_fresh (gm c) x) eqn:Ef; [|discriminate]. exact (parked_live_fresh _ _ _ Lk Ef eq_refl).
      + intros E. injection E as ->. rewrite Hx in Hf. discriminate.
      + destruct (nth_error (cur (gm c)) w) as [[|p|p]|]; try discriminate.
        intros E. injection E as ->. rewrite Hx in Hf. discriminate.
      + intros E. injection E as ->. rewrite Hx in Hf. discriminate.
  Qed.

  Lemma gsync_inv c w t e c' : GInv c -> gsy c w t e = Some c' -> GInv c'.
  Proof.
    intros [Im Sh Lk] H. unfold gsy, gsync in H.
    destruct (guard_ok pev is_cb (gm c) w t e) eqn:Hg; [|discriminate].
    pose proof (guard_cur _ _ _ _ Hg) as Ec.
    destruct (pstep (gp c) (t, e)) as [s1|] eqn:Hst; [|discriminate]. cbn [obind] in H.
    assert (exists m1, (match push (gp c) t e with Some x => mmove (gm c) w (PushTop x) | None => Some (gm c) end) = Some m1)
      as [m1 Hm1] by (destruct (match push (gp c) t e with Some x => mmove (gm c) w (PushTop x) | None => Some (gm c) end); [eauto|discriminate]).
    rewrite Hm1 in H. cbn [obind] in H.
    assert (Im1 : MP.Inv m1 /\ Shape m1 /\ cur m1 = cur (gm c) /\
                  forall x, susp s1 x = true -> x <> t \/ is_cb e = true -> parked m1 x = true).
    { assert (Hold : forall x, susp s1 x = true -> x <> t \/ is_cb e = true -> susp (gp c) x = true).
      { intros x Hx [Hne|Hcb]; [eapply H_frame; eauto|].
        destruct (Nat.eq_dec x t) as [->|Hne]; [|eapply H_frame; eauto]. eapply H_cb; eauto. }
      destruct (push (gp c) t e) as [y|] eqn:Hp.
      - split; [|split; [|split]].
        + eapply MP.mmove_inv; eauto.
        + eapply mmove_shape; eauto.
        + eapply mmove_cur_same; [exact Hm1|exact Logic.I].
        + intros x Hx Hc. eapply mmove_parked; [exact Hm1 | apply Lk; eapply Hold; eauto |].
          cbn [gains]. intros E. injection E as ->. rewrite (H_push_wakes _ _ _ _ _ Hst Hp) in Hx. discriminate.
      - injection Hm1 as <-. split; [exact Im|split; [exact Sh|split; [reflexivity|]]].
        intros x Hx Hc. apply Lk. eapply Hold; eauto. }
    destruct Im1 as (Im1 & Sh1 & Ec1 & Lk1).
    destruct (is_cb e) eqn:Hcb.
    - destruct (Nat.ltb (ncb s1 t) (ncb (gp c) t)).
      + destruct (mmove m1 w EndCb) as [m2|] eqn:Hm2; [|discriminate]. cbn [obind] in H. injection H as <-.
        constructor; cbn [gp gm]; auto.
        * eapply MP.mmove_inv; eauto.
        * eapply mmove_shape; eauto.
        * intros x Hx. cbn [gp gm] in *. eapply mmove_parked; [exact Hm2 | apply Lk1; auto | cbn; discriminate].
      + injection H as <-. constructor; cbn [gp gm]; auto. intros x Hx. cbn [gp gm] in *. apply Lk1; auto.
    - destruct (susp s1 t) eqn:Hsus.
      + destruct (autopop m1 w) as [m2|] eqn:Hm2; [|discriminate]. cbn [obind] in H.
        destruct (mmove m2 w SaveCtx) as [m3|] eqn:Hm3; [|discriminate]. cbn [obind] in H. injection H as <-.
        assert (Im2 : MP.Inv m2 /\ Shape m2 /\ cur m2 = cur m1 /\ forall x, parked m1 x = true -> parked m2 x = true).
        { destruct (autopop_spec _ _ _ Hm2) as [->|Hpop]; [split; [exact Im1|split; [exact Sh1|split; [reflexivity|auto]]]|].
          split; [|split; [|split]].
          - eapply MP.mmove_inv; eauto.
          - eapply mmove_shape; eauto.
          - eapply mmove_cur_same; [exact Hpop|exact Logic.I].
          - intros x Hx. eapply mmove_parked; [exact Hpop | exact Hx | cbn; discriminate]. }
        destruct Im2 as (Im2 & Sh2 & Ec2 & Pk2).
        assert (Ect : nth_error (cur m2) w = Some (Run t)) by (rewrite Ec2, Ec1; exact Ec).
        destruct (save_parks m2 w t Im2 Sh2 Ect) as (m3' & Hs & Hpk & _). rewrite Hs in Hm3. injection Hm3 as ->.
        constructor; cbn [gp gm]; auto.
        * eapply MP.mmove_inv; eauto.
        * eapply mmove_shape; eauto.
        * intros x Hx. cbn [gp gm] in *. destruct (Nat.eq_dec x t) as [->|Hne]; [exact Hpk|].
          eapply mmove_parked; [exact Hs | apply Pk2; apply Lk1; auto | cbn; discriminate].
      + injection H as <-. constructor; cbn [gp gm]; auto. intros x Hx. cbn [gp gm] in *.
        apply Lk1; [exact Hx|]. left. intros ->. rewrite Hsus in Hx. discriminate.
  Qed.

  Theorem gstep_inv c a c' : GInv c -> gst c a = Some c' -> GInv c'.
  Proof. destruct a as [w t e|w m]; cbn [gst gstep]; [apply gsync_inv | apply gmach_inv]. Qed.

  Lemma shape_minit nw nt : Shape (minit nw nt).
  Proof.
    unfold Shape, minit; cbn [cur hand dq]. destruct nw as [|k]; cbn [length]; rewrite ?repeat_length; auto.
  Qed.

  (** reachability of the product from a protocol state [p0] in which nobody is suspended *)
  Variable p0 : pstate.
  Hypothesis H_init : forall x, susp p0 x = false.

  Definition ginit_pred (nw nt : nat) (c : GS) : Prop := c = ginit pstate p0 nw nt.
  Definition greach (nw nt : nat) : GS -> Prop := reachable (ginit_pred nw nt) gst.

  Lemma ginv_init nw nt : 1 <= nt -> GInv (ginit pstate p0 nw nt).
  Proof.
    intros Hnt. constructor; cbn [ginit gp gm].
    - apply MP.minit_inv. exact Hnt.
    - apply shape_minit.
    - intros x Hx. cbn [ginit gp] in Hx. rewrite H_init in Hx. discriminate.
  Qed.

  Theorem ginv_reach nw nt c : 1 <= nt -> greach nw nt c -> GInv c.
  Proof.
    intros Hnt. apply invariant_rule.
    - intros s ->. apply ginv_init. exact Hnt.
    - intros s a s'. apply gstep_inv.
  Qed.

  (* ---------------------------------------------------------------------------------------- *)
  (** projections *)
  Lemma gstep_proj_proto c a c' : gst c a = Some c' ->
    gp c' = gp c \/ exists t e, pstep (gp c) (t, e) = Some (gp c').
  Proof.
    destruct a as [w t e|w m]; cbn [gst gstep].
    - unfold gsync. destruct (guard_ok pev is_cb (gm c) w t e); [|discriminate].
      destruct (pstep (gp c) (t, e)) as [s1|] eqn:Hst; [|discriminate]. cbn [obind].
      intros H. right. exists t, e. rewrite Hst. f_equal.
      destruct (match push (gp c) t e with Some x => mmove (gm c) w (PushTop x) | None => Some (gm c) end) as [m1|];
        [|discriminate]. cbn [obind] in H.
      destruct (is_cb e).
      + destruct (Nat.ltb (ncb s1 t) (ncb (gp c) t)).
        * destruct (mmove m1 w EndCb); [|discriminate]. injection H as <-. reflexivity.
        * injection H as <-. reflexivity.
      + destruct (susp s1 t).
        * destruct (autopop m1 w) as [m2|]; [|discriminate]. cbn [obind] in H.
          destruct (mmove m2 w SaveCtx); [|discriminate]. injection H as <-. reflexivity.
        * injection H as <-. reflexivity.
    - unfold gmach. destruct (free_ok pstate susp c w m); [|discriminate].
      destruct (mmove (gm c) w m); [|discriminate]. intros H. injection H as <-. left. reflexivity.
  Qed.

  Lemma gstep_proj_mach c a c' : gst c a = Some c' ->
    exists l, mmoves (gm c) l = Some (gm c') /\ length l <= 3.
  Proof.
    destruct a as [w t e|w m]; cbn [gst gstep].
    - unfold gsync. destruct (guard_ok pev is_cb (gm c) w t e); [|discriminate].
      destruct (pstep (gp c) (t, e)) as [s1|]; [|discriminate]. cbn [obind].
      assert (Hpush : forall m1, (match push (gp c) t e with Some x => mmove (gm c) w (PushTop x) | None => Some (gm c) end) = Some m1 ->
                      exists l, mmoves (gm c) l = Some m1 /\ length l <= 1).
      { intros m1 H. destruct (push (gp c) t e) as [x|].
        - exists [(w, PushTop x)]. cbn [mmoves]; unfold mstep; cbn [fst snd]. rewrite H. split; [reflexivity|cbn; lia].
        - injection H as <-. exists []. split; [reflexivity|cbn; lia]. }
      destruct (match push (gp c) t e with Some x => mmove (gm c) w (PushTop x) | None => Some (gm c) end) as [m1|] eqn:Hm1;
        [|discriminate]. cbn [obind].
      destruct (Hpush m1 eq_refl) as (l1 & Hl1 & Len1).
      destruct (is_cb e).
      + destruct (Nat.ltb (ncb s1 t) (ncb (gp c) t)).
        * destruct (mmove m1 w EndCb) as [m2|] eqn:Hm2; [|discriminate]. intros H. injection H as <-. cbn [gm].
          exists (l1 ++ [(w, EndCb)]). rewrite (mmoves_app _ _ _ _ Hl1). cbn [mmoves]; unfold mstep; cbn [fst snd]. rewrite Hm2.
          split; [reflexivity|]. rewrite app_length. cbn. lia.
        * intros H. injection H as <-. exists l1. split; [exact Hl1|lia].
      + destruct (susp s1 t).
        * destruct (autopop m1 w) as [m2|] eqn:Hm2; [|discriminate]. cbn [obind].
          destruct (mmove m2 w SaveCtx) as [m3|] eqn:Hm3; [|discriminate]. intros H. injection H as <-. cbn [gm].
          destruct (autopop_spec _ _ _ Hm2) as [->|Hpop].
          -- exists (l1 ++ [(w, SaveCtx)]). rewrite (mmoves_app _ _ _ _ Hl1). cbn [mmoves]; unfold mstep; cbn [fst snd]. rewrite Hm3.
             split; [reflexivity|]. rewrite app_length. cbn. lia.
          -- exists (l1 ++ [(w, PopOwn); (w, SaveCtx)]). rewrite (mmoves_app _ _ _ _ Hl1). cbn [mmoves]; unfold mstep; cbn [fst snd].
             rewrite Hpop, Hm3. split; [reflexivity|]. rewrite app_length. cbn. lia.
        * intros H. injection H as <-. exists l1. split; [exact Hl1|lia].
    - unfold gmach. destruct (free_ok pstate susp c w m); [|discriminate].
      destruct (mmove (gm c) w m) as [m1|] eqn:Hm; [|discriminate]. intros H. injection H as <-. cbn [gm].
      exists [(w, m)]. cbn [mmoves]; unfold mstep; cbn [fst snd]. rewrite Hm. split; [reflexivity|cbn; lia].
  Qed.

  Theorem greach_proj nw nt c : greach nw nt c ->
    reachable (fun s => s = p0) pstep (gp c) /\ reachable (MP.minit_pred nw nt) mstep (gm c).
  Proof.
    intros R. induction R as [c H0 | c a c' R IH Hst].
    - rewrite H0. split; apply reach_init; reflexivity.
    - destruct IH as [IHs IHm]. split.
      + destruct (gstep_proj_proto _ _ _ Hst) as [->|(t & e & Hs)]; [exact IHs|]. eapply reach_step; eauto.
      + destruct (gstep_proj_mach _ _ _ Hst) as (l & Hl & _). eapply mmoves_reachable; eauto.
  Qed.

  (* ---------------------------------------------------------------------------------------- *)
  (** consequences *)

  (** a thread suspended inside the protocol object occupies no worker, no hand, no run queue *)
  Theorem blocked_frees_worker nw nt c x : 1 <= nt -> greach nw nt c -> susp (gp c) x = true ->
    is_live (gm c) x = true /\ places (gm c) x = 0 /\
    forall w, nth_error (cur (gm c)) w <> Some (Run x) /\ nth_error (hand (gm c)) w <> Some (Some x) /\
              (forall q, nth_error (dq (gm c)) w = Some q -> ~ In x q).
  Proof.
    intros Hnt R Hs. pose proof (ginv_reach _ _ _ Hnt R) as CI.
    pose proof (gi_link c CI x Hs) as Hpk. apply parked_spec in Hpk as [Hl H0].
    split; [exact Hl|]. split; [exact H0|]. apply no_place_nowhere. exact H0.
  Qed.

  (** a thread executes a step of its own context only while it is the current thread of exactly
      one worker, in no hand and no run queue - and it is not suspended *)
  Theorem own_step_on_unique_worker nw nt c w t e c' : 1 <= nt -> greach nw nt c ->
    gst c (GSync w t e) = Some c' -> is_cb e = false ->
    nth_error (cur (gm c)) w = Some (Run t) /\ places (gm c) t = 1 /\
    (forall w', nth_error (cur (gm c)) w' = Some (Run t) -> w' = w) /\
    (forall w', nth_error (hand (gm c)) w' <> Some (Some t)) /\
    (forall w' q, nth_error (dq (gm c)) w' = Some q -> ~ In t q) /\
    susp (gp c) t = false.
  Proof.
    intros Hnt R H Hcb. pose proof (ginv_reach _ _ _ Hnt R) as CI.
    cbn [gst gstep] in H. unfold gsync in H. destruct (guard_ok pev is_cb (gm c) w t e) eqn:Hg; [|discriminate].
    pose proof (guard_cur _ _ _ _ Hg) as Ec. rewrite Hcb in Ec.
    destruct (current_unique _ _ _ (gi_mach c CI) Ec) as (Hl & Hp & Hu & Hh & Hq).
    repeat split; auto.
    destruct (susp (gp c) t) eqn:E; [|reflexivity].
    pose proof (gi_link c CI t E) as Hpk. apply parked_spec in Hpk as [_ H0]. lia.
  Qed.

  (** at a push step of the protocol the machine's PushTop is enabled: the woken thread is parked,
      so the wake-up inserts it exactly once *)
  Theorem wake_inserts_once nw nt c w t e s1 x : 1 <= nt -> greach nw nt c ->
    gok (gm c) w t e = true -> pstep (gp c) (t, e) = Some s1 -> push (gp c) t e = Some x ->
    exists m1, mmove (gm c) w (PushTop x) = Some m1 /\ places (gm c) x = 0 /\ places m1 x = 1 /\
               is_live (gm c) x = true.
  Proof.
    intros Hnt R Hg Hst Hp. pose proof (ginv_reach _ _ _ Hnt R) as CI.
    pose proof (gi_link c CI x (H_push_susp _ _ _ _ _ Hst Hp)) as Hpm.
    pose proof (guard_cur _ _ _ _ Hg) as Ec.
    destruct (shape_lookup _ _ _ (gi_shape c CI) Ec) as (hw & qw & Eh & Eq).
    exists (set_dq (gm c) w (qw ++ [x])). apply parked_spec in Hpm as [Hl H0]. repeat split; auto.
    - unfold mmove. rewrite Ec, Eh, Eq. assert (Hpk2 : parked (gm c) x = true) by (apply parked_spec; auto).
      rewrite Hpk2. reflexivity.
    - pose proof (MP.sumf_upd (w_q x) (dq (gm c)) w (qw ++ [x]) qw Eq) as Hq.
      rewrite MP.w_q_app, MP.w_q_single, Nat.eqb_refl in Hq. cbn [b2n] in Hq. occs. lia.
  Qed.

  (** the composition never blocks a protocol step whose worker condition holds *)
  Theorem gsync_never_stuck nw nt c w t e s1 : 1 <= nt -> greach nw nt c ->
    gok (gm c) w t e = true -> pstep (gp c) (t, e) = Some s1 ->
    exists c', gst c (GSync w t e) = Some c' /\ gp c' = s1.
  Proof.
    intros Hnt R Hg Hst. pose proof (ginv_reach _ _ _ Hnt R) as CI.
    pose proof (guard_cur _ _ _ _ Hg) as Ec.
    cbn [gst gstep]. unfold gsync. unfold gok in Hg. rewrite Hg, Hst. cbn [obind].
    assert (exists m1, (match push (gp c) t e with Some x => mmove (gm c) w (PushTop x) | None => Some (gm c) end) = Some m1 /\
                       cur m1 = cur (gm c) /\ MP.Inv m1 /\ Shape m1) as (m1 & Hm1 & Ec1 & Im1 & Sh1).
    { destruct (push (gp c) t e) as [x|] eqn:Hp.
      - destruct (wake_inserts_once _ _ _ _ _ _ _ _ Hnt R Hg Hst Hp) as (m1 & Hm & _). exists m1.
        split; [exact Hm|]. split; [eapply mmove_cur_same; [exact Hm|exact Logic.I]|].
        split; [eapply MP.mmove_inv; [apply (gi_mach c CI)|exact Hm] | eapply mmove_shape; [exact Hm|apply (gi_shape c CI)]].
      - exists (gm c). split; [reflexivity|]. split; [reflexivity|]. split; [apply (gi_mach c CI)|apply (gi_shape c CI)]. }
    rewrite Hm1. cbn [obind]. rewrite <- Ec1 in Ec.
    destruct (is_cb e).
    - destruct (Nat.ltb (ncb s1 t) (ncb (gp c) t)); [|eexists; split; reflexivity].
      destruct (shape_lookup _ _ _ Sh1 Ec) as (hw & qw & Eh & Eq).
      unfold mmove. rewrite Ec, Eh, Eq. destruct hw; cbn [obind]; eexists; split; reflexivity.
    - destruct (susp s1 t); [|eexists; split; reflexivity].
      destruct (autopop_enabled _ _ _ Ec) as [m2 Hm2]. rewrite Hm2. cbn [obind].
      assert (Im2 : MP.Inv m2 /\ Shape m2 /\ cur m2 = cur m1).
      { destruct (autopop_spec _ _ _ Hm2) as [->|Hpop]; [auto|].
        split; [eapply MP.mmove_inv; eauto|]. split; [eapply mmove_shape; eauto|].
        eapply mmove_cur_same; [exact Hpop|exact Logic.I]. }
      destruct Im2 as (Im2 & Sh2 & Ec2). rewrite <- Ec2 in Ec.
      destruct (save_parks _ _ _ Im2 Sh2 Ec) as (m3 & Hs & _). rewrite Hs. cbn [obind]. eexists; split; reflexivity.
  Qed.
End GenericProofs.
