(** The product of a BLOCKING PROTOCOL with the scheduler-level machine (Machine/MachineModel.v),
    generic in the protocol.  A blocking protocol is a transition system in the discipline of
    Sync/SyncModel.v, Barrier/BarrierModel.v, JoinCounter/JcModel.v, Uncond/UncondModel.v:
    threads are numbered by their tags, an event [e] of thread [t] is executed either in the
    thread's own context or in a context-switch callback of [t] ([is_cb e]), a blocking step
    leaves the thread suspended ([susp]), a waker's push step names the thread it hands to the
    run queue ([push]), [ncb] counts the callbacks of a thread in flight.

    Synchronised transitions mirror src/myth_sync_func.h (myth_block_on_queue / _stack and their
    callbacks, the wake routines):
    - an own-context event of [t] runs on a worker [w] with [cur w = Run t]; a callback event of
      [t] on a worker with [cur w = Cb t];
    - a push of [x] carries PushTop x on the executing worker;
    - an own-context step after which the thread is suspended (the blocking steps) carries
      pop-the-own-queue-if-non-empty + SaveCtx;
    - a callback step that ends the callback ([ncb] decreases) carries EndCb;
    - all machine moves are also free moves; the three that give a place to a saved thread by
      another mechanism (TakeJoiner j, PutBase, PushTop x) only for threads that are not
      suspended inside this protocol object.
    Executable: the instances are extracted and replayed against the library
    (tools/props/compose.py). *)
From Coq Require Import List Bool Arith.
From MT Require Import Machine.MachineModel.
Import ListNotations.

Definition obind {A B} (o : option A) (f : A -> option B) : option B :=
  match o with Some x => f x | None => None end.

(** myth_queue_pop of the own run queue at the beginning of myth_block_on_queue / _stack *)
Definition autopop (m : mstate) (w : nat) : option mstate :=
  match nth_error (hand m) w, nth_error (dq m) w with
  | Some None, Some (_ :: _) => mmove m w PopOwn
  | _, _ => Some m
  end.

Section Generic.
  Variables pstate pev : Type.
  Variable pstep : pstate -> nat * pev -> option pstate.
  Variable is_cb : pev -> bool.
  Variable susp : pstate -> nat -> bool.
  Variable push : pstate -> nat -> pev -> option nat.
  Variable ncb : pstate -> nat -> nat.

  Record gstate := { gp : pstate; gm : mstate }.

  Inductive gev :=
  | GSync (w t : nat) (e : pev)
  | GMach (w : nat) (m : move).

  Definition guard_ok (m : mstate) (w t : nat) (e : pev) : bool :=
    match nth_error (cur m) w with
    | Some (Run u) => Nat.eqb u t && negb (is_cb e)
    | Some (Cb u) => Nat.eqb u t && is_cb e
    | _ => false
    end.

  Definition gsync (c : gstate) (w t : nat) (e : pev) : option gstate :=
    if guard_ok (gm c) w t e then
      obind (pstep (gp c) (t, e)) (fun s1 =>
      obind (match push (gp c) t e with
             | Some x => mmove (gm c) w (PushTop x)
             | None => Some (gm c)
             end) (fun m1 =>
      if is_cb e then
        if Nat.ltb (ncb s1 t) (ncb (gp c) t)
        then obind (mmove m1 w EndCb) (fun m2 => Some {| gp := s1; gm := m2 |})
        else Some {| gp := s1; gm := m1 |}
      else
        if susp s1 t
        then obind (autopop m1 w) (fun m2 => obind (mmove m2 w SaveCtx) (fun m3 => Some {| gp := s1; gm := m3 |}))
        else Some {| gp := s1; gm := m1 |}))
    else None.

  Definition free_ok (c : gstate) (w : nat) (m : move) : bool :=
    match m with
    | TakeJoiner j => negb (susp (gp c) j)
    | PushTop x => negb (susp (gp c) x)
    | PutBase => match nth_error (cur (gm c)) w with
                 | Some (Cb t) => negb (susp (gp c) t)
                 | _ => true
                 end
    | _ => true
    end.

  Definition gmach (c : gstate) (w : nat) (m : move) : option gstate :=
    if free_ok c w m then obind (mmove (gm c) w m) (fun m1 => Some {| gp := gp c; gm := m1 |}) else None.

  Definition gstep (c : gstate) (a : gev) : option gstate :=
    match a with
    | GSync w t e => gsync c w t e
    | GMach w m => gmach c w m
    end.

  Definition ginit (p0 : pstate) (nworkers nthreads : nat) : gstate :=
    {| gp := p0; gm := minit nworkers nthreads |}.
End Generic.

Arguments gp {pstate}.
Arguments gm {pstate}.
Arguments Build_gstate {pstate}.
Arguments GSync {pev}.
Arguments GMach {pev}.
