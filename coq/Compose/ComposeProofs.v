(** Instance proofs for the Sync model (C04 / C05 / C09): the four frame facts of the generic
    interface (Compose/GenericProofs.v), the instantiated product theorems under the names of
    Properties_Compose.v, and the Sync-specific corollaries that use the invariant of
    Sync/MutexProofs.v (threads in the mutex queue / a condition queue / a waker's hand are
    suspended; push steps are always enabled). *)
From Coq Require Import ZArith List Bool Arith Lia.
From MT Require Import Lib.Interleave Sync.SyncModel Machine.MachineModel Compose.GenericModel Compose.Instances
  Compose.MachineFrame Compose.GenericProofs Compose.ComposeModel.
From MT Require Sync.MutexProofs Machine.MachineProofs.
Import ListNotations.
Module XP := MutexProofs.

(* ---------------------------------------------------------------------------------------- *)
(** * Sync: what a step does to the suspended status of threads *)

Lemma wake_spec s x s0 : wake s x = Some s0 ->
  exists thx k, nth_error (thr s) x = Some thx /\ main thx = Susp k /\
                s0 = set_thread s x (set_main thx (LockRead k)).
Proof.
  unfold wake, get_thread. destruct (nth_error (thr s) x) as [thx|] eqn:E; [|discriminate].
  destruct (main thx) eqn:Em; try discriminate. intros H. injection H as <-. eauto.
Qed.

Lemma susp_upd_same s l t th0 th : nth_error l t = Some th0 ->
  SyncI.susp (set_thr s (SyncModel.upd l t th)) t = match main th with Susp _ => true | _ => false end.
Proof.
  intros H. unfold SyncI.susp, get_thread. cbn [thr set_thr]. rewrite (XP.nth_error_upd_eq _ _ _ _ H). reflexivity.
Qed.

(** a push step makes its target runnable *)
Lemma push_wakes s t e s1 x : SyncModel.step s (t, e) = Some s1 -> SyncI.push s t e = Some x -> SyncI.susp s1 x = false.
Proof.
  intros H Hp. unfold SyncI.push in Hp. destruct (get_thread s t) as [th|] eqn:Hth; [|discriminate].
  unfold get_thread in Hth.
  destruct e as [o| |i|v]; try discriminate; cbn [SyncModel.step] in H.
  - (* main context *)
    unfold tick, get_thread in H. rewrite Hth in H. cbv zeta in H.
    destruct (main th) eqn:Em; try discriminate.
    + destruct u; try discriminate. injection Hp as ->. cbn [ustep] in H.
      destruct (wake s x) as [s0|] eqn:Hw; [|discriminate].
      destruct (wake_spec _ _ _ Hw) as (thx & k & Ex & Emx & ->).
      unfold get_thread in H. cbn [thr set_thread set_thr] in H.
      destruct (nth_error (SyncModel.upd (thr s) x (set_main thx (LockRead k))) t) as [l|] eqn:El; [|discriminate].
      injection H as <-. unfold SyncI.susp, get_thread. cbn [thr set_thread set_thr].
      destruct (Nat.eq_dec t x) as [->|Hne].
      * rewrite (XP.nth_error_upd_eq _ _ _ _ El). reflexivity.
      * rewrite XP.nth_error_upd_neq by exact Hne. rewrite (XP.nth_error_upd_eq _ _ _ _ Ex). reflexivity.
    + injection Hp as ->.
      destruct (wake s x) as [s0|] eqn:Hw; [|discriminate].
      destruct (wake_spec _ _ _ Hw) as (thx & k0 & Ex & Emx & ->).
      unfold get_thread in H. cbn [thr set_thread set_thr] in H.
      destruct (nth_error (SyncModel.upd (thr s) x (set_main thx (LockRead k0))) t) as [l|] eqn:El;
        [|destruct k; discriminate].
      assert (exists p, s1 = set_thread (set_thread s x (set_main thx (LockRead k0))) t (set_main l p) /\
                        match p with Susp _ => false | _ => true end = true) as (p & -> & Hpp).
      { destruct k; injection H as <-; eexists; split; reflexivity. }
      unfold SyncI.susp, get_thread. cbn [thr set_thread set_thr].
      destruct (Nat.eq_dec t x) as [->|Hne].
      * rewrite (XP.nth_error_upd_eq _ _ _ _ El). cbn [main set_main]. destruct p; try reflexivity; discriminate.
      * rewrite XP.nth_error_upd_neq by exact Hne. rewrite (XP.nth_error_upd_eq _ _ _ _ Ex). reflexivity.
  - (* callback context *)
    unfold cbtick, get_thread in H. rewrite Hth in H.
    destruct (nth_error (cbs th) i) as [c|] eqn:Ei; [|discriminate].
    destruct c as [q b|u]; try discriminate. destruct u; try discriminate. injection Hp as ->.
    cbn [ustep] in H.
    destruct (wake s x) as [s0|] eqn:Hw; [|discriminate].
    destruct (wake_spec _ _ _ Hw) as (thx & k & Ex & Emx & ->).
    unfold get_thread in H. cbn [thr set_thread set_thr] in H.
    destruct (nth_error (SyncModel.upd (thr s) x (set_main thx (LockRead k))) t) as [l|] eqn:El; [|discriminate].
    injection H as <-. unfold SyncI.susp, get_thread. cbn [thr set_thread set_thr].
    destruct (Nat.eq_dec t x) as [->|Hne].
    + rewrite (XP.nth_error_upd_eq _ _ _ _ El). cbn [main set_cbs].
      rewrite (XP.nth_error_upd_eq _ _ _ _ Ex) in El. injection El as <-. reflexivity.
    + rewrite XP.nth_error_upd_neq by exact Hne. rewrite (XP.nth_error_upd_eq _ _ _ _ Ex). reflexivity.
Qed.

(** a thread other than the actor does not become suspended by the actor's step *)
Lemma susp_frame s t e s1 x : SyncModel.step s (t, e) = Some s1 -> x <> t -> SyncI.susp s1 x = true -> SyncI.susp s x = true.
Proof.
  intros H Hx Hs. unfold SyncI.susp in *.
  destruct (get_thread s x) as [thx|] eqn:Ex.
  - destruct (XP.step_frame s t e s1 x thx H Hx Ex) as [E|(k & Hm & E)]; rewrite E in Hs.
    + exact Hs.
    + cbn in Hs. discriminate.
  - unfold get_thread in *. apply nth_error_None in Ex. rewrite <- (XP.step_length _ _ _ H) in Ex.
    apply nth_error_None in Ex. rewrite Ex in Hs. discriminate.
Qed.

Ltac cb_fin t Hth :=
  try match goal with E : nth_error (SyncModel.upd (thr _) t _) t = Some _ |- _ =>
    rewrite (XP.nth_error_upd_eq _ _ _ _ Hth) in E; injection E as <- end;
  try match goal with E : nth_error (thr _) ?x = Some _, E2 : nth_error (SyncModel.upd (thr _) ?x _) t = Some _ |- _ =>
    destruct (Nat.eq_dec x t) as [->|?];
    [ rewrite Hth in E; injection E as <-; rewrite (XP.nth_error_upd_eq _ _ _ _ Hth) in E2; injection E2 as <-
    | rewrite XP.nth_error_upd_neq in E2 by assumption; rewrite Hth in E2; injection E2 as <- ] end.

(** a callback step never suspends its own thread (it can only resume it) *)
Lemma cb_susp s t i s1 : SyncModel.step s (t, ECbTick i) = Some s1 -> SyncI.susp s1 t = true -> SyncI.susp s t = true.
Proof.
  intros H. cbn [SyncModel.step] in H. unfold cbtick, get_thread in H.
  destruct (nth_error (thr s) t) as [th|] eqn:Hth; [|discriminate].
  unfold SyncI.susp at 2. unfold get_thread. rewrite Hth.
  destruct th as [m cs ow]. cbn [main cbs own] in *.
  unfold ustep, wake, clear_own, getq, setq, get_thread in H.
  XP.brk3 H Hth.
  all: injection H as <-.
  all: unfold SyncI.susp, get_thread; cbn [thr set_mword set_festat set_thread set_thr mword mq cqs festat]; rewrite ?XP.upd_upd.
  all: cb_fin t Hth.
  all: try (erewrite XP.nth_error_upd_eq by (first [eassumption | eapply XP.nth_error_upd_eq; eassumption
                                                  | rewrite XP.nth_error_upd_neq by assumption; eassumption]);
            cbn [main set_main set_cbs set_own]; try (intros E; exact E); try (intros E; discriminate E)).
Qed.


(** a push step is enabled only if its target is suspended (the model's [wake] checks it) *)
Lemma push_susp s t e s1 x : SyncModel.step s (t, e) = Some s1 -> SyncI.push s t e = Some x -> SyncI.susp s x = true.
Proof.
  intros H Hp. unfold SyncI.push in Hp. destruct (get_thread s t) as [th|] eqn:Hth; [|discriminate].
  assert (Hw : exists s0, wake s x = Some s0).
  { destruct e as [o| |i|v]; try discriminate; cbn [SyncModel.step] in H.
    - unfold tick in H. rewrite Hth in H. cbv zeta in H. destruct (main th) eqn:Em; try discriminate.
      + destruct u; try discriminate. injection Hp as ->. cbn [ustep] in H.
        destruct (wake s x) as [s0|]; [eauto|discriminate].
      + injection Hp as ->. destruct (wake s x) as [s0|]; [eauto|discriminate].
    - unfold cbtick in H. rewrite Hth in H. destruct (nth_error (cbs th) i) as [[q b|u]|]; try discriminate.
      destruct u; try discriminate. injection Hp as ->. cbn [ustep] in H.
      destruct (wake s x) as [s0|]; [eauto|discriminate]. }
  destruct Hw as [s0 Hw]. destruct (wake_spec _ _ _ Hw) as (thx & k & Ex & Em & _).
  unfold SyncI.susp, get_thread. rewrite Ex, Em. reflexivity.
Qed.

Lemma cb_susp' s t e s1 : SyncModel.step s (t, e) = Some s1 -> SyncI.is_cb e = true -> SyncI.susp s1 t = true -> SyncI.susp s t = true.
Proof. destruct e as [o| |i|v]; try discriminate. intros H _. eapply cb_susp; eauto. Qed.

Lemma susp_init nt nc x : SyncI.susp (init_state nt nc) x = false.
Proof.
  unfold SyncI.susp, get_thread, init_state; cbn [thr].
  destruct (nth_error (repeat thread0 nt) x) as [th|] eqn:E; [|reflexivity].
  apply XP.nth_error_repeat in E. subst th. reflexivity.
Qed.

(* ---------------------------------------------------------------------------------------- *)
(** * The product theorems for the Sync instance *)

Definition creach (nw nt nc : nat) : cstate -> Prop :=
  greach state ev SyncModel.step SyncI.is_cb SyncI.susp SyncI.push ncbs (init_state nt nc) nw nt.

Definition CInv (c : cstate) : Prop := XP.Inv (sy c) /\ GInv state SyncI.susp c.

Lemma creach_sync nw nt nc c : creach nw nt nc c -> XP.reach (sy c) /\ reachable (MachineProofs.minit_pred nw nt) mstep (ma c).
Proof.
  intros R. destruct (greach_proj _ _ _ _ _ _ _ _ _ _ _ R) as [Rs Rm]. split; [|exact Rm].
  clear Rm R. induction Rs as [s H0|s a s' Rs IH Hst].
  - apply reach_init. exists nt, nc. exact H0.
  - eapply reach_step; eauto.
Qed.

Theorem cinv_reach nw nt nc c : 1 <= nt -> creach nw nt nc c -> CInv c.
Proof.
  intros Hnt R. split.
  - apply XP.inv_reach. apply (creach_sync _ _ _ _ R).
  - eapply (ginv_reach state ev SyncModel.step SyncI.is_cb SyncI.susp SyncI.push ncbs
              susp_frame cb_susp' push_wakes (init_state nt nc) (susp_init nt nc)); eauto.
Qed.

Theorem cstep_inv c a c' : CInv c -> cstep c a = Some c' -> CInv c'.
Proof.
  intros [Is Ig] H. split.
  - destruct (gstep_proj_proto _ _ _ _ _ _ _ _ _ _ H) as [->|(t & e & Hs)]; [exact Is|]. eapply XP.inv_step; eauto.
  - eapply (gstep_inv state ev SyncModel.step SyncI.is_cb SyncI.susp SyncI.push ncbs susp_frame cb_susp' push_wakes); eauto.
Qed.

Lemma sync_parked_susp s x : XP.parked s x -> SyncI.susp s x = true.
Proof. intros (th & k & H1 & H2 & _). unfold SyncI.susp. rewrite H1, H2. reflexivity. Qed.

(** (2) blocked threads - in the mutex queue, in a condition queue, in a waker's hand - occupy
    no worker, no run queue, no hand *)
Theorem blocked_frees_worker nw nt nc c x : 1 <= nt -> creach nw nt nc c ->
  In x (mq (sy c)) \/ (exists q, In x (nth q (cqs (sy c)) [])) \/
  (exists t th, get_thread (sy c) t = Some th /\ XP.in_hand th x) ->
  is_live (ma c) x = true /\ places (ma c) x = 0 /\
  forall w, nth_error (cur (ma c)) w <> Some (Run x) /\ nth_error (hand (ma c)) w <> Some (Some x) /\
            (forall q, nth_error (dq (ma c)) w = Some q -> ~ In x q).
Proof.
  intros Hnt R Hb. destruct (creach_sync _ _ _ _ R) as [Rs _].
  assert (Hp : XP.parked (sy c) x).
  { destruct (XP.queue_wf _ Rs) as (_ & _ & _ & _ & Hq & Hc).
    destruct Hb as [H|[[q H]|(t & th & Hth & Hh)]]; [apply Hq; exact H | eapply Hc; exact H |].
    apply (XP.hand_parked _ t th x Rs Hth Hh). }
  eapply (blocked_frees_worker state ev SyncModel.step SyncI.is_cb SyncI.susp SyncI.push ncbs
            susp_frame cb_susp' push_wakes (init_state nt nc) (susp_init nt nc)); eauto.
  apply sync_parked_susp; exact Hp.
Qed.

(** (3) *)
Theorem sync_step_on_unique_worker nw nt nc c w t e c' : 1 <= nt -> creach nw nt nc c ->
  cstep c (CSync w t e) = Some c' -> is_cb_ev e = false ->
  nth_error (cur (ma c)) w = Some (Run t) /\ places (ma c) t = 1 /\
  (forall w', nth_error (cur (ma c)) w' = Some (Run t) -> w' = w) /\
  (forall w', nth_error (hand (ma c)) w' <> Some (Some t)) /\
  (forall w' q, nth_error (dq (ma c)) w' = Some q -> ~ In t q) /\
  susp_at (sy c) t = false.
Proof.
  intros Hnt R H Hcb.
  eapply (own_step_on_unique_worker state ev SyncModel.step SyncI.is_cb SyncI.susp SyncI.push ncbs
            susp_frame cb_susp' push_wakes (init_state nt nc) (susp_init nt nc)); eauto.
Qed.

(** (4): in the Sync model the push step itself is always enabled (MutexProofs: wake never fails),
    so no enabledness hypothesis is needed *)
Lemma push_target_in_hand s t e x : push_target s t e = Some x ->
  exists th, get_thread s t = Some th /\ XP.in_hand th x.
Proof.
  unfold SyncI.push. destruct (get_thread s t) as [th|] eqn:Hth; [|discriminate].
  intros H. exists th. split; [reflexivity|]. destruct e as [o| |i|v]; try discriminate.
  - destruct (main th) eqn:Em; try discriminate.
    + destruct u; try discriminate. injection H as ->. right; left. eexists. left. exact Em.
    + injection H as ->. right; right. eauto.
  - destruct (nth_error (cbs th) i) as [[q b|u]|] eqn:Ei; try discriminate.
    destruct u; try discriminate. injection H as ->. right; left. eexists. right. eapply nth_error_In; eauto.
Qed.

Lemma push_step_enabled s t e x : XP.reach s -> push_target s t e = Some x -> exists s1, SyncModel.step s (t, e) = Some s1.
Proof.
  intros R Hp. unfold SyncI.push in Hp. destruct (get_thread s t) as [th|] eqn:Hth; [|discriminate].
  destruct e as [o| |i|v]; try discriminate; cbn [SyncModel.step].
  - destruct (main th) eqn:Em; try discriminate.
    + destruct u; try discriminate. injection Hp as ->.
      destruct (tick s t) as [s1|] eqn:E; [eauto|]. exfalso.
      eapply (XP.tick_enabled_hand s t th _ x R Hth Em); [right; eauto|exact E].
    + injection Hp as ->. destruct (tick s t) as [s1|] eqn:E; [eauto|]. exfalso.
      eapply (XP.tick_enabled_sigpush s t th _ _ x R Hth Em); exact E.
  - destruct (nth_error (cbs th) i) as [[q b|u]|] eqn:Ei; try discriminate.
    destruct u; try discriminate. injection Hp as ->.
    destruct (cbtick s t i) as [s1|] eqn:E; [eauto|]. exfalso.
    eapply (XP.cbtick_enabled_hand s t th i _ x R Hth Ei); [right; eauto|exact E].
Qed.

Theorem wake_inserts_once nw nt nc c w t e x : 1 <= nt -> creach nw nt nc c ->
  cguard (ma c) w t e = true -> push_target (sy c) t e = Some x ->
  exists m1, mmove (ma c) w (PushTop x) = Some m1 /\ places (ma c) x = 0 /\ places m1 x = 1 /\
             is_live (ma c) x = true.
Proof.
  intros Hnt R Hg Hp. destruct (creach_sync _ _ _ _ R) as [Rs _].
  destruct (push_step_enabled _ _ _ _ Rs Hp) as [s1 Hst].
  eapply (wake_inserts_once state ev SyncModel.step SyncI.is_cb SyncI.susp SyncI.push ncbs
            susp_frame cb_susp' push_wakes push_susp (init_state nt nc) (susp_init nt nc)); eauto.
Qed.

Theorem csync_never_stuck nw nt nc c w t e s1 : 1 <= nt -> creach nw nt nc c ->
  cguard (ma c) w t e = true -> SyncModel.step (sy c) (t, e) = Some s1 ->
  exists c', cstep c (CSync w t e) = Some c' /\ sy c' = s1.
Proof.
  intros Hnt R Hg Hst.
  eapply (gsync_never_stuck state ev SyncModel.step SyncI.is_cb SyncI.susp SyncI.push ncbs
            susp_frame cb_susp' push_wakes push_susp (init_state nt nc) (susp_init nt nc)); eauto.
Qed.
