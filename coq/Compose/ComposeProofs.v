(** C04, last clause at machine level: "threads blocked on a mutex do not occupy a worker", by
    composing the two validated models (Compose/ComposeModel.v = product of Sync/SyncModel.v and
    Machine/MachineModel.v).  Proved for every number of workers / threads / condition variables
    and every schedule of the product:
    - both component invariants (MutexProofs.Inv, MachineProofs.Inv) hold, through projection
      lemmas (a product step is a Sync step or none, and at most three machine moves);
    - the LINK invariant: a thread suspended inside the Sync object is live and in no place;
    - consequences: blocked threads occupy no worker / hand / run queue; a Sync step of a
      thread's own context happens on exactly one worker; PushTop is enabled at Sync push steps
      (the wake-up inserts exactly once); synchronised steps are never stuck. *)
From Coq Require Import ZArith List Bool Arith Lia.
From MT Require Import Lib.Interleave Sync.SyncModel Machine.MachineModel Compose.ComposeModel.
From MT Require Sync.MutexProofs Machine.MachineProofs.
Import ListNotations.

Module MP := MachineProofs.
Module XP := MutexProofs.

(* ---------------------------------------------------------------------------------------- *)
(** * Machine: which move can give a place to which thread *)

Definition gains (s : mstate) (w : nat) (m : move) : option nat :=
  match m with
  | CreateCF c | CreatePF c => Some c
  | TakeJoiner j => Some j
  | PushTop x => Some x
  | PutBase => match nth_error (cur s) w with Some (Cb t) => Some t | _ => None end
  | _ => None
  end.

Ltac occs := unfold places, occ_cur, occ_hand, occ_dq, set_cur, set_hand, set_dq, set_stat in *;
  cbn [cur hand dq stat b2n] in *.

Lemma b2n_neq a b : a <> b -> b2n (Nat.eqb a b) = 0.
Proof. intros H. destruct (Nat.eqb_spec a b); [congruence|reflexivity]. Qed.

Lemma parked_spec s x : parked s x = true <-> is_live s x = true /\ places s x = 0.
Proof.
  unfold parked. rewrite andb_true_iff, Nat.eqb_eq. tauto.
Qed.

Lemma is_live_set_cur s w m x : is_live (set_cur s w m) x = is_live s x. Proof. reflexivity. Qed.
Lemma is_live_set_hand s w m x : is_live (set_hand s w m) x = is_live s x. Proof. reflexivity. Qed.
Lemma is_live_set_dq s w m x : is_live (set_dq s w m) x = is_live s x. Proof. reflexivity. Qed.

(** a parked thread stays parked under every move that does not give it a place *)
Lemma mmove_parked s w m s' x :
  mmove s w m = Some s' -> parked s x = true -> gains s w m <> Some x -> parked s' x = true.
Proof.
  intros Hm Hp Hg. apply parked_spec in Hp as [Hl H0]. apply parked_spec.
  unfold mmove in Hm. unfold gains in Hg.
  destruct (nth_error (cur s) w) as [cw|] eqn:Ec; [|discriminate].
  destruct (nth_error (hand s) w) as [hw|] eqn:Eh; [|discriminate].
  destruct (nth_error (dq s) w) as [qw|] eqn:Eq; [|discriminate].
  destruct m as [c|c| |v|j| | | |y| | ].
  - destruct cw as [|p|p]; try discriminate.
    destruct (is_fresh s c) eqn:Ef; [|discriminate]. injection Hm as <-.
    assert (Hcx : c <> x) by congruence.
    pose proof (MP.sumf_upd (w_cur x) (cur s) w (Run c) (Run p) Ec) as Hc.
    pose proof (MP.sumf_upd (w_q x) (dq s) w (qw ++ [p]) qw Eq) as Hq.
    rewrite MP.w_q_app, MP.w_q_single in Hq. cbn [w_cur] in Hc. rewrite (b2n_neq c x Hcx) in Hc.
    split.
    + rewrite MP.is_live_set_stat. cbn [set_dq set_cur stat]. rewrite (proj2 (Nat.eqb_neq c x) Hcx). exact Hl.
    + occs. lia.
  - destruct cw as [|p|p]; try discriminate.
    destruct (is_fresh s c) eqn:Ef; [|discriminate]. injection Hm as <-.
    assert (Hcx : c <> x) by congruence.
    pose proof (MP.sumf_upd (w_q x) (dq s) w (qw ++ [c]) qw Eq) as Hq.
    rewrite MP.w_q_app, MP.w_q_single in Hq. rewrite (b2n_neq c x Hcx) in Hq.
    split.
    + rewrite MP.is_live_set_stat. cbn [set_dq set_cur stat]. rewrite (proj2 (Nat.eqb_neq c x) Hcx). exact Hl.
    + occs. lia.
  - assert (exists r y, hw = None /\ split_last qw = Some (r, y) /\ s' = set_hand (set_dq s w r) w (Some y)) as (r & y & -> & Hsp & ->).
    { destruct cw; try discriminate; destruct hw; try discriminate;
      destruct (split_last qw) as [[r y]|] eqn:Hsp; try discriminate; injection Hm as <-; eauto. }
    apply MP.split_last_spec in Hsp. subst qw.
    pose proof (MP.sumf_upd (w_q x) (dq s) w r (r ++ [y]) Eq) as Hq.
    pose proof (MP.sumf_upd (w_hand x) (hand s) w (Some y) None Eh) as Hh.
    rewrite MP.w_q_app, MP.w_q_single in Hq. cbn [w_hand] in Hh.
    split; [exact Hl|]. occs. lia.
  - assert (exists r y, hw = None /\ nth_error (dq s) v = Some (y :: r) /\ s' = set_hand (set_dq s v r) w (Some y)) as (r & y & -> & Ev & ->).
    { destruct cw; try discriminate; destruct hw; try discriminate;
      destruct (nth_error (dq s) v) as [[|y r]|] eqn:Ev; try discriminate;
      destruct (Nat.eqb v w); try discriminate; injection Hm as <-; eauto. }
    pose proof (MP.sumf_upd (w_q x) (dq s) v r (y :: r) Ev) as Hq.
    pose proof (MP.sumf_upd (w_hand x) (hand s) w (Some y) None Eh) as Hh.
    rewrite MP.w_q_cons in Hq. cbn [w_hand] in Hh.
    split; [exact Hl|]. occs. lia.
  - destruct cw as [|p|p]; try discriminate. destruct hw; try discriminate.
    destruct (parked s j) eqn:Ep; [|discriminate]. injection Hm as <-.
    assert (Hjx : j <> x) by congruence.
    pose proof (MP.sumf_upd (w_hand x) (hand s) w (Some j) None Eh) as Hh. cbn [w_hand] in Hh.
    rewrite (b2n_neq j x Hjx) in Hh. split; [exact Hl|]. occs. lia.
  - destruct cw as [|p|p]; try discriminate. injection Hm as <-.
    pose proof (MP.sumf_upd (w_cur x) (cur s) w (Cb p) (Run p) Ec) as Hc. cbn [w_cur] in Hc.
    split; [exact Hl|]. occs. lia.
  - destruct cw as [|p|p]; try discriminate. injection Hm as <-.
    pose proof (MP.sumf_upd (w_cur x) (cur s) w (Cb p) (Run p) Ec) as Hc. cbn [w_cur] in Hc.
    assert (Hpx : p <> x).
    { intros ->. rewrite Nat.eqb_refl in Hc. cbn [b2n] in Hc. occs. lia. }
    split.
    + rewrite MP.is_live_set_stat. cbn [set_cur stat]. rewrite (proj2 (Nat.eqb_neq p x) Hpx). exact Hl.
    + occs. lia.
  - destruct cw as [|p|p]; try discriminate.
    destruct (parked s p) eqn:Ep; [|discriminate]. injection Hm as <-.
    assert (Hpx : p <> x) by congruence.
    pose proof (MP.sumf_upd (w_q x) (dq s) w (p :: qw) qw Eq) as Hq. rewrite MP.w_q_cons in Hq.
    rewrite (b2n_neq p x Hpx) in Hq. split; [exact Hl|]. occs. lia.
  - destruct (parked s y) eqn:Ep; [|discriminate]. injection Hm as <-.
    assert (Hyx : y <> x) by congruence.
    pose proof (MP.sumf_upd (w_q x) (dq s) w (qw ++ [y]) qw Eq) as Hq.
    rewrite MP.w_q_app, MP.w_q_single in Hq. rewrite (b2n_neq y x Hyx) in Hq.
    split; [exact Hl|]. occs. lia.
  - destruct cw as [|p|p]; try discriminate.
    destruct hw as [n|]; injection Hm as <-.
    + pose proof (MP.sumf_upd (w_cur x) (cur s) w (Run n) (Cb p) Ec) as Hc. cbn [w_cur] in Hc.
      pose proof (MP.sumf_upd (w_hand x) (hand s) w None (Some n) Eh) as Hh. cbn [w_hand] in Hh.
      split; [exact Hl|]. occs. lia.
    + pose proof (MP.sumf_upd (w_cur x) (cur s) w Sched (Cb p) Ec) as Hc. cbn [w_cur] in Hc.
      split; [exact Hl|]. occs. lia.
  - destruct cw as [|p|p]; try discriminate. destruct hw as [n|]; try discriminate. injection Hm as <-.
    pose proof (MP.sumf_upd (w_cur x) (cur s) w (Run n) Sched Ec) as Hc. cbn [w_cur] in Hc.
    pose proof (MP.sumf_upd (w_hand x) (hand s) w None (Some n) Eh) as Hh. cbn [w_hand] in Hh.
    split; [exact Hl|]. occs. lia.
Qed.

Lemma sumf_ge_nth {A} (f : A -> nat) l i a : nth_error l i = Some a -> f a <= MachineModel.sumf f l.
Proof.
  revert i; induction l as [|z l IH]; intros [|i] H; cbn in H; try discriminate; cbn [MachineModel.sumf].
  - injection H as ->. lia.
  - specialize (IH i H). lia.
Qed.

Lemma sumf_ge2_nth {A} (f : A -> nat) l i j a b :
  i <> j -> nth_error l i = Some a -> nth_error l j = Some b -> f a + f b <= MachineModel.sumf f l.
Proof.
  revert i j; induction l as [|z l IH]; intros [|i] [|j] Hij Hi Hj; cbn in Hi, Hj; try discriminate;
    try congruence; cbn [MachineModel.sumf].
  - injection Hi as ->. pose proof (sumf_ge_nth f l j b Hj). lia.
  - injection Hj as ->. pose proof (sumf_ge_nth f l i a Hi). lia.
  - assert (i <> j) by congruence. specialize (IH i j H Hi Hj). lia.
Qed.

Lemma w_q_in t q : In t q -> 1 <= w_q t q.
Proof.
  unfold w_q. induction q as [|y q IH]; cbn [In MachineModel.sumf]; [contradiction|].
  intros [->|H]; [rewrite Nat.eqb_refl; cbn; lia | specialize (IH H); lia].
Qed.

(** a thread with no place is current nowhere, in no hand, in no run queue *)
Lemma no_place_nowhere s x : places s x = 0 ->
  forall w, nth_error (cur s) w <> Some (Run x) /\ nth_error (hand s) w <> Some (Some x) /\
            (forall q, nth_error (dq s) w = Some q -> ~ In x q).
Proof.
  intros H w. unfold places, occ_cur, occ_hand, occ_dq in H. repeat split.
  - intros E. pose proof (sumf_ge_nth (w_cur x) _ _ _ E) as G. cbn in G. rewrite Nat.eqb_refl in G. cbn in G. lia.
  - intros E. pose proof (sumf_ge_nth (w_hand x) _ _ _ E) as G. cbn in G. rewrite Nat.eqb_refl in G. cbn in G. lia.
  - intros q E Hin. pose proof (sumf_ge_nth (w_q x) _ _ _ E) as G. pose proof (w_q_in x q Hin). lia.
Qed.

(** a thread that is current on a worker occupies that place only *)
Lemma current_unique s w t : MP.Inv s -> nth_error (cur s) w = Some (Run t) ->
  is_live s t = true /\ places s t = 1 /\
  (forall w', nth_error (cur s) w' = Some (Run t) -> w' = w) /\
  (forall w', nth_error (hand s) w' <> Some (Some t)) /\
  (forall w' q, nth_error (dq s) w' = Some q -> ~ In t q).
Proof.
  intros I Ec. destruct (I t) as [H1 H0].
  pose proof (sumf_ge_nth (w_cur t) _ _ _ Ec) as G. cbn in G. rewrite Nat.eqb_refl in G. cbn in G.
  assert (Hp : places s t = 1) by (unfold places, occ_cur in *; lia).
  repeat split.
  - destruct (is_live s t) eqn:E; [reflexivity|]. specialize (H0 eq_refl). lia.
  - exact Hp.
  - intros w' Ec'. destruct (Nat.eq_dec w' w) as [E|Hne]; [exact E|exfalso].
    pose proof (sumf_ge2_nth (w_cur t) _ _ _ _ _ Hne Ec' Ec) as G2. cbn in G2. rewrite Nat.eqb_refl in G2. cbn in G2.
    unfold places, occ_cur in *. lia.
  - intros w' E. pose proof (sumf_ge_nth (w_hand t) _ _ _ E) as G2. cbn in G2. rewrite Nat.eqb_refl in G2. cbn in G2.
    unfold places, occ_cur, occ_hand in *. lia.
  - intros w' q E Hin. pose proof (sumf_ge_nth (w_q t) _ _ _ E) as G2. pose proof (w_q_in t q Hin).
    unfold places, occ_cur, occ_dq in *. lia.
Qed.

(** the three per-worker lists have the same length *)
Definition Shape (s : mstate) : Prop := length (hand s) = length (cur s) /\ length (dq s) = length (cur s).

Lemma mmove_shape s w m s' : mmove s w m = Some s' -> Shape s -> Shape s'.
Proof.
  intros Hm [H1 H2]. unfold mmove in Hm.
  destruct (nth_error (cur s) w) as [cw|]; [|discriminate].
  destruct (nth_error (hand s) w) as [hw|]; [|discriminate].
  destruct (nth_error (dq s) w) as [qw|]; [|discriminate].
  destruct m; repeat match type of Hm with
    | context [match ?x with _ => _ end] => destruct x eqn:?
    end; try discriminate; injection Hm as <-;
    unfold Shape, set_cur, set_hand, set_dq, set_stat; cbn [cur hand dq stat]; rewrite ?MP.upd_length; split; assumption.
Qed.

Lemma shape_lookup s w cw : Shape s -> nth_error (cur s) w = Some cw ->
  exists hw qw, nth_error (hand s) w = Some hw /\ nth_error (dq s) w = Some qw.
Proof.
  intros [H1 H2] Ec. assert (Hw : w < length (cur s)) by (apply nth_error_Some; congruence).
  destruct (nth_error (hand s) w) as [hw|] eqn:Eh; [|apply nth_error_None in Eh; lia].
  destruct (nth_error (dq s) w) as [qw|] eqn:Eq; [|apply nth_error_None in Eq; lia].
  eauto.
Qed.

(** saving the context of the current thread parks it *)
Lemma save_parks s w t : MP.Inv s -> Shape s -> nth_error (cur s) w = Some (Run t) ->
  exists s', mmove s w SaveCtx = Some s' /\ parked s' t = true /\ nth_error (cur s') w = Some (Cb t).
Proof.
  intros I Sh Ec. destruct (current_unique s w t I Ec) as (Hl & Hp & _).
  destruct (shape_lookup s w _ Sh Ec) as (hw & qw & Eh & Eq).
  exists (set_cur s w (Cb t)). split; [unfold mmove; rewrite Ec, Eh, Eq; reflexivity|]. split.
  - apply parked_spec. split; [exact Hl|].
    pose proof (MP.sumf_upd (w_cur t) (cur s) w (Cb t) (Run t) Ec) as Hc. cbn [w_cur] in Hc.
    rewrite Nat.eqb_refl in Hc. cbn [b2n] in Hc. occs. lia.
  - cbn [set_cur cur]. eapply MP.nth_error_upd_same; eauto.
Qed.

(** moves that leave [cur] of the worker alone *)
Lemma mmove_cur_same s w m s' : mmove s w m = Some s' ->
  match m with PopOwn | Steal _ | TakeJoiner _ | PutBase | PushTop _ | CreatePF _ => True | _ => False end ->
  cur s' = cur s.
Proof.
  intros Hm Hk. unfold mmove in Hm.
  destruct (nth_error (cur s) w) as [cw|]; [|discriminate].
  destruct (nth_error (hand s) w) as [hw|]; [|discriminate].
  destruct (nth_error (dq s) w) as [qw|]; [|discriminate].
  destruct m; try contradiction; repeat match type of Hm with
    | context [match ?x with _ => _ end] => destruct x eqn:?
    end; try discriminate; injection Hm as <-; reflexivity.
Qed.

Lemma autopop_spec m w m' : autopop m w = Some m' -> m' = m \/ mmove m w PopOwn = Some m'.
Proof.
  unfold autopop. destruct (nth_error (hand m) w) as [[x|]|]; try (intros E; injection E as <-; left; reflexivity).
  destruct (nth_error (dq m) w) as [[|y q]|]; try (intros E; injection E as <-; left; reflexivity).
  intros E. right. exact E.
Qed.

Lemma autopop_enabled m w t : nth_error (cur m) w = Some (Run t) -> exists m', autopop m w = Some m'.
Proof.
  intros Ec. unfold autopop.
  destruct (nth_error (hand m) w) as [[x|]|] eqn:Eh; eauto.
  destruct (nth_error (dq m) w) as [[|y q]|] eqn:Eq; eauto.
  unfold mmove. rewrite Ec, Eh, Eq. unfold split_last.
  destruct (rev (y :: q)) as [|z r] eqn:Er.
  - exfalso. apply (f_equal (@length nat)) in Er. rewrite rev_length in Er. cbn in Er. lia.
  - eauto.
Qed.
(* ---------------------------------------------------------------------------------------- *)
(** * Sync: what a step does to the suspended status of threads *)

Lemma wake_spec s x s0 : wake s x = Some s0 ->
  exists thx k, nth_error (thr s) x = Some thx /\ main thx = Susp k /\
                s0 = set_thread s x (set_main thx (LockRead k)).
Proof.
  unfold wake, get_thread. destruct (nth_error (thr s) x) as [thx|] eqn:E; [|discriminate].
  destruct (main thx) eqn:Em; try discriminate. intros H. injection H as <-. eauto.
Qed.

Lemma susp_at_upd_same s l t th0 th : nth_error l t = Some th0 ->
  susp_at (set_thr s (SyncModel.upd l t th)) t = match main th with Susp _ => true | _ => false end.
Proof.
  intros H. unfold susp_at, get_thread. cbn [thr set_thr]. rewrite (XP.nth_error_upd_eq _ _ _ _ H). reflexivity.
Qed.

(** a push step makes its target runnable *)
Lemma push_wakes s t e s1 x : SyncModel.step s (t, e) = Some s1 -> push_target s t e = Some x -> susp_at s1 x = false.
Proof.
  intros H Hp. unfold push_target in Hp. destruct (get_thread s t) as [th|] eqn:Hth; [|discriminate].
  unfold get_thread in Hth.
  destruct e as [o| |i|v]; try discriminate; cbn [SyncModel.step] in H.
  - (* main context *)
    unfold tick, get_thread in H. rewrite Hth in H. cbv zeta in H.
    destruct (main th) eqn:Em; try discriminate.
    + destruct u; try discriminate. injection Hp as ->. cbn [ustep] in H.
      destruct (wake s x) as [s0|] eqn:Hw; [|discriminate].
      destruct (wake_spec _ _ _ Hw) as (thx & k & Ex & Emx & ->).
      unfold get_thread in H. cbn [thr set_thread set_thr] in H.
      destruct (nth_error (SyncModel.upd (thr s) x (set_main thx (LockRead k))) t) as [l|] eqn:El; [|discriminate].
      injection H as <-. unfold susp_at, get_thread. cbn [thr set_thread set_thr].
      destruct (Nat.eq_dec t x) as [->|Hne].
      * rewrite (XP.nth_error_upd_eq _ _ _ _ El). reflexivity.
      * rewrite XP.nth_error_upd_neq by exact Hne. rewrite (XP.nth_error_upd_eq _ _ _ _ Ex). reflexivity.
    + injection Hp as ->.
      destruct (wake s x) as [s0|] eqn:Hw; [|discriminate].
      destruct (wake_spec _ _ _ Hw) as (thx & k0 & Ex & Emx & ->).
      unfold get_thread in H. cbn [thr set_thread set_thr] in H.
      destruct (nth_error (SyncModel.upd (thr s) x (set_main thx (LockRead k0))) t) as [l|] eqn:El;
        [|destruct k; discriminate].
      assert (exists p, s1 = set_thread (set_thread s x (set_main thx (LockRead k0))) t (set_main l p) /\
                        match p with Susp _ => false | _ => true end = true) as (p & -> & Hpp).
      { destruct k; injection H as <-; eexists; split; reflexivity. }
      unfold susp_at, get_thread. cbn [thr set_thread set_thr].
      destruct (Nat.eq_dec t x) as [->|Hne].
      * rewrite (XP.nth_error_upd_eq _ _ _ _ El). cbn [main set_main]. destruct p; try reflexivity; discriminate.
      * rewrite XP.nth_error_upd_neq by exact Hne. rewrite (XP.nth_error_upd_eq _ _ _ _ Ex). reflexivity.
  - (* callback context *)
    unfold cbtick, get_thread in H. rewrite Hth in H.
    destruct (nth_error (cbs th) i) as [c|] eqn:Ei; [|discriminate].
    destruct c as [q b|u]; try discriminate. destruct u; try discriminate. injection Hp as ->.
    cbn [ustep] in H.
    destruct (wake s x) as [s0|] eqn:Hw; [|discriminate].
    destruct (wake_spec _ _ _ Hw) as (thx & k & Ex & Emx & ->).
    unfold get_thread in H. cbn [thr set_thread set_thr] in H.
    destruct (nth_error (SyncModel.upd (thr s) x (set_main thx (LockRead k))) t) as [l|] eqn:El; [|discriminate].
    injection H as <-. unfold susp_at, get_thread. cbn [thr set_thread set_thr].
    destruct (Nat.eq_dec t x) as [->|Hne].
    + rewrite (XP.nth_error_upd_eq _ _ _ _ El). cbn [main set_cbs].
      rewrite (XP.nth_error_upd_eq _ _ _ _ Ex) in El. injection El as <-. reflexivity.
    + rewrite XP.nth_error_upd_neq by exact Hne. rewrite (XP.nth_error_upd_eq _ _ _ _ Ex). reflexivity.
Qed.

(** a thread other than the actor does not become suspended by the actor's step *)
Lemma susp_frame s t e s1 x : SyncModel.step s (t, e) = Some s1 -> x <> t -> susp_at s1 x = true -> susp_at s x = true.
Proof.
  intros H Hx Hs. unfold susp_at in *.
  destruct (get_thread s x) as [thx|] eqn:Ex.
  - destruct (XP.step_frame s t e s1 x thx H Hx Ex) as [E|(k & Hm & E)]; rewrite E in Hs.
    + exact Hs.
    + cbn in Hs. discriminate.
  - unfold get_thread in *. apply nth_error_None in Ex. rewrite <- (XP.step_length _ _ _ H) in Ex.
    apply nth_error_None in Ex. rewrite Ex in Hs. discriminate.
Qed.

Ltac cb_fin t Hth :=
  try match goal with E : nth_error (SyncModel.upd (thr _) t _) t = Some _ |- _ =>
    rewrite (XP.nth_error_upd_eq _ _ _ _ Hth) in E; injection E as <- end;
  try match goal with E : nth_error (thr _) ?x = Some _, E2 : nth_error (SyncModel.upd (thr _) ?x _) t = Some _ |- _ =>
    destruct (Nat.eq_dec x t) as [->|?];
    [ rewrite Hth in E; injection E as <-; rewrite (XP.nth_error_upd_eq _ _ _ _ Hth) in E2; injection E2 as <-
    | rewrite XP.nth_error_upd_neq in E2 by assumption; rewrite Hth in E2; injection E2 as <- ] end.

(** a callback step never suspends its own thread (it can only resume it) *)
Lemma cb_susp s t i s1 : SyncModel.step s (t, ECbTick i) = Some s1 -> susp_at s1 t = true -> susp_at s t = true.
Proof.
  intros H. cbn [SyncModel.step] in H. unfold cbtick, get_thread in H.
  destruct (nth_error (thr s) t) as [th|] eqn:Hth; [|discriminate].
  unfold susp_at at 2. unfold get_thread. rewrite Hth.
  destruct th as [m cs ow]. cbn [main cbs own] in *.
  unfold ustep, wake, clear_own, getq, setq, get_thread in H.
  XP.brk3 H Hth.
  all: injection H as <-.
  all: unfold susp_at, get_thread; cbn [thr set_mword set_festat set_thread set_thr mword mq cqs festat]; rewrite ?XP.upd_upd.
  all: cb_fin t Hth.
  all: try (erewrite XP.nth_error_upd_eq by (first [eassumption | eapply XP.nth_error_upd_eq; eassumption
                                                  | rewrite XP.nth_error_upd_neq by assumption; eassumption]);
            cbn [main set_main set_cbs set_own]; try (intros E; exact E); try (intros E; discriminate E)).
Qed.

(* ---------------------------------------------------------------------------------------- *)
(** * The product invariant *)

(** LINK: a thread suspended inside the Sync object (context saved by a blocking step, not yet
    handed to a run queue by a push step) is live and occupies no place of the machine *)
Definition Link (c : cstate) : Prop := forall x, susp_at (sy c) x = true -> parked (ma c) x = true.

Record CInv (c : cstate) : Prop := {
  ci_sync : XP.Inv (sy c);
  ci_mach : MP.Inv (ma c);
  ci_shape : Shape (ma c);
  ci_link : Link c
}.

Lemma guard_cur m w t e : guard_ok m w t e = true ->
  nth_error (cur m) w = Some (if is_cb_ev e then Cb t else Run t).
Proof.
  unfold guard_ok. destruct (nth_error (cur m) w) as [[|u|u]|]; try discriminate;
    intros H; apply andb_true_iff in H as [H1 H2]; apply Nat.eqb_eq in H1; subst u;
    destruct (is_cb_ev e); try discriminate; reflexivity.
Qed.

Lemma parked_live_fresh s x c : parked s x = true -> is_fresh s c = true -> c <> x.
Proof.
  intros Hp Hf ->. apply parked_spec in Hp as [Hl _]. rewrite (MP.is_fresh_not_live _ _ Hf) in Hl. discriminate.
Qed.

Lemma cmach_inv c w m c' : CInv c -> cmach c w m = Some c' -> CInv c'.
Proof.
  intros [Is Im Sh Lk] H. unfold cmach in H. destruct (free_ok c w m) eqn:Hf; [|discriminate].
  destruct (mmove (ma c) w m) as [m1|] eqn:Hm; [|discriminate]. cbn [obind] in H. injection H as <-.
  constructor; cbn [sy ma].
  - exact Is.
  - eapply MP.mmove_inv; eauto.
  - eapply mmove_shape; eauto.
  - intros x Hx. cbn [sy ma] in *. specialize (Lk x Hx). eapply mmove_parked; [exact Hm | exact Lk |].
    unfold gains. unfold free_ok in Hf.
    destruct m as [c0|c0| |v|j| | | |y| | ]; try discriminate.
    + intros E. injection E as ->. unfold mmove in Hm.
      destruct (nth_error (cur (ma c)) w) as [[|p|p]|]; try discriminate;
      destruct (nth_error (hand (ma c)) w); try discriminate; destruct (nth_error (dq (ma c)) w); try discriminate.
      destruct (is_fresh (ma c) x) eqn:Ef; [|discriminate]. exact (parked_live_fresh _ _ _ Lk Ef eq_refl).
    + intros E. injection E as ->. unfold mmove in Hm.
      destruct (nth_error (cur (ma c)) w) as [[|p|p]|]; try discriminate;
      destruct (nth_error (hand (ma c)) w); try discriminate; destruct (nth_error (dq (ma c)) w); try discriminate.
      destruct (is_fresh (ma c) x) eqn:Ef; [|discriminate]. exact (parked_live_fresh _ _ _ Lk Ef eq_refl).
    + intros E. injection E as ->. rewrite Hx in Hf. discriminate.
    + destruct (nth_error (cur (ma c)) w) as [[|p|p]|]; try discriminate.
      intros E. injection E as ->. rewrite Hx in Hf. discriminate.
    + intros E. injection E as ->. rewrite Hx in Hf. discriminate.
Qed.

Lemma csync_inv c w t e c' : CInv c -> csync c w t e = Some c' -> CInv c'.
Proof.
  intros [Is Im Sh Lk] H. unfold csync in H.
  destruct (guard_ok (ma c) w t e) eqn:Hg; [|discriminate].
  pose proof (guard_cur _ _ _ _ Hg) as Ec.
  destruct (SyncModel.step (sy c) (t, e)) as [s1|] eqn:Hst; [|discriminate]. cbn [obind] in H.
  pose proof (XP.inv_step _ _ _ Is Hst) as Is1.
  (* the optional push *)
  assert (exists m1, (match push_target (sy c) t e with Some x => mmove (ma c) w (PushTop x) | None => Some (ma c) end) = Some m1)
    as [m1 Hm1] by (destruct (match push_target (sy c) t e with Some x => mmove (ma c) w (PushTop x) | None => Some (ma c) end); [eauto|discriminate]).
  rewrite Hm1 in H. cbn [obind] in H.
  assert (Im1 : MP.Inv m1 /\ Shape m1 /\ cur m1 = cur (ma c) /\
                forall x, susp_at s1 x = true -> x <> t \/ is_cb_ev e = true -> parked m1 x = true).
  { assert (Hold : forall x, susp_at s1 x = true -> x <> t \/ is_cb_ev e = true -> susp_at (sy c) x = true).
    { intros x Hx [Hne|Hcb]; [eapply susp_frame; eauto|].
      destruct (Nat.eq_dec x t) as [->|Hne]; [|eapply susp_frame; eauto].
      destruct e; try discriminate. eapply cb_susp; eauto. }
    destruct (push_target (sy c) t e) as [y|] eqn:Hp.
    - split; [|split; [|split]].
      + eapply MP.mmove_inv; eauto.
      + eapply mmove_shape; eauto.
      + eapply mmove_cur_same; [exact Hm1|exact Logic.I].
      + intros x Hx Hc. eapply mmove_parked; [exact Hm1 | apply Lk; eapply Hold; eauto |].
        cbn [gains]. intros E. injection E as ->. rewrite (push_wakes _ _ _ _ _ Hst Hp) in Hx. discriminate.
    - injection Hm1 as <-. split; [exact Im|split; [exact Sh|split; [reflexivity|]]].
      intros x Hx Hc. apply Lk. eapply Hold; eauto. }
  destruct Im1 as (Im1 & Sh1 & Ec1 & Lk1).
  destruct (is_cb_ev e) eqn:Hcb.
  - (* callback context *)
    destruct (Nat.ltb (ncbs s1 t) (ncbs (sy c) t)).
    + destruct (mmove m1 w EndCb) as [m2|] eqn:Hm2; [|discriminate]. cbn [obind] in H. injection H as <-.
      constructor; cbn [sy ma]; auto.
      * eapply MP.mmove_inv; eauto.
      * eapply mmove_shape; eauto.
      * intros x Hx. cbn [sy ma] in *. eapply mmove_parked; [exact Hm2 | apply Lk1; auto | cbn; discriminate].
    + injection H as <-. constructor; cbn [sy ma]; auto. intros x Hx. cbn [sy ma] in *. apply Lk1; auto.
  - (* own context *)
    destruct (susp_at s1 t) eqn:Hsus.
    + destruct (autopop m1 w) as [m2|] eqn:Hm2; [|discriminate]. cbn [obind] in H.
      destruct (mmove m2 w SaveCtx) as [m3|] eqn:Hm3; [|discriminate]. cbn [obind] in H. injection H as <-.
      assert (Im2 : MP.Inv m2 /\ Shape m2 /\ cur m2 = cur m1 /\ forall x, parked m1 x = true -> parked m2 x = true).
      { destruct (autopop_spec _ _ _ Hm2) as [->|Hpop]; [split; [exact Im1|split; [exact Sh1|split; [reflexivity|auto]]]|].
        split; [|split; [|split]].
        - eapply MP.mmove_inv; eauto.
        - eapply mmove_shape; eauto.
        - eapply mmove_cur_same; [exact Hpop|exact Logic.I].
        - intros x Hx. eapply mmove_parked; [exact Hpop | exact Hx | cbn; discriminate]. }
      destruct Im2 as (Im2 & Sh2 & Ec2 & Pk2).
      assert (Ect : nth_error (cur m2) w = Some (Run t)) by (rewrite Ec2, Ec1; exact Ec).
      destruct (save_parks m2 w t Im2 Sh2 Ect) as (m3' & Hs & Hpk & _). rewrite Hs in Hm3. injection Hm3 as ->.
      constructor; cbn [sy ma]; auto.
      * eapply MP.mmove_inv; eauto.
      * eapply mmove_shape; eauto.
      * intros x Hx. cbn [sy ma] in *. destruct (Nat.eq_dec x t) as [->|Hne]; [exact Hpk|].
        eapply mmove_parked; [exact Hs | apply Pk2; apply Lk1; auto | cbn; discriminate].
    + injection H as <-. constructor; cbn [sy ma]; auto. intros x Hx. cbn [sy ma] in *.
      apply Lk1; [exact Hx|]. left. intros ->. rewrite Hsus in Hx. discriminate.
Qed.

Theorem cstep_inv c a c' : CInv c -> cstep c a = Some c' -> CInv c'.
Proof. destruct a as [w t e|w m]; cbn [cstep]; [apply csync_inv | apply cmach_inv]. Qed.

Lemma shape_minit nw nt : Shape (minit nw nt).
Proof.
  unfold Shape, minit; cbn [cur hand dq]. destruct nw as [|k]; cbn [length]; rewrite ?repeat_length; auto.
Qed.

Lemma susp_at_init nt nc x : susp_at (init_state nt nc) x = false.
Proof.
  unfold susp_at, get_thread, init_state; cbn [thr].
  destruct (nth_error (repeat thread0 nt) x) as [th|] eqn:E; [|reflexivity].
  apply XP.nth_error_repeat in E. subst th. reflexivity.
Qed.

Lemma cinv_init nw nt nc : 1 <= nt -> CInv (cinit nw nt nc).
Proof.
  intros Hnt. constructor; cbn [cinit sy ma].
  - apply XP.inv_init. exists nt, nc. reflexivity.
  - apply MP.minit_inv. exact Hnt.
  - apply shape_minit.
  - intros x Hx. cbn [cinit sy] in Hx. rewrite susp_at_init in Hx. discriminate.
Qed.

Definition cinit_pred (nw nt nc : nat) (c : cstate) : Prop := c = cinit nw nt nc.
Definition creach (nw nt nc : nat) : cstate -> Prop := reachable (cinit_pred nw nt nc) cstep.

Theorem cinv_reach nw nt nc c : 1 <= nt -> creach nw nt nc c -> CInv c.
Proof.
  intros Hnt. apply invariant_rule.
  - intros s ->. apply cinv_init. exact Hnt.
  - intros s a s'. apply cstep_inv.
Qed.

(* ---------------------------------------------------------------------------------------- *)
(** * Projections: a product step is a Sync step (or none) and a short sequence of machine moves *)

Fixpoint mmoves (m : mstate) (l : list (nat * move)) : option mstate :=
  match l with
  | [] => Some m
  | a :: r => match mstep m a with Some m' => mmoves m' r | None => None end
  end.

Lemma mmoves_app m l1 l2 m1 : mmoves m l1 = Some m1 -> mmoves m (l1 ++ l2) = mmoves m1 l2.
Proof.
  revert m; induction l1 as [|a r IH]; intros m H; cbn [mmoves app] in *.
  - injection H as ->. reflexivity.
  - destruct (mstep m a) as [m'|]; [apply IH; exact H|discriminate].
Qed.

Lemma cstep_proj_sync c a c' : cstep c a = Some c' ->
  sy c' = sy c \/ exists t e, SyncModel.step (sy c) (t, e) = Some (sy c').
Proof.
  destruct a as [w t e|w m]; cbn [cstep].
  - unfold csync. destruct (guard_ok (ma c) w t e); [|discriminate].
    destruct (SyncModel.step (sy c) (t, e)) as [s1|] eqn:Hst; [|discriminate]. cbn [obind].
    intros H. right. exists t, e. rewrite Hst. f_equal.
    destruct (match push_target (sy c) t e with Some x => mmove (ma c) w (PushTop x) | None => Some (ma c) end) as [m1|];
      [|discriminate]. cbn [obind] in H.
    destruct (is_cb_ev e).
    + destruct (Nat.ltb (ncbs s1 t) (ncbs (sy c) t)).
      * destruct (mmove m1 w EndCb); [|discriminate]. injection H as <-. reflexivity.
      * injection H as <-. reflexivity.
    + destruct (susp_at s1 t).
      * destruct (autopop m1 w) as [m2|]; [|discriminate]. cbn [obind] in H.
        destruct (mmove m2 w SaveCtx); [|discriminate]. injection H as <-. reflexivity.
      * injection H as <-. reflexivity.
  - unfold cmach. destruct (free_ok c w m); [|discriminate].
    destruct (mmove (ma c) w m); [|discriminate]. intros H. injection H as <-. left. reflexivity.
Qed.

Lemma cstep_proj_mach c a c' : cstep c a = Some c' ->
  exists l, mmoves (ma c) l = Some (ma c') /\ length l <= 3.
Proof.
  destruct a as [w t e|w m]; cbn [cstep].
  - unfold csync. destruct (guard_ok (ma c) w t e); [|discriminate].
    destruct (SyncModel.step (sy c) (t, e)) as [s1|]; [|discriminate]. cbn [obind].
    assert (Hpush : forall m1, (match push_target (sy c) t e with Some x => mmove (ma c) w (PushTop x) | None => Some (ma c) end) = Some m1 ->
                    exists l, mmoves (ma c) l = Some m1 /\ length l <= 1).
    { intros m1 H. destruct (push_target (sy c) t e) as [x|].
      - exists [(w, PushTop x)]. cbn [mmoves]; unfold mstep; cbn [fst snd]. rewrite H. split; [reflexivity|cbn; lia].
      - injection H as <-. exists []. split; [reflexivity|cbn; lia]. }
    destruct (match push_target (sy c) t e with Some x => mmove (ma c) w (PushTop x) | None => Some (ma c) end) as [m1|] eqn:Hm1;
      [|discriminate]. cbn [obind].
    destruct (Hpush m1 eq_refl) as (l1 & Hl1 & Len1).
    destruct (is_cb_ev e).
    + destruct (Nat.ltb (ncbs s1 t) (ncbs (sy c) t)).
      * destruct (mmove m1 w EndCb) as [m2|] eqn:Hm2; [|discriminate]. intros H. injection H as <-. cbn [ma].
        exists (l1 ++ [(w, EndCb)]). rewrite (mmoves_app _ _ _ _ Hl1). cbn [mmoves]; unfold mstep; cbn [fst snd]. rewrite Hm2.
        split; [reflexivity|]. rewrite app_length. cbn. lia.
      * intros H. injection H as <-. exists l1. split; [exact Hl1|lia].
    + destruct (susp_at s1 t).
      * destruct (autopop m1 w) as [m2|] eqn:Hm2; [|discriminate]. cbn [obind].
        destruct (mmove m2 w SaveCtx) as [m3|] eqn:Hm3; [|discriminate]. intros H. injection H as <-. cbn [ma].
        destruct (autopop_spec _ _ _ Hm2) as [->|Hpop].
        -- exists (l1 ++ [(w, SaveCtx)]). rewrite (mmoves_app _ _ _ _ Hl1). cbn [mmoves]; unfold mstep; cbn [fst snd]. rewrite Hm3.
           split; [reflexivity|]. rewrite app_length. cbn. lia.
        -- exists (l1 ++ [(w, PopOwn); (w, SaveCtx)]). rewrite (mmoves_app _ _ _ _ Hl1). cbn [mmoves]; unfold mstep; cbn [fst snd].
           rewrite Hpop, Hm3. split; [reflexivity|]. rewrite app_length. cbn. lia.
      * intros H. injection H as <-. exists l1. split; [exact Hl1|lia].
  - unfold cmach. destruct (free_ok c w m); [|discriminate].
    destruct (mmove (ma c) w m) as [m1|] eqn:Hm; [|discriminate]. intros H. injection H as <-. cbn [ma].
    exists [(w, m)]. cbn [mmoves]; unfold mstep; cbn [fst snd]. rewrite Hm. split; [reflexivity|cbn; lia].
Qed.

Lemma mmoves_reachable nw nt m l m' :
  reachable (MP.minit_pred nw nt) mstep m -> mmoves m l = Some m' -> reachable (MP.minit_pred nw nt) mstep m'.
Proof.
  revert m; induction l as [|a r IH]; intros m R H; cbn [mmoves] in H.
  - injection H as <-. exact R.
  - destruct (mstep m a) as [m1|] eqn:E; [|discriminate]. apply (IH m1); [|exact H]. eapply reach_step; eauto.
Qed.

(** every reachable product state projects to reachable states of both components *)
Theorem creach_proj nw nt nc c : creach nw nt nc c ->
  XP.reach (sy c) /\ reachable (MP.minit_pred nw nt) mstep (ma c).
Proof.
  intros R. induction R as [c H0 | c a c' R IH Hst].
  - rewrite H0. split; apply reach_init; [exists nt, nc; reflexivity | reflexivity].
  - destruct IH as [IHs IHm]. split.
    + destruct (cstep_proj_sync _ _ _ Hst) as [->|(t & e & Hs)]; [exact IHs|]. eapply reach_step; eauto.
    + destruct (cstep_proj_mach _ _ _ Hst) as (l & Hl & _). eapply mmoves_reachable; eauto.
Qed.

(* ---------------------------------------------------------------------------------------- *)
(** * Consequences *)

Lemma sync_parked_susp s x : XP.parked s x -> susp_at s x = true.
Proof. intros (th & k & H1 & H2 & _). unfold susp_at. rewrite H1, H2. reflexivity. Qed.

(** (2) blocked threads - in the mutex queue, in a condition queue, in a waker's hand - occupy
    no worker, no run queue, no hand *)
Theorem blocked_frees_worker nw nt nc c x : 1 <= nt -> creach nw nt nc c ->
  In x (mq (sy c)) \/ (exists q, In x (nth q (cqs (sy c)) [])) \/
  (exists t th, get_thread (sy c) t = Some th /\ XP.in_hand th x) ->
  is_live (ma c) x = true /\ places (ma c) x = 0 /\
  forall w, nth_error (cur (ma c)) w <> Some (Run x) /\ nth_error (hand (ma c)) w <> Some (Some x) /\
            (forall q, nth_error (dq (ma c)) w = Some q -> ~ In x q).
Proof.
  intros Hnt R Hb. pose proof (cinv_reach _ _ _ _ Hnt R) as CI. destruct (creach_proj _ _ _ _ R) as [Rs _].
  assert (Hp : XP.parked (sy c) x).
  { destruct (XP.queue_wf _ Rs) as (_ & _ & _ & _ & Hq & Hc).
    destruct Hb as [H|[[q H]|(t & th & Hth & Hh)]]; [apply Hq; exact H | eapply Hc; exact H |].
    apply (XP.hand_parked _ t th x Rs Hth Hh). }
  pose proof (ci_link c CI x (sync_parked_susp _ _ Hp)) as Hpk. apply parked_spec in Hpk as [Hl H0].
  split; [exact Hl|]. split; [exact H0|]. apply no_place_nowhere. exact H0.
Qed.

(** (3) a thread executes a Sync step of its own context only while it is the current thread of
    exactly one worker (and in no hand, in no run queue) *)
Theorem sync_step_on_unique_worker nw nt nc c w t e c' : 1 <= nt -> creach nw nt nc c ->
  cstep c (CSync w t e) = Some c' -> is_cb_ev e = false ->
  nth_error (cur (ma c)) w = Some (Run t) /\ places (ma c) t = 1 /\
  (forall w', nth_error (cur (ma c)) w' = Some (Run t) -> w' = w) /\
  (forall w', nth_error (hand (ma c)) w' <> Some (Some t)) /\
  (forall w' q, nth_error (dq (ma c)) w' = Some q -> ~ In t q) /\
  susp_at (sy c) t = false.
Proof.
  intros Hnt R H Hcb. pose proof (cinv_reach _ _ _ _ Hnt R) as CI.
  cbn [cstep] in H. unfold csync in H. destruct (guard_ok (ma c) w t e) eqn:Hg; [|discriminate].
  pose proof (guard_cur _ _ _ _ Hg) as Ec. rewrite Hcb in Ec.
  destruct (current_unique _ _ _ (ci_mach c CI) Ec) as (Hl & Hp & Hu & Hh & Hq).
  repeat split; auto.
  destruct (susp_at (sy c) t) eqn:E; [|reflexivity].
  pose proof (ci_link c CI t E) as Hpk. apply parked_spec in Hpk as [_ H0]. lia.
Qed.

(** (4) at a Sync push step the machine's PushTop is enabled: the woken thread is parked, so the
    wake-up inserts it exactly once *)
Lemma push_target_in_hand s t e x : push_target s t e = Some x ->
  exists th, get_thread s t = Some th /\ XP.in_hand th x.
Proof.
  unfold push_target. destruct (get_thread s t) as [th|] eqn:Hth; [|discriminate].
  intros H. exists th. split; [reflexivity|]. destruct e as [o| |i|v]; try discriminate.
  - destruct (main th) eqn:Em; try discriminate.
    + destruct u; try discriminate. injection H as ->. right; left. eexists. left. exact Em.
    + injection H as ->. right; right. eauto.
  - destruct (nth_error (cbs th) i) as [[q b|u]|] eqn:Ei; try discriminate.
    destruct u; try discriminate. injection H as ->. right; left. eexists. right. eapply nth_error_In; eauto.
Qed.

Theorem wake_inserts_once nw nt nc c w t e x : 1 <= nt -> creach nw nt nc c ->
  guard_ok (ma c) w t e = true -> push_target (sy c) t e = Some x ->
  exists m1, mmove (ma c) w (PushTop x) = Some m1 /\ places (ma c) x = 0 /\ places m1 x = 1 /\
             is_live (ma c) x = true.
Proof.
  intros Hnt R Hg Hp. pose proof (cinv_reach _ _ _ _ Hnt R) as CI. destruct (creach_proj _ _ _ _ R) as [Rs _].
  destruct (push_target_in_hand _ _ _ _ Hp) as (th & Hth & Hh).
  destruct (XP.hand_parked _ t th x Rs Hth Hh) as (Hpk & _).
  pose proof (ci_link c CI x (sync_parked_susp _ _ Hpk)) as Hpm.
  pose proof (guard_cur _ _ _ _ Hg) as Ec.
  destruct (shape_lookup _ _ _ (ci_shape c CI) Ec) as (hw & qw & Eh & Eq).
  exists (set_dq (ma c) w (qw ++ [x])). apply parked_spec in Hpm as [Hl H0]. repeat split; auto.
  - unfold mmove. rewrite Ec, Eh, Eq. assert (Hpk2 : parked (ma c) x = true) by (apply parked_spec; auto).
    rewrite Hpk2. reflexivity.
  - pose proof (MP.sumf_upd (w_q x) (dq (ma c)) w (qw ++ [x]) qw Eq) as Hq.
    rewrite MP.w_q_app, MP.w_q_single, Nat.eqb_refl in Hq. cbn [b2n] in Hq. occs. lia.
Qed.

(** the composition never blocks a Sync step whose worker condition holds: every machine move a
    synchronised step carries is enabled *)
Theorem csync_never_stuck nw nt nc c w t e s1 : 1 <= nt -> creach nw nt nc c ->
  guard_ok (ma c) w t e = true -> SyncModel.step (sy c) (t, e) = Some s1 ->
  exists c', cstep c (CSync w t e) = Some c' /\ sy c' = s1.
Proof.
  intros Hnt R Hg Hst. pose proof (cinv_reach _ _ _ _ Hnt R) as CI.
  pose proof (guard_cur _ _ _ _ Hg) as Ec.
  cbn [cstep]. unfold csync. rewrite Hg, Hst. cbn [obind].
  assert (exists m1, (match push_target (sy c) t e with Some x => mmove (ma c) w (PushTop x) | None => Some (ma c) end) = Some m1 /\
                     cur m1 = cur (ma c) /\ MP.Inv m1 /\ Shape m1) as (m1 & Hm1 & Ec1 & Im1 & Sh1).
  { destruct (push_target (sy c) t e) as [x|] eqn:Hp.
    - destruct (wake_inserts_once _ _ _ _ _ _ _ _ Hnt R Hg Hp) as (m1 & Hm & _). exists m1.
      split; [exact Hm|]. split; [eapply mmove_cur_same; [exact Hm|exact Logic.I]|].
      split; [eapply MP.mmove_inv; [apply (ci_mach c CI)|exact Hm] | eapply mmove_shape; [exact Hm|apply (ci_shape c CI)]].
    - exists (ma c). split; [reflexivity|]. split; [reflexivity|]. split; [apply (ci_mach c CI)|apply (ci_shape c CI)]. }
  rewrite Hm1. cbn [obind]. rewrite <- Ec1 in Ec.
  destruct (is_cb_ev e).
  - destruct (Nat.ltb (ncbs s1 t) (ncbs (sy c) t)); [|eexists; split; reflexivity].
    destruct (shape_lookup _ _ _ Sh1 Ec) as (hw & qw & Eh & Eq).
    unfold mmove. rewrite Ec, Eh, Eq. destruct hw; cbn [obind]; eexists; split; reflexivity.
  - destruct (susp_at s1 t); [|eexists; split; reflexivity].
    destruct (autopop_enabled _ _ _ Ec) as [m2 Hm2]. rewrite Hm2. cbn [obind].
    assert (Im2 : MP.Inv m2 /\ Shape m2 /\ cur m2 = cur m1).
    { destruct (autopop_spec _ _ _ Hm2) as [->|Hpop]; [auto|].
      split; [eapply MP.mmove_inv; eauto|]. split; [eapply mmove_shape; eauto|].
      eapply mmove_cur_same; [exact Hpop|exact Logic.I]. }
    destruct Im2 as (Im2 & Sh2 & Ec2). rewrite <- Ec2 in Ec.
    destruct (save_parks _ _ _ Im2 Sh2 Ec) as (m3 & Hs & _). rewrite Hs. cbn [obind]. eexists; split; reflexivity.
Qed.
