(** Instances of the generic product (Compose/GenericModel.v): what "own context / callback",
    "suspended", "push of x" and "callbacks in flight" mean in each blocking protocol model.
    Executable definitions only (extracted by Extract_Compose.v). *)
From Coq Require Import ZArith List Bool Arith.
From MT Require Import Machine.MachineModel Compose.GenericModel.
From MT Require Sync.SyncModel Barrier.BarrierModel JoinCounter.JcModel Uncond.UncondModel.
Import ListNotations.

(** ** Abs(mutex, conds, felock) - C04 / C05 / C09 *)
Module SyncI.
  Import SyncModel.
  Definition is_cb (e : ev) : bool := match e with ECbTick _ => true | _ => false end.
  Definition susp (s : state) (t : nat) : bool :=
    match get_thread s t with
    | Some th => match main th with Susp _ => true | _ => false end
    | None => false
    end.
  Definition push (s : state) (t : nat) (e : ev) : option nat :=
    match get_thread s t with
    | None => None
    | Some th =>
      match e with
      | ETick => match main th with
                 | Unl (UPush _ x) | SigPush _ _ x => Some x
                 | _ => None
                 end
      | ECbTick i => match nth_error (cbs th) i with
                     | Some (CbUnl (UPush _ x)) => Some x
                     | _ => None
                     end
      | _ => None
      end
    end.
  Definition pstate := gstate state.
  Definition pevent := gev ev.
  Definition pstep : pstate -> pevent -> option pstate := gstep state ev step is_cb susp push ncbs.
  Definition pinit (nworkers nthreads nconds : nat) : pstate := ginit state (init_state nthreads nconds) nworkers nthreads.
End SyncI.

(** ** Abs(barrier) - C06 *)
Module BarrierI.
  Import BarrierModel.
  Definition is_cb (e : ev) : bool := match e with ECbTick => true | _ => false end.
  Definition susp (s : state) (t : nat) : bool :=
    match get_thread s t with
    | Some th => match main th with Susp => true | _ => false end
    | None => false
    end.
  Definition push (s : state) (t : nat) (e : ev) : option nat :=
    match get_thread s t, e with
    | Some th, ETick => match main th with WPush _ _ (Some x) => Some x | _ => None end
    | _, _ => None
    end.
  Definition ncb (s : state) (t : nat) : nat :=
    match get_thread s t with
    | Some th => match cb th with CbNone => 0 | _ => 1 end
    | None => 0
    end.
  Definition pstate := gstate state.
  Definition pevent := gev ev.
  Definition pstep : pstate -> pevent -> option pstate := gstep state ev step is_cb susp push ncb.
  Definition pinit (nworkers nthreads : nat) (n : Z) : pstate := ginit state (init_state nthreads n) nworkers nthreads.
End BarrierI.

(** ** Abs(join counter) - C07 *)
Module JcI.
  Import JcModel.
  Definition is_cb (e : ev) : bool := match e with ECbTick => true | _ => false end.
  Definition susp (s : state) (t : nat) : bool :=
    match get_thread s t with
    | Some th => match main th with Susp => true | _ => false end
    | None => false
    end.
  Definition push (s : state) (t : nat) (e : ev) : option nat :=
    match get_thread s t, e with
    | Some th, ETick => match main th with KPush _ _ (x :: _) => Some x | _ => None end
    | _, _ => None
    end.
  Definition ncb (s : state) (t : nat) : nat :=
    match get_thread s t with
    | Some th => match cb th with CbNone => 0 | CbEnq => 1 end
    | None => 0
    end.
  Definition pstate := gstate state.
  Definition pevent := gev ev.
  Definition pstep : pstate -> pevent -> option pstate := gstep state ev step is_cb susp push ncb.
  Definition pinit (nworkers : nat) (p0 : state) : pstate := ginit state p0 nworkers (length (thr p0)).
End JcI.

(** ** Abs(uncond) - C08 *)
Module UncondI.
  Import UncondModel.
  Definition is_cb (e : ev) : bool := match e with ECbTick => true | _ => false end.
  Definition susp (s : state) (t : nat) : bool :=
    match get_thread s t with
    | Some x => match main x with Susp => true | _ => false end
    | None => false
    end.
  Definition push (s : state) (t : nat) (e : ev) : option nat :=
    match get_thread s t, e with
    | Some x, ETick => match main x with SigPush y => Some y | _ => None end
    | _, _ => None
    end.
  Definition ncb (s : state) (t : nat) : nat :=
    match get_thread s t with
    | Some x => match cb x with CbNone => 0 | CbPublish => 1 end
    | None => 0
    end.
  Definition pstate := gstate state.
  Definition pevent := gev ev.
  Definition pstep : pstate -> pevent -> option pstate := gstep state ev step is_cb susp push ncb.
  Definition pinit (nworkers nthreads : nat) : pstate := ginit state (init_state nthreads) nworkers nthreads.
End UncondI.
