(** The product of Abs(mutex, conds, felock) (Sync/SyncModel.v) with the scheduler-level machine:
    the Sync instance of the generic product (Compose/GenericModel.v, Compose/Instances.v: module
    SyncI) under the names used by Properties_Compose.v and the C04 tie.

    - a Sync step of thread [t] in its own context (call / tick / ret) runs on a worker [w] with
      [cur w = Run t]; a callback step [ECbTick i] of [t] on a worker with [cur w = Cb t];
    - a blocking step (lock.cas2 succeeds, felock status mismatch, call of cond_wait: exactly the
      own-context steps after which the thread's pc is [Susp]) carries pop-if-any + SaveCtx;
    - the step that finishes a callback (removes it from [cbs]) carries EndCb;
    - a push step ([UPush x] in either context, [SigPush _ _ x]) carries PushTop x;
    - free machine moves; TakeJoiner j / PutBase / PushTop x only for threads not suspended
      inside the Sync object. *)
From Coq Require Import ZArith List Bool Arith.
From MT Require Import Sync.SyncModel Machine.MachineModel Compose.GenericModel Compose.Instances.
Import ListNotations.

Definition cstate := SyncI.pstate.
Definition cev := SyncI.pevent.
Notation CSync := (@GSync ev).
Notation CMach := (@GMach ev).
Notation sy := (@gp state).
Notation ma := (@gm state).
Notation susp_at := SyncI.susp.
Notation push_target := SyncI.push.
Notation is_cb_ev := SyncI.is_cb.
Notation cguard := (guard_ok ev SyncI.is_cb).
Definition cstep : cstate -> cev -> option cstate := SyncI.pstep.
Definition cinit (nworkers nthreads nconds : nat) : cstate := SyncI.pinit nworkers nthreads nconds.
