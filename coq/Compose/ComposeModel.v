(** The PRODUCT of the two validated models: Abs(mutex, conds, felock) (Sync/SyncModel.v) and the
    scheduler-level machine (Machine/MachineModel.v), with synchronised transitions that mirror
    src/myth_sync_func.h:

    - a Sync step of thread [t] in its own context (call / tick / ret) runs on a worker [w] with
      [cur w = Run t]; a callback step [ECbTick i] of [t] on a worker with [cur w = Cb t]
      (myth_block_on_queue_cb runs on the worker the thread just left);
    - a blocking step (lock.cas2 succeeds, felock status mismatch, call of cond_wait: exactly the
      main-context steps after which the thread's pc is [Susp]) carries the machine moves of
      myth_block_on_queue: pop the own run queue if it is non-empty (PopOwn), then save the
      context (SaveCtx): the worker now runs the callback;
    - the step that finishes a callback (the one that removes it from [cbs]) carries EndCb;
    - a push step ([UPush x] in either context, [SigPush _ _ x]) carries PushTop x on the executing
      worker (myth_queue_push(&env->runnable_q, to_wake));
    - free machine moves that do not touch the Sync state (creation, pops, steals, joins, yields,
      thread exit, dispatch), so that arbitrary surrounding scheduling is covered.  The three moves
      that give a place to a saved thread by other mechanisms than the Sync wake-up (TakeJoiner j,
      PutBase, PushTop x: join hand-over, yield, wake-ups of other primitives) are enabled only
      for threads that are not suspended inside this Sync object: those threads' only way back is
      a Sync push step.

    Executable; extracted and replayed against the real library by tools/props/compose.py. *)
From Coq Require Import ZArith List Bool Arith.
From MT Require Import Sync.SyncModel Machine.MachineModel.
Import ListNotations.

Record cstate := { sy : SyncModel.state; ma : mstate }.

Inductive cev :=
| CSync (w t : nat) (e : ev)
| CMach (w : nat) (m : move).

Definition cinit (nworkers nthreads nconds : nat) : cstate :=
  {| sy := init_state nthreads nconds; ma := minit nworkers nthreads |}.

Definition susp_at (s : SyncModel.state) (t : nat) : bool :=
  match get_thread s t with
  | Some th => match main th with Susp _ => true | _ => false end
  | None => false
  end.

(** the thread a step hands to the run queue *)
Definition push_target (s : SyncModel.state) (t : nat) (e : ev) : option nat :=
  match get_thread s t with
  | None => None
  | Some th =>
    match e with
    | ETick => match main th with
               | Unl (UPush _ x) | SigPush _ _ x => Some x
               | _ => None
               end
    | ECbTick i => match nth_error (cbs th) i with
                   | Some (CbUnl (UPush _ x)) => Some x
                   | _ => None
                   end
    | _ => None
    end
  end.

Definition is_cb_ev (e : ev) : bool := match e with ECbTick _ => true | _ => false end.

Definition guard_ok (m : mstate) (w t : nat) (e : ev) : bool :=
  match nth_error (cur m) w with
  | Some (Run u) => Nat.eqb u t && negb (is_cb_ev e)
  | Some (Cb u) => Nat.eqb u t && is_cb_ev e
  | _ => false
  end.

(** myth_queue_pop of the own run queue at the beginning of myth_block_on_queue *)
Definition autopop (m : mstate) (w : nat) : option mstate :=
  match nth_error (hand m) w, nth_error (dq m) w with
  | Some None, Some (_ :: _) => mmove m w PopOwn
  | _, _ => Some m
  end.

Definition obind {A B} (o : option A) (f : A -> option B) : option B :=
  match o with Some x => f x | None => None end.

Definition csync (c : cstate) (w t : nat) (e : ev) : option cstate :=
  if guard_ok (ma c) w t e then
    obind (SyncModel.step (sy c) (t, e)) (fun s1 =>
    obind (match push_target (sy c) t e with
           | Some x => mmove (ma c) w (PushTop x)
           | None => Some (ma c)
           end) (fun m1 =>
    if is_cb_ev e then
      if Nat.ltb (ncbs s1 t) (ncbs (sy c) t)
      then obind (mmove m1 w EndCb) (fun m2 => Some {| sy := s1; ma := m2 |})
      else Some {| sy := s1; ma := m1 |}
    else
      if susp_at s1 t
      then obind (autopop m1 w) (fun m2 => obind (mmove m2 w SaveCtx) (fun m3 => Some {| sy := s1; ma := m3 |}))
      else Some {| sy := s1; ma := m1 |}))
  else None.

(** free machine moves; the thread that would get a place by a non-Sync mechanism must not be
    suspended inside the Sync object *)
Definition free_ok (c : cstate) (w : nat) (m : move) : bool :=
  match m with
  | TakeJoiner j => negb (susp_at (sy c) j)
  | PushTop x => negb (susp_at (sy c) x)
  | PutBase => match nth_error (cur (ma c)) w with
               | Some (Cb t) => negb (susp_at (sy c) t)
               | _ => true
               end
  | _ => true
  end.

Definition cmach (c : cstate) (w : nat) (m : move) : option cstate :=
  if free_ok c w m then obind (mmove (ma c) w m) (fun m1 => Some {| sy := sy c; ma := m1 |}) else None.

Definition cstep (c : cstate) (a : cev) : option cstate :=
  match a with
  | CSync w t e => csync c w t e
  | CMach w m => cmach c w m
  end.
