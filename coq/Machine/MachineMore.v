(** More about the scheduler-level machine: conservation of threads (nobody's queue operation loses or
    duplicates somebody else's thread), what a yield does, and work conservation of an idle worker. *)
From Coq Require Import List Bool Arith Lia.
From MT Require Import Lib.Interleave Machine.MachineModel Machine.MachineProofs.
Import ListNotations.

(** how one move changes the number of places of a thread *)
Inductive delta (s : mstate) (w : nat) (m : move) (t : nat) : nat -> nat -> Prop :=
| d_same n : delta s w m t n n
| d_leave : nth_error (cur s) w = Some (Run t) -> (m = SaveCtx \/ m = FinishCtx) -> delta s w m t 1 0
| d_enter : (m = CreateCF t \/ m = CreatePF t \/ m = TakeJoiner t \/ m = PushTop t \/
             (m = PutBase /\ nth_error (cur s) w = Some (Cb t))) -> delta s w m t 0 1.

Lemma b2n_eqb_ne a b : a <> b -> b2n (Nat.eqb a b) = 0.
Proof. intros H. destruct (Nat.eqb_spec a b); [contradiction|reflexivity]. Qed.

Lemma b2n_eqb_refl a : b2n (Nat.eqb a a) = 1.
Proof. rewrite Nat.eqb_refl. reflexivity. Qed.

(** Conservation.  A move of worker [w] changes the number of places of thread [t] only in these ways:
    [t] itself, running on [w], saves its context or finishes (1 -> 0); or [t], in no place, is created,
    taken as the registered joiner, woken (pushed on top) or re-inserted by its own yield callback
    (0 -> 1).  In particular pops, steals, dispatches and the creation / wake-up of OTHER threads never
    lose or duplicate [t]. *)
Lemma places_delta s w m s' t : Inv s -> mmove s w m = Some s' -> delta s w m t (places s t) (places s' t).
Proof.
  intros HI Hm. unfold mmove in Hm.
  destruct (nth_error (cur s) w) as [cw|] eqn:Ec; [|discriminate].
  destruct (nth_error (hand s) w) as [hw|] eqn:Eh; [|discriminate].
  destruct (nth_error (dq s) w) as [qw|] eqn:Eq; [|discriminate].
  destruct (HI t) as [H1 H0].
  destruct m as [c|c| |v|j| | | |x| | |v].
  - (* CreateCF *)
    destruct cw as [|p|p]; try discriminate.
    destruct (is_fresh s c) eqn:Ef; [|discriminate]. injection Hm as <-.
    pose proof (is_fresh_not_live _ _ Ef) as Hnl.
    destruct (HI c) as [_ Hc0]. specialize (Hc0 Hnl).
    pose proof (sumf_upd (w_cur t) (cur s) w (Run c) (Run p) Ec) as Hc.
    pose proof (sumf_upd (w_q t) (dq s) w (qw ++ [p]) qw Eq) as Hq.
    rewrite w_q_app, w_q_single in Hq. cbn [w_cur] in Hc.
    destruct (Nat.eq_dec c t) as [->|Hne].
    + assert (places (set_stat (set_dq (set_cur s w (Run t)) w (qw ++ [p])) t Live) t = 1) as ->.
      { occs. rewrite b2n_eqb_refl in Hc. lia. }
      rewrite Hc0. apply d_enter. left; reflexivity.
    + assert (places (set_stat (set_dq (set_cur s w (Run c)) w (qw ++ [p])) c Live) t = places s t) as ->.
      { occs. rewrite (b2n_eqb_ne c t Hne) in Hc. lia. }
      apply d_same.
  - (* CreatePF *)
    destruct cw as [|p|p]; try discriminate.
    destruct (is_fresh s c) eqn:Ef; [|discriminate]. injection Hm as <-.
    pose proof (is_fresh_not_live _ _ Ef) as Hnl.
    destruct (HI c) as [_ Hc0]. specialize (Hc0 Hnl).
    pose proof (sumf_upd (w_q t) (dq s) w (qw ++ [c]) qw Eq) as Hq.
    rewrite w_q_app, w_q_single in Hq.
    destruct (Nat.eq_dec c t) as [->|Hne].
    + assert (places (set_stat (set_dq s w (qw ++ [t])) t Live) t = 1) as ->.
      { occs. rewrite b2n_eqb_refl in Hq. lia. }
      rewrite Hc0. apply d_enter. right; left; reflexivity.
    + assert (places (set_stat (set_dq s w (qw ++ [c])) c Live) t = places s t) as ->.
      { occs. rewrite (b2n_eqb_ne c t Hne) in Hq. lia. }
      apply d_same.
  - (* PopOwn *)
    assert (exists r x, hw = None /\ split_last qw = Some (r, x) /\ s' = set_hand (set_dq s w r) w (Some x)) as (r & x & -> & Hsp & ->).
    { destruct cw; try discriminate; destruct hw; try discriminate;
      destruct (split_last qw) as [[r x]|] eqn:Hsp; try discriminate;
      injection Hm as <-; eauto. }
    apply split_last_spec in Hsp. subst qw.
    pose proof (sumf_upd (w_q t) (dq s) w r (r ++ [x]) Eq) as Hq.
    pose proof (sumf_upd (w_hand t) (hand s) w (Some x) None Eh) as Hh.
    rewrite w_q_app, w_q_single in Hq. cbn [w_hand] in Hh.
    assert (places (set_hand (set_dq s w r) w (Some x)) t = places s t) as -> by (occs; lia).
    apply d_same.
  - (* Steal *)
    assert (exists r x, hw = None /\ nth_error (dq s) v = Some (x :: r) /\ s' = set_hand (set_dq s v r) w (Some x)) as (r & x & -> & Ev & ->).
    { destruct cw; try discriminate; destruct hw; try discriminate;
      destruct (nth_error (dq s) v) as [[|x r]|] eqn:Ev; try discriminate;
      destruct (Nat.eqb v w); try discriminate; injection Hm as <-; eauto. }
    pose proof (sumf_upd (w_q t) (dq s) v r (x :: r) Ev) as Hq.
    pose proof (sumf_upd (w_hand t) (hand s) w (Some x) None Eh) as Hh.
    rewrite w_q_cons in Hq. cbn [w_hand] in Hh.
    assert (places (set_hand (set_dq s v r) w (Some x)) t = places s t) as -> by (occs; lia).
    apply d_same.
  - (* TakeJoiner *)
    destruct cw as [|p|p]; try discriminate. destruct hw; try discriminate.
    destruct (parked s j) eqn:Ep; [|discriminate]. injection Hm as <-.
    unfold parked in Ep. apply andb_true_iff in Ep as [Hlj Hpj]. apply Nat.eqb_eq in Hpj.
    pose proof (sumf_upd (w_hand t) (hand s) w (Some j) None Eh) as Hh. cbn [w_hand] in Hh.
    destruct (Nat.eq_dec j t) as [->|Hne].
    + assert (places (set_hand s w (Some t)) t = 1) as ->.
      { occs. rewrite b2n_eqb_refl in Hh. lia. }
      rewrite Hpj. apply d_enter. right; right; left; reflexivity.
    + assert (places (set_hand s w (Some j)) t = places s t) as ->.
      { occs. rewrite (b2n_eqb_ne j t Hne) in Hh. lia. }
      apply d_same.
  - (* SaveCtx *)
    destruct cw as [|p|p]; try discriminate. injection Hm as <-.
    pose proof (sumf_upd (w_cur t) (cur s) w (Cb p) (Run p) Ec) as Hc. cbn [w_cur] in Hc.
    destruct (Nat.eq_dec p t) as [->|Hne].
    + rewrite b2n_eqb_refl in Hc.
      assert (places s t = 1) as -> by (occs; lia).
      assert (places (set_cur s w (Cb t)) t = 0) as -> by (occs; lia).
      apply d_leave; [exact Ec | left; reflexivity].
    + rewrite (b2n_eqb_ne p t Hne) in Hc.
      assert (places (set_cur s w (Cb p)) t = places s t) as -> by (occs; lia).
      apply d_same.
  - (* FinishCtx *)
    destruct cw as [|p|p]; try discriminate. injection Hm as <-.
    pose proof (sumf_upd (w_cur t) (cur s) w (Cb p) (Run p) Ec) as Hc. cbn [w_cur] in Hc.
    destruct (Nat.eq_dec p t) as [->|Hne].
    + rewrite b2n_eqb_refl in Hc.
      assert (places s t = 1) as -> by (occs; lia).
      assert (places (set_stat (set_cur s w (Cb t)) t Finished) t = 0) as -> by (occs; lia).
      apply d_leave; [exact Ec | right; reflexivity].
    + rewrite (b2n_eqb_ne p t Hne) in Hc.
      assert (places (set_stat (set_cur s w (Cb p)) p Finished) t = places s t) as -> by (occs; lia).
      apply d_same.
  - (* PutBase *)
    destruct cw as [|p|p]; try discriminate.
    destruct (parked s p) eqn:Ep; [|discriminate]. injection Hm as <-.
    unfold parked in Ep. apply andb_true_iff in Ep as [Hlp Hpp]. apply Nat.eqb_eq in Hpp.
    pose proof (sumf_upd (w_q t) (dq s) w (p :: qw) qw Eq) as Hq. rewrite w_q_cons in Hq.
    destruct (Nat.eq_dec p t) as [->|Hne].
    + assert (places (set_dq s w (t :: qw)) t = 1) as ->.
      { occs. rewrite b2n_eqb_refl in Hq. lia. }
      rewrite Hpp. apply d_enter. right; right; right; right. split; [reflexivity | exact Ec].
    + assert (places (set_dq s w (p :: qw)) t = places s t) as ->.
      { occs. rewrite (b2n_eqb_ne p t Hne) in Hq. lia. }
      apply d_same.
  - (* PushTop *)
    destruct (parked s x) eqn:Ep; [|discriminate]. injection Hm as <-.
    unfold parked in Ep. apply andb_true_iff in Ep as [Hlx Hpx]. apply Nat.eqb_eq in Hpx.
    pose proof (sumf_upd (w_q t) (dq s) w (qw ++ [x]) qw Eq) as Hq.
    rewrite w_q_app, w_q_single in Hq.
    destruct (Nat.eq_dec x t) as [->|Hne].
    + assert (places (set_dq s w (qw ++ [t])) t = 1) as ->.
      { occs. rewrite b2n_eqb_refl in Hq. lia. }
      rewrite Hpx. apply d_enter. right; right; right; left; reflexivity.
    + assert (places (set_dq s w (qw ++ [x])) t = places s t) as ->.
      { occs. rewrite (b2n_eqb_ne x t Hne) in Hq. lia. }
      apply d_same.
  - (* EndCb *)
    destruct cw as [|p|p]; try discriminate.
    destruct hw as [n|]; injection Hm as <-.
    + pose proof (sumf_upd (w_cur t) (cur s) w (Run n) (Cb p) Ec) as Hc. cbn [w_cur] in Hc.
      pose proof (sumf_upd (w_hand t) (hand s) w None (Some n) Eh) as Hh. cbn [w_hand] in Hh.
      assert (places (set_hand (set_cur s w (Run n)) w None) t = places s t) as -> by (occs; lia).
      apply d_same.
    + pose proof (sumf_upd (w_cur t) (cur s) w Sched (Cb p) Ec) as Hc. cbn [w_cur] in Hc.
      assert (places (set_cur s w Sched) t = places s t) as -> by (occs; lia).
      apply d_same.
  - (* RunHand *)
    destruct cw as [|p|p]; try discriminate. destruct hw as [n|]; try discriminate. injection Hm as <-.
    pose proof (sumf_upd (w_cur t) (cur s) w (Run n) Sched Ec) as Hc. cbn [w_cur] in Hc.
    pose proof (sumf_upd (w_hand t) (hand s) w None (Some n) Eh) as Hh. cbn [w_hand] in Hh.
    assert (places (set_hand (set_cur s w (Run n)) w None) t = places s t) as -> by (occs; lia).
    apply d_same.
  - (* PassBase *)
    destruct cw as [|p|p]; try discriminate. destruct hw as [x|]; try discriminate.
    destruct (nth_error (dq s) v) as [qv|] eqn:Ev; [|discriminate]. injection Hm as <-.
    pose proof (sumf_upd (w_hand t) (hand s) w None (Some x) Eh) as Hh. cbn [w_hand] in Hh.
    pose proof (sumf_upd (w_q t) (dq s) v (x :: qv) qv Ev) as Hq. rewrite w_q_cons in Hq.
    assert (places (set_dq (set_hand s w None) v (x :: qv)) t = places s t) as -> by (occs; lia).
    apply d_same.
Qed.

(** a runnable thread (in exactly one place) stays runnable under every move except its own context save /
    finish: no other participant can make it disappear *)
Theorem no_thread_lost s w m s' t : Inv s -> mmove s w m = Some s' -> places s t = 1 ->
  places s' t = 1 \/ (places s' t = 0 /\ nth_error (cur s) w = Some (Run t) /\ (m = SaveCtx \/ m = FinishCtx)).
Proof.
  intros HI Hm H1. pose proof (places_delta s w m s' t HI Hm) as Hd. rewrite H1 in Hd.
  inversion Hd; subst.
  - left; congruence.
  - right. auto.
Qed.

(** a parked (blocked) thread stays parked until somebody re-inserts it *)
Theorem parked_until_woken s w m s' t : Inv s -> mmove s w m = Some s' -> places s t = 0 ->
  places s' t = 0 \/
  (places s' t = 1 /\ (m = CreateCF t \/ m = CreatePF t \/ m = TakeJoiner t \/ m = PushTop t \/
                        (m = PutBase /\ nth_error (cur s) w = Some (Cb t)))).
Proof.
  intros HI Hm H0. pose proof (places_delta s w m s' t HI Hm) as Hd. rewrite H0 in Hd.
  inversion Hd; subst.
  - left; congruence.
  - right. auto.
Qed.

(* ------------------------------------------------------------------ yield *)
Lemma upd_upd {A} (l : list A) i x y : upd (upd l i x) i y = upd l i y.
Proof. revert i; induction l as [|z l IH]; intros i; destruct i; cbn; try reflexivity. f_equal. apply IH. Qed.

Lemma upd_id {A} (l : list A) i x : nth_error l i = Some x -> upd l i x = l.
Proof.
  revert i; induction l as [|z l IH]; intros i H; destruct i; cbn in *; try discriminate.
  - injection H as ->. reflexivity.
  - f_equal. apply IH. exact H.
Qed.

(** the four moves of a yield by the thread running on [w] when its run queue is not empty *)
Definition yield_moves (w : nat) : list (nat * move) := [(w, PopOwn); (w, SaveCtx); (w, PutBase); (w, EndCb)].

Fixpoint runo (s : mstate) (l : list (nat * move)) : option mstate :=
  match l with
  | [] => Some s
  | a :: r => match mstep s a with Some s' => runo s' r | None => None end
  end.

Lemma places_set_hand_dq_cur_pointwise s : forall t, places s t = occ_cur s t + occ_hand s t + occ_dq s t.
Proof. reflexivity. Qed.

(** Yield gives way: if thread [t] runs on worker [w], the hand is empty and the run queue is [r ++ [x]],
    the yield sequence is enabled and leaves [x] (the newest entry) running on [w] and [t] at the BASE of the
    queue (so every thread already queued on [w] is dispatched - or stolen - before [t] runs there again);
    nothing else changes. *)
Theorem yield_gives_way s w t r x : Inv s ->
  nth_error (cur s) w = Some (Run t) -> nth_error (hand s) w = Some None -> nth_error (dq s) w = Some (r ++ [x]) ->
  runo s (yield_moves w) =
    Some {| cur := upd (cur s) w (Run x); hand := hand s; dq := upd (dq s) w (t :: r); stat := stat s |}.
Proof.
  intros HI Ec Eh Eq.
  assert (Hsp : split_last (r ++ [x]) = Some (r, x)).
  { unfold split_last. rewrite rev_app_distr. cbn [rev app]. rewrite rev_involutive. reflexivity. }
  (* t is live and in exactly one place: the current slot of w *)
  destruct (HI t) as [H1 H0].
  assert (Hoc : occ_cur s t >= 1).
  { unfold occ_cur. clear - Ec. revert w Ec. induction (cur s) as [|m l IH]; intros w Ec.
    - destruct w; discriminate.
    - destruct w as [|w]; cbn in Ec.
      + injection Ec as ->. cbn [sumf w_cur]. rewrite Nat.eqb_refl. cbn. lia.
      + specialize (IH w Ec). cbn [sumf]. lia. }
  assert (Hlive : is_live s t = true).
  { destruct (is_live s t) eqn:E; [reflexivity|]. specialize (H0 eq_refl). unfold places in H0. lia. }
  cbn [runo yield_moves].
  (* PopOwn *)
  set (s1 := set_hand (set_dq s w r) w (Some x)).
  assert (M1 : mstep s (w, PopOwn) = Some s1).
  { unfold mstep; cbn [fst snd]. unfold mmove. rewrite Ec, Eh, Eq, Hsp. reflexivity. }
  rewrite M1.
  assert (Ec1 : nth_error (cur s1) w = Some (Run t)) by exact Ec.
  assert (Eh1 : nth_error (hand s1) w = Some (Some x)).
  { unfold s1; cbn [set_hand hand]. eapply nth_error_upd_same; exact Eh. }
  assert (Eq1 : nth_error (dq s1) w = Some r).
  { unfold s1; cbn [set_hand set_dq dq]. eapply nth_error_upd_same; exact Eq. }
  assert (HI1 : Inv s1) by (eapply (mmove_inv s w PopOwn); [exact HI | exact M1]).
  (* SaveCtx *)
  set (s2 := set_cur s1 w (Cb t)).
  assert (M2 : mstep s1 (w, SaveCtx) = Some s2).
  { unfold mstep; cbn [fst snd]. unfold mmove. rewrite Ec1, Eh1, Eq1. reflexivity. }
  rewrite M2.
  assert (Ec2 : nth_error (cur s2) w = Some (Cb t)).
  { unfold s2; cbn [set_cur cur]. eapply nth_error_upd_same; exact Ec1. }
  assert (Eh2 : nth_error (hand s2) w = Some (Some x)) by exact Eh1.
  assert (Eq2 : nth_error (dq s2) w = Some r) by exact Eq1.
  assert (Hp2 : parked s2 t = true).
  { unfold parked. apply andb_true_iff. split; [exact Hlive|]. apply Nat.eqb_eq.
    destruct (HI1 t) as [H11 _].
    assert (Hoc1 : occ_cur s1 t >= 1) by exact Hoc.
    assert (Hp1 : places s1 t = 1) by (unfold places in *; lia).
    pose proof (sumf_upd (w_cur t) (cur s1) w (Cb t) (Run t) Ec1) as Hc. cbn [w_cur] in Hc.
    rewrite b2n_eqb_refl in Hc.
    assert (places s2 t + 1 = places s1 t) by (unfold s2; occs; lia). lia. }
  (* PutBase *)
  set (s3 := set_dq s2 w (t :: r)).
  assert (M3 : mstep s2 (w, PutBase) = Some s3).
  { unfold mstep; cbn [fst snd]. unfold mmove. rewrite Ec2, Eh2, Eq2, Hp2. reflexivity. }
  rewrite M3.
  assert (Ec3 : nth_error (cur s3) w = Some (Cb t)) by exact Ec2.
  assert (Eh3 : nth_error (hand s3) w = Some (Some x)) by exact Eh2.
  assert (Eq3 : nth_error (dq s3) w = Some (t :: r)).
  { unfold s3; cbn [set_dq dq]. eapply nth_error_upd_same; exact Eq2. }
  (* EndCb *)
  unfold mstep; cbn [fst snd]. unfold mmove. rewrite Ec3, Eh3, Eq3.
  unfold s3, s2, s1, set_hand, set_cur, set_dq; cbn [cur hand dq stat].
  rewrite !upd_upd. rewrite (upd_id (hand s) w None Eh). reflexivity.
Qed.

(* ------------------------------------------------------------------ work conservation *)
(** an idle worker (scheduler loop, empty hand) can always take work if any run queue holds a thread: its own
    top, or the base of the victim's queue.  With [victim_surjective] (every other worker is chosen for some
    value of the random source): no queued thread is out of reach of an idle worker. *)
Theorem idle_can_take s w v x q qw : nth_error (cur s) w = Some Sched -> nth_error (hand s) w = Some None ->
  nth_error (dq s) w = Some qw -> nth_error (dq s) v = Some (x :: q) ->
  exists m s', (m = PopOwn \/ m = Steal v) /\ mmove s w m = Some s' /\
               exists y, nth_error (hand s') w = Some (Some y).
Proof.
  intros Ec Eh Eq Ev.
  destruct (Nat.eq_dec v w) as [->|Hne].
  - exists PopOwn. rewrite Ev in Eq. injection Eq as <-.
    assert (exists r y, split_last (x :: q) = Some (r, y)) as (r & y & Hsp).
    { unfold split_last. destruct (rev (x :: q)) as [|y r'] eqn:E.
      - apply (f_equal (@length nat)) in E. rewrite rev_length in E. discriminate.
      - eauto. }
    exists (set_hand (set_dq s w r) w (Some y)). split; [left; reflexivity|]. split.
    + unfold mmove. rewrite Ec, Eh, Ev, Hsp. reflexivity.
    + exists y. cbn [set_hand hand]. eapply nth_error_upd_same; exact Eh.
  - exists (Steal v). exists (set_hand (set_dq s v q) w (Some x)). split; [right; reflexivity|]. split.
    + unfold mmove. rewrite Ec, Eh, Eq, Ev.
      destruct (Nat.eqb_spec v w) as [->|_]; [contradiction|reflexivity].
    + exists x. cbn [set_hand hand]. eapply nth_error_upd_same; exact Eh.
Qed.
