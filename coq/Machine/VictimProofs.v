From Coq Require Import Arith Bool Lia.
From MT Require Import Machine.VictimModel.

(** for every number of workers n >= 2, every rank < n and every random value r < n - 1: the victim is
    a valid worker other than the caller *)
Lemma victim_valid n rank r : 2 <= n -> rank < n -> r < n - 1 ->
  exists v, victim n rank r = Some v /\ v < n /\ v <> rank.
Proof.
  intros Hn Hr Hlt. unfold victim.
  destruct (Nat.leb_spec n 1); [lia|].
  destruct (Nat.leb_spec rank r).
  - exists (S r). repeat split; lia.
  - exists r. repeat split; lia.
Qed.

(** ... and every other worker is chosen for some random value (no worker is unreachable as a victim) *)
Lemma victim_surjective n rank v : 2 <= n -> rank < n -> v < n -> v <> rank ->
  exists r, r < n - 1 /\ victim n rank r = Some v.
Proof.
  intros Hn Hr Hv Hne. unfold victim.
  destruct (Nat.leb_spec n 1); [lia|].
  destruct (Nat.lt_ge_cases v rank) as [Hlt|Hge].
  - exists v. split; [lia|]. destruct (Nat.leb_spec rank v); [lia|reflexivity].
  - exists (v - 1). split; [lia|]. destruct (Nat.leb_spec rank (v - 1)); [f_equal; lia|lia].
Qed.

Lemma victim_single n rank r : n <= 1 -> victim n rank r = None.
Proof. intros H. unfold victim. destruct (Nat.leb_spec n 1); [reflexivity|lia]. Qed.
