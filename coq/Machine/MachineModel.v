(** The scheduler-level abstract machine (DESIGN.md 2.3): which thread is where.

    Per worker: what it is executing ([Sched]uler loop, [Run t] = thread t's code, [Cb t] = the
    context-switch callback that runs after thread t's context has been saved / abandoned), a
    [hand] (a thread it has popped or stolen and not yet switched to), and its run queue [dq]
    (base = thief end first, top = owner end last), at the abstraction justified by C02 (each
    deque operation is one atomic move).  Per thread a ghost status.

    Source: src/myth_sched_func.h (myth_create_ex_body / myth_create_1, myth_yield_ex_body /
    myth_yield_ex_1, myth_join_body / myth_join_2 / _3, myth_entry_point_cleanup / _1 / _2),
    src/myth_sync_func.h (myth_block_on_queue / _stack, the wake routines, the uncond functions),
    src/myth_worker_func.h (myth_sched_loop), src/myth_worker.c (steal).

    The correspondence check (tools/props/machine.py) replays controlled runs of the real library:
    harness/lib_interp.c prints after every trace line the real [this_thread] of every worker and
    the real contents of every run queue; the moves each worker made between two of its trace
    lines are read off the trace (create.start, cb.enter, cb.leave, *.push, yield.put, steal.got,
    sched.run, finish.readjoin events) and applied with [mmove]; every move must be enabled and
    the model's cur / dq must equal the library's at every line. *)
From Coq Require Import List Bool Arith.
Import ListNotations.

Inductive mode := Sched | Run (t : nat) | Cb (t : nat).
Inductive tstat := NotCreated | Live | Finished.

Record mstate := {
  cur : list mode;
  hand : list (option nat);
  dq : list (list nat);
  stat : list tstat
}.

Inductive move :=
| CreateCF (c : nat)       (* child-first create: parent pushed on own top, child runs *)
| CreatePF (c : nat)       (* parent-first create: child pushed on own top *)
| PopOwn                   (* take the top of the own run queue into the hand *)
| Steal (v : nat)          (* take the base of worker v's run queue into the hand *)
| TakeJoiner (j : nat)     (* finishing thread hands the worker to its registered joiner *)
| SaveCtx                  (* the running thread saved its context; its callback runs *)
| FinishCtx                (* the running thread finished; its clean-up callback runs *)
| PutBase                  (* yield callback: the saved thread goes to the base of the own queue *)
| PushTop (x : nat)        (* wake: a saved (blocked) thread goes to the top of the own queue *)
| EndCb                    (* the callback returns into the hand (or the scheduler) *)
| RunHand                  (* the scheduler switches to the thread in its hand *)
| PassBase (v : nat).      (* work-stealing API: a running thread hands the thread it has popped / taken to the
                              base of worker v's run queue (myth_wsapi_runqueue_pass) *)

Fixpoint upd {A} (l : list A) (i : nat) (x : A) : list A :=
  match l, i with
  | [], _ => []
  | _ :: r, O => x :: r
  | y :: r, S j => y :: upd r j x
  end.

(** weighted sum over a list: all the occupancy counts are instances, so that one lemma about
    [upd] serves them all *)
Fixpoint sumf {A} (f : A -> nat) (l : list A) : nat :=
  match l with [] => 0 | x :: r => f x + sumf f r end.

Definition b2n (b : bool) : nat := if b then 1 else 0.
Definition w_cur (t : nat) (m : mode) : nat := match m with Run u => b2n (Nat.eqb u t) | _ => 0 end.
Definition w_hand (t : nat) (h : option nat) : nat := match h with Some u => b2n (Nat.eqb u t) | None => 0 end.
Definition w_q (t : nat) (q : list nat) : nat := sumf (fun u => b2n (Nat.eqb u t)) q.

Definition occ_cur (s : mstate) (t : nat) : nat := sumf (w_cur t) (cur s).
Definition occ_hand (s : mstate) (t : nat) : nat := sumf (w_hand t) (hand s).
Definition occ_dq (s : mstate) (t : nat) : nat := sumf (w_q t) (dq s).

(** number of places thread [t] occupies: running on a worker, in a worker's hand, in a run
    queue.  ([Cb t] is not a place of t: the callback belongs to the worker; t itself is saved and
    may already be queued or even running elsewhere while its callback is still finishing.) *)
Definition places (s : mstate) (t : nat) : nat := occ_cur s t + occ_hand s t + occ_dq s t.

Definition set_cur (s : mstate) (w : nat) (m : mode) : mstate :=
  {| cur := upd (cur s) w m; hand := hand s; dq := dq s; stat := stat s |}.
Definition set_hand (s : mstate) (w : nat) (h : option nat) : mstate :=
  {| cur := cur s; hand := upd (hand s) w h; dq := dq s; stat := stat s |}.
Definition set_dq (s : mstate) (w : nat) (l : list nat) : mstate :=
  {| cur := cur s; hand := hand s; dq := upd (dq s) w l; stat := stat s |}.
Definition set_stat (s : mstate) (t : nat) (x : tstat) : mstate :=
  {| cur := cur s; hand := hand s; dq := dq s; stat := upd (stat s) t x |}.

Definition get_stat (s : mstate) (t : nat) : tstat := nth t (stat s) NotCreated.
Definition is_live (s : mstate) (t : nat) : bool :=
  match get_stat s t with Live => true | _ => false end.
Definition is_fresh (s : mstate) (t : nat) : bool :=
  match nth_error (stat s) t with Some NotCreated => true | _ => false end.

(** a live thread that is in no place: blocked (in a sleep queue / stack / slot, registered as a
    joiner, or in a waker's private list) with its context saved *)
Definition parked (s : mstate) (t : nat) : bool := is_live s t && Nat.eqb (places s t) 0.

Definition split_last {A} (l : list A) : option (list A * A) :=
  match rev l with
  | [] => None
  | x :: r => Some (rev r, x)
  end.

Definition mmove (s : mstate) (w : nat) (m : move) : option mstate :=
  match nth_error (cur s) w, nth_error (hand s) w, nth_error (dq s) w with
  | Some cw, Some hw, Some qw =>
    match m with
    | CreateCF c =>
        match cw with
        | Run p => if is_fresh s c
                   then Some (set_stat (set_dq (set_cur s w (Run c)) w (qw ++ [p])) c Live)
                   else None
        | _ => None
        end
    | CreatePF c =>
        match cw with
        | Run _ => if is_fresh s c then Some (set_stat (set_dq s w (qw ++ [c])) c Live) else None
        | _ => None
        end
    | PopOwn =>
        match cw, hw, split_last qw with
        | Cb _, _, _ => None
        | _, None, Some (r, x) => Some (set_hand (set_dq s w r) w (Some x))
        | _, _, _ => None
        end
    | Steal v =>
        match cw, hw, nth_error (dq s) v with
        | Cb _, _, _ => None
        | _, None, Some (x :: r) => if Nat.eqb v w then None else Some (set_hand (set_dq s v r) w (Some x))
        | _, _, _ => None
        end
    | TakeJoiner j =>
        match cw, hw with
        | Run _, None => if parked s j then Some (set_hand s w (Some j)) else None
        | _, _ => None
        end
    | SaveCtx =>
        match cw with
        | Run t => Some (set_cur s w (Cb t))
        | _ => None
        end
    | FinishCtx =>
        match cw with
        | Run t => Some (set_stat (set_cur s w (Cb t)) t Finished)
        | _ => None
        end
    | PutBase =>
        match cw with
        | Cb t => if parked s t then Some (set_dq s w (t :: qw)) else None
        | _ => None
        end
    | PushTop x =>
        if parked s x then Some (set_dq s w (qw ++ [x])) else None
    | EndCb =>
        match cw with
        | Cb _ => match hw with
                  | Some n => Some (set_hand (set_cur s w (Run n)) w None)
                  | None => Some (set_cur s w Sched)
                  end
        | _ => None
        end
    | RunHand =>
        match cw, hw with
        | Sched, Some n => Some (set_hand (set_cur s w (Run n)) w None)
        | _, _ => None
        end
    | PassBase v =>
        match cw, hw, nth_error (dq s) v with
        | Run _, Some x, Some qv => Some (set_dq (set_hand s w None) v (x :: qv))
        | _, _, _ => None
        end
    end
  | _, _, _ => None
  end.

(** initially the main thread (tag 0) runs on worker 0, everything else is idle and empty *)
Definition minit (nworkers nthreads : nat) : mstate :=
  {| cur := match nworkers with O => [] | S k => Run 0 :: repeat Sched k end;
     hand := repeat None nworkers;
     dq := repeat [] nworkers;
     stat := match nthreads with O => [] | S k => Live :: repeat NotCreated k end |}.

Definition mstep (s : mstate) (a : nat * move) : option mstate := mmove s (fst a) (snd a).

