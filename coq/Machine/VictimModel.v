(** Steal-victim selection (src/myth_worker_func.h myth_env_get_first_busy, WS_TARGET_RANDOM) and the
    default steal function's use of it (src/myth_worker.c myth_default_steal_func):
       if (n_workers <= 1) return NULL;
       idx = myth_random(0, n_workers - 1);     // a value in [0, n_workers - 1)
       idx += (idx >= rank);
       return &g_envs[idx];
    The random source is an input [r]; that rand_r yields every value of the range infinitely often is
    the (trusted) fairness assumption behind "a runnable thread is not stranded while a worker idles". *)
From Coq Require Import Arith Bool.

Definition victim (n rank r : nat) : option nat :=
  if n <=? 1 then None
  else Some (if rank <=? r then S r else r).
