(** Invariants of the scheduler-level machine: a thread is never in two places. *)
From Coq Require Import List Bool Arith Lia.
From MT Require Import Lib.Interleave Machine.MachineModel.
Import ListNotations.

Lemma sumf_app {A} (f : A -> nat) l1 l2 : sumf f (l1 ++ l2) = sumf f l1 + sumf f l2.
Proof. induction l1 as [|x l1 IH]; cbn [sumf app]; [reflexivity | rewrite IH; lia]. Qed.

Lemma sumf_upd {A} (f : A -> nat) l i x y :
  nth_error l i = Some y -> sumf f (upd l i x) + f y = sumf f l + f x.
Proof.
  revert i; induction l as [|z l IH]; intros i H.
  - destruct i; discriminate H.
  - destruct i as [|i]; cbn [upd sumf].
    + cbn in H. injection H as ->. lia.
    + cbn in H. specialize (IH i H). lia.
Qed.

Lemma nth_error_upd_same {A} (l : list A) i x y : nth_error l i = Some y -> nth_error (upd l i x) i = Some x.
Proof.
  revert i; induction l as [|z l IH]; intros i H; destruct i; try discriminate H; cbn in *; auto.
Qed.

Lemma nth_error_upd_other {A} (l : list A) i j x : i <> j -> nth_error (upd l i x) j = nth_error l j.
Proof.
  revert i j; induction l as [|z l IH]; intros i j H; destruct i, j; cbn; auto; try congruence.
Qed.

Lemma upd_length {A} (l : list A) i x : length (upd l i x) = length l.
Proof. revert i; induction l as [|z l IH]; intros i; destruct i; cbn; auto. Qed.

Lemma split_last_spec {A} (l r : list A) x : split_last l = Some (r, x) -> l = r ++ [x].
Proof.
  unfold split_last. destruct (rev l) as [|y r'] eqn:E; [discriminate|].
  intros H. injection H as <- <-.
  rewrite <- (rev_involutive l), E. cbn [rev]. reflexivity.
Qed.

Lemma w_q_app t q1 q2 : w_q t (q1 ++ q2) = w_q t q1 + w_q t q2.
Proof. apply sumf_app. Qed.

Lemma w_q_single t x : w_q t [x] = b2n (Nat.eqb x t).
Proof. unfold w_q; cbn [sumf]; lia. Qed.

Lemma w_q_cons t x q : w_q t (x :: q) = b2n (Nat.eqb x t) + w_q t q.
Proof. reflexivity. Qed.

(** the status of a thread other than the one being updated is unchanged *)
Lemma get_stat_upd s t u x : get_stat (set_stat s u x) t = if Nat.eqb u t then
    (match nth_error (stat s) u with Some _ => x | None => get_stat s t end) else get_stat s t.
Proof.
  unfold get_stat, set_stat; cbn [stat].
  destruct (Nat.eqb_spec u t) as [->|Hne].
  - destruct (nth_error (stat s) t) as [y|] eqn:E.
    + erewrite nth_error_nth; [reflexivity|]. eapply nth_error_upd_same; eassumption.
    + assert (Hl : length (stat s) <= t) by (apply nth_error_None; exact E).
      rewrite !nth_overflow; [reflexivity| exact Hl | rewrite upd_length; exact Hl].
  - destruct (nth_error (stat s) t) as [y|] eqn:E.
    + erewrite !nth_error_nth; [reflexivity | exact E | rewrite nth_error_upd_other by exact Hne; exact E].
    + assert (Hl : length (stat s) <= t) by (apply nth_error_None; exact E).
      rewrite !nth_overflow; [reflexivity| exact Hl | rewrite upd_length; exact Hl].
Qed.

Definition Inv (s : mstate) : Prop :=
  forall t, places s t <= 1 /\ (is_live s t = false -> places s t = 0).

Lemma b2n_le1 b : b2n b <= 1. Proof. destruct b; cbn; lia. Qed.

Ltac occs := unfold places, occ_cur, occ_hand, occ_dq, set_cur, set_hand, set_dq, set_stat in *; cbn [cur hand dq stat b2n] in *.

Lemma is_fresh_not_live s c : is_fresh s c = true -> is_live s c = false.
Proof.
  unfold is_fresh, is_live, get_stat. destruct (nth_error (stat s) c) as [x|] eqn:E; [|discriminate].
  destruct x; try discriminate. intros _. erewrite nth_error_nth by exact E. reflexivity.
Qed.

Lemma is_live_set_stat s u x t :
  is_live (set_stat s u x) t =
  if Nat.eqb u t then (match nth_error (stat s) u with Some _ => match x with Live => true | _ => false end | None => is_live s t end)
  else is_live s t.
Proof.
  unfold is_live. rewrite get_stat_upd. destruct (Nat.eqb u t); [|reflexivity].
  destruct (nth_error (stat s) u); reflexivity.
Qed.

(** every move preserves the invariant *)
Lemma mmove_inv s w m s' : Inv s -> mmove s w m = Some s' -> Inv s'.
Proof.
  intros HI Hm. unfold mmove in Hm.
  destruct (nth_error (cur s) w) as [cw|] eqn:Ec; [|discriminate].
  destruct (nth_error (hand s) w) as [hw|] eqn:Eh; [|discriminate].
  destruct (nth_error (dq s) w) as [qw|] eqn:Eq; [|discriminate].
  destruct m as [c|c| |v|j| | | |x| | |v].
  - (* CreateCF *)
    destruct cw as [|p|p]; try discriminate.
    destruct (is_fresh s c) eqn:Ef; [|discriminate]. injection Hm as <-.
    pose proof (is_fresh_not_live _ _ Ef) as Hnl.
    intros t. destruct (HI t) as [H1 H0]. destruct (HI c) as [_ Hc0]. specialize (Hc0 Hnl).
    pose proof (sumf_upd (w_cur t) (cur s) w (Run c) (Run p) Ec) as Hc.
    pose proof (sumf_upd (w_q t) (dq s) w (qw ++ [p]) qw Eq) as Hq.
    rewrite w_q_app, w_q_single in Hq. cbn [w_cur] in Hc.
    split.
    + occs. destruct (Nat.eqb_spec c t) as [->|Hne]; cbn [b2n] in *.
      * unfold places, occ_cur, occ_hand, occ_dq in Hc0. lia.
      * lia.
    + rewrite is_live_set_stat; cbn [set_dq set_cur stat]. unfold is_fresh in Ef.
      destruct (nth_error (stat s) c) as [x0|] eqn:Es; [|discriminate Ef].
      destruct (Nat.eqb_spec c t) as [->|Hne]; [intros Hl; discriminate Hl|].
      intros Hl. specialize (H0 Hl). occs.
      assert (b2n (Nat.eqb c t) = 0) by (destruct (Nat.eqb_spec c t); [congruence|reflexivity]). lia.
  - (* CreatePF *)
    destruct cw as [|p|p]; try discriminate.
    destruct (is_fresh s c) eqn:Ef; [|discriminate]. injection Hm as <-.
    pose proof (is_fresh_not_live _ _ Ef) as Hnl.
    intros t. destruct (HI t) as [H1 H0]. destruct (HI c) as [_ Hc0]. specialize (Hc0 Hnl).
    pose proof (sumf_upd (w_q t) (dq s) w (qw ++ [c]) qw Eq) as Hq.
    rewrite w_q_app, w_q_single in Hq.
    split.
    + occs. destruct (Nat.eqb_spec c t) as [->|Hne]; cbn [b2n] in *; lia.
    + rewrite is_live_set_stat; cbn [set_dq set_cur stat]. unfold is_fresh in Ef.
      destruct (nth_error (stat s) c) as [x0|] eqn:Es; [|discriminate Ef].
      destruct (Nat.eqb_spec c t) as [->|Hne]; [intros Hl; discriminate Hl|].
      intros Hl. specialize (H0 Hl). occs.
      assert (b2n (Nat.eqb c t) = 0) by (destruct (Nat.eqb_spec c t); [congruence|reflexivity]). lia.
  - (* PopOwn *)
    assert (exists r x, hw = None /\ split_last qw = Some (r, x) /\ s' = set_hand (set_dq s w r) w (Some x)) as (r & x & -> & Hsp & ->).
    { destruct cw; try discriminate; destruct hw; try discriminate;
      destruct (split_last qw) as [[r x]|] eqn:Hsp; try discriminate;
      injection Hm as <-; eauto. }
    apply split_last_spec in Hsp. subst qw.
    intros t. destruct (HI t) as [H1 H0].
    pose proof (sumf_upd (w_q t) (dq s) w r (r ++ [x]) Eq) as Hq.
    pose proof (sumf_upd (w_hand t) (hand s) w (Some x) None Eh) as Hh.
    rewrite w_q_app, w_q_single in Hq. cbn [w_hand] in Hh.
    split; [|intros Hl; specialize (H0 Hl)]; occs; lia.
  - (* Steal *)
    assert (exists r x, hw = None /\ nth_error (dq s) v = Some (x :: r) /\ s' = set_hand (set_dq s v r) w (Some x)) as (r & x & -> & Ev & ->).
    { destruct cw; try discriminate; destruct hw; try discriminate;
      destruct (nth_error (dq s) v) as [[|x r]|] eqn:Ev; try discriminate;
      destruct (Nat.eqb v w); try discriminate; injection Hm as <-; eauto. }
    intros t. destruct (HI t) as [H1 H0].
    pose proof (sumf_upd (w_q t) (dq s) v r (x :: r) Ev) as Hq.
    pose proof (sumf_upd (w_hand t) (hand s) w (Some x) None Eh) as Hh.
    rewrite w_q_cons in Hq. cbn [w_hand] in Hh.
    split; [|intros Hl; specialize (H0 Hl)]; occs; lia.
  - (* TakeJoiner *)
    destruct cw as [|p|p]; try discriminate. destruct hw; try discriminate.
    destruct (parked s j) eqn:Ep; [|discriminate]. injection Hm as <-.
    unfold parked in Ep. apply andb_true_iff in Ep as [Hlj Hpj]. apply Nat.eqb_eq in Hpj.
    intros t. destruct (HI t) as [H1 H0].
    pose proof (sumf_upd (w_hand t) (hand s) w (Some j) None Eh) as Hh. cbn [w_hand] in Hh.
    split.
    + occs. destruct (Nat.eqb_spec j t) as [->|Hne]; cbn [b2n] in *; lia.
    + intros Hl. change (is_live s t = false) in Hl. specialize (H0 Hl). occs.
      destruct (Nat.eqb_spec j t) as [->|Hne]; cbn [b2n] in *; [|lia].
      unfold is_live in *. rewrite Hl in Hlj. discriminate.
  - (* SaveCtx *)
    destruct cw as [|p|p]; try discriminate. injection Hm as <-.
    intros t. destruct (HI t) as [H1 H0].
    pose proof (sumf_upd (w_cur t) (cur s) w (Cb p) (Run p) Ec) as Hc. cbn [w_cur] in Hc.
    split; [|intros Hl; specialize (H0 Hl)]; occs; lia.
  - (* FinishCtx *)
    destruct cw as [|p|p]; try discriminate. injection Hm as <-.
    intros t. destruct (HI t) as [H1 H0].
    pose proof (sumf_upd (w_cur t) (cur s) w (Cb p) (Run p) Ec) as Hc. cbn [w_cur] in Hc.
    split.
    + occs; lia.
    + rewrite is_live_set_stat. cbn [set_cur stat].
      destruct (Nat.eqb_spec p t) as [->|Hne].
      * intros _. occs. lia.
      * intros Hl. specialize (H0 Hl). occs. lia.
  - (* PutBase *)
    destruct cw as [|p|p]; try discriminate.
    destruct (parked s p) eqn:Ep; [|discriminate]. injection Hm as <-.
    unfold parked in Ep. apply andb_true_iff in Ep as [Hlp Hpp]. apply Nat.eqb_eq in Hpp.
    intros t. destruct (HI t) as [H1 H0].
    pose proof (sumf_upd (w_q t) (dq s) w (p :: qw) qw Eq) as Hq. rewrite w_q_cons in Hq.
    split.
    + occs. destruct (Nat.eqb_spec p t) as [->|Hne]; cbn [b2n] in *; lia.
    + intros Hl. change (is_live s t = false) in Hl. specialize (H0 Hl). occs.
      destruct (Nat.eqb_spec p t) as [->|Hne]; cbn [b2n] in *; [|lia].
      unfold is_live in *. rewrite Hl in Hlp. discriminate.
  - (* PushTop *)
    destruct (parked s x) eqn:Ep; [|discriminate]. injection Hm as <-.
    unfold parked in Ep. apply andb_true_iff in Ep as [Hlx Hpx]. apply Nat.eqb_eq in Hpx.
    intros t. destruct (HI t) as [H1 H0].
    pose proof (sumf_upd (w_q t) (dq s) w (qw ++ [x]) qw Eq) as Hq.
    rewrite w_q_app, w_q_single in Hq.
    split.
    + occs. destruct (Nat.eqb_spec x t) as [->|Hne]; cbn [b2n] in *; lia.
    + intros Hl. change (is_live s t = false) in Hl. specialize (H0 Hl). occs.
      destruct (Nat.eqb_spec x t) as [->|Hne]; cbn [b2n] in *; [|lia].
      unfold is_live in *. rewrite Hl in Hlx. discriminate.
  - (* EndCb *)
    destruct cw as [|p|p]; try discriminate.
    destruct hw as [n|]; injection Hm as <-.
    + intros t. destruct (HI t) as [H1 H0].
      pose proof (sumf_upd (w_cur t) (cur s) w (Run n) (Cb p) Ec) as Hc. cbn [w_cur] in Hc.
      pose proof (sumf_upd (w_hand t) (hand s) w None (Some n) Eh) as Hh. cbn [w_hand] in Hh.
      split; [|intros Hl; specialize (H0 Hl)]; occs; lia.
    + intros t. destruct (HI t) as [H1 H0].
      pose proof (sumf_upd (w_cur t) (cur s) w Sched (Cb p) Ec) as Hc. cbn [w_cur] in Hc.
      split; [|intros Hl; specialize (H0 Hl)]; occs; lia.
  - (* RunHand *)
    destruct cw as [|p|p]; try discriminate. destruct hw as [n|]; try discriminate. injection Hm as <-.
    intros t. destruct (HI t) as [H1 H0].
    pose proof (sumf_upd (w_cur t) (cur s) w (Run n) Sched Ec) as Hc. cbn [w_cur] in Hc.
    pose proof (sumf_upd (w_hand t) (hand s) w None (Some n) Eh) as Hh. cbn [w_hand] in Hh.
    split; [|intros Hl; specialize (H0 Hl)]; occs; lia.
  - (* PassBase *)
    destruct cw as [|p|p]; try discriminate. destruct hw as [x|]; try discriminate.
    destruct (nth_error (dq s) v) as [qv|] eqn:Ev; [|discriminate]. injection Hm as <-.
    intros t. destruct (HI t) as [H1 H0].
    pose proof (sumf_upd (w_hand t) (hand s) w None (Some x) Eh) as Hh. cbn [w_hand] in Hh.
    pose proof (sumf_upd (w_q t) (dq s) v (x :: qv) qv Ev) as Hq. rewrite w_q_cons in Hq.
    split; [|intros Hl; change (is_live s t = false) in Hl; specialize (H0 Hl)]; occs; lia.
Qed.

Lemma sumf_repeat_0 {A} (f : A -> nat) x n : f x = 0 -> sumf f (repeat x n) = 0.
Proof. intros H; induction n as [|n IH]; cbn [repeat sumf]; lia. Qed.

Lemma minit_inv nw nt : 1 <= nt -> Inv (minit nw nt).
Proof.
  intros Hnt t. unfold minit, places, occ_cur, occ_hand, occ_dq, is_live, get_stat; cbn [cur hand dq stat].
  rewrite (sumf_repeat_0 (w_hand t) None nw) by reflexivity.
  rewrite (sumf_repeat_0 (w_q t) [] nw) by reflexivity.
  destruct nt as [|j]; [lia|].
  destruct nw as [|k].
  - cbn [sumf]. split; [lia|intros _; lia].
  - cbn [sumf w_cur]. rewrite (sumf_repeat_0 (w_cur t) Sched k) by reflexivity.
    destruct t as [|t]; cbn [Nat.eqb b2n nth].
    + split; [lia|discriminate].
    + split; [lia|intros _; lia].
Qed.

(** the machine as an interleaving system: actors are (worker, move) pairs *)
Definition minit_pred (nw nt : nat) (s : mstate) : Prop := s = minit nw nt.

Theorem inv_reachable nw nt : 1 <= nt ->
  forall s, reachable (minit_pred nw nt) mstep s -> Inv s.
Proof.
  intros Hnt. apply invariant_rule.
  - intros s ->. apply minit_inv; exact Hnt.
  - intros s [w m] s' HI Hst. unfold mstep in Hst; cbn [fst snd] in Hst. eapply mmove_inv; eassumption.
Qed.

(** every schedule: no thread is ever in two places (two workers, a worker and a queue, two
    queue slots, a hand and anything else); a thread that is not live is in no place *)
Theorem single_place nw nt (sched : list (nat * move)) : 1 <= nt ->
  let s := run mstep sched (minit nw nt) in
  forall t, places s t <= 1 /\ (is_live s t = false -> places s t = 0).
Proof.
  intros Hnt s. apply (inv_reachable nw nt Hnt). apply run_reachable. apply reach_init. reflexivity.
Qed.

(** a thread becomes current on a worker only out of that worker's hand, and a hand is filled only
    from the top of the own queue, the base of another queue, or a parked joiner *)
Lemma run_only_from_hand s w m s' t :
  mmove s w m = Some s' ->
  nth_error (cur s') w = Some (Run t) -> nth_error (cur s) w <> Some (Run t) ->
  (exists p, m = CreateCF t /\ nth_error (cur s) w = Some (Run p)) \/
  (nth_error (hand s) w = Some (Some t) /\ (m = EndCb \/ m = RunHand)).
Proof.
  intros Hm Hc' Hc. unfold mmove in Hm.
  destruct (nth_error (cur s) w) as [cw|] eqn:Ec; [|discriminate].
  destruct (nth_error (hand s) w) as [hw|] eqn:Eh; [|discriminate].
  destruct (nth_error (dq s) w) as [qw|] eqn:Eq; [|discriminate].
  destruct m as [c|c| |v|j| | | |x| | |v].
  - destruct cw as [|p|p]; try discriminate. destruct (is_fresh s c); [|discriminate]. injection Hm as <-.
    cbn [set_stat set_dq set_cur cur] in Hc'. erewrite nth_error_upd_same in Hc' by exact Ec.
    injection Hc' as ->. left. eauto.
  - destruct cw as [|p|p]; try discriminate. destruct (is_fresh s c); [|discriminate]. injection Hm as <-.
    cbn [set_stat set_dq cur] in Hc'. congruence.
  - exfalso. destruct cw; try discriminate; destruct hw; try discriminate;
    destruct (split_last qw) as [[r y]|]; try discriminate; injection Hm as <-;
    cbn [set_hand set_dq cur] in Hc'; congruence.
  - exfalso. destruct cw; try discriminate; destruct hw; try discriminate;
    destruct (nth_error (dq s) v) as [[|y r]|]; try discriminate; destruct (Nat.eqb v w); try discriminate;
    injection Hm as <-; cbn [set_hand set_dq cur] in Hc'; congruence.
  - exfalso. destruct cw; try discriminate. destruct hw; try discriminate. destruct (parked s j); [|discriminate].
    injection Hm as <-. cbn [set_hand cur] in Hc'. congruence.
  - exfalso. destruct cw as [|p|p]; try discriminate. injection Hm as <-.
    cbn [set_cur cur] in Hc'. erewrite nth_error_upd_same in Hc' by exact Ec. discriminate.
  - exfalso. destruct cw as [|p|p]; try discriminate. injection Hm as <-.
    cbn [set_stat set_cur cur] in Hc'. erewrite nth_error_upd_same in Hc' by exact Ec. discriminate.
  - exfalso. destruct cw as [|p|p]; try discriminate. destruct (parked s p); [|discriminate]. injection Hm as <-.
    cbn [set_dq cur] in Hc'. congruence.
  - exfalso. destruct (parked s x); [|discriminate]. injection Hm as <-. cbn [set_dq cur] in Hc'. congruence.
  - destruct cw as [|p|p]; try discriminate. destruct hw as [n|]; injection Hm as <-.
    + cbn [set_hand set_cur cur] in Hc'. erewrite nth_error_upd_same in Hc' by exact Ec. injection Hc' as ->.
      right. split; [reflexivity | left; reflexivity].
    + cbn [set_cur cur] in Hc'. erewrite nth_error_upd_same in Hc' by exact Ec. discriminate.
  - destruct cw as [|p|p]; try discriminate. destruct hw as [n|]; try discriminate. injection Hm as <-.
    cbn [set_hand set_cur cur] in Hc'. erewrite nth_error_upd_same in Hc' by exact Ec. injection Hc' as ->.
    right. split; [reflexivity | right; reflexivity].
  - exfalso. destruct cw as [|p|p]; try discriminate. destruct hw as [x|]; try discriminate.
    destruct (nth_error (dq s) v); [|discriminate]. injection Hm as <-. cbn [set_dq set_hand cur] in Hc'. congruence.
Qed.

(** a blocked (parked) thread occupies no worker: direct from the definition, stated for use by C04 *)
Lemma parked_not_current s t w : parked s t = true -> Inv s -> nth_error (cur s) w <> Some (Run t).
Proof.
  intros Hp _ Hc. unfold parked in Hp. apply andb_true_iff in Hp as [_ Hp]. apply Nat.eqb_eq in Hp.
  unfold places, occ_cur in Hp.
  assert (sumf (w_cur t) (cur s) >= 1).
  { clear Hp. revert w Hc. induction (cur s) as [|m l IH]; intros w Hc.
    - destruct w; discriminate.
    - destruct w as [|w]; cbn in Hc.
      + injection Hc as ->. cbn [sumf w_cur]. rewrite Nat.eqb_refl. cbn. lia.
      + specialize (IH w Hc). cbn [sumf]. lia. }
  lia.
Qed.
