From Coq Require Import ExtrOcamlBasic.
From Coq Require Import ZArith.
From MT Require Import JoinCounter.JcModel.
Extraction Language OCaml.
Separate Extraction BinNums.N BinInt.Z.add BinInt.Z.mul BinInt.Z.opp BinInt.Z.div_eucl calc_bits jc_init init_state step label lval ret_ok in_excess low high jn jbits jmask word sq thr gh.
