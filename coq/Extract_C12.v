From Coq Require Import ExtrOcamlBasic.
From MT Require Import Alloc.SizeClassModel Alloc.FlmallocModel Alloc.StackModel Alloc.LedgerModel.
Extraction Language OCaml.
Separate Extraction size_to_index index_to_rsize size_class round_page
  fl_init flmalloc flfree h_init hstep
  s_init stack_get stack_release release_target desc_get desc_release load hs_init sstep attr_setstacksize create_stack
  LedgerModel.step init_state on_stack stack_owner desc_owner.
