From Coq Require Import ExtrOcamlBasic.
From MT Require Import Bulk.VariousModel Bulk.TaskGroupModel Bulk.ParForModel.
Extraction Language OCaml.
Separate Extraction BinInt.Z.div_eucl BinInt.Z.mul BinInt.Z.add BinInt.Z.opp various many leaves creates leaf_threads fj exec tg_init tl_shape mem_shape tl_order pf3 pf2 pf_grain pr_aux pf_aux_prefix pg_aux_prefix count3 pf3_guard pf2_guard pg_guard pr_guard.
