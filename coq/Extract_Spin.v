From Coq Require Import ExtrOcamlBasic ZArith.
From MT Require Import Spin.SpinModel.
Extraction Language OCaml.
Separate Extraction BinNums.N BinInt.Z.add BinInt.Z.mul BinInt.Z.opp BinInt.Z.div_eucl sinit sstep locked sthr qempty qrun qabs qhead qtail QEnq QDeq.
