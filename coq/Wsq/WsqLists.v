(** C02 - list / index lemmas used by the deque proofs (slots as [list Z], indices in [Z]). *)
From Coq Require Import ZArith List Lia Bool.
From MT Require Import Wsq.WsqModel.
Import ListNotations.
Local Open Scope Z_scope.

(** * nat-indexed facts *)

Lemma upd_length l n x : length (upd l n x) = length l.
Proof.
  revert n; induction l as [|h t IH]; intros [|n]; cbn [upd length]; auto.
Qed.

Lemma nth_upd_same l n x : (n < length l)%nat -> nth n (upd l n x) 0 = x.
Proof.
  revert n; induction l as [|h t IH]; intros [|n] H; cbn [upd nth length] in *; try lia; auto.
  apply IH; lia.
Qed.

Lemma nth_upd_other l n m x : n <> m -> nth m (upd l n x) 0 = nth m l 0.
Proof.
  revert n m; induction l as [|h t IH]; intros [|n] [|m] H; cbn [upd nth]; try congruence; auto.
Qed.

Lemma seg_cons l : forall a n, (a < length l)%nat ->
  firstn (S n) (skipn a l) = nth a l 0 :: firstn n (skipn (S a) l).
Proof.
  induction l as [|h t IH]; intros a n H; cbn [length] in H; [lia|].
  destruct a as [|a].
  - reflexivity.
  - cbn [skipn nth]. rewrite IH by lia. reflexivity.
Qed.

Lemma seg_snoc l : forall a n, (a + n < length l)%nat ->
  firstn (S n) (skipn a l) = firstn n (skipn a l) ++ [nth (a + n) l 0].
Proof.
  intros a n; revert a; induction n as [|n IH]; intros a H.
  - rewrite seg_cons by lia. cbn [firstn app]. rewrite Nat.add_0_r. reflexivity.
  - rewrite seg_cons by lia. rewrite (seg_cons l a n) by lia.
    rewrite IH by lia. cbn [app]. replace (S a + n)%nat with (a + S n)%nat by lia. reflexivity.
Qed.

Lemma seg_upd_outside l : forall i v a n, (i < a \/ a + n <= i)%nat ->
  firstn n (skipn a (upd l i v)) = firstn n (skipn a l).
Proof.
  induction l as [|h t IH]; intros i v a n H.
  - destruct i; reflexivity.
  - destruct i as [|i], a as [|a]; cbn [upd skipn].
    + destruct n; [reflexivity|lia].
    + reflexivity.
    + destruct n as [|n]; [reflexivity|]. cbn [firstn]. f_equal.
      specialize (IH i v 0%nat n). cbn [skipn] in IH. apply IH. lia.
    + apply IH. lia.
Qed.

Lemma seg_length (l : list Z) a n : (a + n <= length l)%nat -> length (firstn n (skipn a l)) = n.
Proof. intros H. rewrite firstn_length, skipn_length. lia. Qed.

Lemma seg_blit (l : list Z) a vs : (a + length vs <= length l)%nat ->
  firstn (length vs) (skipn a (firstn a l ++ vs ++ skipn (a + length vs) l)) = vs.
Proof.
  intros H.
  rewrite skipn_app. rewrite firstn_length. replace (Nat.min a (length l)) with a by lia.
  rewrite Nat.sub_diag. cbn [skipn].
  rewrite skipn_all2 by (rewrite firstn_length; lia). cbn [app].
  rewrite firstn_app. rewrite Nat.sub_diag. cbn [firstn]. rewrite app_nil_r.
  apply firstn_all.
Qed.

Lemma blit_nat_length (l : list Z) a vs : (a + length vs <= length l)%nat ->
  length (firstn a l ++ vs ++ skipn (a + length vs) l) = length l.
Proof.
  intros H. rewrite !app_length, firstn_length, skipn_length. lia.
Qed.

(** * Z-indexed versions *)

Lemma zupd_length l i v : length (zupd l i v) = length l.
Proof. unfold zupd. destruct (i <? 0); [reflexivity|apply upd_length]. Qed.

Lemma znth_zupd_same l i v : 0 <= i < Z.of_nat (length l) -> znth (zupd l i v) i = v.
Proof.
  intros H. unfold znth, zupd. destruct (i <? 0) eqn:E; [lia|].
  apply nth_upd_same. lia.
Qed.

Lemma znth_zupd_other l i j v : i <> j -> 0 <= j -> znth (zupd l i v) j = znth l j.
Proof.
  intros H Hj. unfold znth, zupd. destruct (i <? 0) eqn:E; [reflexivity|].
  apply nth_upd_other. lia.
Qed.

Lemma zseg_nil l a b : b <= a -> zseg l a b = [].
Proof. intros H. unfold zseg. replace (Z.to_nat (b - a)) with 0%nat by lia. reflexivity. Qed.

Lemma zseg_cons l a b : 0 <= a < b -> b <= Z.of_nat (length l) ->
  zseg l a b = znth l a :: zseg l (a + 1) b.
Proof.
  intros H1 H2. unfold zseg, znth.
  replace (Z.to_nat (b - a)) with (S (Z.to_nat (b - (a + 1)))) by lia.
  replace (Z.to_nat (a + 1)) with (S (Z.to_nat a)) by lia.
  apply seg_cons. lia.
Qed.

Lemma zseg_snoc l a b : 0 <= a <= b -> b < Z.of_nat (length l) ->
  zseg l a (b + 1) = zseg l a b ++ [znth l b].
Proof.
  intros H1 H2. unfold zseg, znth.
  replace (Z.to_nat (b + 1 - a)) with (S (Z.to_nat (b - a))) by lia.
  replace (Z.to_nat b) with (Z.to_nat a + Z.to_nat (b - a))%nat by lia.
  apply seg_snoc. lia.
Qed.

Lemma zseg_zupd_outside l i v a b : 0 <= a -> i < a \/ b <= i ->
  zseg (zupd l i v) a b = zseg l a b.
Proof.
  intros Ha H. unfold zseg, zupd. destruct (i <? 0) eqn:E; [reflexivity|].
  apply seg_upd_outside. lia.
Qed.

Lemma zseg_length l a b : 0 <= a <= b -> b <= Z.of_nat (length l) ->
  Z.of_nat (length (zseg l a b)) = b - a.
Proof.
  intros H1 H2. unfold zseg. rewrite seg_length; lia.
Qed.

Lemma blit_length l d vs : 0 <= d -> d + Z.of_nat (length vs) <= Z.of_nat (length l) ->
  length (blit l d vs) = length l.
Proof.
  intros H1 H2. unfold blit. destruct (d <? 0) eqn:E; [lia|].
  apply blit_nat_length. lia.
Qed.

Lemma zseg_blit l d vs e : 0 <= d -> d + Z.of_nat (length vs) <= Z.of_nat (length l) ->
  e = d + Z.of_nat (length vs) ->
  zseg (blit l d vs) d e = vs.
Proof.
  intros H1 H2 ->. unfold zseg, blit. destruct (d <? 0) eqn:E; [lia|].
  replace (Z.to_nat (d + Z.of_nat (length vs) - d)) with (length vs) by lia.
  apply seg_blit. lia.
Qed.

(** truncating division by two, as the C code computes the re-centring offsets *)
Lemma quot2_bounds a : 0 <= a -> 0 <= Z.quot a 2 /\ 2 * Z.quot a 2 <= a /\ a <= 2 * Z.quot a 2 + 1.
Proof.
  intros H. pose proof (Z.quot_rem' a 2) as E.
  pose proof (Z.rem_bound_pos a 2 H ltac:(lia)) as R. lia.
Qed.

Lemma quot2_opp a : Z.quot (- a) 2 = - Z.quot a 2.
Proof. apply Z.quot_opp_l. lia. Qed.

(** * occurrence counting (multisets of items) *)
Definition occ (x : Z) (l : list Z) : nat := count_occ Z.eq_dec l x.

Lemma occ_app x l1 l2 : occ x (l1 ++ l2) = (occ x l1 + occ x l2)%nat.
Proof. apply count_occ_app. Qed.
Lemma occ_nil x : occ x [] = 0%nat.
Proof. reflexivity. Qed.
Lemma occ_cons x y l : occ x (y :: l) = ((if Z.eq_dec y x then 1 else 0) + occ x l)%nat.
Proof. unfold occ. cbn [count_occ]. destruct (Z.eq_dec y x); reflexivity. Qed.
