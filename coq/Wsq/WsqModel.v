(** C02 - the work-stealing deque of MassiveThreads, fine-grained executable model.

    Source: /repo/src/myth_wsqueue_func.h (myth_queue_init / push / pop / take / peek /
    trypass / put), /repo/src/myth_spinlock_func.h (trylock = CAS, unlock = store),
    /repo/src/myth_if_native.c (myth_wsapi_runqueue_take, modelled as mode [MW d]).

    Granularity: ONE model step ([Tick]) = the code between two consecutive
    MYTH_VERIF_POINTs of the real source.  Every step is written as a function

        view of memory  ->  ordered list of stores * next program counter * ghost event

    so that the very same program is run under sequential consistency (this file:
    the stores are applied at once) and under x86-TSO (Wsq/TsoModel.v: the stores
    go to the participant's FIFO store buffer and the view is memory overlaid with
    that buffer).

    Participants: one owner (actor 0; push / pop / put) and any number of thieves
    (actor S i; take / wsapi take with decision bit / trypass / peek).  Items are
    integers (thread tags); 0 is the NULL pointer.  Ghost fields [pushed] (items whose
    insertion has been published: push's store to top, put's / trypass's store to base)
    and [returned] (items handed to a caller by pop / take) are only appended to. *)
From Coq Require Import ZArith List Bool String.
Import ListNotations.
Local Open Scope list_scope.
Local Open Scope Z_scope.

(** * Memory *)

Record mem := mkMem {
  top : Z;            (* q->top  : owner end                         *)
  base : Z;           (* q->base : thief end                         *)
  lck : Z;            (* q->lock.locked                              *)
  ptr : list Z;       (* q->ptr[0..size) ; 0 = NULL                  *)
  wseq : Z;           (* q->wc.seq  (seqlock of the steal-hint cache) *)
  wptr : Z            (* q->wc.ptr                                   *)
}.

(** one store (a [WBlk] is the memmove of the re-centring: a block of slots) *)
Inductive wr :=
| WTop (v : Z) | WBase (v : Z) | WLock (v : Z)
| WPtr (i v : Z) | WBlk (dst : Z) (vs : list Z)
| WSeq (v : Z) | WCptr (v : Z).

Fixpoint upd (l : list Z) (n : nat) (x : Z) : list Z :=
  match l, n with
  | [], _ => []
  | _ :: t, O => x :: t
  | h :: t, S n' => h :: upd t n' x
  end.

Definition znth (l : list Z) (i : Z) : Z := nth (Z.to_nat i) l 0.
Definition zupd (l : list Z) (i v : Z) : list Z :=
  if i <? 0 then l else upd l (Z.to_nat i) v.
(** slots [a, b) *)
Definition zseg (l : list Z) (a b : Z) : list Z :=
  firstn (Z.to_nat (b - a)) (skipn (Z.to_nat a) l).
(** overwrite [l] from index [d] on with [vs] (memmove destination) *)
Definition blit (l : list Z) (d : Z) (vs : list Z) : list Z :=
  if d <? 0 then l else
  (firstn (Z.to_nat d) l ++ vs ++ skipn (Z.to_nat d + List.length vs) l)%list.

Definition apply_wr (m : mem) (w : wr) : mem :=
  match w with
  | WTop v => mkMem v (base m) (lck m) (ptr m) (wseq m) (wptr m)
  | WBase v => mkMem (top m) v (lck m) (ptr m) (wseq m) (wptr m)
  | WLock v => mkMem (top m) (base m) v (ptr m) (wseq m) (wptr m)
  | WPtr i v => mkMem (top m) (base m) (lck m) (zupd (ptr m) i v) (wseq m) (wptr m)
  | WBlk d vs => mkMem (top m) (base m) (lck m) (blit (ptr m) d vs) (wseq m) (wptr m)
  | WSeq v => mkMem (top m) (base m) (lck m) (ptr m) v (wptr m)
  | WCptr v => mkMem (top m) (base m) (lck m) (ptr m) (wseq m) v
  end.

Definition apply_wrs (m : mem) (ws : list wr) : mem := fold_left apply_wr ws m.

(** * Programs *)

Inductive oop := Push (x : Z) | Pop | Put (x : Z).
Inductive tmode := MTake | MW (d : bool) | MP.   (* take / wsapi take with decision bit / wsapi peek (cache refill) *)
Inductive top_op := Take | WTake (d : bool) | Pass (x : Z) | Peek | WPeek.

(** owner program counters; arguments are the C locals that are live *)
Inductive opc :=
| OIdle
| ODone (r : Z)
| OPushReadTop (x : Z)            (* "wsq.push.readtop"  : t = q->top                       *)
| OPushLock (x : Z)               (* "spin.trylock"      : t == size, acquire q->lock       *)
| OPushRecentre (x : Z)           (* "wsq.push.recentre" : abort / memmove down, t = q->top *)
| OPushUnlock (x t : Z)           (* "spin.unlock"                                          *)
| OPushSlot (x t : Z)             (* "wsq.push.slot"     : q->ptr[t] = th ; wbarrier        *)
| OPushTop (x t : Z)              (* "wsq.push.top"      : q->top = t + 1                   *)
| OPopQuick                       (* "wsq.pop.quick"     : q->top <= q->base -> NULL        *)
| OPopReadTop                     (* "wsq.pop.readtop"   : top = q->top ; top--             *)
| OPopWriteTop (t : Z)            (* "wsq.pop.writetop"  : q->top = top ; rwbarrier         *)
| OPopReadBase (t : Z)            (* "wsq.pop.readbase"  : base = q->base ; base+1 < top ?  *)
| OPopFast (t : Z)                (* "wsq.pop.fastslot"  : ret = q->ptr[top]                *)
| OPopLock (t : Z)                (* "spin.trylock"                                         *)
| OPopSlow (t : Z)                (* "wsq.pop.slow"      : the whole locked region          *)
| OPopUnlock (r : Z)              (* "spin.unlock"                                          *)
| OPutLock (x : Z)                (* "spin.trylock"                                         *)
| OPutRecentre (x : Z)            (* "wsq.put.recentre"  : abort / memmove up ; b = base-1  *)
| OPutSlot (x b : Z)              (* "wsq.put.slot"      : q->ptr[b] = th                   *)
| OPutBase (x b : Z)              (* "wsq.put.base"      : q->base = b                      *)
| OPutUnlock.                     (* "spin.unlock"                                          *)

Inductive tpc :=
| TIdle
| TDone (r : Z)
| TQuick                          (* "wsq.take.quick"     : top - base <= 0 -> NULL         *)
| TLock (m : tmode)               (* "spin.trylock"  (take: spin ; wsapi take: trylock)     *)
| TReadBase (m : tmode)           (* "wsq.take.readbase"  : b = q->base                     *)
| TWriteBase (m : tmode) (b : Z)  (* "wsq.take.writebase" : q->base = b + 1 ; rwbarrier     *)
| TReadTop (m : tmode) (b : Z)    (* "wsq.take.readtop"   : top = q->top ; b < top ?        *)
| TSlot (m : tmode) (b : Z)       (* "wsq.take.slot"      : ret = q->ptr[b]                 *)
| TDecide (d : bool) (b : Z)      (* wsapi take: the decision callback runs (lock held), then the
                                     effect of its answer: invalidate + return / roll back      *)
| TRollback (m : tmode) (b : Z)   (* "wsq.take.rollback"  : q->base = b                     *)
| TUnlock (r : Z)                 (* "spin.unlock"                                          *)
| TPassTry (x : Z)                (* "spin.trylock"                                         *)
| TPassCheck (x : Z)              (* "wsq.pass.check"     : base == 0 -> 0 ; b = base       *)
| TPassSlot (x b : Z)             (* "wsq.pass.slot"      : q->ptr[b-1] = th ; wbarrier     *)
| TPassBase (x : Z)               (* "wsq.pass.base"      : q->base--                       *)
| TPeekRead                       (* "wsq.peek.read"      : b = base ; top = top            *)
| TPeekSlot (b : Z)               (* "wsq.peek.slot"      : ret = q->ptr[b]                 *)
(* myth_wsapi_runqueue_peek (no POINTs of its own): refill of the hint cache under trylock with
   the take-and-roll-back idiom (mode MP of the take pcs), then the seqlock read *)
| TPeekCheck                      (* under the lock: "if (!wc->ptr)" again                  *)
| TUnlockP                        (* "spin.unlock", then on to the seqlock read             *)
| TPeekSeq.                       (* s0 = seq ; ret = wc->ptr ; s1 = seq (writers are one step) *)

(** ghost event of a step *)
Inductive gev := GNone | GPushed (x : Z) | GReturned (x : Z) | GAbort.

(** result of one step of a participant: stores in program order, next pc, ghost *)
Definition res (pc : Type) := option (list wr * pc * gev).

(** invalidation of the steal-hint cache (pop's last element, wsapi take) *)
Definition invalidate (v : mem) : list wr :=
  [WSeq (wseq v + 1); WCptr 0; WSeq (wseq v + 2)].

(** [v] is the participant's view of memory, [sz] is q->size *)
Definition owner_tick (v : mem) (sz : Z) (pc : opc) : res opc :=
  match pc with
  | OIdle | ODone _ => None
  (* ---- push ---- *)
  | OPushReadTop x =>
      let t := top v in
      if t =? sz then Some ([], OPushLock x, GNone) else Some ([], OPushSlot x t, GNone)
  | OPushLock x =>
      if lck v =? 0 then Some ([WLock 1], OPushRecentre x, GNone) else None
  | OPushRecentre x =>
      if base v =? 0 then Some ([], OPushRecentre x, GAbort)
      else
        let off := Z.quot (- base v - 1) 2 in
        Some ([WBlk (base v + off) (zseg (ptr v) (base v) (top v));
               WTop (top v + off); WBase (base v + off)],
              OPushUnlock x (top v + off), GNone)
  | OPushUnlock x t => Some ([WLock 0], OPushSlot x t, GNone)
  | OPushSlot x t => Some ([WPtr t x], OPushTop x t, GNone)
  | OPushTop x t => Some ([WTop (t + 1)], ODone 0, GPushed x)
  (* ---- pop ---- *)
  | OPopQuick =>
      if top v <=? base v then Some ([], ODone 0, GNone) else Some ([], OPopReadTop, GNone)
  | OPopReadTop => Some ([], OPopWriteTop (top v - 1), GNone)
  | OPopWriteTop t => Some ([WTop t], OPopReadBase t, GNone)
  | OPopReadBase t =>
      if base v + 1 <? t then Some ([], OPopFast t, GNone) else Some ([], OPopLock t, GNone)
  | OPopFast t => Some ([], ODone (znth (ptr v) t), GReturned (znth (ptr v) t))
  | OPopLock t =>
      if lck v =? 0 then Some ([WLock 1], OPopSlow t, GNone) else None
  | OPopSlow t =>
      let b := base v in
      if b <=? t then
        Some (WPtr t 0 :: (if t <=? b then invalidate v else []),
              OPopUnlock (znth (ptr v) t), GReturned (znth (ptr v) t))
      else
        Some ([WTop (Z.quot sz 2); WBase (Z.quot sz 2)], OPopUnlock 0, GNone)
  | OPopUnlock r => Some ([WLock 0], ODone r, GNone)
  (* ---- put ---- *)
  | OPutLock x =>
      if lck v =? 0 then Some ([WLock 1], OPutRecentre x, GNone) else None
  | OPutRecentre x =>
      if base v =? 0 then
        if top v =? sz then Some ([], OPutRecentre x, GAbort)
        else
          let off := Z.quot (sz - top v + 1) 2 in
          Some ([WBlk (base v + off) (zseg (ptr v) (base v) (top v));
                 WTop (top v + off); WBase (base v + off)],
                OPutSlot x (base v + off - 1), GNone)
      else Some ([], OPutSlot x (base v - 1), GNone)
  | OPutSlot x b => Some ([WPtr b x], OPutBase x b, GNone)
  | OPutBase x b => Some ([WBase b], OPutUnlock, GPushed x)
  | OPutUnlock => Some ([WLock 0], ODone 0, GNone)
  end.

(** "start:" of myth_wsapi_runqueue_peek: empty -> NULL; cache filled -> read it; else trylock *)
Definition peek_start (v : mem) : tpc :=
  if top v - base v <=? 0 then TDone 0 else if wptr v =? 0 then TLock MP else TPeekSeq.

Definition thief_tick (v : mem) (pc : tpc) : res tpc :=
  match pc with
  | TIdle | TDone _ => None
  | TQuick =>
      if top v - base v <=? 0 then Some ([], TDone 0, GNone) else Some ([], TLock MTake, GNone)
  | TLock m =>
      if lck v =? 0 then
        Some ([WLock 1], match m with MP => TPeekCheck | _ => TReadBase m end, GNone)
      else match m with
           | MTake => None
           | MW _ => Some ([], TDone 0, GNone)
           | MP => Some ([], peek_start v, GNone)          (* "goto start" *)
           end
  | TReadBase m => Some ([], TWriteBase m (base v), GNone)
  | TWriteBase m b => Some ([WBase (b + 1)], TReadTop m b, GNone)
  | TReadTop m b =>
      if b <? top v then Some ([], TSlot m b, GNone) else Some ([], TRollback m b, GNone)
  | TSlot m b =>
      let r := znth (ptr v) b in
      match m with
      | MTake => Some ([], TUnlock r, GReturned r)
      | MW d => Some ([], TDecide d b, GNone)
      | MP => Some ([WSeq (wseq v + 1); WCptr r; WSeq (wseq v + 2)], TRollback m b, GNone)
      end
  | TDecide d b =>
      let r := znth (ptr v) b in
      if d then Some (invalidate v, TUnlock r, GReturned r)
      else Some ([], TRollback (MW false) b, GNone)
  | TRollback m b => Some ([WBase b], match m with MP => TUnlockP | _ => TUnlock 0 end, GNone)
  | TUnlock r => Some ([WLock 0], TDone r, GNone)
  | TPassTry x =>
      if lck v =? 0 then Some ([WLock 1], TPassCheck x, GNone) else Some ([], TDone 0, GNone)
  | TPassCheck x =>
      if base v =? 0 then Some ([], TUnlock 0, GNone) else Some ([], TPassSlot x (base v), GNone)
  | TPassSlot x b => Some ([WPtr (b - 1) x], TPassBase x, GNone)
  | TPassBase x => Some ([WBase (base v - 1)], TUnlock 1, GPushed x)
  | TPeekRead =>
      if base v <? top v then Some ([], TPeekSlot (base v), GNone) else Some ([], TDone 0, GNone)
  | TPeekSlot b => Some ([], TDone (znth (ptr v) b), GNone)
  | TPeekCheck =>
      if wptr v =? 0 then Some ([], TReadBase MP, GNone) else Some ([], TUnlockP, GNone)
  | TUnlockP => Some ([WLock 0], TPeekSeq, GNone)
  | TPeekSeq => Some ([], TDone (wptr v), GNone)
  end.

(** entering an operation = the code from the call up to the first POINT.  peek and the
    wsapi take make their unhooked QUICK_CHECK there. *)
Definition owner_call (o : oop) : opc :=
  match o with Push x => OPushReadTop x | Pop => OPopQuick | Put x => OPutLock x end.

Definition thief_call (v : mem) (o : top_op) : tpc :=
  match o with
  | Take => TQuick
  | WTake d => if top v - base v <=? 0 then TDone 0 else TLock (MW d)
  | Pass x => TPassTry x
  | Peek => if top v - base v <=? 0 then TDone 0 else TPeekRead
  | WPeek => peek_start v
  end.

(** steps that are locked instructions (the CAS of trylock) *)
Definition owner_rmw (pc : opc) : bool :=
  match pc with OPushLock _ | OPopLock _ | OPutLock _ => true | _ => false end.
Definition thief_rmw (pc : tpc) : bool :=
  match pc with TLock _ | TPassTry _ => true | _ => false end.

(** POINT id of the next step and the [val] argument the hook passes *)
Definition olabel (pc : opc) : string * Z :=
  match pc with
  | OIdle => (""%string, 0) | ODone r => ("ret"%string, r)
  | OPushReadTop x => ("wsq.push.readtop"%string, x)
  | OPushLock _ | OPopLock _ | OPutLock _ => ("spin.trylock"%string, 0)
  | OPushRecentre x => ("wsq.push.recentre"%string, x)
  | OPushUnlock _ _ | OPopUnlock _ | OPutUnlock => ("spin.unlock"%string, 0)
  | OPushSlot x _ => ("wsq.push.slot"%string, x)
  | OPushTop x _ => ("wsq.push.top"%string, x)
  | OPopQuick => ("wsq.pop.quick"%string, 0)
  | OPopReadTop => ("wsq.pop.readtop"%string, 0)
  | OPopWriteTop t => ("wsq.pop.writetop"%string, t)
  | OPopReadBase t => ("wsq.pop.readbase"%string, t)
  | OPopFast t => ("wsq.pop.fastslot"%string, t)
  | OPopSlow t => ("wsq.pop.slow"%string, t)
  | OPutRecentre x => ("wsq.put.recentre"%string, x)
  | OPutSlot x _ => ("wsq.put.slot"%string, x)
  | OPutBase x _ => ("wsq.put.base"%string, x)
  end.

(** the wsapi take of myth_if_native.c carries no POINTs except those of the spinlock *)
Definition tlabel (pc : tpc) : string * Z :=
  match pc with
  | TIdle => (""%string, 0) | TDone r => ("ret"%string, r)
  | TQuick => ("wsq.take.quick"%string, 0)
  | TLock _ | TPassTry _ => ("spin.trylock"%string, 0)
  | TUnlock _ | TUnlockP => ("spin.unlock"%string, 0)
  | TReadBase MTake => ("wsq.take.readbase"%string, 0)
  | TWriteBase MTake b => ("wsq.take.writebase"%string, b)
  | TReadTop MTake b => ("wsq.take.readtop"%string, b)
  | TSlot MTake b => ("wsq.take.slot"%string, b)
  | TRollback MTake b => ("wsq.take.rollback"%string, b)
  | TDecide _ _ => ("wsapi.take.decide"%string, 0)    (* POINT issued by the harness' callback *)
  | TReadBase _ | TWriteBase _ _ | TReadTop _ _
  | TSlot _ _ | TRollback _ _ | TPeekCheck | TPeekSeq => (""%string, 0)
  | TPassCheck x => ("wsq.pass.check"%string, x)
  | TPassSlot x _ => ("wsq.pass.slot"%string, x)
  | TPassBase x => ("wsq.pass.base"%string, x)
  | TPeekRead => ("wsq.peek.read"%string, 0)
  | TPeekSlot b => ("wsq.peek.slot"%string, b)
  end.

(** * The transition system (sequential consistency) *)

Record state := mkState {
  mm : mem;
  qsize : Z;
  own : opc;
  thv : list tpc;
  pushed : list Z;
  returned : list Z;
  aborted : bool
}.

Inductive ev := CallO (o : oop) | CallT (o : top_op) | Tick | Ret.
Definition actor := (nat * ev)%type.     (* 0 = owner, S i = thief i *)

Fixpoint set_nth (l : list tpc) (n : nat) (x : tpc) : list tpc :=
  match l, n with
  | [], _ => []
  | _ :: t, O => x :: t
  | h :: t, S n' => h :: set_nth t n' x
  end.

Definition ghost_pushed (g : gev) (l : list Z) : list Z :=
  match g with GPushed x => l ++ [x] | _ => l end.
Definition ghost_returned (g : gev) (l : list Z) : list Z :=
  match g with GReturned x => l ++ [x] | _ => l end.
Definition ghost_abort (g : gev) : bool :=
  match g with GAbort => true | _ => false end.

Definition step (s : state) (a : actor) : option state :=
  if aborted s then None else
  match a with
  | (O, CallO o) =>
      match own s with
      | OIdle => Some (mkState (mm s) (qsize s) (owner_call o) (thv s) (pushed s) (returned s) false)
      | _ => None
      end
  | (O, Tick) =>
      match owner_tick (mm s) (qsize s) (own s) with
      | Some (ws, pc', g) =>
          Some (mkState (apply_wrs (mm s) ws) (qsize s) pc' (thv s)
                        (ghost_pushed g (pushed s)) (ghost_returned g (returned s)) (ghost_abort g))
      | None => None
      end
  | (O, Ret) =>
      match own s with
      | ODone _ => Some (mkState (mm s) (qsize s) OIdle (thv s) (pushed s) (returned s) false)
      | _ => None
      end
  | (O, CallT _) => None
  | (S i, CallT o) =>
      match nth_error (thv s) i with
      | Some TIdle =>
          Some (mkState (mm s) (qsize s) (own s) (set_nth (thv s) i (thief_call (mm s) o))
                        (pushed s) (returned s) false)
      | _ => None
      end
  | (S i, Tick) =>
      match nth_error (thv s) i with
      | Some pc =>
          match thief_tick (mm s) pc with
          | Some (ws, pc', g) =>
              Some (mkState (apply_wrs (mm s) ws) (qsize s) (own s) (set_nth (thv s) i pc')
                            (ghost_pushed g (pushed s)) (ghost_returned g (returned s)) (ghost_abort g))
          | None => None
          end
      | None => None
      end
  | (S i, Ret) =>
      match nth_error (thv s) i with
      | Some (TDone _) =>
          Some (mkState (mm s) (qsize s) (own s) (set_nth (thv s) i TIdle)
                        (pushed s) (returned s) false)
      | _ => None
      end
  | (S _, CallO _) => None
  end.

(** myth_queue_init: base = top = size/2, slots zeroed, lock free *)
Definition init_mem (sz : Z) : mem :=
  mkMem (Z.quot sz 2) (Z.quot sz 2) 0 (repeat 0 (Z.to_nat sz)) 0 0.
Definition init_state (sz : Z) (nthieves : nat) : state :=
  mkState (init_mem sz) sz OIdle (repeat TIdle nthieves) [] [] false.

(** any capacity >= 2, any number of thieves *)
Definition init (s : state) : Prop :=
  exists sz n, 2 <= sz /\ s = init_state sz n.

Definition label (s : state) (p : nat) : string * Z :=
  match p with
  | O => olabel (own s)
  | S i => match nth_error (thv s) i with
           | Some (TDecide d b) => (fst (tlabel (TDecide d b)), znth (ptr (mm s)) b)   (* val = candidate *)
           | Some pc => tlabel pc
           | None => (""%string, 0)
           end
  end.

(** observable words: top, base, lock, wc.seq, wc.ptr, then all slots *)
Definition obs (s : state) : list Z :=
  top (mm s) :: base (mm s) :: lck (mm s) :: wseq (mm s) :: wptr (mm s) :: ptr (mm s).

Definition result (s : state) (p : nat) : option Z :=
  match p with
  | O => match own s with ODone r => Some r | _ => None end
  | S i => match nth_error (thv s) i with Some (TDone r) => Some r | _ => None end
  end.

(** * Running programs under a schedule (what the correspondence check executes)

    Each participant has a list of operations; a schedule entry names a participant;
    what it does (call the next operation, one tick, return) follows from its state. *)
Record prog := mkProg { oprog : list oop; tprogs : list (list top_op) }.

Definition sched_event (s : state) (pg : prog) (p : nat) : option (ev * prog) :=
  match p with
  | O =>
      match own s with
      | OIdle => match oprog pg with
                 | o :: rest => Some (CallO o, mkProg rest (tprogs pg))
                 | [] => None
                 end
      | ODone _ => Some (Ret, pg)
      | _ => Some (Tick, pg)
      end
  | S i =>
      match nth_error (thv s) i with
      | Some TIdle =>
          match nth_error (tprogs pg) i with
          | Some (o :: rest) =>
              Some (CallT o, mkProg (oprog pg)
                     (firstn i (tprogs pg) ++ rest :: skipn (S i) (tprogs pg)))
          | _ => None
          end
      | Some (TDone _) => Some (Ret, pg)
      | Some _ => Some (Tick, pg)
      | None => None
      end
  end.

(** one schedule entry; [None]: the participant is finished or disabled (spinning) *)
Definition sched_step (s : state) (pg : prog) (p : nat) : option (state * prog) :=
  match sched_event s pg p with
  | Some (e, pg') => match step s (p, e) with Some s' => Some (s', pg') | None => None end
  | None => None
  end.

Definition finished (s : state) (pg : prog) (p : nat) : bool :=
  match p with
  | O => match own s, oprog pg with OIdle, [] => true | _, _ => false end
  | S i => match nth_error (thv s) i, nth_error (tprogs pg) i with
           | Some TIdle, Some [] => true
           | Some TIdle, None => true
           | None, _ => true
           | _, _ => false
           end
  end.
