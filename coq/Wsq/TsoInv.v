(** C02 - the deque invariant under x86-TSO: logical memory and the side invariants.

    The SC invariant [Core] (Wsq/WsqInv.v) is carried over to TSO on the LOGICAL memory
    [Lmem] = main memory, overridden by the buffered stores of the (only) thief inside a
    critical section, overridden by the owner's buffered stores.  A program step that reads
    only what agrees between the stepper's view and the logical memory is an SC step on the
    logical memory; a flush does not change it.  The two racy reads - pop's read of base after
    its full fence and take's read of top after its full fence - are covered by side
    invariants about what memory may still lag behind ([ti_base], [ti_tops]); push's
    slot-then-top order is the FIFO property [pord]. *)
From Coq Require Import ZArith List Lia Bool.
From MT Require Import Lib.Interleave Wsq.WsqModel Wsq.WsqLists Wsq.WsqInv Wsq.WsqProofs
                       Wsq.TsoModel Wsq.TsoLock.
Import ListNotations.
Local Open Scope list_scope.
Local Open Scope Z_scope.

(** * Memories equal up to the lock word *)

Definition meq (a b : mem) : Prop :=
  top a = top b /\ base a = base b /\ ptr a = ptr b /\ wseq a = wseq b /\ wptr a = wptr b.

Lemma meq_refl a : meq a a.
Proof. unfold meq; auto. Qed.
Lemma meq_sym a b : meq a b -> meq b a.
Proof. unfold meq; intuition. Qed.
Lemma meq_trans a b c : meq a b -> meq b c -> meq a c.
Proof. unfold meq; intuition congruence. Qed.

Lemma meq_apply_wr a b w : meq a b -> meq (apply_wr a w) (apply_wr b w).
Proof. intros (H1 & H2 & H3 & H4 & H5). destruct w; unfold meq; cbn; rewrite ?H1, ?H2, ?H3, ?H4, ?H5; auto. Qed.
Lemma meq_apply_wrs b : forall a a', meq a a' -> meq (apply_wrs a b) (apply_wrs a' b).
Proof.
  induction b as [|w b IH]; intros a a' H; cbn [apply_wrs fold_left]; auto.
  apply IH. apply meq_apply_wr; auto.
Qed.
Lemma meq_wlock a v : meq (apply_wr a (WLock v)) a.
Proof. unfold meq; cbn; auto. Qed.

Definition setlck (m : mem) (k : Z) : mem := mkMem (top m) (base m) k (ptr m) (wseq m) (wptr m).
Lemma meq_setlck m k : meq (setlck m k) m.
Proof. unfold meq; cbn; auto. Qed.

Lemma apply_wrs_app m a b : apply_wrs m (a ++ b) = apply_wrs (apply_wrs m a) b.
Proof. unfold apply_wrs. apply fold_left_app. Qed.
Lemma apply_wrs_cons m w b : apply_wrs m (w :: b) = apply_wrs (apply_wr m w) b.
Proof. reflexivity. Qed.

(** the buffered stores without the unlock stores *)
Definition strip (b : list wr) : list wr := filter (fun w => negb (is_wlock w)) b.

Lemma strip_app a b : strip (a ++ b) = strip a ++ strip b.
Proof. unfold strip. apply filter_app. Qed.

Lemma meq_strip b : forall m, meq (apply_wrs m b) (apply_wrs m (strip b)).
Proof.
  induction b as [|w b IH]; intros m; cbn [strip filter]; [apply meq_refl|].
  destruct (is_wlock w) eqn:E; cbn [negb].
  - rewrite apply_wrs_cons. destruct w; try discriminate.
    eapply meq_trans; [|apply IH]. apply meq_apply_wrs. apply meq_wlock.
  - rewrite !apply_wrs_cons. apply IH.
Qed.

Lemma Core_meq m1 m2 sz o h P R :
  meq m1 m2 -> lck m2 = b2z (holds_o o) + b2z (holds_t h) -> (lck m2 = 0 \/ lck m2 = 1) ->
  Core m1 sz o h P R -> Core m2 sz o h P R.
Proof.
  intros (H1 & H2 & H3 & H4 & H5) L L01 [C1 C2 C3 C4 C5 C6 C7 C8].
  assert (Eo : oinfl m2 o = oinfl m1 o) by (destruct o; cbn; rewrite ?H3; reflexivity).
  assert (Et : tinfl1 m2 h = tinfl1 m1 h) by (destruct h; cbn; rewrite ?H3; reflexivity).
  constructor; auto; unfold Tq, Bq in *; rewrite <- ?H1, <- ?H2, <- ?H3, ?Eo, ?Et; auto.
  - eapply oinv_frame; [| | |exact C7]; auto.
  - eapply tinv_frame; [| |exact C8]; auto.
Qed.

(** * Independent stores commute *)

Lemma upd_comm l : forall i j a b, i <> j -> upd (upd l i a) j b = upd (upd l j b) i a.
Proof.
  induction l as [|h t IH]; intros [|i] [|j] a b H; cbn [upd]; try congruence.
  f_equal. apply IH. congruence.
Qed.
Lemma zupd_comm l i j a b : i <> j -> zupd (zupd l i a) j b = zupd (zupd l j b) i a.
Proof.
  intros H. unfold zupd. destruct (i <? 0) eqn:Ei, (j <? 0) eqn:Ej; auto.
  apply upd_comm. lia.
Qed.

Definition indep (w1 w2 : wr) : Prop :=
  match w1, w2 with
  | WPtr i _, WPtr j _ => i <> j
  | WTop _, WTop _ | WBase _, WBase _ | WLock _, WLock _ | WSeq _, WSeq _ | WCptr _, WCptr _ => False
  | WBlk _ _, WPtr _ _ | WBlk _ _, WBlk _ _ | WPtr _ _, WBlk _ _ => False
  | _, _ => True
  end.

Lemma indep_comm m w1 w2 : indep w1 w2 ->
  apply_wr (apply_wr m w1) w2 = apply_wr (apply_wr m w2) w1.
Proof.
  destruct w1, w2; cbn; intros H; try contradiction; try reflexivity.
  f_equal. apply zupd_comm. exact H.
Qed.

Lemma indep_comm_list b : forall m w, Forall (indep w) b ->
  apply_wrs (apply_wr m w) b = apply_wr (apply_wrs m b) w.
Proof.
  induction b as [|x b IH]; intros m w F; cbn [apply_wrs fold_left]; auto.
  inversion F; subst. fold (apply_wrs (apply_wr (apply_wr m w) x) b).
  fold (apply_wrs (apply_wr m x) b). rewrite indep_comm by auto. apply IH. auto.
Qed.

(** * The logical memory *)

Definition Lq (M : mem) (ob hb : list wr) : mem := apply_wrs (apply_wrs M hb) (strip ob).
Definition lkof (o : opc) (h : tpc) : Z := b2z (holds_o o) + b2z (holds_t h).
Definition Lmem (M : mem) (ob hb : list wr) (o : opc) (h : tpc) : mem := setlck (Lq M ob hb) (lkof o h).

(** classes of stores *)
Definition lf (w : wr) : Prop := match w with WPtr _ _ | WTop _ => True | _ => False end.   (* owner, lock-free *)
Definition cachew (w : wr) : Prop := match w with WSeq _ | WCptr _ => True | _ => False end.
Definition thw (w : wr) : Prop :=                                  (* a thief's critical-section store *)
  match w with WBase _ | WPtr _ _ | WSeq _ | WCptr _ => True | _ => False end.
Definition nolock (w : wr) : Prop := is_wlock w = false.

Lemma strip_nolock b : Forall nolock b -> strip b = b.
Proof.
  induction 1 as [|w b Hw F IH]; cbn [strip filter]; auto.
  unfold nolock in Hw. rewrite Hw. cbn. f_equal. exact IH.
Qed.
Lemma lf_nolock w : lf w -> nolock w.
Proof. destruct w; cbn; intros H; try contradiction; reflexivity. Qed.
Lemma thw_nolock w : thw w -> nolock w.
Proof. destruct w; cbn; intros H; try contradiction; reflexivity. Qed.

(** field of a memory after stores that do not touch it *)
Lemma top_apply b : forall m, Forall (fun w => match w with WTop _ => False | _ => True end) b ->
  top (apply_wrs m b) = top m.
Proof.
  induction b as [|w b IH]; intros m F; cbn [apply_wrs fold_left]; auto.
  inversion F; subst. fold (apply_wrs (apply_wr m w) b). rewrite IH by auto. destruct w; cbn in *; auto; contradiction.
Qed.
Lemma base_apply b : forall m, Forall (fun w => match w with WBase _ => False | _ => True end) b ->
  base (apply_wrs m b) = base m.
Proof.
  induction b as [|w b IH]; intros m F; cbn [apply_wrs fold_left]; auto.
  inversion F; subst. fold (apply_wrs (apply_wr m w) b). rewrite IH by auto. destruct w; cbn in *; auto; contradiction.
Qed.
Lemma ptr_apply b : forall m, Forall (fun w => match w with WPtr _ _ | WBlk _ _ => False | _ => True end) b ->
  ptr (apply_wrs m b) = ptr m.
Proof.
  induction b as [|w b IH]; intros m F; cbn [apply_wrs fold_left]; auto.
  inversion F; subst. fold (apply_wrs (apply_wr m w) b). rewrite IH by auto. destruct w; cbn in *; auto; contradiction.
Qed.
Lemma cache_apply b : forall m, Forall (fun w => match w with WSeq _ | WCptr _ => False | _ => True end) b ->
  wseq (apply_wrs m b) = wseq m /\ wptr (apply_wrs m b) = wptr m.
Proof.
  induction b as [|w b IH]; intros m F; cbn [apply_wrs fold_left]; auto.
  inversion F; subst. fold (apply_wrs (apply_wr m w) b). destruct (IH (apply_wr m w)) as [I1 I2]; auto.
  rewrite I1, I2. destruct w; cbn in *; auto; contradiction.
Qed.

(** one slot after stores none of which hits it *)
Lemma znth_apply b : forall m k, 0 <= k ->
  Forall (fun w => match w with WPtr i _ => i <> k | WBlk _ _ => False | _ => True end) b ->
  znth (ptr (apply_wrs m b)) k = znth (ptr m) k.
Proof.
  induction b as [|w b IH]; intros m k Hk F; cbn [apply_wrs fold_left]; auto.
  inversion F; subst. fold (apply_wrs (apply_wr m w) b). rewrite IH by auto.
  destruct w; cbn in *; auto; try contradiction. apply znth_zupd_other; auto.
Qed.

Lemma Forall_impl' {A} (P Q : A -> Prop) l : (forall x, P x -> Q x) -> Forall P l -> Forall Q l.
Proof. intros H F. eapply Forall_impl; eauto. Qed.

(** * Side invariants on the buffers *)

(** largest value the owner's top takes while its buffer drains *)
Fixpoint omax (mx : Z) (b : list wr) : Z :=
  match b with
  | [] => mx
  | WTop v :: r => omax (Z.max mx v) r
  | _ :: r => omax mx r
  end.
(** push's FIFO order: a buffered slot store at index i is preceded only by top values <= i *)
Fixpoint pord (mx : Z) (b : list wr) : Prop :=
  match b with
  | [] => True
  | WTop v :: r => pord (Z.max mx v) r
  | WPtr i _ :: r => mx <= i /\ pord mx r
  | _ :: r => pord mx r
  end.
(** indices of the buffered slot stores *)
Fixpoint optrs (b : list wr) : list Z :=
  match b with
  | [] => []
  | WPtr i _ :: r => i :: optrs r
  | _ :: r => optrs r
  end.

Lemma omax_ge b : forall mx, mx <= omax mx b.
Proof.
  induction b as [|w b IH]; intros mx; cbn [omax]; [lia|].
  destruct w; try apply IH. specialize (IH (Z.max mx v)). lia.
Qed.
Lemma omax_mono b : forall m1 m2, m1 <= m2 -> omax m1 b <= omax m2 b.
Proof.
  induction b as [|w b IH]; intros m1 m2 H; cbn [omax]; [lia|].
  destruct w; apply IH; lia.
Qed.
Lemma omax_app b : forall mx c, omax mx (b ++ c) = omax (omax mx b) c.
Proof.
  induction b as [|w b IH]; intros mx c; cbn [omax app]; auto.
  destruct w; apply IH.
Qed.
Lemma pord_mono b : forall m1 m2, m1 <= m2 -> pord m2 b -> pord m1 b.
Proof.
  induction b as [|w b IH]; intros m1 m2 H P; cbn [pord] in *; auto.
  destruct w; try (eapply IH; eauto; fail).
  - eapply IH; [|exact P]. lia.
  - destruct P as [P1 P2]. split; [lia|]. eapply IH; eauto.
Qed.
Lemma pord_app b : forall mx c, pord mx (b ++ c) <-> pord mx b /\ pord (omax mx b) c.
Proof.
  induction b as [|w b IH]; intros mx c; cbn [pord omax app]; [tauto|].
  destruct w; try apply IH. rewrite IH. tauto.
Qed.
Lemma pord_ptrs b : forall mx, pord mx b -> Forall (fun i => mx <= i) (optrs b).
Proof.
  induction b as [|w b IH]; intros mx P; cbn [pord optrs] in *; auto.
  destruct w; try (apply IH; auto; fail).
  - eapply Forall_impl; [|apply (IH _ P)]. cbn. intros; lia.
  - destruct P as [P1 P2]. constructor; auto.
Qed.
Lemma optrs_app b c : optrs (b ++ c) = optrs b ++ optrs c.
Proof.
  induction b as [|w b IH]; cbn [optrs app]; auto. destruct w; cbn [app]; rewrite ?IH; auto.
Qed.

Definition lfree (b : list wr) : Prop := Forall lf b.

Lemma lfree_ptr_ok b k : lfree b -> Forall (fun i => i <> k) (optrs b) ->
  Forall (fun w => match w with WPtr i _ => i <> k | WBlk _ _ => False | _ => True end) b.
Proof.
  induction 1 as [|w b Hw F IH]; intros P; constructor.
  - destruct w; cbn in *; auto; try contradiction. inversion P; auto.
  - apply IH. destruct w; cbn in *; auto. inversion P; auto.
Qed.
Lemma thw_ptr_ok b k : Forall thw b -> Forall (fun i => i <> k) (optrs b) ->
  Forall (fun w => match w with WPtr i _ => i <> k | WBlk _ _ => False | _ => True end) b.
Proof.
  induction 1 as [|w b Hw F IH]; intros P; constructor.
  - destruct w; cbn in *; auto; try contradiction. inversion P; auto.
  - apply IH. destruct w; cbn in *; auto. inversion P; auto.
Qed.

(** the shapes of the buffers *)

(** owner: inside its critical section only non-lock stores; outside, lock-free stores possibly
    preceded by the pending unlock store; nothing while it reads its claimed slot *)
Definition oshape (o : opc) (ob : list wr) : Prop :=
  (holds_o o = true -> Forall nolock ob) /\
  (holds_o o = false -> lfree ob \/ exists r, ob = WLock 0 :: r /\ lfree r) /\
  (forall t, o = OPopFast t -> ob = []).

(** tail of the buffer of a thief that is about to unlock: cache stores, then possibly its last
    store to base (roll-back, or the commit of a trypass preceded by its slot store) *)
Definition ushape (M : mem) (hb : list wr) : Prop :=
  exists cs tl, hb = cs ++ tl /\ Forall cachew cs /\
    (tl = [] \/ (exists v, tl = [WBase v] /\ v = base M - 1) \/
     (exists j x, tl = [WPtr j x; WBase j] /\ j = base M - 1)).

Definition hshape (M : mem) (h : tpc) (hb : list wr) : Prop :=
  match h with
  | TReadTop _ b => hb = [] \/ (hb = [WBase (b + 1)] /\ base M = b)
  | TRollback _ _ => Forall cachew hb
  | TPassBase x => hb = [] \/ hb = [WPtr (base M - 1) x]
  | TUnlock _ | TUnlockP => ushape M hb
  | _ => hb = []
  end.

Lemma cachew_thw w : cachew w -> thw w.
Proof. destruct w; cbn; auto. Qed.

Lemma hshape_thw M h hb : hshape M h hb -> Forall thw hb.
Proof.
  destruct h; cbn [hshape]; intros H; subst; auto.
  - destruct H as [->|[-> _]]; repeat constructor.
  - eapply Forall_impl; [|exact H]. apply cachew_thw.
  - destruct H as (cs & tl & -> & F & [->|[(v & -> & _)|(j & x & -> & _)]]); apply Forall_app; split;
      try (eapply Forall_impl; [|exact F]; apply cachew_thw); repeat constructor.
  - destruct H as [->| ->]; repeat constructor.
  - destruct H as (cs & tl & -> & F & [->|[(v & -> & _)|(j & x & -> & _)]]); apply Forall_app; split;
      try (eapply Forall_impl; [|exact F]; apply cachew_thw); repeat constructor.
Qed.

Lemma hshape_nohold M h hb : holds_t h = false -> hshape M h hb -> hb = [].
Proof. destruct h; cbn; intros H S; auto; discriminate. Qed.

(** * The invariant on (memory, owner pc + buffer, the possibly lock-holding thief pc + buffer) *)

(** logical T and B *)
Definition LT (M : mem) (ob hb : list wr) (o : opc) : Z := top (Lq M ob hb) + b2z (oc o).
Definition LB (M : mem) (ob hb : list wr) (h : tpc) : Z := base (Lq M ob hb) - b2z (hc h).

Lemma Tq_Lmem M ob hb o h : Tq (Lmem M ob hb o h) o = LT M ob hb o.
Proof. reflexivity. Qed.
Lemma Bq_Lmem M ob hb o h : Bq (Lmem M ob hb o h) h = LB M ob hb h.
Proof. reflexivity. Qed.

Record TCore (M : mem) (sz : Z) (o : opc) (ob : list wr) (om : bool)
             (h : tpc) (hb : list wr) (hm : bool) (np : Z) (P R : list Z) : Prop := mkTCore {
  tc_core : Core (Lmem M ob hb o h) sz o h P R;
  (* lock word = holders + pending unlock stores (np: those in the other thieves' buffers) *)
  tc_lk : lck M = lkof o h + wlocks ob + np /\ 0 <= np /\ lkof o h + wlocks ob + np <= 1;
  tc_osh : oshape o ob;
  tc_om : forall t, o = OPopReadBase t -> om = true;
  tc_hsh : hshape M h hb;
  tc_hm : forall m b, h = TReadTop m b -> hm = true;
  (* memory's top never exceeds the logical T while the owner's buffer drains *)
  tc_tops : holds_o o = false -> omax (top M) ob <= LT M ob hb o;
  tc_pord : holds_o o = false -> pord (top M) ob;
  (* memory's base never lags behind the logical B *)
  tc_base : holds_o o = false -> LB M ob hb h <= base M;
  tc_live : holds_o o = false -> Forall (fun i => LB M ob hb h <= i) (optrs ob);
  tc_hptr : Forall (fun j => j <= LB M ob hb h /\ j < LT M ob hb o) (optrs hb);
  tc_disj : holds_o o = false -> forall i j, In i (optrs ob) -> In j (optrs hb) -> j < i
}.

Lemma b2z_01 b : b2z b = 0 \/ b2z b = 1.
Proof. destruct b; cbn; auto. Qed.

Lemma wlocks_zero_nolock b : wlocks b = 0 -> Forall nolock b.
Proof.
  induction b as [|w b IH]; intros H; [constructor|].
  cbn [wlocks] in H. pose proof (wlocks_nonneg b).
  destruct (is_wlock w) eqn:E; cbn [b2z] in H; [lia|].
  constructor; [exact E|apply IH; lia].
Qed.
Lemma nolock_wlocks b : Forall nolock b -> wlocks b = 0.
Proof.
  induction 1 as [|w b Hw F IH]; cbn [wlocks]; auto. unfold nolock in Hw. rewrite Hw, IH. reflexivity.
Qed.
Lemma lfree_nolock b : lfree b -> Forall nolock b.
Proof. intros H. eapply Forall_impl; [|exact H]. apply lf_nolock. Qed.

(** a thief inside its critical section: the owner is outside, no unlock store is pending *)
Lemma TCore_thief_holds M sz o ob om h hb hm np P R :
  TCore M sz o ob om h hb hm np P R -> holds_t h = true ->
  holds_o o = false /\ np = 0 /\ lck M = 1 /\ lfree ob.
Proof.
  intros T Hh. destruct (tc_lk _ _ _ _ _ _ _ _ _ _ _ T) as (L1 & L2 & L3).
  unfold lkof in *. rewrite Hh in *. cbn [b2z] in *.
  pose proof (wlocks_nonneg ob). destruct (holds_o o) eqn:Ho; cbn [b2z] in *; try lia.
  assert (W : wlocks ob = 0) by lia.
  repeat split; try lia.
  destruct (tc_osh _ _ _ _ _ _ _ _ _ _ _ T) as (_ & S & _).
  destruct (S Ho) as [F|(r & -> & F)]; auto. cbn [wlocks is_wlock b2z] in W. pose proof (wlocks_nonneg r). lia.
Qed.

Lemma TCore_owner_holds M sz o ob om h hb hm np P R :
  TCore M sz o ob om h hb hm np P R -> holds_o o = true ->
  holds_t h = false /\ hb = [] /\ np = 0 /\ wlocks ob = 0 /\ lck M = 1.
Proof.
  intros T Ho. destruct (tc_lk _ _ _ _ _ _ _ _ _ _ _ T) as (L1 & L2 & L3).
  unfold lkof in *. rewrite Ho in *. cbn [b2z] in *.
  pose proof (wlocks_nonneg ob). destruct (holds_t h) eqn:Hh; cbn [b2z] in *; try lia.
  repeat split; try lia. eapply hshape_nohold; eauto. exact (tc_hsh _ _ _ _ _ _ _ _ _ _ _ T).
Qed.

(** ** The logical memory under the elementary changes *)

Lemma strip_single_nolock w : nolock w -> strip [w] = [w].
Proof. intros H. unfold strip. cbn. unfold nolock in H. rewrite H. reflexivity. Qed.

Lemma Lq_owner_app M ob hb ws : Forall nolock ws ->
  Lq M (ob ++ ws) hb = apply_wrs (Lq M ob hb) ws.
Proof.
  intros H. unfold Lq. rewrite strip_app, apply_wrs_app. rewrite (strip_nolock ws) by auto. reflexivity.
Qed.
Lemma Lq_owner_app_wlock M ob hb v : Lq M (ob ++ [WLock v]) hb = Lq M ob hb.
Proof. unfold Lq. rewrite strip_app. cbn. rewrite app_nil_r. reflexivity. Qed.
Lemma Lq_holder_flush M ob w r : Lq (apply_wr M w) ob r = Lq M ob (w :: r).
Proof. reflexivity. Qed.
Lemma Lq_holder_app M ob hb w : Forall (indep w) (strip ob) ->
  Lq M ob (hb ++ [w]) = apply_wr (Lq M ob hb) w.
Proof.
  intros H. unfold Lq. rewrite apply_wrs_app. cbn [apply_wrs fold_left].
  apply indep_comm_list. exact H.
Qed.
Lemma Lq_owner_flush M w r hb : nolock w -> Forall (indep w) hb ->
  Lq (apply_wr M w) r hb = Lq M (w :: r) hb.
Proof.
  intros Hn H. unfold Lq. cbn [strip filter]. unfold nolock in Hn. rewrite Hn. cbn [negb].
  rewrite apply_wrs_cons. f_equal. apply indep_comm_list. exact H.
Qed.
Lemma Lq_owner_flush_wlock M v r hb : meq (Lq (apply_wr M (WLock v)) r hb) (Lq M (WLock v :: r) hb).
Proof.
  unfold Lq. cbn [strip filter is_wlock negb]. apply meq_apply_wrs. apply meq_apply_wrs. apply meq_wlock.
Qed.

Lemma Lmem_meq M ob hb o h : meq (Lmem M ob hb o h) (Lq M ob hb).
Proof. apply meq_setlck. Qed.

(** ** A step that reads nothing but agreeing fields is the same step *)

Lemma owner_tick_meq v1 v2 sz o : meq v1 v2 -> lck v1 = lck v2 \/ owner_rmw o = false ->
  owner_tick v1 sz o = owner_tick v2 sz o.
Proof.
  intros (H1 & H2 & H3 & H4 & H5) HL. destruct o; cbn [owner_tick owner_rmw] in *; unfold invalidate;
    rewrite ?H1, ?H2, ?H3, ?H4, ?H5; try reflexivity;
    destruct HL as [HL|HL]; try discriminate; rewrite ?HL; reflexivity.
Qed.
Lemma thief_tick_meq v1 v2 h : meq v1 v2 -> lck v1 = lck v2 \/ thief_rmw h = false ->
  thief_tick v1 h = thief_tick v2 h.
Proof.
  intros (H1 & H2 & H3 & H4 & H5) HL. destruct h; cbn [thief_tick thief_rmw] in *;
    unfold peek_start, invalidate; rewrite ?H1, ?H2, ?H3, ?H4, ?H5; try reflexivity;
    destruct HL as [HL|HL]; try discriminate; rewrite ?HL; reflexivity.
Qed.

(** * Flush steps *)

Lemma hshape_base M M' h hb : base M' = base M -> hshape M h hb -> hshape M' h hb.
Proof.
  intros E. destruct h; cbn [hshape]; unfold ushape; rewrite ?E; auto.
Qed.
Lemma hshape_nil M h : holds_t h = false -> hshape M h [].
Proof. destruct h; cbn; intros; auto; discriminate. Qed.

Lemma lf_indep_thw w x : lf w -> thw x -> (forall i a j b, w = WPtr i a -> x = WPtr j b -> i <> j) -> indep w x.
Proof.
  destruct w, x; cbn; intros Hw Hx H; try contradiction; auto. eapply H; eauto.
Qed.

Lemma In_optrs i x b : In (WPtr i x) b -> In i (optrs b).
Proof.
  induction b as [|w b IH]; cbn [In optrs]; auto. intros [->|H]; [left; auto|].
  destruct w; auto. right; auto.
Qed.

Ltac tc_open T :=
  destruct T as [TC TL TOS TOM THS THM TTOPS TPORD TBASE TLIVE THPTR TDISJ].

Lemma T_owner_flush M sz o w r om h hb hm np P R :
  TCore M sz o (w :: r) om h hb hm np P R ->
  TCore (apply_wr M w) sz o r om h hb hm np P R.
Proof.
  intros T. destruct (holds_o o) eqn:Ho.
  - (* the owner is inside its critical section: no thief store is pending *)
    destruct (TCore_owner_holds _ _ _ _ _ _ _ _ _ _ _ T Ho) as (Hh & -> & -> & W & L1).
    tc_open T. destruct TOS as (S1 & S2 & S3). specialize (S1 Ho). inversion S1 as [|? ? Hw Fr]; subst.
    assert (E : Lq (apply_wr M w) r [] = Lq M (w :: r) []) by (apply Lq_owner_flush; auto).
    assert (EL : Lmem (apply_wr M w) r [] o h = Lmem M (w :: r) [] o h) by (unfold Lmem; rewrite E; reflexivity).
    constructor; unfold LT, LB in *; rewrite ?EL, ?E; auto; try (intros; congruence).
    + cbn [wlocks] in *. unfold nolock in Hw. rewrite Hw in *. cbn [b2z] in *.
      destruct w; cbn in *; try discriminate; auto.
    + split; [intros _; auto|]. split; [intros; congruence|]. intros t Et. specialize (S3 t Et). discriminate.
    + apply hshape_nil; auto.
  - tc_open T. destruct TOS as (S1 & S2 & S3). destruct (S2 Ho) as [F|(r' & E & F)].
    + (* a lock-free store of push / pop *)
      inversion F as [|? ? Hw Fr]; subst.
      assert (Hthw : Forall thw hb) by (eapply hshape_thw; eauto).
      assert (Hi : Forall (indep w) hb).
      { rewrite Forall_forall. intros x Hx. rewrite Forall_forall in Hthw.
        apply lf_indep_thw; auto. intros i a j b -> ->.
        specialize (TDISJ Ho i j). cbn [optrs] in TDISJ. specialize (TDISJ (or_introl eq_refl) (In_optrs _ _ _ Hx)). lia. }
      assert (E : Lq (apply_wr M w) r hb = Lq M (w :: r) hb) by (apply Lq_owner_flush; auto; apply lf_nolock; auto).
      assert (EL : Lmem (apply_wr M w) r hb o h = Lmem M (w :: r) hb o h) by (unfold Lmem; rewrite E; reflexivity).
      assert (Eb : base (apply_wr M w) = base M) by (destruct w; cbn in *; auto; contradiction).
      assert (Ek : lck (apply_wr M w) = lck M) by (destruct w; cbn in *; auto; contradiction).
      constructor; unfold LT, LB in *; rewrite ?EL, ?E, ?Eb, ?Ek; auto.
      * cbn [wlocks] in TL. destruct w; cbn in *; auto; contradiction.
      * split; [intros; congruence|]. split; [intros _; left; auto|].
        intros t Et. specialize (S3 t Et). discriminate.
      * eapply hshape_base; eauto.
      * intros _. specialize (TTOPS Ho). destruct w; cbn in Hw; try contradiction; cbn [omax apply_wr top] in *; auto.
        eapply Z.le_trans; [|exact TTOPS]. apply omax_mono. lia.
      * intros _. specialize (TPORD Ho). destruct w; cbn in Hw; try contradiction; cbn [pord apply_wr top] in *.
        -- eapply pord_mono; [|exact TPORD]. lia.
        -- tauto.
      * intros _. specialize (TLIVE Ho). destruct w; cbn in Hw; try contradiction; cbn [optrs] in *; auto.
        inversion TLIVE; auto.
      * intros _ i j Hi' Hj. apply (TDISJ Ho); auto. destruct w; cbn [optrs]; auto. right; auto.
    + (* the owner's pending unlock store *)
      inversion E; subst w r'. clear E.
      destruct TL as (L1 & L2 & L3). cbn [wlocks is_wlock b2z] in *. pose proof (wlocks_nonneg r).
      assert (K0 : lkof o h = 0) by (unfold lkof in *; destruct (b2z_01 (holds_o o)), (b2z_01 (holds_t h)); lia).
      assert (Hh : holds_t h = false) by (unfold lkof in K0; rewrite Ho in K0; destruct (holds_t h); cbn in *; [lia|auto]).
      pose proof (Lq_owner_flush_wlock M 0 r hb) as ME.
      destruct ME as (E1 & E2 & E3 & E4 & E5).
      constructor; unfold LT, LB in *; rewrite ?E1, ?E2; auto.
      * eapply Core_meq; [| | |exact TC].
        -- eapply meq_trans; [apply Lmem_meq|]. eapply meq_trans; [|apply meq_sym; apply Lmem_meq].
           apply meq_sym. unfold meq. auto.
        -- reflexivity.
        -- cbn. rewrite K0. auto.
      * cbn [apply_wr lck]. lia.
      * split; [intros; congruence|]. split; [intros _; left; auto|].
        intros t Et. specialize (S3 t Et). discriminate.
Qed.

Lemma thw_fields w m : thw w -> top (apply_wr m w) = top m /\ lck (apply_wr m w) = lck m.
Proof. destruct w; cbn; intros H; try contradiction; auto. Qed.

Lemma lfree_nobase b : lfree b -> Forall (fun w => match w with WBase _ => False | _ => True end) b.
Proof. intros H. eapply Forall_impl; [|exact H]. intros w; destruct w; cbn; auto. Qed.
Lemma lfree_nocache b : lfree b -> Forall (fun w => match w with WSeq _ | WCptr _ => False | _ => True end) b.
Proof. intros H. eapply Forall_impl; [|exact H]. intros w; destruct w; cbn; auto. Qed.
Lemma thw_notop b : Forall thw b -> Forall (fun w => match w with WTop _ => False | _ => True end) b.
Proof. intros H. eapply Forall_impl; [|exact H]. intros w; destruct w; cbn; auto. Qed.
Lemma cachew_nobase b : Forall cachew b -> Forall (fun w => match w with WBase _ => False | _ => True end) b.
Proof. intros H. eapply Forall_impl; [|exact H]. intros w; destruct w; cbn; auto. Qed.
Lemma cachew_noptr b : Forall cachew b -> optrs b = [].
Proof. induction 1 as [|w b Hw F IH]; cbn [optrs]; auto. destruct w; cbn in Hw; try contradiction; auto. Qed.

(** with a lock-free owner buffer the logical base is the holder's view of base *)
Lemma Lq_base M ob hb : lfree ob -> base (Lq M ob hb) = base (apply_wrs M hb).
Proof.
  intros F. unfold Lq. rewrite (strip_nolock ob) by (apply lfree_nolock; auto).
  apply base_apply. apply lfree_nobase; auto.
Qed.
(** the logical top is the owner's view of top *)
Lemma Lq_top M ob hb : Forall thw hb -> top (Lq M ob hb) = top (apply_wrs M ob).
Proof.
  intros F. unfold Lq.
  destruct (meq_strip ob (apply_wrs M hb)) as (E & _). rewrite <- E.
  assert (G : forall b m1 m2, top m1 = top m2 -> top (apply_wrs m1 b) = top (apply_wrs m2 b)).
  { induction b as [|w b IH]; intros m1 m2 H; cbn [apply_wrs fold_left]; auto.
    apply IH. destruct w; cbn; auto. }
  apply G. apply top_apply. apply thw_notop; auto.
Qed.

Lemma T_holder_flush M sz o ob om h w r hm np P R :
  TCore M sz o ob om h (w :: r) hm np P R ->
  TCore (apply_wr M w) sz o ob om h r hm np P R.
Proof.
  intros T.
  assert (Hh : holds_t h = true).
  { destruct (holds_t h) eqn:E; auto. pose proof (hshape_nohold _ _ _ E (tc_hsh _ _ _ _ _ _ _ _ _ _ _ T)). discriminate. }
  destruct (TCore_thief_holds _ _ _ _ _ _ _ _ _ _ _ T Hh) as (Ho & -> & L1 & Fo).
  tc_open T.
  assert (Hthw : Forall thw (w :: r)) by (eapply hshape_thw; eauto).
  inversion Hthw as [|? ? Hw Fr]; subst.
  destruct (thw_fields w M Hw) as [Et Ek].
  assert (EL : Lmem (apply_wr M w) ob r o h = Lmem M ob (w :: r) o h) by reflexivity.
  assert (E : Lq (apply_wr M w) ob r = Lq M ob (w :: r)) by reflexivity.
  assert (Hs : hshape (apply_wr M w) h r /\ LB M ob (w :: r) h <= base (apply_wr M w)).
  { specialize (TBASE Ho). unfold LB in *. rewrite Lq_base in * by auto.
    destruct h; cbn [hshape holds_t hc b2z] in *; try discriminate.
    - destruct THS as [THS|[THS Eb]]; [discriminate|]. inversion THS; subst. split; [left; auto|]. cbn. lia.
    - inversion THS as [|? ? Hc Fc]; subst. split; auto.
      destruct w; cbn in Hc; try contradiction; cbn [apply_wr base]; auto.
    - destruct THS as (cs & tl & Ecs & Fc & Htl). destruct cs as [|c cs].
      + cbn [app] in Ecs. destruct Htl as [->|[(v & -> & Ev)|(j & x & -> & Ej)]]; try discriminate;
          inversion Ecs as [[Ew Er]]; subst w r.
        * split; [exists [], []; repeat split; auto|]. cbn. lia.
        * split; [exists [], [WBase j]; repeat split; auto; right; left; eexists; split; eauto|].
          cbn [apply_wr base apply_wrs fold_left] in *. lia.
      + inversion Ecs; subst. inversion Fc as [|? ? Hc Fc']; subst.
        assert (Eb : base (apply_wr M c) = base M) by (destruct c; cbn in Hc; try contradiction; auto).
        split; [exists cs, tl; rewrite Eb; repeat split; auto|]. rewrite Eb. auto.
    - destruct THS as [THS|THS]; [discriminate|]. inversion THS; subst. split; [left; auto|]. cbn [apply_wr base]. auto.
    - destruct THS as (cs & tl & Ecs & Fc & Htl). destruct cs as [|c cs].
      + cbn [app] in Ecs. destruct Htl as [->|[(v & -> & Ev)|(j & x & -> & Ej)]]; try discriminate;
          inversion Ecs as [[Ew Er]]; subst w r.
        * split; [exists [], []; repeat split; auto|]. cbn. lia.
        * split; [exists [], [WBase j]; repeat split; auto; right; left; eexists; split; eauto|].
          cbn [apply_wr base apply_wrs fold_left] in *. lia.
      + inversion Ecs; subst. inversion Fc as [|? ? Hc Fc']; subst.
        assert (Eb : base (apply_wr M c) = base M) by (destruct c; cbn in Hc; try contradiction; auto).
        split; [exists cs, tl; rewrite Eb; repeat split; auto|]. rewrite Eb. auto. }
  destruct Hs as [Hs Hb].
  constructor; unfold LT, LB in *; rewrite ?EL, ?E, ?Et, ?Ek; auto.
  - destruct w; cbn [optrs] in THPTR; auto. inversion THPTR; auto.
  - intros _ i j Hi Hj. apply (TDISJ Ho); auto. destruct w; cbn [optrs]; auto. right; auto.
Qed.

Lemma T_other_flush M sz o ob om h hb hm np P R :
  TCore M sz o ob om h hb hm np P R -> 1 <= np ->
  TCore (apply_wr M (WLock 0)) sz o ob om h hb hm (np - 1) P R.
Proof.
  intros T Hn. tc_open T. destruct TL as (L1 & L2 & L3). pose proof (wlocks_nonneg ob).
  assert (K0 : lkof o h = 0) by (unfold lkof in *; destruct (b2z_01 (holds_o o)), (b2z_01 (holds_t h)); lia).
  assert (ME : meq (Lq (apply_wr M (WLock 0)) ob hb) (Lq M ob hb)).
  { unfold Lq. apply meq_apply_wrs. apply meq_apply_wrs. apply meq_wlock. }
  destruct ME as (E1 & E2 & E3 & E4 & E5).
  constructor; unfold LT, LB in *; rewrite ?E1, ?E2; auto.
  - eapply Core_meq; [| | |exact TC].
    + eapply meq_trans; [apply Lmem_meq|]. eapply meq_trans; [|apply meq_sym; apply Lmem_meq].
      apply meq_sym. unfold meq. auto.
    + reflexivity.
    + cbn. rewrite K0. auto.
  - cbn [apply_wr lck]. lia.
Qed.
