(** C02 - TSO invariant: the program steps of the thief inside its critical section, the
    acquisition of the lock, and the moves of the thieves outside. *)
From Coq Require Import ZArith List Lia Bool.
From MT Require Import Lib.Interleave Wsq.WsqModel Wsq.WsqLists Wsq.WsqInv Wsq.WsqProofs
                       Wsq.TsoModel Wsq.TsoLock Wsq.TsoInv Wsq.TsoOwner.
Import ListNotations.
Local Open Scope list_scope.
Local Open Scope Z_scope.

Lemma Lmem_thief_irrel M ob hb o h h' : holds_t h' = holds_t h -> Lmem M ob hb o h' = Lmem M ob hb o h.
Proof. intros H. unfold Lmem, lkof. rewrite H. reflexivity. Qed.

(** what the holder's view and the logical memory agree on (the owner's buffer is lock-free) *)
Lemma hview_base M ob hb : lfree ob -> base (Lq M ob hb) = base (view M hb).
Proof. apply Lq_base. Qed.
Lemma hview_cache M ob hb : lfree ob ->
  wseq (Lq M ob hb) = wseq (view M hb) /\ wptr (Lq M ob hb) = wptr (view M hb).
Proof.
  intros F. unfold Lq. rewrite (strip_nolock ob) by (apply lfree_nolock; auto).
  apply cache_apply. apply lfree_nocache; auto.
Qed.
Lemma hview_ptr M ob hb k : lfree ob -> 0 <= k -> Forall (fun i => i <> k) (optrs ob) ->
  znth (ptr (Lq M ob hb)) k = znth (ptr (view M hb)) k.
Proof.
  intros F Hk P. unfold Lq. rewrite (strip_nolock ob) by (apply lfree_nolock; auto).
  apply znth_apply; auto. apply lfree_ptr_ok; auto.
Qed.

Lemma thw_indep_lf w x : thw w -> lf x -> (forall j a i b, w = WPtr j a -> x = WPtr i b -> j <> i) -> indep w x.
Proof.
  destruct w, x; cbn; intros Hw Hx H; try contradiction; auto. eapply H; eauto.
Qed.

(** a step of the holder that stores nothing and changes neither B nor its lock status *)
Lemma T_holder_pure M sz o ob om h hb hm hm' np P R h' P' R' :
  TCore M sz o ob om h hb hm np P R ->
  Core (Lmem M ob hb o h') sz o h' P' R' ->
  holds_t h = true -> holds_t h' = true -> hc h' = hc h ->
  hshape M h' hb -> (forall m b, h' = TReadTop m b -> hm' = true) ->
  TCore M sz o ob om h' hb hm' np P' R'.
Proof.
  intros T C Hh Hh' Hc S N. tc_open T.
  constructor; auto; unfold LT, LB, lkof in *; rewrite ?Hh', ?Hc in *; rewrite ?Hh in *; auto.
Qed.

(** the holder buffers one store [w] of its critical section *)
Lemma T_holder_append M sz o ob om h hb hm hm' np P R h' w P' R' :
  TCore M sz o ob om h hb hm np P R ->
  holds_t h = true -> holds_t h' = true -> thw w ->
  Core (apply_wr (Lmem M ob hb o h) w) sz o h' P' R' ->
  hshape M h' (hb ++ [w]) -> (forall m b, h' = TReadTop m b -> hm' = true) ->
  base (apply_wr (Lq M ob hb) w) - b2z (hc h') <= LB M ob hb h ->
  Forall (fun j => j <= base (apply_wr (Lq M ob hb) w) - b2z (hc h')) (optrs (hb ++ [w])) ->
  (forall j x, w = WPtr j x -> j < LT M ob hb o /\ Forall (fun i => j < i) (optrs ob)) ->
  TCore M sz o ob om h' (hb ++ [w]) hm' np P' R'.
Proof.
  intros T Hh Hh' Hw C S N HB HP HN.
  destruct (TCore_thief_holds _ _ _ _ _ _ _ _ _ _ _ T Hh) as (Ho & -> & L1 & Fo).
  tc_open T.
  assert (Hi : Forall (indep w) (strip ob)).
  { rewrite (strip_nolock ob) by (apply lfree_nolock; auto).
    rewrite Forall_forall. intros x Hx. unfold lfree in Fo. rewrite Forall_forall in Fo.
    apply thw_indep_lf; auto. intros j a i b -> ->.
    destruct (HN _ _ eq_refl) as [_ F]. rewrite Forall_forall in F. specialize (F i (In_optrs _ _ _ Hx)). lia. }
  assert (E : Lq M ob (hb ++ [w]) = apply_wr (Lq M ob hb) w) by (apply Lq_holder_app; auto).
  assert (Et : top (apply_wr (Lq M ob hb) w) = top (Lq M ob hb)) by (destruct w; cbn in *; auto; contradiction).
  assert (K : lkof o h' = lkof o h) by (unfold lkof; rewrite Hh, Hh'; reflexivity).
  assert (K1 : lkof o h = 1) by (unfold lkof; rewrite Ho, Hh; reflexivity).
  constructor; unfold LT, LB in *; rewrite ?E, ?Et; auto.
  - eapply Core_to_Lmem; [| rewrite K, K1; auto |exact C]. rewrite E. apply meq_apply_wr. apply Lmem_meq.
  - rewrite K. exact TL.
  - intros _. specialize (TBASE Ho). lia.
  - intros _. specialize (TLIVE Ho). eapply Forall_impl; [|exact TLIVE]. cbn beta. intros; lia.
  - rewrite optrs_app in *. apply Forall_app in HP. destruct HP as [HP1 HP2].
    apply Forall_app. split.
    + rewrite Forall_forall in *. intros j Hj. split; [apply HP1; auto|]. destruct (THPTR j Hj); auto.
    + destruct w; cbn [optrs] in *; auto. inversion HP2; subst. constructor; auto.
      split; auto. destruct (HN _ _ eq_refl); auto.
  - intros _ i j Hi' Hj. rewrite optrs_app in Hj. apply in_app_or in Hj. destruct Hj as [Hj|Hj].
    + apply (TDISJ Ho); auto.
    + destruct w; cbn [optrs In] in Hj; try contradiction. destruct Hj as [<-|[]].
      destruct (HN _ _ eq_refl) as [_ F]. rewrite Forall_forall in F. apply F; auto.
Qed.

(** take's decision on a possibly stale value [tr] of top: claiming needs [tr <= T] only *)
Lemma Core_readtop_claim m sz o md b P R tr :
  Core m sz o (TReadTop md b) P R -> b < tr -> tr <= Tq m o -> Core m sz o (TSlot md b) P R.
Proof.
  intros C H1 H2.
  destruct (thief_holds_excl _ _ _ _ _ _ C eq_refl) as [Ho Hl].
  core_open_t C. core_goal_t; fin_o Ho C7.
  intro y. rewrite (C4 y). rewrite (zseg_cons (ptr m) (base m - 1)) by lia.
  replace (base m - 1 + 1) with (base m - 0) by lia. replace (base m - 1) with b by lia.
  occ_norm. lia.
Qed.
Lemma Core_readtop_fail m sz o md b P R :
  Core m sz o (TReadTop md b) P R -> Core m sz o (TRollback md b) P R.
Proof.
  intros C. destruct (thief_holds_excl _ _ _ _ _ _ C eq_refl) as [Ho Hl].
  core_open_t C. core_goal_t; fin_o Ho C7.
Qed.

Lemma Lq_holder_apps M ob hb ws : Forall cachew ws -> lfree ob ->
  Lq M ob (hb ++ ws) = apply_wrs (Lq M ob hb) ws.
Proof.
  intros Fc Fo. revert hb. induction ws as [|w ws IH]; intros hb.
  - rewrite app_nil_r. reflexivity.
  - inversion Fc as [|? ? Hw Fw]; subst.
    replace (hb ++ w :: ws) with ((hb ++ [w]) ++ ws) by (rewrite <- app_assoc; reflexivity).
    rewrite IH by auto. rewrite Lq_holder_app; [reflexivity|].
    rewrite (strip_nolock ob) by (apply lfree_nolock; auto).
    eapply Forall_impl; [|exact Fo]. intros x Hx. destruct w, x; cbn in *; auto; contradiction.
Qed.

Lemma cache_fields ws : Forall cachew ws -> forall m,
  top (apply_wrs m ws) = top m /\ base (apply_wrs m ws) = base m.
Proof.
  induction 1 as [|w ws Hw F IH]; intros m; cbn [apply_wrs fold_left]; auto.
  fold (apply_wrs (apply_wr m w) ws). destruct (IH (apply_wr m w)) as [I1 I2]. rewrite I1, I2.
  destruct w; cbn in *; auto; contradiction.
Qed.

(** the step after the slot read: cache stores only; B stays or (declined / peeked) drops by one *)
Lemma T_holder_slot M sz o ob om h hm hm' np P R h' ws P' R' :
  TCore M sz o ob om h [] hm np P R -> holds_t h = true -> hc h = false ->
  holds_t h' = true -> Forall cachew ws ->
  Core (apply_wrs (Lmem M ob [] o h) ws) sz o h' P' R' ->
  hshape M h' ws -> (forall m x, h' <> TReadTop m x) ->
  TCore M sz o ob om h' ws hm' np P' R'.
Proof.
  intros T Hh Hch Hh' Fc C S N.
  destruct (TCore_thief_holds _ _ _ _ _ _ _ _ _ _ _ T Hh) as (Ho & -> & L1 & Fo).
  tc_open T.
  assert (E : Lq M ob ws = apply_wrs (Lq M ob []) ws) by (apply (Lq_holder_apps M ob [] ws); auto).
  destruct (cache_fields ws Fc (Lq M ob [])) as [Et Eb].
  assert (K : lkof o h' = 1) by (unfold lkof; rewrite Ho, Hh'; reflexivity).
  assert (Hc : 0 <= b2z (hc h')) by (destruct (hc h'); cbn; lia).
  constructor; unfold LT, LB in *; rewrite ?E, ?Et, ?Eb; rewrite ?Hch in *; cbn [b2z] in *; auto.
  - eapply Core_to_Lmem; [| rewrite K; auto |exact C]. rewrite E. apply meq_apply_wrs. apply Lmem_meq.
  - unfold lkof in *. rewrite Ho, Hh' in *. rewrite Hh in TL. exact TL.
  - intros m x Hx. exfalso. eapply N; eauto.
  - intros _. specialize (TBASE Ho). lia.
  - intros _. specialize (TLIVE Ho). eapply Forall_impl; [|exact TLIVE]. cbn beta. intros; lia.
  - rewrite (cachew_noptr ws) by auto. constructor.
  - intros _ i j _. rewrite (cachew_noptr ws) by auto. intros [].
Qed.

(** the unlock of a thief: its buffer is drained, the unlock store is buffered *)
Lemma T_holder_unlock M sz o ob om h hm hm' np P R h' P' R' :
  TCore M sz o ob om h [] hm np P R -> holds_t h = true -> holds_t h' = false -> hc h = false ->
  Core (apply_wrs (Lmem M ob [] o h) [WLock 0]) sz o h' P' R' ->
  TCore M sz o ob om h' [] hm' (np + 1) P' R'.
Proof.
  intros T Hh Hh' Hc C.
  destruct (TCore_thief_holds _ _ _ _ _ _ _ _ _ _ _ T Hh) as (Ho & -> & L1 & Fo).
  tc_open T.
  assert (K : lkof o h' = 0) by (unfold lkof; rewrite Ho, Hh'; reflexivity).
  constructor; unfold LT, LB in *; rewrite ?(nh_hc _ Hh'); rewrite ?Hc in *; auto.
  - eapply Core_to_Lmem; [| rewrite K; auto |exact C].
    eapply meq_trans; [apply meq_apply_wrs; apply Lmem_meq|]. cbn. apply meq_wlock.
  - unfold lkof in *. rewrite Ho, Hh, Hh' in *. cbn [b2z] in *. lia.
  - apply hshape_nil; auto.
  - intros m b ->. discriminate.
Qed.

(** ** Every program step of the thief inside its critical section *)
Theorem T_holder_tick t M sz o ob om h hb hm np P R ws h' g :
  fence_table_ok t = true ->
  TCore M sz o ob om h hb hm np P R -> holds_t h = true ->
  ((hm || thief_rmw h || is_full (tfence_before t h)) && negb (isnil hb)) = false ->
  thief_tick (view M hb) h = Some (ws, h', g) ->
  (holds_t h' = true /\
   TCore M sz o ob om h' (hb ++ ws) (is_full (tfence_after t h h')) np
         (ghost_pushed g P) (ghost_returned g R)) \/
  (holds_t h' = false /\ hb = [] /\ ws = [WLock 0] /\
   forall hm', TCore M sz o ob om h' [] hm' (np + 1) (ghost_pushed g P) (ghost_returned g R)).
Proof.
  intros OK T Hh G E. destruct (ok_parts t OK) as (_ & FT & FU).
  destruct (TCore_thief_holds _ _ _ _ _ _ _ _ _ _ _ T Hh) as (Ho & Hnp & L1 & Fo).
  pose proof (tc_core _ _ _ _ _ _ _ _ _ _ _ T) as TC.
  pose proof (tc_hsh _ _ _ _ _ _ _ _ _ _ _ T) as THS.
  pose proof (hview_base M ob hb Fo) as Lb.
  destruct (hview_cache M ob hb Fo) as [Ls Lp].
  pose proof (c_thf _ _ _ _ _ _ TC) as Tv. pose proof (c_bnd _ _ _ _ _ _ TC) as Bd.
  rewrite Tq_Lmem, Bq_Lmem in Bd. unfold LT, LB in Bd.
  destruct h; cbn [holds_t] in Hh; try discriminate; cbn [thief_tick] in E; cbn [hshape] in THS; cbn [tinv] in Tv.
  - (* TReadBase *)
    subst hb. left. inversion E; subst; clear E. split; [reflexivity|]. cbn [app].
    assert (EL : thief_tick (Lmem M ob [] o (TReadBase m)) (TReadBase m) =
                 Some ([], TWriteBase m (base (view M [])), GNone)) by (cbn [thief_tick]; cbn [Lmem setlck base]; rewrite Lb; reflexivity).
    pose proof (thief_core_step _ _ _ _ _ _ _ _ _ TC EL) as C'.
    eapply T_holder_pure; [exact T| | | | | |]; auto; try reflexivity; try (intros; discriminate).
  - (* TWriteBase *)
    subst hb. left. inversion E; subst; clear E. split; [reflexivity|].
    assert (EL : thief_tick (Lmem M ob [] o (TWriteBase m b)) (TWriteBase m b) =
                 Some ([WBase (b + 1)], TReadTop m b, GNone)) by reflexivity.
    pose proof (thief_core_step _ _ _ _ _ _ _ _ _ TC EL) as C'.
    change (base (Lmem M ob [] o (TWriteBase m b))) with (base (Lq M ob [])) in Tv. rewrite Lb in Tv.
    eapply T_holder_append; [exact T| | | |exact C'| | | | |]; auto; try reflexivity;
      cbn [thw apply_wr base hc b2z optrs app]; auto; try (intros; discriminate).
    + right. split; auto.
    + unfold LB. cbn [hc b2z]. rewrite Lb. cbn [view apply_wrs fold_left]. cbn [view apply_wrs fold_left] in Tv. lia.
  - (* TReadTop: the racy read of top *)
    assert (Ehm : hm = true) by (eapply (tc_hm _ _ _ _ _ _ _ _ _ _ _ T); reflexivity).
    assert (Eb : hb = []) by (eapply guard_drained; [exact G|]; left; exact Ehm).
    subst hb. cbn [view apply_wrs fold_left] in *. left. cbn [app].
    pose proof (tc_tops _ _ _ _ _ _ _ _ _ _ _ T Ho) as TT. pose proof (omax_ge ob (top M)) as OG.
    destruct (Z.ltb_spec b (top M)) as [Hc|Hc]; inversion E; subst; clear E; (split; [reflexivity|]).
    + assert (C' : Core (Lmem M ob [] o (TReadTop m b)) sz o (TSlot m b) P R).
      { eapply Core_readtop_claim; [exact TC|exact Hc|]. rewrite Tq_Lmem. lia. }
      change (base (Lmem M ob [] o (TReadTop m b))) with (base (Lq M ob [])) in Tv. rewrite Lb in Tv.
      cbn [view apply_wrs fold_left] in Tv.
      pose proof (tc_pord _ _ _ _ _ _ _ _ _ _ _ T Ho) as PO. apply pord_ptrs in PO.
      clear TC THS. tc_open T.
      constructor; auto; unfold LT, LB in *; cbn [hc b2z optrs] in *; auto; try (intros; discriminate).
      * reflexivity.
      * intros _. rewrite Lb. cbn [view apply_wrs fold_left]. lia.
      * intros _. rewrite Lb. cbn [view apply_wrs fold_left]. eapply Forall_impl; [|exact PO]. cbn beta. intros; lia.
    + pose proof (Core_readtop_fail _ _ _ _ _ _ _ TC) as C'.
      eapply T_holder_pure; [exact T| | | | | |]; auto; try reflexivity; try (intros; discriminate).
      cbn. constructor.
  - (* TSlot *)
    subst hb. cbn [view apply_wrs fold_left] in *. destruct Tv as [Tv Tb].
    change (base (Lmem M ob [] o (TSlot m b))) with (base (Lq M ob [])) in Tv.
    pose proof (tc_live _ _ _ _ _ _ _ _ _ _ _ T Ho) as LV. unfold LB in LV. cbn [hc b2z] in LV.
    assert (Ep : znth (ptr (Lq M ob [])) b = znth (ptr M) b).
    { rewrite (hview_ptr M ob [] b); auto. eapply Forall_impl; [|exact LV]. cbn beta. intros; lia. }
    cbn [view apply_wrs fold_left] in Ls.
    assert (EL : thief_tick (Lmem M ob [] o (TSlot m b)) (TSlot m b) = Some (ws, h', g)).
    { cbn [thief_tick Lmem setlck ptr]. unfold invalidate.
      change (wseq (Lmem M ob [] o (TSlot m b))) with (wseq (Lq M ob [])). rewrite Ep, Ls. exact E. }
    pose proof (thief_core_step _ _ _ _ _ _ _ _ _ TC EL) as C'.
    left. cbn [app].
    destruct m as [|d|]; inversion E; subst; clear E; (split; [reflexivity|]).
    + eapply T_holder_slot; [exact T| | | | |exact C'| |]; auto; try reflexivity; try (intros; discriminate).
      cbn [hshape]. exists [], []. repeat split; auto.
    + eapply T_holder_pure; [exact T| | | | | |]; auto; try reflexivity; try (intros; discriminate).
    + eapply T_holder_slot; [exact T| | | | |exact C'| |]; auto; try reflexivity; try (intros; discriminate).
      * repeat constructor.
      * cbn [hshape]. repeat constructor.
  - (* TDecide *)
    subst hb. cbn [view apply_wrs fold_left] in *. destruct Tv as [Tv Tb].
    change (base (Lmem M ob [] o (TDecide d b))) with (base (Lq M ob [])) in Tv.
    pose proof (tc_live _ _ _ _ _ _ _ _ _ _ _ T Ho) as LV. unfold LB in LV. cbn [hc b2z] in LV.
    assert (Ep : znth (ptr (Lq M ob [])) b = znth (ptr M) b).
    { rewrite (hview_ptr M ob [] b); auto. eapply Forall_impl; [|exact LV]. cbn beta. intros; lia. }
    cbn [view apply_wrs fold_left] in Ls.
    assert (EL : thief_tick (Lmem M ob [] o (TDecide d b)) (TDecide d b) = Some (ws, h', g)).
    { cbn [thief_tick Lmem setlck ptr]. unfold invalidate.
      change (wseq (Lmem M ob [] o (TDecide d b))) with (wseq (Lq M ob [])). rewrite Ep, Ls. exact E. }
    pose proof (thief_core_step _ _ _ _ _ _ _ _ _ TC EL) as C'.
    left. cbn [app].
    destruct d; inversion E; subst; clear E; (split; [reflexivity|]);
      (eapply T_holder_slot; [exact T| | | | |exact C'| |]; auto; try reflexivity; try (intros; discriminate));
      unfold invalidate; cbn [hshape]; repeat constructor.
    exists [WSeq (wseq M + 1); WCptr 0; WSeq (wseq M + 2)], []. rewrite app_nil_r. repeat split; auto.
    repeat constructor.
  - (* TRollback *)
    left. inversion E; subst; clear E.
    change (base (Lmem M ob hb o (TRollback m b))) with (base (Lq M ob hb)) in Tv. rewrite Lb in Tv.
    assert (EbM : base (view M hb) = base M) by (unfold view; apply base_apply; apply cachew_nobase; auto).
    assert (EL : thief_tick (Lmem M ob hb o (TRollback m b)) (TRollback m b) =
                 Some ([WBase b], match m with MP => TUnlockP | _ => TUnlock 0 end, GNone)) by reflexivity.
    pose proof (thief_core_step _ _ _ _ _ _ _ _ _ TC EL) as C'.
    split; [destruct m; reflexivity|].
    eapply T_holder_append; [exact T| | | |exact C'| | | | |]; auto; try (destruct m; reflexivity);
      cbn [thw apply_wr base]; auto; try (intros; discriminate).
    + assert (U : ushape M (hb ++ [WBase b])).
      { exists hb, [WBase b]. repeat split; auto. right. left. exists b. split; auto. lia. }
      destruct m; cbn [hshape]; exact U.
    + intros m0 x Hx. destruct m; discriminate.
    + unfold LB. cbn [hc b2z]. rewrite Lb. replace (b2z (hc match m with MP => TUnlockP | _ => TUnlock 0 end)) with 0 by (destruct m; reflexivity). lia.
    + rewrite optrs_app, (cachew_noptr hb) by auto. cbn. constructor.
  - (* TUnlock *)
    assert (Eb : hb = []) by (eapply guard_drained; [exact G|]; right; right; cbn [tfence_before]; exact FU).
    subst hb. right. inversion E; subst; clear E. split; [reflexivity|]. split; auto. split; auto. intros hm'.
    assert (EL : thief_tick (Lmem M ob [] o (TUnlock r)) (TUnlock r) = Some ([WLock 0], TDone r, GNone)) by reflexivity.
    pose proof (thief_core_step _ _ _ _ _ _ _ _ _ TC EL) as C'.
    eapply T_holder_unlock; [exact T| | | |exact C']; reflexivity.
  - (* TPassCheck *)
    subst hb. left. cbn [view apply_wrs fold_left] in *. cbn [app].
    assert (EL : thief_tick (Lmem M ob [] o (TPassCheck x)) (TPassCheck x) = Some (ws, h', g))
      by (cbn [thief_tick]; cbn [Lmem setlck base]; rewrite Lb; exact E).
    pose proof (thief_core_step _ _ _ _ _ _ _ _ _ TC EL) as C'.
    destruct (base M =? 0); inversion E; subst; clear E; (split; [reflexivity|]);
      (eapply T_holder_pure; [exact T| | | | | |]; auto; try reflexivity; try (intros; discriminate)).
    cbn. exists [], []. repeat split; auto.
  - (* TPassSlot *)
    subst hb. left. inversion E; subst; clear E. split; [reflexivity|]. destruct Tv as [Tv Tb].
    change (base (Lmem M ob [] o (TPassSlot x b))) with (base (Lq M ob [])) in Tv. rewrite Lb in Tv.
    cbn [view apply_wrs fold_left] in Tv.
    assert (EL : thief_tick (Lmem M ob [] o (TPassSlot x b)) (TPassSlot x b) =
                 Some ([WPtr (b - 1) x], TPassBase x, GNone)) by reflexivity.
    pose proof (thief_core_step _ _ _ _ _ _ _ _ _ TC EL) as C'.
    pose proof (tc_live _ _ _ _ _ _ _ _ _ _ _ T Ho) as LV. unfold LB in LV. cbn [hc b2z] in LV.
    rewrite Lb in LV. cbn [view apply_wrs fold_left] in LV.
    cbn [hc b2z] in Bd. rewrite Lb in Bd. cbn [view apply_wrs fold_left] in Bd.
    eapply T_holder_append; [exact T| | | |exact C'| | | | |]; auto; try reflexivity;
      cbn [thw apply_wr base hc b2z optrs app]; auto; try (intros; discriminate).
    + right. rewrite Tv. reflexivity.
    + constructor; auto. rewrite Lb. cbn [view apply_wrs fold_left]. lia.
    + intros j y Ej. inversion Ej; subst j y. split.
      * unfold LT. lia.
      * eapply Forall_impl; [|exact LV]. cbn beta. intros; lia.
  - (* TPassBase *)
    left. destruct Tv as [Tb Tp].
    change (base (Lmem M ob hb o (TPassBase x))) with (base (Lq M ob hb)) in *. rewrite Lb in Tb.
    assert (EbM : base (view M hb) = base M).
    { unfold view. apply base_apply. destruct THS as [->| ->]; repeat constructor. }
    assert (EL : thief_tick (Lmem M ob hb o (TPassBase x)) (TPassBase x) = Some (ws, h', g))
      by (cbn [thief_tick]; cbn [Lmem setlck base]; rewrite Lb; exact E).
    pose proof (thief_core_step _ _ _ _ _ _ _ _ _ TC EL) as C'.
    inversion E; subst; clear E. split; [reflexivity|].
    eapply T_holder_append; [exact T| | | |exact C'| | | | |]; auto; try reflexivity;
      cbn [thw apply_wr base hc b2z]; auto; try (intros; discriminate).
    + cbn [hshape]. rewrite EbM. destruct THS as [->| ->]; cbn [app].
      * exists [], [WBase (base M - 1)]. repeat split; auto. right. left. eexists; split; eauto.
      * exists [], [WPtr (base M - 1) x; WBase (base M - 1)]. repeat split; auto. right. right. do 2 eexists; split; eauto.
    + unfold LB. cbn [hc b2z]. rewrite Lb. lia.
    + rewrite EbM. destruct THS as [->| ->]; cbn [app optrs]; repeat constructor. lia.
  - (* TPeekCheck *)
    subst hb. left. cbn [view apply_wrs fold_left] in *. cbn [app].
    assert (EL : thief_tick (Lmem M ob [] o TPeekCheck) TPeekCheck = Some (ws, h', g))
      by (cbn [thief_tick]; cbn [Lmem setlck wptr]; rewrite Lp; exact E).
    pose proof (thief_core_step _ _ _ _ _ _ _ _ _ TC EL) as C'.
    destruct (wptr M =? 0); inversion E; subst; clear E; (split; [reflexivity|]);
      (eapply T_holder_pure; [exact T| | | | | |]; auto; try reflexivity; try (intros; discriminate)).
    cbn. exists [], []. repeat split; auto.
  - (* TUnlockP *)
    assert (Eb : hb = []) by (eapply guard_drained; [exact G|]; right; right; cbn [tfence_before]; exact FU).
    subst hb. right. inversion E; subst; clear E. split; [reflexivity|]. split; auto. split; auto. intros hm'.
    assert (EL : thief_tick (Lmem M ob [] o TUnlockP) TUnlockP = Some ([WLock 0], TPeekSeq, GNone)) by reflexivity.
    pose proof (thief_core_step _ _ _ _ _ _ _ _ _ TC EL) as C'.
    eapply T_holder_unlock; [exact T| | | |exact C']; reflexivity.
Qed.

(** ** Acquisition of the lock by a thief (CAS on memory, drained buffer) *)
Lemma thief_tick_rmw_lck v1 v2 p : thief_rmw p = true -> lck v1 = 0 -> lck v2 = 0 ->
  thief_tick v1 p = thief_tick v2 p.
Proof.
  intros Hr L1 L2. destruct p; cbn in Hr; try discriminate; cbn [thief_tick]; rewrite L1, L2; reflexivity.
Qed.

Lemma T_acquire M sz o ob om h hb hm hm' np P R p ws p' g :
  TCore M sz o ob om h hb hm np P R ->
  holds_t p = false -> holds_t p' = true ->
  thief_tick M p = Some (ws, p', g) ->
  TCore (apply_wrs M ws) sz o ob om p' [] hm' np (ghost_pushed g P) (ghost_returned g R).
Proof.
  intros T Hp Hp' E.
  pose proof (thief_tick_acquire _ _ _ _ _ E Hp Hp') as L0.
  pose proof (thief_tick_lock _ _ _ _ _ E) as LE. unfold lock_effect in LE.
  assert (Er : thief_rmw p = true).
  { destruct (thief_rmw p) eqn:Er; auto. rewrite Hp, Hp' in LE. cbn [b2z] in LE. lia. }
  rewrite Er in LE. destruct LE as [(_ & -> & _ & _)|(_ & _ & Hx)]; [|congruence].
  assert (Gn : g = GNone).
  { destruct p; cbn in Er; try discriminate; cbn [thief_tick] in E; rewrite L0 in E; cbn in E; inversion E; auto. }
  subst g. cbn [ghost_pushed ghost_returned].
  tc_open T. destruct TL as (K1 & K2 & K3). pose proof (wlocks_nonneg ob) as Wn.
  assert (K0 : lkof o h = 0 /\ wlocks ob = 0 /\ np = 0).
  { unfold lkof in *. destruct (b2z_01 (holds_o o)), (b2z_01 (holds_t h)); lia. }
  destruct K0 as (K0 & W0 & ->).
  assert (Ho : holds_o o = false) by (unfold lkof in K0; destruct (holds_o o), (holds_t h); cbn in *; auto; lia).
  assert (Hh : holds_t h = false) by (unfold lkof in K0; destruct (holds_o o), (holds_t h); cbn in *; auto; lia).
  pose proof (hshape_nohold _ _ _ Hh THS) as ->.
  assert (C0 : Core (Lmem M ob [] o p) sz o p P R).
  { rewrite (Lmem_thief_irrel M ob [] o h p) by congruence. eapply Core_nohold_irrel; eauto. }
  assert (EL : thief_tick (Lmem M ob [] o p) p = Some ([WLock 1], p', GNone)).
  { rewrite <- E. apply thief_tick_rmw_lck; auto. cbn. unfold lkof. rewrite Ho, Hp. reflexivity. }
  pose proof (thief_core_step _ _ _ _ _ _ _ _ _ C0 EL) as C'.
  assert (K : lkof o p' = 1) by (unfold lkof; rewrite Ho, Hp'; reflexivity).
  assert (Hcp : hc p' = false).
  { destruct p; cbn in Er; try discriminate; cbn [thief_tick] in E; rewrite L0 in E; cbn in E; inversion E; subst;
      try reflexivity. destruct m; reflexivity. }
  assert (Sp : hshape (apply_wrs M [WLock 1]) p' []).
  { destruct p; cbn in Er; try discriminate; cbn [thief_tick] in E; rewrite L0 in E; cbn in E; inversion E; subst;
      try reflexivity. destruct m; reflexivity. }
  assert (Np : forall m b, p' <> TReadTop m b).
  { intros m b ->. cbn in Hcp. discriminate. }
  assert (ME : meq (Lq (apply_wrs M [WLock 1]) ob []) (Lq M ob [])).
  { unfold Lq. apply meq_apply_wrs. cbn. apply meq_wlock. }
  destruct ME as (E1 & E2 & E3 & E4 & E5).
  constructor; unfold LT, LB in *; rewrite ?E1, ?E2, ?Hcp, ?(nh_hc _ Hh) in *; auto.
  - eapply Core_to_Lmem; [| rewrite K; auto |exact C'].
    eapply meq_trans; [apply meq_apply_wrs; apply Lmem_meq|].
    apply meq_sym. unfold meq. cbn. auto.
  - cbn [apply_wrs fold_left apply_wr lck]. rewrite K, W0. lia.
  - intros m b Hx. exfalso. eapply Np; eauto.
Qed.
