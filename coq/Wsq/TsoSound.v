(** C02 - soundness of the accepted fence placements: under x86-TSO (store buffers, any number
    of thieves, any capacity, any schedule including flushes) every reachable state satisfies
    the deque invariant on its LOGICAL memory (memory overridden by the buffered stores). *)
From Coq Require Import ZArith List Lia Bool Permutation.
From MT Require Import Lib.Interleave Wsq.WsqModel Wsq.WsqLists Wsq.WsqInv Wsq.WsqProofs
                       Wsq.TsoModel Wsq.TsoLock Wsq.TsoInv Wsq.TsoOwner Wsq.TsoThief.
Import ListNotations.
Local Open Scope list_scope.
Local Open Scope Z_scope.

(** * Lists *)
Lemma nth_error_set_nthA_eq {A} (l : list A) : forall i x y,
  nth_error l i = Some y -> nth_error (set_nthA l i x) i = Some x.
Proof. induction l as [|h t IH]; intros [|i] x y H; cbn in *; try discriminate; auto. eapply IH; eauto. Qed.
Lemma nth_error_set_nthA_neq {A} (l : list A) : forall i j x,
  j <> i -> nth_error (set_nthA l i x) j = nth_error l j.
Proof. induction l as [|h t IH]; intros [|i] [|j] x H; cbn; auto; congruence. Qed.
Lemma nth_error_same_length {A B} (l : list A) (l' : list B) i x :
  length l' = length l -> nth_error l i = Some x -> exists y, nth_error l' i = Some y.
Proof.
  intros HL H. destruct (nth_error l' i) eqn:E; eauto.
  apply nth_error_None in E. assert (i < length l)%nat by (apply nth_error_Some; congruence). lia.
Qed.

(** * Representation of the thieves by the one that may hold the lock *)
Definition onlyunlock (b : list wr) : Prop := Forall (fun w => w = WLock 0) b.

Definition others_out (thv : list tpc) (tbufs : list (list wr)) (skip : option nat) : Prop :=
  forall j pc buf, Some j <> skip -> nth_error thv j = Some pc -> nth_error tbufs j = Some buf ->
                   holds_t pc = false /\ onlyunlock buf.

Definition TRep (thv : list tpc) (tbufs : list (list wr)) (tmarks : list bool)
                (h : tpc) (hb : list wr) (hm : bool) : Prop :=
  length tbufs = length thv /\ length tmarks = length thv /\
  ((holds_t h = false /\ hb = [] /\ others_out thv tbufs None) \/
   (exists i, nth_error thv i = Some h /\ nth_error tbufs i = Some hb /\ nth_error tmarks i = Some hm /\
              holds_t h = true /\ others_out thv tbufs (Some i))).

Definition TInv (s : tstate) : Prop :=
  exists h hb hm,
    TCore (mm (sc s)) (qsize (sc s)) (own (sc s)) (obuf s) (omark s) h hb hm (sumw (tbufs s))
          (pushed (sc s)) (returned (sc s)) /\
    TRep (thv (sc s)) (tbufs s) (tmarks s) h hb hm.

(** the thief at index [i] holds the lock: it is the representative *)
Lemma TRep_holder thv tbufs tmarks h hb hm i pc :
  TRep thv tbufs tmarks h hb hm -> nth_error thv i = Some pc -> holds_t pc = true ->
  h = pc /\ nth_error tbufs i = Some hb /\ nth_error tmarks i = Some hm /\ others_out thv tbufs (Some i).
Proof.
  intros (L1 & L2 & [(Hh & -> & O)|(j & Hj & Hb & Hm & Hh & O)]) Hi Hp.
  - destruct (nth_error_same_length thv tbufs i pc L1 Hi) as (buf & Eb).
    destruct (O i pc buf) as [X _]; auto; try discriminate. congruence.
  - destruct (Nat.eq_dec i j) as [->|Hne].
    + rewrite Hi in Hj. inversion Hj; subst. auto.
    + destruct (nth_error_same_length thv tbufs i pc L1 Hi) as (buf & Eb).
      destruct (O i pc buf) as [X _]; auto; congruence.
Qed.

(** the thief at index [i] is outside: its buffer holds at most unlock stores *)
Lemma TRep_outside thv tbufs tmarks h hb hm i pc buf :
  TRep thv tbufs tmarks h hb hm -> nth_error thv i = Some pc -> holds_t pc = false ->
  nth_error tbufs i = Some buf -> onlyunlock buf.
Proof.
  intros (L1 & L2 & [(Hh & -> & O)|(j & Hj & Hb & Hm & Hh & O)]) Hi Hp Eb.
  - destruct (O i pc buf); auto. discriminate.
  - destruct (Nat.eq_dec i j) as [->|Hne].
    + rewrite Hi in Hj. inversion Hj; subst. congruence.
    + destruct (O i pc buf); auto. congruence.
Qed.

(** a thief outside moves to another point outside; its buffer keeps its unlock stores *)
Lemma TRep_outside_move thv tbufs tmarks h hb hm i pc pc' buf buf' mk :
  TRep thv tbufs tmarks h hb hm -> nth_error thv i = Some pc -> holds_t pc = false ->
  nth_error tbufs i = Some buf -> holds_t pc' = false -> onlyunlock buf' ->
  TRep (set_nth thv i pc') (set_nthA tbufs i buf') (set_nthA tmarks i mk) h hb hm.
Proof.
  intros (L1 & L2 & R) Hi Hp Eb Hp' Ob.
  split; [rewrite set_nthA_length, set_nth_length; auto|]. split; [rewrite set_nthA_length, set_nth_length; auto|].
  assert (Omove : forall sk, others_out thv tbufs sk -> Some i <> sk ->
                             others_out (set_nth thv i pc') (set_nthA tbufs i buf') sk).
  { intros sk O Hs j pcj bufj Hj Ej Bj. destruct (Nat.eq_dec j i) as [->|Hne].
    - rewrite (nth_error_set_nth_eq _ _ _ _ Hi) in Ej. rewrite (nth_error_set_nthA_eq _ _ _ _ Eb) in Bj.
      inversion Ej; inversion Bj; subst. auto.
    - rewrite nth_error_set_nth_neq in Ej by auto. rewrite nth_error_set_nthA_neq in Bj by auto. eapply O; eauto. }
  destruct R as [(Hh & -> & O)|(j & Hj & Hb & Hm & Hh & O)].
  - left. split; auto. split; auto. apply Omove; auto. discriminate.
  - assert (Hne : i <> j) by (intros ->; rewrite Hi in Hj; inversion Hj; subst; congruence).
    right. exists j. rewrite nth_error_set_nth_neq, !nth_error_set_nthA_neq by auto.
    split; [auto|]. split; [auto|]. split; [auto|]. split; [auto|]. apply Omove; auto. congruence.
Qed.

(** the holder steps to another point inside *)
Lemma TRep_holder_move thv tbufs tmarks h hb hm i h' hb' hm' :
  nth_error thv i = Some h -> nth_error tbufs i = Some hb -> nth_error tmarks i = Some hm ->
  length tbufs = length thv -> length tmarks = length thv ->
  others_out thv tbufs (Some i) -> holds_t h' = true ->
  TRep (set_nth thv i h') (set_nthA tbufs i hb') (set_nthA tmarks i hm') h' hb' hm'.
Proof.
  intros Hi Hb Hm L1 L2 O Hh'.
  split; [rewrite set_nthA_length, set_nth_length; auto|]. split; [rewrite set_nthA_length, set_nth_length; auto|].
  right. exists i. rewrite (nth_error_set_nth_eq _ _ _ _ Hi), (nth_error_set_nthA_eq _ _ _ _ Hb), (nth_error_set_nthA_eq _ _ _ _ Hm).
  split; [auto|]. split; [auto|]. split; [auto|]. split; [auto|].
  intros j pcj bufj Hj Ej Bj. assert (j <> i) by congruence.
  rewrite nth_error_set_nth_neq in Ej by auto. rewrite nth_error_set_nthA_neq in Bj by auto. eapply O; eauto.
Qed.

(** the holder leaves: nobody is inside *)
Lemma TRep_release thv tbufs tmarks h hb hm i h' buf' mk hm'' :
  nth_error thv i = Some h -> nth_error tbufs i = Some hb -> nth_error tmarks i = Some hm ->
  length tbufs = length thv -> length tmarks = length thv ->
  others_out thv tbufs (Some i) -> holds_t h' = false -> onlyunlock buf' ->
  TRep (set_nth thv i h') (set_nthA tbufs i buf') (set_nthA tmarks i mk) h' [] hm''.
Proof.
  intros Hi Hb Hm L1 L2 O Hh' Ob.
  split; [rewrite set_nthA_length, set_nth_length; auto|]. split; [rewrite set_nthA_length, set_nth_length; auto|].
  left. split; auto. split; auto.
  intros j pcj bufj _ Ej Bj. destruct (Nat.eq_dec j i) as [->|Hne].
  - rewrite (nth_error_set_nth_eq _ _ _ _ Hi) in Ej. rewrite (nth_error_set_nthA_eq _ _ _ _ Hb) in Bj.
    inversion Ej; inversion Bj; subst. auto.
  - rewrite nth_error_set_nth_neq in Ej by auto. rewrite nth_error_set_nthA_neq in Bj by auto.
    eapply O; eauto. congruence.
Qed.

(** a thief outside (empty buffer) enters *)
Lemma TRep_acquire thv tbufs tmarks h hb hm i pc p' mk mk0 :
  TRep thv tbufs tmarks h hb hm -> holds_t h = false ->
  nth_error thv i = Some pc -> nth_error tbufs i = Some [] -> nth_error tmarks i = Some mk0 ->
  holds_t p' = true ->
  TRep (set_nth thv i p') (set_nthA tbufs i []) (set_nthA tmarks i mk) p' [] mk.
Proof.
  intros (L1 & L2 & R) Hh Hi Hb Hm Hp'.
  destruct R as [(_ & _ & O)|(j & _ & _ & _ & Hx & _)]; [|congruence].
  eapply TRep_holder_move; eauto.
  intros j pcj bufj _ Ej Bj. eapply O; eauto. discriminate.
Qed.

Lemma set_nth_same (l : list tpc) : forall i x, nth_error l i = Some x -> set_nth l i x = l.
Proof. induction l as [|h t IH]; intros [|i] x H; cbn in *; try discriminate; [inversion H; auto|f_equal; auto]. Qed.
Lemma set_nthA_same {A} (l : list A) : forall i x, nth_error l i = Some x -> set_nthA l i x = l.
Proof. induction l as [|h t IH]; intros [|i] x H; cbn in *; try discriminate; [inversion H; auto|f_equal; auto]. Qed.

Lemma holds_t_not_rmw p : holds_t p = true -> thief_rmw p = false.
Proof. destruct p; cbn; auto; discriminate. Qed.

(** * Initial states *)
Lemma TInv_init s : tso_initial s -> TInv s.
Proof.
  intros (sz & n & Hsz & ->). exists TIdle, [], false. split.
  - cbn [tso_init sc obuf omark tbufs init_state mm qsize own pushed returned].
    rewrite sumw_repeat_nil.
    pose proof (quot2_bounds sz ltac:(lia)) as Q.
    constructor; unfold LT, LB, Lq; cbn; auto; try (intros; discriminate); try lia.
    + constructor; unfold Tq, Bq; cbn; auto; try lia.
      * rewrite repeat_length. lia.
      * intro x. rewrite zseg_nil by lia. reflexivity.
    + split; [intros; discriminate|]. split; [intros _; left; constructor|]. intros; discriminate.
  - cbn [tso_init sc tbufs tmarks init_state thv]. split; [rewrite !repeat_length; auto|].
    split; [rewrite !repeat_length; auto|]. left. split; auto. split; auto.
    intros j pc buf _ Ej Bj. split.
    + rewrite (nth_error_repeat_TIdle _ _ _ Ej). reflexivity.
    + assert (buf = []) as ->; [|constructor].
      clear - Bj. revert j Bj. induction n as [|n IH]; intros [|j] Bj; cbn in *; try discriminate; [inversion Bj; auto|eauto].
Qed.

(** * Every step of the TSO machine preserves the invariant *)
Theorem TInv_step t s a s' : fence_table_ok t = true -> TInv s -> tso_step t s a = Some s' -> TInv s'.
Proof.
  intros OK (h & hb & hm & T & Rp) E. unfold tso_step in E.
  destruct (aborted (sc s)) eqn:Ea; [discriminate|].
  destruct a as [[|i] [e|]].
  - (* owner program step *)
    destruct e.
    + unfold step in E. rewrite Ea in E.
      destruct (own (sc s)) eqn:Eo; try discriminate. inversion E; subst; clear E.
      exists h, hb, hm. cbn [sc obuf omark tbufs tmarks mm qsize own thv pushed returned]. split; auto.
      apply T_owner_call. exact T.
    + discriminate.
    + destruct ((omark s || owner_rmw (own (sc s)) || is_full (ofence_before t (own (sc s)))) && negb (isnil (obuf s))) eqn:G;
        [discriminate|].
      destruct (owner_tick (view (mm (sc s)) (obuf s)) (qsize (sc s)) (own (sc s))) as [[[ws pc'] g]|] eqn:Et; [|discriminate].
      inversion E; subst; clear E.
      exists h, hb, hm. cbn [sc obuf omark tbufs tmarks mm qsize own thv pushed returned]. split; auto.
      exact (T_owner_tick t _ _ _ _ _ _ _ _ _ _ _ ws pc' g OK T G Et).
    + unfold step in E. rewrite Ea in E.
      destruct (own (sc s)) eqn:Eo; try discriminate. inversion E; subst; clear E.
      exists h, hb, hm. cbn [sc obuf omark tbufs tmarks mm qsize own thv pushed returned]. split; auto.
      eapply T_owner_ret. exact T.
  - (* owner flush *)
    destruct (flush_one (mm (sc s)) (obuf s)) as [[m' rest]|] eqn:Ef; [|discriminate].
    inversion E; subst; clear E.
    destruct (obuf s) as [|w r] eqn:Eb; cbn in Ef; [discriminate|]. inversion Ef; subst; clear Ef.
    exists h, hb, hm. cbn [sc obuf omark tbufs tmarks mm qsize own thv pushed returned]. split; auto.
    apply T_owner_flush. exact T.
  - (* thief program step *)
    destruct e.
    + unfold step in E. rewrite Ea in E. discriminate.
    + (* call *)
      destruct (nth_error (thv (sc s)) i) as [pc|] eqn:Ei; [|discriminate].
      destruct pc; try discriminate.
      destruct (nth_error (tbufs s) i) as [buf|] eqn:Eb; [|discriminate].
      inversion E; subst; clear E.
      exists h, hb, hm. cbn [sc obuf omark tbufs tmarks mm qsize own thv pushed returned]. split; auto.
      pose proof (TRep_outside _ _ _ _ _ _ _ _ _ Rp Ei eq_refl Eb) as Ob.
      destruct (nth_error_same_length (thv (sc s)) (tmarks s) i TIdle) as (mk & Em); auto.
      { destruct Rp as (_ & L2 & _). auto. }
      pose proof (TRep_outside_move _ _ _ _ _ _ i TIdle (thief_call (view (mm (sc s)) buf) o) buf buf mk
                    Rp Ei eq_refl Eb (thief_call_nohold _ _) Ob) as R'.
      rewrite (set_nthA_same _ _ _ Eb), (set_nthA_same _ _ _ Em) in R'. exact R'.
    + (* tick *)
      destruct (nth_error (thv (sc s)) i) as [pc|] eqn:Ei; [|discriminate].
      destruct (nth_error (tbufs s) i) as [buf|] eqn:Eb; [|discriminate].
      destruct (nth_error (tmarks s) i) as [mark|] eqn:Em; [|discriminate].
      destruct ((mark || thief_rmw pc || is_full (tfence_before t pc)) && negb (isnil buf)) eqn:G; [discriminate|].
      destruct (thief_tick (view (mm (sc s)) buf) pc) as [[[ws pc'] g]|] eqn:Et; [|discriminate].
      inversion E; subst; clear E.
      cbn [sc obuf omark tbufs tmarks mm qsize own thv pushed returned].
      pose proof (thief_tick_lock _ _ _ _ _ Et) as LE. unfold lock_effect in LE.
      destruct (holds_t pc) eqn:Hp.
      * (* the thief inside its critical section *)
        destruct (TRep_holder _ _ _ _ _ _ _ _ Rp Ei Hp) as (-> & Eb' & Em' & Oo).
        rewrite Eb in Eb'. inversion Eb'; subst hb. rewrite Em in Em'. inversion Em'; subst hm.
        pose proof (holds_t_not_rmw _ Hp) as Er. rewrite Er. rewrite Er in LE.
        destruct Rp as (L1 & L2 & _).
        destruct (T_holder_tick t _ _ _ _ _ _ _ _ _ _ _ ws pc' g OK T Hp G Et) as [(Hp' & T')|(Hp' & -> & -> & T')].
        -- exists pc', (buf ++ ws), (is_full (tfence_after t pc pc')). cbn [sc obuf omark tbufs tmarks mm qsize own thv pushed returned]. split.
           ++ rewrite (sumw_set _ _ _ (buf ++ ws) Eb), wlocks_app.
              destruct LE as (LE1 & _ & _). rewrite ?Hp, ?Hp' in LE1. cbn [b2z] in LE1.
              replace (sumw (tbufs s) - wlocks buf + (wlocks buf + wlocks ws)) with (sumw (tbufs s)) by lia. exact T'.
           ++ eapply TRep_holder_move; eauto.
        -- exists pc', [], false. cbn [sc obuf omark tbufs tmarks mm qsize own thv pushed returned]. split.
           ++ rewrite (sumw_set _ _ _ ([] ++ [WLock 0]) Eb). cbn [app wlocks is_wlock b2z].
              replace (sumw (tbufs s) - 0 + (1 + 0)) with (sumw (tbufs s) + 1) by lia. apply T'.
           ++ eapply TRep_release; eauto. cbn [app]. repeat constructor.
      * destruct (holds_t pc') eqn:Hp'.
        -- (* acquisition *)
           assert (Er : thief_rmw pc = true).
           { destruct (thief_rmw pc) eqn:Er; auto. destruct LE as (LE1 & _ & LE3). rewrite ?Hp, ?Hp' in *. cbn [b2z] in *. lia. }
           rewrite Er. rewrite Er in LE.
           assert (Ebuf : buf = []) by (eapply guard_drained; [exact G|]; right; left; exact Er).
           subst buf. cbn [view apply_wrs fold_left] in Et.
           assert (Hh : holds_t h = false).
           { pose proof (thief_tick_acquire _ _ _ _ _ Et Hp Hp') as L0.
             destruct (tc_lk _ _ _ _ _ _ _ _ _ _ _ T) as (K1 & K2 & K3). pose proof (wlocks_nonneg (obuf s)).
             unfold lkof in *. destruct (holds_t h); auto. destruct (b2z_01 (holds_o (own (sc s)))); cbn [b2z] in *; lia. }
           exists pc', [], (is_full (tfence_after t pc pc')). cbn [sc obuf omark tbufs tmarks mm qsize own thv pushed returned]. split.
           ++ rewrite (sumw_set _ _ _ [] Eb). cbn [wlocks]. replace (sumw (tbufs s) - 0 + 0) with (sumw (tbufs s)) by lia.
              exact (T_acquire _ _ _ _ _ _ _ _ _ _ _ _ pc ws pc' g T Hp Hp' Et).
           ++ eapply TRep_acquire; eauto.
        -- (* a move outside *)
           destruct (thief_tick_nohold _ _ _ _ _ Et Hp Hp') as [-> ->].
           exists h, hb, hm. cbn [apply_wrs fold_left ghost_pushed ghost_returned]. cbn [sc obuf omark tbufs tmarks mm qsize own thv pushed returned]. split.
           ++ assert (Es : sumw (set_nthA (tbufs s) i (if thief_rmw pc then buf else buf ++ [])) = sumw (tbufs s)).
              { rewrite app_nil_r. destruct (thief_rmw pc); rewrite (sumw_set _ _ _ buf Eb); lia. }
              rewrite Es. destruct (thief_rmw pc); exact T.
           ++ pose proof (TRep_outside _ _ _ _ _ _ _ _ _ Rp Ei Hp Eb) as Ob.
              eapply TRep_outside_move; eauto. rewrite app_nil_r. destruct (thief_rmw pc); exact Ob.
    + (* ret *)
      unfold step in E. rewrite Ea in E.
      destruct (nth_error (thv (sc s)) i) as [pc|] eqn:Ei; [|discriminate].
      destruct pc; try discriminate. inversion E; subst; clear E.
      exists h, hb, hm. cbn [sc obuf omark tbufs tmarks mm qsize own thv pushed returned]. split; auto.
      destruct Rp as (L1 & L2 & R0).
      destruct (nth_error_same_length (thv (sc s)) (tbufs s) i (TDone r)) as (buf & Eb); auto.
      destruct (nth_error_same_length (thv (sc s)) (tmarks s) i (TDone r)) as (mk & Em); auto.
      assert (Rp : TRep (thv (sc s)) (tbufs s) (tmarks s) h hb hm) by (split; auto).
      pose proof (TRep_outside _ _ _ _ _ _ _ _ _ Rp Ei eq_refl Eb) as Ob.
      pose proof (TRep_outside_move _ _ _ _ _ _ i (TDone r) TIdle buf buf mk Rp Ei eq_refl Eb eq_refl Ob) as R'.
      rewrite (set_nthA_same _ _ _ Eb), (set_nthA_same _ _ _ Em) in R'. exact R'.
  - (* thief flush *)
    destruct (nth_error (tbufs s) i) as [buf|] eqn:Eb; [|discriminate].
    destruct (flush_one (mm (sc s)) buf) as [[m' rest]|] eqn:Ef; [|discriminate].
    inversion E; subst; clear E.
    destruct buf as [|w r]; cbn in Ef; [discriminate|]. inversion Ef; subst; clear Ef.
    cbn [sc obuf omark tbufs tmarks mm qsize own thv pushed returned].
    destruct Rp as (L1 & L2 & R0).
    assert (Rp : TRep (thv (sc s)) (tbufs s) (tmarks s) h hb hm) by (split; auto).
    destruct (nth_error_same_length (tbufs s) (thv (sc s)) i (w :: rest)) as (pc & Ei); auto.
    destruct (nth_error_same_length (tbufs s) (tmarks s) i (w :: rest)) as (mk & Em); auto; [congruence|].
    destruct (holds_t pc) eqn:Hp.
    + destruct (TRep_holder _ _ _ _ _ _ _ _ Rp Ei Hp) as (-> & Eb' & Em' & Oo).
      rewrite Eb in Eb'. inversion Eb'; subst hb. rewrite Em in Em'. inversion Em'; subst hm.
      pose proof (hshape_thw _ _ _ (tc_hsh _ _ _ _ _ _ _ _ _ _ _ T)) as Fw.
      assert (W1 : wlocks (w :: rest) = 0) by (apply nolock_wlocks; eapply Forall_impl; [|exact Fw]; apply thw_nolock).
      assert (W2 : wlocks rest = 0) by (inversion Fw; subst; apply nolock_wlocks; eapply Forall_impl; [|eassumption]; apply thw_nolock).
      exists pc, rest, mk. cbn [sc obuf omark tbufs tmarks mm qsize own thv pushed returned]. split.
      * rewrite (sumw_set _ _ _ rest Eb), W1, W2. replace (sumw (tbufs s) - 0 + 0) with (sumw (tbufs s)) by lia.
        apply T_holder_flush. exact T.
      * pose proof (TRep_holder_move _ _ _ _ _ _ i pc rest mk Ei Eb Em L1 L2 Oo Hp) as R'.
        rewrite (set_nth_same _ _ _ Ei), (set_nthA_same _ _ _ Em) in R'. exact R'.
    + pose proof (TRep_outside _ _ _ _ _ _ _ _ _ Rp Ei Hp Eb) as Ob.
      inversion Ob as [|? ? Hw Fr]; subst.
      exists h, hb, hm. cbn [sc obuf omark tbufs tmarks mm qsize own thv pushed returned]. split.
      * rewrite (sumw_set _ _ _ rest Eb). cbn [wlocks is_wlock b2z].
        replace (sumw (tbufs s) - (1 + wlocks rest) + wlocks rest) with (sumw (tbufs s) - 1) by lia.
        apply T_other_flush; auto. pose proof (sumw_ge _ _ _ Eb) as Sg. cbn [wlocks is_wlock b2z] in Sg.
        pose proof (wlocks_nonneg rest). lia.
      * pose proof (TRep_outside_move _ _ _ _ _ _ i pc pc (WLock 0 :: rest) rest mk Rp Ei Hp Eb Hp Fr) as R'.
        rewrite (set_nth_same _ _ _ Ei), (set_nthA_same _ _ _ Em) in R'. exact R'.
Qed.

(** * The theorem *)

(** logical memory of a TSO state: memory overridden by all buffered stores (the unlock stores
    excepted: the logical lock word is the number of participants inside a critical section) *)
Definition lmem (s : tstate) : mem :=
  setlck (apply_wrs (apply_wrs (mm (sc s)) (strip (concat (tbufs s)))) (strip (obuf s)))
         (holders (sc s)).
Definition logical (s : tstate) : state :=
  mkState (lmem s) (qsize (sc s)) (own (sc s)) (thv (sc s)) (pushed (sc s)) (returned (sc s))
          (aborted (sc s)).

Lemma strip_onlyunlock b : onlyunlock b -> strip b = [].
Proof. induction 1 as [|w b Hw F IH]; cbn [strip filter]; auto. subst w. cbn. exact IH. Qed.

Lemma strip_concat_out (l : list (list wr)) : (forall b, In b l -> onlyunlock b) -> strip (concat l) = [].
Proof.
  induction l as [|b l IH]; intros H; cbn [concat]; auto.
  rewrite strip_app, (strip_onlyunlock b) by (apply H; left; auto). cbn [app]. apply IH. intros; apply H; right; auto.
Qed.

Lemma TRep_Rep thv tbufs tmarks h hb hm : TRep thv tbufs tmarks h hb hm -> Rep thv h.
Proof.
  intros (L1 & L2 & [(Hh & _ & O)|(i & Hi & Hb & Hm & Hh & O)]).
  - left. split; auto. intros j pc Hj.
    destruct (nth_error_same_length thv tbufs j pc L1 Hj) as (buf & Eb).
    destruct (O j pc buf); auto. discriminate.
  - right. exists i. split; auto. split; auto. intros j pc Hne Hj.
    destruct (nth_error_same_length thv tbufs j pc L1 Hj) as (buf & Eb).
    destruct (O j pc buf); auto. congruence.
Qed.

Lemma TRep_strip thv tbufs tmarks h hb hm : TRep thv tbufs tmarks h hb hm -> Forall thw hb ->
  strip (concat tbufs) = hb.
Proof.
  intros (L1 & L2 & [(Hh & -> & O)|(i & Hi & Hb & Hm & Hh & O)]) Fh.
  - apply strip_concat_out. intros b Hb. apply In_nth_error in Hb. destruct Hb as (j & Ej).
    destruct (nth_error_same_length tbufs thv j b) as (pc & Ep); auto.
    destruct (O j pc b); auto. discriminate.
  - destruct (nth_error_split _ _ Hb) as (l1 & l2 & -> & Hlen).
    rewrite concat_app. cbn [concat]. rewrite !strip_app.
    assert (A1 : strip (concat l1) = []).
    { apply strip_concat_out. intros b Hin. apply In_nth_error in Hin. destruct Hin as (j & Ej).
      assert (Hj : (j < length l1)%nat) by (apply nth_error_Some; congruence).
      assert (Ej' : nth_error (l1 ++ hb :: l2) j = Some b) by (rewrite nth_error_app1; auto).
      destruct (nth_error_same_length (l1 ++ hb :: l2) thv j b) as (pc & Ep); auto.
      destruct (O j pc b); auto. intros Hx. inversion Hx. lia. }
    assert (A2 : strip (concat l2) = []).
    { apply strip_concat_out. intros b Hin. apply In_nth_error in Hin. destruct Hin as (j & Ej).
      assert (Ej' : nth_error (l1 ++ hb :: l2) (length l1 + S j) = Some b).
      { rewrite nth_error_app2 by lia. replace (length l1 + S j - length l1)%nat with (S j) by lia. exact Ej. }
      destruct (nth_error_same_length (l1 ++ hb :: l2) thv (length l1 + S j) b) as (pc & Ep); auto.
      destruct (O (length l1 + S j)%nat pc b); auto. intros Hx. inversion Hx. lia. }
    rewrite A1, A2, app_nil_r. cbn [app]. apply strip_nolock.
    eapply Forall_impl; [|exact Fh]. apply thw_nolock.
Qed.

Lemma TInv_Inv s : TInv s -> Inv (logical s).
Proof.
  intros (h & hb & hm & T & Rp).
  pose proof (TRep_Rep _ _ _ _ _ _ Rp) as R.
  exists h. split; [|exact R].
  pose proof (hshape_thw _ _ _ (tc_hsh _ _ _ _ _ _ _ _ _ _ _ T)) as Fh.
  destruct (Rep_aggr (mm (sc s)) _ _ R) as (_ & A2 & _).
  cbn [logical mm qsize own pushed returned]. unfold lmem.
  rewrite (TRep_strip _ _ _ _ _ _ Rp Fh).
  replace (holders (sc s)) with (lkof (own (sc s)) h) by (unfold holders, lkof; rewrite A2; reflexivity).
  exact (tc_core _ _ _ _ _ _ _ _ _ _ _ T).
Qed.

(** for every accepted fence table, every state reachable under TSO - any capacity, any number
    of thieves, any schedule of program steps and flushes - satisfies the deque invariant on its
    logical memory *)
Theorem tso_sound t s : fence_table_ok t = true ->
  reachable tso_initial (tso_step t) s -> StateInv (logical s).
Proof.
  intros OK Hr. apply Inv_StateInv. apply TInv_Inv. revert s Hr.
  apply invariant_rule.
  - apply TInv_init.
  - intros s0 a s1 H E. eapply TInv_step; eauto.
Qed.

(** when all buffers are drained the logical memory is the memory *)
Definition all_drained (s : tstate) : Prop := obuf s = [] /\ Forall (fun b => b = []) (tbufs s).

Lemma concat_all_nil (l : list (list wr)) : Forall (fun b => b = []) l -> concat l = [].
Proof. induction 1 as [|b l Hb F IH]; cbn [concat]; auto. subst b. exact IH. Qed.
Lemma sumw_all_nil (l : list (list wr)) : Forall (fun b => b = []) l -> sumw l = 0.
Proof. induction 1 as [|b l Hb F IH]; cbn [sumw]; auto. subst b. cbn. exact IH. Qed.

Theorem tso_sound_drained t s : fence_table_ok t = true ->
  reachable tso_initial (tso_step t) s -> all_drained s -> StateInv (sc s).
Proof.
  intros OK Hr (Eo & Et).
  pose proof (tso_sound t s OK Hr) as S.
  assert (TL0 : TL s).
  { revert s Hr Eo Et S. intros s Hr _ _ _. revert s Hr. apply invariant_rule; [apply TL_init|].
    intros s0 a s1 H E. eapply TL_step; eauto. }
  destruct TL0 as [K1 _ _ _ _]. rewrite Eo, (sumw_all_nil _ Et) in K1. cbn [wlocks] in K1.
  assert (E : logical s = sc s).
  { unfold logical, lmem. rewrite Eo, (concat_all_nil _ Et). cbn [strip filter apply_wrs fold_left].
    unfold setlck. replace (holders (sc s)) with (lck (mm (sc s))) by lia.
    destruct (sc s) as [m q o th P R ab]. destruct m. reflexivity. }
  rewrite <- E. exact S.
Qed.

(** the statement spelled out *)
Theorem tso_sound_expanded t s : fence_table_ok t = true ->
  reachable tso_initial (tso_step t) s ->
  let l := logical s in
  qsize l = Z.of_nat (length (ptr (mm l))) /\
  0 <= Beff l /\ Beff l <= Teff l /\ Teff l <= qsize l /\
  Permutation (pushed l) (returned l ++ live l ++ inflight l) /\
  (NoDup (pushed l) -> NoDup (returned l ++ live l ++ inflight l)) /\
  lck (mm l) = holders l /\ 0 <= holders l <= 1 /\
  (forall x i m b, own l = OPopFast x -> nth_error (thv l) i = Some (TSlot m b) -> 0 <= b < x).
Proof.
  intros OK Hr l. destruct (tso_sound t s OK Hr) as [S1 S2 [S3 [S3' S3'']] S4 S5 [S6 S6'] S7].
  fold l in S1, S3, S3', S3'', S4, S5, S6, S6', S7.
  repeat (split; [assumption|]). exact S7.
Qed.

(** no loss, no duplication under TSO: no operation in flight and all buffers drained *)
Theorem tso_no_loss_no_dup t s : fence_table_ok t = true ->
  reachable tso_initial (tso_step t) s -> all_drained s -> quiescent (sc s) ->
  let c := sc s in
  0 <= base (mm c) /\ base (mm c) <= top (mm c) /\ top (mm c) <= qsize c /\ lck (mm c) = 0 /\
  Permutation (pushed c) (returned c ++ zseg (ptr (mm c)) (base (mm c)) (top (mm c))) /\
  (NoDup (pushed c) -> NoDup (returned c ++ zseg (ptr (mm c)) (base (mm c)) (top (mm c)))).
Proof.
  intros OK Hr Hd Hq c.
  destruct (tso_sound_drained t s OK Hr Hd) as [S1 S2 S3 S4 S5 S6 S7].
  destruct (quiescent_aggr (sc s) Hq) as (Q1 & Q2 & Q3 & Q4).
  unfold live in *. rewrite Q1, Q2, Q3, ?app_nil_r in *. rewrite Q4 in S6.
  destruct S6 as [S6 _]. unfold c. repeat split; auto; lia.
Qed.
