(** C02 - soundness of the accepted fence placements: under x86-TSO (store buffers, any number
    of thieves, any capacity, any schedule including flushes) every reachable state satisfies
    the deque invariant on its LOGICAL memory (memory overridden by the buffered stores). *)
From Coq Require Import ZArith List Lia Bool Permutation.
From MT Require Import Lib.Interleave Wsq.WsqModel Wsq.WsqLists Wsq.WsqInv Wsq.WsqProofs
                       Wsq.TsoModel Wsq.TsoLock Wsq.TsoInv Wsq.TsoOwner Wsq.TsoThief.
Import ListNotations.
Local Open Scope list_scope.
Local Open Scope Z_scope.

(** * Lists *)
Lemma nth_error_set_nthA_eq {A} (l : list A) : forall i x y,
  nth_error l i = Some y -> nth_error (set_nthA l i x) i = Some x.
Proof. induction l as [|h t IH]; intros [|i] x y H; cbn in *; try discriminate; auto. eapply IH; eauto. Qed.
Lemma nth_error_set_nthA_neq {A} (l : list A) : forall i j x,
  j <> i -> nth_error (set_nthA l i x) j = nth_error l j.
Proof. induction l as [|h t IH]; intros [|i] [|j] x H; cbn; auto; congruence. Qed.
Lemma nth_error_same_length {A B} (l : list A) (l' : list B) i x :
  length l' = length l -> nth_error l i = Some x -> exists y, nth_error l' i = Some y.
Proof.
  intros HL H. destruct (nth_error l' i) eqn:E; eauto.
  apply nth_error_None in E. assert (i < length l)%nat by (apply nth_error_Some; congruence). lia.
Qed.

(** * Representation of the thieves by the one that may hold the lock *)
Definition onlyunlock (b : list wr) : Prop := Forall (fun w => w = WLock 0) b.

Definition others_out (thv : list tpc) (tbufs : list (list wr)) (skip : option nat) : Prop :=
  forall j pc buf, Some j <> skip -> nth_error thv j = Some pc -> nth_error tbufs j = Some buf ->
                   holds_t pc = false /\ onlyunlock buf.

Definition TRep (thv : list tpc) (tbufs : list (list wr)) (tmarks : list bool)
                (h : tpc) (hb : list wr) (hm : bool) : Prop :=
  length tbufs = length thv /\ length tmarks = length thv /\
  ((holds_t h = false /\ hb = [] /\ others_out thv tbufs None) \/
   (exists i, nth_error thv i = Some h /\ nth_error tbufs i = Some hb /\ nth_error tmarks i = Some hm /\
              holds_t h = true /\ others_out thv tbufs (Some i))).

Definition TInv (s : tstate) : Prop :=
  exists h hb hm,
    TCore (mm (sc s)) (qsize (sc s)) (own (sc s)) (obuf s) (omark s) h hb hm (sumw (tbufs s))
          (pushed (sc s)) (returned (sc s)) /\
    TRep (thv (sc s)) (tbufs s) (tmarks s) h hb hm.

(** the thief at index [i] holds the lock: it is the representative *)
Lemma TRep_holder thv tbufs tmarks h hb hm i pc :
  TRep thv tbufs tmarks h hb hm -> nth_error thv i = Some pc -> holds_t pc = true ->
  h = pc /\ nth_error tbufs i = Some hb /\ nth_error tmarks i = Some hm /\ others_out thv tbufs (Some i).
Proof.
  intros (L1 & L2 & [(Hh & -> & O)|(j & Hj & Hb & Hm & Hh & O)]) Hi Hp.
  - destruct (nth_error_same_length thv tbufs i pc L1 Hi) as (buf & Eb).
    destruct (O i pc buf) as [X _]; auto; try discriminate. congruence.
  - destruct (Nat.eq_dec i j) as [->|Hne].
    + rewrite Hi in Hj. inversion Hj; subst. auto.
    + destruct (nth_error_same_length thv tbufs i pc L1 Hi) as (buf & Eb).
      destruct (O i pc buf) as [X _]; auto; congruence.
Qed.

(** the thief at index [i] is outside: its buffer holds at most unlock stores *)
Lemma TRep_outside thv tbufs tmarks h hb hm i pc buf :
  TRep thv tbufs tmarks h hb hm -> nth_error thv i = Some pc -> holds_t pc = false ->
  nth_error tbufs i = Some buf -> onlyunlock buf.
Proof.
  intros (L1 & L2 & [(Hh & -> & O)|(j & Hj & Hb & Hm & Hh & O)]) Hi Hp Eb.
  - destruct (O i pc buf); auto. discriminate.
  - destruct (Nat.eq_dec i j) as [->|Hne].
    + rewrite Hi in Hj. inversion Hj; subst. congruence.
    + destruct (O i pc buf); auto. congruence.
Qed.

(** a thief outside moves to another point outside; its buffer keeps its unlock stores *)
Lemma TRep_outside_move thv tbufs tmarks h hb hm i pc pc' buf buf' mk :
  TRep thv tbufs tmarks h hb hm -> nth_error thv i = Some pc -> holds_t pc = false ->
  nth_error tbufs i = Some buf -> holds_t pc' = false -> onlyunlock buf' ->
  TRep (set_nth thv i pc') (set_nthA tbufs i buf') (set_nthA tmarks i mk) h hb hm.
Proof.
  intros (L1 & L2 & R) Hi Hp Eb Hp' Ob.
  split; [rewrite set_nthA_length, set_nth_length; auto|]. split; [rewrite set_nthA_length, set_nth_length; auto|].
  assert (Omove : forall sk, others_out thv tbufs sk -> Some i <> sk ->
                             others_out (set_nth thv i pc') (set_nthA tbufs i buf') sk).
  { intros sk O Hs j pcj bufj Hj Ej Bj. destruct (Nat.eq_dec j i) as [->|Hne].
    - rewrite (nth_error_set_nth_eq _ _ _ _ Hi) in Ej. rewrite (nth_error_set_nthA_eq _ _ _ _ Eb) in Bj.
      inversion Ej; inversion Bj; subst. auto.
    - rewrite nth_error_set_nth_neq in Ej by auto. rewrite nth_error_set_nthA_neq in Bj by auto. eapply O; eauto. }
  destruct R as [(Hh & -> & O)|(j & Hj & Hb & Hm & Hh & O)].
  - left. split; auto. split; auto. apply Omove; auto. discriminate.
  - assert (Hne : i <> j) by (intros ->; rewrite Hi in Hj; inversion Hj; subst; congruence).
    right. exists j. rewrite nth_error_set_nth_neq, !nth_error_set_nthA_neq by auto.
    split; [auto|]. split; [auto|]. split; [auto|]. split; [auto|]. apply Omove; auto. congruence.
Qed.

(** the holder steps to another point inside *)
Lemma TRep_holder_move thv tbufs tmarks h hb hm i h' hb' hm' :
  nth_error thv i = Some h -> nth_error tbufs i = Some hb -> nth_error tmarks i = Some hm ->
  length tbufs = length thv -> length tmarks = length thv ->
  others_out thv tbufs (Some i) -> holds_t h' = true ->
  TRep (set_nth thv i h') (set_nthA tbufs i hb') (set_nthA tmarks i hm') h' hb' hm'.
Proof.
  intros Hi Hb Hm L1 L2 O Hh'.
  split; [rewrite set_nthA_length, set_nth_length; auto|]. split; [rewrite set_nthA_length, set_nth_length; auto|].
  right. exists i. rewrite (nth_error_set_nth_eq _ _ _ _ Hi), (nth_error_set_nthA_eq _ _ _ _ Hb), (nth_error_set_nthA_eq _ _ _ _ Hm).
  split; [auto|]. split; [auto|]. split; [auto|]. split; [auto|].
  intros j pcj bufj Hj Ej Bj. assert (j <> i) by congruence.
  rewrite nth_error_set_nth_neq in Ej by auto. rewrite nth_error_set_nthA_neq in Bj by auto. eapply O; eauto.
Qed.

(** the holder leaves: nobody is inside *)
Lemma TRep_release thv tbufs tmarks h hb hm i h' buf' mk hm'' :
  nth_error thv i = Some h -> nth_error tbufs i = Some hb -> nth_error tmarks i = Some hm ->
  length tbufs = length thv -> length tmarks = length thv ->
  others_out thv tbufs (Some i) -> holds_t h' = false -> onlyunlock buf' ->
  TRep (set_nth thv i h') (set_nthA tbufs i buf') (set_nthA tmarks i mk) h' [] hm''.
Proof.
  intros Hi Hb Hm L1 L2 O Hh' Ob.
  split; [rewrite set_nthA_length, set_nth_length; auto|]. split; [rewrite set_nthA_length, set_nth_length; auto|].
  left. split; auto. split; auto.
  intros j pcj bufj _ Ej Bj. destruct (Nat.eq_dec j i) as [->|Hne].
  - rewrite (nth_error_set_nth_eq _ _ _ _ Hi) in Ej. rewrite (nth_error_set_nthA_eq _ _ _ _ Hb) in Bj.
    inversion Ej; inversion Bj; subst. auto.
  - rewrite nth_error_set_nth_neq in Ej by auto. rewrite nth_error_set_nthA_neq in Bj by auto.
    eapply O; eauto. congruence.
Qed.

(** a thief outside (empty buffer) enters *)
Lemma TRep_acquire thv tbufs tmarks h hb hm i pc p' mk mk0 :
  TRep thv tbufs tmarks h hb hm -> holds_t h = false ->
  nth_error thv i = Some pc -> nth_error tbufs i = Some [] -> nth_error tmarks i = Some mk0 ->
  holds_t p' = true ->
  TRep (set_nth thv i p') (set_nthA tbufs i []) (set_nthA tmarks i mk) p' [] mk.
Proof.
  intros (L1 & L2 & R) Hh Hi Hb Hm Hp'.
  destruct R as [(_ & _ & O)|(j & _ & _ & _ & Hx & _)]; [|congruence].
  eapply TRep_holder_move; eauto.
  intros j pcj bufj _ Ej Bj. eapply O; eauto. discriminate.
Qed.

Lemma set_nth_same (l : list tpc) : forall i x, nth_error l i = Some x -> set_nth l i x = l.
Proof. induction l as [|h t IH]; intros [|i] x H; cbn in *; try discriminate; [inversion H; auto|f_equal; auto]. Qed.
Lemma set_nthA_same {A} (l : list A) : forall i x, nth_error l i = Some x -> set_nthA l i x = l.
Proof. induction l as [|h t IH]; intros [|i] x H; cbn in *; try discriminate; [inversion H; auto|f_equal; auto]. Qed.

Lemma holds_t_not_rmw p : holds_t p = true -> thief_rmw p = false.
Proof. destruct p; cbn; auto; discriminate. Qed.

