(** C02 - mutual exclusion of the regions under q->lock under x86-TSO, for EVERY fence table
    (a partial TSO invariant: the lock discipline clause of DESIGN.md Appendix B.1).

    The CAS of trylock is a locked instruction (drained buffer, acts on memory); the unlock is a
    plain store that may sit in the store buffer.  Invariant: the lock word in memory equals the
    number of participants inside a critical section plus the number of buffered unlock stores,
    and this number is at most one. *)
From Coq Require Import ZArith List Lia Bool.
From MT Require Import Lib.Interleave Wsq.WsqModel Wsq.WsqInv Wsq.WsqProofs Wsq.TsoModel.
Import ListNotations.
Local Open Scope list_scope.
Local Open Scope Z_scope.

Definition is_wlock (w : wr) : bool := match w with WLock _ => true | _ => false end.
Fixpoint wlocks (b : list wr) : Z :=
  match b with [] => 0 | w :: r => b2z (is_wlock w) + wlocks r end.
Definition wl0 (w : wr) : Prop := match w with WLock v => v = 0 | _ => True end.
Fixpoint sumw (l : list (list wr)) : Z :=
  match l with [] => 0 | b :: r => wlocks b + sumw r end.

Lemma wlocks_app a b : wlocks (a ++ b) = wlocks a + wlocks b.
Proof. induction a as [|w a IH]; cbn [wlocks app]; [lia|rewrite IH; lia]. Qed.
Lemma wlocks_nonneg a : 0 <= wlocks a.
Proof. induction a as [|w a IH]; cbn [wlocks]; [lia|destruct (is_wlock w); cbn [b2z]; lia]. Qed.
Lemma sumw_nonneg l : 0 <= sumw l.
Proof. induction l as [|b l IH]; cbn [sumw]; [lia|pose proof (wlocks_nonneg b); lia]. Qed.

Lemma sumw_set (l : list (list wr)) : forall i b b', nth_error l i = Some b ->
  sumw (set_nthA l i b') = sumw l - wlocks b + wlocks b'.
Proof.
  induction l as [|x l IH]; intros [|i] b b' H; cbn [set_nthA sumw nth_error] in *; try discriminate.
  - inversion H; subst. lia.
  - rewrite (IH i b b' H). lia.
Qed.
Lemma sumw_ge (l : list (list wr)) : forall i b, nth_error l i = Some b -> wlocks b <= sumw l.
Proof.
  induction l as [|x l IH]; intros [|i] b H; cbn [sumw nth_error] in *; try discriminate.
  - inversion H; subst. pose proof (sumw_nonneg l). lia.
  - specialize (IH i b H). pose proof (wlocks_nonneg x). lia.
Qed.
Lemma set_nthA_length {A} (l : list A) : forall i x, length (set_nthA l i x) = length l.
Proof. induction l as [|h l IH]; intros [|i] x; cbn; auto. Qed.
Lemma set_nth_length (l : list tpc) : forall i x, length (set_nth l i x) = length l.
Proof. induction l as [|h l IH]; intros [|i] x; cbn; auto. Qed.
Lemma Forall_set_nthA {A} (P : A -> Prop) (l : list A) : forall i x,
  Forall P l -> P x -> Forall P (set_nthA l i x).
Proof.
  induction l as [|h l IH]; intros [|i] x H Hx; cbn; auto; inversion H; subst; constructor; auto.
Qed.
Lemma Forall_nth_error {A} (P : A -> Prop) (l : list A) i x :
  Forall P l -> nth_error l i = Some x -> P x.
Proof. intros H E. rewrite Forall_forall in H. apply H. eapply nth_error_In; eauto. Qed.

Lemma cnt_set f (l : list tpc) : forall i x y, nth_error l i = Some x ->
  cnt f (set_nth l i y) = cnt f l - b2z (f x) + b2z (f y).
Proof.
  induction l as [|h l IH]; intros [|i] x y H; cbn [set_nth cnt nth_error] in *; try discriminate.
  - inversion H; subst. lia.
  - rewrite (IH i x y H). lia.
Qed.
Lemma cnt_nonneg f l : 0 <= cnt f l.
Proof. induction l as [|h l IH]; cbn [cnt]; [lia|destruct (f h); cbn [b2z]; lia]. Qed.

Lemma lck_apply_wr m w : lck (apply_wr m w) = match w with WLock v => v | _ => lck m end.
Proof. destruct w; reflexivity. Qed.

(** what a step does to the lock: an acquisition (locked instruction, free lock), a failed
    trylock, or a plain step whose stores contain one unlock store iff it leaves the region *)
Definition lock_effect (rmw : bool) (v : mem) (hb ha : bool) (ws : list wr) : Prop :=
  if rmw then (lck v = 0 /\ ws = [WLock 1] /\ hb = false /\ ha = true) \/ (ws = [] /\ hb = false /\ ha = false)
  else wlocks ws = b2z hb - b2z ha /\ Forall wl0 ws /\ 0 <= b2z hb - b2z ha.

Lemma owner_tick_lock v sz pc ws pc' g :
  owner_tick v sz pc = Some (ws, pc', g) ->
  lock_effect (owner_rmw pc) v (holds_o pc) (holds_o pc') ws.
Proof.
  intros E. unfold lock_effect. destruct pc; cbn [owner_tick] in E; try discriminate; cbn [owner_rmw holds_o];
    repeat match type of E with
           | context [if ?c =? ?d then _ else _] => destruct (Z.eqb_spec c d)
           | context [if ?c then _ else _] => destruct c
           end; try discriminate; inversion E; subst; clear E; cbn [holds_o wlocks is_wlock b2z invalidate app];
    try (left; repeat split; auto; fail);
    repeat split; try lia; repeat constructor.
Qed.

Lemma thief_tick_lock v pc ws pc' g :
  thief_tick v pc = Some (ws, pc', g) ->
  lock_effect (thief_rmw pc) v (holds_t pc) (holds_t pc') ws.
Proof.
  intros E. unfold lock_effect. destruct pc; cbn [thief_tick] in E; try discriminate; cbn [thief_rmw holds_t];
    unfold peek_start in E;
    repeat match type of E with
           | context [if ?c =? ?d then _ else _] => destruct (Z.eqb_spec c d)
           | context [if ?c then _ else _] => destruct c
           | context [match ?x with _ => _ end] => destruct x
           end; try discriminate; inversion E; subst; clear E; cbn [holds_t wlocks is_wlock b2z invalidate app];
    try (left; repeat split; auto; fail); try (right; repeat split; auto; fail);
    repeat split; try lia; repeat constructor.
Qed.

Record TL (s : tstate) : Prop := mkTL {
  tl_sum : lck (mm (sc s)) = holders (sc s) + wlocks (obuf s) + sumw (tbufs s);
  tl_one : holders (sc s) + wlocks (obuf s) + sumw (tbufs s) <= 1;
  tl_o0 : Forall wl0 (obuf s);
  tl_t0 : Forall (Forall wl0) (tbufs s);
  tl_len : length (tbufs s) = length (thv (sc s))
}.

Definition tso_initial (s : tstate) : Prop := exists sz n, 2 <= sz /\ s = tso_init sz n.

Lemma cnt_repeat_TIdle f n : f TIdle = false -> cnt f (repeat TIdle n) = 0.
Proof. intros H. induction n as [|n IH]; cbn [repeat cnt]; [reflexivity|rewrite H, IH; reflexivity]. Qed.
Lemma sumw_repeat_nil n : sumw (repeat [] n) = 0.
Proof. induction n as [|n IH]; cbn [repeat sumw wlocks]; lia. Qed.

Lemma TL_init s : tso_initial s -> TL s.
Proof.
  intros (sz & n & _ & ->). constructor; cbn.
  - unfold holders. cbn. rewrite cnt_repeat_TIdle by reflexivity. rewrite sumw_repeat_nil. reflexivity.
  - unfold holders. cbn. rewrite cnt_repeat_TIdle by reflexivity. rewrite sumw_repeat_nil. lia.
  - constructor.
  - induction n; cbn; constructor; auto.
  - rewrite !repeat_length. reflexivity.
Qed.

Lemma holders_owner c pc' thv' : thv' = thv c ->
  holders (mkState (mm c) (qsize c) pc' thv' (pushed c) (returned c) false) =
  holders c - b2z (holds_o (own c)) + b2z (holds_o pc').
Proof. intros ->. unfold holders. cbn. lia. Qed.

Lemma flush_lock m b m' rest : flush_one m b = Some (m', rest) -> Forall wl0 b ->
  lck m = 0 \/ lck m = 1 -> wlocks b <= lck m + (1 - lck m) * 0 + 1 ->
  wlocks rest = wlocks b - b2z (match b with w :: _ => is_wlock w | [] => false end) /\
  Forall wl0 rest /\
  lck m' = match b with WLock _ :: _ => 0 | _ => lck m end.
Proof.
  intros E F _ _. destruct b as [|w r]; cbn in E; [discriminate|]. inversion E; subst; clear E.
  inversion F; subst. split; [cbn [wlocks]; lia|]. split; auto.
  rewrite lck_apply_wr. destruct w; cbn in *; auto.
Qed.

Theorem TL_step t s a s' : TL s -> tso_step t s a = Some s' -> TL s'.
Proof.
  intros [T1 T2 T3 T4 T5] E. unfold tso_step in E.
  destruct (aborted (sc s)) eqn:Ea; [discriminate|].
  pose proof (wlocks_nonneg (obuf s)) as N1. pose proof (sumw_nonneg (tbufs s)) as N2.
  assert (N3 : 0 <= holders (sc s)).
  { unfold holders. pose proof (cnt_nonneg holds_t (thv (sc s))). destruct (holds_o (own (sc s))); cbn [b2z]; lia. }
  destruct a as [[|i] [e|]].
  - (* owner program step *)
    destruct e.
    + (* call *) unfold step in E. rewrite Ea in E.
      destruct (own (sc s)) eqn:Eo; try discriminate. inversion E; subst; clear E.
      constructor; cbn [sc obuf tbufs mm thv]; auto; unfold holders in *; rewrite Eo in *; cbn [own thv] in *;
        destruct o; cbn in *; lia.
    + discriminate.
    + (* tick *)
      destruct ((omark s || owner_rmw (own (sc s)) || is_full (ofence_before t (own (sc s)))) && negb (isnil (obuf s))) eqn:Eg;
        [discriminate|].
      destruct (owner_tick (view (mm (sc s)) (obuf s)) (qsize (sc s)) (own (sc s))) as [[[ws pc'] g]|] eqn:Et; [|discriminate].
      inversion E; subst; clear E.
      pose proof (owner_tick_lock _ _ _ _ _ _ Et) as L. unfold lock_effect in L.
      destruct (owner_rmw (own (sc s))) eqn:Er.
      * (* locked instruction: the buffer is empty, the view is memory *)
        assert (Hb : obuf s = []).
        { rewrite orb_true_r in Eg. cbn in Eg. destruct (obuf s); [reflexivity|discriminate]. }
        rewrite Hb in *. cbn [view apply_wrs fold_left wlocks] in *.
        destruct L as [(L0 & -> & Hb0 & Ha0)|(-> & Hb0 & Ha0)].
        -- constructor; cbn [sc obuf tbufs mm thv apply_wrs fold_left apply_wr lck wlocks]; auto;
             unfold holders in *; cbn [own thv] in *; rewrite Hb0, Ha0 in *; cbn [b2z] in *; lia.
        -- constructor; cbn [sc obuf tbufs mm thv apply_wrs fold_left wlocks]; auto;
             unfold holders in *; cbn [own thv] in *; rewrite Hb0, Ha0 in *; cbn [b2z] in *; lia.
      * destruct L as (L1 & L2 & L3).
        constructor; cbn [sc obuf tbufs mm thv]; auto.
        -- rewrite wlocks_app. unfold holders in *. cbn [own thv]. lia.
        -- rewrite wlocks_app. unfold holders in *. cbn [own thv]. lia.
        -- apply Forall_app. split; auto.
    + (* ret *) unfold step in E. rewrite Ea in E.
      destruct (own (sc s)) eqn:Eo; try discriminate. inversion E; subst; clear E.
      constructor; cbn [sc obuf tbufs mm thv]; auto; unfold holders in *; rewrite Eo in *; cbn [own thv] in *; cbn in *; lia.
  - (* owner flush *)
    destruct (flush_one (mm (sc s)) (obuf s)) as [[m' rest]|] eqn:Ef; [|discriminate].
    inversion E; subst; clear E.
    destruct (obuf s) as [|w r] eqn:Eb; cbn in Ef; [discriminate|]. inversion Ef; subst; clear Ef.
    inversion T3; subst. pose proof (wlocks_nonneg rest) as N5.
    constructor; cbn [sc obuf tbufs mm thv]; auto.
    + rewrite lck_apply_wr. unfold holders in *. cbn [own thv] in *. cbn [wlocks] in *.
      destruct w; cbn [is_wlock b2z wl0] in *; try lia.
    + unfold holders in *. cbn [own thv] in *. cbn [wlocks] in *. destruct (is_wlock w); cbn [b2z] in *; lia.
  - (* thief program step *)
    destruct e.
    + unfold step in E. rewrite Ea in E. discriminate.
    + (* call *)
      destruct (nth_error (thv (sc s)) i) as [pc|] eqn:Ei; [|discriminate].
      destruct pc; try discriminate.
      destruct (nth_error (tbufs s) i) as [buf|] eqn:Eb; [|discriminate].
      inversion E; subst; clear E.
      assert (Hc : cnt holds_t (set_nth (thv (sc s)) i (thief_call (view (mm (sc s)) buf) o)) = cnt holds_t (thv (sc s))).
      { rewrite (cnt_set _ _ _ _ _ Ei). rewrite thief_call_nohold. cbn. lia. }
      constructor; cbn [sc obuf tbufs mm thv]; auto; unfold holders in *; cbn [own thv] in *; try rewrite Hc; auto.
      rewrite set_nth_length. auto.
    + (* tick *)
      destruct (nth_error (thv (sc s)) i) as [pc|] eqn:Ei; [|discriminate].
      destruct (nth_error (tbufs s) i) as [buf|] eqn:Eb; [|discriminate].
      destruct (nth_error (tmarks s) i) as [mark|] eqn:Em; [|discriminate].
      destruct ((mark || thief_rmw pc || is_full (tfence_before t pc)) && negb (isnil buf)) eqn:Eg; [discriminate|].
      destruct (thief_tick (view (mm (sc s)) buf) pc) as [[[ws pc'] g]|] eqn:Et; [|discriminate].
      inversion E; subst; clear E.
      pose proof (thief_tick_lock _ _ _ _ _ Et) as L. unfold lock_effect in L.
      pose proof (cnt_set holds_t _ _ _ pc' Ei) as Hc.
      pose proof (Forall_nth_error _ _ _ _ T4 Eb) as Fb.
      destruct (thief_rmw pc) eqn:Er.
      * assert (Hb : buf = []).
        { rewrite orb_true_r in Eg. cbn in Eg. destruct buf; [reflexivity|discriminate]. }
        subst buf. cbn [view apply_wrs fold_left] in *.
        pose proof (sumw_set _ _ _ [] Eb) as Hs. cbn [wlocks] in Hs.
        destruct L as [(L0 & -> & Hb0 & Ha0)|(-> & Hb0 & Ha0)].
        -- constructor; cbn [sc obuf tbufs mm thv apply_wrs fold_left apply_wr lck]; auto.
           ++ rewrite Hs. unfold holders in *. cbn [own thv] in *. rewrite Hc, Hb0, Ha0. cbn [b2z]. lia.
           ++ rewrite Hs. unfold holders in *. cbn [own thv] in *. rewrite Hc, Hb0, Ha0. cbn [b2z]. lia.
           ++ apply Forall_set_nthA; auto.
           ++ rewrite set_nthA_length, set_nth_length. auto.
        -- constructor; cbn [sc obuf tbufs mm thv apply_wrs fold_left]; auto.
           ++ rewrite Hs. unfold holders in *. cbn [own thv] in *. rewrite Hc, Hb0, Ha0. cbn [b2z]. lia.
           ++ rewrite Hs. unfold holders in *. cbn [own thv] in *. rewrite Hc, Hb0, Ha0. cbn [b2z]. lia.
           ++ apply Forall_set_nthA; auto.
           ++ rewrite set_nthA_length, set_nth_length. auto.
      * destruct L as (L1 & L2 & L3).
        pose proof (sumw_set _ _ _ (buf ++ ws) Eb) as Hs. rewrite wlocks_app in Hs.
        constructor; cbn [sc obuf tbufs mm thv]; auto.
        -- rewrite Hs. unfold holders in *. cbn [own thv] in *. rewrite Hc. lia.
        -- rewrite Hs. unfold holders in *. cbn [own thv] in *. rewrite Hc. lia.
        -- apply Forall_set_nthA; auto. apply Forall_app. split; auto.
        -- rewrite set_nthA_length, set_nth_length. auto.
    + (* ret *) unfold step in E. rewrite Ea in E.
      destruct (nth_error (thv (sc s)) i) as [pc|] eqn:Ei; [|discriminate].
      destruct pc; try discriminate. inversion E; subst; clear E.
      pose proof (cnt_set holds_t _ _ _ TIdle Ei) as Hc. cbn [holds_t b2z] in Hc.
      constructor; cbn [sc obuf tbufs mm thv]; auto; unfold holders in *; cbn [own thv] in *; try rewrite Hc; try lia.
      rewrite set_nth_length. auto.
  - (* thief flush *)
    destruct (nth_error (tbufs s) i) as [buf|] eqn:Eb; [|discriminate].
    destruct (flush_one (mm (sc s)) buf) as [[m' rest]|] eqn:Ef; [|discriminate].
    inversion E; subst; clear E.
    destruct buf as [|w r]; cbn in Ef; [discriminate|]. inversion Ef; subst; clear Ef.
    pose proof (Forall_nth_error _ _ _ _ T4 Eb) as Fb. inversion Fb; subst.
    pose proof (sumw_set _ _ _ rest Eb) as Hs. cbn [wlocks] in Hs.
    pose proof (sumw_ge _ _ _ Eb) as Hg. cbn [wlocks] in Hg.
    constructor; cbn [sc obuf tbufs mm thv]; auto.
    + rewrite lck_apply_wr, Hs. unfold holders in *. cbn [own thv] in *.
      pose proof (wlocks_nonneg rest).
      destruct w; cbn [is_wlock b2z wl0] in *; try lia.
    + rewrite Hs. unfold holders in *. cbn [own thv] in *. destruct (is_wlock w); cbn [b2z] in *; lia.
    + apply Forall_set_nthA; auto.
    + rewrite set_nthA_length. auto.
Qed.

Lemma cnt_ge1 f (l : list tpc) : forall i x, nth_error l i = Some x -> f x = true -> 1 <= cnt f l.
Proof.
  induction l as [|y l IH]; intros [|i] x H Hx; cbn [cnt nth_error] in *; try discriminate.
  - inversion H; subst. rewrite Hx. pose proof (cnt_nonneg f l). cbn [b2z]. lia.
  - specialize (IH i x H Hx). destruct (f y); cbn [b2z]; lia.
Qed.
Lemma cnt_ge2 f (l : list tpc) : forall i j x y, i <> j ->
  nth_error l i = Some x -> nth_error l j = Some y -> f x = true -> f y = true -> 2 <= cnt f l.
Proof.
  induction l as [|z l IH]; intros [|i] [|j] x y Hne Hi Hj Hx Hy; cbn [cnt nth_error] in *;
    try discriminate; try congruence.
  - inversion Hi; subst. rewrite Hx. pose proof (cnt_ge1 f l j y Hj Hy). cbn [b2z]. lia.
  - inversion Hj; subst. rewrite Hy. pose proof (cnt_ge1 f l i x Hi Hx). cbn [b2z]. lia.
  - assert (Hne' : i <> j) by congruence. specialize (IH i j x y Hne' Hi Hj Hx Hy).
    destruct (f z); cbn [b2z]; lia.
Qed.

(** mutual exclusion under TSO, whatever the fence table *)
Theorem tso_lock_excl t s : reachable tso_initial (tso_step t) s ->
  0 <= holders (sc s) <= 1 /\
  (lck (mm (sc s)) = 0 \/ lck (mm (sc s)) = 1) /\
  (holders (sc s) = 1 -> lck (mm (sc s)) = 1) /\
  (forall i j pi pj, nth_error (thv (sc s)) i = Some pi -> nth_error (thv (sc s)) j = Some pj ->
     holds_t pi = true -> holds_t pj = true -> i = j) /\
  (forall i pi, holds_o (own (sc s)) = true -> nth_error (thv (sc s)) i = Some pi -> holds_t pi = false).
Proof.
  intros Hr.
  assert (T : TL s).
  { revert s Hr. apply invariant_rule; [apply TL_init|]. intros s0 a s1 H E. eapply TL_step; eauto. }
  destruct T as [T1 T2 T3 T4 T5].
  pose proof (wlocks_nonneg (obuf s)) as N1. pose proof (sumw_nonneg (tbufs s)) as N2.
  assert (N3 : 0 <= cnt holds_t (thv (sc s))) by apply cnt_nonneg.
  unfold holders in *.
  assert (N4 : 0 <= b2z (holds_o (own (sc s))) <= 1) by (destruct (holds_o (own (sc s))); cbn [b2z]; lia).
  split; [lia|]. split; [lia|]. split; [lia|]. split.
  - intros i j pi pj Hi Hj Hpi Hpj.
    destruct (Nat.eq_dec i j) as [|Hne]; auto. exfalso.
    pose proof (cnt_ge2 holds_t _ _ _ _ _ Hne Hi Hj Hpi Hpj). lia.
  - intros i pi Ho Hi. destruct (holds_t pi) eqn:Hp; auto. exfalso.
    rewrite Ho in *. cbn [b2z] in *.
    pose proof (cnt_ge1 holds_t _ _ _ Hi Hp). lia.
Qed.
