(** C02 - TSO invariant: the owner's program steps. *)
From Coq Require Import ZArith List Lia Bool.
From MT Require Import Lib.Interleave Wsq.WsqModel Wsq.WsqLists Wsq.WsqInv Wsq.WsqProofs
                       Wsq.TsoModel Wsq.TsoLock Wsq.TsoInv.
Import ListNotations.
Local Open Scope list_scope.
Local Open Scope Z_scope.

Lemma ok_parts t : fence_table_ok t = true ->
  is_full (f_pop_rw t) = true /\ is_full (f_take_rw t) = true /\ is_full (f_unlock t) = true.
Proof.
  unfold fence_table_ok. intros H. apply andb_true_iff in H. destruct H as [H H3].
  apply andb_true_iff in H. tauto.
Qed.

Lemma holds_o_not_rmw o : holds_o o = true -> owner_rmw o = false.
Proof. destruct o; cbn; auto; discriminate. Qed.

Lemma guard_drained (a b c : bool) {A} (l : list A) :
  ((a || b || c) && negb (isnil l)) = false -> a = true \/ b = true \/ c = true -> l = [].
Proof.
  intros G H. destruct l; auto. cbn in G. rewrite andb_true_r in G.
  destruct a, b, c; cbn in G; try discriminate; destruct H as [H|[H|H]]; discriminate.
Qed.

(** leaving the critical section = the unlock step: one store, after the unlock fence *)
Lemma owner_unlock_step v sz o ws o' g t :
  owner_tick v sz o = Some (ws, o', g) -> holds_o o = true -> holds_o o' = false ->
  ws = [WLock 0] /\ g = GNone /\ oc o' = false /\ ofence_before t o = f_unlock t /\
  (forall x, o' <> OPopFast x) /\ (forall x, o' <> OPopReadBase x).
Proof.
  intros E H H'. destruct o; cbn [owner_tick holds_o] in *; try discriminate;
    repeat match type of E with
           | context [if ?c then _ else _] => destruct c
           end; inversion E; subst; cbn [holds_o] in *; try discriminate;
    repeat split; auto; intros; discriminate.
Qed.

Lemma owner_cs_stores v sz o ws o' g :
  owner_tick v sz o = Some (ws, o', g) -> holds_o o = true -> holds_o o' = true -> Forall nolock ws.
Proof.
  intros E H H'. pose proof (owner_tick_lock _ _ _ _ _ _ E) as L. unfold lock_effect in L.
  rewrite (holds_o_not_rmw _ H) in L. rewrite H, H' in L. cbn [b2z] in L.
  apply wlocks_zero_nolock. lia.
Qed.

Lemma meq_view_L M ob o h : meq (view M ob) (Lmem M ob [] o h).
Proof.
  unfold view. eapply meq_trans; [apply meq_strip|]. apply meq_sym. apply Lmem_meq.
Qed.

Lemma Core_to_Lmem M ob hb o h sz P R m :
  meq m (Lq M ob hb) -> lkof o h = 0 \/ lkof o h = 1 -> Core m sz o h P R ->
  Core (Lmem M ob hb o h) sz o h P R.
Proof.
  intros E K C. eapply Core_meq; [| | |exact C].
  - eapply meq_trans; [exact E|]. apply meq_sym. apply Lmem_meq.
  - reflexivity.
  - exact K.
Qed.

(** ** Steps inside the owner's critical section (including the unlock) *)
Lemma T_owner_cs t M sz o ob om h hb hm np P R ws o' g :
  fence_table_ok t = true ->
  TCore M sz o ob om h hb hm np P R -> holds_o o = true ->
  ((om || owner_rmw o || is_full (ofence_before t o)) && negb (isnil ob)) = false ->
  owner_tick (view M ob) sz o = Some (ws, o', g) ->
  TCore M sz o' (ob ++ ws) (is_full (ofence_after t o o')) h hb hm np
        (ghost_pushed g P) (ghost_returned g R).
Proof.
  intros OK T Ho G E. destruct (ok_parts t OK) as (_ & _ & FU).
  destruct (TCore_owner_holds _ _ _ _ _ _ _ _ _ _ _ T Ho) as (Hh & -> & -> & W & L1).
  pose proof (holds_o_not_rmw _ Ho) as Er.
  tc_open T.
  assert (EL : owner_tick (Lmem M ob [] o h) sz o = Some (ws, o', g)).
  { rewrite <- E. symmetry. apply owner_tick_meq; [apply meq_view_L|right; auto]. }
  pose proof (owner_core_step _ _ _ _ _ _ _ _ _ TC EL) as C'.
  destruct (holds_o o') eqn:Ho'.
  - (* still inside *)
    pose proof (owner_cs_stores _ _ _ _ _ _ E Ho Ho') as Fw.
    assert (K : lkof o' h = 1) by (unfold lkof; rewrite Ho', Hh; reflexivity).
    constructor; auto; try (intros; congruence).
    + eapply Core_to_Lmem; [| rewrite K; auto |exact C'].
      rewrite Lq_owner_app by auto. apply meq_apply_wrs. apply Lmem_meq.
    + rewrite wlocks_app, (nolock_wlocks ws) by auto. unfold lkof in *. rewrite Ho, Ho' in *. lia.
    + split; [intros _; apply Forall_app; split; auto; apply wlocks_zero_nolock; auto|].
      split; [intros; congruence|]. intros x ->. discriminate.
    + intros x ->. discriminate.
    + constructor.
  - (* the unlock *)
    destruct (owner_unlock_step _ _ _ _ _ _ t E Ho Ho') as (-> & -> & Hoc & Hf & N1 & N2).
    assert (Eb : ob = []).
    { eapply guard_drained; [exact G|]. right; right. rewrite Hf. exact FU. }
    subst ob. cbn [app].
    assert (K : lkof o' h = 0) by (unfold lkof; rewrite Ho', Hh; reflexivity).
    assert (ELq : Lq M [WLock 0] [] = M) by reflexivity.
    constructor; auto; unfold LT, LB; rewrite ?ELq; cbn [optrs omax pord]; auto.
    + eapply Core_to_Lmem; [| rewrite K; auto |exact C'].
      rewrite ELq. eapply meq_trans; [apply meq_apply_wrs; apply Lmem_meq|]. cbn. apply meq_wlock.
    + cbn [wlocks is_wlock b2z]. unfold lkof in *. rewrite Ho, Ho', Hh in *. cbn [b2z] in *. lia.
    + split; [intros; congruence|]. split; [intros _; right; exists []; split; auto; constructor|].
      intros x Hx. exfalso. eapply N1; eauto.
    + intros x Hx. exfalso. eapply N2; eauto.
    + intros _. rewrite Hoc. cbn. lia.
    + intros _. rewrite (nh_hc _ Hh). cbn. lia.
    + intros _ i j [].
Qed.

(** ** The CAS of the owner's trylock *)
Lemma T_owner_cas t M sz o ob om h hb hm np P R ws o' g :
  TCore M sz o ob om h hb hm np P R -> owner_rmw o = true ->
  ((om || owner_rmw o || is_full (ofence_before t o)) && negb (isnil ob)) = false ->
  owner_tick (view M ob) sz o = Some (ws, o', g) ->
  TCore (apply_wrs M ws) sz o' ob (is_full (ofence_after t o o')) h hb hm np
        (ghost_pushed g P) (ghost_returned g R).
Proof.
  intros T Er G E.
  assert (Eb : ob = []) by (eapply guard_drained; [exact G|]; right; left; exact Er).
  subst ob. cbn [view apply_wrs fold_left] in E.
  pose proof (owner_tick_lock _ _ _ _ _ _ E) as L. unfold lock_effect in L. rewrite Er in L.
  destruct L as [(L0 & -> & Hb0 & Ha0)|(-> & Hb0 & Ha0)].
  2:{ exfalso. destruct o; cbn in Er; try discriminate; cbn [owner_tick] in E;
      destruct (lck M =? 0); inversion E; subst; discriminate. }
  tc_open T. destruct TL as (K1 & K2 & K3). cbn [wlocks] in *.
  assert (K0 : lkof o h = 0 /\ np = 0).
  { unfold lkof in *. destruct (b2z_01 (holds_o o)), (b2z_01 (holds_t h)); lia. }
  destruct K0 as [K0 ->].
  assert (Hh : holds_t h = false).
  { unfold lkof in K0. rewrite Hb0 in K0. destruct (holds_t h); cbn in *; [lia|auto]. }
  pose proof (hshape_nohold _ _ _ Hh THS) as ->.
  assert (EL : owner_tick (Lmem M [] [] o h) sz o = Some ([WLock 1], o', g)).
  { rewrite <- E. symmetry. apply owner_tick_meq; [apply (meq_view_L M [] o h)|left]. cbn. rewrite K0. auto. }
  pose proof (owner_core_step _ _ _ _ _ _ _ _ _ TC EL) as C'.
  assert (K : lkof o' h = 1) by (unfold lkof; rewrite Ha0, Hh; reflexivity).
  assert (Gn : g = GNone).
  { destruct o; cbn in Er; try discriminate; cbn [owner_tick] in E; destruct (lck M =? 0); inversion E; auto. }
  subst g.
  constructor; auto; try (intros; congruence).
  - eapply Core_to_Lmem; [| rewrite K; auto |exact C'].
    cbn. unfold meq. cbn. auto.
  - cbn [apply_wrs fold_left apply_wr lck wlocks]. unfold lkof in *. rewrite Ha0, Hh. cbn. lia.
  - split; [intros _; constructor|]. split; [intros; congruence|]. intros x ->. discriminate.
  - intros x ->. discriminate.
  - constructor.
Qed.

(** ** Lock-free steps of the owner *)

Lemma Lmem_owner_irrel M ob hb o o' h : holds_o o' = holds_o o -> Lmem M ob hb o' h = Lmem M ob hb o h.
Proof. intros H. unfold Lmem, lkof. rewrite H. reflexivity. Qed.

(** a step that stores nothing and changes neither T nor the owner's lock status *)
Lemma T_owner_pure M sz o ob om om' h hb hm np P R o' P' R' :
  TCore M sz o ob om h hb hm np P R ->
  Core (Lmem M ob hb o' h) sz o' h P' R' ->
  holds_o o = false -> holds_o o' = false -> oc o' = oc o ->
  (forall x, o' = OPopFast x -> ob = []) -> (forall x, o' = OPopReadBase x -> om' = true) ->
  TCore M sz o' ob om' h hb hm np P' R'.
Proof.
  intros T C Ho Ho' Hoc N1 N2. tc_open T.
  constructor; auto; unfold LT, LB, lkof in *; rewrite ?Ho', ?Hoc in *; rewrite ?Ho in *; auto.
  destruct TOS as (S1 & S2 & S3). split; [intros; congruence|]. split; auto.
Qed.

Lemma Core_popquick m sz h P R : Core m sz OPopQuick h P R ->
  Core m sz (ODone 0) h P R /\ Core m sz OPopReadTop h P R.
Proof. intros C. split; core_open C; core_goal; fin. Qed.

Lemma Core_popreadbase_slow m sz t h P R : Core m sz (OPopReadBase t) h P R -> Core m sz (OPopLock t) h P R.
Proof. intros C. core_open C; core_goal; fin. Qed.

Lemma Core_popreadbase_fast m sz t h P R : Core m sz (OPopReadBase t) h P R ->
  Bq m h + 1 < t -> Core m sz (OPopFast t) h P R.
Proof.
  intros C Hlt. core_open C. subst t. core_goal; fin.
  intro y. rewrite (C4 y). rewrite zseg_snoc by lia. rewrite Z.add_0_r. occ_norm. lia.
Qed.

Lemma top_view_L M ob hb o h : Forall thw hb -> top (view M ob) = top (Lmem M ob hb o h).
Proof. intros F. cbn. rewrite Lq_top by auto. reflexivity. Qed.

Lemma oshape_app o o' ob w : oshape o ob -> holds_o o = false -> holds_o o' = false -> lf w ->
  (forall x, o' <> OPopFast x) -> oshape o' (ob ++ [w]).
Proof.
  intros (S1 & S2 & S3) Ho Ho' Hw N. split; [intros; congruence|]. split.
  - intros _. destruct (S2 Ho) as [F|(r & -> & F)].
    + left. apply Forall_app. split; auto.
    + right. exists (r ++ [w]). split; auto. apply Forall_app. split; auto.
  - intros x Hx. exfalso. eapply N; eauto.
Qed.

Lemma lf_base_same w m : lf w -> base (apply_wr m w) = base m.
Proof. destruct w; cbn; intros H; try contradiction; auto. Qed.

(** the owner buffers one lock-free store [w] *)
Lemma T_owner_append M sz o ob om om' h hb hm np P R o' w P' R' :
  TCore M sz o ob om h hb hm np P R ->
  holds_o o = false -> holds_o o' = false -> lf w ->
  Core (apply_wr (Lmem M ob hb o h) w) sz o' h P' R' ->
  (forall x, o' <> OPopFast x) -> (forall x, o' = OPopReadBase x -> om' = true) ->
  LT M ob hb o <= top (apply_wr (Lq M ob hb) w) + b2z (oc o') ->
  (forall v, w = WTop v -> v <= top (apply_wr (Lq M ob hb) w) + b2z (oc o')) ->
  (forall i x, w = WPtr i x -> LT M ob hb o <= i /\ LB M ob hb h <= i) ->
  TCore M sz o' (ob ++ [w]) om' h hb hm np P' R'.
Proof.
  intros T Ho Ho' Hw C N1 N2 HT Hv Hp. tc_open T.
  assert (Hn : Forall nolock [w]) by (constructor; [apply lf_nolock; auto|constructor]).
  assert (E : Lq M (ob ++ [w]) hb = apply_wr (Lq M ob hb) w) by (rewrite Lq_owner_app by auto; reflexivity).
  assert (Eb : base (apply_wr (Lq M ob hb) w) = base (Lq M ob hb)) by (apply lf_base_same; auto).
  assert (K : lkof o' h = lkof o h) by (unfold lkof; rewrite Ho, Ho'; reflexivity).
  destruct TL as (K1 & K2 & K3).
  assert (K01 : lkof o h = 0 \/ lkof o h = 1).
  { pose proof (wlocks_nonneg ob). unfold lkof in *. destruct (b2z_01 (holds_o o)), (b2z_01 (holds_t h)); lia. }
  constructor; unfold LT, LB in *; rewrite ?E, ?Eb; auto.
  - eapply Core_to_Lmem; [| rewrite K; auto |exact C]. rewrite E. apply meq_apply_wr. apply Lmem_meq.
  - rewrite K, wlocks_app. cbn [wlocks]. rewrite (lf_nolock w Hw). cbn [b2z]. lia.
  - eapply oshape_app; eauto.
  - intros _. specialize (TTOPS Ho). rewrite omax_app. destruct w; cbn [omax]; try lia.
    specialize (Hv _ eq_refl). lia.
  - intros _. apply pord_app. split; [auto|]. specialize (TTOPS Ho).
    destruct w; cbn [pord]; auto. destruct (Hp _ _ eq_refl). split; auto. lia.
  - intros _. rewrite optrs_app. apply Forall_app. split; [apply (TLIVE Ho)|].
    destruct w; cbn [optrs]; auto. destruct (Hp _ _ eq_refl). constructor; auto.
  - eapply Forall_impl; [|exact THPTR]. cbn. intros j [J1 J2]. split; auto. lia.
  - intros _ i j Hi Hj. rewrite optrs_app in Hi. apply in_app_or in Hi. destruct Hi as [Hi|Hi].
    + apply (TDISJ Ho); auto.
    + destruct w; cbn [optrs In] in Hi; try contradiction. destruct Hi as [<-|[]].
      destruct (Hp _ _ eq_refl). rewrite Forall_forall in THPTR. destruct (THPTR _ Hj). lia.
Qed.

Lemma T_owner_free t M sz o ob om h hb hm np P R ws o' g :
  fence_table_ok t = true ->
  TCore M sz o ob om h hb hm np P R -> holds_o o = false -> owner_rmw o = false ->
  ((om || owner_rmw o || is_full (ofence_before t o)) && negb (isnil ob)) = false ->
  owner_tick (view M ob) sz o = Some (ws, o', g) ->
  TCore M sz o' (ob ++ ws) (is_full (ofence_after t o o')) h hb hm np
        (ghost_pushed g P) (ghost_returned g R).
Proof.
  intros OK T Ho Er G E. destruct (ok_parts t OK) as (FP & _ & _).
  assert (Fh : Forall thw hb) by (eapply hshape_thw; exact (tc_hsh _ _ _ _ _ _ _ _ _ _ _ T)).
  pose proof (top_view_L M ob hb o h Fh) as Et.
  pose proof (tc_core _ _ _ _ _ _ _ _ _ _ _ T) as TC.
  destruct o; cbn [holds_o owner_rmw] in *; try discriminate; cbn [owner_tick] in E; try discriminate.
  - (* OPushReadTop *)
    assert (EL : owner_tick (Lmem M ob hb (OPushReadTop x) h) sz (OPushReadTop x) = Some (ws, o', g))
      by (cbn [owner_tick]; rewrite <- Et; exact E).
    pose proof (owner_core_step _ _ _ _ _ _ _ _ _ TC EL) as C'.
    destruct (top (view M ob) =? sz); inversion E; subst; clear E; rewrite app_nil_r;
      (eapply T_owner_pure; [exact T| | | | | |]; auto; try (intros; discriminate));
      (rewrite (Lmem_owner_irrel M ob hb (OPushReadTop x)) by reflexivity; exact C').
  - (* OPushSlot *)
    inversion E; subst; clear E.
    assert (EL : owner_tick (Lmem M ob hb (OPushSlot x t0) h) sz (OPushSlot x t0) = Some ([WPtr t0 x], OPushTop x t0, GNone))
      by reflexivity.
    pose proof (owner_core_step _ _ _ _ _ _ _ _ _ TC EL) as C'.
    pose proof (c_own _ _ _ _ _ _ TC) as Ow. pose proof (c_bnd _ _ _ _ _ _ TC) as Bd.
    cbn [oinv] in Ow. rewrite Tq_Lmem, Bq_Lmem in Bd. destruct Ow as [Ow _].
    change (top (Lmem M ob hb (OPushSlot x t0) h)) with (top (Lq M ob hb)) in Ow.
    unfold LT in Bd. cbn [oc b2z] in Bd.
    eapply T_owner_append; [exact T| | | |exact C'| | | | |]; auto; cbn [lf oc b2z apply_wr top]; auto;
      try (intros; discriminate).
    + unfold LT. cbn [oc b2z]. lia.
    + intros i y Ei. inversion Ei; subst i y. unfold LT. cbn [oc b2z]. lia.
  - (* OPushTop *)
    inversion E; subst; clear E.
    assert (EL : owner_tick (Lmem M ob hb (OPushTop x t0) h) sz (OPushTop x t0) = Some ([WTop (t0 + 1)], ODone 0, GPushed x))
      by reflexivity.
    pose proof (owner_core_step _ _ _ _ _ _ _ _ _ TC EL) as C'.
    pose proof (c_own _ _ _ _ _ _ TC) as Ow. cbn [oinv] in Ow. destruct Ow as [Ow _].
    change (top (Lmem M ob hb (OPushTop x t0) h)) with (top (Lq M ob hb)) in Ow.
    eapply T_owner_append; [exact T| | | |exact C'| | | | |]; auto; cbn [lf oc b2z apply_wr top]; auto;
      try (intros; discriminate).
    + unfold LT. cbn [oc b2z]. lia.
    + intros v Ev. inversion Ev. lia.
  - (* OPopQuick *)
    destruct (Core_popquick _ _ _ _ _ TC) as [C1 C2].
    destruct (top (view M ob) <=? base (view M ob)); inversion E; subst; clear E; rewrite app_nil_r;
      (eapply T_owner_pure; [exact T| | | | | |]; auto; try (intros; discriminate)).
  - (* OPopReadTop *)
    assert (EL : owner_tick (Lmem M ob hb OPopReadTop h) sz OPopReadTop = Some (ws, o', g))
      by (cbn [owner_tick]; rewrite <- Et; exact E).
    pose proof (owner_core_step _ _ _ _ _ _ _ _ _ TC EL) as C'.
    inversion E; subst; clear E. rewrite app_nil_r.
    eapply T_owner_pure; [exact T| | | | | |]; auto; try (intros; discriminate);
      try (rewrite (Lmem_owner_irrel M ob hb OPopReadTop) by reflexivity; exact C').
  - (* OPopWriteTop *)
    inversion E; subst; clear E.
    assert (EL : owner_tick (Lmem M ob hb (OPopWriteTop t0) h) sz (OPopWriteTop t0) = Some ([WTop t0], OPopReadBase t0, GNone))
      by reflexivity.
    pose proof (owner_core_step _ _ _ _ _ _ _ _ _ TC EL) as C'.
    pose proof (c_own _ _ _ _ _ _ TC) as Ow. cbn [oinv] in Ow.
    change (top (Lmem M ob hb (OPopWriteTop t0) h)) with (top (Lq M ob hb)) in Ow.
    eapply T_owner_append; [exact T| | | |exact C'| | | | |]; auto; cbn [lf oc b2z apply_wr top ofence_after]; auto;
      try (intros; discriminate).
    + unfold LT. cbn [oc b2z]. lia.
    + intros v Ev. inversion Ev. lia.
  - (* OPopReadBase *)
    assert (Eom : om = true) by (eapply (tc_om _ _ _ _ _ _ _ _ _ _ _ T); reflexivity).
    assert (Eb : ob = []) by (eapply guard_drained; [exact G|]; left; exact Eom).
    subst ob. cbn [view apply_wrs fold_left] in *.
    destruct (Z.ltb_spec (base M + 1) t0) as [Hf|Hs]; inversion E; subst; clear E; cbn [app].
    + (* lock-free path: memory's base does not lag behind the logical B *)
      pose proof (tc_base _ _ _ _ _ _ _ _ _ _ _ T eq_refl) as HB.
      assert (C' : Core (Lmem M [] hb (OPopReadBase t0) h) sz (OPopFast t0) h P R).
      { apply Core_popreadbase_fast; auto. rewrite Bq_Lmem. lia. }
      pose proof (c_own _ _ _ _ _ _ TC) as Ow. cbn [oinv] in Ow.
      change (top (Lmem M [] hb (OPopReadBase t0) h)) with (top (Lq M [] hb)) in Ow.
      assert (EtM : top (Lq M [] hb) = top M).
      { unfold Lq. cbn [strip filter apply_wrs fold_left]. apply top_apply. apply thw_notop; auto. }
      clear TC. tc_open T.
      constructor; auto; unfold LT, LB in *; cbn [oc b2z omax pord optrs] in *; auto; try (intros; discriminate).
      * split; [intros; discriminate|]. split; [intros _; left; constructor|]. auto.
      * intros _. rewrite EtM. lia.
      * eapply Forall_impl; [|exact THPTR]. cbn beta. intros j [J1 J2]. split; auto. lia.
    + pose proof (Core_popreadbase_slow _ _ _ _ _ _ TC) as C'.
      eapply T_owner_pure; [exact T| | | | | |]; auto; try (intros; discriminate);
        try (rewrite (Lmem_owner_irrel M [] hb (OPopReadBase t0)) by reflexivity; exact C').
  - (* OPopFast *)
    assert (Eb : ob = []) by (destruct (tc_osh _ _ _ _ _ _ _ _ _ _ _ T) as (_ & _ & S3); eapply S3; reflexivity).
    subst ob. cbn [view apply_wrs fold_left] in *. inversion E; subst; clear E. cbn [app].
    pose proof (c_own _ _ _ _ _ _ TC) as Ow. pose proof (c_bnd _ _ _ _ _ _ TC) as Bd.
    cbn [oinv] in Ow. rewrite Tq_Lmem, Bq_Lmem in Bd. unfold LT, LB in Bd. cbn [oc b2z] in Bd.
    change (top (Lmem M [] hb (OPopFast t0) h)) with (top (Lq M [] hb)) in Ow.
    assert (Hc : 0 <= b2z (hc h)) by (destruct (hc h); cbn; lia).
    assert (Ev : znth (ptr (Lmem M [] hb (OPopFast t0) h)) t0 = znth (ptr M) t0).
    { cbn. unfold Lq. cbn [strip filter apply_wrs fold_left]. apply znth_apply; [lia|].
      apply thw_ptr_ok; auto.
      pose proof (tc_hptr _ _ _ _ _ _ _ _ _ _ _ T) as HP. eapply Forall_impl; [|exact HP].
      cbn. unfold LT. cbn [oc b2z]. intros j [_ J]. lia. }
    assert (EL : owner_tick (Lmem M [] hb (OPopFast t0) h) sz (OPopFast t0) =
                 Some ([], ODone (znth (ptr M) t0), GReturned (znth (ptr M) t0)))
      by (cbn [owner_tick]; rewrite Ev; reflexivity).
    pose proof (owner_core_step _ _ _ _ _ _ _ _ _ TC EL) as C'.
    eapply T_owner_pure; [exact T| | | | | |]; auto; try (intros; discriminate);
      try (rewrite (Lmem_owner_irrel M [] hb (OPopFast t0)) by reflexivity; exact C').
Qed.

(** ** Every program step of the owner *)
Theorem T_owner_tick t M sz o ob om h hb hm np P R ws o' g :
  fence_table_ok t = true ->
  TCore M sz o ob om h hb hm np P R ->
  ((om || owner_rmw o || is_full (ofence_before t o)) && negb (isnil ob)) = false ->
  owner_tick (view M ob) sz o = Some (ws, o', g) ->
  TCore (if owner_rmw o then apply_wrs M ws else M) sz o'
        (if owner_rmw o then ob else ob ++ ws) (is_full (ofence_after t o o')) h hb hm np
        (ghost_pushed g P) (ghost_returned g R).
Proof.
  intros OK T G E. destruct (owner_rmw o) eqn:Er.
  - eapply T_owner_cas; eauto. rewrite Er. exact G.
  - destruct (holds_o o) eqn:Ho.
    + eapply T_owner_cs; eauto. rewrite Er. exact G.
    + eapply T_owner_free; eauto. rewrite Er. exact G.
Qed.

(** calls and returns of the owner touch neither memory nor buffers *)
Lemma T_owner_call M sz ob om h hb hm np P R op :
  TCore M sz OIdle ob om h hb hm np P R -> TCore M sz (owner_call op) ob om h hb hm np P R.
Proof.
  intros T. pose proof (tc_core _ _ _ _ _ _ _ _ _ _ _ T) as TC.
  assert (C' : Core (Lmem M ob hb OIdle h) sz (owner_call op) h P R) by (apply Core_owner_call; exact TC).
  destruct op; cbn [owner_call] in *;
    (eapply T_owner_pure; [exact T| | | | | |]; auto; try (intros; discriminate)).
Qed.
Lemma T_owner_ret M sz ob om h hb hm np P R r :
  TCore M sz (ODone r) ob om h hb hm np P R -> TCore M sz OIdle ob om h hb hm np P R.
Proof.
  intros T. pose proof (tc_core _ _ _ _ _ _ _ _ _ _ _ T) as TC.
  assert (C' : Core (Lmem M ob hb (ODone r) h) sz OIdle h P R) by (eapply Core_owner_ret; exact TC).
  eapply T_owner_pure; [exact T| | | | | |]; auto; try (intros; discriminate).
Qed.
