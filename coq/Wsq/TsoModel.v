(** C02 - the same deque program (Wsq/WsqModel.v: [owner_tick], [thief_tick]) under x86-TSO.

    Every participant has a FIFO store buffer.  A step reads through the participant's own
    buffer (store forwarding: the view is memory overlaid with the buffered stores, oldest
    first) and appends its stores to the buffer.  [Flush p] moves the oldest buffered store
    of participant [p] to memory, at any time.  A locked instruction (the CAS of trylock)
    needs an empty buffer and acts on memory directly.  A participant that has executed a
    [Full] fence cannot make its next step before its buffer has drained.

    Which barrier call is [Full] is DATA: a [fence_table] gives, for each position at which
    the deque code calls a barrier function, the class of what is executed there.  The check
    regenerates the table from the current tree on every run (gcc -S of the barrier
    functions + the fence EVENTs observed at each position) and [fence_table_ok] is
    evaluated on it by [vm_compute].

    The file also contains a small generic litmus machine over the same buffer primitives
    ([view], [flush_one]) used for the classical store-buffering and message-passing tests.

    Approximation: the memmove of a re-centring is one buffered block store ([WBlk]). *)
From Coq Require Import ZArith List Bool.
From MT Require Import Wsq.WsqModel.
Import ListNotations.
Local Open Scope list_scope.
Local Open Scope Z_scope.

Inductive fclass := Full | CompilerOnly | Nothing.
Definition is_full (c : fclass) : bool := match c with Full => true | _ => false end.

(** positions of barrier calls in the deque code *)
Record fence_table := mkFT {
  f_push_r : fclass;    (* push: myth_wsqueue_rbarrier after reading top                  *)
  f_push_w : fclass;    (* push: myth_wsqueue_wbarrier between the slot and top stores     *)
  f_pop_rw : fclass;    (* pop : myth_wsqueue_rwbarrier between "top = t" and reading base *)
  f_take_rw : fclass;   (* take: myth_wsqueue_rwbarrier between "base = b+1" and reading top *)
  f_take_r : fclass;    (* take: myth_wsqueue_rbarrier before reading the slot             *)
  f_pass_w : fclass;    (* trypass: myth_wsqueue_wbarrier between the slot and base stores *)
  f_unlock : fclass     (* spin unlock: myth_rwbarrier before "locked = 0"                 *)
}.

(** the placement of the pinned tree under MYTH_BARRIER_CILK on x86 (xchg = Full) *)
Definition pinned_table : fence_table := mkFT Full CompilerOnly Full Full Full CompilerOnly Full.

(** the placement is accepted iff a [Full] fence separates pop's store to top from its load
    of base (see [C02_tso_fence_needed] for what happens otherwise), take's store to base from
    its load of top, and the critical-section stores from the unlocking store (on x86 all three
    are the xchg of myth_rwbarrier).  The other positions are arbitrary.  [C02_tso_sound]
    (Wsq/TsoSound.v) shows that every accepted placement keeps the deque invariant under TSO. *)
Definition fence_table_ok (t : fence_table) : bool :=
  is_full (f_pop_rw t) && is_full (f_take_rw t) && is_full (f_unlock t).

(** * Buffer primitives *)
Definition view (m : mem) (buf : list wr) : mem := apply_wrs m buf.
Definition flush_one (m : mem) (buf : list wr) : option (mem * list wr) :=
  match buf with [] => None | w :: rest => Some (apply_wr m w, rest) end.

(** * The deque under TSO *)

Record tstate := mkT {
  sc : state;                   (* [mm (sc _)] is main memory; pcs and ghosts as under SC *)
  obuf : list wr;               (* owner's store buffer, oldest first *)
  omark : bool;                 (* owner executed a Full fence: must drain before its next step *)
  tbufs : list (list wr);
  tmarks : list bool
}.

Inductive tev := Do (e : ev) | Flush.
Definition tactor := (nat * tev)%type.

(** fence executed after the access of the step at [pc] (it leads to [pc']) *)
Definition ofence_after (t : fence_table) (pc pc' : opc) : fclass :=
  match pc with
  | OPushReadTop _ => f_push_r t
  | OPushSlot _ _ => f_push_w t
  | OPopWriteTop _ => f_pop_rw t
  | _ => Nothing
  end.
Definition tfence_after (t : fence_table) (pc pc' : tpc) : fclass :=
  match pc, pc' with
  | TWriteBase _ _, _ => f_take_rw t
  | TReadTop MTake _, TSlot _ _ => f_take_r t
  | TPassSlot _ _, _ => f_pass_w t
  | _, _ => Nothing
  end.
(** fence executed before the access of the step at [pc] (the unlock store) *)
Definition ofence_before (t : fence_table) (pc : opc) : fclass :=
  match pc with OPushUnlock _ _ | OPopUnlock _ | OPutUnlock => f_unlock t | _ => Nothing end.
Definition tfence_before (t : fence_table) (pc : tpc) : fclass :=
  match pc with TUnlock _ | TUnlockP => f_unlock t | _ => Nothing end.

Fixpoint set_nthA {A : Type} (l : list A) (n : nat) (x : A) : list A :=
  match l, n with
  | [], _ => []
  | _ :: r, O => x :: r
  | h :: r, S n' => h :: set_nthA r n' x
  end.

Definition isnil {A : Type} (l : list A) : bool := match l with [] => true | _ => false end.

Definition tso_step (t : fence_table) (s : tstate) (a : tactor) : option tstate :=
  let c := sc s in
  if aborted c then None else
  match a with
  | (O, Flush) =>
      match flush_one (mm c) (obuf s) with
      | Some (m', rest) =>
          Some (mkT (mkState m' (qsize c) (own c) (thv c) (pushed c) (returned c) false)
                    rest (omark s) (tbufs s) (tmarks s))
      | None => None
      end
  | (S i, Flush) =>
      match nth_error (tbufs s) i with
      | Some buf =>
          match flush_one (mm c) buf with
          | Some (m', rest) =>
              Some (mkT (mkState m' (qsize c) (own c) (thv c) (pushed c) (returned c) false)
                        (obuf s) (omark s) (set_nthA (tbufs s) i rest) (tmarks s))
          | None => None
          end
      | None => None
      end
  | (O, Do Tick) =>
      let pc := own c in
      let drained := isnil (obuf s) in
      if (omark s || owner_rmw pc || is_full (ofence_before t pc)) && negb drained then None else
      match owner_tick (view (mm c) (obuf s)) (qsize c) pc with
      | Some (ws, pc', g) =>
          let rmw := owner_rmw pc in
          Some (mkT (mkState (if rmw then apply_wrs (mm c) ws else mm c) (qsize c) pc' (thv c)
                             (ghost_pushed g (pushed c)) (ghost_returned g (returned c)) (ghost_abort g))
                    (if rmw then obuf s else obuf s ++ ws)
                    (is_full (ofence_after t pc pc'))
                    (tbufs s) (tmarks s))
      | None => None
      end
  | (S i, Do Tick) =>
      match nth_error (thv c) i, nth_error (tbufs s) i, nth_error (tmarks s) i with
      | Some pc, Some buf, Some mark =>
          let drained := isnil buf in
          if (mark || thief_rmw pc || is_full (tfence_before t pc)) && negb drained then None else
          match thief_tick (view (mm c) buf) pc with
          | Some (ws, pc', g) =>
              let rmw := thief_rmw pc in
              Some (mkT (mkState (if rmw then apply_wrs (mm c) ws else mm c) (qsize c) (own c)
                                 (set_nth (thv c) i pc')
                                 (ghost_pushed g (pushed c)) (ghost_returned g (returned c)) (ghost_abort g))
                        (obuf s) (omark s)
                        (set_nthA (tbufs s) i (if rmw then buf else buf ++ ws))
                        (set_nthA (tmarks s) i (is_full (tfence_after t pc pc'))))
          | None => None
          end
      | _, _, _ => None
      end
  | (S i, Do (CallT o)) =>
      (* the unhooked QUICK_CHECK of peek / wsapi take reads through the caller's buffer *)
      match nth_error (thv c) i, nth_error (tbufs s) i with
      | Some TIdle, Some buf =>
          Some (mkT (mkState (mm c) (qsize c) (own c)
                             (set_nth (thv c) i (thief_call (view (mm c) buf) o))
                             (pushed c) (returned c) false)
                    (obuf s) (omark s) (tbufs s) (tmarks s))
      | _, _ => None
      end
  | (p, Do e) =>
      (* calls of the owner and returns touch no memory: as under SC *)
      match e with
      | Tick | CallT _ => None
      | _ =>
        match step c (p, e) with
        | Some c' => Some (mkT c' (obuf s) (omark s) (tbufs s) (tmarks s))
        | None => None
        end
      end
  end.

Definition tso_init (sz : Z) (n : nat) : tstate :=
  mkT (init_state sz n) [] false (repeat [] n) (repeat false n).

(** scheduling of programs, as [sched_step] of the SC model, plus flushes *)
Definition tso_sched_step (t : fence_table) (s : tstate) (pg : prog) (p : nat) (flush : bool)
  : option (tstate * prog) :=
  if flush then
    match tso_step t s (p, Flush) with Some s' => Some (s', pg) | None => None end
  else
    match sched_event (sc s) pg p with
    | Some (e, pg') =>
        match tso_step t s (p, Do e) with Some s' => Some (s', pg') | None => None end
    | None => None
    end.

Fixpoint tso_run (t : fence_table) (sch : list (nat * bool)) (s : tstate) (pg : prog) : tstate * prog :=
  match sch with
  | [] => (s, pg)
  | (p, f) :: rest =>
      match tso_sched_step t s pg p f with
      | Some (s', pg') => tso_run t rest s' pg'
      | None => tso_run t rest s pg
      end
  end.

(** an item handed out twice *)
Fixpoint has_dup (l : list Z) : bool :=
  match l with
  | [] => false
  | x :: r => existsb (Z.eqb x) r || has_dup r
  end.

(** * A generic litmus machine on two shared words (top and base of a [mem]) *)

Inductive var := X | Y.
Inductive instr := St (x : var) (v : Z) | Ld (x : var) | Fence (c : fclass).

Record lthread := mkL { code : list instr; regs : list Z; lbuf : list wr; lmark : bool }.
Record lstate := mkLS { lmem : mem; lthreads : list lthread }.

Definition st_wr (x : var) (v : Z) : wr := match x with X => WTop v | Y => WBase v end.
Definition ld_var (m : mem) (x : var) : Z := match x with X => top m | Y => base m end.

(** one instruction of thread [th] against memory [m] (None: disabled) *)
Definition lthread_step (m : mem) (th : lthread) : option lthread :=
  if lmark th && negb (isnil (lbuf th)) then None else
  match code th with
  | [] => None
  | St x v :: rest => Some (mkL rest (regs th) (lbuf th ++ [st_wr x v]) false)
  | Ld x :: rest => Some (mkL rest (regs th ++ [ld_var (view m (lbuf th)) x]) (lbuf th) false)
  | Fence c :: rest => Some (mkL rest (regs th) (lbuf th) (is_full c))
  end.

Definition lthread_flush (m : mem) (th : lthread) : option (mem * lthread) :=
  match flush_one m (lbuf th) with
  | Some (m', rest) => Some (m', mkL (code th) (regs th) rest (lmark th))
  | None => None
  end.

(** all successors of a litmus state *)
Fixpoint lsucc_from (m : mem) (pre post : list lthread) : list lstate :=
  match post with
  | [] => []
  | th :: rest =>
      (match lthread_step m th with
       | Some th' => [mkLS m (pre ++ th' :: rest)] | None => [] end) ++
      (match lthread_flush m th with
       | Some (m', th') => [mkLS m' (pre ++ th' :: rest)] | None => [] end) ++
      lsucc_from m (pre ++ [th]) rest
  end.
Definition lsucc (s : lstate) : list lstate := lsucc_from (lmem s) [] (lthreads s).

Definition linit (progs : list (list instr)) : lstate :=
  mkLS (mkMem 0 0 0 [] 0 0) (map (fun c => mkL c [] [] false) progs).

(** decidable equality of litmus states, for the reachable-set computation *)
Fixpoint list_eqb {A : Type} (f : A -> A -> bool) (a b : list A) : bool :=
  match a, b with
  | [], [] => true
  | x :: a', y :: b' => f x y && list_eqb f a' b'
  | _, _ => false
  end.
Definition wr_eqb (a b : wr) : bool :=
  match a, b with
  | WTop x, WTop y | WBase x, WBase y | WLock x, WLock y | WSeq x, WSeq y | WCptr x, WCptr y => x =? y
  | WPtr i x, WPtr j y => (i =? j) && (x =? y)
  | WBlk d xs, WBlk e ys => (d =? e) && list_eqb Z.eqb xs ys
  | _, _ => false
  end.
Definition fclass_eqb (a b : fclass) : bool :=
  match a, b with Full, Full | CompilerOnly, CompilerOnly | Nothing, Nothing => true | _, _ => false end.
Definition var_eqb (a b : var) : bool := match a, b with X, X | Y, Y => true | _, _ => false end.
Definition instr_eqb (a b : instr) : bool :=
  match a, b with
  | St x v, St y w => var_eqb x y && (v =? w)
  | Ld x, Ld y => var_eqb x y
  | Fence c, Fence d => fclass_eqb c d
  | _, _ => false
  end.
Definition lthread_eqb (a b : lthread) : bool :=
  list_eqb instr_eqb (code a) (code b) && list_eqb Z.eqb (regs a) (regs b) &&
  list_eqb wr_eqb (lbuf a) (lbuf b) && Bool.eqb (lmark a) (lmark b).
Definition mem_eqb (a b : mem) : bool :=
  (top a =? top b) && (base a =? base b) && (lck a =? lck b) && list_eqb Z.eqb (ptr a) (ptr b) &&
  (wseq a =? wseq b) && (wptr a =? wptr b).
Definition lstate_eqb (a b : lstate) : bool :=
  mem_eqb (lmem a) (lmem b) && list_eqb lthread_eqb (lthreads a) (lthreads b).

Definition lmember (s : lstate) (l : list lstate) : bool := existsb (lstate_eqb s) l.

(** breadth-first closure with fuel *)
Fixpoint lclosure (fuel : nat) (seen frontier : list lstate) : list lstate :=
  match fuel with
  | O => seen
  | S f =>
      match frontier with
      | [] => seen
      | _ =>
        let next := flat_map lsucc frontier in
        let fresh := fold_left (fun acc s => if lmember s seen || lmember s acc then acc else acc ++ [s])
                               next [] in
        lclosure f (seen ++ fresh) fresh
      end
  end.

Definition lclosed (set : list lstate) : bool :=
  forallb (fun s => forallb (fun s' => lmember s' set) (lsucc s)) set.

(** final = every thread has run out of code and drained its buffer *)
Definition lfinal (s : lstate) : bool :=
  forallb (fun th => isnil (code th) && isnil (lbuf th)) (lthreads s).
Definition reg (s : lstate) (t r : nat) : Z :=
  nth r (regs (nth t (lthreads s) (mkL [] [] [] false))) (-1).

(** store buffering (Dekker), with a fence of class [c] between the store and the load *)
Definition sb_prog (c : fclass) : list (list instr) :=
  [[St X 1; Fence c; Ld Y]; [St Y 1; Fence c; Ld X]].
(** message passing: no fence *)
Definition mp_prog : list (list instr) :=
  [[St X 1; St Y 1]; [Ld Y; Ld X]].
