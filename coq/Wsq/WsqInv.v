(** C02 - the inductive invariant of the deque under sequential consistency.

    [T := top + [owner has decremented top in pop and its decision is still pending]]
    [B := base - [the lock-holding thief has incremented base and its decision is pending]]

    The invariant is first stated and proved preserved on a "core" tuple (memory, owner pc,
    pc [h] of the only thief that may hold the lock, ghost lists); [WsqProofs.v] lifts it to
    states with any number of thieves. *)
From Coq Require Import ZArith List Lia Bool.
From MT Require Import Wsq.WsqModel Wsq.WsqLists.
Import ListNotations.
Local Open Scope Z_scope.

Definition b2z (b : bool) : Z := if b then 1 else 0.

(** owner between "q->top = top" of pop and the effect of its decision *)
Definition oc (pc : opc) : bool :=
  match pc with OPopReadBase _ | OPopLock _ | OPopSlow _ => true | _ => false end.
(** thief between "q->base = b+1" and the effect of its decision (take it / roll back) *)
Definition hc (pc : tpc) : bool :=
  match pc with TReadTop _ _ | TRollback _ _ => true | _ => false end.

(** program points at which the participant holds q->lock *)
Definition holds_o (pc : opc) : bool :=
  match pc with
  | OPushRecentre _ | OPushUnlock _ _ | OPopSlow _ | OPopUnlock _
  | OPutRecentre _ | OPutSlot _ _ | OPutBase _ _ | OPutUnlock => true
  | _ => false
  end.
Definition holds_t (pc : tpc) : bool :=
  match pc with
  | TReadBase _ | TWriteBase _ _ | TReadTop _ _ | TSlot _ _ | TDecide _ _ | TRollback _ _ | TUnlock _
  | TPassCheck _ | TPassSlot _ _ | TPassBase _ | TPeekCheck | TUnlockP => true
  | _ => false
  end.

(** items claimed (removed from the live range) but not yet handed to the caller *)
Definition oinfl (m : mem) (pc : opc) : list Z :=
  match pc with OPopFast t => [znth (ptr m) t] | _ => [] end.
Definition tinfl1 (m : mem) (pc : tpc) : list Z :=
  match pc with TSlot _ b | TDecide _ b => [znth (ptr m) b] | _ => [] end.

(** what the participants' locals are known to be *)
Definition oinv (m : mem) (sz : Z) (pc : opc) : Prop :=
  match pc with
  | OPushLock _ | OPushRecentre _ => top m = sz
  | OPushUnlock _ t | OPushSlot _ t => t = top m /\ t < sz
  | OPushTop x t => t = top m /\ t < sz /\ znth (ptr m) t = x
  | OPopWriteTop t => t = top m - 1
  | OPopReadBase t | OPopLock t | OPopSlow t | OPopFast t => t = top m
  | OPutSlot _ b => b = base m - 1 /\ 0 <= b
  | OPutBase x b => b = base m - 1 /\ 0 <= b /\ znth (ptr m) b = x
  | _ => True
  end.
Definition tinv (m : mem) (pc : tpc) : Prop :=
  match pc with
  | TWriteBase _ b => b = base m
  | TReadTop _ b | TRollback _ b => base m = b + 1
  | TSlot _ b | TDecide _ b => base m = b + 1 /\ 0 <= b
  | TPassSlot _ b => b = base m /\ 0 < b
  | TPassBase x => 0 < base m /\ znth (ptr m) (base m - 1) = x
  | _ => True
  end.

Definition Tq (m : mem) (o : opc) : Z := top m + b2z (oc o).
Definition Bq (m : mem) (h : tpc) : Z := base m - b2z (hc h).

Record Core (m : mem) (sz : Z) (o : opc) (h : tpc) (P R : list Z) : Prop := mkCore {
  c_len : sz = Z.of_nat (length (ptr m));
  c_sz : 2 <= sz;
  c_bnd : 0 <= Bq m h /\ Bq m h <= Tq m o /\ Tq m o <= sz;
  c_cons : forall x, occ x P =
             (occ x R + occ x (zseg (ptr m) (Bq m h) (Tq m o)) + occ x (oinfl m o) + occ x (tinfl1 m h))%nat;
  c_lock : lck m = b2z (holds_o o) + b2z (holds_t h);
  c_lck01 : lck m = 0 \/ lck m = 1;
  c_own : oinv m sz o;
  c_thf : tinv m h
}.

(** a thief that does not hold the lock contributes nothing *)
Lemma nh_hc h : holds_t h = false -> hc h = false.
Proof. destruct h; cbn; congruence. Qed.
Lemma nh_infl m h : holds_t h = false -> tinfl1 m h = [].
Proof. destruct h; cbn; congruence. Qed.
Lemma nh_tinv m h : holds_t h = false -> tinv m h.
Proof. destruct h; cbn; try congruence; auto. Qed.

Lemma Core_nohold_irrel m sz o h h' P R :
  holds_t h = false -> holds_t h' = false -> Core m sz o h P R -> Core m sz o h' P R.
Proof.
  intros H H' [C1 C2 C3 C4 C5 C6 C7 C8].
  unfold Bq in *. rewrite (nh_hc _ H) in *. rewrite (nh_infl m _ H) in C4. rewrite H in C5.
  constructor; auto; unfold Bq; rewrite ?(nh_hc _ H'), ?(nh_infl m _ H'), ?H'; auto.
  apply nh_tinv; auto.
Qed.

Lemma tinv_frame m m' h : base m' = base m -> ptr m' = ptr m -> tinv m h -> tinv m' h.
Proof. intros Hb Hp. destruct h; cbn; rewrite ?Hb, ?Hp; auto. Qed.
Lemma oinv_frame m m' sz o :
  top m' = top m -> base m' = base m -> ptr m' = ptr m -> oinv m sz o -> oinv m' sz o.
Proof. intros Ht Hb Hp. destruct o; cbn; rewrite ?Ht, ?Hb, ?Hp; auto. Qed.

Ltac mem_cbn :=
  cbn [apply_wrs fold_left apply_wr top base lck ptr wseq wptr invalidate app
       ghost_pushed ghost_returned ghost_abort] in *.

(** if the owner holds the lock the thief [h] does not *)
Lemma owner_holds_excl m sz o h P R :
  Core m sz o h P R -> holds_o o = true -> holds_t h = false.
Proof.
  intros C Ho. pose proof (c_lock _ _ _ _ _ _ C) as L. pose proof (c_lck01 _ _ _ _ _ _ C) as L01.
  rewrite Ho in L. destruct (holds_t h); cbn [b2z] in *; [lia|reflexivity].
Qed.
Lemma thief_holds_excl m sz o h P R :
  Core m sz o h P R -> holds_t h = true -> holds_o o = false /\ lck m = 1.
Proof.
  intros C Hh. pose proof (c_lock _ _ _ _ _ _ C) as L. pose proof (c_lck01 _ _ _ _ _ _ C) as L01.
  rewrite Hh in L. destruct (holds_o o); cbn [b2z] in *; split; (lia || reflexivity).
Qed.
Lemma free_lock_excl m sz o h P R :
  Core m sz o h P R -> lck m = 0 -> holds_o o = false /\ holds_t h = false.
Proof.
  intros C L0. pose proof (c_lock _ _ _ _ _ _ C) as L. rewrite L0 in L.
  destruct (holds_o o), (holds_t h); cbn [b2z] in *; split; (lia || reflexivity).
Qed.

(** * Preservation by the owner's and the lock-holding thief's steps *)

Ltac core_open C :=
  destruct C as [C1 C2 C3 C4 C5 C6 C7 C8]; unfold Tq, Bq in *;
  cbn [oc holds_o oinfl oinv b2z] in *; mem_cbn.
Ltac core_goal := constructor; unfold Tq, Bq; cbn [oc holds_o oinfl oinv b2z]; mem_cbn; auto.
Ltac occ_norm := rewrite ?occ_app, ?occ_cons, ?occ_nil.
Ltac fin := try solve [ assumption | reflexivity | lia | apply nh_tinv; assumption | repeat split; (reflexivity || lia || assumption) ].
Ltac nohold Hh := rewrite ?(nh_hc _ Hh) in *; rewrite ?(nh_infl _ _ Hh) in *; rewrite ?Hh in *; cbn [b2z] in *.

Ltac tfr m h := repeat match goal with |- context [tinfl1 ?mm h] =>
  tryif constr_eq mm m then fail else change (tinfl1 mm h) with (tinfl1 m h) end.
Lemma tinfl1_frame m m' h : ptr m' = ptr m -> tinfl1 m' h = tinfl1 m h.
Proof. intros E. destruct h; cbn; rewrite ?E; reflexivity. Qed.
Lemma oinfl_frame m m' o : ptr m' = ptr m -> oinfl m' o = oinfl m o.
Proof. intros E. destruct o; cbn; rewrite ?E; reflexivity. Qed.

Lemma owner_core_step m sz o h P R ws o' g :
  Core m sz o h P R -> owner_tick m sz o = Some (ws, o', g) ->
  Core (apply_wrs m ws) sz o' h (ghost_pushed g P) (ghost_returned g R).
Proof.
  intros C E. destruct o; cbn [owner_tick] in E; try discriminate.
  - (* OPushReadTop *)
    destruct (Z.eqb_spec (top m) sz) as [Et|Et]; inversion E; subst; clear E; core_open C; core_goal; fin.
  - (* OPushLock *)
    destruct (Z.eqb_spec (lck m) 0) as [El|El]; [|discriminate]. inversion E; subst; clear E.
    destruct (free_lock_excl _ _ _ _ _ _ C El) as [_ Hh].
    core_open C. core_goal. rewrite Hh. reflexivity.
  - (* OPushRecentre *)
    pose proof (owner_holds_excl _ _ _ _ _ _ C eq_refl) as Hh.
    destruct (Z.eqb_spec (base m) 0) as [Eb|Eb]; inversion E; subst; clear E.
    + mem_cbn. exact C.
    + core_open C. nohold Hh.
      replace (- base m - 1) with (- (base m + 1)) in * by lia. rewrite quot2_opp in *.
      pose proof (quot2_bounds (base m + 1) ltac:(lia)) as Q.
      set (k := Z.quot (base m + 1) 2) in *.
      assert (Hl : Z.of_nat (length (zseg (ptr m) (base m) (top m))) = top m - base m)
        by (apply zseg_length; lia).
      core_goal; nohold Hh; fin.
      * rewrite blit_length; auto; lia.
      * intro y. rewrite (C4 y). rewrite !Z.add_0_r, !Z.sub_0_r.
        rewrite (zseg_blit (ptr m) (base m + - k)); auto; lia.
  - (* OPushUnlock *)
    pose proof (owner_holds_excl _ _ _ _ _ _ C eq_refl) as Hh.
    inversion E; subst; clear E. core_open C. nohold Hh. core_goal; nohold Hh; fin.
  - (* OPushSlot *)
    inversion E; subst; clear E. core_open C. destruct C7 as [-> C7].
    assert (Hb : 0 <= base m - b2z (hc h)) by lia.
    core_goal; fin.
    + rewrite zupd_length; auto.
    + intro y. rewrite (C4 y). rewrite zseg_zupd_outside by lia.
      destruct h; cbn [tinfl1 tinv hc b2z] in *; mem_cbn; try reflexivity;
        (rewrite znth_zupd_other; [reflexivity|lia|lia]).
    + repeat split; auto. rewrite znth_zupd_same; auto; lia.
    + destruct h; cbn [tinv hc b2z] in *; mem_cbn; auto.
      destruct C8 as [C8a C8b]. split; auto. rewrite znth_zupd_other; auto; lia.
  - (* OPushTop *)
    inversion E; subst; clear E. core_open C. destruct C7 as (-> & C7 & C7').
    core_goal; fin.
    intro y. rewrite occ_app, (C4 y). rewrite !Z.add_0_r in *.
    rewrite zseg_snoc by lia. rewrite C7'. tfr m h. occ_norm. lia.
  - (* OPopQuick *)
    destruct (top m <=? base m); inversion E; subst; clear E; core_open C; core_goal; fin.
  - (* OPopReadTop *)
    inversion E; subst; clear E; core_open C; core_goal; fin.
  - (* OPopWriteTop *)
    inversion E; subst; clear E; core_open C. subst t. core_goal; fin.
    intro y. rewrite (C4 y). replace (top m - 1 + 1) with (top m + 0) by lia. reflexivity.
  - (* OPopReadBase *)
    subst. destruct (Z.ltb_spec (base m + 1) t) as [Ef|Ef]; inversion E; subst; clear E; core_open C; subst t; core_goal; fin.
    + assert (b2z (hc h) = 0 \/ b2z (hc h) = 1) by (destruct (hc h); cbn; lia). lia.
    + assert (Hh : b2z (hc h) = 0 \/ b2z (hc h) = 1) by (destruct (hc h); cbn; lia).
      intro y. rewrite (C4 y). rewrite zseg_snoc by lia. rewrite Z.add_0_r. occ_norm. lia.
  - (* OPopFast *)
    inversion E; subst; clear E; core_open C; subst t; core_goal; fin.
    intro y. rewrite (C4 y). occ_norm. lia.
  - (* OPopLock *)
    destruct (Z.eqb_spec (lck m) 0) as [El|El]; [|discriminate]. inversion E; subst; clear E.
    destruct (free_lock_excl _ _ _ _ _ _ C El) as [_ Hh].
    core_open C. core_goal. rewrite Hh. reflexivity.
  - (* OPopSlow *)
    pose proof (owner_holds_excl _ _ _ _ _ _ C eq_refl) as Hh.
    destruct (Z.leb_spec (base m) t) as [Eb|Eb]; inversion E; subst; clear E; core_open C; nohold Hh; subst t.
    + destruct (top m <=? base m); mem_cbn; core_goal; nohold Hh; fin.
      all: try (rewrite zupd_length; assumption).
      all: intro y; rewrite occ_app, (C4 y); rewrite zseg_zupd_outside by lia;
        rewrite zseg_snoc by lia; rewrite !Z.add_0_r, !Z.sub_0_r; occ_norm; lia.
    + pose proof (quot2_bounds sz ltac:(lia)) as Q.
      core_goal; nohold Hh; fin.
      intro y. rewrite (C4 y). rewrite !zseg_nil by lia. reflexivity.
  - (* OPopUnlock *)
    pose proof (owner_holds_excl _ _ _ _ _ _ C eq_refl) as Hh.
    inversion E; subst; clear E. core_open C. nohold Hh. core_goal; nohold Hh; fin.
  - (* OPutLock *)
    destruct (Z.eqb_spec (lck m) 0) as [El|El]; [|discriminate]. inversion E; subst; clear E.
    destruct (free_lock_excl _ _ _ _ _ _ C El) as [_ Hh].
    core_open C. core_goal. rewrite Hh. reflexivity.
  - (* OPutRecentre *)
    pose proof (owner_holds_excl _ _ _ _ _ _ C eq_refl) as Hh.
    destruct (Z.eqb_spec (base m) 0) as [Eb|Eb].
    + destruct (Z.eqb_spec (top m) sz) as [Et|Et]; inversion E; subst; clear E.
      * mem_cbn. exact C.
      * core_open C. nohold Hh.
        pose proof (quot2_bounds (sz - top m + 1) ltac:(lia)) as Q.
        set (k := Z.quot (sz - top m + 1) 2) in *.
        assert (Hl : Z.of_nat (length (zseg (ptr m) (base m) (top m))) = top m - base m)
          by (apply zseg_length; lia).
        core_goal; nohold Hh; fin.
        -- rewrite blit_length; auto; lia.
        -- intro y. rewrite (C4 y). rewrite !Z.add_0_r, !Z.sub_0_r.
           rewrite (zseg_blit (ptr m) (base m + k)); auto; lia.
    + inversion E; subst; clear E. core_open C. nohold Hh. core_goal; nohold Hh; fin.
  - (* OPutSlot *)
    pose proof (owner_holds_excl _ _ _ _ _ _ C eq_refl) as Hh.
    inversion E; subst; clear E. core_open C. nohold Hh. destruct C7 as [-> C7].
    core_goal; nohold Hh; fin.
    + rewrite zupd_length; auto.
    + intro y. rewrite (C4 y). rewrite zseg_zupd_outside by lia. reflexivity.
    + repeat split; auto. rewrite znth_zupd_same; auto; lia.
  - (* OPutBase *)
    pose proof (owner_holds_excl _ _ _ _ _ _ C eq_refl) as Hh.
    inversion E; subst; clear E. core_open C. nohold Hh. destruct C7 as (-> & C7 & C7').
    core_goal; nohold Hh; fin.
    intro y. rewrite occ_app, (C4 y). rewrite !Z.add_0_r, !Z.sub_0_r.
    rewrite (zseg_cons (ptr m) (base m - 1)) by lia. rewrite C7'.
    replace (base m - 1 + 1) with (base m) by lia. occ_norm. lia.
  - (* OPutUnlock *)
    pose proof (owner_holds_excl _ _ _ _ _ _ C eq_refl) as Hh.
    inversion E; subst; clear E. core_open C. nohold Hh. core_goal; nohold Hh; fin.
Qed.

Ltac core_open_t C :=
  destruct C as [C1 C2 C3 C4 C5 C6 C7 C8]; unfold Tq, Bq in *;
  cbn [hc holds_t tinfl1 tinv b2z] in *; mem_cbn.
Ltac core_goal_t := constructor; unfold Tq, Bq; cbn [hc holds_t tinfl1 tinv b2z]; mem_cbn; auto.
Ltac ofr m o := repeat match goal with |- context [oinfl ?mm o] =>
  tryif constr_eq mm m then fail else change (oinfl mm o) with (oinfl m o) end.
Ltac nohold_o Ho := rewrite ?Ho in *; cbn [b2z] in *.

Lemma oinv_nohold_frame m m' sz o :
  holds_o o = false -> top m' = top m -> ptr m' = ptr m -> oinv m sz o -> oinv m' sz o.
Proof. intros Ho Ht Hp. destruct o; cbn in *; rewrite ?Ht, ?Hp; auto; discriminate. Qed.

Ltac fin_o Ho C7 := fin; try solve [rewrite Ho; reflexivity | eapply oinv_nohold_frame; [exact Ho| | |exact C7]; reflexivity].

Lemma thief_core_step m sz o h P R ws h' g :
  Core m sz o h P R -> thief_tick m h = Some (ws, h', g) ->
  Core (apply_wrs m ws) sz o h' (ghost_pushed g P) (ghost_returned g R).
Proof.
  intros C E. destruct h; cbn [thief_tick] in E; try discriminate.
  - (* TQuick *)
    destruct (top m - base m <=? 0); inversion E; subst; clear E; core_open_t C; core_goal_t; fin.
  - (* TLock *)
    destruct (Z.eqb_spec (lck m) 0) as [El|El].
    + destruct (free_lock_excl _ _ _ _ _ _ C El) as [Ho _].
      destruct m0; inversion E; subst; clear E; core_open_t C; core_goal_t; fin_o Ho C7.
    + destruct m0; [discriminate| |]; inversion E; subst; clear E; unfold peek_start;
        repeat match goal with |- context [if ?c then _ else _] => destruct c end;
        core_open_t C; core_goal_t; fin.
  - (* TReadBase *)
    inversion E; subst; clear E. core_open_t C; core_goal_t; fin.
  - (* TWriteBase *)
    destruct (thief_holds_excl _ _ _ _ _ _ C eq_refl) as [Ho Hl].
    inversion E; subst; clear E. core_open_t C. subst b. core_goal_t; fin_o Ho C7.
    + intro y. rewrite (C4 y). ofr m o. replace (base m + 1 - 1) with (base m - 0) by lia. reflexivity.
  - (* TReadTop *)
    destruct (thief_holds_excl _ _ _ _ _ _ C eq_refl) as [Ho Hl].
    destruct (Z.ltb_spec b (top m)) as [Eb|Eb]; inversion E; subst; clear E; core_open_t C; core_goal_t; fin_o Ho C7.
    + assert (b2z (oc o) = 0 \/ b2z (oc o) = 1) by (destruct (oc o); cbn; lia). lia.
    + assert (b2z (oc o) = 0 \/ b2z (oc o) = 1) by (destruct (oc o); cbn; lia).
      intro y. rewrite (C4 y). rewrite (zseg_cons (ptr m) (base m - 1)) by lia.
      replace (base m - 1 + 1) with (base m - 0) by lia. replace (base m - 1) with b by lia.
      occ_norm. lia.
  - (* TSlot *)
    destruct (thief_holds_excl _ _ _ _ _ _ C eq_refl) as [Ho Hl].
    destruct m0 as [|d|]; inversion E; subst; clear E; core_open_t C; destruct C8 as [C8 C8']; core_goal_t; fin_o Ho C7.
    + intro y. rewrite occ_app, (C4 y). occ_norm. lia.
    + assert (b2z (oc o) = 0 \/ b2z (oc o) = 1) by (destruct (oc o); cbn; lia).
      intro y. rewrite (C4 y). ofr m o. rewrite (zseg_cons (ptr m) (base m - 1)) by lia.
      replace (base m - 1 + 1) with (base m - 0) by lia. replace (base m - 1) with b by lia.
      occ_norm. lia.
  - (* TDecide *)
    destruct (thief_holds_excl _ _ _ _ _ _ C eq_refl) as [Ho Hl].
    destruct d; inversion E; subst; clear E; core_open_t C; destruct C8 as [C8 C8']; core_goal_t; fin_o Ho C7.
    + intro y. rewrite occ_app, (C4 y). ofr m o. occ_norm. lia.
    + assert (b2z (oc o) = 0 \/ b2z (oc o) = 1) by (destruct (oc o); cbn; lia).
      intro y. rewrite (C4 y). rewrite (zseg_cons (ptr m) (base m - 1)) by lia.
      replace (base m - 1 + 1) with (base m - 0) by lia. replace (base m - 1) with b by lia.
      occ_norm. lia.
  - (* TRollback *)
    destruct (thief_holds_excl _ _ _ _ _ _ C eq_refl) as [Ho Hl].
    destruct m0; inversion E; subst; clear E; core_open_t C; core_goal_t; fin_o Ho C7.
    all: intro y; rewrite (C4 y); ofr m o; replace (base m - 1) with (b - 0) by lia; reflexivity.
  - (* TUnlock *)
    destruct (thief_holds_excl _ _ _ _ _ _ C eq_refl) as [Ho Hl].
    inversion E; subst; clear E. core_open_t C. core_goal_t; fin_o Ho C7.
  - (* TPassTry *)
    destruct (Z.eqb_spec (lck m) 0) as [El|El]; inversion E; subst; clear E.
    + destruct (free_lock_excl _ _ _ _ _ _ C El) as [Ho _].
      core_open_t C. core_goal_t; fin_o Ho C7.
    + core_open_t C; core_goal_t; fin_o Ho C7.
  - (* TPassCheck *)
    destruct (Z.eqb_spec (base m) 0) as [Eb|Eb]; inversion E; subst; clear E; core_open_t C; core_goal_t; fin.
  - (* TPassSlot *)
    destruct (thief_holds_excl _ _ _ _ _ _ C eq_refl) as [Ho Hl].
    inversion E; subst; clear E. core_open_t C. destruct C8 as [-> C8].
    assert (Hoc : b2z (oc o) = 0 \/ b2z (oc o) = 1) by (destruct (oc o); cbn; lia).
    core_goal_t; fin_o Ho C7.
    + rewrite zupd_length; auto.
    + intro y. rewrite (C4 y). rewrite zseg_zupd_outside by lia.
      destruct o; cbn [oinfl oinv oc b2z] in *; mem_cbn; try reflexivity.
      rewrite znth_zupd_other; [reflexivity|lia|lia].
    + destruct o; cbn [oinv oc b2z holds_o] in *; mem_cbn; auto; try discriminate.
      destruct C7 as (C7a & C7b & C7c). repeat split; auto. rewrite znth_zupd_other; auto; lia.
    + split; [lia|]. rewrite znth_zupd_same; auto; lia.
  - (* TPassBase *)
    destruct (thief_holds_excl _ _ _ _ _ _ C eq_refl) as [Ho Hl].
    inversion E; subst; clear E. core_open_t C. destruct C8 as [C8 C8'].
    assert (Hoc : b2z (oc o) = 0 \/ b2z (oc o) = 1) by (destruct (oc o); cbn; lia).
    core_goal_t; fin_o Ho C7.
    + intro y. rewrite occ_app, (C4 y). ofr m o. rewrite !Z.sub_0_r.
      rewrite (zseg_cons (ptr m) (base m - 1)) by lia. rewrite C8'.
      replace (base m - 1 + 1) with (base m) by lia. occ_norm. lia.
  - (* TPeekRead *)
    destruct (base m <? top m); inversion E; subst; clear E; core_open_t C; core_goal_t; fin.
  - (* TPeekSlot *)
    inversion E; subst; clear E; core_open_t C; core_goal_t; fin.
  - (* TPeekCheck *)
    destruct (wptr m =? 0); inversion E; subst; clear E; core_open_t C; core_goal_t; fin.
  - (* TUnlockP *)
    destruct (thief_holds_excl _ _ _ _ _ _ C eq_refl) as [Ho Hl].
    inversion E; subst; clear E. core_open_t C. core_goal_t; fin_o Ho C7.
  - (* TPeekSeq *)
    inversion E; subst; clear E; core_open_t C; core_goal_t; fin.
Qed.
