(** C02 - the deque invariant lifted to states with any number of thieves, and the
    theorems of Properties_C02.v (sequential consistency). *)
From Coq Require Import ZArith List Lia Bool Permutation.
From MT Require Import Lib.Interleave Wsq.WsqModel Wsq.WsqLists Wsq.WsqInv.
Import ListNotations.
Local Open Scope Z_scope.

(** * set_nth / nth_error *)

Lemma nth_error_set_nth_eq (l : list tpc) : forall i x y,
  nth_error l i = Some y -> nth_error (set_nth l i x) i = Some x.
Proof.
  induction l as [|h t IH]; intros [|i] x y H; cbn in *; try discriminate; auto.
  eapply IH; eauto.
Qed.

Lemma nth_error_set_nth_neq (l : list tpc) : forall i j x,
  j <> i -> nth_error (set_nth l i x) j = nth_error l j.
Proof.
  induction l as [|h t IH]; intros [|i] [|j] x H; cbn; auto; try congruence.
Qed.

Lemma set_nth_split (l : list tpc) : forall i y, nth_error l i = Some y ->
  exists l1 l2, l = l1 ++ y :: l2 /\ forall x, set_nth l i x = l1 ++ x :: l2.
Proof.
  induction l as [|h t IH]; intros [|i] y H; cbn in *; try discriminate.
  - inversion H; subst. exists [], t. split; auto.
  - destruct (IH i y H) as (l1 & l2 & E1 & E2). exists (h :: l1), l2. split.
    + cbn. rewrite <- E1. reflexivity.
    + intros x. cbn. rewrite E2. reflexivity.
Qed.

(** * The invariant on states *)

(** [Rep l h]: [h] stands for the only thief of [l] that may hold the lock *)
Definition all_nohold (l : list tpc) : Prop :=
  forall i pc, nth_error l i = Some pc -> holds_t pc = false.
Definition Rep (l : list tpc) (h : tpc) : Prop :=
  (holds_t h = false /\ all_nohold l) \/
  (exists i, nth_error l i = Some h /\ holds_t h = true /\
             forall j pc, j <> i -> nth_error l j = Some pc -> holds_t pc = false).

Definition Inv (s : state) : Prop :=
  exists h, Core (mm s) (qsize s) (own s) h (pushed s) (returned s) /\ Rep (thv s) h.

Lemma Rep_nohold_move l h i pc pc' :
  Rep l h -> nth_error l i = Some pc -> holds_t pc = false -> holds_t pc' = false ->
  Rep (set_nth l i pc') h.
Proof.
  intros [[Hh Ha]|(j & Hj & Hh & Ho)] Hi Hp Hp'.
  - left. split; auto. intros k pck Hk. destruct (Nat.eq_dec k i) as [->|Hne].
    + rewrite (nth_error_set_nth_eq _ _ _ _ Hi) in Hk. inversion Hk; subst; auto.
    + rewrite nth_error_set_nth_neq in Hk by auto. eapply Ha; eauto.
  - right. assert (j <> i) by (intros ->; rewrite Hi in Hj; inversion Hj; subst; congruence).
    exists j. split; [|split]; auto.
    + rewrite nth_error_set_nth_neq; auto.
    + intros k pck Hkj Hk. destruct (Nat.eq_dec k i) as [->|Hne].
      * rewrite (nth_error_set_nth_eq _ _ _ _ Hi) in Hk. inversion Hk; subst; auto.
      * rewrite nth_error_set_nth_neq in Hk by auto. eapply Ho; eauto.
Qed.

(** the acting thief holds the lock: it is the representative *)
Lemma Rep_holder l h i pc :
  Rep l h -> nth_error l i = Some pc -> holds_t pc = true ->
  h = pc /\ forall j pcj, j <> i -> nth_error l j = Some pcj -> holds_t pcj = false.
Proof.
  intros [[Hh Ha]|(j & Hj & Hh & Ho)] Hi Hp.
  - rewrite (Ha _ _ Hi) in Hp. discriminate.
  - destruct (Nat.eq_dec i j) as [->|Hne].
    + rewrite Hi in Hj. inversion Hj; subst. split; auto.
    + rewrite (Ho _ _ Hne Hi) in Hp. discriminate.
Qed.

Lemma Rep_set_holder l i pc pc' :
  nth_error l i = Some pc ->
  (forall j pcj, j <> i -> nth_error l j = Some pcj -> holds_t pcj = false) ->
  Rep (set_nth l i pc') pc'.
Proof.
  intros Hi Ho. destruct (holds_t pc') eqn:Hp'.
  - right. exists i. split; [|split]; auto.
    + eapply nth_error_set_nth_eq; eauto.
    + intros j pcj Hne Hj. rewrite nth_error_set_nth_neq in Hj by auto. eapply Ho; eauto.
  - left. split; auto. intros k pck Hk. destruct (Nat.eq_dec k i) as [->|Hne].
    + rewrite (nth_error_set_nth_eq _ _ _ _ Hi) in Hk. inversion Hk; subst; auto.
    + rewrite nth_error_set_nth_neq in Hk by auto. eapply Ho; eauto.
Qed.

(** a step between two points outside the critical section touches nothing *)
Lemma thief_tick_nohold m pc ws pc' g :
  thief_tick m pc = Some (ws, pc', g) -> holds_t pc = false -> holds_t pc' = false ->
  ws = [] /\ g = GNone.
Proof.
  intros E H H'. destruct pc; cbn [thief_tick holds_t] in *; try discriminate;
    unfold peek_start in *;
    repeat match type of E with
           | context [if ?c then _ else _] => destruct c
           | context [match ?x with _ => _ end] => destruct x
           end; try discriminate; inversion E; subst; cbn [holds_t] in *; try discriminate; auto.
Qed.

(** entering the critical section requires the lock to be free *)
Lemma thief_tick_acquire m pc ws pc' g :
  thief_tick m pc = Some (ws, pc', g) -> holds_t pc = false -> holds_t pc' = true ->
  lck m = 0.
Proof.
  intros E H H'. destruct pc; cbn [thief_tick holds_t] in *; try discriminate;
    unfold peek_start in *;
    repeat match type of E with
           | context [if lck m =? 0 then _ else _] => destruct (Z.eqb_spec (lck m) 0); [assumption|]
           | context [if ?c then _ else _] => destruct c
           | context [match ?x with _ => _ end] => destruct x
           end; try discriminate; inversion E; subst; cbn [holds_t] in *; try discriminate; auto.
Qed.

Lemma Core_owner_call m sz h P R o :
  Core m sz OIdle h P R -> Core m sz (owner_call o) h P R.
Proof.
  intros C. destruct o; core_open C; core_goal.
Qed.
Lemma Core_owner_ret m sz h P R r :
  Core m sz (ODone r) h P R -> Core m sz OIdle h P R.
Proof. intros C. core_open C; core_goal. Qed.

Lemma thief_call_nohold m o : holds_t (thief_call m o) = false.
Proof.
  destruct o; cbn [thief_call]; unfold peek_start;
    repeat match goal with |- context [if ?c then _ else _] => destruct c end; reflexivity.
Qed.

Theorem step_Inv s a s' : Inv s -> step s a = Some s' -> Inv s'.
Proof.
  intros (h & C & Rp) E. unfold step in E.
  destruct (aborted s); [discriminate|].
  destruct a as [[|i] e]; destruct e; try discriminate.
  - (* owner call *)
    destruct (own s) eqn:Eo; try discriminate. inversion E; subst; clear E.
    exists h. cbn. split; auto. apply Core_owner_call; auto.
  - (* owner tick *)
    destruct (owner_tick (mm s) (qsize s) (own s)) as [[[ws pc'] g]|] eqn:Et; [|discriminate].
    inversion E; subst; clear E. exists h. cbn. split; auto.
    eapply owner_core_step; eauto.
  - (* owner ret *)
    destruct (own s) eqn:Eo; try discriminate. inversion E; subst; clear E.
    exists h. cbn. split; auto. eapply Core_owner_ret; eauto.
  - (* thief call *)
    destruct (nth_error (thv s) i) as [pc|] eqn:Ei; [|discriminate].
    destruct pc; try discriminate. inversion E; subst; clear E.
    exists h. cbn. split; auto.
    eapply Rep_nohold_move; eauto. apply thief_call_nohold.
  - (* thief tick *)
    destruct (nth_error (thv s) i) as [pc|] eqn:Ei; [|discriminate].
    destruct (thief_tick (mm s) pc) as [[[ws pc'] g]|] eqn:Et; [|discriminate].
    inversion E; subst; clear E. cbn.
    destruct (holds_t pc) eqn:Hp.
    + destruct (Rep_holder _ _ _ _ Rp Ei Hp) as [-> Hoth].
      exists pc'. split.
      * eapply thief_core_step; eauto.
      * eapply Rep_set_holder; eauto.
    + destruct (holds_t pc') eqn:Hp'.
      * pose proof (thief_tick_acquire _ _ _ _ _ Et Hp Hp') as L0.
        destruct (free_lock_excl _ _ _ _ _ _ C L0) as [_ Hh].
        assert (Ha : all_nohold (thv s)).
        { destruct Rp as [[_ Ha]|(j & _ & Hj & _)]; [exact Ha|congruence]. }
        exists pc'. split.
        -- eapply (thief_core_step _ _ _ pc); [|exact Et].
           eapply Core_nohold_irrel; [exact Hh|exact Hp|exact C].
        -- eapply Rep_set_holder; [exact Ei|]. intros j pcj _ Hj. eapply Ha; eauto.
      * destruct (thief_tick_nohold _ _ _ _ _ Et Hp Hp') as [-> ->]. cbn.
        exists h. split; auto. eapply Rep_nohold_move; eauto.
  - (* thief ret *)
    destruct (nth_error (thv s) i) as [pc|] eqn:Ei; [|discriminate].
    destruct pc; try discriminate. inversion E; subst; clear E.
    exists h. cbn. split; auto.
    eapply Rep_nohold_move; eauto.
Qed.

Lemma nth_error_repeat_TIdle n i pc : nth_error (repeat TIdle n) i = Some pc -> pc = TIdle.
Proof.
  revert i; induction n as [|n IH]; intros [|i] H; cbn in *; try discriminate.
  - inversion H; auto.
  - eauto.
Qed.

Theorem init_Inv s : init s -> Inv s.
Proof.
  intros (sz & n & Hsz & ->). exists TIdle. split.
  - unfold init_state, init_mem. cbn.
    pose proof (quot2_bounds sz ltac:(lia)) as Q.
    constructor; unfold Tq, Bq; cbn; auto; try lia.
    + rewrite repeat_length. lia.
    + intro x. rewrite zseg_nil by lia. reflexivity.
  - left. split; auto. intros i pc H. cbn in H.
    rewrite (nth_error_repeat_TIdle _ _ _ H). reflexivity.
Qed.

Theorem reachable_Inv s : reachable init step s -> Inv s.
Proof.
  apply invariant_rule.
  - apply init_Inv.
  - intros s0 a s' H E. eapply step_Inv; eauto.
Qed.

(** * The invariant in terms of the whole state *)

Fixpoint cnt (f : tpc -> bool) (l : list tpc) : Z :=
  match l with [] => 0 | x :: t => b2z (f x) + cnt f t end.

(** T and B of DESIGN.md, Appendix B.1 *)
Definition Teff (s : state) : Z := top (mm s) + b2z (oc (own s)).
Definition Beff (s : state) : Z := base (mm s) - cnt hc (thv s).
(** number of participants at a program point inside the critical section of q->lock *)
Definition holders (s : state) : Z := b2z (holds_o (own s)) + cnt holds_t (thv s).
(** items removed from the live range whose hand-over to the caller is pending *)
Definition inflight (s : state) : list Z :=
  oinfl (mm s) (own s) ++ flat_map (tinfl1 (mm s)) (thv s).
Definition live (s : state) : list Z := zseg (ptr (mm s)) (Beff s) (Teff s).

Lemma all_nohold_cons x l : all_nohold (x :: l) -> holds_t x = false /\ all_nohold l.
Proof.
  intros H. split.
  - apply (H 0%nat x). reflexivity.
  - intros i pc Hi. apply (H (S i) pc). exact Hi.
Qed.

Lemma all_nohold_aggr m l : all_nohold l ->
  cnt hc l = 0 /\ cnt holds_t l = 0 /\ flat_map (tinfl1 m) l = [].
Proof.
  induction l as [|x t IH]; intros H; cbn [cnt flat_map]; auto.
  destruct (all_nohold_cons _ _ H) as [Hx Ht]. destruct (IH Ht) as (I1 & I2 & I3).
  rewrite I1, I2, I3, Hx, (nh_hc _ Hx), (nh_infl m _ Hx). cbn. auto.
Qed.

Lemma cnt_app f l1 l2 : cnt f (l1 ++ l2) = cnt f l1 + cnt f l2.
Proof. induction l1 as [|x t IH]; cbn [cnt app]; [lia|rewrite IH; lia]. Qed.

Lemma Rep_aggr m l h : Rep l h ->
  cnt hc l = b2z (hc h) /\ cnt holds_t l = b2z (holds_t h) /\ flat_map (tinfl1 m) l = tinfl1 m h.
Proof.
  intros [[Hh Ha]|(i & Hi & Hh & Ho)].
  - destruct (all_nohold_aggr m _ Ha) as (I1 & I2 & I3).
    rewrite I1, I2, I3, Hh, (nh_hc _ Hh), (nh_infl m _ Hh). auto.
  - destruct (nth_error_split _ _ Hi) as (l1 & l2 & -> & Hlen).
    assert (A1 : all_nohold l1).
    { intros j pc Hj. apply (Ho j pc).
      - apply nth_error_Some_lt in Hj || idtac. intros ->.
        assert (nth_error l1 (length l1) = None) by (apply nth_error_None; lia). congruence.
      - rewrite nth_error_app1; auto. apply nth_error_Some. congruence. }
    assert (A2 : all_nohold l2).
    { intros j pc Hj. apply (Ho (length l1 + S j)%nat pc); [lia|].
      rewrite nth_error_app2 by lia. replace (length l1 + S j - length l1)%nat with (S j) by lia.
      exact Hj. }
    destruct (all_nohold_aggr m _ A1) as (I1 & I2 & I3).
    destruct (all_nohold_aggr m _ A2) as (J1 & J2 & J3).
    rewrite !cnt_app, flat_map_app. cbn [cnt flat_map]. rewrite I1, I2, I3, J1, J2, J3.
    rewrite app_nil_r. cbn. split; [lia|split; [lia|reflexivity]].
Qed.

Lemma occ_perm (a b : list Z) : (forall x, occ x a = occ x b) -> Permutation a b.
Proof. intros H. apply (Permutation_count_occ Z.eq_dec). exact H. Qed.

Lemma occ_nodup_sub (a b c : list Z) :
  (forall x, occ x a = (occ x b + occ x c)%nat) -> NoDup a -> NoDup b.
Proof.
  intros H N. apply (NoDup_count_occ Z.eq_dec). intro x.
  pose proof (proj1 (NoDup_count_occ Z.eq_dec a) N x) as Hx. unfold occ in H. rewrite H in Hx. lia.
Qed.

Record StateInv (s : state) : Prop := mkStateInv {
  si_len : qsize s = Z.of_nat (length (ptr (mm s)));
  si_size : 2 <= qsize s;
  si_bounds : 0 <= Beff s /\ Beff s <= Teff s /\ Teff s <= qsize s;
  si_conserve : Permutation (pushed s) (returned s ++ live s ++ inflight s);
  si_distinct : NoDup (pushed s) -> NoDup (returned s ++ live s ++ inflight s);
  si_lock : lck (mm s) = holders s /\ 0 <= holders s <= 1;
  si_slots_apart : forall t i m b, own s = OPopFast t ->
      nth_error (thv s) i = Some (TSlot m b) -> 0 <= b < t
}.

Lemma Inv_StateInv s : Inv s -> StateInv s.
Proof.
  intros (h & C & Rp).
  destruct (Rep_aggr (mm s) _ _ Rp) as (A1 & A2 & A3).
  pose proof C as C'. destruct C' as [C1 C2 C3 C4 C5 C6 C7 C8].
  assert (Hperm : Permutation (pushed s) (returned s ++ live s ++ inflight s)).
  { apply occ_perm. intro x. rewrite (C4 x). unfold live, inflight, Beff, Teff, Bq, Tq.
    rewrite A1, A3. rewrite !occ_app. lia. }
  constructor; auto.
  - unfold Beff, Teff. rewrite A1. exact C3.
  - intros N. eapply Permutation_NoDup; eauto.
  - unfold holders. rewrite A2. split; auto.
    destruct (holds_o (own s)), (holds_t h); cbn [b2z] in *; lia.
  - intros t i m b Ho Hi.
    assert (Hh : holds_t (TSlot m b) = true) by reflexivity.
    destruct (Rep_holder _ _ _ _ Rp Hi Hh) as [-> _].
    rewrite Ho in *. unfold Tq, Bq in C3. cbn in *. lia.
Qed.

Theorem inv_reachable s : reachable init step s -> StateInv s.
Proof. intros H. apply Inv_StateInv. apply reachable_Inv. exact H. Qed.

(** no operation in flight *)
Definition oquiet (pc : opc) : bool := match pc with OIdle | ODone _ => true | _ => false end.
Definition tquiet (pc : tpc) : bool := match pc with TIdle | TDone _ => true | _ => false end.
Definition quiescent (s : state) : Prop :=
  oquiet (own s) = true /\ forall i pc, nth_error (thv s) i = Some pc -> tquiet pc = true.

Lemma quiescent_aggr s : quiescent s ->
  Teff s = top (mm s) /\ Beff s = base (mm s) /\ inflight s = [] /\ holders s = 0.
Proof.
  intros [Ho Ht].
  assert (Ha : all_nohold (thv s)).
  { intros i pc Hi. specialize (Ht i pc Hi). destruct pc; cbn in *; congruence. }
  destruct (all_nohold_aggr (mm s) _ Ha) as (I1 & I2 & I3).
  unfold Teff, Beff, inflight, holders. rewrite I1, I2, I3.
  destruct (own s); cbn in *; try discriminate; repeat split; lia.
Qed.

Theorem no_loss_no_dup s : reachable init step s -> quiescent s ->
  0 <= base (mm s) /\ base (mm s) <= top (mm s) /\ top (mm s) <= qsize s /\
  lck (mm s) = 0 /\
  Permutation (pushed s) (returned s ++ zseg (ptr (mm s)) (base (mm s)) (top (mm s))) /\
  (NoDup (pushed s) -> NoDup (returned s ++ zseg (ptr (mm s)) (base (mm s)) (top (mm s)))).
Proof.
  intros Hr Hq. destruct (inv_reachable s Hr) as [S1 S2 S3 S4 S5 S6 S7].
  destruct (quiescent_aggr s Hq) as (Q1 & Q2 & Q3 & Q4).
  unfold live in *. rewrite Q1, Q2, Q3, ?app_nil_r in *. rewrite Q4 in S6.
  destruct S6 as [S6 _]. repeat split; auto; lia.
Qed.

(** * One thief running alone *)

Definition solo (i : nat) (o : top_op) (k : nat) : list actor :=
  (S i, CallT o) :: repeat (S i, Tick) k.

(** iterate the thief's program on (memory, pc, ghosts); a disabled step changes nothing *)
Fixpoint titer (k : nat) (m : mem) (pc : tpc) (P R : list Z) : mem * tpc * list Z * list Z :=
  match k with
  | O => (m, pc, P, R)
  | S k' =>
      match thief_tick m pc with
      | Some (ws, pc', g) => titer k' (apply_wrs m ws) pc' (ghost_pushed g P) (ghost_returned g R)
      | None => titer k' m pc P R
      end
  end.

Lemma thief_tick_no_abort m pc ws pc' g :
  thief_tick m pc = Some (ws, pc', g) -> ghost_abort g = false.
Proof.
  intros E. destruct pc; cbn in E; try discriminate;
    repeat match type of E with
           | context [if ?c then _ else _] => destruct c
           | context [match ?x with _ => _ end] => destruct x
           end; inversion E; reflexivity.
Qed.

Lemma exec1_thief_tick s i pc :
  aborted s = false -> nth_error (thv s) i = Some pc ->
  exec1 step s (S i, Tick) =
  match thief_tick (mm s) pc with
  | Some (ws, pc', g) =>
      mkState (apply_wrs (mm s) ws) (qsize s) (own s) (set_nth (thv s) i pc')
              (ghost_pushed g (pushed s)) (ghost_returned g (returned s)) (ghost_abort g)
  | None => s
  end.
Proof.
  intros Ha Hi. unfold exec1, step. rewrite Ha, Hi.
  destruct (thief_tick (mm s) pc) as [[[ws pc'] g]|]; reflexivity.
Qed.

Lemma run_cons (a : actor) l s : run step (a :: l) s = run step l (exec1 step s a).
Proof. reflexivity. Qed.

Lemma run_solo_ticks i : forall k s pc,
  aborted s = false -> nth_error (thv s) i = Some pc ->
  forall m' pc' P' R', titer k (mm s) pc (pushed s) (returned s) = (m', pc', P', R') ->
  let s' := run step (repeat (S i, Tick) k) s in
  mm s' = m' /\ nth_error (thv s') i = Some pc' /\ pushed s' = P' /\ returned s' = R' /\
  own s' = own s /\ aborted s' = false /\ qsize s' = qsize s /\
  (forall j, j <> i -> nth_error (thv s') j = nth_error (thv s) j).
Proof.
  induction k as [|k IH]; intros s pc Ha Hi m' pc' P' R' E; cbn [titer repeat] in *.
  - inversion E; subst. cbn. repeat split; auto.
  - rewrite run_cons. rewrite (exec1_thief_tick s i pc Ha Hi).
    destruct (thief_tick (mm s) pc) as [[[ws pc1] g]|] eqn:Et.
    + pose proof (thief_tick_no_abort _ _ _ _ _ Et) as Hg.
      match goal with |- context [run step _ ?s1] => set (s1' := s1) end.
      assert (Ha1 : aborted s1' = false) by exact Hg.
      assert (Hi1 : nth_error (thv s1') i = Some pc1)
        by (eapply nth_error_set_nth_eq; eauto).
      destruct (IH s1' pc1 Ha1 Hi1 m' pc' P' R' E) as (I1 & I2 & I3 & I4 & I5 & I6 & I7 & I8).
      repeat split; auto. intros j Hj. rewrite (I8 j Hj). unfold s1'. cbn.
      apply nth_error_set_nth_neq; auto.
    + exact (IH s pc Ha Hi m' pc' P' R' E).
Qed.

Lemma run_solo i o k s :
  aborted s = false -> nth_error (thv s) i = Some TIdle ->
  run step (solo i o k) s =
  run step (repeat (S i, Tick) k)
    (mkState (mm s) (qsize s) (own s) (set_nth (thv s) i (thief_call (mm s) o))
             (pushed s) (returned s) false).
Proof.
  intros Ha Hi. unfold solo. rewrite run_cons. f_equal. unfold exec1, step.
  rewrite Ha, Hi. reflexivity.
Qed.

(** ** A declined steal changes nothing *)

Definition Dloc (m0 m : mem) (pc : tpc) : Prop :=
  match pc with
  | TLock (MW false) => m = m0
  | TReadBase (MW false) => lck m0 = 0 /\ m = apply_wrs m0 [WLock 1]
  | TWriteBase (MW false) b => lck m0 = 0 /\ b = base m0 /\ m = apply_wrs m0 [WLock 1]
  | TReadTop (MW false) b | TSlot (MW false) b | TDecide false b | TRollback (MW false) b =>
      lck m0 = 0 /\ b = base m0 /\ m = apply_wrs m0 [WLock 1; WBase (b + 1)]
  | TUnlock r => r = 0 /\ lck m0 = 0 /\ m = apply_wrs m0 [WLock 1]
  | TDone r => r = 0 /\ m = m0
  | _ => False
  end.

Lemma Dloc_step m0 m pc ws pc' g :
  Dloc m0 m pc -> thief_tick m pc = Some (ws, pc', g) ->
  Dloc m0 (apply_wrs m ws) pc' /\ g = GNone.
Proof.
  intros D E. destruct m0 as [t0 b0 l0 p0 s0 c0].
  destruct pc; cbn [Dloc] in D; try contradiction;
    repeat match goal with md : tmode |- _ => destruct md as [|[|]|]; cbn [Dloc] in D; try contradiction end;
    repeat match goal with d : bool |- _ => destruct d; cbn [Dloc] in D; try contradiction end;
    cbn [thief_tick] in E; try discriminate;
    repeat match goal with H : _ /\ _ |- _ => destruct H end; subst; cbn in *;
    repeat match type of E with
           | context [if ?c =? ?d then _ else _] => destruct (Z.eqb_spec c d)
           | context [if ?c then _ else _] => destruct c
           end; inversion E; subst; cbn; auto.
Qed.

Lemma Dloc_titer m0 : forall k m pc P R m' pc' P' R',
  Dloc m0 m pc -> titer k m pc P R = (m', pc', P', R') ->
  Dloc m0 m' pc' /\ P' = P /\ R' = R.
Proof.
  induction k as [|k IH]; intros m pc P R m' pc' P' R' D E; cbn [titer] in E.
  - inversion E; subst; auto.
  - destruct (thief_tick m pc) as [[[ws pc1] g]|] eqn:Et.
    + destruct (Dloc_step _ _ _ _ _ _ D Et) as [D1 ->]. cbn in E. eapply IH; eauto.
    + eapply IH; eauto.
Qed.

Theorem declined_steal s i k r :
  aborted s = false -> nth_error (thv s) i = Some TIdle ->
  let s' := run step (solo i (WTake false) k) s in
  nth_error (thv s') i = Some (TDone r) ->
  r = 0 /\ mm s' = mm s /\ pushed s' = pushed s /\ returned s' = returned s /\
  own s' = own s /\ (forall j, j <> i -> nth_error (thv s') j = nth_error (thv s) j).
Proof.
  intros Ha Hi s' Hd. unfold s' in *. rewrite run_solo in * by auto.
  set (s1 := mkState (mm s) (qsize s) (own s) (set_nth (thv s) i (thief_call (mm s) (WTake false)))
                     (pushed s) (returned s) false) in *.
  assert (Hi1 : nth_error (thv s1) i = Some (thief_call (mm s) (WTake false)))
    by (eapply nth_error_set_nth_eq; eauto).
  destruct (titer k (mm s1) (thief_call (mm s) (WTake false)) (pushed s1) (returned s1))
    as [[[m' pc'] P'] R'] eqn:Et.
  destruct (run_solo_ticks i k s1 _ eq_refl Hi1 _ _ _ _ Et) as (I1 & I2 & I3 & I4 & I5 & I6 & I7 & I8).
  assert (D0 : Dloc (mm s) (mm s1) (thief_call (mm s) (WTake false))).
  { cbn. destruct (top (mm s) - base (mm s) <=? 0); cbn; auto. }
  destruct (Dloc_titer _ _ _ _ _ _ _ _ _ _ D0 Et) as (D1 & -> & ->).
  rewrite Hd in I2. inversion I2; subst pc'. cbn in D1. destruct D1 as [-> ->].
  repeat split; auto. intros j Hj. rewrite (I8 j Hj). cbn. apply nth_error_set_nth_neq; auto.
Qed.

(** ** The wsapi peek (hint-cache refill with the take-and-roll-back idiom) never changes the
    queue: top, base, slots and lock are as before; only the hint cache may differ *)

Definition qeq (m m0 : mem) : Prop := top m = top m0 /\ base m = base m0 /\ ptr m = ptr m0.

Definition Ploc (m0 m : mem) (pc : tpc) : Prop :=
  match pc with
  | TLock MP | TPeekSeq | TDone _ => qeq m m0 /\ lck m = lck m0
  | TPeekCheck | TReadBase MP | TUnlockP => qeq m m0 /\ lck m0 = 0 /\ lck m = 1
  | TWriteBase MP b => qeq m m0 /\ lck m0 = 0 /\ lck m = 1 /\ b = base m0
  | TReadTop MP b | TSlot MP b | TRollback MP b =>
      top m = top m0 /\ ptr m = ptr m0 /\ base m = b + 1 /\ b = base m0 /\ lck m0 = 0 /\ lck m = 1
  | _ => False
  end.

Lemma Ploc_step m0 m pc ws pc' g :
  Ploc m0 m pc -> thief_tick m pc = Some (ws, pc', g) ->
  Ploc m0 (apply_wrs m ws) pc' /\ g = GNone.
Proof.
  intros D E. unfold qeq in *.
  destruct pc; cbn [Ploc] in D; try contradiction;
    repeat match goal with md : tmode |- _ => destruct md as [|[|]|]; cbn [Ploc] in D; try contradiction end;
    cbn [thief_tick] in E; try discriminate;
    unfold peek_start in E;
    repeat match type of E with
           | context [if lck m =? 0 then _ else _] => destruct (Z.eqb_spec (lck m) 0)
           | context [if ?c then _ else _] => destruct c
           end; inversion E; subst; clear E; cbn [Ploc]; unfold qeq in *; mem_cbn;
    intuition (try lia; try congruence).
Qed.

Lemma Ploc_titer m0 : forall k m pc P R m' pc' P' R',
  Ploc m0 m pc -> titer k m pc P R = (m', pc', P', R') ->
  Ploc m0 m' pc' /\ P' = P /\ R' = R.
Proof.
  induction k as [|k IH]; intros m pc P R m' pc' P' R' D E; cbn [titer] in E.
  - inversion E; subst; auto.
  - destruct (thief_tick m pc) as [[[ws pc1] g]|] eqn:Et.
    + destruct (Ploc_step _ _ _ _ _ _ D Et) as [D1 ->]. cbn in E. eapply IH; eauto.
    + eapply IH; eauto.
Qed.

Theorem peek_harmless s i k r :
  aborted s = false -> nth_error (thv s) i = Some TIdle ->
  let s' := run step (solo i WPeek k) s in
  nth_error (thv s') i = Some (TDone r) ->
  top (mm s') = top (mm s) /\ base (mm s') = base (mm s) /\ ptr (mm s') = ptr (mm s) /\
  lck (mm s') = lck (mm s) /\ pushed s' = pushed s /\ returned s' = returned s /\
  own s' = own s /\ (forall j, j <> i -> nth_error (thv s') j = nth_error (thv s) j).
Proof.
  intros Ha Hi s' Hd. unfold s' in *. rewrite run_solo in * by auto.
  set (s1 := mkState (mm s) (qsize s) (own s) (set_nth (thv s) i (thief_call (mm s) WPeek))
                     (pushed s) (returned s) false) in *.
  assert (Hi1 : nth_error (thv s1) i = Some (thief_call (mm s) WPeek))
    by (eapply nth_error_set_nth_eq; eauto).
  destruct (titer k (mm s1) (thief_call (mm s) WPeek) (pushed s1) (returned s1))
    as [[[m' pc'] P'] R'] eqn:Et.
  pose proof (run_solo_ticks i k s1 _ eq_refl Hi1 _ _ _ _ Et) as I. cbv zeta in I.
  remember (run step (repeat (S i, Tick) k) s1) as sf eqn:Esf. clear Esf.
  destruct I as (I1 & I2 & I3 & I4 & I5 & I6 & I7 & I8).
  assert (D0 : Ploc (mm s) (mm s1) (thief_call (mm s) WPeek)).
  { cbn [thief_call]. unfold peek_start, s1. cbn [mm].
    repeat match goal with |- context [if ?c then _ else _] => destruct c end;
      cbn [Ploc]; unfold qeq; auto. }
  destruct (Ploc_titer _ _ _ _ _ _ _ _ _ _ D0 Et) as (D1 & -> & ->).
  rewrite Hd in I2. inversion I2; subst pc'. cbn [Ploc] in D1. destruct D1 as [(Q1 & Q2 & Q3) Q4].
  rewrite I1. repeat split; auto. intros j Hj. rewrite (I8 j Hj). cbn. apply nth_error_set_nth_neq; auto.
Qed.

(** ** A thief alone on a non-empty quiescent queue gets the oldest item *)

Lemma titer_S k m pc P R : titer (S k) m pc P R =
  match thief_tick m pc with
  | Some (ws, pc', g) => titer k (apply_wrs m ws) pc' (ghost_pushed g P) (ghost_returned g R)
  | None => titer k m pc P R
  end.
Proof. reflexivity. Qed.

Lemma titer_take m P R : lck m = 0 -> base m < top m ->
  titer 7 m TQuick P R =
  (apply_wrs m [WLock 1; WBase (base m + 1); WLock 0], TDone (znth (ptr m) (base m)),
   P, R ++ [znth (ptr m) (base m)]).
Proof.
  destruct m as [t0 b0 l0 p0 s0 c0]. cbn [top base lck ptr]. intros -> H.
  assert (E1 : (t0 - b0 <=? 0) = false) by (apply Z.leb_gt; lia).
  assert (E2 : (b0 <? t0) = true) by (apply Z.ltb_lt; lia).
  rewrite titer_S. cbn [thief_tick top base]. rewrite E1.
  rewrite titer_S. cbn [thief_tick lck apply_wrs fold_left apply_wr top base ptr wseq wptr Z.eqb ghost_pushed ghost_returned].
  rewrite titer_S. cbn [thief_tick lck apply_wrs fold_left apply_wr top base ptr wseq wptr ghost_pushed ghost_returned].
  rewrite titer_S. cbn [thief_tick lck apply_wrs fold_left apply_wr top base ptr wseq wptr ghost_pushed ghost_returned].
  rewrite titer_S. cbn [thief_tick lck apply_wrs fold_left apply_wr top base ptr wseq wptr ghost_pushed ghost_returned]. rewrite E2.
  rewrite titer_S. cbn [thief_tick lck apply_wrs fold_left apply_wr top base ptr wseq wptr ghost_pushed ghost_returned].
  rewrite titer_S. cbn [thief_tick lck apply_wrs fold_left apply_wr top base ptr wseq wptr ghost_pushed ghost_returned].
  reflexivity.
Qed.

Theorem solo_take s i :
  reachable init step s -> quiescent s -> aborted s = false ->
  nth_error (thv s) i = Some TIdle -> base (mm s) < top (mm s) ->
  let x := znth (ptr (mm s)) (base (mm s)) in
  let s' := run step (solo i Take 7) s in
  nth_error (thv s') i = Some (TDone x) /\
  returned s' = returned s ++ [x] /\ pushed s' = pushed s /\ In x (pushed s) /\
  top (mm s') = top (mm s) /\ base (mm s') = base (mm s) + 1 /\
  ptr (mm s') = ptr (mm s) /\ lck (mm s') = 0 /\
  live s' = zseg (ptr (mm s)) (base (mm s) + 1) (top (mm s)).
Proof.
  intros Hr Hq Ha Hi Hne x s'.
  destruct (no_loss_no_dup s Hr Hq) as (N1 & N2 & N3 & N4 & N5 & _).
  pose proof (si_len _ (inv_reachable s Hr)) as Hlen.
  unfold s'. rewrite run_solo by auto.
  set (s1 := mkState (mm s) (qsize s) (own s) (set_nth (thv s) i (thief_call (mm s) Take))
                     (pushed s) (returned s) false) in *.
  assert (Hi1 : nth_error (thv s1) i = Some TQuick) by (eapply nth_error_set_nth_eq; eauto).
  assert (Et : titer 7 (mm s1) TQuick (pushed s1) (returned s1) =
               (apply_wrs (mm s) [WLock 1; WBase (base (mm s) + 1); WLock 0], TDone x,
                pushed s, returned s ++ [x])).
  { unfold s1, x. cbn [mm pushed returned]. apply titer_take; auto. }
  pose proof (run_solo_ticks i 7 s1 _ eq_refl Hi1 _ _ _ _ Et) as I. cbv zeta in I.
  remember (run step (repeat (S i, Tick) 7) s1) as sf eqn:Esf. clear Esf.
  destruct I as (I1 & I2 & I3 & I4 & I5 & I6 & I7 & I8).
  assert (Hx : In x (pushed s)).
  { eapply Permutation_in; [apply Permutation_sym; exact N5|].
    apply in_or_app. right. rewrite zseg_cons by lia. left. reflexivity. }
  repeat split; try assumption; try (rewrite I1; reflexivity).
  unfold live, Teff, Beff. rewrite I1, I5.
  assert (Hq' : cnt hc (thv sf) = 0).
  { apply (all_nohold_aggr (mm s)). intros j pc Hj.
    destruct (Nat.eq_dec j i) as [->|Hne'].
    - rewrite I2 in Hj. inversion Hj. reflexivity.
    - rewrite (I8 j Hne') in Hj. unfold s1 in Hj. cbn in Hj.
      rewrite nth_error_set_nth_neq in Hj by auto.
      destruct Hq as [_ Hq]. specialize (Hq j pc Hj). destruct pc; cbn in *; congruence. }
  rewrite Hq'. destruct Hq as [Hq _]. destruct (own s); cbn in *; try discriminate;
    rewrite Z.add_0_r, Z.sub_0_r; reflexivity.
Qed.

(** ** Re-centring *)

(** the owner's re-centring step of push ([OPushRecentre]) or put ([OPutRecentre]) *)
Definition recentring (pc : opc) : bool :=
  match pc with OPushRecentre _ | OPutRecentre _ => true | _ => false end.

Theorem recentre s s' :
  reachable init step s -> recentring (own s) = true -> step s (O, Tick) = Some s' ->
  (aborted s' = true ->
     base (mm s) = 0 /\ top (mm s) = qsize s /\
     Z.of_nat (length (live s)) = qsize s /\ mm s' = mm s) /\
  (aborted s' = false ->
     zseg (ptr (mm s')) (base (mm s')) (top (mm s')) = zseg (ptr (mm s)) (base (mm s)) (top (mm s)) /\
     top (mm s') - base (mm s') = top (mm s) - base (mm s) /\
     0 <= base (mm s') /\ top (mm s') <= qsize s /\
     length (ptr (mm s')) = length (ptr (mm s)) /\
     pushed s' = pushed s /\ returned s' = returned s /\
     match own s with
     | OPushRecentre _ => top (mm s') < qsize s
     | _ => 0 < base (mm s')
     end).
Proof.
  intros Hr Hrc E.
  destruct (reachable_Inv s Hr) as (h & C & Rp).
  destruct (Rep_aggr (mm s) _ _ Rp) as (A1 & A2 & A3).
  unfold step in E. destruct (aborted s); [discriminate|].
  assert (Hh : holds_t h = false).
  { eapply owner_holds_excl; eauto. destruct (own s); cbn in *; congruence. }
  unfold live, Beff, Teff. rewrite A1, (nh_hc _ Hh).
  destruct (own s) eqn:Eo; cbn in Hrc; try discriminate; cbn [owner_tick] in E;
    core_open C; nohold Hh; rewrite ?Z.add_0_r, ?Z.sub_0_r in *.
  - (* push *)
    destruct (Z.eqb_spec (base (mm s)) 0) as [Eb|Eb]; inversion E; subst; clear E; cbn.
    + split; [intros _|discriminate]. repeat split; auto.
      rewrite zseg_length; lia.
    + split; [discriminate|intros _].
      replace (- base (mm s) - 1) with (- (base (mm s) + 1)) in * by lia. rewrite quot2_opp in *.
      pose proof (quot2_bounds (base (mm s) + 1) ltac:(lia)) as Q.
      set (k := Z.quot (base (mm s) + 1) 2) in *.
      assert (Hl : Z.of_nat (length (zseg (ptr (mm s)) (base (mm s)) (top (mm s)))) = top (mm s) - base (mm s))
        by (apply zseg_length; lia).
      repeat split; auto; try lia.
      * rewrite (zseg_blit (ptr (mm s)) (base (mm s) + - k)); auto; lia.
      * rewrite blit_length; auto; lia.
  - (* put *)
    destruct (Z.eqb_spec (base (mm s)) 0) as [Eb|Eb].
    + destruct (Z.eqb_spec (top (mm s)) (qsize s)) as [Et|Et]; inversion E; subst; clear E; cbn.
      * split; [intros _|discriminate]. repeat split; auto. rewrite zseg_length; lia.
      * split; [discriminate|intros _].
        pose proof (quot2_bounds (qsize s - top (mm s) + 1) ltac:(lia)) as Q.
        set (k := Z.quot (qsize s - top (mm s) + 1) 2) in *.
        assert (Hl : Z.of_nat (length (zseg (ptr (mm s)) (base (mm s)) (top (mm s)))) = top (mm s) - base (mm s))
          by (apply zseg_length; lia).
        repeat split; auto; try lia.
        -- rewrite (zseg_blit (ptr (mm s)) (base (mm s) + k)); auto; lia.
        -- rewrite blit_length; auto; lia.
    + inversion E; subst; clear E; cbn. split; [discriminate|intros _]. repeat split; auto; lia.
Qed.

(** * Statements in expanded form (for Properties_C02.v) *)

Theorem inv_reachable_expanded s : reachable init step s ->
  qsize s = Z.of_nat (length (ptr (mm s))) /\
  0 <= Beff s /\ Beff s <= Teff s /\ Teff s <= qsize s /\
  Permutation (pushed s) (returned s ++ live s ++ inflight s) /\
  (NoDup (pushed s) -> NoDup (returned s ++ live s ++ inflight s)) /\
  lck (mm s) = holders s /\ 0 <= holders s <= 1 /\
  (forall t i m b, own s = OPopFast t -> nth_error (thv s) i = Some (TSlot m b) -> 0 <= b < t).
Proof.
  intros H. destruct (inv_reachable s H) as [S1 S2 [S3 [S3' S3'']] S4 S5 [S6 S6'] S7].
  repeat (split; [assumption|]). exact S7.
Qed.

(** every capacity, every number of thieves, every schedule (hence every sequence of
    operations: the calls are schedule entries) *)
Theorem inv_every_schedule sz n (sched : list actor) :
  2 <= sz -> StateInv (run step sched (init_state sz n)).
Proof.
  intros Hsz. apply inv_reachable. apply run_reachable. apply reach_init.
  exists sz, n. split; auto.
Qed.

(** sample schedules for the non-vacuity examples *)
Definition do_push (x : Z) : list actor := [(O, CallO (Push x)); (O, Tick); (O, Tick); (O, Tick); (O, Ret)].

(** two pushes, then a pop and a take race while a second thief passes an item in *)
Definition ex_sched : list actor :=
  do_push 1 ++ do_push 2 ++
  [(O, CallO Pop); (1%nat, CallT Take); (O, Tick); (1%nat, Tick); (O, Tick); (1%nat, Tick);
   (O, Tick); (1%nat, Tick); (2%nat, CallT (Pass 7)); (1%nat, Tick); (O, Tick); (1%nat, Tick)].
