(** C02 - TSO: litmus lemmas on the buffer primitives, and the explicit execution that shows
    why pop needs its full fence. *)
From Coq Require Import ZArith List Bool Lia.
From MT Require Import Wsq.WsqModel Wsq.TsoModel.
Import ListNotations.
Local Open Scope list_scope.
Local Open Scope Z_scope.

(** * Soundness of the equality tests *)

Lemma list_eqb_sound {A} (f : A -> A -> bool) :
  (forall x y, f x y = true -> x = y) -> forall a b, list_eqb f a b = true -> a = b.
Proof.
  intros Hf. induction a as [|x a IH]; intros [|y b] H; cbn in H; try discriminate; auto.
  apply andb_true_iff in H. destruct H as [H1 H2]. f_equal; auto.
Qed.

Lemma zeqb_sound x y : (x =? y) = true -> x = y.
Proof. apply Z.eqb_eq. Qed.

Lemma wr_eqb_sound a b : wr_eqb a b = true -> a = b.
Proof.
  destruct a, b; cbn; intros H; try discriminate;
    try (apply andb_true_iff in H; destruct H as [H1 H2]);
    try (apply Z.eqb_eq in H); try (apply Z.eqb_eq in H1); try (apply Z.eqb_eq in H2);
    subst; auto.
  f_equal. apply (list_eqb_sound Z.eqb zeqb_sound). exact H2.
Qed.

Lemma instr_eqb_sound a b : instr_eqb a b = true -> a = b.
Proof.
  destruct a as [x v|x|c], b as [y w|y|d]; cbn; intros H; try discriminate.
  - apply andb_true_iff in H. destruct H as [H1 H2]. apply Z.eqb_eq in H2.
    destruct x, y; try discriminate; subst; auto.
  - destruct x, y; try discriminate; auto.
  - destruct c, d; try discriminate; auto.
Qed.

Lemma lthread_eqb_sound a b : lthread_eqb a b = true -> a = b.
Proof.
  destruct a as [c1 r1 b1 m1], b as [c2 r2 b2 m2]. unfold lthread_eqb. cbn. intros H.
  repeat (apply andb_true_iff in H; destruct H as [H ?]).
  apply (list_eqb_sound _ instr_eqb_sound) in H.
  apply (list_eqb_sound _ zeqb_sound) in H2.
  apply (list_eqb_sound _ wr_eqb_sound) in H1.
  apply Bool.eqb_prop in H0. subst. reflexivity.
Qed.

Lemma mem_eqb_sound a b : mem_eqb a b = true -> a = b.
Proof.
  destruct a, b. unfold mem_eqb. cbn. intros H.
  repeat (apply andb_true_iff in H; destruct H as [H ?]).
  repeat match goal with E : (_ =? _) = true |- _ => apply Z.eqb_eq in E end.
  apply (list_eqb_sound _ zeqb_sound) in H2. subst. reflexivity.
Qed.

Lemma lstate_eqb_sound a b : lstate_eqb a b = true -> a = b.
Proof.
  destruct a, b. unfold lstate_eqb. cbn. intros H.
  apply andb_true_iff in H. destruct H as [H1 H2].
  apply mem_eqb_sound in H1. apply (list_eqb_sound _ lthread_eqb_sound) in H2. subst. reflexivity.
Qed.

Lemma lmember_In s l : lmember s l = true -> In s l.
Proof.
  unfold lmember. intros H. apply existsb_exists in H. destruct H as (x & Hx & E).
  apply lstate_eqb_sound in E. subst. exact Hx.
Qed.

(** * Reachability of the litmus machine and the closed-set argument *)

Inductive lreach (i : lstate) : lstate -> Prop :=
| lreach0 : lreach i i
| lreachS : forall s s', lreach i s -> In s' (lsucc s) -> lreach i s'.

Lemma lclosed_reach set i :
  lclosed set = true -> In i set -> forall s, lreach i s -> In s set.
Proof.
  intros Hc Hi s Hr. induction Hr as [|s s' Hr IH Hs]; auto.
  unfold lclosed in Hc. rewrite forallb_forall in Hc. specialize (Hc s IH).
  rewrite forallb_forall in Hc. apply lmember_In. apply Hc. exact Hs.
Qed.

Definition sb_set := lclosure 40 [linit (sb_prog Full)] [linit (sb_prog Full)].
Definition sb_ok (s : lstate) : bool :=
  negb (lfinal s) || negb ((reg s 0 0 =? 0) && (reg s 1 0 =? 0)).

(** store buffering with a full fence between the store and the load: in no execution do both
    threads read the initial value *)
Theorem tso_sb_fenced : forall s, lreach (linit (sb_prog Full)) s -> lfinal s = true ->
  ~ (reg s 0 0 = 0 /\ reg s 1 0 = 0).
Proof.
  intros s Hr Hf [H0 H1].
  assert (Hin : In s sb_set).
  { assert (Hc : lclosed sb_set = true) by (vm_compute; reflexivity).
    assert (Hi : In (linit (sb_prog Full)) sb_set) by (vm_compute; left; reflexivity).
    exact (lclosed_reach sb_set _ Hc Hi s Hr). }
  assert (Hall : forallb sb_ok sb_set = true) by (vm_compute; reflexivity).
  rewrite forallb_forall in Hall. specialize (Hall s Hin). unfold sb_ok in Hall.
  rewrite Hf, H0, H1 in Hall. cbn in Hall. discriminate.
Qed.

(** paths given by successor indices, checked by computation *)
Fixpoint follow (ks : list nat) (s : lstate) : list lstate :=
  match ks with [] => [s] | k :: r => s :: follow r (nth k (lsucc s) s) end.
Fixpoint path_ok (p : list lstate) : bool :=
  match p with
  | a :: ((b :: _) as r) => lmember b (lsucc a) && path_ok r
  | _ => true
  end.
Lemma path_ok_reach i : forall p s, lreach i s -> path_ok (s :: p) = true ->
  lreach i (last (s :: p) s).
Proof.
  induction p as [|b p IH]; intros s Hr H.
  - exact Hr.
  - cbn [path_ok] in H. apply andb_true_iff in H. destruct H as [H1 H2].
    assert (Hb : lreach i b) by (eapply lreachS; [exact Hr|apply lmember_In; exact H1]).
    specialize (IH b Hb H2).
    replace (last (s :: b :: p) s) with (last (b :: p) b); [exact IH|].
    clear. revert b. induction p as [|c p IHp]; intros b; [reflexivity|].
    cbn [last] in *. destruct p; [reflexivity|]. apply IHp.
Qed.

(** ... and with a compiler-only barrier both can (this is what store buffers do) *)
Theorem tso_sb_unfenced_witness : exists s, lreach (linit (sb_prog CompilerOnly)) s /\
  lfinal s = true /\ reg s 0 0 = 0 /\ reg s 1 0 = 0.
Proof.
  set (i := linit (sb_prog CompilerOnly)).
  set (p := follow [0;0;0;1;1;1;0;0]%nat i).
  exists (last p i). split.
  - assert (Hp : p = i :: tl p) by reflexivity.
    rewrite Hp. apply path_ok_reach; [apply lreach0|]. vm_compute. reflexivity.
  - vm_compute. auto.
Qed.

Definition mp_set := lclosure 40 [linit mp_prog] [linit mp_prog].
Definition mp_ok (s : lstate) : bool :=
  negb (lfinal s) || negb (reg s 1 0 =? 1) || (reg s 1 1 =? 1).

(** message passing needs no fence under TSO: store buffers are FIFO *)
Theorem tso_mp : forall s, lreach (linit mp_prog) s -> lfinal s = true ->
  reg s 1 0 = 1 -> reg s 1 1 = 1.
Proof.
  intros s Hr Hf H0.
  assert (Hin : In s mp_set).
  { assert (Hc : lclosed mp_set = true) by (vm_compute; reflexivity).
    assert (Hi : In (linit mp_prog) mp_set) by (vm_compute; left; reflexivity).
    exact (lclosed_reach mp_set _ Hc Hi s Hr). }
  assert (Hall : forallb mp_ok mp_set = true) by (vm_compute; reflexivity).
  rewrite forallb_forall in Hall. specialize (Hall s Hin). unfold mp_ok in Hall.
  rewrite Hf, H0 in Hall. cbn in Hall. apply Z.eqb_eq. exact Hall.
Qed.

(** * Why pop needs its full fence *)

(** the pinned placement with pop's rwbarrier degraded to a compiler barrier *)
Definition weak_table : fence_table := mkFT Full CompilerOnly CompilerOnly Full Full CompilerOnly Full.

Definition wit_prog : prog := mkProg [Push 1; Push 2; Push 3; Pop] [[Take; Take; Take]].
Definition D (p : nat) : nat * bool := (p, false).     (* one program step of participant p *)
Definition F (p : nat) : nat * bool := (p, true).      (* flush p's oldest buffered store   *)
(** owner: three pushes (stores flushed), then pop up to and including its slot read - its
    store "top = 6" stays in the buffer; the thief then takes three times *)
Definition wit_sched : list (nat * bool) :=
  repeat (D 0) 7 ++ repeat (F 0) 2 ++ repeat (D 0) 5 ++ repeat (F 0) 2 ++
  repeat (D 0) 9 ++ repeat (F 0) 2 ++
  repeat (D 1) 5 ++ [F 1] ++ repeat (D 1) 6 ++ [F 1] ++ repeat (D 1) 3 ++ [F 1] ++
  repeat (D 1) 6 ++ [F 1] ++ repeat (D 1) 3 ++ [F 1] ++ repeat (D 1) 2.

Theorem tso_fence_needed :
  fence_table_ok weak_table = false /\
  let s := fst (tso_run weak_table wit_sched (tso_init 8 1) wit_prog) in
  pushed (sc s) = [1; 2; 3] /\ returned (sc s) = [3; 1; 2; 3] /\
  has_dup (returned (sc s)) = true /\
  own (sc s) = ODone 3 /\ nth_error (thv (sc s)) 0 = Some (TUnlock 3).
Proof. vm_compute. repeat split; reflexivity. Qed.

(** the same schedule under the pinned placement: the owner waits at its base read *)
Theorem tso_fence_blocks_witness :
  fence_table_ok pinned_table = true /\
  let s := fst (tso_run pinned_table wit_sched (tso_init 8 1) wit_prog) in
  returned (sc s) = [1; 2; 3] /\ own (sc s) = OPopReadBase 6 /\ obuf s = [WTop 6].
Proof. vm_compute. repeat split; reflexivity. Qed.

(** under an empty-buffer discipline TSO steps are SC steps: a TSO run in which every
    participant's buffer is flushed right after each of its steps is an SC run *)
Lemma view_nil m : view m [] = m.
Proof. reflexivity. Qed.

(** * The SC model is the TSO model with eager flushing

    From a state whose buffers are empty, a program step of the TSO machine followed by
    draining the stepping participant's buffer is exactly the SC step (same program, same
    stores): the SC behaviours are among the TSO behaviours, for every fence table. *)
Definition drained (s : tstate) : Prop :=
  obuf s = [] /\ omark s = false /\ Forall (fun b => b = []) (tbufs s) /\ Forall (fun m => m = false) (tmarks s).

Definition with_mem (c : state) (m : mem) : state :=
  mkState m (qsize c) (own c) (thv c) (pushed c) (returned c) (aborted c).

Lemma Forall_nth {A} (P : A -> Prop) (l : list A) i x : Forall P l -> nth_error l i = Some x -> P x.
Proof. intros H E. rewrite Forall_forall in H. apply H. eapply nth_error_In; eauto. Qed.

Theorem tso_owner_step_sc t s s1 e :
  drained s -> tso_step t s (O, Do e) = Some s1 ->
  step (sc s) (O, e) = Some (with_mem (sc s1) (apply_wrs (mm (sc s1)) (obuf s1))) /\ tbufs s1 = tbufs s.
Proof.
  intros (Hb & Hm & _ & _) E. unfold tso_step in E. unfold step.
  destruct (aborted (sc s)) eqn:Ea; [discriminate|].
  destruct e.
  - unfold step in E. rewrite Ea in E. destruct (own (sc s)); try discriminate; inversion E; subst; clear E;
      cbn [sc obuf tbufs]; rewrite Hb; cbn; auto.
  - discriminate.
  - rewrite Hb, Hm in E. cbn [isnil negb andb view apply_wrs fold_left] in E. rewrite andb_false_r in E.
    destruct (owner_tick (mm (sc s)) (qsize (sc s)) (own (sc s))) as [[[ws pc'] g]|]; [|discriminate].
    inversion E; subst; clear E. cbn [sc obuf tbufs mm]. split; auto.
    destruct (owner_rmw (own (sc s))); cbn [with_mem mm qsize own thv pushed returned aborted app apply_wrs fold_left];
      reflexivity.
  - unfold step in E. rewrite Ea in E. destruct (own (sc s)); try discriminate; inversion E; subst; clear E;
      cbn [sc obuf tbufs]; rewrite Hb; cbn; auto.
Qed.

Theorem tso_thief_tick_sc t s s1 i :
  drained s -> tso_step t s (S i, Do Tick) = Some s1 ->
  exists buf1, nth_error (tbufs s1) i = Some buf1 /\
  step (sc s) (S i, Tick) = Some (with_mem (sc s1) (apply_wrs (mm (sc s1)) buf1)) /\ obuf s1 = obuf s.
Proof.
  intros (_ & _ & Hb & Hm) E. unfold tso_step in E. unfold step.
  destruct (aborted (sc s)) eqn:Ea; [discriminate|].
  destruct (nth_error (thv (sc s)) i) as [pc|] eqn:Ei; [|discriminate].
  destruct (nth_error (tbufs s) i) as [buf|] eqn:Eb; [|discriminate].
  destruct (nth_error (tmarks s) i) as [mark|] eqn:Em; [|discriminate].
  pose proof (Forall_nth _ _ _ _ Hb Eb) as ->. pose proof (Forall_nth _ _ _ _ Hm Em) as ->.
  cbn [isnil negb andb view apply_wrs fold_left] in E. rewrite andb_false_r in E.
  destruct (thief_tick (mm (sc s)) pc) as [[[ws pc'] g]|]; [|discriminate].
  inversion E; subst; clear E. cbn [sc obuf tbufs mm].
  assert (Hn : forall x, nth_error (set_nthA (tbufs s) i x) i = Some x).
  { clear - Eb. revert i Eb. induction (tbufs s) as [|h l IH]; intros [|i] Eb x; cbn in *; try discriminate; auto. }
  eexists. split; [apply Hn|]. split; auto.
  destruct (thief_rmw pc); cbn [with_mem mm qsize own thv pushed returned aborted app apply_wrs fold_left];
    reflexivity.
Qed.
