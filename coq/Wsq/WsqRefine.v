(** C02 - forward simulation from the fine-grained deque (Wsq/WsqModel.v, sequential
    consistency) to an atomic deque: every step of every participant either leaves the live
    content [live s] unchanged or performs exactly one atomic deque operation on it, and the
    value an operation hands to its caller is the value it claimed at that commit point. *)
From Coq Require Import ZArith List Lia Bool.
From MT Require Import Lib.Interleave Wsq.WsqModel Wsq.WsqLists Wsq.WsqInv Wsq.WsqProofs.
Import ListNotations.
Local Open Scope Z_scope.

(** * The atomic deque and the abstraction *)
Inductive dq_ev := DStutter | DPushTop (x : Z) | DPopTop (x : Z) | DPushBase (x : Z) | DPopBase (x : Z).

(** the atomic deque: a list, base end first *)
Definition dq_step (q : list Z) (e : dq_ev) (q' : list Z) : Prop :=
  match e with
  | DStutter => q' = q
  | DPushTop x => q' = q ++ [x]
  | DPopTop x => q = q' ++ [x]
  | DPushBase x => q' = x :: q
  | DPopBase x => q = x :: q'
  end.

(** the atomic operation that the participant's next step commits *)
Definition oev (m : mem) (o : opc) : dq_ev :=
  match o with
  | OPushTop x _ => DPushTop x
  | OPutBase x _ => DPushBase x
  | OPopReadBase t => if base m + 1 <? t then DPopTop (znth (ptr m) t) else DStutter
  | OPopSlow t => if base m <=? t then DPopTop (znth (ptr m) t) else DStutter
  | _ => DStutter
  end.
Definition tev (m : mem) (h : tpc) : dq_ev :=
  match h with
  | TReadTop _ b => if b <? top m then DPopBase (znth (ptr m) b) else DStutter
  | TDecide false b | TSlot MP b => DPushBase (znth (ptr m) b)   (* declined / peeked: the candidate goes back *)
  | TPassBase x => DPushBase x
  | _ => DStutter
  end.

Definition cl (m : mem) (o : opc) (h : tpc) : list Z := zseg (ptr m) (Bq m h) (Tq m o).

Lemma owner_core_refine m sz o h P R ws o' g :
  Core m sz o h P R -> owner_tick m sz o = Some (ws, o', g) ->
  dq_step (cl m o h) (oev m o) (cl (apply_wrs m ws) o' h).
Proof.
  intros C E. unfold cl. destruct o; cbn [owner_tick] in E; try discriminate; cbn [oev].
  - destruct (Z.eqb_spec (top m) sz) as [Et|Et]; inversion E; subst; clear E; core_open C; reflexivity.
  - destruct (Z.eqb_spec (lck m) 0) as [El|El]; [|discriminate]. inversion E; subst; clear E.
    core_open C. reflexivity.
  - pose proof (owner_holds_excl _ _ _ _ _ _ C eq_refl) as Hh.
    destruct (Z.eqb_spec (base m) 0) as [Eb|Eb]; inversion E; subst; clear E.
    + reflexivity.
    + core_open C. nohold Hh.
      replace (- base m - 1) with (- (base m + 1)) in * by lia. rewrite quot2_opp in *.
      pose proof (quot2_bounds (base m + 1) ltac:(lia)) as Q.
      set (k := Z.quot (base m + 1) 2) in *.
      assert (Hl : Z.of_nat (length (zseg (ptr m) (base m) (top m))) = top m - base m)
        by (apply zseg_length; lia).
      cbn [dq_step]. rewrite !Z.add_0_r, !Z.sub_0_r.
      rewrite (zseg_blit (ptr m) (base m + - k)); auto; lia.
  - inversion E; subst; clear E. core_open C. reflexivity.
  - inversion E; subst; clear E. core_open C. destruct C7 as [-> C7].
    cbn [dq_step]. rewrite zseg_zupd_outside by lia. reflexivity.
  - inversion E; subst; clear E. core_open C. destruct C7 as (-> & C7 & C7').
    cbn [dq_step]. rewrite !Z.add_0_r in *. rewrite zseg_snoc by lia. rewrite C7'. reflexivity.
  - destruct (top m <=? base m); inversion E; subst; clear E; core_open C; reflexivity.
  - inversion E; subst; clear E; core_open C; reflexivity.
  - inversion E; subst; clear E; core_open C. subst t. cbn [dq_step].
    replace (top m - 1 + 1) with (top m + 0) by lia. reflexivity.
  - destruct (Z.ltb_spec (base m + 1) t) as [Ef|Ef]; inversion E; subst; clear E; core_open C; subst t; cbn [dq_step].
    + assert (Hh : b2z (hc h) = 0 \/ b2z (hc h) = 1) by (destruct (hc h); cbn; lia).
      rewrite zseg_snoc by lia. rewrite Z.add_0_r. reflexivity.
    + reflexivity.
  - inversion E; subst; clear E; core_open C; reflexivity.
  - destruct (Z.eqb_spec (lck m) 0) as [El|El]; [|discriminate]. inversion E; subst; clear E.
    core_open C. reflexivity.
  - pose proof (owner_holds_excl _ _ _ _ _ _ C eq_refl) as Hh.
    destruct (Z.leb_spec (base m) t) as [Eb|Eb]; inversion E; subst; clear E; core_open C; nohold Hh; subst t; cbn [dq_step].
    + destruct (top m <=? base m); mem_cbn; rewrite zseg_zupd_outside by lia;
        rewrite zseg_snoc by lia; rewrite !Z.add_0_r, !Z.sub_0_r; reflexivity.
    + rewrite !zseg_nil by lia. reflexivity.
  - inversion E; subst; clear E. core_open C. reflexivity.
  - destruct (Z.eqb_spec (lck m) 0) as [El|El]; [|discriminate]. inversion E; subst; clear E.
    core_open C. reflexivity.
  - pose proof (owner_holds_excl _ _ _ _ _ _ C eq_refl) as Hh.
    destruct (Z.eqb_spec (base m) 0) as [Eb|Eb].
    + destruct (Z.eqb_spec (top m) sz) as [Et|Et]; inversion E; subst; clear E.
      * reflexivity.
      * core_open C. nohold Hh.
        pose proof (quot2_bounds (sz - top m + 1) ltac:(lia)) as Q.
        set (k := Z.quot (sz - top m + 1) 2) in *.
        assert (Hl : Z.of_nat (length (zseg (ptr m) (base m) (top m))) = top m - base m)
          by (apply zseg_length; lia).
        cbn [dq_step]. rewrite !Z.add_0_r, !Z.sub_0_r.
        rewrite (zseg_blit (ptr m) (base m + k)); auto; lia.
    + inversion E; subst; clear E. core_open C. reflexivity.
  - pose proof (owner_holds_excl _ _ _ _ _ _ C eq_refl) as Hh.
    inversion E; subst; clear E. core_open C. nohold Hh. destruct C7 as [-> C7].
    cbn [dq_step]. rewrite zseg_zupd_outside by lia. reflexivity.
  - pose proof (owner_holds_excl _ _ _ _ _ _ C eq_refl) as Hh.
    inversion E; subst; clear E. core_open C. nohold Hh. destruct C7 as (-> & C7 & C7').
    cbn [dq_step]. rewrite !Z.add_0_r, !Z.sub_0_r.
    rewrite (zseg_cons (ptr m) (base m - 1)) by lia. rewrite C7'.
    replace (base m - 1 + 1) with (base m) by lia. reflexivity.
  - inversion E; subst; clear E. core_open C. reflexivity.
Qed.

Lemma thief_core_refine m sz o h P R ws h' g :
  Core m sz o h P R -> thief_tick m h = Some (ws, h', g) ->
  dq_step (cl m o h) (tev m h) (cl (apply_wrs m ws) o h').
Proof.
  intros C E. unfold cl. destruct h; cbn [thief_tick] in E; try discriminate; cbn [tev].
  - destruct (top m - base m <=? 0); inversion E; subst; clear E; core_open_t C; reflexivity.
  - destruct (Z.eqb_spec (lck m) 0) as [El|El].
    + destruct m0; inversion E; subst; clear E; core_open_t C; reflexivity.
    + destruct m0; [discriminate| |]; inversion E; subst; clear E; unfold peek_start;
        repeat match goal with |- context [if ?c then _ else _] => destruct c end;
        core_open_t C; reflexivity.
  - inversion E; subst; clear E. core_open_t C; reflexivity.
  - inversion E; subst; clear E. core_open_t C. subst b. cbn [dq_step].
    replace (base m + 1 - 1) with (base m - 0) by lia. reflexivity.
  - destruct (Z.ltb_spec b (top m)) as [Eb|Eb]; inversion E; subst; clear E; core_open_t C; cbn [dq_step].
    + assert (b2z (oc o) = 0 \/ b2z (oc o) = 1) by (destruct (oc o); cbn; lia).
      rewrite (zseg_cons (ptr m) (base m - 1)) by lia.
      replace (base m - 1 + 1) with (base m - 0) by lia. replace (base m - 1) with b by lia. reflexivity.
    + reflexivity.
  - destruct m0 as [|d|]; inversion E; subst; clear E; core_open_t C; destruct C8 as [C8 C8']; cbn [dq_step]; try reflexivity.
    assert (b2z (oc o) = 0 \/ b2z (oc o) = 1) by (destruct (oc o); cbn; lia).
    rewrite (zseg_cons (ptr m) (base m - 1)) by lia.
    replace (base m - 1 + 1) with (base m - 0) by lia. replace (base m - 1) with b by lia. reflexivity.
  - destruct d; inversion E; subst; clear E; core_open_t C; destruct C8 as [C8 C8']; cbn [dq_step]; try reflexivity.
    assert (b2z (oc o) = 0 \/ b2z (oc o) = 1) by (destruct (oc o); cbn; lia).
    rewrite (zseg_cons (ptr m) (base m - 1)) by lia.
    replace (base m - 1 + 1) with (base m - 0) by lia. replace (base m - 1) with b by lia. reflexivity.
  - destruct m0; inversion E; subst; clear E; core_open_t C; cbn [dq_step];
      replace (base m - 1) with (b - 0) by lia; reflexivity.
  - inversion E; subst; clear E. core_open_t C. reflexivity.
  - destruct (Z.eqb_spec (lck m) 0) as [El|El]; inversion E; subst; clear E; core_open_t C; reflexivity.
  - destruct (Z.eqb_spec (base m) 0) as [Eb|Eb]; inversion E; subst; clear E; core_open_t C; reflexivity.
  - inversion E; subst; clear E. core_open_t C. destruct C8 as [-> C8].
    cbn [dq_step]. rewrite zseg_zupd_outside by lia. reflexivity.
  - inversion E; subst; clear E. core_open_t C. destruct C8 as [C8 C8'].
    assert (Hoc : b2z (oc o) = 0 \/ b2z (oc o) = 1) by (destruct (oc o); cbn; lia).
    cbn [dq_step]. rewrite !Z.sub_0_r.
    rewrite (zseg_cons (ptr m) (base m - 1)) by lia. rewrite C8'.
    replace (base m - 1 + 1) with (base m) by lia. reflexivity.
  - destruct (base m <? top m); inversion E; subst; clear E; core_open_t C; reflexivity.
  - inversion E; subst; clear E; core_open_t C; reflexivity.
  - destruct (wptr m =? 0); inversion E; subst; clear E; core_open_t C; reflexivity.
  - inversion E; subst; clear E; core_open_t C; reflexivity.
  - inversion E; subst; clear E; core_open_t C; reflexivity.
Qed.

(** * Lifting to states *)

Definition step_event (s : state) (a : actor) : dq_ev :=
  match a with
  | (O, Tick) => oev (mm s) (own s)
  | (S i, Tick) => match nth_error (thv s) i with Some pc => tev (mm s) pc | None => DStutter end
  | _ => DStutter
  end.

Lemma live_cl s h : Rep (thv s) h -> live s = cl (mm s) (own s) h.
Proof.
  intros Rp. destruct (Rep_aggr (mm s) _ _ Rp) as (A1 & _ & _).
  unfold live, cl, Beff, Teff, Bq, Tq. rewrite A1. reflexivity.
Qed.

Lemma tev_nohold m pc : holds_t pc = false -> tev m pc = DStutter.
Proof. destruct pc; cbn; try discriminate; auto. Qed.

Lemma cl_nohold m o h h' : holds_t h = false -> holds_t h' = false -> cl m o h = cl m o h'.
Proof. intros H H'. unfold cl, Bq. rewrite (nh_hc _ H), (nh_hc _ H'). reflexivity. Qed.

Ltac live2 h Rp := match goal with |- dq_step _ _ (live ?s2) => rewrite (live_cl s2 h Rp) end.

Theorem refines_deque s a s' :
  reachable init step s -> step s a = Some s' -> dq_step (live s) (step_event s a) (live s').
Proof.
  intros Hr E. destruct (reachable_Inv s Hr) as (h & C & Rp).
  assert (Hr' : reachable init step s') by (eapply reach_step; eauto).
  unfold step in E. destruct (aborted s); [discriminate|].
  destruct a as [[|i] e]; destruct e; try discriminate; cbn [step_event].
  - destruct (own s) eqn:Eo; try discriminate. inversion E; subst; clear E.
    rewrite (live_cl s h Rp). live2 h Rp. cbn [mm own thv]. rewrite Eo.
    unfold cl, Tq. destruct o; reflexivity.
  - destruct (owner_tick (mm s) (qsize s) (own s)) as [[[ws pc'] g]|] eqn:Et; [|discriminate].
    inversion E; subst; clear E.
    rewrite (live_cl s h Rp). live2 h Rp. cbn [mm own thv].
    eapply owner_core_refine; eauto.
  - destruct (own s) eqn:Eo; try discriminate. inversion E; subst; clear E.
    rewrite (live_cl s h Rp). live2 h Rp. cbn [mm own thv]. rewrite Eo. reflexivity.
  - destruct (nth_error (thv s) i) as [pc|] eqn:Ei; [|discriminate].
    destruct pc; try discriminate. inversion E; subst; clear E.
    assert (Rp' : Rep (set_nth (thv s) i (thief_call (mm s) o)) h)
      by (eapply Rep_nohold_move; eauto; apply thief_call_nohold).
    rewrite (live_cl s h Rp). live2 h Rp'. reflexivity.
  - destruct (nth_error (thv s) i) as [pc|] eqn:Ei; [|discriminate].
    destruct (thief_tick (mm s) pc) as [[[ws pc'] g]|] eqn:Et; [|discriminate].
    inversion E; subst; clear E.
    destruct (holds_t pc) eqn:Hp.
    + destruct (Rep_holder _ _ _ _ Rp Ei Hp) as [-> Hoth].
      assert (Rp' : Rep (set_nth (thv s) i pc') pc') by (eapply Rep_set_holder; eauto).
      rewrite (live_cl s pc Rp). live2 pc' Rp'. cbn [mm own thv].
      eapply thief_core_refine; eauto.
    + destruct (holds_t pc') eqn:Hp'.
      * pose proof (thief_tick_acquire _ _ _ _ _ Et Hp Hp') as L0.
        destruct (free_lock_excl _ _ _ _ _ _ C L0) as [_ Hh].
        assert (Ha : all_nohold (thv s)).
        { destruct Rp as [[_ Ha]|(j & _ & Hj & _)]; [exact Ha|congruence]. }
        assert (Rp' : Rep (set_nth (thv s) i pc') pc').
        { eapply Rep_set_holder; [exact Ei|]. intros j pcj _ Hj. eapply Ha; eauto. }
        rewrite (live_cl s h Rp). live2 pc' Rp'. cbn [mm own thv].
        rewrite (cl_nohold _ _ h pc Hh Hp).
        eapply (thief_core_refine _ _ _ pc); [|exact Et].
        eapply Core_nohold_irrel; [exact Hh|exact Hp|exact C].
      * destruct (thief_tick_nohold _ _ _ _ _ Et Hp Hp') as [-> ->].
        assert (Rp' : Rep (set_nth (thv s) i pc') h) by (eapply Rep_nohold_move; eauto).
        rewrite (live_cl s h Rp). live2 h Rp'. rewrite (tev_nohold _ _ Hp). reflexivity.
  - destruct (nth_error (thv s) i) as [pc|] eqn:Ei; [|discriminate].
    destruct pc; try discriminate. inversion E; subst; clear E.
    assert (Rp' : Rep (set_nth (thv s) i TIdle) h) by (eapply Rep_nohold_move; eauto).
    rewrite (live_cl s h Rp). live2 h Rp'. reflexivity.
Qed.

(** * A claimed slot is not overwritten before it is read: what pop / take hand to their
    caller is the item they removed from [live] at the commit point *)

Lemma thief_tick_ptr m pc ws pc' g :
  thief_tick m pc = Some (ws, pc', g) ->
  ptr (apply_wrs m ws) = ptr m \/
  exists x b, pc = TPassSlot x b /\ ptr (apply_wrs m ws) = zupd (ptr m) (b - 1) x.
Proof.
  intros E. destruct pc; cbn [thief_tick] in E; try discriminate;
    try (right; inversion E; subst; do 2 eexists; split; reflexivity);
    left;
    repeat match type of E with
           | context [if ?c then _ else _] => destruct c
           | context [match ?x with _ => _ end] => destruct x
           end; inversion E; subst; reflexivity.
Qed.

Lemma owner_tick_ptr m sz o ws o' g :
  owner_tick m sz o = Some (ws, o', g) -> holds_o o = false ->
  ptr (apply_wrs m ws) = ptr m \/
  exists x t, o = OPushSlot x t /\ ptr (apply_wrs m ws) = zupd (ptr m) t x.
Proof.
  intros E Ho. destruct o; cbn [owner_tick] in E; cbn in Ho; try discriminate;
    try (right; inversion E; subst; do 2 eexists; split; reflexivity);
    left;
    repeat match type of E with
           | context [if ?c then _ else _] => destruct c
           end; inversion E; subst; reflexivity.
Qed.

Theorem claim_stable s a s' :
  reachable init step s -> step s a = Some s' ->
  (forall t, own s = OPopFast t -> own s' = OPopFast t ->
             znth (ptr (mm s')) t = znth (ptr (mm s)) t) /\
  (forall i m b, nth_error (thv s) i = Some (TSlot m b) -> nth_error (thv s') i = Some (TSlot m b) ->
             znth (ptr (mm s')) b = znth (ptr (mm s)) b).
Proof.
  intros Hr E. destruct (reachable_Inv s Hr) as (h & C & Rp).
  unfold step in E. destruct (aborted s); [discriminate|].
  destruct a as [[|i] e]; destruct e; try discriminate.
  - destruct (own s) eqn:Eo; try discriminate. inversion E; subst; clear E. cbn. split; auto.
  - destruct (owner_tick (mm s) (qsize s) (own s)) as [[[ws pc'] g]|] eqn:Et; [|discriminate].
    inversion E; subst; clear E. cbn [mm own thv]. split.
    + intros t Ho Ho'. rewrite Ho in Et. cbn in Et. inversion Et; subst. discriminate.
    + intros j m b Hj _.
      assert (Hh : holds_t (TSlot m b) = true) by reflexivity.
      destruct (Rep_holder _ _ _ _ Rp Hj Hh) as [-> _].
      destruct (thief_holds_excl _ _ _ _ _ _ C Hh) as [Hno _].
      destruct (owner_tick_ptr _ _ _ _ _ _ Et Hno) as [->|(x & t & Eo & ->)]; [reflexivity|].
      rewrite Eo in C. core_open C. cbn [hc tinv b2z] in *. destruct C7 as [-> _]. destruct C8 as [C8 C8'].
      apply znth_zupd_other; lia.
  - destruct (own s) eqn:Eo; try discriminate. inversion E; subst; clear E. cbn. split; auto.
  - destruct (nth_error (thv s) i) as [pc|] eqn:Ei; [|discriminate].
    destruct pc; try discriminate. inversion E; subst; clear E. cbn. split; auto.
  - destruct (nth_error (thv s) i) as [pc|] eqn:Ei; [|discriminate].
    destruct (thief_tick (mm s) pc) as [[[ws pc'] g]|] eqn:Et; [|discriminate].
    inversion E; subst; clear E. cbn [mm own thv]. split.
    + intros t Ho _.
      destruct (thief_tick_ptr _ _ _ _ _ Et) as [->|(x & b & -> & ->)]; [reflexivity|].
      assert (Hh : holds_t (TPassSlot x b) = true) by reflexivity.
      destruct (Rep_holder _ _ _ _ Rp Ei Hh) as [-> _].
      rewrite Ho in C. core_open C. cbn [hc tinv b2z] in *. subst t. destruct C8 as [-> C8].
      apply znth_zupd_other; lia.
    + intros j m b Hj Hj'.
      destruct (Nat.eq_dec j i) as [->|Hne].
      * rewrite Ei in Hj. inversion Hj; subst pc.
        rewrite (nth_error_set_nth_eq _ _ _ _ Ei) in Hj'. inversion Hj'; subst pc'.
        cbn in Et. destruct m as [|[|]|]; inversion Et.
      * assert (Hh : holds_t (TSlot m b) = true) by reflexivity.
        destruct (Rep_holder _ _ _ _ Rp Hj Hh) as [-> Hoth].
        pose proof (Hoth i pc (not_eq_sym Hne) Ei) as Hp.
        destruct (thief_holds_excl _ _ _ _ _ _ C Hh) as [_ L1].
        destruct (holds_t pc') eqn:Hp'.
        -- pose proof (thief_tick_acquire _ _ _ _ _ Et Hp Hp'). lia.
        -- destruct (thief_tick_nohold _ _ _ _ _ Et Hp Hp') as [-> ->]. reflexivity.
  - destruct (nth_error (thv s) i) as [pc|] eqn:Ei; [|discriminate].
    destruct pc; try discriminate. inversion E; subst; clear E. cbn. split; auto.
Qed.
