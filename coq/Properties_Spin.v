(** The internal spin lock and the sleep queue it protects (coq/Spin): what licenses the protocol
    models' "one spin-locked region = one step" and "sleep queue = FIFO list".  Statements only. *)
From Coq Require Import List Arith Lia.
From MT Require Import Lib.Interleave Spin.SpinModel Spin.SpinProofs.
Import ListNotations.

(** any number of threads, every schedule: the number of threads between their successful CAS and
    their unlocking store equals the lock word, hence at most one *)
Theorem Spin_mutual_exclusion : forall n (sched : list (nat * sev)),
  let s := run sstep sched (sinit n) in
  nholders s = (if locked s then 1 else 0) /\ nholders s <= 1.
Proof. exact spin_mutual_exclusion. Qed.
Print Assumptions Spin_mutual_exclusion.

Theorem Spin_no_two_holders : forall n (sched : list (nat * sev)) i j pi pj,
  let s := run sstep sched (sinit n) in
  i <> j -> nth_error (sthr s) i = Some pi -> nth_error (sthr s) j = Some pj ->
  holder pi = true -> holder pj = true -> False.
Proof. exact spin_no_two_holders. Qed.
Print Assumptions Spin_no_two_holders.

(** every history of enqueue / dequeue on the pointer-level queue in which nothing is enqueued
    while it is still in the queue: the values dequeued are those of the abstract FIFO and the
    pointers keep representing it (head, tail, next links, no cycle) *)
Theorem SleepQueue_refines_fifo : forall ops q l, Rep q l -> wf_hist l ops ->
  snd (qrun q ops) = snd (spec_run l ops) /\ Rep (fst (qrun q ops)) (fst (spec_run l ops)).
Proof. exact queue_refines_fifo. Qed.
Print Assumptions SleepQueue_refines_fifo.

Theorem SleepQueue_walk : forall q l, Rep q l -> qabs q = l.
Proof. exact qabs_rep. Qed.
Print Assumptions SleepQueue_walk.

Example SleepQueue_example :
  snd (qrun qempty [QEnq 1; QEnq 2; QDeq; QEnq 3; QDeq; QDeq; QDeq]) = [Some 1; Some 2; Some 3; None]
  /\ Rep qempty [] /\ wf_hist [] [QEnq 1; QEnq 2; QDeq; QEnq 3; QDeq; QDeq; QDeq].
Proof. split; [vm_compute; reflexivity|]. split; [exact rep_empty|]. cbn. intuition (try discriminate; try lia; try congruence). Qed.
