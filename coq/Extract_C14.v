From Coq Require Import ExtrOcamlBasic.
From Coq Require Import ZArith.
From MT Require Import Once.OnceModel.
Extraction Language OCaml.
Separate Extraction BinNums.N BinInt.Z.add BinInt.Z.mul BinInt.Z.opp BinInt.Z.div_eucl init_state step label ret_ok word thr runs fins rets.
