(** Composition of Abs(mutex, conds, felock) with the scheduler-level machine: the machine-level
    half of C04 ("threads blocked on a mutex do not occupy a worker").  Statements only; model in
    Compose/ComposeModel.v (executable product, replayed against the library by
    tools/props/compose.py), proofs in Compose/ComposeProofs.v.

    All theorems: every number of workers [nw], threads [nt >= 1] (thread 0 = main), condition
    variables [nc], every schedule [list cev] of the product from [cinit nw nt nc]
    ([creach nw nt nc] = reachable from it). *)
From Coq Require Import ZArith List Bool Arith.
From MT Require Import Lib.Interleave Sync.SyncModel Machine.MachineModel Compose.ComposeModel Compose.ComposeProofs.
From MT Require Sync.MutexProofs Machine.MachineProofs.
Import ListNotations.

Theorem Compose_every_run_reachable : forall nw nt nc (sched : list cev),
  creach nw nt nc (run cstep sched (cinit nw nt nc)).
Proof. intros. apply run_reachable. apply reach_init. reflexivity. Qed.
Print Assumptions Compose_every_run_reachable.

(** (1) both component invariants and the link invariant hold in every reachable product state,
    and the product invariant is inductive *)
Theorem Compose_invariants : forall nw nt nc c, 1 <= nt -> creach nw nt nc c ->
  MutexProofs.Inv (sy c) /\ MachineProofs.Inv (ma c) /\
  (forall x, susp_at (sy c) x = true -> parked (ma c) x = true).
Proof.
  intros nw nt nc c Hnt R. destruct (cinv_reach nw nt nc c Hnt R) as [A B _ D].
  split; [exact A|]. split; [exact B|exact D].
Qed.
Print Assumptions Compose_invariants.

Theorem Compose_inv_inductive : forall c a c', CInv c -> cstep c a = Some c' -> CInv c'.
Proof. exact cstep_inv. Qed.
Print Assumptions Compose_inv_inductive.

(** projections: the Sync component of a reachable product state is reachable in SyncModel, the
    machine component in MachineModel (so every theorem of Properties_C04 / Properties_Machine
    applies to it); one product step = one Sync step or none, and at most 3 machine moves *)
Theorem Compose_projections : forall nw nt nc c, creach nw nt nc c ->
  reachable MutexProofs.init SyncModel.step (sy c) /\
  reachable (MachineProofs.minit_pred nw nt) mstep (ma c).
Proof. exact creach_proj. Qed.
Print Assumptions Compose_projections.

Theorem Compose_step_projects : forall c a c', cstep c a = Some c' ->
  (sy c' = sy c \/ exists t e, SyncModel.step (sy c) (t, e) = Some (sy c')) /\
  (exists l, mmoves (ma c) l = Some (ma c') /\ length l <= 3).
Proof. intros c a c' H. split; [eapply cstep_proj_sync | eapply cstep_proj_mach]; eauto. Qed.
Print Assumptions Compose_step_projects.

(** (2) *)
Theorem C04_blocked_frees_worker : forall nw nt nc c x, 1 <= nt -> creach nw nt nc c ->
  In x (mq (sy c)) \/ (exists q, In x (nth q (cqs (sy c)) [])) \/
  (exists t th, get_thread (sy c) t = Some th /\ MutexProofs.in_hand th x) ->
  is_live (ma c) x = true /\ places (ma c) x = 0 /\
  forall w, nth_error (cur (ma c)) w <> Some (Run x) /\ nth_error (hand (ma c)) w <> Some (Some x) /\
            (forall q, nth_error (dq (ma c)) w = Some q -> ~ In x q).
Proof. exact blocked_frees_worker. Qed.
Print Assumptions C04_blocked_frees_worker.

(** (3) *)
Theorem C04_sync_step_on_unique_worker : forall nw nt nc c w t e c', 1 <= nt -> creach nw nt nc c ->
  cstep c (CSync w t e) = Some c' -> is_cb_ev e = false ->
  nth_error (cur (ma c)) w = Some (Run t) /\ places (ma c) t = 1 /\
  (forall w', nth_error (cur (ma c)) w' = Some (Run t) -> w' = w) /\
  (forall w', nth_error (hand (ma c)) w' <> Some (Some t)) /\
  (forall w' q, nth_error (dq (ma c)) w' = Some q -> ~ In t q) /\
  susp_at (sy c) t = false.
Proof. exact sync_step_on_unique_worker. Qed.
Print Assumptions C04_sync_step_on_unique_worker.

(** (4) *)
Theorem C04_wake_inserts_once : forall nw nt nc c w t e x, 1 <= nt -> creach nw nt nc c ->
  guard_ok (ma c) w t e = true -> push_target (sy c) t e = Some x ->
  exists m1, mmove (ma c) w (PushTop x) = Some m1 /\ places (ma c) x = 0 /\ places m1 x = 1 /\
             is_live (ma c) x = true.
Proof. exact wake_inserts_once. Qed.
Print Assumptions C04_wake_inserts_once.

Theorem Compose_sync_steps_never_stuck : forall nw nt nc c w t e s1, 1 <= nt -> creach nw nt nc c ->
  guard_ok (ma c) w t e = true -> SyncModel.step (sy c) (t, e) = Some s1 ->
  exists c', cstep c (CSync w t e) = Some c' /\ sy c' = s1.
Proof. exact csync_never_stuck. Qed.
Print Assumptions Compose_sync_steps_never_stuck.

(* ------------------------------------------------------------------------------------------ *)
(** Non-vacuity, 2 workers / 3 threads: main creates t1 child-first, worker 1 steals main; t1 takes
    the mutex; main finds it taken, reserves a seat and blocks (worker 1: callback, then scheduler);
    t1 unlocks: dequeues main, clears the bit, pushes main on its own run queue. *)
Definition sched_block : list cev :=
  [CMach 0 (CreateCF 1); CMach 1 (Steal 0); CMach 1 RunHand;
   CSync 0 1 (ECall Lock); CSync 0 1 ETick; CSync 0 1 ETick; CSync 0 1 (ERet 0%Z);
   CSync 1 0 (ECall Lock); CSync 1 0 ETick; CSync 1 0 ETick; CSync 1 0 (ECbTick 0)].
Definition sched_wake : list cev :=
  sched_block ++ [CSync 0 1 (ECall Unlock); CSync 0 1 ETick; CSync 0 1 ETick; CSync 0 1 ETick; CSync 0 1 ETick].

Example Compose_example_blocked :
  let c := run cstep sched_block (cinit 2 3 1) in
  mq (sy c) = [0] /\ mword (sy c) = 3%Z /\ cur (ma c) = [Run 1; Sched] /\ dq (ma c) = [[]; []] /\
  places (ma c) 0 = 0 /\ parked (ma c) 0 = true /\ In 0 (mq (sy c)).
Proof. vm_compute. repeat split; auto. Qed.

Example Compose_example_in_hand :   (* main dequeued, bit cleared, not yet pushed: in hand, still parked *)
  let c := run cstep sched_wake (cinit 2 3 1) in
  mq (sy c) = [] /\ mword (sy c) = 0%Z /\ push_target (sy c) 1 ETick = Some 0 /\
  guard_ok (ma c) 0 1 ETick = true /\ parked (ma c) 0 = true.
Proof. vm_compute. repeat split; reflexivity. Qed.

Example Compose_example_woken :
  let c := run cstep (sched_wake ++ [CSync 0 1 ETick; CSync 0 1 (ERet 0%Z); CMach 1 (Steal 0); CMach 1 RunHand;
                                     CSync 1 0 ETick; CSync 1 0 ETick; CSync 1 0 (ERet 0%Z)]) (cinit 2 3 1) in
  dq (ma c) = [[]; []] /\ cur (ma c) = [Run 1; Run 0] /\ places (ma c) 0 = 1 /\ holds (sy c) 0 = true /\
  mword (sy c) = 1%Z.
Proof. vm_compute. repeat split; reflexivity. Qed.
