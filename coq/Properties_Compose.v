(** Composition of Abs(mutex, conds, felock) with the scheduler-level machine: the machine-level
    half of C04 ("threads blocked on a mutex do not occupy a worker").  Statements only; model in
    Compose/ComposeModel.v (executable product, replayed against the library by
    tools/props/compose.py), proofs in Compose/ComposeProofs.v.

    All theorems: every number of workers [nw], threads [nt >= 1] (thread 0 = main), condition
    variables [nc], every schedule [list cev] of the product from [cinit nw nt nc]
    ([creach nw nt nc] = reachable from it). *)
From Coq Require Import ZArith List Bool Arith.
From MT Require Import Lib.Interleave Sync.SyncModel Machine.MachineModel Compose.GenericModel Compose.Instances
  Compose.MachineFrame Compose.GenericProofs Compose.ComposeModel Compose.ComposeProofs Compose.InstanceProofs.
From MT Require Sync.MutexProofs Machine.MachineProofs.
From MT Require Barrier.BarrierModel JoinCounter.JcModel Uncond.UncondModel.
Import ListNotations.

Theorem Compose_every_run_reachable : forall nw nt nc (sched : list cev),
  creach nw nt nc (run cstep sched (cinit nw nt nc)).
Proof. intros. apply run_reachable. apply reach_init. reflexivity. Qed.
Print Assumptions Compose_every_run_reachable.

(** (0) THE INTERFACE THEOREM, proved once for every blocking protocol (GenericModel.v): if a step
    of [t] does not suspend another thread, a callback step of [t] does not suspend [t], a push
    step naming [x] leaves [x] not suspended and is enabled only if [x] is suspended, then in every
    reachable state of the product with the scheduler machine a suspended thread is live and in
    no place (current on no worker, in no hand, in no run queue).  The instances below (Sync,
    barrier, join counter, uncond) discharge the four premises from the shape of one step. *)
Theorem Compose_interface_blocked_frees_worker :
  forall (pstate pev : Type) (pstep : pstate -> nat * pev -> option pstate) (is_cb : pev -> bool)
         (susp : pstate -> nat -> bool) (push : pstate -> nat -> pev -> option nat) (ncb : pstate -> nat -> nat),
  (forall s t e s1 x, pstep s (t, e) = Some s1 -> x <> t -> susp s1 x = true -> susp s x = true) ->
  (forall s t e s1, pstep s (t, e) = Some s1 -> is_cb e = true -> susp s1 t = true -> susp s t = true) ->
  (forall s t e s1 x, pstep s (t, e) = Some s1 -> push s t e = Some x -> susp s1 x = false) ->
  forall p0 : pstate, (forall x, susp p0 x = false) ->
  forall nw nt (c : gstate pstate) x, 1 <= nt ->
  reachable (fun c0 => c0 = ginit pstate p0 nw nt) (gstep pstate pev pstep is_cb susp push ncb) c ->
  susp (gp c) x = true ->
  is_live (gm c) x = true /\ places (gm c) x = 0 /\
  forall w, nth_error (cur (gm c)) w <> Some (Run x) /\ nth_error (hand (gm c)) w <> Some (Some x) /\
            (forall q, nth_error (dq (gm c)) w = Some q -> ~ In x q).
Proof. exact GenericProofs.blocked_frees_worker. Qed.
Print Assumptions Compose_interface_blocked_frees_worker.

(** (1) both component invariants and the link invariant hold in every reachable product state,
    and the product invariant is inductive *)
Theorem Compose_invariants : forall nw nt nc c, 1 <= nt -> creach nw nt nc c ->
  MutexProofs.Inv (sy c) /\ MachineProofs.Inv (ma c) /\
  (forall x, susp_at (sy c) x = true -> parked (ma c) x = true).
Proof.
  intros nw nt nc c Hnt R. destruct (cinv_reach nw nt nc c Hnt R) as [A [B _ D]].
  split; [exact A|]. split; [exact B|exact D].
Qed.
Print Assumptions Compose_invariants.

Theorem Compose_inv_inductive : forall c a c', CInv c -> cstep c a = Some c' -> CInv c'.
Proof. exact cstep_inv. Qed.
Print Assumptions Compose_inv_inductive.

(** projections: the Sync component of a reachable product state is reachable in SyncModel, the
    machine component in MachineModel (so every theorem of Properties_C04 / Properties_Machine
    applies to it); one product step = one Sync step or none, and at most 3 machine moves *)
Theorem Compose_projections : forall nw nt nc c, creach nw nt nc c ->
  reachable MutexProofs.init SyncModel.step (sy c) /\
  reachable (MachineProofs.minit_pred nw nt) mstep (ma c).
Proof. exact creach_sync. Qed.
Print Assumptions Compose_projections.

Theorem Compose_step_projects : forall c a c', cstep c a = Some c' ->
  (sy c' = sy c \/ exists t e, SyncModel.step (sy c) (t, e) = Some (sy c')) /\
  (exists l, mmoves (ma c) l = Some (ma c') /\ length l <= 3).
Proof.
  intros c a c' H. split.
  - eapply (gstep_proj_proto state ev SyncModel.step SyncI.is_cb SyncI.susp SyncI.push ncbs); eauto.
  - eapply (gstep_proj_mach state ev SyncModel.step SyncI.is_cb SyncI.susp SyncI.push ncbs); eauto.
Qed.
Print Assumptions Compose_step_projects.

(** (2) *)
Theorem C04_blocked_frees_worker : forall nw nt nc c x, 1 <= nt -> creach nw nt nc c ->
  In x (mq (sy c)) \/ (exists q, In x (nth q (cqs (sy c)) [])) \/
  (exists t th, get_thread (sy c) t = Some th /\ MutexProofs.in_hand th x) ->
  is_live (ma c) x = true /\ places (ma c) x = 0 /\
  forall w, nth_error (cur (ma c)) w <> Some (Run x) /\ nth_error (hand (ma c)) w <> Some (Some x) /\
            (forall q, nth_error (dq (ma c)) w = Some q -> ~ In x q).
Proof. exact blocked_frees_worker. Qed.
Print Assumptions C04_blocked_frees_worker.

(** (3) *)
Theorem C04_sync_step_on_unique_worker : forall nw nt nc c w t e c', 1 <= nt -> creach nw nt nc c ->
  cstep c (CSync w t e) = Some c' -> is_cb_ev e = false ->
  nth_error (cur (ma c)) w = Some (Run t) /\ places (ma c) t = 1 /\
  (forall w', nth_error (cur (ma c)) w' = Some (Run t) -> w' = w) /\
  (forall w', nth_error (hand (ma c)) w' <> Some (Some t)) /\
  (forall w' q, nth_error (dq (ma c)) w' = Some q -> ~ In t q) /\
  susp_at (sy c) t = false.
Proof. exact sync_step_on_unique_worker. Qed.
Print Assumptions C04_sync_step_on_unique_worker.

(** (4) *)
Theorem C04_wake_inserts_once : forall nw nt nc c w t e x, 1 <= nt -> creach nw nt nc c ->
  cguard (ma c) w t e = true -> push_target (sy c) t e = Some x ->
  exists m1, mmove (ma c) w (PushTop x) = Some m1 /\ places (ma c) x = 0 /\ places m1 x = 1 /\
             is_live (ma c) x = true.
Proof. exact wake_inserts_once. Qed.
Print Assumptions C04_wake_inserts_once.

Theorem Compose_sync_steps_never_stuck : forall nw nt nc c w t e s1, 1 <= nt -> creach nw nt nc c ->
  cguard (ma c) w t e = true -> SyncModel.step (sy c) (t, e) = Some s1 ->
  exists c', cstep c (CSync w t e) = Some c' /\ sy c' = s1.
Proof. exact csync_never_stuck. Qed.
Print Assumptions Compose_sync_steps_never_stuck.

(* ------------------------------------------------------------------------------------------ *)
(** The other blocking primitives: same product, same theorems (instances of the interface).
    [XP.preach p0 nw nt] = reachable product states from protocol state [p0] and [minit nw nt]. *)

(** C06 barrier: a thread suspended in myth_barrier_wait (from its arrival CAS until the last
    arriver's push) - in particular every member of the sleep stack - occupies no worker *)
Theorem C06_blocked_frees_worker : forall nw nt n (c : BarrierI.pstate) x, 1 <= nt ->
  BarrierP.preach (BarrierModel.init_state nt n) nw nt c ->
  BarrierI.susp (gp c) x = true \/
  (n = Z.of_nat nt /\ In x (fst (BarrierModel.stack_list (gp c)))) ->
  is_live (gm c) x = true /\ places (gm c) x = 0 /\
  forall w, nth_error (cur (gm c)) w <> Some (Run x) /\ nth_error (hand (gm c)) w <> Some (Some x) /\
            (forall q, nth_error (dq (gm c)) w = Some q -> ~ In x q).
Proof.
  intros nw nt n c x Hnt R H. eapply (BarrierP.p_blocked _ (BarrierP.susp_init nt n)); eauto.
  destruct H as [H|[-> H]]; [exact H|]. eapply BarrierP.stack_members_susp; eauto.
Qed.
Print Assumptions C06_blocked_frees_worker.

Theorem C06_wake_inserts_once : forall nw nt n (c : BarrierI.pstate) w t e s1 x, 1 <= nt ->
  BarrierP.preach (BarrierModel.init_state nt n) nw nt c ->
  guard_ok BarrierModel.ev BarrierI.is_cb (gm c) w t e = true ->
  BarrierModel.step (gp c) (t, e) = Some s1 -> BarrierI.push (gp c) t e = Some x ->
  exists m1, mmove (gm c) w (PushTop x) = Some m1 /\ places (gm c) x = 0 /\ places m1 x = 1 /\ is_live (gm c) x = true.
Proof. intros nw nt n c w t e s1 x Hnt R. eapply (BarrierP.p_wake_once _ (BarrierP.susp_init nt n)); eauto. Qed.
Print Assumptions C06_wake_inserts_once.

Theorem C06_own_step_on_unique_worker : forall nw nt n (c c' : BarrierI.pstate) w t e, 1 <= nt ->
  BarrierP.preach (BarrierModel.init_state nt n) nw nt c ->
  BarrierI.pstep c (GSync w t e) = Some c' -> BarrierI.is_cb e = false ->
  nth_error (cur (gm c)) w = Some (Run t) /\ places (gm c) t = 1 /\
  (forall w', nth_error (cur (gm c)) w' = Some (Run t) -> w' = w) /\
  (forall w', nth_error (hand (gm c)) w' <> Some (Some t)) /\
  (forall w' q, nth_error (dq (gm c)) w' = Some q -> ~ In t q) /\ BarrierI.susp (gp c) t = false.
Proof. intros nw nt n c c' w t e Hnt R. eapply (BarrierP.p_unique _ (BarrierP.susp_init nt n)); eauto. Qed.
Print Assumptions C06_own_step_on_unique_worker.

(** C07 join counter: a registered waiter (suspended in myth_join_counter_wait) - in particular
    every member of the sleep queue - occupies no worker *)
Theorem C07_blocked_frees_worker : forall nw nt n s0 (c : JcI.pstate) x, 1 <= nt ->
  JcModel.init_state n nt = Some s0 -> JcP.preach s0 nw nt c ->
  JcI.susp (gp c) x = true \/ (JcModel.representable n nt = true /\ In x (JcModel.sq (gp c))) ->
  is_live (gm c) x = true /\ places (gm c) x = 0 /\
  forall w, nth_error (cur (gm c)) w <> Some (Run x) /\ nth_error (hand (gm c)) w <> Some (Some x) /\
            (forall q, nth_error (dq (gm c)) w = Some q -> ~ In x q).
Proof.
  intros nw nt n s0 c x Hnt Hi R H. eapply (JcP.p_blocked _ (fun y => JcP.susp_init n nt s0 y Hi)); eauto.
  destruct H as [H|[Hr H]]; [exact H|]. eapply JcP.queue_members_susp; eauto.
Qed.
Print Assumptions C07_blocked_frees_worker.

Theorem C07_wake_inserts_once : forall nw nt n s0 (c : JcI.pstate) w t e s1 x, 1 <= nt ->
  JcModel.init_state n nt = Some s0 -> JcP.preach s0 nw nt c ->
  guard_ok JcModel.ev JcI.is_cb (gm c) w t e = true ->
  JcModel.step (gp c) (t, e) = Some s1 -> JcI.push (gp c) t e = Some x ->
  exists m1, mmove (gm c) w (PushTop x) = Some m1 /\ places (gm c) x = 0 /\ places m1 x = 1 /\ is_live (gm c) x = true.
Proof. intros nw nt n s0 c w t e s1 x Hnt Hi R. eapply (JcP.p_wake_once _ (fun y => JcP.susp_init n nt s0 y Hi)); eauto. Qed.
Print Assumptions C07_wake_inserts_once.

Theorem C07_own_step_on_unique_worker : forall nw nt n s0 (c c' : JcI.pstate) w t e, 1 <= nt ->
  JcModel.init_state n nt = Some s0 -> JcP.preach s0 nw nt c ->
  JcI.pstep c (GSync w t e) = Some c' -> JcI.is_cb e = false ->
  nth_error (cur (gm c)) w = Some (Run t) /\ places (gm c) t = 1 /\
  (forall w', nth_error (cur (gm c)) w' = Some (Run t) -> w' = w) /\
  (forall w', nth_error (hand (gm c)) w' <> Some (Some t)) /\
  (forall w' q, nth_error (dq (gm c)) w' = Some q -> ~ In t q) /\ JcI.susp (gp c) t = false.
Proof. intros nw nt n s0 c c' w t e Hnt Hi R. eapply (JcP.p_unique _ (fun y => JcP.susp_init n nt s0 y Hi)); eauto. Qed.
Print Assumptions C07_own_step_on_unique_worker.

(** C08 uncond: the waiter of a rendezvous (suspended in myth_uncond_wait) - in particular the
    thread published in u->th - occupies no worker *)
Theorem C08_blocked_frees_worker : forall nw nt (c : UncondI.pstate) x, 1 <= nt ->
  UncondP.preach (UncondModel.init_state nt) nw nt c ->
  UncondI.susp (gp c) x = true \/ UncondModel.th (gp c) = Some x ->
  is_live (gm c) x = true /\ places (gm c) x = 0 /\
  forall w, nth_error (cur (gm c)) w <> Some (Run x) /\ nth_error (hand (gm c)) w <> Some (Some x) /\
            (forall q, nth_error (dq (gm c)) w = Some q -> ~ In x q).
Proof.
  intros nw nt c x Hnt R H. eapply (UncondP.p_blocked _ (UncondP.susp_init nt)); eauto.
  destruct H as [H|H]; [exact H|]. eapply UncondP.published_susp; eauto.
Qed.
Print Assumptions C08_blocked_frees_worker.

Theorem C08_wake_inserts_once : forall nw nt (c : UncondI.pstate) w t e s1 x, 1 <= nt ->
  UncondP.preach (UncondModel.init_state nt) nw nt c ->
  guard_ok UncondModel.ev UncondI.is_cb (gm c) w t e = true ->
  UncondModel.step (gp c) (t, e) = Some s1 -> UncondI.push (gp c) t e = Some x ->
  exists m1, mmove (gm c) w (PushTop x) = Some m1 /\ places (gm c) x = 0 /\ places m1 x = 1 /\ is_live (gm c) x = true.
Proof. intros nw nt c w t e s1 x Hnt R. eapply (UncondP.p_wake_once _ (UncondP.susp_init nt)); eauto. Qed.
Print Assumptions C08_wake_inserts_once.

Theorem C08_own_step_on_unique_worker : forall nw nt (c c' : UncondI.pstate) w t e, 1 <= nt ->
  UncondP.preach (UncondModel.init_state nt) nw nt c ->
  UncondI.pstep c (GSync w t e) = Some c' -> UncondI.is_cb e = false ->
  nth_error (cur (gm c)) w = Some (Run t) /\ places (gm c) t = 1 /\
  (forall w', nth_error (cur (gm c)) w' = Some (Run t) -> w' = w) /\
  (forall w', nth_error (hand (gm c)) w' <> Some (Some t)) /\
  (forall w' q, nth_error (dq (gm c)) w' = Some q -> ~ In t q) /\ UncondI.susp (gp c) t = false.
Proof. intros nw nt c c' w t e Hnt R. eapply (UncondP.p_unique _ (UncondP.susp_init nt)); eauto. Qed.
Print Assumptions C08_own_step_on_unique_worker.

(* ------------------------------------------------------------------------------------------ *)
(** Non-vacuity, 2 workers / 3 threads: main creates t1 child-first, worker 1 steals main; t1 takes
    the mutex; main finds it taken, reserves a seat and blocks (worker 1: callback, then scheduler);
    t1 unlocks: dequeues main, clears the bit, pushes main on its own run queue. *)
Definition sched_block : list cev :=
  [CMach 0 (CreateCF 1); CMach 1 (Steal 0); CMach 1 RunHand;
   CSync 0 1 (ECall Lock); CSync 0 1 ETick; CSync 0 1 ETick; CSync 0 1 (ERet 0%Z);
   CSync 1 0 (ECall Lock); CSync 1 0 ETick; CSync 1 0 ETick; CSync 1 0 (ECbTick 0)].
Definition sched_wake : list cev :=
  sched_block ++ [CSync 0 1 (ECall Unlock); CSync 0 1 ETick; CSync 0 1 ETick; CSync 0 1 ETick; CSync 0 1 ETick].

Example Compose_example_blocked :
  let c := run cstep sched_block (cinit 2 3 1) in
  mq (sy c) = [0] /\ mword (sy c) = 3%Z /\ cur (ma c) = [Run 1; Sched] /\ dq (ma c) = [[]; []] /\
  places (ma c) 0 = 0 /\ parked (ma c) 0 = true /\ In 0 (mq (sy c)).
Proof. vm_compute. repeat split; auto. Qed.

Example Compose_example_in_hand :   (* main dequeued, bit cleared, not yet pushed: in hand, still parked *)
  let c := run cstep sched_wake (cinit 2 3 1) in
  mq (sy c) = [] /\ mword (sy c) = 0%Z /\ push_target (sy c) 1 ETick = Some 0 /\
  cguard (ma c) 0 1 ETick = true /\ parked (ma c) 0 = true.
Proof. vm_compute. repeat split; reflexivity. Qed.

Example Compose_example_woken :
  let c := run cstep (sched_wake ++ [CSync 0 1 ETick; CSync 0 1 (ERet 0%Z); CMach 1 (Steal 0); CMach 1 RunHand;
                                     CSync 1 0 ETick; CSync 1 0 ETick; CSync 1 0 (ERet 0%Z)]) (cinit 2 3 1) in
  dq (ma c) = [[]; []] /\ cur (ma c) = [Run 1; Run 0] /\ places (ma c) 0 = 1 /\ holds (sy c) 0 = true /\
  mword (sy c) = 1%Z.
Proof. vm_compute. repeat split; reflexivity. Qed.

(** barrier for 2 on 2 workers: t1 arrives first and sleeps on the stack (parked, worker 0 idle);
    main arrives last, pops it and pushes it on its own run queue *)
Definition bsched_block : list BarrierI.pevent :=
  [GMach 0 (CreateCF 1); GMach 1 (Steal 0); GMach 1 RunHand;
   GSync 0 1 (BarrierModel.ECall BarrierModel.Wait); GSync 0 1 BarrierModel.ETick; GSync 0 1 BarrierModel.ETick;
   GSync 0 1 BarrierModel.ECbTick; GSync 0 1 BarrierModel.ECbTick].
Example Compose_example_barrier :
  let c := run BarrierI.pstep bsched_block (BarrierI.pinit 2 2 2%Z) in
  BarrierModel.stack_list (gp c) = ([1], true) /\ BarrierI.susp (gp c) 1 = true /\
  cur (gm c) = [Sched; Run 0] /\ parked (gm c) 1 = true /\
  let c2 := run BarrierI.pstep [GSync 1 0 (BarrierModel.ECall BarrierModel.Wait); GSync 1 0 BarrierModel.ETick;
                                GSync 1 0 BarrierModel.ETick; GSync 1 0 BarrierModel.ETick; GSync 1 0 BarrierModel.ETick;
                                GSync 1 0 BarrierModel.ETick; GSync 1 0 BarrierModel.ETick] c in
  dq (gm c2) = [[]; [1]] /\ places (gm c2) 1 = 1 /\ BarrierI.susp (gp c2) 1 = false /\
  BarrierModel.stack_list (gp c2) = ([], true).
Proof. vm_compute. repeat split; reflexivity. Qed.

(** uncond: t1 waits (published, parked), main signals: clear, push *)
Example Compose_example_uncond :
  let c := run UncondI.pstep
     [GMach 0 (CreateCF 1); GMach 1 (Steal 0); GMach 1 RunHand;
      GSync 0 1 UncondModel.EAnnounce; GSync 0 1 (UncondModel.ECall UncondModel.Wait); GSync 0 1 UncondModel.ECbTick]
     (UncondI.pinit 2 2) in
  UncondModel.th (gp c) = Some 1 /\ parked (gm c) 1 = true /\ cur (gm c) = [Sched; Run 0] /\
  let c2 := run UncondI.pstep [GSync 1 0 (UncondModel.ECall UncondModel.Signal); GSync 1 0 UncondModel.ETick;
                               GSync 1 0 UncondModel.ETick; GSync 1 0 UncondModel.ETick] c in
  dq (gm c2) = [[]; [1]] /\ places (gm c2) 1 = 1 /\ UncondModel.th (gp c2) = None.
Proof. vm_compute. repeat split; reflexivity. Qed.

(** join counter for 1 decrement: t1 registers and sleeps in the queue (parked); main's decrement is
    the last one: it dequeues t1 and pushes it *)
Example Compose_example_jc :
  match JcModel.init_state 1 2 with
  | None => False
  | Some s0 =>
    let c := run JcI.pstep
       [GMach 0 (CreateCF 1); GMach 1 (Steal 0); GMach 1 RunHand;
        GSync 0 1 (JcModel.ECall JcModel.Wait); GSync 0 1 JcModel.ETick; GSync 0 1 JcModel.ETick; GSync 0 1 JcModel.ECbTick]
       (JcI.pinit 2 s0) in
    JcModel.sq (gp c) = [1] /\ parked (gm c) 1 = true /\ cur (gm c) = [Sched; Run 0] /\
    let c2 := run JcI.pstep [GSync 1 0 (JcModel.ECall JcModel.Dec); GSync 1 0 JcModel.ETick; GSync 1 0 JcModel.ETick;
                             GSync 1 0 JcModel.ETick; GSync 1 0 JcModel.ETick] c in
    dq (gm c2) = [[]; [1]] /\ places (gm c2) 1 = 1 /\ JcModel.sq (gp c2) = []
  end.
Proof. vm_compute. repeat split; reflexivity. Qed.
