From Coq Require Import ExtrOcamlBasic.
From Coq Require Import ZArith.
From MT Require Import Barrier.BarrierModel.
Extraction Language OCaml.
Separate Extraction BinNums.N BinInt.Z.add BinInt.Z.mul BinInt.Z.opp BinInt.Z.div_eucl init_state step label lval ret_ok stack_list walk is_excess bstate nthr top nxt thr.
