(** Preservation of the invariant of Abs(thread descriptor), part 1 of 4 (see DescInv.v). *)
From Coq Require Import ZArith List Bool Arith Lia.
From MT Require Import Lib.Interleave Sched.DescModel Sched.DescInv.
Import ListNotations.

Lemma pres_claim s a s' (HI : Inv s) (H : step s a = Some s') : forall x y, reap_pc (main (gt s' x)) y = true -> claimed (gh (gt s' y)) = Some x /\ main (gt s' y) <> NoThread.
Proof.
  destruct a as [j e]. intros x y. step_inv H.
  all: crunchT HI ltac:(i2j HI i_claim j x y).
Qed.

Lemma pres_rdone_c s a s' (HI : Inv s) (H : step s a = Some s') : forall x, rdone (gh (gt s' x)) = true -> claimed (gh (gt s' x)) <> None.
Proof.
  destruct a as [j e]. intros x. step_inv H.
  all: crunchT HI ltac:(pose proof (i_rdone_c _ HI x); pose proof (i_rdone_c _ HI j); i2j HI i_claim j x x; i2j HI i_rdone_p j x x; pose proof (i_cbdet_f _ HI j); pose proof (i_det_rdone _ HI j)).
Qed.

Lemma pres_det_rdone s a s' (HI : Inv s) (H : step s a = Some s') : forall x, detached (gt s' x) = true -> rdone (gh (gt s' x)) = true.
Proof.
  destruct a as [j e]. intros x. step_inv H.
  all: crunchT HI ltac:(pose proof (i_det_rdone _ HI x); pose proof (i_det_rdone _ HI j)).
Qed.

Lemma pres_fresh s a s' (HI : Inv s) (H : step s a = Some s') : forall x, main (gt s' x) = NoThread -> gt s' x = tnone.
Proof.
  destruct a as [j e]. intros x. step_inv H.
  all: crunchT HI ltac:(pose proof (i_fresh _ HI x); i2j HI i_claim j x x; pose proof (i_ktarget _ HI j x)).
Qed.

Lemma pres_cbmain s a s' (HI : Inv s) (H : step s a = Some s') : forall x y, cb (gt s' x) = CbJoinSet y -> main (gt s' x) = JSusp y.
Proof.
  destruct a as [j e]. intros x y. step_inv H.
  all: crunchT HI ltac:(pose proof (i_cbmain _ HI x y); pose proof (i_cbmain _ HI j y)).
Qed.

Lemma pres_cbfin s a s' (HI : Inv s) (H : step s a = Some s') : forall x, fin_cb (cb (gt s' x)) = true -> main (gt s' x) = Finished.
Proof.
  destruct a as [j e]. intros x. step_inv H.
  all: crunchT HI ltac:(pose proof (i_cbfin _ HI x); pose proof (i_cbfin _ HI j)).
Qed.

Lemma pres_runs0 s a s' (HI : Inv s) (H : step s a = Some s') : forall x, started_pc (main (gt s' x)) = false -> runs (gh (gt s' x)) = 0 /\ got (gh (gt s' x)) = None.
Proof.
  destruct a as [j e]. intros x. step_inv H.
  all: crunchT HI ltac:(pose proof (i_runs0 _ HI x); pose proof (i_runs0 _ HI j)).
Qed.

Lemma pres_runs1 s a s' (HI : Inv s) (H : step s a = Some s') : forall x, started_pc (main (gt s' x)) = true -> runs (gh (gt s' x)) = 1 /\ got (gh (gt s' x)) = Some (garg (gh (gt s' x))).
Proof.
  destruct a as [j e]. intros x. step_inv H.
  all: crunchT HI ltac:(pose proof (i_runs1 _ HI x); pose proof (i_runs0 _ HI j); pose proof (i_runs1 _ HI j); let jj := constr:(j) in try match goal with Hc : main (gt _ jj) = Created ?cf |- _ => pose proof (i_created _ HI jj cf Hc) end).
Qed.

Lemma pres_created s a s' (HI : Inv s) (H : step s a = Some s') : forall x cf, main (gt s' x) = Created cf -> result (gt s' x) = garg (gh (gt s' x)).
Proof.
  destruct a as [j e]. intros x cf. step_inv H.
  all: crunchT HI ltac:(pose proof (i_created _ HI x cf)).
Qed.

Lemma pres_susp s a s' (HI : Inv s) (H : step s a = Some s') : forall x y, main (gt s' x) = JSusp y -> cb (gt s' x) = CbNone -> join_thread (gt s' y) = Some x /\ before_readjoin (gt s' y) = true.
Proof.
  destruct a as [j e]. intros x y. step_inv H.
  all: crunchT HI ltac:(pose proof (i_noself _ HI x); pose proof (i_noself _ HI y); pose proof (i_noself _ HI j); pose proof (i_susp _ HI x y); pose proof (i_susp _ HI x j); pose proof (i_susp _ HI j y); pose proof (i_cbjs _ HI j y); pose proof (i_cbjs _ HI x y); pose proof (i_jt _ HI j x); pose proof (i_claim _ HI x y); pose proof (i_claim _ HI j y); pose proof (i_claim _ HI x x); pose proof (i_claim _ HI j j); pose proof (d_fin_cases _ y HI); pose proof (i_lock_b _ HI j y); pose proof (i_cbdet_f _ HI y); pose proof (i_det_rdone _ HI y); pose proof (i_rdone_p _ HI y j); pose proof (i_rdone_p _ HI y x); pose proof (d_status_fin _ y HI)).
Qed.

Lemma pres_noself s a s' (HI : Inv s) (H : step s a = Some s') : forall x, join_pc (main (gt s' x)) x = false.
Proof.
  destruct a as [j e]. intros x. step_inv H.
  all: crunchT HI ltac:(pose proof (i_noself _ HI x); pose proof (i_noself _ HI j)).
Qed.

Lemma pres_clock s a s' (HI : Inv s) (H : step s a = Some s') : 0 < clock s'.
Proof.
  destruct a as [j e]. step_inv H.
  all: crunchT HI ltac:(pose proof (i_clock _ HI)).
Qed.

Lemma pres_badwake s a s' (HI : Inv s) (H : step s a = Some s') : badwake s' = false.
Proof.
  destruct a as [j e]. step_inv H.
  all: crunchT HI ltac:(pose proof (i_badwake _ HI); forall_nat1 ltac:(fun z => pose proof (i_jt _ HI j z))).
Qed.

Lemma pres_ktarget s a s' (HI : Inv s) (H : step s a = Some s') : forall x y, main (gt s' x) = KCancel y -> main (gt s' y) <> NoThread.
Proof.
  destruct a as [j e]. intros x y. step_inv H.
  all: crunchT HI ltac:(pose proof (i_ktarget _ HI x y); pose proof (i_ktarget _ HI j y); pose proof (i_fresh _ HI y)).
Qed.

Lemma pres_creq s a s' (HI : Inv s) (H : step s a = Some s') : forall x, cancelled (gt s' x) = true -> creq (gh (gt s' x)) = true.
Proof.
  destruct a as [j e]. intros x. step_inv H.
  all: crunchT HI ltac:(pose proof (i_creq _ HI x); pose proof (i_creq _ HI j)).
Qed.

Lemma pres_acted s a s' (HI : Inv s) (H : step s a = Some s') : forall x, acted (gh (gt s' x)) = true -> creq (gh (gt s' x)) = true.
Proof.
  destruct a as [j e]. intros x. step_inv H.
  all: crunchT HI ltac:(pose proof (i_acted _ HI x); pose proof (i_acted _ HI j); pose proof (i_creq _ HI j)).
Qed.
