(** The TSO message-passing lemma [tso_mp] (C01_visibility_partial): with FIFO store buffers, a
    reader that has loaded the flag value loads, from every data word, the last value the writer
    stored to it before its flag store. *)
From Coq Require Import ZArith List Bool Arith Lia.
From MT Require Import Lib.Interleave Sched.TsoModel.
Import ListNotations.

Lemma eff_ext b : forall m m' x, m x = m' x -> eff b m x = eff b m' x.
Proof.
  induction b as [|[a v] b IH]; intros m m' x H; cbn [eff]; [exact H|].
  apply IH. now rewrite H.
Qed.

Lemma eff_notin b : forall m x, (forall a v, In (a, v) b -> a <> x) -> eff b m x = m x.
Proof.
  induction b as [|[a v] b IH]; intros m x H; cbn [eff]; [reflexivity|].
  rewrite IH by (intros a' v' Hin; apply (H a' v'); now right).
  destruct (Nat.eqb_spec x a) as [->|_]; [|reflexivity].
  elim (H a v); [now left|reflexivity].
Qed.

Lemma eff_snoc b : forall m a v x, eff (b ++ [(a, v)]) m x = if x =? a then v else eff b m x.
Proof.
  induction b as [|[a' v'] b IH]; intros m a v x; cbn [app eff]; [reflexivity|].
  now rewrite IH.
Qed.

Section MP.
  Variables (w r : nat) (f : addr) (D : addr -> bool) (FLAG : Z).
  Hypothesis Hrw : r <> w.
  Hypothesis HDf : D f = false.

  Notation step := (tstep w r f D FLAG).
  Definition TReach : tso -> Prop := reachable (tinit f FLAG) step.

  Definition clean (b : list (addr * Z)) : Prop := forall a v, In (a, v) b -> a <> f /\ D a = false.
  Definition noflag (b : list (addr * Z)) : Prop := forall a v, In (a, v) b -> a <> f.

  Record J (s : tso) : Prop := mkJ {
    j_others : forall t, t <> w -> clean (bufs s t);
    j_unflagged : flagged s = false -> mem s f <> FLAG /\ noflag (bufs s w);
    j_data : forall d, D d = true -> eff (bufs s w) (mem s) d = lastv s d;
    j_flagged : flagged s = true ->
      (exists pre post, bufs s w = pre ++ (f, FLAG) :: post /\ noflag pre /\ clean post /\ mem s f <> FLAG) \/
      (clean (bufs s w) /\ mem s f = FLAG);
    j_seen : seen s = true -> flagged s = true /\ mem s f = FLAG }.

  Lemma clean_noflag b : clean b -> noflag b.
  Proof. intros H a v Hin. exact (proj1 (H a v Hin)). Qed.

  Lemma J_init s : tinit f FLAG s -> J s.
  Proof.
    intros (Hb & Hf & Hs & Hm & Hl). constructor.
    - intros t _ a v Hin. rewrite Hb in Hin. destruct Hin.
    - intros _. split; [exact Hm|]. intros a v Hin. rewrite Hb in Hin. destruct Hin.
    - intros d _. rewrite Hb. cbn. now rewrite Hl.
    - rewrite Hf. discriminate.
    - rewrite Hs. discriminate.
  Qed.

  Lemma upd_fun_eq {A} (g : nat -> A) i x : upd_fun g i x i = x.
  Proof. unfold upd_fun. now rewrite Nat.eqb_refl. Qed.
  Lemma upd_fun_neq {A} (g : nat -> A) i x k : k <> i -> upd_fun g i x k = g k.
  Proof. intros H. unfold upd_fun. now rewrite (proj2 (Nat.eqb_neq k i) H). Qed.

  Lemma J_step s e s' : J s -> step s e = Some s' -> J s'.
  Proof.
    intros HJ H. destruct HJ as [J1 J2 J3 J4 J5]. destruct e as [t a v|t|t a v]; cbn [tstep] in H.
    - (* store *)
      destruct (Nat.eqb_spec a f) as [->|Haf].
      + (* the flag store *)
        destruct ((t =? w) && negb (flagged s) && (v =? FLAG)%Z) eqn:G; [|discriminate].
        apply andb_prop in G. destruct G as [G Gv]. apply andb_prop in G. destruct G as [Gt Gf].
        apply Nat.eqb_eq in Gt. apply Z.eqb_eq in Gv. apply negb_true_iff in Gf. subst t v.
        injection H as <-. destruct (J2 Gf) as [M NF]. constructor; cbn [mem bufs flagged lastv seen].
        * intros t Ht. rewrite upd_fun_neq by exact Ht. now apply J1.
        * discriminate.
        * intros d Hd. rewrite upd_fun_eq, eff_snoc.
          destruct (Nat.eqb_spec d f) as [->|_]; [congruence|]. now apply J3.
        * intros _. left. exists (bufs s w), []. rewrite upd_fun_eq.
          split; [reflexivity|]. split; [exact NF|]. split; [intros a0 v0 []|exact M].
        * intros Hs. destruct (J5 Hs) as [F _]. congruence.
      + destruct (D a) eqn:Da.
        * (* a data store *)
          destruct ((t =? w) && negb (flagged s)) eqn:G; [|discriminate].
          apply andb_prop in G. destruct G as [Gt Gf]. apply Nat.eqb_eq in Gt. apply negb_true_iff in Gf. subst t.
          injection H as <-. destruct (J2 Gf) as [M NF]. constructor; cbn [mem bufs flagged lastv seen].
          -- intros t Ht. rewrite upd_fun_neq by exact Ht. now apply J1.
          -- intros _. split; [exact M|]. rewrite upd_fun_eq. intros a' v' Hin. apply in_app_or in Hin.
             destruct Hin as [Hin|[Hin|[]]]; [now apply (NF a' v')|]. injection Hin as <- <-. exact Haf.
          -- intros d Hd. rewrite upd_fun_eq, eff_snoc. unfold upd_fun.
             destruct (Nat.eqb_spec d a); [reflexivity|]. now apply J3.
          -- rewrite Gf. discriminate.
          -- intros Hs. destruct (J5 Hs) as [F _]. congruence.
        * (* a store to an unrelated word *)
          injection H as <-. constructor; cbn [mem bufs flagged lastv seen].
          -- intros t' Ht'. destruct (Nat.eqb_spec t' t) as [->|Hn].
             ++ rewrite upd_fun_eq. intros a' v' Hin. apply in_app_or in Hin.
                destruct Hin as [Hin|[Hin|[]]]; [exact (J1 t Ht' a' v' Hin)|]. injection Hin as <- <-. auto.
             ++ rewrite upd_fun_neq by exact Hn. now apply J1.
          -- intros Gf. destruct (J2 Gf) as [M NF]. split; [exact M|].
             destruct (Nat.eqb_spec w t) as [<-|Hn].
             ++ rewrite upd_fun_eq. intros a' v' Hin. apply in_app_or in Hin.
                destruct Hin as [Hin|[Hin|[]]]; [now apply (NF a' v')|]. injection Hin as <- <-. exact Haf.
             ++ rewrite upd_fun_neq by exact Hn. exact NF.
          -- intros d Hd. destruct (Nat.eqb_spec w t) as [<-|Hn].
             ++ rewrite upd_fun_eq, eff_snoc. destruct (Nat.eqb_spec d a) as [->|_]; [congruence|]. now apply J3.
             ++ rewrite upd_fun_neq by exact Hn. now apply J3.
          -- intros Gf. destruct (Nat.eqb_spec w t) as [<-|Hn].
             ++ rewrite upd_fun_eq. destruct (J4 Gf) as [(pre & post & E & P1 & P2 & M)|[C M]].
                ** left. exists pre, (post ++ [(a, v)]).
                   split; [rewrite E, <- app_assoc; reflexivity|]. split; [exact P1|]. split; [|exact M].
                   intros a' v' Hin; apply in_app_or in Hin; destruct Hin as [Hin|[Hin|[]]];
                     [now apply (P2 a' v')|]; injection Hin as <- <-; auto.
                ** right. split; [|exact M]. intros a' v' Hin. apply in_app_or in Hin.
                   destruct Hin as [Hin|[Hin|[]]]; [now apply (C a' v')|]. injection Hin as <- <-. auto.
             ++ rewrite upd_fun_neq by exact Hn. now apply J4.
          -- exact J5.
    - (* flush *)
      destruct (bufs s t) as [|[a v] rest] eqn:Eb; [discriminate|]. injection H as <-.
      destruct (Nat.eqb_spec t w) as [->|Htw].
      + (* the writer's oldest store *)
        constructor; cbn [mem bufs flagged lastv seen].
        * intros t Ht. rewrite upd_fun_neq by exact Ht. now apply J1.
        * intros Gf. destruct (J2 Gf) as [M NF]. rewrite upd_fun_eq. split.
          -- unfold upd_fun. destruct (Nat.eqb_spec f a) as [Efa|_]; [|exact M].
             elim (NF a v); [rewrite Eb; now left|now symmetry].
          -- intros a' v' Hin. apply (NF a' v'). rewrite Eb. now right.
        * intros d Hd. rewrite upd_fun_eq. rewrite <- (J3 d Hd), Eb. reflexivity.
        * intros Gf. rewrite upd_fun_eq. destruct (J4 Gf) as [(pre & post & E & P1 & P2 & M)|[C M]].
          -- rewrite Eb in E. destruct pre as [|[a0 v0] pre].
             ++ cbn [app] in E. injection E as E1 E2 E3. subst a v rest. right. split; [exact P2|]. apply upd_fun_eq.
             ++ cbn [app] in E. injection E as E1 E2 E3. subst a0 v0 rest. left. exists pre, post.
                split; [reflexivity|]. split; [intros a' v' Hin; apply (P1 a' v'); now right|].
                split; [exact P2|].
                rewrite upd_fun_neq; [exact M|]. intros Efa. elim (P1 a v); [now left|now symmetry].
          -- right. rewrite Eb in C. split.
             ++ intros a' v' Hin. apply (C a' v'). now right.
             ++ rewrite upd_fun_neq; [exact M|]. intros Efa. elim (proj1 (C a v (or_introl eq_refl))). now symmetry.
        * intros Hs. destruct (J5 Hs) as [F M]. split; [exact F|].
          destruct (J4 F) as [(pre & post & E & P1 & P2 & M')|[C _]]; [congruence|].
          rewrite Eb in C. rewrite upd_fun_neq; [exact M|]. intros Efa. elim (proj1 (C a v (or_introl eq_refl))). now symmetry.
      + (* somebody else's store: neither the flag nor a data word *)
        assert (Ca : a <> f /\ D a = false) by (apply (J1 t Htw a v); rewrite Eb; now left).
        destruct Ca as [Caf CaD].
        assert (Mf : upd_fun (mem s) a v f = mem s f) by (apply upd_fun_neq; congruence).
        constructor; cbn [mem bufs flagged lastv seen]; rewrite ?Mf.
        * intros t' Ht'. destruct (Nat.eqb_spec t' t) as [->|Hn].
          -- rewrite upd_fun_eq. intros a' v' Hin. apply (J1 t Htw a' v'). rewrite Eb. now right.
          -- rewrite upd_fun_neq by exact Hn. now apply J1.
        * rewrite upd_fun_neq by congruence. exact J2.
        * intros d Hd. rewrite upd_fun_neq by congruence. rewrite <- (J3 d Hd). apply eff_ext.
          apply upd_fun_neq. intros ->. congruence.
        * rewrite upd_fun_neq by congruence. exact J4.
        * exact J5.
    - (* load *)
      destruct (eff (bufs s t) (mem s) a =? v)%Z eqn:Ev; [|discriminate]. apply Z.eqb_eq in Ev.
      injection H as <-. constructor; cbn [mem bufs flagged lastv seen]; auto.
      intros Hs. apply orb_prop in Hs. destruct Hs as [Hs|Hs]; [now apply J5|].
      apply andb_prop in Hs. destruct Hs as [Hs Hv]. apply andb_prop in Hs. destruct Hs as [Ht Ha].
      apply Nat.eqb_eq in Ht, Ha. apply Z.eqb_eq in Hv. subst t a. rewrite Hv in Ev.
      rewrite eff_notin in Ev by (apply clean_noflag, J1, Hrw).
      destruct (flagged s) eqn:Gf.
      + split; [reflexivity|exact Ev].
      + destruct (J2 eq_refl) as [M _]. congruence.
  Qed.

  Lemma J_reach s : TReach s -> J s.
  Proof.
    apply invariant_rule.
    - exact J_init.
    - exact J_step.
  Qed.

  (** message passing: once the reader has loaded the flag value, a load of a data word returns
      the writer's last store to it *)
  Theorem tso_mp s d v s' : TReach s -> seen s = true -> D d = true ->
    step s (ELoad r d v) = Some s' -> v = lastv s d.
  Proof.
    intros HR Hs Hd H. destruct (J_reach s HR) as [J1 J2 J3 J4 J5].
    cbn [tstep] in H. destruct (eff (bufs s r) (mem s) d =? v)%Z eqn:Ev; [|discriminate].
    apply Z.eqb_eq in Ev. destruct (J5 Hs) as [F M].
    destruct (J4 F) as [(pre & post & E & P1 & P2 & M')|[C _]]; [congruence|].
    rewrite <- Ev, <- (J3 d Hd).
    rewrite eff_notin, eff_notin; [reflexivity| |].
    - intros a v' Hin ->. destruct (C d v' Hin). congruence.
    - intros a v' Hin ->. destruct (J1 r Hrw d v' Hin). congruence.
  Qed.

  (** ... and that value is the one the writer wrote before its flag store: after the flag store
      the discipline admits no further store to a data word, so [lastv] is frozen *)
  Lemma lastv_frozen s e s' : flagged s = true -> step s e = Some s' -> lastv s' = lastv s /\ flagged s' = true.
  Proof.
    intros F H. destruct e as [t a v|t|t a v]; cbn [tstep] in H.
    - destruct (a =? f).
      + rewrite F, andb_false_r in H. discriminate.
      + destruct (D a).
        * rewrite F, andb_false_r in H. discriminate.
        * injection H as <-. auto.
    - destruct (bufs s t) as [|[a v] rest]; [discriminate|]. injection H as <-. auto.
    - destruct (eff (bufs s t) (mem s) a =? v)%Z; [|discriminate]. injection H as <-. auto.
  Qed.

  Lemma lastv_store s t a v s' : D a = true -> step s (EStore t a v) = Some s' -> t = w /\ lastv s' a = v /\ flagged s = false.
  Proof.
    intros Da H. cbn [tstep] in H. destruct (Nat.eqb_spec a f) as [->|_]; [congruence|]. rewrite Da in H.
    destruct ((t =? w) && negb (flagged s)) eqn:G; [|discriminate]. apply andb_prop in G. destruct G as [Gt Gf].
    apply Nat.eqb_eq in Gt. apply negb_true_iff in Gf. injection H as <-. cbn. now rewrite upd_fun_eq.
  Qed.
End MP.
