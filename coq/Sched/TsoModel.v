(** A small TSO machine (FIFO store buffer per hardware thread, loads read their own buffer first)
    with the ghost bookkeeping of one message-passing idiom: a writer [w] stores data words, then a
    flag word; a reader that has seen the flag reads the data.  Used for C01_visibility_partial with
    flag = [status := FREE_READY2], data = [result] and the words the finishing thread wrote.
    That x86 implements this model is trusted; the interleaving proofs of DescProofs.v are SC. *)
From Coq Require Import ZArith List Bool Arith.
Import ListNotations.

Definition addr := nat.

Inductive tev :=
| EStore (t : nat) (a : addr) (v : Z)     (* append to t's store buffer *)
| EFlush (t : nat)                        (* the oldest buffered store of t reaches memory *)
| ELoad (t : nat) (a : addr) (v : Z).     (* t loads a and observes v (disabled for any other v) *)

Record tso := mkTso {
  mem : addr -> Z;
  bufs : nat -> list (addr * Z);          (* oldest first *)
  (* ghost *)
  flagged : bool;                         (* the writer has issued its flag store *)
  lastv : addr -> Z;                      (* the latest value the writer stored to a data word (initially: memory) *)
  seen : bool }.                          (* the reader has loaded the flag value *)

(** the value a load of [a] gets with buffer [b] (oldest first) over memory [m]: the youngest buffered
    store to [a], else memory *)
Fixpoint eff (b : list (addr * Z)) (m : addr -> Z) (a : addr) : Z :=
  match b with
  | [] => m a
  | (a', v) :: r => eff r (fun x => if x =? a' then v else m x) a
  end.

Definition upd_fun {A} (f : nat -> A) (i : nat) (x : A) : nat -> A := fun k => if k =? i then x else f k.

Section MP.
  Variables (w r : nat) (f : addr) (D : addr -> bool) (FLAG : Z).

  (** one step; the usage discipline of the idiom is part of enabledness: only [w] stores to the
      flag and to the data words, the flag store is its last store to any of them and carries
      [FLAG] *)
  Definition tstep (s : tso) (e : tev) : option tso :=
    match e with
    | EStore t a v =>
        let push := upd_fun (bufs s) t (bufs s t ++ [(a, v)]) in
        if a =? f then
          if (t =? w) && negb (flagged s) && (v =? FLAG)%Z then
            Some (mkTso (mem s) push true (lastv s) (seen s))
          else None
        else if D a then
          if (t =? w) && negb (flagged s) then
            Some (mkTso (mem s) push (flagged s) (upd_fun (lastv s) a v) (seen s))
          else None
        else Some (mkTso (mem s) push (flagged s) (lastv s) (seen s))
    | EFlush t =>
        match bufs s t with
        | [] => None
        | (a, v) :: rest => Some (mkTso (upd_fun (mem s) a v) (upd_fun (bufs s) t rest) (flagged s) (lastv s) (seen s))
        end
    | ELoad t a v =>
        if (eff (bufs s t) (mem s) a =? v)%Z then
          Some (mkTso (mem s) (bufs s) (flagged s) (lastv s)
                      (seen s || ((t =? r) && (a =? f) && (v =? FLAG)%Z)))
        else None
    end.

  Definition tinit (s : tso) : Prop :=
    (forall t, bufs s t = []) /\ flagged s = false /\ seen s = false /\ mem s f <> FLAG /\
    (forall a, lastv s a = mem s a).
End MP.
