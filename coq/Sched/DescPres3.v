(** Preservation of the invariant of Abs(thread descriptor), part 3 of 4 (see DescInv.v). *)
From Coq Require Import ZArith List Bool Arith Lia.
From MT Require Import Lib.Interleave Sched.DescModel Sched.DescInv.
Import ListNotations.

Lemma pres_lock_b s a s' (HI : Inv s) (H : step s a = Some s') : forall x y, holds (gt s' x) x y = true -> lockh (gt s' y) = Some x.
Proof.
  destruct a as [j e]. intros x y. step_inv H.
  all: crunchT HI ltac:(i2j HI i_lock_a j x y; i2j HI i_lock_b j x y).
Qed.

Lemma pres_cbdet_r s a s' (HI : Inv s) (H : step s a = Some s') : forall x, cb (gt s' x) = CbReady2 -> detached (gt s' x) = false.
Proof.
  destruct a as [j e]. intros x. step_inv H.
  all: crunchT HI ltac:(pose proof (i_cbdet_r _ HI x); pose proof (i_cbdet_r _ HI j); i2j HI i_lock_a j x x; i2j HI i_lock_b j x x; pose proof (i_cbfin _ HI x)).
Qed.

Lemma pres_dset s a s' (HI : Inv s) (H : step s a = Some s') : forall x y, main (gt s' x) = DSet y -> status (gt s' y) <> ST_FREE_READY2.
Proof.
  destruct a as [j e]. intros x y. step_inv H.
  all: crunchT HI ltac:(pose proof (i_dset _ HI x y); pose proof (i_lock_b _ HI x y);  pose proof (i_lock_b _ HI j j); pose proof (d_status3 _ y HI)).
Qed.

Lemma pres_jreap s a s' (HI : Inv s) (H : step s a = Some s') : forall x y, main (gt s' x) = JReap y -> status (gt s' y) = ST_FREE_READY2.
Proof.
  destruct a as [j e]. intros x y. step_inv H.
  all: crunchT HI ltac:(pose proof (i_jreap _ HI x y); pose proof (d_status3 _ y HI); pose proof (d_status3 _ j HI)).
Qed.

Lemma pres_dreap s a s' (HI : Inv s) (H : step s a = Some s') : forall x y, main (gt s' x) = DReap y -> status (gt s' y) = ST_FREE_READY2.
Proof.
  destruct a as [j e]. intros x y. step_inv H.
  all: crunchT HI ltac:(pose proof (i_dreap _ HI x y); pose proof (d_status3 _ y HI); pose proof (d_status3 _ j HI)).
Qed.

Lemma pres_retv s a s' (HI : Inv s) (H : step s a = Some s') : forall x, finishing_pc (main (gt s' x)) = true -> retv (gh (gt s' x)) = Some (result (gt s' x)) /\ 0 < t_ret (gh (gt s' x)) /\ t_ret (gh (gt s' x)) < clock s'.
Proof.
  destruct a as [j e]. intros x. step_inv H.
  all: crunchT HI ltac:(pose proof (i_retv _ HI x); pose proof (i_retv _ HI j); pose proof (i_clock _ HI)).
Qed.

