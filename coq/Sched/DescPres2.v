(** Preservation of the invariant of Abs(thread descriptor), part 2 of 4 (see DescInv.v). *)
From Coq Require Import ZArith List Bool Arith Lia.
From MT Require Import Lib.Interleave Sched.DescModel Sched.DescInv.
Import ListNotations.

Lemma pres_rdone_p s a s' (HI : Inv s) (H : step s a = Some s') : forall x y, rdone (gh (gt s' x)) = true -> reap_pc (main (gt s' y)) x = false.
Proof.
  destruct a as [j e]. intros x y. step_inv H.
  all: crunchT HI ltac:(i2j HI i_rdone_p j x y; i2j HI i_claim j x y; i1j HI i_rdone_c j x y; pose proof (i_cbdet_f _ HI j); pose proof (i_det_rdone _ HI j)).
Qed.

Lemma pres_lock_a s a s' (HI : Inv s) (H : step s a = Some s') : forall x y, lockh (gt s' x) = Some y -> holds (gt s' y) y x = true.
Proof.
  destruct a as [j e]. intros x y. step_inv H.
  all: crunchT HI ltac:(i2j HI i_lock_a j x y; i2j HI i_lock_b j x y).
Qed.

Lemma pres_status s a s' (HI : Inv s) (H : step s a = Some s') : forall x, status (gt s' x) = status_spec (gt s' x).
Proof.
  destruct a as [j e]. intros x. step_inv H.
  all: crunchT HI ltac:(pose proof (i_status _ HI x); pose proof (i_status _ HI j); pose proof (i_cbdet_r _ HI j); pose proof (i_cbdet_f _ HI j); forall_nat1 ltac:(fun z => pose proof (i_dset _ HI j z); pose proof (i_rdone_p _ HI z j); pose proof (i_det_rdone _ HI z))).
Qed.

Lemma pres_cbdet_f s a s' (HI : Inv s) (H : step s a = Some s') : forall x, cb (gt s' x) = CbFreeDesc -> detached (gt s' x) = true.
Proof.
  destruct a as [j e]. intros x. step_inv H.
  all: crunchT HI ltac:(pose proof (i_cbdet_f _ HI x); pose proof (i_cbdet_f _ HI j)).
Qed.

Lemma pres_alloc s a s' (HI : Inv s) (H : step s a = Some s') : forall x, desc_alloc (gh (gt s' x)) = alloc_spec (gt s' x) /\ stack_alloc (gh (gt s' x)) = alloc_spec (gt s' x).
Proof.
  destruct a as [j e]. intros x. step_inv H.
  all: crunchT HI ltac:(pose proof (i_alloc _ HI x); pose proof (i_alloc _ HI j)).
Qed.

Lemma pres_sfreed s a s' (HI : Inv s) (H : step s a = Some s') : forall x, stack_freed (gh (gt s' x)) = stack_freed_spec (gt s' x).
Proof.
  destruct a as [j e]. intros x. step_inv H.
  all: crunchT HI ltac:(pose proof (i_sfreed _ HI x); pose proof (i_sfreed _ HI j)).
Qed.

Lemma pres_freed_eq s a s' (HI : Inv s) (H : step s a = Some s') : forall x, desc_freed (gh (gt s' x)) = reaped (gh (gt s' x)).
Proof.
  destruct a as [j e]. intros x. step_inv H.
  all: crunchT HI ltac:(pose proof (i_freed_eq _ HI x); pose proof (i_freed_eq _ HI j)).
Qed.

