(** Abs(thread descriptor): the create / start / finish / join / tryjoin / timedjoin / detach
    protocol on the words of [struct myth_thread], for ANY number of threads (C01, C13).

    Source (src/myth_sched_func.h unless stated): init_myth_thread_struct, myth_create_1,
    myth_create_ex_body (both creation orders, [if (attr && attr->detachstate) new_thread->detached = 1;],
    [if (id) id[0] = new_thread;]), myth_exit_body, myth_join_1/_2/_3, myth_join_body,
    myth_tryjoin_body, myth_timedjoin_body, myth_detach_body, myth_thread_attr_init_body and the
    attribute setters, myth_entry_point, myth_entry_point_1/_2, myth_entry_point_cleanup;
    src/myth_desc_func.h (myth_desc_is_finished = status >= FREE_READY, ...);
    src/myth_wrap_pthread.c pthread_attr_to_myth.  (QUICK_CHECK_ON_JOIN = 0, SWITCH_AFTER_EXIT = 1,
    MYTH_SPLIT_STACK_DESC = 1: the configuration that is compiled.)

    One [ETick] / [ECbTick] = the code between two consecutive MYTH_VERIF_POINTs = one shared
    access; [label] is the id of the POINT (or of the EVENT create.start / free.stack) that the
    activity executes next.  Steps with an empty label are *silent*: the acquisition of the
    descriptor spinlock (enabled only when the lock is free; the lock is then HELD ACROSS the
    following POINTs, across the context switch, until the unlocking store) and the successful
    exit of the [while (status != FREE_READY2)] loop (SPIN join.wait2; enabled only when the
    status word is FREE_READY2).

    A thread has two activities: its own code ([main]) and the context-switch callback that
    runs on the next context's stack after the thread has been left ([cb]: myth_join_2/_3 for a
    blocking join, myth_entry_point_1/_2 for a finishing thread).

    Thread numbers are positions in [thr]; every creation uses a fresh position (an
    incarnation), so a descriptor that the allocator recycles is a new position.  Which record /
    stack address an incarnation gets is not part of this model: see the sequential allocator
    model at the end of the file (C13_bounded_memory) and coq/Alloc (C12). *)
From Coq Require Import ZArith List Bool String Arith.
Import ListNotations.
Local Open Scope Z_scope.

Definition EBUSY : Z := 16.
Definition ST_READY : Z := 0.
Definition ST_BLOCKED : Z := 1.
Definition ST_FREE_READY : Z := 2.
Definition ST_FREE_READY2 : Z := 3.
(** MYTH_CANCELED = PTHREAD_CANCELED = (void * )-1: the result of a thread that acted on a cancellation *)
Definition CANCELED : Z := -1.

(** myth_desc_is_finished: [status >= MYTH_STATUS_FREE_READY] *)
Definition is_finished (st : Z) : bool := ST_FREE_READY <=? st.

(* ------------------------------------------------------------------------------------------ *)
(** * Attribute objects: every field is [Undef] (whatever the memory held) or a value *)

Inductive word := Undef | Val (z : Z).

Record attr := mkAttr {
  a_stackaddr : word; a_stacksize : word; a_guardsize : word; a_detachstate : word;
  a_child_first : word; a_cdsize : word; a_cdata : word }.

(** the global attribute values attr_init copies (myth_globalattr_get_*_body) *)
Record globals := mkGlobals { g_stacksize : Z; g_guardsize : Z; g_child_first : Z }.

(** an attribute object as the caller's stack holds it before attr_init *)
Definition attr_dirty : attr := mkAttr Undef Undef Undef Undef Undef Undef Undef.

(** myth_thread_attr_init_body as it is NOW *)
Definition attr_init (g : globals) (a : attr) : attr :=
  mkAttr (Val 0) (Val (g_stacksize g)) (Val (g_guardsize g)) (Val 0) (Val (g_child_first g)) (Val 0) (Val 0).

(** ... and as it was before commit 85e96a1: custom_data_size / custom_data keep what they held *)
Definition attr_init_prefix (g : globals) (a : attr) : attr :=
  mkAttr (Val 0) (Val (g_stacksize g)) (Val (g_guardsize g)) (Val 0) (Val (g_child_first g)) (a_cdsize a) (a_cdata a).

Definition attr_setdetachstate (a : attr) (v : Z) : attr :=
  mkAttr (a_stackaddr a) (a_stacksize a) (a_guardsize a) (Val v) (a_child_first a) (a_cdsize a) (a_cdata a).
Definition attr_setstacksize (a : attr) (v : Z) : attr :=
  mkAttr (a_stackaddr a) (Val v) (a_guardsize a) (a_detachstate a) (a_child_first a) (a_cdsize a) (a_cdata a).
Definition attr_setguardsize (a : attr) (v : Z) : attr :=
  mkAttr (a_stackaddr a) (a_stacksize a) (Val v) (a_detachstate a) (a_child_first a) (a_cdsize a) (a_cdata a).
Definition attr_setstack (a : attr) (addr v : Z) : attr :=
  mkAttr (Val addr) (Val v) (a_guardsize a) (a_detachstate a) (a_child_first a) (a_cdsize a) (a_cdata a).
(** creation order: the field is public in myth.h (the harness stores to it; the global default
    has a setter) *)
Definition attr_setchildfirst (a : attr) (v : Z) : attr :=
  mkAttr (a_stackaddr a) (a_stacksize a) (a_guardsize a) (a_detachstate a) (Val v) (a_cdsize a) (a_cdata a).

(** pthread_attr_to_myth: attr_init, then detachstate and (stackaddr, stacksize) copied from the
    pthread attribute *)
Definition pthread_attr_to_myth (g : globals) (det addr size : Z) : attr :=
  attr_setstack (attr_setdetachstate (attr_init g attr_dirty) det) addr size.

(** what myth_create_ex_body reads from the attribute *)
Record settings := mkSettings { s_stack : Z; s_cf : bool; s_det : bool }.

Definition default_settings : settings := mkSettings 0 true false.

(** [None] = undefined behaviour: an uninitialised field is used (memcpy of a garbage length from
    a garbage pointer) or custom data is requested from a null pointer *)
Definition create_settings (a : option attr) : option settings :=
  match a with
  | None => Some default_settings
  | Some a =>
    match a_stacksize a, a_cdsize a, a_child_first a, a_detachstate a with
    | Val ss, Val cds, Val cf, Val ds =>
        let ok := Some (mkSettings ss (negb (cf =? 0)) (negb (ds =? 0))) in
        if cds >? 0 then
          match a_cdata a with
          | Val p => if p =? 0 then None else ok
          | Undef => None
          end
        else ok
    | _, _, _, _ => None
    end
  end.

(** the two one-line repairs as switches; [cfg_now] is the code in /repo *)
Record config := mkConfig {
  cfg_null_guard : bool;      (* [if (id) id[0] = new_thread;]  (c226887); before: unconditional store *)
  cfg_honour_det : bool }.    (* [if (attr && attr->detachstate) new_thread->detached = 1;]  (e6d6e48) *)

Definition cfg_now : config := mkConfig true true.
Definition cfg_prefix_nullid : config := mkConfig false true.
Definition cfg_prefix_det : config := mkConfig true false.

(* ------------------------------------------------------------------------------------------ *)
(** * Program counters *)

Inductive pc :=
| NoThread                              (* the position is unused: no descriptor *)
| Created (cf : bool)                   (* descriptor initialised, context made, start function not yet called *)
| Idle                                  (* running its program, between API calls *)
| Done (r : Z) (jv : option Z)          (* call complete: return value, joined value *)
| JLock (t : nat)                       (* silent: spin_lock(t.lock) *)
| JCheck (t : nat)                      (* join.check, lock held *)
| JSusp (t : nat)                       (* context saved, status BLOCKED; resumed by the finisher of t *)
| JSpin (t : nat)                       (* silent: leaves the loop when t.status = FREE_READY2 *)
| JReap (t : nat)                       (* join.reap: read result, release the descriptor *)
| TLock (t : nat) (timed : bool)
| TCheck (t : nat) (timed : bool)       (* tryjoin.check, lock held *)
| TBusy (t : nat)                       (* timedjoin after a failed attempt: retry (silent lock) or return EBUSY *)
| DFast (t : nat)                       (* detach.fast: unlocked read of status *)
| DLock (t : nat)
| DCheck (t : nat)                      (* detach.check, lock held *)
| DSet (t : nat)                        (* detach.set, lock held *)
| DSpin (t : nat)
| DReap (t : nat)                       (* detach.reap *)
| KCancel (t : nat)                      (* myth_cancel(t): silent; cancelled := 1 (under t's lock; no POINT inside: one step) *)
| KTest                                 (* myth_testcancel: silent; read cancel_enabled && cancelled (under the own lock); act or go on *)
| KSet (b : bool)                       (* myth_setcancelstate: silent; cancel_enabled := b (under the own lock) *)
| FLock                                 (* finishing: silent spin_lock(own lock) *)
| FReadJoin                             (* finish.readjoin, lock held *)
| Finished.                             (* the thread's own code is over; its callback may still run *)

Inductive cbpc :=
| CbNone
| CbJoinSet (t : nat)                   (* join.cb.set: t.join_thread := me; unlock *)
| CbFreeStack                           (* free.stack *)
| CbDetTest                             (* finish.cb.detached *)
| CbFreeDesc                            (* finish.cb.freedesc (lock already released) *)
| CbReady2.                             (* finish.cb.ready2: status := FREE_READY2; unlock *)

(** ghost part of a thread: history, usage contract, ledger *)
Record ghost := mkGhost {
  runs : nat;                  (* invocations of the start function *)
  garg : Z;                    (* the argument given at creation *)
  got : option Z;              (* the argument the start function received *)
  retv : option Z;             (* the value it returned / passed to myth_exit *)
  claimed : option nat;        (* the thread that has a reaping operation on this one in progress or done *)
  rdone : bool;                (* a reaping request on this thread has completed successfully *)
  reaped : nat;                (* reap actions performed (join.reap, detach.reap, finisher's own) *)
  desc_alloc : nat; desc_freed : nat; stack_alloc : nat; stack_freed : nat;
  stack_sz : Z;                (* requested stack size (0 = default class) *)
  t_ret : nat;                 (* clock of the return / exit (0 = not yet; the clock starts at 1) *)
  t_ready2 : nat;              (* clock of the FREE_READY2 store (0 = not yet) *)
  creq : bool;                 (* a myth_cancel naming THIS incarnation has stored its request *)
  acted : bool }.              (* the thread terminated itself at a myth_testcancel *)

Record thread := mkThread {
  status : Z;
  join_thread : option nat;
  detached : bool;
  lockh : option nat;          (* the spinlock word; when taken: the thread whose code or callback holds it (ghost) *)
  result : Z;
  main : pc;
  cb : cbpc;
  gh : ghost;
  cancelled : bool;            (* a cancellation request is pending (myth_cancel; reset by creation) *)
  cancel_enabled : bool }.     (* myth_setcancelstate; set by creation *)

Definition ghost0 : ghost := mkGhost 0 0 None None None false 0 0 0 0 0 0 0 0 false false.
Definition tnone : thread := mkThread 0 None false None 0 NoThread CbNone ghost0 false false.

(** the completed joins: (joiner, target, value read, clock of the reap step) *)
Record state := mkState {
  thr : list thread;
  clock : nat;
  crashed : bool;                               (* undefined behaviour was executed (attribute / NULL id) *)
  badwake : bool;                               (* a thread whose context is not saved was made runnable *)
  joins : list (nat * nat * Z * nat) }.

Inductive op :=
| Create (c : nat) (a : option attr) (nullid : bool) (argv : Z)
| Join (t : nat) | TryJoin (t : nat) | TimedJoin (t : nat) | Detach (t : nat)
| Return (v : Z)              (* the start function returns v *)
| Exit (v : Z)                (* myth_exit(v), from any depth *)
| Cancel (t : nat)            (* myth_cancel(t) *)
| TestCancel                  (* myth_testcancel() *)
| SetCancel (b : bool).       (* myth_setcancelstate(b ? ENABLE : DISABLE, &old) *)

Inductive ev := ECall (o : op) | ETick | ECbTick | ERet (v : Z).

(* ---- setters ---- *)
Definition set_status (th : thread) (x : Z) : thread :=
  mkThread x (join_thread th) (detached th) (lockh th) (result th) (main th) (cb th) (gh th) (cancelled th) (cancel_enabled th).
Definition set_jt (th : thread) (x : option nat) : thread :=
  mkThread (status th) x (detached th) (lockh th) (result th) (main th) (cb th) (gh th) (cancelled th) (cancel_enabled th).
Definition set_detached (th : thread) (x : bool) : thread :=
  mkThread (status th) (join_thread th) x (lockh th) (result th) (main th) (cb th) (gh th) (cancelled th) (cancel_enabled th).
Definition set_lockh (th : thread) (x : option nat) : thread :=
  mkThread (status th) (join_thread th) (detached th) x (result th) (main th) (cb th) (gh th) (cancelled th) (cancel_enabled th).
Definition set_result (th : thread) (x : Z) : thread :=
  mkThread (status th) (join_thread th) (detached th) (lockh th) x (main th) (cb th) (gh th) (cancelled th) (cancel_enabled th).
Definition set_main (th : thread) (x : pc) : thread :=
  mkThread (status th) (join_thread th) (detached th) (lockh th) (result th) x (cb th) (gh th) (cancelled th) (cancel_enabled th).
Definition set_cb (th : thread) (x : cbpc) : thread :=
  mkThread (status th) (join_thread th) (detached th) (lockh th) (result th) (main th) x (gh th) (cancelled th) (cancel_enabled th).
Definition set_gh (th : thread) (x : ghost) : thread :=
  mkThread (status th) (join_thread th) (detached th) (lockh th) (result th) (main th) (cb th) x (cancelled th) (cancel_enabled th).
Definition set_cancelled (th : thread) (x : bool) : thread :=
  mkThread (status th) (join_thread th) (detached th) (lockh th) (result th) (main th) (cb th) (gh th) x (cancel_enabled th).
Definition set_cancel_enabled (th : thread) (x : bool) : thread :=
  mkThread (status th) (join_thread th) (detached th) (lockh th) (result th) (main th) (cb th) (gh th) (cancelled th) x.

Definition g_started (g : ghost) (a : Z) : ghost :=
  mkGhost (S (runs g)) (garg g) (Some a) (retv g) (claimed g) (rdone g) (reaped g) (desc_alloc g) (desc_freed g)
          (stack_alloc g) (stack_freed g) (stack_sz g) (t_ret g) (t_ready2 g) (creq g) (acted g).
Definition g_returned (g : ghost) (v : Z) (now : nat) : ghost :=
  mkGhost (runs g) (garg g) (got g) (Some v) (claimed g) (rdone g) (reaped g) (desc_alloc g) (desc_freed g)
          (stack_alloc g) (stack_freed g) (stack_sz g) now (t_ready2 g) (creq g) (acted g).
Definition g_claim (g : ghost) (c : option nat) : ghost :=
  mkGhost (runs g) (garg g) (got g) (retv g) c (rdone g) (reaped g) (desc_alloc g) (desc_freed g)
          (stack_alloc g) (stack_freed g) (stack_sz g) (t_ret g) (t_ready2 g) (creq g) (acted g).
Definition g_rdone (g : ghost) : ghost :=
  mkGhost (runs g) (garg g) (got g) (retv g) (claimed g) true (reaped g) (desc_alloc g) (desc_freed g)
          (stack_alloc g) (stack_freed g) (stack_sz g) (t_ret g) (t_ready2 g) (creq g) (acted g).
(** one reap action: the descriptor goes to a free list *)
Definition g_reap (g : ghost) : ghost :=
  mkGhost (runs g) (garg g) (got g) (retv g) (claimed g) true (S (reaped g)) (desc_alloc g) (S (desc_freed g))
          (stack_alloc g) (stack_freed g) (stack_sz g) (t_ret g) (t_ready2 g) (creq g) (acted g).
Definition g_free_stack (g : ghost) : ghost :=
  mkGhost (runs g) (garg g) (got g) (retv g) (claimed g) (rdone g) (reaped g) (desc_alloc g) (desc_freed g)
          (stack_alloc g) (S (stack_freed g)) (stack_sz g) (t_ret g) (t_ready2 g) (creq g) (acted g).
Definition g_creq (g : ghost) : ghost :=
  mkGhost (runs g) (garg g) (got g) (retv g) (claimed g) (rdone g) (reaped g) (desc_alloc g) (desc_freed g)
          (stack_alloc g) (stack_freed g) (stack_sz g) (t_ret g) (t_ready2 g) true (acted g).
(** the thread terminates itself at a testcancel: like exit(CANCELED) *)
Definition g_acted (g : ghost) (now : nat) : ghost :=
  mkGhost (runs g) (garg g) (got g) (Some CANCELED) (claimed g) (rdone g) (reaped g) (desc_alloc g) (desc_freed g)
          (stack_alloc g) (stack_freed g) (stack_sz g) now (t_ready2 g) (creq g) true.
Definition g_ready2 (g : ghost) (now : nat) : ghost :=
  mkGhost (runs g) (garg g) (got g) (retv g) (claimed g) (rdone g) (reaped g) (desc_alloc g) (desc_freed g)
          (stack_alloc g) (stack_freed g) (stack_sz g) (t_ret g) now (creq g) (acted g).

(* ---- state access ---- *)
Fixpoint upd {A} (l : list A) (i : nat) (x : A) : list A :=
  match l, i with
  | [], _ => []
  | _ :: r, O => x :: r
  | y :: r, S j => y :: upd r j x
  end.

(** thread [i]; an unused or out-of-range position reads as [tnone] *)
Definition gt (s : state) (i : nat) : thread := nth i (thr s) tnone.

Definition set_thr (s : state) (l : list thread) : state :=
  mkState l (clock s) (crashed s) (badwake s) (joins s).
Definition modify (s : state) (i : nat) (f : thread -> thread) : state :=
  set_thr s (upd (thr s) i (f (gt s i))).
Definition tick_clock (s : state) : state :=
  mkState (thr s) (S (clock s)) (crashed s) (badwake s) (joins s).
Definition set_crashed (s : state) : state :=
  mkState (thr s) (clock s) true (badwake s) (joins s).
Definition set_badwake (s : state) : state :=
  mkState (thr s) (clock s) (crashed s) true (joins s).
Definition add_join (s : state) (j t : nat) (v : Z) : state :=
  mkState (thr s) (clock s) (crashed s) (badwake s) ((j, t, v, clock s) :: joins s).

Definition pc_is_nothread (p : pc) : bool := match p with NoThread => true | _ => false end.
Definition exists_thread (s : state) (i : nat) : bool := negb (pc_is_nothread (main (gt s i))).

Definition opt_is_none {A} (o : option A) : bool := match o with None => true | Some _ => false end.

(** thread 0 is the main thread of the process: it exists from the start and runs its program *)
Definition thread_main0 : thread :=
  mkThread 0 None false None 0 Idle CbNone (mkGhost 1 0 (Some 0) None None false 0 1 0 1 0 0 0 0 false false) false true.

Definition init_state (n : nat) : state :=
  mkState (thread_main0 :: repeat tnone n) 1 false false [].

(* ------------------------------------------------------------------------------------------ *)
(** * Creation *)

(** init_myth_thread_struct + the stores of myth_create_ex_body, on a fresh position.
    [req_det]: the caller asked for a detached thread (nobody will reap it);
    [det]: what the code stores into [detached]. *)
Definition new_thread (creator : nat) (st : settings) (det : bool) (argv : Z) : thread :=
  mkThread ST_READY None det None argv (Created (s_cf st)) CbNone
    (mkGhost 0 argv None None (if s_det st then Some creator else None) (s_det st) 0 1 0 1 0 (s_stack st) 0 0 false false)
    false true.

Definition do_create (cfg : config) (s : state) (j c : nat) (a : option attr) (nullid : bool) (argv : Z) : option state :=
  if (c <? List.length (thr s))%nat && pc_is_nothread (main (gt s c)) then
    match create_settings a with
    | Some st =>
        if nullid && negb (cfg_null_guard cfg) then Some (set_crashed s)         (* id[0] = ... with id = NULL *)
        else
          let s1 := modify s c (fun _ => new_thread j st (cfg_honour_det cfg && s_det st) argv) in
          Some (modify s1 j (fun th => set_main th (Done 0 None)))
    | None => Some (set_crashed s)
    end
  else None.

(* ------------------------------------------------------------------------------------------ *)
(** * Steps *)

(** a call is enabled when the thread runs its program and no callback of it is pending;
    usage contract: a reaping operation on [t] needs [t] to exist and to be unclaimed *)
Definition call_cfg (cfg : config) (s : state) (j : nat) (o : op) : option state :=
  let th := gt s j in
  match main th, cb th with
  | Idle, CbNone =>
    let reap_call (t : nat) (p : pc) (allow_self : bool) :=
      if exists_thread s t && opt_is_none (claimed (gh (gt s t))) && (allow_self || negb (t =? j)%nat) then
        let s1 := modify s t (fun x => set_gh x (g_claim (gh x) (Some j))) in
        Some (modify s1 j (fun x => set_main x p))
      else None in
    match o with
    | Create c a nullid argv => do_create cfg s j c a nullid argv
    | Join t => reap_call t (JLock t) false
    | TryJoin t => reap_call t (TLock t false) false
    | TimedJoin t => reap_call t (TLock t true) false
    | Detach t => reap_call t (DFast t) true
    | Return v | Exit v =>
        if (j =? 0)%nat then None                  (* the main thread leaves through myth_fini, not modelled *)
        else Some (modify s j (fun x => set_main (set_gh (set_result x v) (g_returned (gh x) v (clock s))) FLock))
    | Cancel t => if exists_thread s t then Some (modify s j (fun x => set_main x (KCancel t))) else None
    | TestCancel => Some (modify s j (fun x => set_main x KTest))
    | SetCancel b => Some (modify s j (fun x => set_main x (KSet b)))
    end
  | _, _ => None
  end.

(** thread [j] acquires [t]'s spinlock *)
Definition acquire (s : state) (j t : nat) (p : pc) : option state :=
  if opt_is_none (lockh (gt s t)) then
    let s1 := modify s t (fun x => set_lockh x (Some j)) in
    Some (modify s1 j (fun x => set_main x p))
  else None.

Definition unlock (x : thread) : thread := set_lockh x None.

(** the finisher hands its worker to the registered waiter [w] *)
Definition wake (s : state) (w : nat) : state :=
  let x := gt s w in
  match main x, cb x with
  | JSusp t, CbNone => modify s w (fun y => set_main (set_status y ST_READY) (JSpin t))
  | _, _ => set_badwake s
  end.

Definition tick (s : state) (j : nat) : option state :=
  let th := gt s j in
  let goto (s' : state) (p : pc) := Some (modify s' j (fun x => set_main x p)) in
  match main th with
  | Created cf =>
      Some (modify s j (fun x => set_main (set_gh x (g_started (gh x) (result x))) Idle))
  | JLock t => acquire s j t (JCheck t)
  | JCheck t =>
      if is_finished (status (gt s t)) then goto (modify s t unlock) (JSpin t)
      else Some (modify s j (fun x => set_cb (set_main (set_status x ST_BLOCKED) (JSusp t)) (CbJoinSet t)))
  | JSpin t => if status (gt s t) =? ST_FREE_READY2 then goto s (JReap t) else None
  | JReap t =>
      let v := result (gt s t) in
      let s1 := modify s t (fun x => set_gh x (g_reap (gh x))) in
      goto (add_join s1 j t v) (Done 0 (Some v))
  | TLock t timed => acquire s j t (TCheck t timed)
  | TCheck t timed =>
      if is_finished (status (gt s t)) then goto (modify s t unlock) (JSpin t)
      else if timed then goto (modify s t unlock) (TBusy t)
      else goto (modify s t (fun x => set_gh (unlock x) (g_claim (gh x) None))) (Done EBUSY None)
  | TBusy t => acquire s j t (TCheck t true)
  | DFast t => if status (gt s t) =? ST_FREE_READY2 then goto s (DReap t) else goto s (DLock t)
  | DLock t => acquire s j t (DCheck t)
  | DCheck t =>
      if is_finished (status (gt s t)) then goto (modify s t unlock) (DSpin t) else goto s (DSet t)
  | DSet t =>
      goto (modify s t (fun x => set_gh (unlock (set_detached x true)) (g_rdone (gh x)))) (Done 0 None)
  | DSpin t => if status (gt s t) =? ST_FREE_READY2 then goto s (DReap t) else None
  | DReap t => goto (modify s t (fun x => set_gh x (g_reap (gh x)))) (Done 0 None)
  (* the three cancellation operations take the descriptor lock around their single access to the two flags; no
     other code reads or writes the flags, so the lock only serialises these operations among themselves: each is one
     atomic step (the acquisition is not a separate step and does not wait for a join / finish in progress) *)
  | KCancel t => goto (modify s t (fun x => set_gh (set_cancelled x true) (g_creq (gh x)))) (Done 0 None)
  | KTest =>
      if cancel_enabled th && cancelled th then
        Some (modify s j (fun x => set_main (set_gh (set_result x CANCELED) (g_acted (gh x) (clock s))) FLock))
      else goto s (Done 0 None)
  | KSet b => Some (modify s j (fun x => set_main (set_cancel_enabled x b) (Done 0 None)))
  | FLock => acquire s j j FReadJoin
  | FReadJoin =>
      let s1 := match join_thread th with Some w => wake s w | None => s end in
      Some (modify s1 j (fun x => set_cb (set_main x Finished) CbFreeStack))
  | NoThread | Idle | Done _ _ | JSusp _ | Finished => None
  end.

Definition cbtick (s : state) (j : nat) : option state :=
  let th := gt s j in
  match cb th with
  | CbNone => None
  | CbJoinSet t =>
      let s1 := modify s t (fun x => unlock (set_jt x (Some j))) in
      Some (modify s1 j (fun x => set_cb x CbNone))
  | CbFreeStack => Some (modify s j (fun x => set_cb (set_gh x (g_free_stack (gh x))) CbDetTest))
  | CbDetTest =>
      if detached th then Some (modify s j (fun x => set_cb (unlock x) CbFreeDesc))
      else Some (modify s j (fun x => set_cb x CbReady2))
  | CbFreeDesc => Some (modify s j (fun x => set_cb (set_gh x (g_reap (gh x))) CbNone))
  | CbReady2 =>
      Some (modify s j (fun x => set_cb (set_gh (unlock (set_status x ST_FREE_READY2)) (g_ready2 (gh x) (clock s))) CbNone))
  end.

Definition ret_ok (s : state) (j : nat) (v : Z) : bool :=
  match main (gt s j) with
  | Done r _ => v =? r
  | TBusy _ => v =? EBUSY
  | _ => false
  end.

Definition ret (s : state) (j : nat) (v : Z) : option state :=
  if ret_ok s j v then
    match main (gt s j) with
    | TBusy t =>
        let s1 := modify s t (fun x => set_gh x (g_claim (gh x) None)) in
        Some (modify s1 j (fun x => set_main x Idle))
    | _ => Some (modify s j (fun x => set_main x Idle))
    end
  else None.

Definition step_cfg (cfg : config) (s : state) (a : nat * ev) : option state :=
  let (j, e) := a in
  if crashed s then None
  else
    match (match e with
           | ECall o => call_cfg cfg s j o
           | ETick => tick s j
           | ECbTick => cbtick s j
           | ERet v => ret s j v
           end) with
    | Some s' => Some (tick_clock s')
    | None => None
    end.

(** the code in /repo *)
Definition step : state -> nat * ev -> option state := step_cfg cfg_now.

(* ------------------------------------------------------------------------------------------ *)
(** * Interface of the trace validator *)

Definition label (s : state) (j : nat) (in_cb : bool) : string :=
  let th := gt s j in
  if in_cb then
    match cb th with
    | CbNone => ""
    | CbJoinSet _ => "join.cb.set"
    | CbFreeStack => "free.stack"
    | CbDetTest => "finish.cb.detached"
    | CbFreeDesc => "finish.cb.freedesc"
    | CbReady2 => "finish.cb.ready2"
    end
  else
    match main th with
    | Created _ => "create.start"
    | JCheck _ => "join.check"
    | JReap _ => "join.reap"
    | TCheck _ _ => "tryjoin.check"
    | DFast _ => "detach.fast"
    | DCheck _ => "detach.check"
    | DSet _ => "detach.set"
    | DReap _ => "detach.reap"
    | FReadJoin => "finish.readjoin"
    | _ => ""
    end%string.

(** the activity's next step is a silent one (lock acquisition / leaving the wait loop) *)
Definition silent (s : state) (j : nat) : bool :=
  match main (gt s j) with
  | JLock _ | JSpin _ | TLock _ _ | TBusy _ | DLock _ | DSpin _ | FLock | KCancel _ | KTest | KSet _ => true
  | _ => false
  end.

(** the descriptor the next step of the activity accesses *)
Definition target (s : state) (j : nat) (in_cb : bool) : option nat :=
  let th := gt s j in
  if in_cb then
    match cb th with
    | CbNone => None
    | CbJoinSet t => Some t
    | _ => Some j
    end
  else
    match main th with
    | JLock t | JCheck t | JSusp t | JSpin t | JReap t | TLock t _ | TCheck t _ | TBusy t
    | DFast t | DLock t | DCheck t | DSet t | DSpin t | DReap t | KCancel t => Some t
    | Created _ | FLock | FReadJoin | KTest | KSet _ => Some j
    | _ => None
    end.

(** the value the hook reports: create.start 1 = child first, 0 = parent first;
    join.cb.set: the registering thread *)
Definition lval (s : state) (j : nat) (in_cb : bool) : option Z :=
  let th := gt s j in
  if in_cb then
    match cb th with CbJoinSet _ => Some (Z.of_nat j) | _ => None end
  else
    match main th with Created cf => Some (if cf then 1 else 0) | _ => None end.

(** the joined value a completed call delivers *)
Definition joined (s : state) (j : nat) : option Z :=
  match main (gt s j) with Done _ jv => jv | _ => None end.

Definition is_lock_pc (p : pc) (j t : nat) : bool :=
  match p with
  | JLock t' | TLock t' _ | TBusy t' | DLock t' => (t' =? t)%nat
  | FLock => (j =? t)%nat
  | _ => false
  end.

(** some activity is at a silent lock acquisition of [t] (the real acquisition may already have
    happened: it is not a POINT) *)
Definition pending_acquire (s : state) (t : nat) : bool :=
  existsb (fun p => is_lock_pc (main (snd p)) (fst p) t) (combine (seq 0 (List.length (thr s))) (thr s)).

Definition locked (th : thread) : bool := negb (opt_is_none (lockh th)).

(* ------------------------------------------------------------------------------------------ *)
(** * Derived notions used by the theorems *)

(** the thread's finish is complete: its code is over and its callback has run to the end *)
Definition finish_complete (th : thread) : bool :=
  match main th, cb th with Finished, CbNone => true | _, _ => false end.

(** suspended: context saved and the registering callback complete *)
Definition suspended_on (th : thread) (t : nat) : bool :=
  match main th, cb th with JSusp t', CbNone => (t' =? t)%nat | _, _ => false end.

(** the thread has not yet executed finish.readjoin *)
Definition before_readjoin (th : thread) : bool :=
  match main th with Finished | NoThread => false | _ => true end.

(** pcs of the detach operation *)
Definition detach_pc (p : pc) (t : nat) : bool :=
  match p with
  | DFast t' | DLock t' | DCheck t' | DSet t' | DSpin t' | DReap t' => (t' =? t)%nat
  | _ => false
  end.

(** nothing can move: no activity has an enabled tick (calls and returns are the program's business) *)
Definition quiescent (s : state) : Prop :=
  forall j, tick s j = None /\ cbtick s j = None.

(* ------------------------------------------------------------------------------------------ *)
(** * A sequential allocator model for one worker (C13_bounded_memory)

    get_new_myth_thread_struct_desc / _stack take from the worker's free list first and go to
    the system (mmap, STACK_ALLOC_UNIT = 1) only when it is empty; every release pushes on the
    only list there is.  A history is a sequence of creations, finishes and reaps of the
    threads numbered in creation order. *)

Inductive aphase := ARun | ADone | AGone.
Record athread := mkA { a_desc : nat; a_stk : nat; a_det : bool; a_ph : aphase }.

Record astate := mkAS {
  ath : list athread;
  fd : list nat; nd : nat;          (* free records; records obtained from the system *)
  fs : list nat; ns : nat }.        (* free stacks; stacks obtained from the system *)

Inductive hev :=
| HCreate (det : bool)              (* create, detached attribute or not *)
| HFinish (t : nat)                 (* t's function returns: stack released; record too if detached *)
| HReap (t : nat)                   (* join / tryjoin / timedjoin success / detach of a finished thread *)
| HDetach (t : nat).                (* detach of a running thread *)

Definition ainit : astate := mkAS [] [] 0 [] 0.

Definition take (fl : list nat) (n : nat) : nat * list nat * nat :=
  match fl with
  | x :: r => (x, r, n)
  | [] => (n, [], S n)
  end.

Definition astep (s : astate) (e : hev) : option astate :=
  match e with
  | HCreate det =>
      let '(d, fd', nd') := take (fd s) (nd s) in
      let '(k, fs', ns') := take (fs s) (ns s) in
      Some (mkAS (ath s ++ [mkA d k det ARun]) fd' nd' fs' ns')
  | HFinish t =>
      match nth_error (ath s) t with
      | Some (mkA d k det ARun) =>
          if det then Some (mkAS (upd (ath s) t (mkA d k det AGone)) (d :: fd s) (nd s) (k :: fs s) (ns s))
          else Some (mkAS (upd (ath s) t (mkA d k det ADone)) (fd s) (nd s) (k :: fs s) (ns s))
      | _ => None
      end
  | HReap t =>
      match nth_error (ath s) t with
      | Some (mkA d k false ADone) => Some (mkAS (upd (ath s) t (mkA d k false AGone)) (d :: fd s) (nd s) (fs s) (ns s))
      | _ => None
      end
  | HDetach t =>
      match nth_error (ath s) t with
      | Some (mkA d k false ARun) => Some (mkAS (upd (ath s) t (mkA d k true ARun)) (fd s) (nd s) (fs s) (ns s))
      | _ => None
      end
  end.

Definition aexec (s : astate) (e : hev) : astate :=
  match astep s e with Some s' => s' | None => s end.

Definition is_unreaped (a : athread) : bool := match a_ph a with AGone => false | _ => true end.
Definition is_running (a : athread) : bool := match a_ph a with ARun => true | _ => false end.
Definition unreaped (s : astate) : nat := List.length (filter is_unreaped (ath s)).
Definition running (s : astate) : nat := List.length (filter is_running (ath s)).

(** the states after every prefix of the history *)
Fixpoint astates (h : list hev) (s : astate) : list astate :=
  match h with
  | [] => [s]
  | e :: r => s :: astates r (aexec s e)
  end.

Definition arun (h : list hev) (s : astate) : astate := fold_left aexec h s.

Definition peak_unreaped (h : list hev) (s : astate) : nat := list_max (map unreaped (astates h s)).
