(** Preservation of the invariant of Abs(thread descriptor), part 4 of 4 (see DescInv.v). *)
From Coq Require Import ZArith List Bool Arith Lia.
From MT Require Import Lib.Interleave Sched.DescModel Sched.DescInv.
Import ListNotations.

Lemma pres_jt s a s' (HI : Inv s) (H : step s a = Some s') : forall x y, join_thread (gt s' x) = Some y -> before_readjoin (gt s' x) = true -> suspended_on (gt s' y) x = true.
Proof.
  destruct a as [j e]. intros x y. step_inv H.
  all: crunchT HI ltac:(pose proof (i_jt _ HI x y); pose proof (i_jt _ HI j y); pose proof (i_jt _ HI j x); pose proof (i_claim _ HI y x); pose proof (i_claim _ HI j x); pose proof (i_claim _ HI x x); pose proof (i_claim _ HI j j)).
Qed.

Lemma pres_freed s a s' (HI : Inv s) (H : step s a = Some s') : forall x, desc_freed (gh (gt s' x)) = 0 \/ (desc_freed (gh (gt s' x)) = 1 /\ rdone (gh (gt s' x)) = true /\ finish_complete (gt s' x) = true).
Proof.
  destruct a as [j e]. intros x. step_inv H.
  all: crunchT HI ltac:(pose proof (i_freed _ HI x); pose proof (i_freed _ HI j); pose proof (i_rdone_p _ HI x j); pose proof (d_status3 _ x HI); pose proof (i_jreap _ HI j x); pose proof (i_dreap _ HI j x); pose proof (i_cbdet_f _ HI j); pose proof (i_det_rdone _ HI j)).
Qed.

Lemma pres_rdone_f s a s' (HI : Inv s) (H : step s a = Some s') : forall x, rdone (gh (gt s' x)) = true -> detached (gt s' x) = true \/ desc_freed (gh (gt s' x)) = 1.
Proof.
  destruct a as [j e]. intros x. step_inv H.
  all: crunchT HI ltac:(pose proof (i_rdone_f _ HI x); pose proof (i_rdone_f _ HI j); pose proof (i_freed _ HI x); pose proof (i_freed _ HI j); pose proof (i_cbdet_f _ HI j); pose proof (i_rdone_p _ HI x j)).
Qed.

Lemma pres_det_f s a s' (HI : Inv s) (H : step s a = Some s') : forall x, detached (gt s' x) = true -> finish_complete (gt s' x) = true -> desc_freed (gh (gt s' x)) = 1.
Proof.
  destruct a as [j e]. intros x. step_inv H.
  all: crunchT HI ltac:(pose proof (i_det_f _ HI x); pose proof (i_det_f _ HI j); pose proof (i_freed _ HI x); pose proof (i_cbdet_r _ HI j); pose proof (i_dset _ HI j x); pose proof (d_status_fin _ x HI); pose proof (i_rdone_p _ HI x j); pose proof (i_det_rdone _ HI x)).
Qed.

Lemma pres_ready2 s a s' (HI : Inv s) (H : step s a = Some s') : forall x, status (gt s' x) = ST_FREE_READY2 -> 0 < t_ret (gh (gt s' x)) /\ t_ret (gh (gt s' x)) < t_ready2 (gh (gt s' x)) /\ t_ready2 (gh (gt s' x)) < clock s'.
Proof.
  destruct a as [j e]. intros x. step_inv H.
  all: crunchT HI ltac:(pose proof (i_ready2 _ HI x); pose proof (d_status3 _ x HI); pose proof (d_status3 _ j HI); pose proof (i_retv _ HI j); pose proof (i_ready2_c _ HI j); pose proof (i_clock _ HI)).
Qed.

Lemma pres_ready2_c s a s' (HI : Inv s) (H : step s a = Some s') : forall x, t_ready2 (gh (gt s' x)) <> 0 -> status (gt s' x) = ST_FREE_READY2.
Proof.
  destruct a as [j e]. intros x. step_inv H.
  all: crunchT HI ltac:(pose proof (i_ready2_c _ HI x); pose proof (i_ready2_c _ HI j); pose proof (d_status3 _ x HI); pose proof (d_status3 _ j HI); pose proof (i_clock _ HI)).
Qed.

Lemma pres_joins s a s' (HI : Inv s) (H : step s a = Some s') : forall x y v tm, In (x, y, v, tm) (joins s') -> status (gt s' y) = ST_FREE_READY2 /\ retv (gh (gt s' y)) = Some v /\ t_ready2 (gh (gt s' y)) < tm /\ tm < clock s'.
Proof.
  destruct a as [j e]. intros x y v tm. step_inv H.
  all: crunchT HI ltac:(pose proof (i_joins _ HI x y v tm); pose proof (i_clock _ HI); pose proof (d_status3 _ y HI); pose proof (d_status3 _ j HI); pose proof (i_jreap _ HI j y); pose proof (i_ready2 _ HI y); pose proof (i_retv _ HI y)).
Qed.

Lemma pres_cbjs s a s' (HI : Inv s) (H : step s a = Some s') : forall x y, cb (gt s' x) = CbJoinSet y -> before_readjoin (gt s' y) = true.
Proof.
  destruct a as [j e]. intros x y. step_inv H.
  all: crunchT HI ltac:(pose proof (i_cbjs _ HI x y); pose proof (i_cbjs _ HI j y); i2j HI i_lock_b j x y; pose proof (i_cbdet_f _ HI y); pose proof (i_det_rdone _ HI y); pose proof (i_rdone_p _ HI y j); pose proof (i_rdone_p _ HI y x); pose proof (d_status_fin _ y HI); pose proof (i_claim _ HI j y); pose proof (i_claim _ HI x y); pose proof (i_cbfin _ HI y); pose proof (d_fin_cases _ y HI)).
Qed.

