(** Abs(thread descriptor) (coq/Sched/DescModel.v): the inductive invariant (DESIGN.md B.7 written
    out), its proof for the initial states, and the tactics with which DescPres1-4.v prove that every
    step preserves every clause.  Assembled in DescProofs.v. *)
From Coq Require Import ZArith List Bool Arith Lia.
From MT Require Import Lib.Interleave Sched.DescModel.
Import ListNotations.

(* ------------------------------------------------------------------------------------------ *)
(** * Lists and state access *)

Lemma upd_length {A} (l : list A) i x : length (upd l i x) = length l.
Proof.
  revert i; induction l as [|y l IH]; intros [|i]; cbn [upd length]; try reflexivity.
  now rewrite IH.
Qed.

Lemma nth_upd_eq {A} (l : list A) i x d : i < length l -> nth i (upd l i x) d = x.
Proof.
  revert i; induction l as [|y l IH]; intros [|i] H; cbn [upd nth length] in *; try lia; try reflexivity.
  apply IH; lia.
Qed.

Lemma nth_upd_neq {A} (l : list A) i k x d : k <> i -> nth k (upd l i x) d = nth k l d.
Proof.
  revert i k; induction l as [|y l IH]; intros [|i] [|k] H; cbn [upd nth]; try reflexivity; try congruence.
  apply IH; congruence.
Qed.

Lemma len_modify s i f : length (thr (modify s i f)) = length (thr s).
Proof. unfold modify, set_thr; cbn [thr]. apply upd_length. Qed.

Lemma gt_modify s i f k :
  i < length (thr s) -> gt (modify s i f) k = if k =? i then f (gt s i) else gt s k.
Proof.
  intros H. unfold gt at 1, modify, set_thr; cbn [thr].
  destruct (Nat.eqb_spec k i) as [->|Hn].
  - now apply nth_upd_eq.
  - now apply nth_upd_neq.
Qed.

Lemma gt_out s i : length (thr s) <= i -> gt s i = tnone.
Proof. intros H. unfold gt. now apply nth_overflow. Qed.

Lemma main_inr s i : main (gt s i) <> NoThread -> i < length (thr s).
Proof.
  intros H. destruct (Nat.lt_ge_cases i (length (thr s))) as [Hl|Hg]; [exact Hl|].
  rewrite (gt_out _ _ Hg) in H. now elim H.
Qed.

Lemma gt_tick_clock s k : gt (tick_clock s) k = gt s k.
Proof. reflexivity. Qed.
Lemma gt_add_join s j t v k : gt (add_join s j t v) k = gt s k.
Proof. reflexivity. Qed.
Lemma gt_set_badwake s k : gt (set_badwake s) k = gt s k.
Proof. reflexivity. Qed.
Lemma gt_set_crashed s k : gt (set_crashed s) k = gt s k.
Proof. reflexivity. Qed.
Lemma len_add_join s j t v : length (thr (add_join s j t v)) = length (thr s).
Proof. reflexivity. Qed.
Lemma len_set_badwake s : length (thr (set_badwake s)) = length (thr s).
Proof. reflexivity. Qed.

(** the other components of the state *)
Lemma clock_modify s i f : clock (modify s i f) = clock s. Proof. reflexivity. Qed.
Lemma joins_modify s i f : joins (modify s i f) = joins s. Proof. reflexivity. Qed.
Lemma badwake_modify s i f : badwake (modify s i f) = badwake s. Proof. reflexivity. Qed.
Lemma crashed_modify s i f : crashed (modify s i f) = crashed s. Proof. reflexivity. Qed.
Lemma clock_tick s : clock (tick_clock s) = S (clock s). Proof. reflexivity. Qed.
Lemma joins_tick s : joins (tick_clock s) = joins s. Proof. reflexivity. Qed.
Lemma badwake_tick s : badwake (tick_clock s) = badwake s. Proof. reflexivity. Qed.
Lemma crashed_tick s : crashed (tick_clock s) = crashed s. Proof. reflexivity. Qed.
Lemma clock_add_join s j t v : clock (add_join s j t v) = clock s. Proof. reflexivity. Qed.
Lemma joins_add_join s j t v : joins (add_join s j t v) = (j, t, v, clock s) :: joins s. Proof. reflexivity. Qed.
Lemma badwake_add_join s j t v : badwake (add_join s j t v) = badwake s. Proof. reflexivity. Qed.
Lemma clock_set_badwake s : clock (set_badwake s) = clock s. Proof. reflexivity. Qed.
Lemma joins_set_badwake s : joins (set_badwake s) = joins s. Proof. reflexivity. Qed.
Lemma badwake_set_badwake s : badwake (set_badwake s) = true. Proof. reflexivity. Qed.
Lemma clock_set_crashed s : clock (set_crashed s) = clock s. Proof. reflexivity. Qed.
Lemma joins_set_crashed s : joins (set_crashed s) = joins s. Proof. reflexivity. Qed.
Lemma badwake_set_crashed s : badwake (set_crashed s) = badwake s. Proof. reflexivity. Qed.

(** the system *)
Definition is_init (s : state) : Prop := exists n, s = init_state n.
Definition Reach : state -> Prop := reachable is_init step.

Lemma gt_init n k : gt (init_state n) k = if k =? 0 then thread_main0 else tnone.
Proof.
  unfold gt, init_state; cbn [thr].
  destruct k as [|k]; cbn [nth Nat.eqb]; [reflexivity|].
  destruct (Nat.lt_ge_cases k (length (repeat tnone n))) as [Hl|Hg].
  - apply nth_In with (d := tnone) in Hl. now apply repeat_spec in Hl.
  - now apply nth_overflow.
Qed.

(* ------------------------------------------------------------------------------------------ *)
(** * Tactics *)

(** expose one transition: afterwards the goal speaks about an explicit successor state *)
Ltac break_match H :=
  repeat (match type of H with
          | context [match ?x with _ => _ end] =>
              lazymatch x with
              | context [match _ with _ => _ end] => fail
              | _ => destruct x eqn:?
              end
          end; try discriminate H).

Ltac step_inv H :=
  unfold step, step_cfg, call_cfg, tick, cbtick, ret, ret_ok, acquire, do_create, wake in H;
  cbn [cfg_null_guard cfg_honour_det cfg_now negb andb] in H;
  break_match H;
  injection H as H; subst.

Ltac inr_tac :=
  match goal with
  | |- (?i < length (thr ?s))%nat =>
      first [ assumption
            | rewrite len_modify; inr_tac
            | rewrite len_add_join; inr_tac
            | rewrite len_set_badwake; inr_tac
            | apply main_inr; congruence ]
  end.

(** normal form of [gt s' k] for a successor state built from [modify]s *)
Ltac st_norm :=
  repeat progress rewrite ?clock_tick, ?joins_tick, ?badwake_tick, ?clock_add_join, ?joins_add_join, ?badwake_add_join,
          ?clock_set_badwake, ?joins_set_badwake, ?badwake_set_badwake, ?clock_set_crashed, ?joins_set_crashed,
          ?badwake_set_crashed, ?clock_modify, ?joins_modify, ?badwake_modify.
Ltac gt_norm :=
  repeat first [ rewrite gt_tick_clock | rewrite gt_add_join | rewrite gt_set_badwake | rewrite gt_set_crashed
               | rewrite gt_modify by inr_tac ]; st_norm.
Ltac gt_norm_in H :=
  repeat first [ rewrite gt_tick_clock in H | rewrite gt_add_join in H | rewrite gt_set_badwake in H | rewrite gt_set_crashed in H
               | rewrite gt_modify in H by inr_tac ].

Ltac eqb_cases :=
  repeat match goal with
         | |- context [(?a =? ?b)%nat] => destruct (Nat.eqb_spec a b); subst
         | H : context [(?a =? ?b)%nat] |- _ => destruct (Nat.eqb_spec a b); subst
         end.

Ltac prj := cbn [status join_thread detached lockh result main cb gh cancelled cancel_enabled set_cancelled set_cancel_enabled creq acted g_creq g_acted
                 set_status set_jt set_detached set_lockh set_result set_main set_cb set_gh unlock new_thread
                 runs garg got retv claimed rdone reaped desc_alloc desc_freed stack_alloc stack_freed stack_sz t_ret t_ready2
                 g_started g_returned g_claim g_rdone g_reap g_free_stack g_ready2 tnone ghost0 thread_main0] in *.

(* ------------------------------------------------------------------------------------------ *)
(** * The invariant (DESIGN.md B.7, written out) *)

(** [p] is a program counter of a reaping operation (join / tryjoin / timedjoin / detach) on [t] *)
Definition reap_pc (p : pc) (t : nat) : bool :=
  match p with
  | JLock x | JCheck x | JSusp x | JSpin x | JReap x | TLock x _ | TCheck x _ | TBusy x
  | DFast x | DLock x | DCheck x | DSet x | DSpin x | DReap x => x =? t
  | _ => false
  end.

(** the activity holds [t]'s spinlock *)
Definition holds_main (p : pc) (j t : nat) : bool :=
  match p with
  | JCheck x | TCheck x _ | DCheck x | DSet x => x =? t
  | FReadJoin => j =? t
  | _ => false
  end.
Definition holds_cb (c : cbpc) (j t : nat) : bool :=
  match c with
  | CbJoinSet x => x =? t
  | CbFreeStack | CbDetTest | CbReady2 => j =? t
  | _ => false
  end.
Definition holds (th : thread) (j t : nat) : bool := holds_main (main th) j t || holds_cb (cb th) j t.

(** a join / tryjoin / timedjoin in progress on [t] (detach may target oneself, these may not) *)
Definition join_pc (p : pc) (t : nat) : bool :=
  match p with
  | JLock x | JCheck x | JSusp x | JSpin x | JReap x | TLock x _ | TCheck x _ | TBusy x => x =? t
  | _ => false
  end.

Definition started_pc (p : pc) : bool := match p with NoThread | Created _ => false | _ => true end.
Definition finishing_pc (p : pc) : bool := match p with FLock | FReadJoin | Finished => true | _ => false end.
Definition fin_cb (c : cbpc) : bool := match c with CbFreeStack | CbDetTest | CbFreeDesc | CbReady2 => true | _ => false end.

(** the status word is a function of the control state *)
Definition status_spec (th : thread) : Z :=
  if finish_complete th && negb (detached th) then ST_FREE_READY2
  else match main th with JSusp _ => ST_BLOCKED | _ => ST_READY end.

Definition stack_freed_spec (th : thread) : nat :=
  match main th, cb th with
  | Finished, (CbDetTest | CbFreeDesc | CbReady2 | CbNone) => 1
  | _, _ => 0
  end.

Definition alloc_spec (th : thread) : nat := match main th with NoThread => 0 | _ => 1 end.

Record Inv (s : state) : Prop := mkInv {
  (* usage contract bookkeeping: one reaper per thread *)
  i_claim : forall j t, reap_pc (main (gt s j)) t = true ->
              claimed (gh (gt s t)) = Some j /\ main (gt s t) <> NoThread;
  i_rdone_c : forall t, rdone (gh (gt s t)) = true -> claimed (gh (gt s t)) <> None;
  i_rdone_p : forall t j, rdone (gh (gt s t)) = true -> reap_pc (main (gt s j)) t = false;
  i_det_rdone : forall t, detached (gt s t) = true -> rdone (gh (gt s t)) = true;
  i_fresh : forall k, main (gt s k) = NoThread -> gt s k = tnone;
  (* control state *)
  i_cbmain : forall k x, cb (gt s k) = CbJoinSet x -> main (gt s k) = JSusp x;
  i_cbfin : forall k, fin_cb (cb (gt s k)) = true -> main (gt s k) = Finished;
  (* the spinlock: held exactly by the activity between its acquisition and its unlocking store *)
  i_lock_a : forall t j, lockh (gt s t) = Some j -> holds (gt s j) j t = true;
  i_lock_b : forall j t, holds (gt s j) j t = true -> lockh (gt s t) = Some j;
  (* the words *)
  i_status : forall k, status (gt s k) = status_spec (gt s k);
  i_cbdet_f : forall k, cb (gt s k) = CbFreeDesc -> detached (gt s k) = true;
  i_cbdet_r : forall k, cb (gt s k) = CbReady2 -> detached (gt s k) = false;
  i_dset : forall j t, main (gt s j) = DSet t -> status (gt s t) <> ST_FREE_READY2;
  i_jreap : forall j t, main (gt s j) = JReap t -> status (gt s t) = ST_FREE_READY2;
  i_dreap : forall j t, main (gt s j) = DReap t -> status (gt s t) = ST_FREE_READY2;
  i_jt : forall t j, join_thread (gt s t) = Some j -> before_readjoin (gt s t) = true ->
           suspended_on (gt s j) t = true;
  (* no lost wake-up: a joiner whose registering callback has run is registered with a target that has
     not yet executed finish.readjoin; the callback itself runs against such a target *)
  i_susp : forall j t, main (gt s j) = JSusp t -> cb (gt s j) = CbNone ->
             join_thread (gt s t) = Some j /\ before_readjoin (gt s t) = true;
  i_cbjs : forall j t, cb (gt s j) = CbJoinSet t -> before_readjoin (gt s t) = true;
  i_noself : forall j, join_pc (main (gt s j)) j = false;
  (* cancellation: the target of a cancel in progress exists; a pending request and a cancellation acted on
     both come from a myth_cancel that named this very incarnation (creation resets the flags) *)
  i_ktarget : forall j t, main (gt s j) = KCancel t -> main (gt s t) <> NoThread;
  i_creq : forall t, cancelled (gt s t) = true -> creq (gh (gt s t)) = true;
  i_acted : forall t, acted (gh (gt s t)) = true -> creq (gh (gt s t)) = true;
  (* the start function *)
  i_runs0 : forall k, started_pc (main (gt s k)) = false -> runs (gh (gt s k)) = 0 /\ got (gh (gt s k)) = None;
  i_runs1 : forall k, started_pc (main (gt s k)) = true ->
              runs (gh (gt s k)) = 1 /\ got (gh (gt s k)) = Some (garg (gh (gt s k)));
  i_created : forall k cf, main (gt s k) = Created cf -> result (gt s k) = garg (gh (gt s k));
  i_retv : forall k, finishing_pc (main (gt s k)) = true ->
             retv (gh (gt s k)) = Some (result (gt s k)) /\ 0 < t_ret (gh (gt s k)) /\ t_ret (gh (gt s k)) < clock s;
  (* ledger *)
  i_alloc : forall k, desc_alloc (gh (gt s k)) = alloc_spec (gt s k) /\ stack_alloc (gh (gt s k)) = alloc_spec (gt s k);
  i_sfreed : forall k, stack_freed (gh (gt s k)) = stack_freed_spec (gt s k);
  i_freed_eq : forall t, desc_freed (gh (gt s t)) = reaped (gh (gt s t));
  i_freed : forall t, desc_freed (gh (gt s t)) = 0 \/
              (desc_freed (gh (gt s t)) = 1 /\ rdone (gh (gt s t)) = true /\ finish_complete (gt s t) = true);
  i_rdone_f : forall t, rdone (gh (gt s t)) = true -> detached (gt s t) = true \/ desc_freed (gh (gt s t)) = 1;
  i_det_f : forall t, detached (gt s t) = true -> finish_complete (gt s t) = true -> desc_freed (gh (gt s t)) = 1;
  (* history *)
  i_ready2 : forall t, status (gt s t) = ST_FREE_READY2 ->
               0 < t_ret (gh (gt s t)) /\ t_ret (gh (gt s t)) < t_ready2 (gh (gt s t)) /\ t_ready2 (gh (gt s t)) < clock s;
  i_ready2_c : forall t, t_ready2 (gh (gt s t)) <> 0 -> status (gt s t) = ST_FREE_READY2;
  i_joins : forall j t v tm, In (j, t, v, tm) (joins s) ->
              status (gt s t) = ST_FREE_READY2 /\ retv (gh (gt s t)) = Some v /\
              t_ready2 (gh (gt s t)) < tm /\ tm < clock s;
  i_clock : 0 < clock s;
  i_badwake : badwake s = false
}.

Lemma Inv_init n : Inv (init_state n).
Proof.
  constructor; intros; rewrite ?gt_init in *;
    repeat match goal with
           | H : context [if (?a =? ?b) then _ else _] |- _ => destruct (Nat.eqb_spec a b); subst
           | |- context [if (?a =? ?b) then _ else _] => destruct (Nat.eqb_spec a b); subst
           end;
    cbn in *; try discriminate; try tauto; try (split; intros; try discriminate; try tauto; auto);
    try (intuition discriminate); try lia.
Qed.

(* ------------------------------------------------------------------------------------------ *)
(** * Preservation: tactics *)

Inductive Mk2 (x y : nat) : Prop := mk2.
Inductive Mk1 (x : nat) : Prop := mk1.
Ltac forall_nat2 tac :=
  repeat match goal with
         | x : nat, y : nat |- _ =>
             lazymatch goal with _ : Mk2 x y |- _ => fail | _ => idtac end; tac x y; pose proof (mk2 x y)
         end;
  repeat match goal with H : Mk2 _ _ |- _ => clear H end.
Ltac forall_nat1 tac :=
  repeat match goal with
         | x : nat |- _ =>
             lazymatch goal with _ : Mk1 x |- _ => fail | _ => idtac end; tac x; pose proof (mk1 x)
         end;
  repeat match goal with H : Mk1 _ |- _ => clear H end.
Ltac forall_nat tac2 := forall_nat2 tac2; forall_nat1 ltac:(fun x => tac2 x x).

Ltac rew_pcs :=
  repeat match goal with
         | H : main (gt _ _) = _ |- _ => progress (rewrite H in * )
         | H : cb (gt _ _) = _ |- _ => progress (rewrite H in * )
         | H : join_thread (gt _ _) = _ |- _ => progress (rewrite H in * )
         | H : detached (gt _ _) = _ |- _ => progress (rewrite H in * )
         | H : gt _ _ = tnone |- _ => progress (rewrite H in * )
         end.

Lemma pc_is_nothread_true p : pc_is_nothread p = true -> p = NoThread.
Proof. destruct p; cbn; congruence. Qed.
Lemma pc_is_nothread_false p : pc_is_nothread p = false -> p <> NoThread.
Proof. destruct p; cbn; congruence. Qed.
Lemma opt_is_none_true {A} (o : option A) : opt_is_none o = true -> o = None.
Proof. destruct o; cbn; congruence. Qed.
Lemma opt_is_none_false {A} (o : option A) : opt_is_none o = false -> o <> None.
Proof. destruct o; cbn; congruence. Qed.
Lemma fin3 : is_finished 3%Z = true.
Proof. reflexivity. Qed.

Ltac eqb_hyps :=
  repeat match goal with
         | H : (_ =? _) = true |- _ => apply Nat.eqb_eq in H; subst
         | H : (_ =? _) = false |- _ => apply Nat.eqb_neq in H
         | H : (_ <? _) = true |- _ => apply Nat.ltb_lt in H
         | H : _ && _ = true |- _ => apply andb_prop in H; destruct H
         | H : pc_is_nothread _ = true |- _ => apply pc_is_nothread_true in H
         | H : pc_is_nothread _ = false |- _ => apply pc_is_nothread_false in H
         | H : opt_is_none _ = true |- _ => apply opt_is_none_true in H
         | H : opt_is_none _ = false |- _ => apply opt_is_none_false in H
         | H : (_ =? _)%Z = true |- _ => apply Z.eqb_eq in H
         | H : (_ =? _)%Z = false |- _ => apply Z.eqb_neq in H
         | H : negb _ = true |- _ => apply negb_true_iff in H
         | H : negb _ = false |- _ => apply negb_false_iff in H
         end.

Ltac simp :=
  unfold holds, status_spec, finish_complete, suspended_on, before_readjoin, stack_freed_spec, alloc_spec,
         ST_FREE_READY2, ST_READY, ST_BLOCKED, ST_FREE_READY in *;
  cbn [reap_pc join_pc holds_main holds_cb started_pc finishing_pc fin_cb orb andb negb
       pc_is_nothread exists_thread opt_is_none In
       status join_thread detached lockh result main cb gh cancelled cancel_enabled set_cancelled set_cancel_enabled creq acted g_creq g_acted
       set_status set_jt set_detached set_lockh set_result set_main set_cb set_gh unlock new_thread
       runs garg got retv claimed rdone reaped desc_alloc desc_freed stack_alloc stack_freed stack_sz t_ret t_ready2
       g_started g_returned g_claim g_rdone g_reap g_free_stack g_ready2 tnone ghost0 thread_main0] in *.

Ltac bool_props := rewrite ?orb_true_iff, ?orb_false_iff, ?andb_true_iff in *.

Ltac is_constructor_pc p q :=
  lazymatch type of p with
  | pc => let hp := head_of p in let hq := head_of q in is_constructor hp; is_constructor hq;
          lazymatch hp with hq => fail | _ => idtac end
  | cbpc => let hp := head_of p in let hq := head_of q in is_constructor hp; is_constructor hq;
          lazymatch hp with hq => fail | _ => idtac end
  end
with head_of t := lazymatch t with ?f _ _ => head_of2 f | ?f _ => f | _ => t end
with head_of2 f := f.
(** [a <> b] turns every [a =? b] into [false] *)
Ltac neq_rw :=
  repeat match goal with
         | H : ?a <> ?b |- _ =>
             first [ progress (rewrite (proj2 (Nat.eqb_neq a b) H) in * )
                   | progress (rewrite (proj2 (Nat.eqb_neq b a) (not_eq_sym H)) in * ) ]
         end.

(** drop instances that cannot contribute, discharge premises that hold trivially *)
Ltac cleanup :=
  repeat match goal with
         | H : false = true -> _ |- _ => clear H
         | H : true = false -> _ |- _ => clear H
         | H : None = Some _ -> _ |- _ => clear H
         | H : Some _ = None -> _ |- _ => clear H
         | H : _ -> true = true |- _ => clear H
         | H : _ -> false = false |- _ => clear H
         | H : ?x = ?x -> _ |- _ => specialize (H eq_refl)
         | H : true = true |- _ => clear H
         | H : false = false |- _ => clear H
         | H : ?x = ?x |- _ => clear H
         | H : ?p = ?q -> _ |- _ =>
             first [ is_constructor_pc p q; clear H ]
         | H : Some ?a = Some ?b |- _ => first [ is_var a | is_var b ]; injection H as H; subst
         | H : _ /\ _ |- _ => destruct H
         | H : ?A -> _, H' : ?A |- _ => specialize (H H')
         end.

Ltac split_matches :=
  repeat match goal with
         | |- context [match main (gt ?s ?k) with _ => _ end] => destruct (main (gt s k)) eqn:?
         | H : context [match main (gt ?s ?k) with _ => _ end] |- _ => destruct (main (gt s k)) eqn:?
         | |- context [match cb (gt ?s ?k) with _ => _ end] => destruct (cb (gt s k)) eqn:?
         | H : context [match cb (gt ?s ?k) with _ => _ end] |- _ => destruct (cb (gt s k)) eqn:?
         | |- context [negb (detached (gt ?s ?k))] => destruct (detached (gt s k)) eqn:?
         | H : context [negb (detached (gt ?s ?k))] |- _ => destruct (detached (gt s k)) eqn:?
         | |- context [if ?b then _ else _] => destruct b eqn:?
         | H : context [if ?b then _ else _] |- _ => destruct b eqn:?
         end.

(** split on the index comparisons that remain; a branch contradicting a known disequality dies at once *)
Ltac eqb_cases2 :=
  repeat match goal with
         | |- context [(?a =? ?b)%nat] => destruct (Nat.eqb_spec a b); [subst; try congruence|]
         | H : context [(?a =? ?b)%nat] |- _ => destruct (Nat.eqb_spec a b); [subst; try congruence|]
         end.

Ltac finish_core := simp; rew_pcs; simp; eqb_hyps; eqb_cases2; simp; cleanup.
Ltac solver0 := solve [intuition congruence].
Ltac solver := solve [intuition (try congruence; try lia)].
Ltac bool_case :=
  match goal with
  | |- ?b = false => lazymatch b with true => fail | false => fail | _ => destruct b eqn:? end
  | |- ?b = true => lazymatch b with true => fail | false => fail | _ => destruct b eqn:? end
  end.
Ltac pair_inj := repeat match goal with H : (_, _) = (_, _) |- _ => injection H as ?; subst end.
Ltac solver2 := solve [intuition (pair_inj; try congruence; try lia)].
Ltac solve_any :=
  first [ solver0 | solver | rew_pcs; simp; cleanup; first [ solver | solver2 ] | bool_case; cleanup; solver | bool_props; solver
        | split_matches; simp; rew_pcs; simp; eqb_hyps; cleanup; first [ solver | bool_props; solver ] ].
Ltac finish := finish_core; solve_any.
Ltac finish_dbg := finish_core; try solve_any.

(** a pending callback determines the main program counter *)
Ltac cb_main HI :=
  repeat match goal with
  | H : cb (gt ?s ?j) = CbJoinSet ?t |- _ =>
      lazymatch goal with _ : main (gt s j) = _ |- _ => fail | _ => idtac end;
      pose proof (i_cbmain _ HI j t H)
  | H : cb (gt ?s ?j) = ?c |- _ =>
      lazymatch goal with _ : main (gt s j) = _ |- _ => fail | _ => idtac end;
      assert (main (gt s j) = Finished) by (apply (i_cbfin _ HI j); rewrite H; reflexivity)
  end.

(** ... and a thread whose code is neither suspended in a join nor over has no callback pending *)
Lemma cb_none s j : Inv s -> (forall x, main (gt s j) <> JSusp x) -> main (gt s j) <> Finished -> cb (gt s j) = CbNone.
Proof.
  intros HI H1 H2. destruct (cb (gt s j)) eqn:E; try reflexivity.
  - elim (H1 t). now apply (i_cbmain _ HI).
  - elim H2. apply (i_cbfin _ HI). now rewrite E.
  - elim H2. apply (i_cbfin _ HI). now rewrite E.
  - elim H2. apply (i_cbfin _ HI). now rewrite E.
  - elim H2. apply (i_cbfin _ HI). now rewrite E.
Qed.
Ltac main_cb HI :=
  repeat match goal with
  | H : main (gt ?s ?j) = ?p |- _ =>
      lazymatch goal with _ : cb (gt s j) = _ |- _ => fail | _ => idtac end;
      assert (cb (gt s j) = CbNone) by (apply (cb_none _ _ HI); intros; rewrite H; discriminate)
  end.

(** an unused position is exactly [tnone] *)
Ltac use_fresh HI :=
  repeat match goal with
  | H : main (gt ?s ?c) = NoThread |- _ =>
      lazymatch goal with _ : gt s c = tnone |- _ => fail | _ => idtac end;
      pose proof (i_fresh _ HI c H)
  end.

(** the target of the operation in progress exists, hence is in range *)
Ltac target_inr HI :=
  repeat match goal with
  | H : main (gt ?s ?j) = ?p |- _ =>
      let t := match p with
               | JLock ?t => t | JCheck ?t => t | JSpin ?t => t | JReap ?t => t | TLock ?t _ => t | TCheck ?t _ => t
               | TBusy ?t => t | DFast ?t => t | DLock ?t => t | DCheck ?t => t | DSet ?t => t | DSpin ?t => t | DReap ?t => t
               | JSusp ?t => t
               end in
      lazymatch goal with _ : t < length (thr s) |- _ => fail | _ => idtac end;
      assert (t < length (thr s)) by (apply main_inr; apply (i_claim _ HI j t); rewrite H; cbn [reap_pc]; apply Nat.eqb_refl)
  | H : main (gt ?s ?j) = KCancel ?t |- _ =>
      lazymatch goal with _ : t < length (thr s) |- _ => fail | _ => idtac end;
      assert (t < length (thr s)) by (apply main_inr; exact (i_ktarget _ HI j t H))
  end.

Ltac intro_vars :=
  repeat lazymatch goal with
         | |- forall x : ?T, _ => lazymatch type of T with Prop => fail | _ => intro end
         end.

(** after [step_inv]: normalise the successor state, split on the index equalities, instantiate the
    invariant of the predecessor state with [inst], close *)
Ltac prep HI inst :=
  intro_vars; unfold exists_thread in *; eqb_hyps; cb_main HI; main_cb HI; target_inr HI; use_fresh HI;
  pose proof fin3; gt_norm; eqb_cases; eqb_hyps; intros; inst.
Ltac prepT HI inst :=
  intro_vars; unfold exists_thread in *; eqb_hyps; cb_main HI; main_cb HI; target_inr HI; use_fresh HI;
  pose proof fin3; inst; gt_norm; eqb_cases; eqb_hyps; intros.
Ltac crunchT HI inst := prepT HI inst; finish.
Ltac crunchT_dbg HI inst := prepT HI inst; finish_dbg.
Ltac crunch HI inst := prep HI inst; finish.
Ltac crunch_dbg HI inst := prep HI inst; finish_dbg.

Ltac i2 HI f := forall_nat ltac:(fun x y => pose proof (f _ HI x y)).
Ltac i1 HI f := forall_nat1 ltac:(fun x => pose proof (f _ HI x)).

(** targeted instantiation: the focus pair, and every pair that involves the actor [j] *)
Ltac i2j HI f j x y :=
  pose proof (f _ HI x y); pose proof (f _ HI y x);
  forall_nat1 ltac:(fun z => pose proof (f _ HI j z); pose proof (f _ HI z j)).
Ltac i1j HI f j x y :=
  pose proof (f _ HI x); pose proof (f _ HI y); pose proof (f _ HI j).

(** consequences of [i_status] in implication form (cheaper to use than the function itself) *)
Lemma d_status3 s k : Inv s -> status (gt s k) = 3%Z ->
  main (gt s k) = Finished /\ cb (gt s k) = CbNone /\ detached (gt s k) = false.
Proof.
  intros HI H. rewrite (i_status _ HI k) in H. unfold status_spec, finish_complete in H.
  destruct (main (gt s k)); try (cbn in H; discriminate H).
  destruct (cb (gt s k)); try (cbn in H; discriminate H).
  destruct (detached (gt s k)); try (cbn in H; discriminate H). auto.
Qed.
Lemma d_status_fin s k : Inv s -> main (gt s k) = Finished -> cb (gt s k) = CbNone ->
  detached (gt s k) = true \/ status (gt s k) = 3%Z.
Proof.
  intros HI H1 H2. rewrite (i_status _ HI k). unfold status_spec, finish_complete. rewrite H1, H2.
  destruct (detached (gt s k)); auto.
Qed.
Lemma d_status_not3 s k : Inv s -> (main (gt s k) <> Finished \/ cb (gt s k) <> CbNone \/ detached (gt s k) = true) ->
  status (gt s k) <> 3%Z.
Proof.
  intros HI H E. destruct (d_status3 _ _ HI E) as (A & B & C). destruct H as [H|[H|H]]; congruence.
Qed.

(** a thread whose code is over: its callback is done, or it is the detached tail, or it holds its own lock *)
Lemma d_fin_cases s k : Inv s -> main (gt s k) = Finished ->
  cb (gt s k) = CbNone \/ cb (gt s k) = CbFreeDesc \/ lockh (gt s k) = Some k.
Proof.
  intros HI H. destruct (cb (gt s k)) eqn:E; auto.
  - pose proof (i_cbmain _ HI k t E). congruence.
  - right; right. apply (i_lock_b _ HI). unfold holds. rewrite H, E. cbn. now rewrite Nat.eqb_refl.
  - right; right. apply (i_lock_b _ HI). unfold holds. rewrite H, E. cbn. now rewrite Nat.eqb_refl.
  - right; right. apply (i_lock_b _ HI). unfold holds. rewrite H, E. cbn. now rewrite Nat.eqb_refl.
Qed.
