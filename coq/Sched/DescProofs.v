(** Abs(thread descriptor): the invariant holds in every reachable state (every number of threads,
    every program enabled by the usage contract, every schedule), and the lemmas that
    Properties_C01.v / Properties_C13.v state as theorems. *)
From Coq Require Import ZArith List Bool Arith Lia.
From MT Require Import Lib.Interleave Sched.DescModel Sched.DescInv
  Sched.DescPres1 Sched.DescPres2 Sched.DescPres3 Sched.DescPres4.
Import ListNotations.

Theorem Inv_step s a s' : Inv s -> step s a = Some s' -> Inv s'.
Proof.
  intros HI H. constructor.
  - exact (pres_claim s a s' HI H).
  - exact (pres_rdone_c s a s' HI H).
  - exact (pres_rdone_p s a s' HI H).
  - exact (pres_det_rdone s a s' HI H).
  - exact (pres_fresh s a s' HI H).
  - exact (pres_cbmain s a s' HI H).
  - exact (pres_cbfin s a s' HI H).
  - exact (pres_lock_a s a s' HI H).
  - exact (pres_lock_b s a s' HI H).
  - exact (pres_status s a s' HI H).
  - exact (pres_cbdet_f s a s' HI H).
  - exact (pres_cbdet_r s a s' HI H).
  - exact (pres_dset s a s' HI H).
  - exact (pres_jreap s a s' HI H).
  - exact (pres_dreap s a s' HI H).
  - exact (pres_jt s a s' HI H).
  - exact (pres_susp s a s' HI H).
  - exact (pres_cbjs s a s' HI H).
  - exact (pres_noself s a s' HI H).
  - exact (pres_ktarget s a s' HI H).
  - exact (pres_creq s a s' HI H).
  - exact (pres_acted s a s' HI H).
  - exact (pres_runs0 s a s' HI H).
  - exact (pres_runs1 s a s' HI H).
  - exact (pres_created s a s' HI H).
  - exact (pres_retv s a s' HI H).
  - exact (pres_alloc s a s' HI H).
  - exact (pres_sfreed s a s' HI H).
  - exact (pres_freed_eq s a s' HI H).
  - exact (pres_freed s a s' HI H).
  - exact (pres_rdone_f s a s' HI H).
  - exact (pres_det_f s a s' HI H).
  - exact (pres_ready2 s a s' HI H).
  - exact (pres_ready2_c s a s' HI H).
  - exact (pres_joins s a s' HI H).
  - exact (pres_clock s a s' HI H).
  - exact (pres_badwake s a s' HI H).
Qed.

Theorem Inv_reach s : Reach s -> Inv s.
Proof.
  apply invariant_rule.
  - intros s0 [n ->]. apply Inv_init.
  - intros s0 a s1 HI H. exact (Inv_step s0 a s1 HI H).
Qed.

(** every schedule from every initial state *)
Lemma run_reach n sched : Reach (run step sched (init_state n)).
Proof. apply run_reachable. apply reach_init. now exists n. Qed.

(* ------------------------------------------------------------------------------------------ *)
(** * C01 *)

(** the start function runs at most once, exactly once for a finished thread, with the creation argument *)
Lemma runs_once s t : Reach s ->
  runs (gh (gt s t)) <= 1 /\
  (status (gt s t) = ST_FREE_READY2 -> runs (gh (gt s t)) = 1) /\
  (started_pc (main (gt s t)) = true -> runs (gh (gt s t)) = 1 /\ got (gh (gt s t)) = Some (garg (gh (gt s t)))) /\
  (forall a, got (gh (gt s t)) = Some a -> a = garg (gh (gt s t))).
Proof.
  intros HR. pose proof (Inv_reach s HR) as HI.
  pose proof (i_runs0 _ HI t) as H0. pose proof (i_runs1 _ HI t) as H1.
  destruct (started_pc (main (gt s t))) eqn:E.
  - destruct (H1 eq_refl) as [R G]. repeat split; try lia; auto.
    intros a Ha. congruence.
  - destruct (H0 eq_refl) as [R G]. repeat split; try lia; try discriminate.
    + intros Hs. destruct (d_status3 _ _ HI Hs) as (M & _). rewrite M in E. discriminate E.
    + intros a Ha. congruence.
Qed.

(** a registered joiner is suspended (context saved, registering callback complete) with status
    BLOCKED as long as its target has not executed finish.readjoin; the finisher never makes
    runnable a thread whose context is not saved *)
Lemma no_resume_before_save s : Reach s ->
  (forall t j, join_thread (gt s t) = Some j -> before_readjoin (gt s t) = true ->
     suspended_on (gt s j) t = true /\ status (gt s j) = ST_BLOCKED) /\
  badwake s = false.
Proof.
  intros HR. pose proof (Inv_reach s HR) as HI. split; [|exact (i_badwake _ HI)].
  intros t j Hj Hb. pose proof (i_jt _ HI t j Hj Hb) as Hs. split; [exact Hs|].
  rewrite (i_status _ HI j). unfold suspended_on in Hs. unfold status_spec, finish_complete.
  destruct (main (gt s j)); try discriminate Hs. reflexivity.
Qed.

(** no lost wake-up, as a safety statement: a joiner that is suspended with its registering callback
    complete is the registered waiter of its target, and the target has not yet executed
    finish.readjoin (which will make the joiner runnable); while the callback is still pending the
    target has not executed it either (the callback holds the target's lock) *)
Lemma no_lost_wakeup s j t : Reach s -> main (gt s j) = JSusp t ->
  before_readjoin (gt s t) = true /\ j <> t /\
  (cb (gt s j) = CbNone -> join_thread (gt s t) = Some j) /\
  (cb (gt s j) <> CbNone -> cb (gt s j) = CbJoinSet t /\ lockh (gt s t) = Some j).
Proof.
  intros HR Hm. pose proof (Inv_reach s HR) as HI.
  assert (Hn : j <> t).
  { intros ->. pose proof (i_noself _ HI t) as N. rewrite Hm in N. cbn in N. now rewrite Nat.eqb_refl in N. }
  destruct (cb (gt s j)) eqn:Ec.
  - destruct (i_susp _ HI j t Hm Ec) as [A B]. split; [exact B|]. split; [exact Hn|]. split; [intros _; exact A|].
    intros C. now elim C.
  - pose proof (i_cbmain _ HI j t0 Ec) as M. rewrite Hm in M. injection M as ->.
    split; [exact (i_cbjs _ HI j t0 Ec)|]. split; [exact Hn|]. split; [discriminate|]. intros _. split; [reflexivity|].
    apply (i_lock_b _ HI). unfold holds. rewrite Hm, Ec. cbn. now rewrite Nat.eqb_refl.
  - pose proof (i_cbfin _ HI j) as F. rewrite Ec in F. specialize (F eq_refl). congruence.
  - pose proof (i_cbfin _ HI j) as F. rewrite Ec in F. specialize (F eq_refl). congruence.
  - pose proof (i_cbfin _ HI j) as F. rewrite Ec in F. specialize (F eq_refl). congruence.
  - pose proof (i_cbfin _ HI j) as F. rewrite Ec in F. specialize (F eq_refl). congruence.
Qed.

(** the finish.readjoin step of a reachable state always finds its waiter suspended *)
Lemma readjoin_wakes_suspended s j w : Reach s ->
  main (gt s j) = FReadJoin -> join_thread (gt s j) = Some w ->
  suspended_on (gt s w) j = true /\ wake s w = modify s w (fun y => set_main (set_status y ST_READY) (JSpin j)).
Proof.
  intros HR Hm Hj. pose proof (Inv_reach s HR) as HI.
  assert (Hb : before_readjoin (gt s j) = true) by (unfold before_readjoin; now rewrite Hm).
  pose proof (i_jt _ HI j w Hj Hb) as Hs. split; [exact Hs|].
  unfold suspended_on in Hs. unfold wake.
  destruct (main (gt s w)); try discriminate Hs. destruct (cb (gt s w)); try discriminate Hs.
  apply Nat.eqb_eq in Hs. now subst.
Qed.

(** every completed join: the target's function returned (or called exit) at [t_ret], its
    FREE_READY2 store happened at [t_ready2], strictly later, and strictly before the reaping step;
    the value read is the value returned *)
Lemma join_after_finish s j t v tm : Reach s -> In (j, t, v, tm) (joins s) ->
  0 < t_ret (gh (gt s t)) /\ t_ret (gh (gt s t)) < t_ready2 (gh (gt s t)) /\ t_ready2 (gh (gt s t)) < tm /\
  tm < clock s /\ retv (gh (gt s t)) = Some v /\ status (gt s t) = ST_FREE_READY2.
Proof.
  intros HR Hin. pose proof (Inv_reach s HR) as HI.
  destruct (i_joins _ HI j t v tm Hin) as (S3 & Rv & T2 & Tm).
  destruct (i_ready2 _ HI t S3) as (A & B & C). repeat split; auto.
Qed.

(** the reaping step of a join / successful tryjoin / timedjoin: it is enabled only when the
    target has published FREE_READY2, delivers exactly the value the target returned, and is the
    step that appends the completed join to the log *)
Lemma join_value s j t s' : Reach s -> main (gt s j) = JReap t -> step s (j, ETick) = Some s' ->
  exists v, retv (gh (gt s t)) = Some v /\ result (gt s t) = v /\
            main (gt s' j) = Done 0 (Some v) /\ joins s' = (j, t, v, clock s) :: joins s /\
            status (gt s t) = ST_FREE_READY2 /\
            0 < t_ret (gh (gt s t)) /\ t_ret (gh (gt s t)) < t_ready2 (gh (gt s t)) /\ t_ready2 (gh (gt s t)) < clock s.
Proof.
  intros HR Hm H. pose proof (Inv_reach s HR) as HI.
  pose proof (i_jreap _ HI j t Hm) as S3.
  destruct (d_status3 _ _ HI S3) as (Mt & Ct & Dt).
  assert (Hf : finishing_pc (main (gt s t)) = true) by now rewrite Mt.
  destruct (i_retv _ HI t Hf) as (Rv & _).
  destruct (i_ready2 _ HI t S3) as (A & B & C).
  exists (result (gt s t)). split; [exact Rv|]. split; [reflexivity|].
  assert (Hj : j < length (thr s)) by (apply main_inr; congruence).
  assert (Ht : t < length (thr s)) by (apply main_inr; congruence).
  unfold step, step_cfg in H. destruct (crashed s); [discriminate|].
  unfold tick in H. rewrite Hm in H. injection H as <-.
  rewrite gt_tick_clock, joins_tick, joins_modify, joins_add_join, clock_modify.
  rewrite gt_modify by (rewrite len_add_join, len_modify; exact Hj).
  rewrite Nat.eqb_refl. cbn [main set_main]. repeat split; auto.
Qed.

(** the two time stamps are what their names say: [t_ret] is written only by the thread's own
    Return / Exit call (the moment its function returns or calls myth_exit), with the current clock,
    together with the result word; [t_ready2] only by its own finish.cb.ready2 step, which is the
    store of FREE_READY2 *)
Lemma stamps_sound s j e s' : Reach s -> step s (j, e) = Some s' -> forall k,
  (t_ret (gh (gt s' k)) <> t_ret (gh (gt s k)) ->
     k = j /\ (e = ECall (Return (result (gt s' k))) \/ e = ECall (Exit (result (gt s' k))) \/
               (e = ETick /\ main (gt s k) = KTest /\ acted (gh (gt s' k)) = true /\ result (gt s' k) = CANCELED)) /\
     t_ret (gh (gt s' k)) = clock s /\ retv (gh (gt s' k)) = Some (result (gt s' k))) /\
  (t_ready2 (gh (gt s' k)) <> t_ready2 (gh (gt s k)) ->
     k = j /\ e = ECbTick /\ cb (gt s j) = CbReady2 /\ t_ready2 (gh (gt s' k)) = clock s /\
     status (gt s' k) = ST_FREE_READY2).
Proof.
  intros HR H. pose proof (Inv_reach s HR) as HI. intros k. step_inv H.
  all: crunchT HI ltac:(idtac).
Qed.

(* ------------------------------------------------------------------------------------------ *)
(** * Attribute objects (C01_attr_equiv, C13_detached_attr) *)

(** an attribute object prepared only with the public attribute functions *)
Inductive prepared (g : globals) : attr -> Prop :=
| prep_init a0 : prepared g (attr_init g a0)
| prep_det a v : prepared g a -> prepared g (attr_setdetachstate a v)
| prep_ss a v : prepared g a -> prepared g (attr_setstacksize a v)
| prep_guard a v : prepared g a -> prepared g (attr_setguardsize a v)
| prep_stack a addr v : prepared g a -> prepared g (attr_setstack a addr v)
| prep_cf a v : prepared g a -> prepared g (attr_setchildfirst a v).

Lemma prepared_pthread g det addr size : prepared g (pthread_attr_to_myth g det addr size).
Proof. unfold pthread_attr_to_myth. apply prep_stack, prep_det, prep_init. Qed.

(** every field is defined, no custom data is requested *)
Lemma prepared_fields g a : prepared g a ->
  exists sa ss gs ds cf, a = mkAttr (Val sa) (Val ss) (Val gs) (Val ds) (Val cf) (Val 0%Z) (Val 0%Z).
Proof.
  induction 1 as [a0|a v _ IH|a v _ IH|a v _ IH|a addr v _ IH|a v _ IH];
    [|destruct IH as (sa & ss & gs & ds & cf & ->)..]; cbn; repeat eexists.
Qed.

(** creation reads exactly the requested settings; it never executes undefined behaviour *)
Lemma prepared_settings g a : prepared g a ->
  exists ss ds cf, a_stacksize a = Val ss /\ a_detachstate a = Val ds /\ a_child_first a = Val cf /\
    create_settings (Some a) = Some (mkSettings ss (negb (cf =? 0)%Z) (negb (ds =? 0)%Z)).
Proof.
  intros H. destruct (prepared_fields g a H) as (sa & ss & gs & ds & cf & ->).
  exists ss, ds, cf. cbn. auto.
Qed.

Lemma attr_init_settings g a0 :
  create_settings (Some (attr_init g a0)) = Some (mkSettings (g_stacksize g) (negb (g_child_first g =? 0)%Z) false).
Proof. reflexivity. Qed.

(** the descriptor that creation with settings [st] initialises, compared with default creation *)
Definition with_settings (st : settings) (creator : nat) (th : thread) : thread :=
  let g := gh th in
  set_gh (set_main (set_detached th (s_det st)) (Created (s_cf st)))
    (mkGhost (runs g) (garg g) (got g) (retv g) (if s_det st then Some creator else None) (s_det st) (reaped g)
             (desc_alloc g) (desc_freed g) (stack_alloc g) (stack_freed g) (s_stack st) (t_ret g) (t_ready2 g) (creq g) (acted g)).

(** creation through an attribute object whose fields are all defined (in particular one prepared
    with the public functions), with or without the NULL id pointer: never undefined behaviour, and the
    same state as default creation except that the new descriptor carries the requested settings *)
Lemma create_equiv s j c a nullid argv st s1 :
  create_settings (Some a) = Some st ->
  step s (j, ECall (Create c (Some a) nullid argv)) = Some s1 ->
  exists s2, step s (j, ECall (Create c None false argv)) = Some s2 /\
    crashed s1 = false /\ clock s1 = clock s2 /\ joins s1 = joins s2 /\ badwake s1 = badwake s2 /\
    length (thr s1) = length (thr s2) /\
    forall k, gt s1 k = if k =? c then with_settings st j (gt s2 k) else gt s2 k.
Proof.
  intros Hst H. unfold step, step_cfg in *. destruct (crashed s) eqn:Ec; [discriminate|].
  unfold call_cfg in *. destruct (main (gt s j)) eqn:Em; try discriminate.
  destruct (cb (gt s j)) eqn:Ecb; try discriminate.
  unfold do_create in *. rewrite Hst in H.
  destruct ((c <? length (thr s)) && pc_is_nothread (main (gt s c))) eqn:Eg; [|discriminate].
  apply andb_prop in Eg. destruct Eg as [Hc Hn]. apply Nat.ltb_lt in Hc. apply pc_is_nothread_true in Hn.
  cbn [cfg_null_guard cfg_honour_det cfg_now negb andb] in *.
  rewrite andb_false_r in H. cbn [andb] in *. injection H as <-.
  eexists. split; [reflexivity|].
  assert (Hj : j < length (thr s)) by (apply main_inr; congruence).
  assert (Hjc : j <> c) by (intros ->; congruence).
  repeat split; try reflexivity.
  all: try (cbn [thr tick_clock]; now rewrite !len_modify).
  { now rewrite crashed_tick, !crashed_modify. }
  intros k. rewrite !gt_tick_clock.
    rewrite !(gt_modify _ j) by (rewrite len_modify; exact Hj).
    rewrite !(gt_modify _ c) by exact Hc.
  destruct (Nat.eqb_spec k j) as [->|Hkj].
  - destruct (Nat.eqb_spec j c) as [->|_]; [congruence|reflexivity].
  - destruct (Nat.eqb_spec k c) as [->|Hkc]; [|reflexivity].
    unfold with_settings, new_thread, default_settings. cbn. reflexivity.
Qed.

(** before commit 85e96a1 attr_init left the custom-data fields as they were: creation with such an
    attribute uses an uninitialised length *)
Lemma attr_prefix_refuted :
  exists g s', create_settings (Some (attr_init_prefix g attr_dirty)) = None /\
    step (init_state 1) (0, ECall (Create 1 (Some (attr_init_prefix g attr_dirty)) false 7%Z)) = Some s' /\
    crashed s' = true.
Proof. exists (mkGlobals 131072 0 1). eexists. repeat split; vm_compute; reflexivity. Qed.

(** before commit c226887 the id store was unconditional: the documented NULL id crashes *)
Lemma nullid_prefix_refuted :
  exists s' s'', step_cfg cfg_prefix_nullid (init_state 1) (0, ECall (Create 1 None true 7%Z)) = Some s' /\ crashed s' = true /\
    step (init_state 1) (0, ECall (Create 1 None true 7%Z)) = Some s'' /\ crashed s'' = false.
Proof. do 2 eexists. repeat split; vm_compute; reflexivity. Qed.

(* ------------------------------------------------------------------------------------------ *)
(** * C13 *)

(** reaped at most once; record and stack released at most once; the stack is released when the
    finish is complete; the record is released exactly when the finish is complete and a reaping
    request (join / tryjoin / timedjoin success, detach, detached attribute) has completed - whatever
    the order of the two *)
Lemma reaped_once s t : Reach s ->
  reaped (gh (gt s t)) <= 1 /\ desc_freed (gh (gt s t)) = reaped (gh (gt s t)) /\ stack_freed (gh (gt s t)) <= 1 /\
  (finish_complete (gt s t) = true -> stack_freed (gh (gt s t)) = 1) /\
  (finish_complete (gt s t) = true -> rdone (gh (gt s t)) = true -> reaped (gh (gt s t)) = 1) /\
  (reaped (gh (gt s t)) = 1 -> finish_complete (gt s t) = true /\ rdone (gh (gt s t)) = true) /\
  (stack_freed (gh (gt s t)) = 1 -> main (gt s t) = Finished).
Proof.
  intros HR. pose proof (Inv_reach s HR) as HI.
  pose proof (i_freed_eq _ HI t) as E. pose proof (i_freed _ HI t) as F.
  pose proof (i_sfreed _ HI t) as S. pose proof (i_rdone_f _ HI t) as RF. pose proof (i_det_f _ HI t) as DF.
  rewrite <- E.
  assert (S1 : stack_freed (gh (gt s t)) <= 1 /\ (finish_complete (gt s t) = true -> stack_freed (gh (gt s t)) = 1) /\
               (stack_freed (gh (gt s t)) = 1 -> main (gt s t) = Finished)).
  { rewrite S. unfold stack_freed_spec, finish_complete.
    destruct (main (gt s t)); try (repeat split; (lia || discriminate)).
    destruct (cb (gt s t)); repeat split; try lia; try discriminate; auto. }
  destruct S1 as (S1 & S2 & S3).
  split; [destruct F as [F|(F & _)]; lia|].
  split; [reflexivity|]. split; [exact S1|]. split; [exact S2|].
  split. { intros Hf Hr. destruct (RF Hr) as [D|D]; [now apply DF|exact D]. }
  split. { intros H1. destruct F as [F|(_ & F1 & F2)]; [lia|auto]. }
  exact S3.
Qed.

(** a record is never released while the thread's status is not FREE_READY2, except by the
    finisher of a detached thread, which decided so under the descriptor lock *)
Lemma free_guard s j e s' t : Reach s -> step s (j, e) = Some s' ->
  desc_freed (gh (gt s' t)) <> desc_freed (gh (gt s t)) ->
  desc_freed (gh (gt s' t)) = S (desc_freed (gh (gt s t))) /\ desc_freed (gh (gt s t)) = 0 /\
  ((e = ETick /\ (main (gt s j) = JReap t \/ main (gt s j) = DReap t) /\ status (gt s t) = ST_FREE_READY2 /\
    claimed (gh (gt s t)) = Some j) \/
   (e = ECbTick /\ j = t /\ cb (gt s t) = CbFreeDesc /\ detached (gt s t) = true /\ main (gt s t) = Finished)).
Proof.
  intros HR H. pose proof (Inv_reach s HR) as HI. step_inv H.
  all: crunchT HI ltac:(pose proof (i_jreap _ HI j t); pose proof (i_dreap _ HI j t); pose proof (i_cbdet_f _ HI j);
                        pose proof (i_claim _ HI j t); pose proof (i_freed _ HI t); pose proof (i_rdone_p _ HI t j)).
Qed.

(** tryjoin / timedjoin attempt, at the locked test: the outcome is decided by the target's status
    word alone - not finished: unlock, nothing else of the target changes, EBUSY (retry for
    timedjoin); finished: exactly the step join makes from its own locked test *)
Lemma tryjoin_decision s j t timed s' : Reach s -> main (gt s j) = TCheck t timed -> step s (j, ETick) = Some s' ->
  lockh (gt s t) = Some j /\
  (is_finished (status (gt s t)) = false ->
     main (gt s' j) = (if timed then TBusy t else Done EBUSY None) /\
     ret_ok s' j EBUSY = true /\ joined s' j = None /\
     status (gt s' t) = status (gt s t) /\ join_thread (gt s' t) = join_thread (gt s t) /\
     detached (gt s' t) = detached (gt s t) /\ result (gt s' t) = result (gt s t) /\
     reaped (gh (gt s' t)) = reaped (gh (gt s t)) /\ desc_freed (gh (gt s' t)) = desc_freed (gh (gt s t)) /\
     (t <> j -> main (gt s' t) = main (gt s t)) /\ cb (gt s' t) = cb (gt s t) /\
     lockh (gt s' t) = None) /\
  (is_finished (status (gt s t)) = true ->
     main (gt s' j) = JSpin t /\ ret_ok s' j EBUSY = false /\
     forall sj sj', (forall k, gt sj k = if k =? j then set_main (gt s j) (JCheck t) else gt s k) ->
                    length (thr sj) = length (thr s) -> crashed sj = false ->
                    step sj (j, ETick) = Some sj' -> forall k, gt sj' k = gt s' k).
Proof.
  intros HR Hm H. pose proof (Inv_reach s HR) as HI.
  assert (Hj : j < length (thr s)) by (apply main_inr; congruence).
  destruct (i_claim _ HI j t) as [Hc Ht]; [rewrite Hm; cbn; apply Nat.eqb_refl|].
  apply main_inr in Ht.
  assert (Hl : lockh (gt s t) = Some j).
  { apply (i_lock_b _ HI). unfold holds. rewrite Hm. cbn. now rewrite Nat.eqb_refl. }
  split; [exact Hl|].
  unfold step, step_cfg in H. destruct (crashed s) eqn:Ec; [discriminate|].
  unfold tick in H. rewrite Hm in H.
  destruct (is_finished (status (gt s t))) eqn:Ef.
  - injection H as <-. split; [discriminate|]. intros _.
    rewrite gt_tick_clock, gt_modify by (rewrite len_modify; exact Hj). rewrite Nat.eqb_refl.
    split; [reflexivity|]. split.
    { unfold ret_ok. rewrite gt_tick_clock, gt_modify by (rewrite len_modify; exact Hj). rewrite Nat.eqb_refl. reflexivity. }
    intros sj sj' Hsj Hlen Hcr Hst k.
    assert (Hmj : main (gt sj j) = JCheck t) by (rewrite Hsj, Nat.eqb_refl; reflexivity).
    assert (Hstt : status (gt sj t) = status (gt s t)).
    { rewrite Hsj. destruct (Nat.eqb_spec t j) as [->|_]; reflexivity. }
    unfold step, step_cfg in Hst. rewrite Hcr in Hst. unfold tick in Hst. rewrite Hmj, Hstt, Ef in Hst.
    injection Hst as <-.
    rewrite !gt_tick_clock.
    rewrite !(gt_modify _ j) by (rewrite len_modify; lia).
    rewrite !(gt_modify _ t) by lia.
    rewrite !Hsj. rewrite Nat.eqb_refl.
    repeat match goal with |- context [(?a =? ?b)] => destruct (Nat.eqb_spec a b) end;
      subst; try reflexivity; try congruence.
  - split; [|discriminate]. intros _.
    destruct timed; injection H as <-;
      rewrite ?gt_tick_clock; unfold ret_ok, joined; rewrite ?gt_tick_clock;
      rewrite !(gt_modify _ j) by (rewrite len_modify; exact Hj); rewrite !(gt_modify _ t) by exact Ht;
      rewrite !Nat.eqb_refl;
      destruct (Nat.eqb_spec t j) as [->|Hn]; rewrite ?Nat.eqb_refl; cbn; repeat split; try reflexivity; try congruence.
Qed.

(** detach: every step of the operation leaves every word of every descriptor alone, except the
    lock word of the target while it tests, the [detached] flag of a target that has not finished
    (written under the lock), and the release of the record of a target that has published
    FREE_READY2.  In particular the running target's status, join_thread, result, control state and
    stack are untouched. *)
Lemma detach_harmless s j t s' : Reach s -> detach_pc (main (gt s j)) t = true -> step s (j, ETick) = Some s' ->
  forall k,
    status (gt s' k) = status (gt s k) /\ join_thread (gt s' k) = join_thread (gt s k) /\
    result (gt s' k) = result (gt s k) /\ cb (gt s' k) = cb (gt s k) /\
    runs (gh (gt s' k)) = runs (gh (gt s k)) /\ retv (gh (gt s' k)) = retv (gh (gt s k)) /\
    stack_freed (gh (gt s' k)) = stack_freed (gh (gt s k)) /\
    (k <> j -> main (gt s' k) = main (gt s k)) /\
    (detached (gt s' k) <> detached (gt s k) ->
       k = t /\ main (gt s j) = DSet t /\ detached (gt s' k) = true /\ status (gt s t) <> ST_FREE_READY2 /\
       lockh (gt s t) = Some j) /\
    (desc_freed (gh (gt s' k)) <> desc_freed (gh (gt s k)) ->
       k = t /\ main (gt s j) = DReap t /\ status (gt s t) = ST_FREE_READY2) /\
    (lockh (gt s' k) <> lockh (gt s k) -> k = t).
Proof.
  intros HR Hd H. pose proof (Inv_reach s HR) as HI. intros k.
  unfold detach_pc in Hd.
  destruct (main (gt s j)) eqn:Em; try discriminate Hd; apply Nat.eqb_eq in Hd; subst;
    (unfold step, step_cfg in H; destruct (crashed s) eqn:Ec; [discriminate|];
     unfold tick, acquire in H; rewrite Em in H; break_match H; injection H as <-).
  all: crunchT HI ltac:(pose proof (i_dset _ HI j t); pose proof (i_dreap _ HI j t); pose proof (i_lock_b _ HI j t)).
Qed.

(** at quiescence (no activity can move) no callback is pending, every thread whose code is over
    has released its stack, the others own theirs; every record is either still owned by its thread
    (not finished, or finished and not yet reaped: no reaping request completed) or released exactly
    once; nothing is lost *)
Lemma quiescent_ledger s : Reach s -> quiescent s -> forall k, main (gt s k) <> NoThread ->
  cb (gt s k) = CbNone /\
  desc_alloc (gh (gt s k)) = 1 /\ stack_alloc (gh (gt s k)) = 1 /\
  ((main (gt s k) <> Finished /\ stack_freed (gh (gt s k)) = 0 /\ desc_freed (gh (gt s k)) = 0) \/
   (main (gt s k) = Finished /\ stack_freed (gh (gt s k)) = 1 /\
    ((rdone (gh (gt s k)) = false /\ desc_freed (gh (gt s k)) = 0 /\ status (gt s k) = ST_FREE_READY2) \/
     (rdone (gh (gt s k)) = true /\ desc_freed (gh (gt s k)) = 1 /\ reaped (gh (gt s k)) = 1)))).
Proof.
  intros HR HQ k Hk. pose proof (Inv_reach s HR) as HI.
  assert (Hcb : cb (gt s k) = CbNone).
  { destruct (HQ k) as [_ Hc]. unfold cbtick in Hc. destruct (cb (gt s k)); try reflexivity; try discriminate Hc.
    destruct (detached (gt s k)); discriminate Hc. }
  split; [exact Hcb|].
  destruct (i_alloc _ HI k) as [A1 A2]. unfold alloc_spec in *.
  destruct (reaped_once s k HR) as (R1 & R2 & R3 & R4 & R5 & R6 & R7).
  pose proof (i_sfreed _ HI k) as SF. unfold stack_freed_spec in SF. rewrite Hcb in SF.
  pose proof (i_freed _ HI k) as F. unfold finish_complete in *. rewrite Hcb in *.
  destruct (main (gt s k)) eqn:Em; try congruence;
    try (split; [exact A1|]; split; [exact A2|]; left; split; [discriminate|]; split; [exact SF|];
         destruct F as [F|(_ & _ & F)]; [exact F|discriminate F]).
  split; [exact A1|]. split; [exact A2|]. right. split; [reflexivity|]. split; [exact SF|].
  destruct (rdone (gh (gt s k))) eqn:Er.
  - right. split; [reflexivity|]. rewrite R2. split; apply R5; reflexivity.
  - left. split; [reflexivity|]. split; [destruct F as [F|(_ & F & _)]; [exact F|discriminate F]|].
    destruct (d_status_fin _ _ HI Em Hcb) as [D|D]; [|exact D].
    rewrite (i_det_rdone _ HI k D) in Er. discriminate Er.
Qed.

(** all steps of a schedule, each of which must be enabled *)
Fixpoint steps (l : list (nat * ev)) (s : state) : option state :=
  match l with
  | [] => Some s
  | a :: r => match step s a with Some s' => steps r s' | None => None end
  end.

(** creation with the detached attribute = default-attribute creation followed at once by
    detach (fast test, lock, locked test, store, unlock): every descriptor ends up word for word
    the same, ghost fields included; only the clock has advanced further *)
Definition detach_after_create (p c : nat) (a' : option attr) (nullid : bool) (argv : Z) : list (nat * ev) :=
  [(p, ECall (Create c a' nullid argv)); (p, ERet 0%Z); (p, ECall (Detach c));
   (p, ETick); (p, ETick); (p, ETick); (p, ETick)].

Lemma detached_attr s p c a a' nullid argv ss cf s1 :
  Reach s ->
  create_settings a = Some (mkSettings ss cf true) ->
  create_settings a' = Some (mkSettings ss cf false) ->
  step s (p, ECall (Create c a nullid argv)) = Some s1 ->
  exists s2, steps (detach_after_create p c a' nullid argv) s = Some s2 /\
    crashed s1 = false /\ crashed s2 = false /\ joins s2 = joins s1 /\ badwake s2 = badwake s1 /\
    forall k, gt s2 k = gt s1 k.
Proof.
  intros HR Hst Hst' H. pose proof (Inv_reach s HR) as HI.
  unfold step, step_cfg in H. destruct (crashed s) eqn:Ec; [discriminate|].
  unfold call_cfg in H. destruct (main (gt s p)) eqn:Em; try discriminate.
  destruct (cb (gt s p)) eqn:Ecb; try discriminate.
  unfold do_create in H. rewrite Hst in H.
  destruct ((c <? length (thr s)) && pc_is_nothread (main (gt s c))) eqn:Eg; [|discriminate].
  pose proof Eg as Eg'. apply andb_prop in Eg'. destruct Eg' as [Hc Hn].
  apply Nat.ltb_lt in Hc. apply pc_is_nothread_true in Hn.
  cbn [cfg_null_guard cfg_honour_det cfg_now negb andb s_det s_cf s_stack] in H.
  rewrite andb_false_r in H. injection H as <-.
  assert (Hp : p < length (thr s)) by (apply main_inr; congruence).
  assert (Hpc : p <> c) by (intros ->; congruence).
  assert (Epc : (p =? c) = false) by now apply Nat.eqb_neq.
  assert (Ecp : (c =? p) = false) by (apply Nat.eqb_neq; congruence).
  pose proof (i_fresh _ HI c Hn) as Hf.
  set (st' := mkSettings ss cf false).
  (* the seven steps *)
  set (t1 := tick_clock (modify (modify s c (fun _ => new_thread p st' false argv)) p (fun th => set_main th (Done 0 None)))).
  assert (E1 : step s (p, ECall (Create c a' nullid argv)) = Some t1).
  { unfold step, step_cfg. rewrite Ec. unfold call_cfg. rewrite Em, Ecb. unfold do_create. rewrite Eg, Hst'.
    cbn [cfg_null_guard cfg_honour_det cfg_now negb andb s_det]. rewrite andb_false_r. reflexivity. }
  assert (L1 : length (thr t1) = length (thr s)) by (unfold t1; cbn [thr tick_clock]; now rewrite !len_modify).
  assert (P1 : gt t1 p = set_main (gt s p) (Done 0 None)).
  { unfold t1. rewrite gt_tick_clock, gt_modify by (rewrite len_modify; exact Hp).
    rewrite Nat.eqb_refl, gt_modify by exact Hc. now rewrite Epc. }
  assert (C1 : gt t1 c = new_thread p st' false argv).
  { unfold t1. rewrite gt_tick_clock, gt_modify by (rewrite len_modify; exact Hp).
    rewrite Ecp, gt_modify by exact Hc. now rewrite Nat.eqb_refl. }
  assert (K1 : forall k, k <> p -> k <> c -> gt t1 k = gt s k).
  { intros k H1 H2. unfold t1. rewrite gt_tick_clock, gt_modify by (rewrite len_modify; exact Hp).
    rewrite (proj2 (Nat.eqb_neq k p) H1), gt_modify by exact Hc. now rewrite (proj2 (Nat.eqb_neq k c) H2). }
  assert (X1 : crashed t1 = false /\ joins t1 = joins s /\ badwake t1 = badwake s) by (unfold t1; auto).
  clearbody t1.
  (* a generic description of "p's main pc changes, c's record changes" *)
  assert (STEP : forall t f g, length (thr t) = length (thr s) ->
            let t' := tick_clock (modify (modify t c g) p f) in
            length (thr t') = length (thr s) /\ gt t' p = f (gt t p) /\ gt t' c = g (gt t c) /\
            (forall k, k <> p -> k <> c -> gt t' k = gt t k) /\
            crashed t' = crashed t /\ joins t' = joins t /\ badwake t' = badwake t).
  { intros t f g Lt t'. unfold t'. repeat split; try reflexivity.
    - cbn [thr tick_clock]. now rewrite !len_modify.
    - rewrite gt_tick_clock, gt_modify by (rewrite len_modify; lia).
      rewrite Nat.eqb_refl, gt_modify by lia. now rewrite Epc.
    - rewrite gt_tick_clock, gt_modify by (rewrite len_modify; lia).
      rewrite Ecp, gt_modify by lia. now rewrite Nat.eqb_refl.
    - intros k H1 H2. rewrite gt_tick_clock, gt_modify by (rewrite len_modify; lia).
      rewrite (proj2 (Nat.eqb_neq k p) H1), gt_modify by lia. now rewrite (proj2 (Nat.eqb_neq k c) H2). }
  assert (STEP1 : forall t f, length (thr t) = length (thr s) ->
            let t' := tick_clock (modify t p f) in
            length (thr t') = length (thr s) /\ gt t' p = f (gt t p) /\ gt t' c = gt t c /\
            (forall k, k <> p -> k <> c -> gt t' k = gt t k) /\
            crashed t' = crashed t /\ joins t' = joins t /\ badwake t' = badwake t).
  { intros t f Lt t'. unfold t'. repeat split; try reflexivity.
    - cbn [thr tick_clock]. now rewrite !len_modify.
    - rewrite gt_tick_clock, gt_modify by lia. now rewrite Nat.eqb_refl.
    - rewrite gt_tick_clock, gt_modify by lia. now rewrite Ecp.
    - intros k H1 H2. rewrite gt_tick_clock, gt_modify by lia. now rewrite (proj2 (Nat.eqb_neq k p) H1). }
  destruct X1 as (X1a & X1b & X1c).
  (* 2: return from create *)
  destruct (STEP1 t1 (fun x => set_main x Idle) L1) as (L2 & P2 & C2 & K2 & Xa2 & Xb2 & Xc2).
  set (t2 := tick_clock (modify t1 p (fun x => set_main x Idle))) in *.
  assert (E2 : step t1 (p, ERet 0%Z) = Some t2).
  { unfold step, step_cfg. rewrite X1a. unfold ret, ret_ok. rewrite P1. cbn. reflexivity. }
  clearbody t2.
  (* 3: call detach *)
  destruct (STEP t2 (fun x => set_main x (DFast c)) (fun x => set_gh x (g_claim (gh x) (Some p))) L2)
    as (L3 & P3 & C3 & K3 & Xa3 & Xb3 & Xc3).
  set (t3 := tick_clock (modify (modify t2 c (fun x => set_gh x (g_claim (gh x) (Some p)))) p (fun x => set_main x (DFast c)))) in *.
  assert (E3 : step t2 (p, ECall (Detach c)) = Some t3).
  { unfold step, step_cfg. rewrite Xa2, X1a. unfold call_cfg. rewrite P2, P1. cbn [main cb set_main].
    rewrite Ecb. unfold exists_thread. rewrite C2, C1. cbn. reflexivity. }
  clearbody t3.
  (* 4: detach.fast *)
  destruct (STEP1 t3 (fun x => set_main x (DLock c)) L3) as (L4 & P4 & C4 & K4 & Xa4 & Xb4 & Xc4).
  set (t4 := tick_clock (modify t3 p (fun x => set_main x (DLock c)))) in *.
  assert (E4 : step t3 (p, ETick) = Some t4).
  { unfold step, step_cfg. rewrite Xa3, Xa2, X1a. unfold tick. rewrite P3. cbn [main set_main].
    rewrite C3, C2, C1. cbn. reflexivity. }
  clearbody t4.
  (* 5: lock *)
  destruct (STEP t4 (fun x => set_main x (DCheck c)) (fun x => set_lockh x (Some p)) L4)
    as (L5 & P5 & C5 & K5 & Xa5 & Xb5 & Xc5).
  set (t5 := tick_clock (modify (modify t4 c (fun x => set_lockh x (Some p))) p (fun x => set_main x (DCheck c)))) in *.
  assert (E5 : step t4 (p, ETick) = Some t5).
  { unfold step, step_cfg. rewrite Xa4, Xa3, Xa2, X1a. unfold tick. rewrite P4. cbn [main set_main].
    unfold acquire. rewrite C4, C3, C2, C1. cbn. reflexivity. }
  clearbody t5.
  (* 6: detach.check *)
  destruct (STEP1 t5 (fun x => set_main x (DSet c)) L5) as (L6 & P6 & C6 & K6 & Xa6 & Xb6 & Xc6).
  set (t6 := tick_clock (modify t5 p (fun x => set_main x (DSet c)))) in *.
  assert (E6 : step t5 (p, ETick) = Some t6).
  { unfold step, step_cfg. rewrite Xa5, Xa4, Xa3, Xa2, X1a. unfold tick. rewrite P5. cbn [main set_main].
    rewrite C5, C4, C3, C2, C1. cbn. reflexivity. }
  clearbody t6.
  (* 7: detach.set *)
  destruct (STEP t6 (fun x => set_main x (Done 0 None)) (fun x => set_gh (unlock (set_detached x true)) (g_rdone (gh x))) L6)
    as (L7 & P7 & C7 & K7 & Xa7 & Xb7 & Xc7).
  set (t7 := tick_clock (modify (modify t6 c (fun x => set_gh (unlock (set_detached x true)) (g_rdone (gh x)))) p
                                (fun x => set_main x (Done 0 None)))) in *.
  assert (E7 : step t6 (p, ETick) = Some t7).
  { unfold step, step_cfg. rewrite Xa6, Xa5, Xa4, Xa3, Xa2, X1a. unfold tick. rewrite P6. cbn [main set_main]. reflexivity. }
  clearbody t7.
  exists t7. split.
  { unfold detach_after_create. cbn [steps]. now rewrite E1, E2, E3, E4, E5, E6, E7. }
  split; [now rewrite crashed_tick, !crashed_modify|].
  split; [congruence|]. split; [rewrite joins_tick, !joins_modify; congruence|].
  split; [rewrite badwake_tick, !badwake_modify; congruence|].
  intros k. rewrite gt_tick_clock, gt_modify by (rewrite len_modify; exact Hp). rewrite !(gt_modify _ c) by exact Hc.
  destruct (Nat.eqb_spec k p) as [->|Hkp].
  - rewrite Epc, P7, P6, P5, P4, P3, P2, P1. reflexivity.
  - destruct (Nat.eqb_spec k c) as [->|Hkc].
    + rewrite C7, C6, C5, C4, C3, C2, C1. unfold new_thread, st'. cbn. reflexivity.
    + rewrite K7, K6, K5, K4, K3, K2, K1 by assumption. reflexivity.
Qed.

(** before commit e6d6e48 creation ignored attr->detachstate: the thread finishes like a joinable
    one, nobody may reap it (the caller asked for a detached thread), its record is never released -
    the state below is quiescent, no reaping call on it is enabled, and the record is still out.
    With the code as it is now the same schedule releases it. *)
Definition run_cfg (cfg : config) (sched : list (nat * ev)) (s : state) : state :=
  fold_left (fun s a => match step_cfg cfg s a with Some s' => s' | None => s end) sched s.
Definition det_attr : option attr :=
  Some (attr_setdetachstate (attr_init (mkGlobals 131072 0 1) attr_dirty) 1).
Definition leak_sched : list (nat * ev) :=
  [(0, ECall (Create 1 det_attr true 7%Z)); (1, ETick); (1, ECall (Return 5%Z)); (1, ETick); (1, ETick);
   (1, ECbTick); (1, ECbTick); (1, ECbTick); (0, ERet 0%Z)].

Lemma detached_attr_prefix_refuted :
  let s := run_cfg cfg_prefix_det leak_sched (init_state 1) in
  let s' := run_cfg cfg_now leak_sched (init_state 1) in
  (finish_complete (gt s 1) = true /\ rdone (gh (gt s 1)) = true /\ desc_freed (gh (gt s 1)) = 0 /\
   stack_freed (gh (gt s 1)) = 1 /\ crashed s = false /\
   (forall j, tick s j = None /\ cbtick s j = None) /\
   (forall j, call_cfg cfg_prefix_det s j (Join 1) = None /\ call_cfg cfg_prefix_det s j (TryJoin 1) = None /\
              call_cfg cfg_prefix_det s j (TimedJoin 1) = None /\ call_cfg cfg_prefix_det s j (Detach 1) = None)) /\
  (finish_complete (gt s' 1) = true /\ desc_freed (gh (gt s' 1)) = 1 /\ stack_freed (gh (gt s' 1)) = 1).
Proof.
  cbv zeta. split; [|repeat split; vm_compute; reflexivity].
  repeat split; try (vm_compute; reflexivity).
  all: destruct j as [|[|j]]; try (vm_compute; reflexivity).
  all: unfold tick, cbtick, call_cfg, gt; try (destruct j; vm_compute; reflexivity).
Qed.

(* ------------------------------------------------------------------------------------------ *)
(** * The sequential allocator model: bounded memory on one worker (C13_bounded_memory) *)

Lemma filter_upd_count {A} (P : A -> bool) (l : list A) t x y :
  nth_error l t = Some x ->
  length (filter P (upd l t y)) + (if P x then 1 else 0) = length (filter P l) + (if P y then 1 else 0).
Proof.
  revert t; induction l as [|z l IH]; intros [|t] H; cbn in H; try discriminate.
  - injection H as ->. cbn [upd filter]. destruct (P x), (P y); cbn [length]; lia.
  - cbn [upd filter]. specialize (IH t H). destruct (P z); cbn [length]; lia.
Qed.

Lemma filter_snoc_count {A} (P : A -> bool) (l : list A) y :
  length (filter P (l ++ [y])) = length (filter P l) + (if P y then 1 else 0).
Proof. rewrite filter_app, app_length. cbn. destruct (P y); reflexivity. Qed.

Lemma running_le_unreaped s : running s <= unreaped s.
Proof.
  unfold running, unreaped. induction (ath s) as [|a l IH]; cbn; [lia|].
  unfold is_running, is_unreaped in *. destruct (a_ph a); cbn; lia.
Qed.

(** everything obtained from the system is on the free list or owned *)
Definition AInv (s : astate) : Prop :=
  nd s = length (fd s) + unreaped s /\ ns s = length (fs s) + running s.

Lemma AInv_init : AInv ainit.
Proof. split; reflexivity. Qed.

Lemma astep_inv s e s' : AInv s -> astep s e = Some s' ->
  AInv s' /\ (nd s' = nd s \/ (nd s' = S (nd s) /\ nd s' = unreaped s')) /\
             (ns s' = ns s \/ (ns s' = S (ns s) /\ ns s' = running s')).
Proof.
  intros [I1 I2] H. unfold AInv. destruct e as [det|t|t|t]; cbn [astep] in H.
  - unfold take in H.
    destruct (fd s) as [|d fr] eqn:Ed; destruct (fs s) as [|k sr] eqn:Es; injection H as <-;
      unfold unreaped, running in *; cbn [ath fd nd fs ns] in *; rewrite !filter_snoc_count;
      cbn [is_unreaped is_running a_ph length] in *; repeat split; try lia.
  - destruct (nth_error (ath s) t) as [[d k det ph]|] eqn:En; [|discriminate].
    destruct ph; try discriminate.
    pose proof (filter_upd_count is_unreaped (ath s) t (mkA d k det ARun)) as U.
    pose proof (filter_upd_count is_running (ath s) t (mkA d k det ARun)) as R.
    destruct det; injection H as <-; unfold unreaped, running in *; cbn [ath fd nd fs ns length] in *.
    + specialize (U (mkA d k true AGone) En). specialize (R (mkA d k true AGone) En).
      cbn [is_unreaped is_running a_ph] in *. repeat split; try lia.
    + specialize (U (mkA d k false ADone) En). specialize (R (mkA d k false ADone) En).
      cbn [is_unreaped is_running a_ph] in *. repeat split; try lia.
  - destruct (nth_error (ath s) t) as [[d k det ph]|] eqn:En; [|discriminate].
    destruct det; try discriminate. destruct ph; try discriminate. injection H as <-.
    pose proof (filter_upd_count is_unreaped (ath s) t (mkA d k false ADone) (mkA d k false AGone) En) as U.
    pose proof (filter_upd_count is_running (ath s) t (mkA d k false ADone) (mkA d k false AGone) En) as R.
    unfold unreaped, running in *; cbn [ath fd nd fs ns length is_unreaped is_running a_ph] in *.
    repeat split; try lia.
  - destruct (nth_error (ath s) t) as [[d k det ph]|] eqn:En; [|discriminate].
    destruct det; try discriminate. destruct ph; try discriminate. injection H as <-.
    pose proof (filter_upd_count is_unreaped (ath s) t (mkA d k false ARun) (mkA d k true ARun) En) as U.
    pose proof (filter_upd_count is_running (ath s) t (mkA d k false ARun) (mkA d k true ARun) En) as R.
    unfold unreaped, running in *; cbn [ath fd nd fs ns length is_unreaped is_running a_ph] in *.
    repeat split; try lia.
Qed.

Lemma peak_head h s : unreaped s <= peak_unreaped h s.
Proof. unfold peak_unreaped. destruct h; cbn [astates map list_max fold_right]; lia. Qed.

Lemma bounded_memory_gen h : forall s, AInv s ->
  AInv (arun h s) /\
  nd (arun h s) <= Nat.max (nd s) (peak_unreaped h s) /\
  ns (arun h s) <= Nat.max (ns s) (peak_unreaped h s).
Proof.
  induction h as [|e r IH]; intros s HI.
  - unfold arun; cbn [fold_left]. split; [exact HI|]. split; lia.
  - unfold arun; cbn [fold_left]. fold (arun r (aexec s e)).
    assert (Hp : peak_unreaped (e :: r) s = Nat.max (unreaped s) (peak_unreaped r (aexec s e))).
    { unfold peak_unreaped. cbn [astates map list_max fold_right]. reflexivity. }
    rewrite Hp. unfold aexec at 1 2 3 4 5. unfold aexec in Hp.
    destruct (astep s e) as [s'|] eqn:E.
    + destruct (astep_inv s e s' HI E) as (HI' & Hd & Hs).
      destruct (IH s' HI') as (I & A & B). split; [exact I|].
      pose proof (peak_head r s') as PH. pose proof (running_le_unreaped s') as RU.
      split; [destruct Hd as [Hd|[Hd1 Hd2]]|destruct Hs as [Hs|[Hs1 Hs2]]]; lia.
    + destruct (IH s HI) as (I & A & B). split; [exact I|]. split; lia.
Qed.

(** one worker, any history of creations (detached or not), finishes, reaps and detaches: the
    number of records, and of stacks, ever obtained from the system is at most the peak number of
    simultaneously unreaped threads *)
Lemma bounded_memory h :
  nd (arun h ainit) <= peak_unreaped h ainit /\ ns (arun h ainit) <= peak_unreaped h ainit /\
  nd (arun h ainit) = length (fd (arun h ainit)) + unreaped (arun h ainit) /\
  ns (arun h ainit) = length (fs (arun h ainit)) + running (arun h ainit).
Proof.
  destruct (bounded_memory_gen h ainit AInv_init) as ([I1 I2] & A & B). cbn [nd ns ainit] in *.
  repeat split; auto; lia.
Qed.

(** along every schedule from every initial state *)
Lemma runs_once_sched n sched t : runs (gh (gt (run step sched (init_state n)) t)) <= 1.
Proof. exact (proj1 (runs_once _ t (run_reach n sched))). Qed.

Lemma reaped_once_sched n sched t :
  reaped (gh (gt (run step sched (init_state n)) t)) <= 1 /\
  desc_freed (gh (gt (run step sched (init_state n)) t)) <= 1 /\
  stack_freed (gh (gt (run step sched (init_state n)) t)) <= 1.
Proof.
  destruct (reaped_once _ t (run_reach n sched)) as (A & B & C & _). rewrite B. auto.
Qed.

(* ------------------------------------------------------------------------------------------ *)
(** * Cancellation (C01_cancel_only_own_incarnation) *)

(** a thread acts on a cancellation only if a myth_cancel naming ITS incarnation stored its request after
    the incarnation was created: creation resets both flags, and the request flag of an incarnation is
    written only by the store step of a cancel whose target is that incarnation *)
Lemma cancel_only_own_incarnation s t : Reach s ->
  (acted (gh (gt s t)) = true -> creq (gh (gt s t)) = true) /\
  (cancelled (gt s t) = true -> creq (gh (gt s t)) = true) /\
  (main (gt s t) = NoThread ->
     creq (gh (gt s t)) = false /\ acted (gh (gt s t)) = false /\ cancelled (gt s t) = false).
Proof.
  intros HR. pose proof (Inv_reach s HR) as HI.
  split; [exact (i_acted _ HI t)|]. split; [exact (i_creq _ HI t)|].
  intros Hm. rewrite (i_fresh _ HI t Hm). auto.
Qed.

(** creation resets the cancellation state of the position it uses *)
Lemma create_resets_cancel s j c a nullid argv s' : Reach s ->
  step s (j, ECall (Create c a nullid argv)) = Some s' -> crashed s' = false ->
  cancelled (gt s' c) = false /\ cancel_enabled (gt s' c) = true /\
  creq (gh (gt s' c)) = false /\ acted (gh (gt s' c)) = false /\ main (gt s c) = NoThread.
Proof.
  intros HR H. pose proof (Inv_reach s HR) as HI. step_inv H.
  all: try (intros Hc; cbn in Hc; discriminate Hc).
  all: intros _; crunchT HI ltac:(idtac).
Qed.

(** the request flag of an incarnation is written only by the store step of a cancel naming it; a thread
    terminates itself only at its own testcancel, with cancellation enabled and a request pending *)
Lemma cancel_steps s j e s' : Reach s -> step s (j, e) = Some s' -> forall t,
  (creq (gh (gt s' t)) <> creq (gh (gt s t)) ->
     main (gt s t) <> NoThread /\ e = ETick /\ main (gt s j) = KCancel t) /\
  (acted (gh (gt s' t)) <> acted (gh (gt s t)) ->
     main (gt s t) <> NoThread /\ t = j /\ e = ETick /\ main (gt s t) = KTest /\
     cancelled (gt s t) = true /\ cancel_enabled (gt s t) = true /\ creq (gh (gt s t)) = true /\
     result (gt s' t) = CANCELED /\ retv (gh (gt s' t)) = Some CANCELED).
Proof.
  intros HR H. pose proof (Inv_reach s HR) as HI. intros t. step_inv H.
  all: crunchT HI ltac:(pose proof (i_ktarget _ HI j t); pose proof (i_fresh _ HI t); pose proof (i_creq _ HI t)).
Qed.

(** a thread that acted on a cancellation is in (or through) its exit path with CANCELED as value; hence a join on
    it delivers CANCELED, and - by [stamps_sound] - the value of a thread that did not act was written by its
    own Return / Exit call *)
Lemma acted_retv s : Reach s -> forall t, acted (gh (gt s t)) = true ->
  retv (gh (gt s t)) = Some CANCELED /\ finishing_pc (main (gt s t)) = true.
Proof.
  induction 1 as [s0 [n ->]|s0 a s1 HR0 IH Hst]; intros t.
  - rewrite gt_init. destruct (t =? 0); cbn; discriminate.
  - pose proof (Inv_reach s0 HR0) as HI0. specialize (IH t). destruct a as [j e]. step_inv Hst.
    all: crunchT HI0 ltac:(pose proof (i_fresh _ HI0 t); pose proof (i_ktarget _ HI0 j t)).
Qed.

Lemma join_value_cancelled s j t v tm : Reach s -> In (j, t, v, tm) (joins s) ->
  acted (gh (gt s t)) = true -> v = CANCELED /\ creq (gh (gt s t)) = true.
Proof.
  intros HR Hin Ha. pose proof (Inv_reach s HR) as HI.
  destruct (i_joins _ HI j t v tm Hin) as (_ & Rv & _).
  destruct (acted_retv s HR t Ha) as [R _]. split; [congruence|exact (i_acted _ HI t Ha)].
Qed.
