(** Invariants of Abs(thread descriptor) (coq/Sched/DescModel.v) and the lemmas behind the
    theorems of Properties_C01.v / Properties_C13.v.  Every invariant is proved for every number
    of threads, every program (sequence of calls enabled by the usage contract) and every
    schedule, through Lib/Interleave.v. *)
From Coq Require Import ZArith List Bool Arith Lia.
From MT Require Import Lib.Interleave Sched.DescModel.
Import ListNotations.

(* ------------------------------------------------------------------------------------------ *)
(** * Lists and state access *)

Lemma upd_length {A} (l : list A) i x : length (upd l i x) = length l.
Proof.
  revert i; induction l as [|y l IH]; intros [|i]; cbn [upd length]; try reflexivity.
  now rewrite IH.
Qed.

Lemma nth_upd_eq {A} (l : list A) i x d : i < length l -> nth i (upd l i x) d = x.
Proof.
  revert i; induction l as [|y l IH]; intros [|i] H; cbn [upd nth length] in *; try lia; try reflexivity.
  apply IH; lia.
Qed.

Lemma nth_upd_neq {A} (l : list A) i k x d : k <> i -> nth k (upd l i x) d = nth k l d.
Proof.
  revert i k; induction l as [|y l IH]; intros [|i] [|k] H; cbn [upd nth]; try reflexivity; try congruence.
  apply IH; congruence.
Qed.

Lemma len_modify s i f : length (thr (modify s i f)) = length (thr s).
Proof. unfold modify, set_thr; cbn [thr]. apply upd_length. Qed.

Lemma gt_modify s i f k :
  i < length (thr s) -> gt (modify s i f) k = if k =? i then f (gt s i) else gt s k.
Proof.
  intros H. unfold gt at 1, modify, set_thr; cbn [thr].
  destruct (Nat.eqb_spec k i) as [->|Hn].
  - now apply nth_upd_eq.
  - now apply nth_upd_neq.
Qed.

Lemma gt_out s i : length (thr s) <= i -> gt s i = tnone.
Proof. intros H. unfold gt. now apply nth_overflow. Qed.

Lemma main_inr s i : main (gt s i) <> NoThread -> i < length (thr s).
Proof.
  intros H. destruct (Nat.lt_ge_cases i (length (thr s))) as [Hl|Hg]; [exact Hl|].
  rewrite (gt_out _ _ Hg) in H. now elim H.
Qed.

Lemma gt_tick_clock s k : gt (tick_clock s) k = gt s k.
Proof. reflexivity. Qed.
Lemma gt_add_join s j t v k : gt (add_join s j t v) k = gt s k.
Proof. reflexivity. Qed.
Lemma gt_set_badwake s k : gt (set_badwake s) k = gt s k.
Proof. reflexivity. Qed.
Lemma gt_set_crashed s k : gt (set_crashed s) k = gt s k.
Proof. reflexivity. Qed.
Lemma len_add_join s j t v : length (thr (add_join s j t v)) = length (thr s).
Proof. reflexivity. Qed.
Lemma len_set_badwake s : length (thr (set_badwake s)) = length (thr s).
Proof. reflexivity. Qed.

(** the system *)
Definition is_init (s : state) : Prop := exists n, s = init_state n.
Definition Reach : state -> Prop := reachable is_init step.

Lemma gt_init n k : gt (init_state n) k = if k =? 0 then thread_main0 else tnone.
Proof.
  unfold gt, init_state; cbn [thr].
  destruct k as [|k]; cbn [nth Nat.eqb]; [reflexivity|].
  destruct (Nat.lt_ge_cases k (length (repeat tnone n))) as [Hl|Hg].
  - apply nth_In with (d := tnone) in Hl. now apply repeat_spec in Hl.
  - now apply nth_overflow.
Qed.

(* ------------------------------------------------------------------------------------------ *)
(** * Tactics *)

(** expose one transition: afterwards the goal speaks about an explicit successor state *)
Ltac break_match H :=
  repeat (match type of H with
          | context [match ?x with _ => _ end] => destruct x eqn:?
          | context [if ?b then _ else _] => destruct b eqn:?
          end; try discriminate H).

Ltac step_inv H :=
  unfold step, step_cfg, call_cfg, tick, cbtick, ret, ret_ok, acquire, do_create, wake in H;
  break_match H;
  injection H as H; subst.

Ltac inr_tac :=
  match goal with
  | |- (?i < length (thr ?s))%nat =>
      first [ assumption
            | rewrite len_modify; inr_tac
            | rewrite len_add_join; inr_tac
            | rewrite len_set_badwake; inr_tac
            | apply main_inr; congruence ]
  end.

(** normal form of [gt s' k] for a successor state built from [modify]s *)
Ltac gt_norm :=
  repeat first [ rewrite gt_tick_clock | rewrite gt_add_join | rewrite gt_set_badwake | rewrite gt_set_crashed
               | rewrite gt_modify by inr_tac ].
Ltac gt_norm_in H :=
  repeat first [ rewrite gt_tick_clock in H | rewrite gt_add_join in H | rewrite gt_set_badwake in H | rewrite gt_set_crashed in H
               | rewrite gt_modify in H by inr_tac ].

Ltac eqb_cases :=
  repeat match goal with
         | |- context [(?a =? ?b)%nat] => destruct (Nat.eqb_spec a b); subst
         | H : context [(?a =? ?b)%nat] |- _ => destruct (Nat.eqb_spec a b); subst
         end.

Ltac prj := cbn [status join_thread detached lockh result main cb gh
                 set_status set_jt set_detached set_lockh set_result set_main set_cb set_gh unlock new_thread
                 runs garg got retv claimed rdone reaped desc_alloc desc_freed stack_alloc stack_freed stack_sz t_ret t_ready2
                 g_started g_returned g_claim g_rdone g_reap g_free_stack g_ready2 tnone ghost0 thread_main0] in *.
